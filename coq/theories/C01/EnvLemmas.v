(* C01: lemmas about environments (variable slots), invalidation sets, containers and paths. *)
From CV Require Export C01.ValueLemmas.

Arguments transfer_check : simpl never.
Arguments wt : simpl never.

(* ------------------------------------------------------------------ membership / scope *)

Lemma mem_app x a b : mem x (a ++ b) = mem x a || mem x b.
Proof. unfold mem. apply existsb_app. Qed.

Lemma mem_union x a b : mem x (union a b) = mem x a || mem x b.
Proof.
  unfold union. rewrite mem_app. destruct (mem x a) eqn:Ea; simpl; [reflexivity|].
  unfold mem in *. induction b as [|y b IH]; simpl; [reflexivity|].
  destruct (existsb (Nat.eqb y) a) eqn:Ey; simpl.
  - rewrite IH. destruct (Nat.eqb x y) eqn:Exy; simpl; [|reflexivity].
    apply Nat.eqb_eq in Exy; subst. rewrite Ey in Ea. discriminate.
  - rewrite IH. reflexivity.
Qed.

Lemma mem_cons x y l : mem x (y :: l) = Nat.eqb x y || mem x l.
Proof. reflexivity. Qed.

Lemma mem_scope x n l : mem x (scope n l) = Nat.ltb x n && mem x l.
Proof.
  unfold mem, scope. induction l as [|a l IH]; simpl.
  - rewrite andb_false_r; reflexivity.
  - destruct (Nat.ltb a n) eqn:E; simpl; rewrite IH.
    + destruct (Nat.eqb x a) eqn:Ex; simpl.
      * apply Nat.eqb_eq in Ex; subst. rewrite E. reflexivity.
      * reflexivity.
    + destruct (Nat.eqb x a) eqn:Ex; simpl.
      * apply Nat.eqb_eq in Ex; subst. rewrite E. reflexivity.
      * reflexivity.
Qed.

Lemma subset_mem a b x : subset a b = true -> mem x a = true -> mem x b = true.
Proof.
  unfold subset. intros H Hx. rewrite forallb_forall in H.
  unfold mem in Hx. apply existsb_exists in Hx as (y & Hy & E). apply Nat.eqb_eq in E; subst.
  apply H; exact Hy.
Qed.

(* ------------------------------------------------------------------ set_nth *)

Lemma set_nth_length {A} (l : list A) n x : length (set_nth l n x) = length l.
Proof. revert n; induction l; destruct n; simpl; auto. Qed.

Lemma nth_set_nth_eq {A} (l : list A) n x : (n < length l)%nat -> nth_error (set_nth l n x) n = Some x.
Proof. revert n; induction l; destruct n; simpl; intro H; try lia; auto. apply IHl; lia. Qed.

Lemma nth_set_nth_neq {A} (l : list A) n m x : n <> m -> nth_error (set_nth l n x) m = nth_error l m.
Proof. revert n m; induction l; destruct n, m; simpl; intro H; try congruence; auto. Qed.

Lemma forallb_set_nth {A} (f : A -> bool) l n x :
  forallb f l = true -> f x = true -> forallb f (set_nth l n x) = true.
Proof.
  revert n; induction l; destruct n; simpl; intros H Hx; auto.
  - apply andb_true_iff in H as [_ H]. rewrite Hx, H; reflexivity.
  - apply andb_true_iff in H as [H1 H]. rewrite H1. simpl. apply IHl; assumption.
Qed.

Lemma forallb_nth {A} (f : A -> bool) l n x : forallb f l = true -> nth_error l n = Some x -> f x = true.
Proof.
  intros H Hn. rewrite forallb_forall in H. apply H. eapply nth_error_In; eauto.
Qed.

Lemma nth_firstn_lt {A} (l : list A) n i : (i < n)%nat -> nth_error (firstn n l) i = nth_error l i.
Proof.
  revert n i; induction l; intros n i H; destruct n, i; simpl; try lia; try reflexivity.
  apply IHl; lia.
Qed.

(* ------------------------------------------------------------------ environments *)

Section env.
  Variable D : decls.

  Lemma env_ok_length G inv r : env_ok D G inv r -> length r = length G.
  Proof. intros [H _]; exact H. Qed.

  Lemma env_ok_read G inv r x t :
    env_ok D G inv r -> nth_error G x = Some t -> mem x inv = false ->
    exists v, read_var r x = Ok v /\ wt D v t = true.
  Proof.
    intros [Hl H] Hx Hm.
    assert (Hlt : (x < length r)%nat) by (rewrite Hl; apply nth_error_Some; congruence).
    destruct (nth_error r x) as [o|] eqn:Er; [|apply nth_error_None in Er; lia].
    specialize (H _ _ _ Hx Er). unfold read_var. rewrite Er.
    destruct o; simpl in H.
    - eexists; split; [reflexivity|exact H].
    - congruence.
  Qed.

  Lemma env_ok_weaken G inv inv' r :
    env_ok D G inv r -> (forall i, mem i inv = true -> mem i inv' = true) -> env_ok D G inv' r.
  Proof.
    intros [Hl H] Hs. split; [exact Hl|]. intros i t o Hi Ho. specialize (H _ _ _ Hi Ho).
    destruct o; simpl in *; auto.
  Qed.

  Lemma env_ok_app_l G a b r : env_ok D G a r -> env_ok D G (union a b) r.
  Proof. intro H. eapply env_ok_weaken; eauto. intros i Hi. rewrite mem_union, Hi. reflexivity. Qed.

  Lemma env_ok_app_r G a b r : env_ok D G b r -> env_ok D G (union a b) r.
  Proof. intro H. eapply env_ok_weaken; eauto. intros i Hi. rewrite mem_union, Hi. apply orb_true_r. Qed.

  Lemma env_ok_subset G a b r : env_ok D G a r -> subset a b = true -> env_ok D G b r.
  Proof. intros H Hs. eapply env_ok_weaken; eauto. intros i Hi. eapply subset_mem; eauto. Qed.

  Lemma env_ok_move G inv r x : env_ok D G inv r -> env_ok D G (x :: inv) (write_var r x None).
  Proof.
    intros [Hl H]. split; [unfold write_var; rewrite set_nth_length; exact Hl|].
    intros i t o Hi Ho. unfold write_var in Ho.
    destruct (Nat.eq_dec x i) as [->|Hne].
    - assert (Hlt : (i < length r)%nat) by (rewrite Hl; apply nth_error_Some; congruence).
      rewrite nth_set_nth_eq in Ho by exact Hlt. inversion Ho; subst. unfold slot_ok.
      rewrite mem_cons, Nat.eqb_refl. reflexivity.
    - rewrite nth_set_nth_neq in Ho by exact Hne. specialize (H _ _ _ Hi Ho).
      destruct o; unfold slot_ok in *; auto. rewrite mem_cons, H. apply orb_true_r.
  Qed.

  Lemma env_ok_write G inv r x t v :
    env_ok D G inv r -> nth_error G x = Some t -> wt D v t = true ->
    env_ok D G inv (write_var r x (Some v)).
  Proof.
    intros [Hl H] Hx Hv. split; [unfold write_var; rewrite set_nth_length; exact Hl|].
    intros i t' o Hi Ho. unfold write_var in Ho.
    destruct (Nat.eq_dec x i) as [->|Hne].
    - assert (Hlt : (i < length r)%nat) by (rewrite Hl; apply nth_error_Some; congruence).
      rewrite nth_set_nth_eq in Ho by exact Hlt. inversion Ho; subst. simpl. congruence.
    - rewrite nth_set_nth_neq in Ho by exact Hne. eapply H; eauto.
  Qed.

  Lemma env_ok_push G inv r t v :
    env_ok D G inv r -> wt D v t = true -> env_ok D (G ++ [t]) inv (r ++ [Some v]).
  Proof.
    intros [Hl H] Hv. split; [rewrite !app_length, Hl; reflexivity|].
    intros i t' o Hi Ho.
    destruct (Nat.lt_ge_cases i (length G)) as [Hlt|Hge].
    - rewrite nth_error_app1 in Hi by exact Hlt. rewrite nth_error_app1 in Ho by lia. eauto.
    - rewrite nth_error_app2 in Hi by exact Hge. rewrite nth_error_app2 in Ho by lia.
      rewrite Hl in Ho. destruct (i - length G)%nat as [|k]; simpl in *.
      + inversion Hi; inversion Ho; subst. exact Hv.
      + destruct k; discriminate.
  Qed.

  (* leaving a scope: keep the first |G| slots *)
  Lemma env_ok_pop G G2 inv r :
    env_ok D (G ++ G2) inv r -> env_ok D G (scope (length G) inv) (firstn (length G) r).
  Proof.
    intros [Hl H]. rewrite app_length in Hl. split.
    - rewrite firstn_length. lia.
    - intros i t o Hi Ho.
      assert (Hlt : (i < length G)%nat) by (apply nth_error_Some; congruence).
      rewrite nth_firstn_lt in Ho by exact Hlt.
      assert (Hi' : nth_error (G ++ G2) i = Some t) by (rewrite nth_error_app1; assumption).
      specialize (H _ _ _ Hi' Ho). destruct o; simpl in *; auto.
      rewrite mem_scope, H. apply Nat.ltb_lt in Hlt. rewrite Hlt. reflexivity.
  Qed.

  Lemma env_ok_pop0 G inv r :
    env_ok D G inv r -> env_ok D G (scope (length G) inv) (firstn (length G) r).
  Proof.
    intro H. apply (env_ok_pop G []). rewrite app_nil_r. exact H.
  Qed.

  Lemma env_ok_scope_weaken G n inv r : env_ok D G (scope n inv) r -> env_ok D G inv r.
  Proof.
    intro H. eapply env_ok_weaken; eauto. intros i Hi. rewrite mem_scope in Hi.
    apply andb_true_iff in Hi as [_ Hi]; exact Hi.
  Qed.

  Lemma env_ok_firstn_id G inv r : env_ok D G inv r -> firstn (length G) r = r.
  Proof. intros [Hl _]. rewrite <- Hl. apply firstn_all. Qed.

  (* ---------------------------------------------------------------- containers *)

  Definition elem_ok (t : ty) (x : val) : bool := wfv D x && subtype (dyn x) t.

  Lemma wfv_arr t l : wfv D (VArr t l) = forallb (elem_ok t) l.
  Proof. reflexivity. Qed.

  Definition entry_ok (tk tv : ty) (p : val * val) : bool :=
    let '(k, x) := p in wfv D k && subtype (dyn k) tk && wfv D x && subtype (dyn x) tv.

  Lemma wfv_dict tk tv l : wfv D (VDict tk tv l) = forallb (entry_ok tk tv) l.
  Proof. reflexivity. Qed.

  Lemma dict_get_ok tk tv l k x :
    forallb (entry_ok tk tv) l = true -> dict_get l k = Some x -> wfv D x = true /\ subtype (dyn x) tv = true.
  Proof.
    induction l as [|[k' w] l IH]; simpl; intros H Hg; [discriminate|].
    apply andb_true_iff in H as [H1 H2].
    destruct (val_equal k' k).
    - inversion Hg; subst. apply andb_true_iff in H1 as [H1 Hb]. apply andb_true_iff in H1 as [_ Ha].
      split; assumption.
    - auto.
  Qed.

  Lemma dict_set_ok tk tv l k x :
    forallb (entry_ok tk tv) l = true -> entry_ok tk tv (k, x) = true ->
    forallb (entry_ok tk tv) (dict_set l k x) = true.
  Proof.
    intros H Hx. induction l as [|[k' w] l IH].
    - simpl in *. rewrite Hx; reflexivity.
    - cbn [dict_set]. cbn [forallb] in H. apply andb_true_iff in H as [H1 H2].
      destruct (val_equal k' k); cbn [forallb].
      + rewrite H2, andb_true_r.
        unfold entry_ok in *. apply andb_true_iff in H1 as [H1 _]. apply andb_true_iff in H1 as [H1 _].
        apply andb_true_iff in Hx as [Hx Hx4]. apply andb_true_iff in Hx as [_ Hx3].
        rewrite H1, Hx3, Hx4. reflexivity.
      + rewrite H1. cbn [andb]. apply IH; exact H2.
  Qed.

  Lemma dict_remove_ok tk tv l k :
    forallb (entry_ok tk tv) l = true -> forallb (entry_ok tk tv) (dict_remove l k) = true.
  Proof.
    induction l as [|[k' w] l IH]; simpl; intro H; [reflexivity|].
    apply andb_true_iff in H as [H1 H2].
    destruct (val_equal k' k); simpl; [exact H2|]. rewrite H1. simpl. auto.
  Qed.

End env.
