(* C01 typed mini-Cadence: definitional interpreter with fuel (definitions only), written in the
   shape of the tree-walking interpreter of /repo (interpreter/interpreter_expression.go,
   interpreter_statement.go, interpreter_invocation.go, interpreter.go).

   [Err Internal] is produced EXACTLY where the Go code has a defensive check:
     - transfer_check      : ConvertAndBoxWithValidation (ValueTransferTypeError), both checks
     - read of an invalidated variable : checkInvalidatedResourceUse (InvalidatedResourceError)
     - member_check        : CheckMemberAccessTargetType (MemberAccessTypeError)
     - indexed_check       : CheckIndexedType (IndexedTypeError)
     - falling off the end of a non-Void function: the result Void is validated against the return type
     - errors.NewUnreachableError branches: operands of the wrong Go type, `?.` on a non-optional
       value, break/continue reaching a function boundary, unknown function/composite.
   User errors: Overflow/Underflow/DivZero (checked arithmetic), TypeMismatch (force-unwrap of nil,
   failed force cast), IndexOOB, UserOther (panic, container mutation check, missing key ...).

   [boxcond] selects the treatment of the conditional expression `c ? a : b`:
     true  = the branch value is converted/boxed to the checker's join type (what the type system
             promises: an expression of type T? evaluates to nil or Some);
     false = interpreter_expression.go VisitConditionalExpression as written: the branch value is
             returned as is. *)
From CV Require Export C01.Check.

Definition env := list (option val).

Inductive outcome := ONormal | OBreak | OContinue | OReturn (v : val).

(* ------------------------------------------------------------------ value library *)

Definition i8_range (r : Z) : res val :=
  if r >? 127 then Err Overflow else if r <? -128 then Err Underflow else Ok (VI8 r).

Definition arith8 (op : binop) (x y : Z) : res val :=
  match op with
  | BAdd => i8_range (x + y)
  | BSub => i8_range (x - y)
  | BMul => i8_range (x * y)
  | BDiv => if y =? 0 then Err DivZero
            else if (x =? -128) && (y =? -1) then Err Overflow else Ok (VI8 (Z.quot x y))
  | BMod => if y =? 0 then Err DivZero else Ok (VI8 (Z.rem x y))
  | BLt => Ok (VBool (x <? y))
  | BLe => Ok (VBool (x <=? y))
  | BGt => Ok (VBool (x >? y))
  | BGe => Ok (VBool (x >=? y))
  end.

Definition arithI (op : binop) (x y : Z) : res val :=
  match op with
  | BAdd => Ok (VInt (x + y))
  | BSub => Ok (VInt (x - y))
  | BMul => Ok (VInt (x * y))
  | BDiv => if y =? 0 then Err DivZero else Ok (VInt (Z.quot x y))
  | BMod => if y =? 0 then Err DivZero else Ok (VInt (Z.rem x y))
  | BLt => Ok (VBool (x <? y))
  | BLe => Ok (VBool (x <=? y))
  | BGt => Ok (VBool (x >? y))
  | BGe => Ok (VBool (x >=? y))
  end.

(* VisitBinaryExpression: operands of another Go type -> unreachable *)
Definition binop_apply (op : binop) (a b : val) : res val :=
  match a, b with
  | VI8 x, VI8 y => arith8 op x y
  | VInt x, VInt y => arithI op x y
  | _, _ => Err Internal
  end.

Fixpoint unbox (v : val) : val := match v with VSome w => unbox w | _ => v end.

Fixpoint zlist_eqb (a b : list Z) : bool :=
  match a, b with
  | [], [] => true
  | x :: a', y :: b' => (x =? y) && zlist_eqb a' b'
  | _, _ => false
  end.

(* testValueEqual after Unbox of both sides; non-equatable values compare unequal *)
Definition val_equal (a b : val) : bool :=
  match unbox a, unbox b with
  | VI8 x, VI8 y => x =? y
  | VInt x, VInt y => x =? y
  | VBool x, VBool y => Bool.eqb x y
  | VStr x, VStr y => zlist_eqb x y
  | VNil, VNil => true
  | _, _ => false
  end.

(* ConvertAndBoxWithValidation (convert is the identity on the values of the fragment) *)
Definition transfer_check (v : val) (vt tt : ty) : res val :=
  if subtype (dyn v) vt then
    let r := box v tt in
    if subtype (dyn r) tt then Ok r else Err Internal
  else Err Internal.

(* CheckMemberAccessTargetType *)
Definition member_check (v : val) (expected : ty) : res unit :=
  if is_opt expected && negb (is_opt (dyn v)) then Err Internal
  else if subtype (dyn v) expected then Ok tt else Err Internal.

(* CheckIndexedType *)
Definition indexed_check (v : val) (expected : ty) : res unit :=
  if subtype (dyn v) expected then Ok tt else Err Internal.

(* getMember on a composite; a missing field is UseBeforeInitializationError (user error) *)
Definition get_field (v : val) (f : nat) : res val :=
  match v with
  | VComp _ _ fs => match nth_error fs f with Some x => Ok x | None => Err UserOther end
  | _ => Err Internal
  end.

Fixpoint set_nth {A} (l : list A) (n : nat) (x : A) : list A :=
  match l, n with
  | [], _ => []
  | _ :: r, O => x :: r
  | y :: r, S n' => y :: set_nth r n' x
  end.

(* NumberValue.ToInt: an index that does not fit a Go int is an OverflowError *)
Definition int_ovf (z : Z) : bool := (z <? -9223372036854775808) || (z >? 9223372036854775807).

Definition index_of (i : val) : option Z :=
  match i with VI8 z | VInt z => Some z | _ => None end.

Fixpoint dict_get (l : list (val * val)) (k : val) : option val :=
  match l with
  | [] => None
  | (k', v) :: r => if val_equal k' k then Some v else dict_get r k
  end.

Fixpoint dict_set (l : list (val * val)) (k v : val) : list (val * val) :=
  match l with
  | [] => [(k, v)]
  | (k', w) :: r => if val_equal k' k then (k', v) :: r else (k', w) :: dict_set r k v
  end.

Fixpoint dict_remove (l : list (val * val)) (k : val) : list (val * val) :=
  match l with
  | [] => []
  | (k', w) :: r => if val_equal k' k then r else (k', w) :: dict_remove r k
  end.

(* ArrayValue.Get / DictionaryValue.GetKey *)
Definition get_index (c i : val) : res val :=
  match c with
  | VArr _ l =>
    match index_of i with
    | Some z => if int_ovf z then Err Overflow
                else if (z <? 0) || (Z.of_nat (length l) <=? z) then Err IndexOOB
                else match nth_error l (Z.to_nat z) with Some x => Ok x | None => Err IndexOOB end
    | None => Err Internal
    end
  | VDict _ _ l => match dict_get l i with Some x => Ok (VSome x) | None => Ok VNil end
  | _ => Err Internal
  end.

(* ArrayValue.Set / DictionaryValue.SetKey with the container mutation check
   (ContainerMutationError is a user error) *)
Definition set_index (c i v : val) : res val :=
  match c with
  | VArr t l =>
    match index_of i with
    | Some z => if int_ovf z then Err Overflow
                else if negb (subtype (dyn v) t) then Err UserOther   (* the mutation check comes first *)
                else if (z <? 0) || (Z.of_nat (length l) <=? z) then Err IndexOOB
                else Ok (VArr t (set_nth l (Z.to_nat z) v))
    | None => Err Internal
    end
  | VDict tk tv l =>
    if subtype (dyn i) tk then
      match v with
      | VSome x => if subtype (dyn x) tv then Ok (VDict tk tv (dict_set l i x)) else Err UserOther
      | VNil => Ok (VDict tk tv (dict_remove l i))
      | _ => Err Internal
      end
    else Err UserOther
  | _ => Err Internal
  end.

Definition set_field (c : val) (f : nat) (v : val) : res val :=
  match c with
  | VComp r n fs => if Nat.ltb f (length fs) then Ok (VComp r n (set_nth fs f v)) else Err UserOther
  | _ => Err Internal
  end.

Definition append_val (c v : val) : res val :=
  match c with
  | VArr t l => if subtype (dyn v) t then Ok (VArr t (l ++ [v])) else Err UserOther
  | _ => Err Internal
  end.

(* evaluated assignment target: root variable and access path *)
Inductive step := PIdx (i : val) | PMem (f : nat).

Fixpoint get_path (v : val) (p : list step) : res val :=
  match p with
  | [] => Ok v
  | PIdx i :: r => let* x := get_index v i in get_path x r
  | PMem f :: r => let* x := get_field v f in get_path x r
  end.

(* apply [upd] to the component of v at path p *)
Fixpoint upd_path (v : val) (p : list step) (upd : val -> res val) : res val :=
  match p with
  | [] => upd v
  | PIdx i :: r =>
    match v with
    | VArr t l =>
      match index_of i with
      | Some z => if int_ovf z then Err Overflow
                else if (z <? 0) || (Z.of_nat (length l) <=? z) then Err IndexOOB
                  else match nth_error l (Z.to_nat z) with
                       | Some x => let* x' := upd_path x r upd in
                                   Ok (VArr t (set_nth l (Z.to_nat z) x'))
                       | None => Err IndexOOB
                       end
      | None => Err Internal
      end
    | _ => Err Internal
    end
  | PMem f :: r =>
    match v with
    | VComp k n fs =>
      match nth_error fs f with
      | Some x => let* x' := upd_path x r upd in Ok (VComp k n (set_nth fs f x'))
      | None => Err UserOther
      end
    | _ => Err Internal
    end
  end.

(* set the last step of the path *)
Definition set_last (s : step) (nv : val) (c : val) : res val :=
  match s with
  | PIdx i => set_index c i nv
  | PMem f => set_field c f nv
  end.

Definition read_var (r : env) (x : nat) : res val :=
  match nth_error r x with
  | Some (Some v) => Ok v
  | Some None => Err Internal       (* checkInvalidatedResourceUse *)
  | None => Err Internal            (* unknown variable: unreachable *)
  end.

Definition write_var (r : env) (x : nat) (v : option val) : env := set_nth r x v.

(* assignment through an evaluated target: prefix path to the container and the last step *)
Definition assign_path (r : env) (x : nat) (q : list step) (last : option step) (nv : val) : res env :=
  match last with
  | None => Ok (write_var r x (Some nv))
  | Some l =>
    let* root := read_var r x in
    let* root' := upd_path root q (set_last l nv) in
    Ok (write_var r x (Some root'))
  end.

Definition full_path (q : list step) (last : option step) : list step :=
  match last with Some l => q ++ [l] | None => q end.

Definition append_path (r : env) (x : nat) (p : list step) (nv : val) : res env :=
  let* root := read_var r x in
  let* root' := upd_path root p (fun c => append_val c nv) in
  Ok (write_var r x (Some root')).

(* castValueAndValueType: dynamic casts unbox optionals unless the target is AnyStruct/AnyResource *)
Definition cast_prep (t : ty) (v : val) : val * bool :=
  match snd (strip t) with
  | TAnyS | TAnyR => (v, false)
  | _ => match v with VSome _ => (unbox v, true) | _ => (v, false) end
  end.

(* dictionary literal: entries inserted in order (a repeated key keeps its first position) *)
Fixpoint dict_build (l : list val) (acc : list (val * val)) : list (val * val) :=
  match l with
  | k :: v :: rest => dict_build rest (dict_set acc k v)
  | _ => acc
  end.

(* ------------------------------------------------------------------ the interpreter *)

Section interp.
  Variable P : program.
  Variable boxcond : bool.

  Fixpoint eval (n : nat) (e : expr) (r : env) {struct n} : res (val * env) :=
    match n with
    | O => Err OutOfFuel
    | S n' =>
      match e with
      | ELit8 z => Ok (VI8 z, r)
      | ELitInt z => Ok (VInt z, r)
      | EBool b => Ok (VBool b, r)
      | EStr s => Ok (VStr s, r)
      | ENil => Ok (VNil, r)
      | EVar x => let* v := read_var r x in Ok (v, r)
      | EMove x => let* v := read_var r x in Ok (v, write_var r x None)
      | EBin op a b =>
        let* (va, r1) := eval n' a r in
        let* (vb, r2) := eval n' b r1 in
        let* v := binop_apply op va vb in
        Ok (v, r2)
      | EEq neg a b =>
        let* (va, r1) := eval n' a r in
        let* (vb, r2) := eval n' b r1 in
        Ok (VBool (xorb neg (val_equal va vb)), r2)
      | EAnd a b =>
        let* (va, r1) := eval n' a r in
        match va with
        | VBool false => Ok (VBool false, r1)
        | VBool true =>
          let* (vb, r2) := eval n' b r1 in
          match vb with VBool _ => Ok (vb, r2) | _ => Err Internal end
        | _ => Err Internal
        end
      | EOr a b =>
        let* (va, r1) := eval n' a r in
        match va with
        | VBool true => Ok (VBool true, r1)
        | VBool false =>
          let* (vb, r2) := eval n' b r1 in
          match vb with VBool _ => Ok (vb, r2) | _ => Err Internal end
        | _ => Err Internal
        end
      | ENot a =>
        let* (va, r1) := eval n' a r in
        match va with VBool b => Ok (VBool (negb b), r1) | _ => Err Internal end
      | ECoalesce a b tl tr tj =>
        let* (va, r1) := eval n' a r in
        match va with
        | VSome v =>
          match tl with
          | TOpt t => let* w := transfer_check v t tj in Ok (w, r1)
          | _ => Err Internal
          end
        | _ =>
          (* anything that is not a SomeValue makes the right operand run *)
          let* (vb, r2) := eval n' b r1 in
          let* w := transfer_check vb tr tj in Ok (w, r2)
        end
      | ECond c a b ta tb tj =>
        let* (vc, r0) := eval n' c r in
        match vc with
        | VBool true =>
          let* (va, r1) := eval n' a r0 in
          if boxcond then let* w := transfer_check va ta tj in Ok (w, r1) else Ok (va, r1)
        | VBool false =>
          let* (vb, r1) := eval n' b r0 in
          if boxcond then let* w := transfer_check vb tb tj in Ok (w, r1) else Ok (vb, r1)
        | _ => Err Internal
        end
      | EForce a =>
        (* also applies to a non-optional operand (the checker only hints): Some and nil are still unwrapped *)
        let* (va, r1) := eval n' a r in
        match va with
        | VSome v => Ok (v, r1)
        | VNil => Err TypeMismatch
        | _ => Ok (va, r1)
        end
      | EMember a f ta =>
        let* (va, r1) := eval n' a r in
        let* _ := member_check va ta in
        let* v := get_field va f in
        Ok (v, r1)
      | EOptMember a f ta =>
        let* (va, r1) := eval n' a r in
        let* _ := member_check va ta in
        match va with
        | VNil => Ok (VNil, r1)
        | VSome c =>
          let* v := get_field c f in
          match v with
          | VNil | VSome _ => Ok (v, r1)
          | _ => Ok (VSome v, r1)
          end
        | _ => Err Internal
        end
      | ECast k a tv t =>
        let* (va, r1) := eval n' a r in
        match k with
        | CStatic => let* w := transfer_check va tv t in Ok (w, r1)
        | _ =>
          let '(cv, changed) := cast_prep t va in
          if subtype (dyn cv) t then
            let* w := transfer_check cv (if changed then dyn cv else tv) t in
            match k with
            | CFailable => Ok (VSome w, r1)
            | _ => Ok (w, r1)
            end
          else match k with
               | CFailable => Ok (VNil, r1)
               | _ => Err TypeMismatch
               end
        end
      | EArr es te =>
        let* (vs, r1) := evals n' es (fun _ => te) O r in
        Ok (VArr te vs, r1)
      | EDict es tk tv =>
        let* (vs, r1) := evals n' es (fun i => if Nat.even i then tk else tv) O r in
        Ok (VDict tk tv (dict_build vs []), r1)
      | EIndex a i ta ti tr =>
        let* (va, r1) := eval n' a r in
        let* (vi, r2) := eval n' i r1 in
        let* vi' := transfer_check vi ti (match ta with TDict k _ => k | _ => ti end) in
        let* _ := indexed_check va ta in
        let* x := get_index va vi' in
        Ok (if is_opt tr then box x tr else x, r2)
      | ELen a =>
        let* (va, r1) := eval n' a r in
        match va with
        | VArr _ l => Ok (VInt (Z.of_nat (length l)), r1)
        | _ => Err Internal
        end
      | ECall f args =>
        match nth_error (p_funs P) f with
        | Some fd =>
          let* (vs, r1) := evals n' args (fun i => nth i (fn_params fd) TVoid) O r in
          let* v := callf n' f vs in
          Ok (v, r1)
        | None => Err Internal
        end
      | ECtor c args =>
        match nth_error (p_decls P) c with
        | Some (k, fts) =>
          let* (vs, r1) := evals n' args (fun i => nth i fts TVoid) O r in
          Ok (VComp k c vs, r1)
        | None => Err Internal
        end
      | EPanic => Err UserOther
      end
    end
  (* evaluate expressions left to right; the i-th value is transferred to the type [tgt i] *)
  with evals (n : nat) (es : exprs) (tgt : nat -> ty) (i : nat) (r : env) {struct n}
    : res (list val * env) :=
    match n with
    | O => Err OutOfFuel
    | S n' =>
      match es with
      | ENone => Ok ([], r)
      | EMore e t rest =>
        let* (v, r1) := eval n' e r in
        let* w := transfer_check v t (tgt i) in
        let* (vs, r2) := evals n' rest tgt (S i) r1 in
        Ok (w :: vs, r2)
      end
    end
  (* evaluate the sub-expressions of an assignment target: root variable and access path *)
  with eval_target (n : nat) (g : target) (r : env) {struct n}
    : res (nat * list step * option step * env) :=
    match n with
    | O => Err OutOfFuel
    | S n' =>
      match g with
      | TgVar x => Ok (x, [], None, r)
      | TgIndex g' i =>
        let* (x, q, l, r1) := eval_target n' g' r in
        let* (vi, r2) := eval n' i r1 in
        Ok (x, full_path q l, Some (PIdx vi), r2)
      | TgMember g' f =>
        let* (x, q, l, r1) := eval_target n' g' r in
        Ok (x, full_path q l, Some (PMem f), r1)
      end
    end
  with exec (n : nat) (s : stmt) (r : env) {struct n} : res (outcome * env) :=
    match n with
    | O => Err OutOfFuel
    | S n' =>
      match s with
      | SLet _ e tv tg =>
        let* (v, r1) := eval n' e r in
        let* w := transfer_check v tv tg in
        Ok (ONormal, r1 ++ [Some w])
      | SAssign g e tv tg =>
        let* (x, q, l, r1) := eval_target n' g r in
        (* the getter chain of the target runs before the value is evaluated *)
        let* _ := match l with
                  | Some _ => let* root := read_var r1 x in get_path root q
                  | None => Ok VVoid
                  end in
        let* (v, r2) := eval n' e r1 in
        let* w := transfer_check v tv tg in
        let* r3 := assign_path r2 x q l w in
        Ok (ONormal, r3)
      | SSwap x y =>
        let* vx := read_var r x in
        let* vy := read_var r y in
        Ok (ONormal, write_var (write_var r x (Some vy)) y (Some vx))
      | SAppend g e tv tg =>
        let* (x, q, l, r1) := eval_target n' g r in
        let* root := read_var r1 x in
        let* _ := get_path root (full_path q l) in
        let* (v, r2) := eval n' e r1 in
        let* w := transfer_check v tv tg in
        let* r3 := append_path r2 x (full_path q l) w in
        Ok (ONormal, r3)
      | SIf c b1 b2 =>
        let* (vc, r1) := eval n' c r in
        match vc with
        | VBool true => let* (o, r2) := exec_block n' b1 r1 in Ok (o, firstn (length r1) r2)
        | VBool false => let* (o, r2) := exec_block n' b2 r1 in Ok (o, firstn (length r1) r2)
        | _ => Err Internal
        end
      | SIfLet e tv b1 b2 =>
        let* (v0, r1) := eval n' e r in
        (* the optional binding is a variable declaration: the value is transferred and
           converted to the declared (optional) type before it is tested *)
        let* v := transfer_check v0 tv tv in
        match v with
        | VSome w =>
          let* (o, r2) := exec_block n' b1 (r1 ++ [Some w]) in Ok (o, firstn (length r1) r2)
        | VNil =>
          let* (o, r2) := exec_block n' b2 r1 in Ok (o, firstn (length r1) r2)
        | _ => Err Internal
        end
      | SWhile c b =>
        let* (vc, r1) := eval n' c r in
        match vc with
        | VBool true =>
          let* (o, r2) := exec_block n' b r1 in
          let r3 := firstn (length r1) r2 in
          match o with
          | OBreak => Ok (ONormal, r3)
          | OReturn v => Ok (OReturn v, r3)
          | _ => exec n' s r3
          end
        | VBool false => Ok (ONormal, r1)
        | _ => Err Internal
        end
      | SFor e te b =>
        let* (v, r1) := eval n' e r in
        match v with
        | VArr _ l => for_loop n' l te b r1
        | _ => Err Internal
        end
      | SReturn None _ _ => Ok (OReturn VVoid, r)
      | SReturn (Some e) tv rt =>
        let* (v, r1) := eval n' e r in
        let* w := transfer_check v tv rt in
        Ok (OReturn w, r1)
      | SBreak => Ok (OBreak, r)
      | SContinue => Ok (OContinue, r)
      | SExpr e => let* (_, r1) := eval n' e r in Ok (ONormal, r1)
      | SDestroy e => let* (_, r1) := eval n' e r in Ok (ONormal, r1)
      | SGuard c b =>
        let* (vc, r1) := eval n' c r in
        match vc with
        | VBool true => Ok (ONormal, r1)
        | VBool false =>
          let* (o, r2) := exec_block n' b r1 in
          match o with
          | ONormal => Err Internal      (* visitGuardElseBlock: UnreachableInstructionError *)
          | _ => Ok (o, firstn (length r1) r2)
          end
        | _ => Err Internal
        end
      | SGuardLet e tv b rest =>
        let* (v0, r1) := eval n' e r in
        let* v := transfer_check v0 tv tv in
        match v with
        | VSome w =>
          let* (o, r2) := exec_block n' rest (r1 ++ [Some w]) in Ok (o, firstn (length r1) r2)
        | VNil =>
          let* (o, r2) := exec_block n' b r1 in
          match o with
          | ONormal => Err Internal      (* visitGuardElseBlock: UnreachableInstructionError *)
          | _ => Ok (o, firstn (length r1) r2)
          end
        | _ => Err Internal
        end
      end
    end
  with for_loop (n : nat) (l : list val) (te : ty) (b : block) (r : env) {struct n}
    : res (outcome * env) :=
    match n with
    | O => Err OutOfFuel
    | S n' =>
      match l with
      | [] => Ok (ONormal, r)
      | x :: rest =>
        (* the element is converted and boxed to the loop variable's type (no validation) *)
        let* (o, r2) := exec_block n' b (r ++ [Some (box x te)]) in
        let r3 := firstn (length r) r2 in
        match o with
        | OBreak => Ok (ONormal, r3)
        | OReturn v => Ok (OReturn v, r3)
        | _ => for_loop n' rest te b r3
        end
      end
    end
  with exec_block (n : nat) (b : block) (r : env) {struct n} : res (outcome * env) :=
    match n with
    | O => Err OutOfFuel
    | S n' =>
      match b with
      | BNil => Ok (ONormal, r)
      | BCons s rest =>
        let* (o, r1) := exec n' s r in
        match o with
        | ONormal => exec_block n' rest r1
        | _ => Ok (o, r1)
        end
      end
    end
  (* invocation of user function f with already converted arguments *)
  with callf (n : nat) (f : nat) (args : list val) {struct n} : res val :=
    match n with
    | O => Err OutOfFuel
    | S n' =>
      match nth_error (p_funs P) f with
      | Some fd =>
        let* (o, _) := exec_block n' (fn_body fd) (map Some args) in
        match o with
        | OReturn v => Ok v
        | ONormal =>
          (* the implicit result Void is validated against the declared return type *)
          if subtype TVoid (fn_ret fd) then Ok VVoid else Err Internal
        | _ => Err Internal
        end
      | None => Err Internal
      end
    end.

End interp.
