(* Check function for the per-run correspondence case files of C01: a generated program of the
   fragment (as a Coq term), its arguments, the verdict of the real checker and what the two real
   engines produced. *)
From CV Require Export C01.Interp.

(* run main (function 0) of an ELABORATED program on already imported argument values *)
Definition run (boxcond : bool) (fuel : nat) (p : program) (args : list val) : res val :=
  callf p boxcond fuel O args.

(* exported values, as the harness renders cadence.Value (no run-time types) *)
Inductive oval :=
| OI8 (z : Z) | OInt (z : Z) | OBool (b : bool) | OStr (s : list Z) | OVoid | ONil | OSome (o : oval)
| OArr (l : list oval) | ODict (l : list (oval * oval)) | OComp (n : nat) (l : list oval)
| OOpaque.

Fixpoint export (n : nat) (v : val) : oval :=
  match n with
  | O => OOpaque
  | S n' =>
    match v with
    | VI8 z => OI8 z
    | VInt z => OInt z
    | VBool b => OBool b
    | VStr s => OStr s
    | VVoid => OVoid
    | VNil => ONil
    | VSome w => OSome (export n' w)
    | VArr _ l => OArr (map (export n') l)
    | VDict _ _ l => ODict (map (fun kv => (export n' (fst kv), export n' (snd kv))) l)
    | VComp _ c l => OComp c (map (export n') l)
    end
  end.

Section oeq.
  Variable oeq : oval -> oval -> bool.
  Fixpoint olist_eqb (a b : list oval) : bool :=
    match a, b with
    | [], [] => true
    | x :: a', y :: b' => oeq x y && olist_eqb a' b'
    | _, _ => false
    end.
  Fixpoint ofind (k : oval) (l : list (oval * oval)) : option oval :=
    match l with
    | [] => None
    | (k', v) :: r => if oeq k' k then Some v else ofind k r
    end.
  Fixpoint osub (a b : list (oval * oval)) : bool :=
    match a with
    | [] => true
    | (k, v) :: r => match ofind k b with Some w => oeq v w | None => false end && osub r b
    end.
End oeq.

(* dictionaries are compared as finite maps (entry order is not an observable) *)
Fixpoint oval_eqb (n : nat) (a b : oval) : bool :=
  match n with
  | O => false
  | S n' =>
    match a, b with
    | OI8 x, OI8 y => x =? y
    | OInt x, OInt y => x =? y
    | OBool x, OBool y => Bool.eqb x y
    | OStr x, OStr y => zlist_eqb x y
    | OVoid, OVoid => true
    | ONil, ONil => true
    | OSome x, OSome y => oval_eqb n' x y
    | OArr x, OArr y => olist_eqb (oval_eqb n') x y
    | OComp s x, OComp t y => Nat.eqb s t && olist_eqb (oval_eqb n') x y
    | ODict x, ODict y => Nat.eqb (length x) (length y) && osub (oval_eqb n') x y && osub (oval_eqb n') y x
    | _, _ => false
    end
  end.

Definition ores_eqb (a b : res oval) : bool :=
  match a, b with
  | Ok x, Ok y => oval_eqb 64 x y
  | Err e, Err f => err_eqb e f
  | _, _ => false
  end.

Definition model_fuel : nat := 4000%nat.

Definition model_outcome (boxcond : bool) (p : program) (args : list val) : res oval :=
  match run boxcond model_fuel p args with
  | Ok v => Ok (export 64 v)
  | Err e => Err e
  end.

(* A case: surface program, arguments of main, verdict of the real checker (true = accepted),
   outcome of the tree-walking interpreter, outcome of the VM, and whether the program is a
   GENERATED one (true) or a mutant (false).
   - accepted by the real checker and by the model's checker:
       the interpreter's outcome is that of the model as the interpreter is written (boxcond = false),
       the VM's outcome is that of the model with the conditional boxed (boxcond = true);
   - accepted by the real checker, rejected by the model's checker: a disagreement for generated
     programs (they are in the fragment by construction); tolerated for mutants, which may leave the
     fragment (joins to Integer/HashableStruct, operands of type Never, array equality, ...);
   - rejected by the real checker: nothing is required (the model's checker does not model resource
     loss, unreachable code, expected-type inference ... and may accept more). *)
Definition case := (program * list val * bool * res oval * res oval * bool)%type.

Definition check_case (c : case) : bool :=
  let '(p, args, accepted, oi, ov, generated) := c in
  if accepted then
    match check_program p with
    | Some p' => ores_eqb (model_outcome false p' args) oi && ores_eqb (model_outcome true p' args) ov
    | None => negb generated
    end
  else true.

(* the reverse direction, reported separately by the harness as a statistic: rejected by the real
   checker but accepted by the model *)
Definition model_accepts (p : program) : bool :=
  match check_program p with Some _ => true | None => false end.
