(* C01: typing of evaluated assignment targets (root variable + access path) and of the
   functional update along a path. *)
From CV Require Export C01.EnvLemmas.

Arguments get_index : simpl never.
Arguments get_field : simpl never.
Arguments wfv : simpl never.

Definition err_ok (e : err) : Prop := match e with Internal => False | _ => True end.

Section path.
  Variable D : decls.

  (* one access step from a value of static type tc to a component of static type tg *)
  Definition step_ty (tc : ty) (s : step) (tg : ty) : Prop :=
    match s with
    | PIdx i => (tc = TArr tg /\ exists z, index_of i = Some z) \/
                (exists k v, tc = TDict k v /\ tg = TOpt v /\ wfv D i = true)
    | PMem f => exists fs, fields_of D tc = Some fs /\ nth_error fs f = Some tg
    end.

  Fixpoint path_ty (t : ty) (p : list step) (tc : ty) : Prop :=
    match p with
    | [] => t = tc
    | s :: r => exists t1, step_ty t s t1 /\ path_ty t1 r tc
    end.

  (* evaluated target: prefix path to the container and last step (None = the variable itself) *)
  Definition tpath (troot : ty) (q : list step) (l : option step) (tg : ty) : Prop :=
    match l with
    | None => q = [] /\ troot = tg
    | Some s => exists tc, path_ty troot q tc /\ step_ty tc s tg
    end.

  Lemma path_ty_snoc : forall p t t1 s t2,
    path_ty t p t1 -> step_ty t1 s t2 -> path_ty t (p ++ [s]) t2.
  Proof.
    induction p; simpl; intros t t1 s t2 H Hs.
    - subst. exists t2. split; [exact Hs | reflexivity].
    - destruct H as (t' & H1 & H2). exists t'. split; [exact H1 | eapply IHp; eauto].
  Qed.

  Lemma tpath_full troot q l tg : tpath troot q l tg -> path_ty troot (full_path q l) tg.
  Proof.
    destruct l as [s|]; simpl.
    - intros (tc & H1 & H2). eapply path_ty_snoc; eauto.
    - intros [-> ->]. reflexivity.
  Qed.

  Lemma step_src_nonopt tc s tg : step_ty tc s tg -> is_opt tc = false.
  Proof.
    destruct s; simpl.
    - intros [[-> _] | (k & v & -> & _)]; reflexivity.
    - intros (fs & Hf & _). destruct tc; simpl in Hf; try discriminate; reflexivity.
  Qed.

  Lemma path_src_nonopt : forall p t tc, path_ty t p tc -> is_opt tc = false -> is_opt t = false.
  Proof.
    destruct p; simpl; intros t tc H Ho.
    - subst; exact Ho.
    - destruct H as (t1 & H1 & _). eapply step_src_nonopt; eauto.
  Qed.

  (* ---------------------------------------------------------------- reading along a path *)

  Lemma get_path_ok : forall p v t tc,
    wfv D v = true -> subtype (dyn v) t = true -> path_ty t p tc ->
    match get_path v p with
    | Ok x => wfv D x = true /\ subtype (dyn x) tc = true
    | Err e => err_ok e
    end.
  Proof.
    induction p as [|s p IH]; simpl; intros v t tc Hw Hs Hp.
    - subst. split; assumption.
    - destruct Hp as (t1 & Hst & Hp). destruct s as [i|f]; simpl in Hst.
      + destruct Hst as [[-> (z & Hz)] | (k & v0 & -> & -> & Hwi)].
        * destruct (wt_arr_inv _ _ Hs) as (te & l & -> & Hte).
          unfold get_index. rewrite Hz.
          destruct (int_ovf z); [exact I|].
        destruct ((z <? 0) || (Z.of_nat (length l) <=? z)); [exact I|].
          destruct (nth_error l (Z.to_nat z)) as [x|] eqn:En; [|exact I]. simpl.
          rewrite wfv_arr in Hw. pose proof (forallb_nth _ _ _ _ Hw En) as Hx.
          unfold elem_ok in Hx. apply andb_true_iff in Hx as [Hx1 Hx2].
          apply (IH x t1 tc); try assumption. eapply subtype_trans; eauto.
        * destruct (wt_dict_inv _ _ _ Hs) as (tk & tv & l & -> & Hk & Hv).
          unfold get_index. rewrite wfv_dict in Hw.
          destruct (dict_get l i) as [x|] eqn:Eg; simpl.
          -- destruct (dict_get_ok D _ _ _ _ _ Hw Eg) as [Hx1 Hx2].
             apply (IH (VSome x) (TOpt v0) tc); simpl; try assumption.
             rewrite subtype_opt_opt. eapply subtype_trans; eauto.
          -- apply (IH VNil (TOpt v0) tc); simpl; try reflexivity; try assumption.
             rewrite subtype_opt_opt. apply subtype_never.
      + destruct Hst as (fs & Hf & Hn).
        destruct (comp_inv D _ _ _ Hw Hs Hf) as (k & c & vs & -> & _ & _ & Hfs).
        destruct (fields_ok_nth D _ _ _ _ Hfs Hn) as (x & Hx & Hwx).
        unfold get_field. rewrite Hx. simpl.
        apply (IH x t1 tc); [exact (wt_wfv D _ _ Hwx) | exact (wt_sub D _ _ Hwx) | exact Hp].
  Qed.

  (* ---------------------------------------------------------------- updating along a path *)

  Definition upd_ok (tc : ty) (upd : val -> res val) : Prop :=
    forall c, wfv D c = true -> subtype (dyn c) tc = true ->
      match upd c with
      | Ok c' => wfv D c' = true /\ dyn c' = dyn c
      | Err e => err_ok e
      end.

  Lemma upd_path_ok : forall p v t tc upd,
    wfv D v = true -> subtype (dyn v) t = true -> path_ty t p tc -> is_opt tc = false ->
    upd_ok tc upd ->
    match upd_path v p upd with
    | Ok v' => wfv D v' = true /\ dyn v' = dyn v
    | Err e => err_ok e
    end.
  Proof.
    induction p as [|s p IH]; simpl; intros v t tc upd Hw Hs Hp Ho Hu.
    - subst. apply Hu; assumption.
    - destruct Hp as (t1 & Hst & Hp).
      pose proof (path_src_nonopt _ _ _ Hp Ho) as Ho1.
      destruct s as [i|f]; simpl in Hst.
      + destruct Hst as [[-> (z & Hz)] | (k & v0 & -> & -> & _)]; [|discriminate].
        destruct (wt_arr_inv _ _ Hs) as (te & l & -> & Hte). rewrite Hz.
        destruct (int_ovf z); [exact I|].
        destruct ((z <? 0) || (Z.of_nat (length l) <=? z)); [exact I|].
        destruct (nth_error l (Z.to_nat z)) as [x|] eqn:En; [|exact I].
        rewrite wfv_arr in Hw. pose proof (forallb_nth _ _ _ _ Hw En) as Hx.
        unfold elem_ok in Hx. apply andb_true_iff in Hx as [Hx1 Hx2].
        assert (Hxs : subtype (dyn x) t1 = true) by (eapply subtype_trans; eauto).
        pose proof (IH x t1 tc upd Hx1 Hxs Hp Ho Hu) as Hr.
        destruct (upd_path x p upd) as [x'|]; simpl; [|exact Hr].
        destruct Hr as [Hw' Hd']. split; [|reflexivity].
        rewrite wfv_arr. apply forallb_set_nth; [exact Hw|].
        unfold elem_ok. rewrite Hw', Hd', Hx2. reflexivity.
      + destruct Hst as (fs & Hf & Hn).
        destruct (comp_inv D _ _ _ Hw Hs Hf) as (k & c & vs & -> & _ & Hdn & Hfs).
        destruct (fields_ok_nth D _ _ _ _ Hfs Hn) as (x & Hx & Hwx).
        rewrite Hx.
        pose proof (IH x t1 tc upd (wt_wfv D _ _ Hwx) (wt_sub D _ _ Hwx) Hp Ho Hu) as Hr.
        destruct (upd_path x p upd) as [x'|]; simpl; [|exact Hr].
        destruct Hr as [Hw' Hd']. split; [|reflexivity].
        rewrite wfv_comp, Hdn. rewrite Bool.eqb_reflx. simpl.
        eapply fields_ok_set; eauto.
        apply wt_intro; [exact Hw' | rewrite Hd'; exact (wt_sub D _ _ Hwx) | apply shape_nonopt; exact Ho1].
  Qed.

  Lemma set_last_ok tc s tg nv :
    step_ty tc s tg -> wt D nv tg = true -> upd_ok tc (set_last s nv).
  Proof.
    intros Hst Hnv c Hw Hs. destruct s as [i|f]; simpl in *.
    - destruct Hst as [[-> (z & Hz)] | (k & v0 & -> & -> & Hwi)].
      + destruct (wt_arr_inv _ _ Hs) as (te & l & -> & Hte). simpl. rewrite Hz.
        destruct (int_ovf z); [exact I|].
        destruct (subtype (dyn nv) te) eqn:Es; [|exact I]. simpl.
        destruct ((z <? 0) || (Z.of_nat (length l) <=? z)); [exact I|]. split; [|reflexivity].
        rewrite wfv_arr in *. apply forallb_set_nth; [exact Hw|].
        unfold elem_ok. rewrite (wt_wfv D _ _ Hnv), Es. reflexivity.
      + destruct (wt_dict_inv _ _ _ Hs) as (tk & tv & l & -> & Hk & Hv). simpl.
        destruct (subtype (dyn i) tk) eqn:Ek; [|exact I].
        apply wt_opt_inv in Hnv as [-> | (x & -> & Hx)].
        * split; [|reflexivity]. rewrite wfv_dict in *. apply dict_remove_ok. exact Hw.
        * destruct (subtype (dyn x) tv) eqn:Ex; [|exact I]. split; [|reflexivity].
          rewrite wfv_dict in *. apply dict_set_ok; [exact Hw|].
          unfold entry_ok. rewrite Hwi, Ek, (wt_wfv D _ _ Hx), Ex. reflexivity.
    - destruct Hst as (fs & Hf & Hn).
      destruct (comp_inv D _ _ _ Hw Hs Hf) as (k & n & vs & -> & _ & Hdn & Hfs).
      simpl.
      assert (Hlt : (f <? length vs)%nat = true).
      { apply Nat.ltb_lt. rewrite (fields_ok_length D _ _ Hfs). apply nth_error_Some. congruence. }
      rewrite Hlt. split; [|reflexivity].
      rewrite wfv_comp, Hdn. rewrite Bool.eqb_reflx. simpl. eapply fields_ok_set; eauto.
  Qed.

  Lemma append_ok t nv : wt D nv t = true -> upd_ok (TArr t) (fun c => append_val c nv).
  Proof.
    intros Hnv c Hw Hs.
    destruct (wt_arr_inv _ _ Hs) as (te & l & -> & Hte). simpl.
    destruct (subtype (dyn nv) te) eqn:Es; [|exact I]. split; [|reflexivity].
    rewrite wfv_arr in *. rewrite forallb_app, Hw. simpl.
    unfold elem_ok. rewrite (wt_wfv D _ _ Hnv), Es. reflexivity.
  Qed.

  (* ---------------------------------------------------------------- assignment *)

  Lemma tpath_root_nonopt troot q s tg : tpath troot q (Some s) tg -> is_opt troot = false.
  Proof.
    intros (tc & Hp & Hs). eapply path_src_nonopt; eauto. eapply step_src_nonopt; eauto.
  Qed.

  Lemma assign_path_ok G inv r x troot q l tg nv :
    env_ok D G inv r -> nth_error G x = Some troot -> mem x inv = false ->
    tpath troot q l tg -> wt D nv tg = true ->
    match assign_path r x q l nv with
    | Ok r' => env_ok D G inv r'
    | Err e => err_ok e
    end.
  Proof.
    intros He Hx Hm Htp Hnv. unfold assign_path. destruct l as [s|].
    - destruct (env_ok_read D _ _ _ _ _ He Hx Hm) as (root & Hr & Hroot). rewrite Hr. simpl.
      pose proof (tpath_root_nonopt _ _ _ _ Htp) as Hno.
      destruct Htp as (tc & Hp & Hs).
      pose proof (upd_path_ok q root troot tc (set_last s nv) (wt_wfv D _ _ Hroot) (wt_sub D _ _ Hroot)
                              Hp (step_src_nonopt _ _ _ Hs) (set_last_ok _ _ _ _ Hs Hnv)) as Hu.
      destruct (upd_path root q (set_last s nv)) as [root'|]; simpl; [|exact Hu].
      destruct Hu as [Hw' Hd']. eapply env_ok_write; eauto.
      apply wt_intro; [exact Hw' | rewrite Hd'; exact (wt_sub D _ _ Hroot) | apply shape_nonopt; exact Hno].
    - destruct Htp as [-> ->]. eapply env_ok_write; eauto.
  Qed.

  Lemma append_path_ok G inv r x troot p t nv :
    env_ok D G inv r -> nth_error G x = Some troot -> mem x inv = false ->
    path_ty troot p (TArr t) -> wt D nv t = true ->
    match append_path r x p nv with
    | Ok r' => env_ok D G inv r'
    | Err e => err_ok e
    end.
  Proof.
    intros He Hx Hm Hp Hnv. unfold append_path.
    destruct (env_ok_read D _ _ _ _ _ He Hx Hm) as (root & Hr & Hroot). rewrite Hr. simpl.
    pose proof (path_src_nonopt _ _ _ Hp eq_refl) as Hno.
    pose proof (upd_path_ok p root troot (TArr t) (fun c => append_val c nv) (wt_wfv D _ _ Hroot)
                            (wt_sub D _ _ Hroot) Hp eq_refl (append_ok _ _ Hnv)) as Hu.
    destruct (upd_path root p (fun c => append_val c nv)) as [root'|]; simpl; [|exact Hu].
    destruct Hu as [Hw' Hd']. eapply env_ok_write; eauto.
    apply wt_intro; [exact Hw' | rewrite Hd'; exact (wt_sub D _ _ Hroot) | apply shape_nonopt; exact Hno].
  Qed.

End path.
