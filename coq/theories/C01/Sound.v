(* C01: type soundness of the mini-Cadence interpreter: for a checker-accepted program, no
   evaluation step ever hits a defensive check ([Err Internal]).  Proved by induction on the fuel,
   with a typing invariant on the variable environment that is preserved by every evaluation
   step (type preservation) and that makes every defensive check pass (progress up to user errors). *)
From CV Require Export C01.PathLemmas.

Arguments box : simpl never.
Arguments member_check : simpl never.
Arguments indexed_check : simpl never.
Arguments binop_apply : simpl never.
Arguments val_equal : simpl never.
Arguments cast_prep : simpl never.
Arguments checked_join : simpl never.
Arguments read_var : simpl never.
Arguments write_var : simpl never.
Arguments scope : simpl never.
Arguments mem : simpl never.
Arguments subset : simpl never.
Arguments union : simpl never.
Arguments firstn : simpl never.

(* inversion of a successful checker equation: case-split every scrutinee *)
Ltac inv1 H :=
  match type of H with
  | (match ?x with _ => _ end) = Some _ =>
    ((is_var x; destruct x) || (let E := fresh "E" in destruct x eqn:E)); try discriminate H
  end.
Ltac inv_check H := repeat inv1 H; try (inversion H; subst; clear H).

Ltac split_ands H :=
  repeat match type of H with
  | (_ && _) = true => let H2 := fresh H in apply andb_true_iff in H as [H H2]
  end.

Lemma quot_range x y :
  -128 <= x <= 127 -> -128 <= y <= 127 -> y <> 0 -> ~(x = -128 /\ y = -1) -> -128 <= Z.quot x y <= 127.
Proof.
  intros Hx Hy Hn Hc.
  assert (Ha : Z.abs (Z.quot x y) <= Z.abs x).
  { rewrite <- Z.quot_abs by exact Hn. apply Z.quot_le_upper_bound; [lia|].
    assert (1 <= Z.abs y) by lia. nia. }
  destruct (Z.eq_dec (Z.quot x y) 128) as [E|]; [|lia].
  exfalso. assert (x = -128) by lia. subst x.
  destruct (Z.eq_dec y 1) as [->|]. { compute in E. discriminate. }
  assert (2 <= Z.abs y) by lia.
  assert (Z.abs (Z.quot (-128) y) <= 64).
  { rewrite <- Z.quot_abs by exact Hn. apply Z.quot_le_upper_bound; [lia|]. simpl. lia. }
  lia.
Qed.

Lemma rem_range x y : -128 <= x <= 127 -> -128 <= y <= 127 -> y <> 0 -> -128 <= Z.rem x y <= 127.
Proof. intros. pose proof (Z.rem_bound_abs x y H1). lia. Qed.

Lemma in_i8_iff z : in_i8 z = true <-> -128 <= z <= 127.
Proof. unfold in_i8. rewrite andb_true_iff, !Z.leb_le. tauto. Qed.

(* unfolding equations for the checker cases that call a companion of the mutual fixpoint
   (cbn does not refold those) *)
Lemma check_expr_EArr C G inv es te :
  check_expr C G inv (EArr es te) =
  match check_list C G inv es (fun _ => te) O with
  | Some (es', i1) => Some (EArr es' te, TArr te, i1)
  | None => None
  end.
Proof. reflexivity. Qed.

Lemma check_expr_EDict C G inv es tk tv :
  check_expr C G inv (EDict es tk tv) =
  if hashable tk && Nat.even (exprs_len es) then
    match check_list C G inv es (fun i => if Nat.even i then tk else tv) O with
    | Some (es', i1) => Some (EDict es' tk tv, TDict tk tv, i1)
    | None => None
    end
  else None.
Proof. reflexivity. Qed.

Lemma check_expr_ECall C G inv f args :
  check_expr C G inv (ECall f args) =
  match nth_error (ce_funs C) f with
  | Some (ps, rt) =>
    if Nat.eqb (exprs_len args) (length ps) then
      match check_list C G inv args (fun i => nth i ps TVoid) O with
      | Some (args', i1) => Some (ECall f args', rt, i1)
      | None => None
      end
    else None
  | None => None
  end.
Proof. reflexivity. Qed.

Lemma check_expr_ECtor C G inv n args :
  check_expr C G inv (ECtor n args) =
  match nth_error (ce_decls C) n with
  | Some (r, fs) =>
    if Nat.eqb (exprs_len args) (length fs) then
      match check_list C G inv args (fun i => nth i fs TVoid) O with
      | Some (args', i1) => Some (ECtor n args', comp_ty r n, i1)
      | None => None
      end
    else None
  | None => None
  end.
Proof. reflexivity. Qed.

Lemma check_list_eq C G inv es tgt i :
  check_list C G inv es tgt i =
  match es with
  | ENone => Some (ENone, inv)
  | EMore e _ r =>
    match check_expr C G inv e with
    | Some (e', t, i1) =>
      if subtype t (tgt i) then
        match check_list C G i1 r tgt (S i) with
        | Some (r', i2) => Some (EMore e' t r', i2)
        | None => None
        end
      else None
    | None => None
    end
  end.
Proof. destruct es; reflexivity. Qed.

Lemma check_stmt_SIf C G inv il c b1 b2 :
  check_stmt C G inv il (SIf c b1 b2) =
  match check_expr C G inv c with
  | Some (c', TBool, i0) =>
    match check_block C G i0 il b1 with
    | Some (b1', i1, r1) =>
      match check_block C G i0 il b2 with
      | Some (b2', i2, r2) =>
        Some (SIf c' b1' b2', G, union (scope (length G) i1) (scope (length G) i2), r1 && r2)
      | None => None
      end
    | None => None
    end
  | _ => None
  end.
Proof. reflexivity. Qed.

Lemma check_stmt_SIfLet C G inv il e tv b1 b2 :
  check_stmt C G inv il (SIfLet e tv b1 b2) =
  match check_expr C G inv e with
  | Some (e', TOpt t, i0) =>
    match check_block C (G ++ [t]) i0 il b1 with
    | Some (b1', i1, r1) =>
      match check_block C G i0 il b2 with
      | Some (b2', i2, r2) =>
        Some (SIfLet e' (TOpt t) b1' b2', G, union (scope (length G) i1) (scope (length G) i2), r1 && r2)
      | None => None
      end
    | None => None
    end
  | _ => None
  end.
Proof. reflexivity. Qed.

Lemma check_stmt_SWhile C G inv il c b :
  check_stmt C G inv il (SWhile c b) =
  match check_expr C G inv c with
  | Some (c', TBool, i0) =>
    match check_block C G i0 true b with
    | Some (b', i1, _) =>
      if subset (scope (length G) i1) inv
      then Some (SWhile c' b', G, union inv i0, false) else None
    | None => None
    end
  | _ => None
  end.
Proof. reflexivity. Qed.

Lemma check_stmt_SFor C G inv il e te b :
  check_stmt C G inv il (SFor e te b) =
  match check_expr C G inv e with
  | Some (e', TArr t, i0) =>
    if kle (kind_of t) KS then
      match check_block C (G ++ [t]) i0 true b with
      | Some (b', i1, _) =>
        if subset (scope (length G) i1) i0
        then Some (SFor e' t b', G, i0, false) else None
      | None => None
      end
    else None
  | _ => None
  end.
Proof. reflexivity. Qed.

Lemma check_stmt_SGuard C G inv il c b :
  check_stmt C G inv il (SGuard c b) =
  match check_expr C G inv c with
  | Some (c', TBool, i0) =>
    match check_block C G i0 il b with
    | Some (b', i1, r1) =>
      if r1 then Some (SGuard c' b', G, union i0 (scope (length G) i1), false) else None
    | None => None
    end
  | _ => None
  end.
Proof. reflexivity. Qed.

Lemma check_stmt_SGuardLet C G inv il e tv b rest :
  check_stmt C G inv il (SGuardLet e tv b rest) =
  match check_expr C G inv e with
  | Some (e', TOpt t, i0) =>
    match check_block C G i0 il b with
    | Some (b', i1, r1) =>
      if r1 then
        match check_block C (G ++ [t]) i0 il rest with
        | Some (rest', i2, r2) =>
          Some (SGuardLet e' (TOpt t) b' rest', G,
                union (scope (length G) i1) (scope (length G) i2), r2)
        | None => None
        end
      else None
    | None => None
    end
  | _ => None
  end.
Proof. reflexivity. Qed.

Lemma check_block_eq C G inv il b :
  check_block C G inv il b =
  match b with
  | BNil => Some (BNil, inv, false)
  | BCons s r =>
    match check_stmt C G inv il s with
    | Some (s', G1, i1, r1) =>
      match check_block C G1 i1 il r with
      | Some (r', i2, r2) => Some (BCons s' r', union i1 i2, r1 || r2)
      | None => None
      end
    | None => None
    end
  end.
Proof. destruct b; reflexivity. Qed.

Section sound.
  Variable D : decls.
  Variable sigs : list fsig.
  Variable P : program.          (* the ELABORATED program *)
  (* bc = the interpreter's treatment of conditionals (true: boxed to the join type; false: as
     interpreter_expression.go is written); strict = the checker's guard on conditionals.
     The interpreter as written is only covered for programs accepted under the guard. *)
  Variable bc strict : bool.
  Hypothesis Hbc : bc = false -> strict = true.

  (* stated pointwise so that [subst] never eliminates D *)
  Hypothesis HD : forall n, nth_error (p_decls P) n = nth_error D n.
  (* every function of P is the elaboration of a checked body, with the signature in sigs *)
  Hypothesis HF : forall f fd, nth_error (p_funs P) f = Some fd ->
    nth_error sigs f = Some (fn_params fd, fn_ret fd) /\
    exists b0 i r, check_block (mkCenv D sigs (fn_ret fd) strict) (fn_params fd) [] false b0 = Some (fn_body fd, i, r)
                   /\ (fn_ret fd = TVoid \/ r = true).
  Hypothesis HS : forall f sg, nth_error sigs f = Some sg -> exists fd, nth_error (p_funs P) f = Some fd.

  Definition C (rt : ty) : cenv := mkCenv D sigs rt strict.

  Definition post_e (G : list ty) (inv : list nat) (t : ty) (r : res (val * env)) : Prop :=
    match r with
    | Ok (v, r') => wt D v t = true /\ env_ok D G inv r'
    | Err e => err_ok e
    end.

  Definition post_l (G : list ty) (inv : list nat) (Q : list val -> Prop) (r : res (list val * env)) : Prop :=
    match r with
    | Ok (vs, r') => Q vs /\ env_ok D G inv r'
    | Err e => err_ok e
    end.

  Definition post_v (t : ty) (r : res val) : Prop :=
    match r with
    | Ok v => wt D v t = true
    | Err e => err_ok e
    end.

  Definition IHE (n : nat) : Prop :=
    forall rt G inv e e' t inv' r,
      check_expr (C rt) G inv e = Some (e', t, inv') -> env_ok D G inv r ->
      post_e G inv' t (eval P bc n e' r).

  (* values of an expression list: as many as expressions, the k-th typed by the k-th target *)
  Definition list_post (es : exprs) (tgt : nat -> ty) (i : nat) (vs : list val) : Prop :=
    length vs = exprs_len es /\
    forall k v, nth_error vs k = Some v -> wt D v (tgt (i + k)%nat) = true.

  Definition IHL (n : nat) : Prop :=
    forall rt G inv es tgt i es' inv' r,
      check_list (C rt) G inv es tgt i = Some (es', inv') -> env_ok D G inv r ->
      post_l G inv' (list_post es tgt i) (evals P bc n es' tgt i r).

  Fixpoint pairs_ok (tk tv : ty) (vs : list val) : Prop :=
    match vs with
    | [] => True
    | k :: v :: rest => wt D k tk = true /\ wt D v tv = true /\ pairs_ok tk tv rest
    | _ => False
    end.

  Definition IHC (n : nat) : Prop :=
    forall f fd args,
      nth_error (p_funs P) f = Some fd -> wt_list D args (fn_params fd) = true ->
      post_v (fn_ret fd) (callf P bc n f args).

  (* use an induction hypothesis on a sub-evaluation that occurs in the goal *)
  Ltac ih_e IH Hc He v r Hv He' :=
    let H := fresh "Hih" in
    pose proof (IH _ _ _ _ _ _ _ _ Hc He) as H;
    match type of H with
    | post_e _ _ _ ?ev => destruct ev as [[v r]|] eqn:?; [destruct H as [Hv He'] | simpl; exact H]
    end.

  Ltac do_transfer Hw Hs1 Hs2 w Hw' :=
    let H := fresh "Htr" in
    destruct (transfer_ok D _ _ _ Hw Hs1 Hs2) as (w & H & Hw'); rewrite H; clear H.

  Lemma wt_i8 z : in_i8 z = true -> wt D (VI8 z) TInt8 = true.
  Proof. intro H. unfold wt. change (wfv D (VI8 z)) with (in_i8 z). rewrite H. reflexivity. Qed.

  Lemma wt_list_nth : forall vs ts, wt_list D vs ts = true -> length vs = length ts.
  Proof.
    induction vs; destruct ts; simpl; intro H; try discriminate; auto.
    apply andb_true_iff in H as [_ H]. f_equal; auto.
  Qed.

  (* ---------------------------------------------------------------- value operations *)

  Lemma binop_ok op va vb ta :
    is_intty ta = true -> wt D va ta = true -> wt D vb ta = true ->
    match binop_apply op va vb with
    | Ok v => wt D v (if is_arith op then ta else TBool) = true
    | Err e => err_ok e
    end.
  Proof.
    intros Hi Ha Hb. destruct ta; try discriminate.
    - apply wt_i8_inv in Ha as (x & -> & Hx). apply wt_i8_inv in Hb as (y & -> & Hy).
      apply in_i8_iff in Hx. apply in_i8_iff in Hy.
      unfold binop_apply, arith8, i8_range.
      destruct op; simpl;
        repeat match goal with |- context [if ?c then _ else _] => destruct c eqn:? end;
        simpl; try exact I; try reflexivity; apply wt_i8; apply in_i8_iff.
      + lia.
      + lia.
      + lia.
      + apply Z.eqb_neq in Heqb. apply andb_false_iff in Heqb0.
        apply quot_range; try assumption. intros [-> ->]. destruct Heqb0; discriminate.
      + apply Z.eqb_neq in Heqb. apply rem_range; assumption.
    - apply wt_int_inv in Ha as (x & ->). apply wt_int_inv in Hb as (y & ->).
      unfold binop_apply, arithI.
      destruct op; simpl;
        repeat match goal with |- context [if ?c then _ else _] => destruct c eqn:? end;
        simpl; try exact I; reflexivity.
  Qed.

  Lemma transfer_ok2 v vt t :
    wfv D v = true -> subtype (dyn v) vt = true -> subtype (dyn v) t = true ->
    exists w, transfer_check v vt t = Ok w /\ wt D w t = true.
  Proof.
    intros Hw H1 Hs. unfold transfer_check. rewrite H1.
    pose proof (box_wt D v t Hw Hs) as Hb.
    rewrite (wt_sub D _ _ Hb). eexists; split; [reflexivity|exact Hb].
  Qed.

  Lemma checked_join_sub a b j :
    checked_join a b = Some j -> subtype a j = true /\ subtype b j = true.
  Proof.
    unfold checked_join. destruct (join a b); [|discriminate].
    destruct (subtype a t && subtype b t) eqn:E; [|discriminate].
    intro H; inversion H; subst. apply andb_true_iff in E. exact E.
  Qed.

  Lemma member_check_ok v t : wt D v t = true -> member_check v t = Ok tt.
  Proof.
    intro H. unfold member_check. rewrite (wt_sub D _ _ H).
    destruct t; simpl; try reflexivity.
    apply wt_opt_inv in H as [-> | (w & -> & _)]; reflexivity.
  Qed.

  Lemma subtype_opt_nonopt a t : subtype (TOpt a) t = true -> is_opt t = false -> subtype a t = true.
  Proof.
    intros H Ht. rewrite subtype_unfold in H.
    destruct (ty_eqb (TOpt a) t) eqn:E.
    { apply ty_eqb_eq in E; subst; discriminate. }
    destruct t; try discriminate.
    - apply subtype_any_s. exact H.
    - apply subtype_any_r. exact H.
  Qed.

  Lemma wfv_unbox v : wfv D v = true -> wfv D (unbox v) = true.
  Proof. induction v; simpl; auto. Qed.

  Lemma cast_prep_ok t v cv ch :
    wfv D v = true -> cast_prep t v = (cv, ch) -> wfv D cv = true /\ (ch = false -> cv = v).
  Proof.
    unfold cast_prep. intros Hw H.
    destruct (snd (strip t)); try (inversion H; subst; split; [exact Hw|reflexivity]);
      destruct v; inversion H; subst; split; try exact Hw; try reflexivity; try discriminate.
    all: apply (wfv_unbox (VSome v)); exact Hw.
  Qed.

  Lemma forallb_wt_elem te vs :
    forallb (fun v => wt D v te) vs = true -> forallb (elem_ok D te) vs = true.
  Proof.
    induction vs; simpl; intro H; [reflexivity|].
    apply andb_true_iff in H as [H1 H2]. unfold elem_ok at 1.
    rewrite (wt_wfv D _ _ H1), (wt_sub D _ _ H1). simpl. auto.
  Qed.

  Lemma dict_build_ok tk tv : forall vs acc,
    pairs_ok tk tv vs -> forallb (entry_ok D tk tv) acc = true ->
    forallb (entry_ok D tk tv) (dict_build vs acc) = true.
  Proof.
    fix IH 1. intros vs acc Hp Ha. destruct vs as [|k [|v rest]]; simpl in *; try exact Ha; try contradiction.
    destruct Hp as (Hk & Hv & Hr). apply IH; [exact Hr|].
    apply dict_set_ok; [exact Ha|]. unfold entry_ok.
    rewrite (wt_wfv D _ _ Hk), (wt_sub D _ _ Hk), (wt_wfv D _ _ Hv), (wt_sub D _ _ Hv). reflexivity.
  Qed.

  Lemma even_2k k i : Nat.even i = true -> Nat.even (i + 2 * k) = true /\ Nat.even (i + 2 * k + 1) = false.
  Proof.
    intro Hi. split.
    - rewrite Nat.even_add_mul_2. exact Hi.
    - replace (i + 2 * k + 1)%nat with (S (i + 2 * k)) by lia.
      rewrite Nat.even_succ, <- Nat.negb_even, Nat.even_add_mul_2, Hi. reflexivity.
  Qed.

  (* reading an element: the value conforms to the container's run-time element type, hence
     (transitivity) to the static element type; it is boxed to the static result type on the way out *)
  Lemma index_arr_ok va vi t ti :
    wt D va (TArr t) = true -> wt D vi ti = true -> is_intty ti = true ->
    match get_index va vi with
    | Ok x => wt D (if is_opt t then box x t else x) t = true
    | Err e => err_ok e
    end.
  Proof.
    intros Ha Hi Hti. pose proof (wt_wfv D _ _ Ha) as Hw.
    destruct (wt_arr_inv _ _ (wt_sub D _ _ Ha)) as (te & l & -> & Hte).
    assert (Hz : exists z, index_of vi = Some z).
    { destruct ti; try discriminate.
      - apply wt_i8_inv in Hi as (z & -> & _). exists z; reflexivity.
      - apply wt_int_inv in Hi as (z & ->). exists z; reflexivity. }
    destruct Hz as (z & Hz). unfold get_index. rewrite Hz.
    destruct (int_ovf z); [exact I|].
        destruct ((z <? 0) || (Z.of_nat (length l) <=? z)); [exact I|].
    destruct (nth_error l (Z.to_nat z)) as [x|] eqn:En; [|exact I].
    rewrite wfv_arr in Hw. pose proof (forallb_nth _ _ _ _ Hw En) as Hx.
    unfold elem_ok in Hx. apply andb_true_iff in Hx as [Hx1 Hx2].
    assert (Hs : subtype (dyn x) t = true) by (eapply subtype_trans; eauto).
    destruct (is_opt t) eqn:Eo.
    - apply box_wt; assumption.
    - apply wt_intro; try assumption. apply shape_nonopt; exact Eo.
  Qed.

  Lemma index_dict_ok va vi k v :
    wt D va (TDict k v) = true ->
    match get_index va vi with
    | Ok x => wt D (box x (TOpt v)) (TOpt v) = true
    | Err e => err_ok e
    end.
  Proof.
    intros Ha. pose proof (wt_wfv D _ _ Ha) as Hw.
    destruct (wt_dict_inv _ _ _ (wt_sub D _ _ Ha)) as (tk & tv & l & -> & Hk & Hv).
    unfold get_index. rewrite wfv_dict in Hw.
    destruct (dict_get l vi) as [x|] eqn:Eg.
    - destruct (dict_get_ok D _ _ _ _ _ Hw Eg) as [Hx1 Hx2].
      apply box_wt; simpl; [exact Hx1|]. rewrite subtype_opt_opt. eapply subtype_trans; eauto.
    - apply box_wt; [reflexivity|]. simpl. rewrite subtype_opt_opt. apply subtype_never.
  Qed.

  Lemma list_post_const es te i vs :
    list_post es (fun _ => te) i vs -> forallb (fun v => wt D v te) vs = true.
  Proof.
    intros [_ H]. apply forallb_forall. intros x Hx.
    apply In_nth_error in Hx as (k & Hk). exact (H _ _ Hk).
  Qed.

  Lemma wt_list_pointwise : forall ps vs (f : nat -> ty),
    length vs = length ps ->
    (forall k, f k = nth k ps TVoid) ->
    (forall k v, nth_error vs k = Some v -> wt D v (f k) = true) ->
    wt_list D vs ps = true.
  Proof.
    induction ps; destruct vs; simpl; intros f Hl Hf H; try discriminate; try reflexivity.
    pose proof (H O v eq_refl) as H0. rewrite Hf in H0. simpl in H0. rewrite H0. simpl.
    apply (IHps vs (fun k => f (S k))); [lia | intro k; rewrite Hf; reflexivity |].
    intros k x Hk. exact (H (S k) x Hk).
  Qed.

  Lemma list_post_args es ps vs :
    exprs_len es = length ps -> list_post es (fun i => nth i ps TVoid) O vs -> wt_list D vs ps = true.
  Proof.
    intros Hl [Hlen H]. apply (wt_list_pointwise ps vs (fun i => nth i ps TVoid)); [lia | reflexivity |].
    intros k v Hk. exact (H _ _ Hk).
  Qed.

  Lemma pairs_of_pointwise tk tv : forall vs j,
    Nat.even j = true -> Nat.even (length vs) = true ->
    (forall k v, nth_error vs k = Some v -> wt D v (if Nat.even (j + k) then tk else tv) = true) ->
    pairs_ok tk tv vs.
  Proof.
    fix IH 1. intros vs j Hj Hl H. destruct vs as [|k [|v rest]]; simpl in *; try exact I; try discriminate.
    pose proof (H O k eq_refl) as H0. rewrite Nat.add_0_r, Hj in H0.
    pose proof (H 1%nat v eq_refl) as H1.
    destruct (even_2k O j Hj) as [_ Hodd]. simpl in Hodd. rewrite Nat.add_0_r in Hodd. rewrite Hodd in H1.
    split; [exact H0|]. split; [exact H1|].
    apply (IH rest (S (S j))); [simpl; exact Hj | exact Hl |].
    intros k0 x Hk. specialize (H (S (S k0)) x Hk).
    replace (j + S (S k0))%nat with (S (S j) + k0)%nat in H by lia. exact H.
  Qed.

  Lemma list_post_pairs es tk tv vs :
    Nat.even (exprs_len es) = true ->
    list_post es (fun i => if Nat.even i then tk else tv) O vs -> pairs_ok tk tv vs.
  Proof.
    intros He [Hlen H]. apply (pairs_of_pointwise tk tv vs O); [reflexivity | rewrite Hlen; exact He | exact H].
  Qed.

  (* ---------------------------------------------------------------- expressions *)

  Lemma eval_step n : IHE n -> IHL n -> IHC n -> IHE (S n).
  Proof.
    intros IH IHl IHc rt G inv e e' t inv' r Hc He.
    destruct e;
      first [ rewrite check_expr_EArr in Hc | rewrite check_expr_EDict in Hc
            | rewrite check_expr_ECall in Hc | rewrite check_expr_ECtor in Hc
            | cbn in Hc ].
    - (* ELit8 *) inv_check Hc. simpl. split; [apply wt_i8; assumption | assumption].
    - (* ELitInt *) inv_check Hc. simpl. split; [reflexivity | assumption].
    - (* EBool *) inv_check Hc. simpl. split; [reflexivity | assumption].
    - (* EStr *) inv_check Hc. simpl. split; [reflexivity | assumption].
    - (* ENil *) inv_check Hc. simpl. split; [reflexivity | assumption].
    - (* EVar *) inv_check Hc. simpl.
      destruct (env_ok_read D _ _ _ _ _ He E E0) as (v & Hr & Hv). rewrite Hr. simpl. split; assumption.
    - (* EMove *) inv_check Hc. simpl.
      destruct (env_ok_read D _ _ _ _ _ He E E0) as (v & Hr & Hv). rewrite Hr. simpl.
      split; [assumption | apply env_ok_move; assumption].
    - (* EBin *) inv_check Hc. simpl.
      ih_e IH E He va r1 Hva He1. simpl.
      ih_e IH E0 He1 vb r2 Hvb He2. simpl.
      apply andb_true_iff in E1 as [Hi Heq]. apply ty_eqb_eq in Heq. subst t1.
      pose proof (binop_ok op va vb t0 Hi Hva Hvb) as Hb.
      destruct (binop_apply op va vb); simpl; [split; assumption | exact Hb].
    - (* EEq *) inv_check Hc. simpl.
      ih_e IH E He va r1 Hva He1. simpl.
      ih_e IH E0 He1 vb r2 Hvb He2. simpl.
      split; [reflexivity | assumption].
    - (* EAnd *) inv_check Hc. simpl.
      ih_e IH E He va r1 Hva He1. simpl.
      apply wt_bool_inv in Hva as (b & ->). destruct b.
      + ih_e IH E0 He1 vb r2 Hvb He2. simpl.
        apply wt_bool_inv in Hvb as (b & ->). simpl.
        split; [reflexivity | apply env_ok_app_r; assumption].
      + simpl. split; [reflexivity | apply env_ok_app_l; assumption].
    - (* EOr *) inv_check Hc. simpl.
      ih_e IH E He va r1 Hva He1. simpl.
      apply wt_bool_inv in Hva as (b & ->). destruct b.
      + simpl. split; [reflexivity | apply env_ok_app_l; assumption].
      + ih_e IH E0 He1 vb r2 Hvb He2. simpl.
        apply wt_bool_inv in Hvb as (b & ->). simpl.
        split; [reflexivity | apply env_ok_app_r; assumption].
    - (* ENot *) inv_check Hc. simpl.
      ih_e IH E He va r1 Hva He1. simpl.
      apply wt_bool_inv in Hva as (b & ->). simpl. split; [reflexivity | assumption].
    - (* ECoalesce *) inv_check Hc. simpl.
      apply checked_join_sub in E2 as [Hj1 Hj2].
      ih_e IH E He va r1 Hva He1. simpl.
      apply wt_opt_inv in Hva as [-> | (w & -> & Hw)].
      + ih_e IH E0 He1 vb r2 Hvb He2. simpl.
        do_transfer (wt_wfv D _ _ Hvb) (wt_sub D _ _ Hvb) Hj2 x Hx. simpl.
        split; [assumption | apply env_ok_app_r; assumption].
      + do_transfer (wt_wfv D _ _ Hw) (wt_sub D _ _ Hw) Hj1 x Hx. simpl.
        split; [assumption | apply env_ok_app_l; assumption].
    - (* ECond *) inv_check Hc. simpl.
      apply checked_join_sub in E2 as [Hj1 Hj2].
      assert (Huni : bc = false -> t0 = t /\ t1 = t).
      { intro Hb. rewrite (Hbc Hb) in E3. simpl in E3.
        apply andb_true_iff in E3 as [H1 H2]. apply ty_eqb_eq in H1. apply ty_eqb_eq in H2. split; assumption. }
      ih_e IH E He vc r0 Hvc He0. simpl.
      apply wt_bool_inv in Hvc as (b & ->). destruct b.
      + ih_e IH E0 He0 va r1 Hva He1. simpl.
        destruct bc.
        * do_transfer (wt_wfv D _ _ Hva) (wt_sub D _ _ Hva) Hj1 x Hx. simpl.
          split; [assumption | apply env_ok_app_l; assumption].
        * destruct (Huni eq_refl) as [<- _]. simpl.
          split; [assumption | apply env_ok_app_l; assumption].
      + ih_e IH E1 He0 vb r1 Hvb He1. simpl.
        destruct bc.
        * do_transfer (wt_wfv D _ _ Hvb) (wt_sub D _ _ Hvb) Hj2 x Hx. simpl.
          split; [assumption | apply env_ok_app_r; assumption].
        * destruct (Huni eq_refl) as [_ <-]. simpl.
          split; [assumption | apply env_ok_app_r; assumption].
    - (* EForce *) inv_check Hc. simpl. ih_e IH E He va r1 Hva He1. simpl.
      destruct t0.
      9: { apply wt_opt_inv in Hva as [-> | (w & -> & Hw)]; simpl; [exact I | split; assumption]. }
      all: destruct va; simpl; try (split; assumption); try exact I;
        split; [|assumption]; apply wt_intro;
        [ exact (wt_wfv D _ _ Hva)
        | apply subtype_opt_nonopt; [exact (wt_sub D _ _ Hva) | reflexivity]
        | reflexivity ].
    - (* EMember *) inv_check Hc. simpl.
      ih_e IH E He va r1 Hva He1. simpl.
      rewrite (member_check_ok _ _ Hva). simpl.
      destruct (comp_inv D _ _ _ (wt_wfv D _ _ Hva) (wt_sub D _ _ Hva) E0) as (k & c & vs & -> & _ & _ & Hfs).
      destruct (fields_ok_nth D _ _ _ _ Hfs E1) as (x & Hx & Hwx).
      unfold get_field. rewrite Hx. simpl. split; assumption.
    - (* EOptMember *) inv_check Hc. simpl.
      ih_e IH E He va r1 Hva He1. simpl.
      rewrite (member_check_ok _ _ Hva). simpl.
      apply wt_opt_inv in Hva as [-> | (w & -> & Hw)].
      + simpl. split; [|assumption]. destruct t1; try apply wt_nil.
      + destruct (comp_inv D _ _ _ (wt_wfv D _ _ Hw) (wt_sub D _ _ Hw) E0) as (k & c & vs & -> & _ & _ & Hfs).
        destruct (fields_ok_nth D _ _ _ _ Hfs E1) as (x & Hx & Hwx).
        unfold get_field. rewrite Hx. simpl.
        destruct (is_opt t1) eqn:Eo.
        * destruct t1; try discriminate.
          apply wt_opt_inv in Hwx as Hcase. destruct Hcase as [-> | (y & -> & Hy)]; simpl; split; assumption.
        * assert (Hgen : wt D (match x with VNil | VSome _ => x | _ => VSome x end) (TOpt t1) = true).
          { destruct x; try (apply wt_some; exact Hwx).
            - apply wt_nil.
            - apply wt_intro.
              + exact (wt_wfv D _ _ Hwx).
              + simpl. rewrite subtype_opt_opt. apply subtype_opt_nonopt; [exact (wt_sub D _ _ Hwx) | exact Eo].
              + simpl. apply shape_nonopt; exact Eo. }
          destruct x; simpl; split; try assumption; exact Hgen.
    - (* ECast *) inv_check Hc; simpl.
      + (* static *)
        ih_e IH E He va r1 Hva He1. simpl.
        do_transfer (wt_wfv D _ _ Hva) (wt_sub D _ _ Hva) E1 x Hx. simpl. split; assumption.
      + (* failable *)
        ih_e IH E He va r1 Hva He1. simpl.
        destruct (cast_prep t0 va) as [cv ch] eqn:Ecp.
        destruct (cast_prep_ok _ _ _ _ (wt_wfv D _ _ Hva) Ecp) as [Hcv Hch].
        destruct (subtype (dyn cv) t0) eqn:Es.
        * assert (Hvt : subtype (dyn cv) (if ch then dyn cv else t1) = true).
          { destruct ch; [apply subtype_refl|]. rewrite (Hch eq_refl). exact (wt_sub D _ _ Hva). }
          destruct (transfer_ok2 _ _ _ Hcv Hvt Es) as (x & Hx & Hwx). rewrite Hx. simpl.
          split; [apply wt_some; assumption | assumption].
        * simpl. split; [apply wt_nil | assumption].
      + (* force *)
        ih_e IH E He va r1 Hva He1. simpl.
        destruct (cast_prep t va) as [cv ch] eqn:Ecp.
        destruct (cast_prep_ok _ _ _ _ (wt_wfv D _ _ Hva) Ecp) as [Hcv Hch].
        destruct (subtype (dyn cv) t) eqn:Es.
        * assert (Hvt : subtype (dyn cv) (if ch then dyn cv else t1) = true).
          { destruct ch; [apply subtype_refl|]. rewrite (Hch eq_refl). exact (wt_sub D _ _ Hva). }
          destruct (transfer_ok2 _ _ _ Hcv Hvt Es) as (x & Hx & Hwx). rewrite Hx. simpl.
          split; assumption.
        * simpl. exact I.
    - (* EArr *) inv_check Hc. simpl.
      pose proof (IHl _ _ _ _ _ _ _ _ _ E He) as Hl.
      match type of Hl with post_l _ _ _ ?ev => destruct ev as [[vs r1]|] eqn:Ev; [|simpl; exact Hl] end.
      destruct Hl as [Hvs He1]. simpl. split; [|assumption].
      apply wt_intro; [|apply subtype_refl|reflexivity].
      rewrite wfv_arr. apply forallb_wt_elem. apply (list_post_const _ _ _ _ Hvs).
    - (* EDict *) inv_check Hc. simpl.
      apply andb_true_iff in E as [_ Hev].
      pose proof (IHl _ _ _ _ _ _ _ _ _ E0 He) as Hl.
      match type of Hl with post_l _ _ _ ?ev => destruct ev as [[vs r1]|] eqn:Ev; [|simpl; exact Hl] end.
      destruct Hl as [Hvs He1]. simpl. split; [|assumption].
      apply wt_intro; [|apply subtype_refl|reflexivity].
      rewrite wfv_dict. apply dict_build_ok; [|reflexivity].
      apply (list_post_pairs _ _ _ _ Hev Hvs).
    - (* EIndex *) inv_check Hc; simpl.
      + (* array *)
        ih_e IH E He va r1 Hva He1. simpl.
        ih_e IH E0 He1 vi r2 Hvi He2. simpl.
        do_transfer (wt_wfv D _ _ Hvi) (wt_sub D _ _ Hvi) (subtype_refl t1) vi' Hvi'. simpl.
        unfold indexed_check. rewrite (wt_sub D _ _ Hva). simpl.
        pose proof (index_arr_ok _ _ _ _ Hva Hvi' E1) as Hx.
        destruct (get_index va vi'); simpl; [split; assumption | exact Hx].
      + (* dictionary *)
        ih_e IH E He va r1 Hva He1. simpl.
        ih_e IH E0 He1 vi r2 Hvi He2. simpl.
        do_transfer (wt_wfv D _ _ Hvi) (wt_sub D _ _ Hvi) E1 vi' Hvi'. simpl.
        unfold indexed_check. rewrite (wt_sub D _ _ Hva). simpl.
        pose proof (index_dict_ok _ vi' _ _ Hva) as Hx.
        destruct (get_index va vi'); simpl; [split; assumption | exact Hx].
    - (* ELen *) inv_check Hc. simpl.
      ih_e IH E He va r1 Hva He1. simpl.
      destruct (wt_arr_inv _ _ (wt_sub D _ _ Hva)) as (te & l & -> & _). simpl.
      split; [reflexivity | assumption].
    - (* ECall *) inv_check Hc. simpl.
      cbn in E.
      destruct (HS _ _ E) as (fd & Hfd). destruct (HF _ _ Hfd) as [Hsig _].
      rewrite E in Hsig. inversion Hsig; subst. rewrite Hfd.
      pose proof (IHl _ _ _ _ _ _ _ _ _ E1 He) as Hl.
      match type of Hl with post_l _ _ _ ?ev => destruct ev as [[vs r1]|] eqn:Ev; [|simpl; exact Hl] end.
      destruct Hl as [Hvs He1]. simpl.
      apply Nat.eqb_eq in E0.
      pose proof (IHc _ _ _ Hfd (list_post_args _ _ _ E0 Hvs)) as Hcall.
      match type of Hcall with post_v _ ?ev => destruct ev; simpl; [split; assumption | exact Hcall] end.
    - (* ECtor *) inv_check Hc. simpl.
      cbn in E. rewrite HD, E.
      pose proof (IHl _ _ _ _ _ _ _ _ _ E1 He) as Hl.
      match type of Hl with post_l _ _ _ ?ev => destruct ev as [[vs r1]|] eqn:Ev; [|simpl; exact Hl] end.
      destruct Hl as [Hvs He1]. simpl. split; [|assumption].
      apply Nat.eqb_eq in E0.
      apply wt_intro.
      + rewrite wfv_comp, E. rewrite Bool.eqb_reflx. simpl. apply fields_ok_of_wt_list.
        exact (list_post_args _ _ _ E0 Hvs).
      + destruct b; apply subtype_refl.
      + destruct b; reflexivity.
    - (* EPanic *) inv_check Hc. simpl. exact I.
  Qed.

  (* ---------------------------------------------------------------- expression lists *)

  Lemma list_step n : IHE n -> IHL n -> IHL (S n).
  Proof.
    intros IH IHl rt G inv es tgt i es' inv' r Hc He.
    rewrite check_list_eq in Hc. destruct es as [|e t0 rest].
    - inversion Hc; subst. simpl. split; [|assumption]. split; [reflexivity|].
      intros k v Hk. destruct k; discriminate.
    - inv_check Hc. simpl.
      ih_e IH E He v r1 Hv He1. simpl.
      do_transfer (wt_wfv D _ _ Hv) (wt_sub D _ _ Hv) E0 w Hw. simpl.
      pose proof (IHl _ _ _ _ _ _ _ _ _ E1 He1) as Hl.
      match type of Hl with post_l _ _ _ ?ev => destruct ev as [[vs r2]|] eqn:Ev; [|simpl; exact Hl] end.
      destruct Hl as [[Hlen Hvs] He2]. simpl. split; [|assumption]. split.
      + simpl. rewrite Hlen. reflexivity.
      + intros k x Hk. destruct k; simpl in Hk.
        * inversion Hk; subst. rewrite Nat.add_0_r. exact Hw.
        * replace (i + S k)%nat with (S i + k)%nat by lia. apply Hvs. exact Hk.
  Qed.

  (* ---------------------------------------------------------------- assignment targets *)

  Definition post_t (G : list ty) (inv : list nat) (g : target) (tg : ty)
             (r : res (nat * list step * option step * env)) : Prop :=
    match r with
    | Ok (x, q, l, r') =>
      env_ok D G inv r' /\ x = root_of g /\
      exists troot, nth_error G x = Some troot /\ tpath D troot q l tg
    | Err e => err_ok e
    end.

  Definition IHT (n : nat) : Prop :=
    forall rt G inv g g' tg inv' r,
      check_target (C rt) G inv g = Some (g', tg, inv') -> env_ok D G inv r ->
      post_t G inv' g tg (eval_target P bc n g' r).

  Lemma intval_index vi ti : is_intty ti = true -> wt D vi ti = true -> exists z, index_of vi = Some z.
  Proof.
    intros Hti Hi. destruct ti; try discriminate.
    - apply wt_i8_inv in Hi as (z & -> & _). exists z; reflexivity.
    - apply wt_int_inv in Hi as (z & ->). exists z; reflexivity.
  Qed.

  Ltac ih_t IHt Hc He x q l r He' Hx troot Hroot Htp :=
    let H := fresh "Hih" in
    pose proof (IHt _ _ _ _ _ _ _ _ Hc He) as H;
    match type of H with
    | post_t _ _ _ _ ?ev =>
      destruct ev as [[[[x q] l] r]|] eqn:?;
      [destruct H as (He' & Hx & troot & Hroot & Htp) | simpl; exact H]
    end.

  Lemma target_step n : IHE n -> IHT n -> IHT (S n).
  Proof.
    intros IH IHt rt G inv g g' tg inv' r Hc He.
    destruct g; cbn in Hc.
    - (* TgVar *) inv_check Hc. simpl. split; [assumption|]. split; [reflexivity|].
      exists tg. split; [assumption|]. split; reflexivity.
    - (* TgIndex *) inv_check Hc; simpl.
      + (* array *)
        ih_t IHt E He x q lst r1 He1 Hx troot Hroot Htp. simpl.
        ih_e IH E0 He1 vi r2 Hvi He2. simpl.
        split; [assumption|]. split; [assumption|]. exists troot. split; [assumption|].
        exists (TArr tg). split; [apply tpath_full; assumption|].
        left. split; [reflexivity|]. eapply intval_index; eauto.
      + (* dictionary *)
        ih_t IHt E He x q lst r1 He1 Hx troot Hroot Htp. simpl.
        ih_e IH E0 He1 vi r2 Hvi He2. simpl.
        split; [assumption|]. split; [assumption|]. exists troot. split; [assumption|].
        eexists. split; [apply tpath_full; eassumption|].
        right. eexists _, _. split; [reflexivity|]. split; [reflexivity|]. exact (wt_wfv D _ _ Hvi).
    - (* TgMember *) inv_check Hc. simpl.
      ih_t IHt E He x q lst r1 He1 Hx troot Hroot Htp. simpl.
      split; [assumption|]. split; [assumption|]. exists troot. split; [assumption|].
      eexists. split; [apply tpath_full; eassumption|].
      eexists. split; eassumption.
  Qed.

  (* ---------------------------------------------------------------- statements *)

  (* what the checker's flags promise about the outcome of a statement:
     ret    : the statement never completes normally (it returns, halts or jumps);
     inloop : break/continue only occur inside loops;
     a returned value has the declared return type *)
  Definition out_ok (rt : ty) (inloop ret : bool) (o : outcome) : Prop :=
    (ret = true -> o <> ONormal) /\
    (inloop = false -> o <> OBreak /\ o <> OContinue) /\
    (forall v, o = OReturn v -> wt D v rt = true).

  Definition post_s (rt : ty) (G : list ty) (inv : list nat) (inloop ret : bool)
             (r : res (outcome * env)) : Prop :=
    match r with
    | Ok (o, r') => env_ok D G inv r' /\ out_ok rt inloop ret o
    | Err e => err_ok e
    end.

  Definition post_b (rt : ty) (G : list ty) (inv : list nat) (inloop ret : bool)
             (r : res (outcome * env)) : Prop :=
    match r with
    | Ok (o, r') => env_ok D G (scope (length G) inv) (firstn (length G) r') /\ out_ok rt inloop ret o
    | Err e => err_ok e
    end.

  Definition out_loop (rt : ty) (o : outcome) : Prop :=
    match o with
    | ONormal => True
    | OReturn v => wt D v rt = true
    | _ => False
    end.

  Definition IHS (n : nat) : Prop :=
    forall rt G inv il s s' G' inv' ret r,
      check_stmt (C rt) G inv il s = Some (s', G', inv', ret) -> env_ok D G inv r ->
      post_s rt G' inv' il ret (exec P bc n s' r).

  Definition IHB (n : nat) : Prop :=
    forall rt G inv il b b' inv' ret r,
      check_block (C rt) G inv il b = Some (b', inv', ret) -> env_ok D G inv r ->
      post_b rt G inv' il ret (exec_block P bc n b' r).

  Definition IHFor (n : nat) : Prop :=
    forall rt G i0 t b b' i1 rr l r,
      check_block (C rt) (G ++ [t]) i0 true b = Some (b', i1, rr) ->
      subset (scope (length G) i1) i0 = true ->
      env_ok D G i0 r -> forallb (elem_ok D t) l = true ->
      match for_loop P bc n l t b' r with
      | Ok (o, r') => env_ok D G i0 r' /\ out_loop rt o
      | Err e => err_ok e
      end.

  Lemma out_normal rt il : out_ok rt il false ONormal.
  Proof. repeat split; intros; discriminate. Qed.

  Lemma out_loop_ok rt il o : out_loop rt o -> out_ok rt il false o.
  Proof.
    intro H. repeat split; intros; try discriminate; destruct o; simpl in H; try contradiction; try discriminate.
    inversion H0; subst; exact H.
  Qed.

  Lemma out_return rt il v : wt D v rt = true -> out_ok rt il true (OReturn v).
  Proof. intro H. repeat split; intros; try discriminate. inversion H0; subst; exact H. Qed.

  Lemma out_ok_true_any rt il b o : out_ok rt il true o -> out_ok rt il b o.
  Proof.
    intros (H1 & H2 & H3). split; [|split; assumption]. intros _. apply H1. reflexivity.
  Qed.

  Lemma out_ok_and rt il a b o : out_ok rt il a o -> out_ok rt il (a && b) o.
  Proof.
    intros (H1 & H2 & H3). split; [|split; assumption]. intro H. apply andb_true_iff in H as [H _]. auto.
  Qed.

  Lemma out_ok_and_r rt il a b o : out_ok rt il b o -> out_ok rt il (a && b) o.
  Proof.
    intros (H1 & H2 & H3). split; [|split; assumption]. intro H. apply andb_true_iff in H as [_ H]. auto.
  Qed.

  (* leaving the scope of a block whose context extended G *)
  Lemma env_ok_pop_block G G2 inv r :
    env_ok D (G ++ G2) (scope (length (G ++ G2)) inv) (firstn (length (G ++ G2)) r) ->
    env_ok D G (scope (length G) inv) (firstn (length G) r).
  Proof.
    intro H. apply env_ok_pop in H. rewrite firstn_firstn in H.
    rewrite app_length in H. rewrite Nat.min_l in H by lia.
    eapply env_ok_weaken; eauto. intros i Hi. rewrite !mem_scope in Hi. rewrite mem_scope.
    apply andb_true_iff in Hi as [H1 Hi]. apply andb_true_iff in Hi as [_ Hi]. rewrite H1, Hi. reflexivity.
  Qed.

  Lemma elem_ok_weaken te t l : subtype te t = true -> forallb (elem_ok D te) l = true -> forallb (elem_ok D t) l = true.
  Proof.
    intros Hs H. rewrite forallb_forall in *. intros x Hx. specialize (H x Hx).
    unfold elem_ok in *. apply andb_true_iff in H as [H1 H2]. rewrite H1. simpl. eapply subtype_trans; eauto.
  Qed.

  Ltac ih_b IHb Hc He o r Heo Hout :=
    let H := fresh "Hih" in
    pose proof (IHb _ _ _ _ _ _ _ _ _ Hc He) as H;
    match type of H with
    | post_b _ _ _ _ _ ?ev => destruct ev as [[o r]|] eqn:?; [destruct H as [Heo Hout] | simpl; exact H]
    end.

  Lemma stmt_step n : IHE n -> IHT n -> IHS n -> IHB n -> IHFor n -> IHS (S n).
  Proof.
    intros IH IHt IHs IHb IHf rt G inv il s s' G' inv' ret r Hc He.
    pose proof Hc as Hc0.
    destruct s;
      first [ rewrite check_stmt_SIf in Hc | rewrite check_stmt_SIfLet in Hc
            | rewrite check_stmt_SWhile in Hc | rewrite check_stmt_SFor in Hc
            | rewrite check_stmt_SGuard in Hc | rewrite check_stmt_SGuardLet in Hc
            | cbn in Hc ].
    - (* SLet *) inv_check Hc. clear Hc0. simpl.
      ih_e IH E He v r1 Hv He1. simpl.
      apply andb_true_iff in E0 as [E0 _]. apply andb_true_iff in E0 as [Hs _].
      do_transfer (wt_wfv D _ _ Hv) (wt_sub D _ _ Hv) Hs w Hw. simpl.
      split; [apply env_ok_push; assumption | apply out_normal].
    - (* SAssign *) inv_check Hc. clear Hc0. simpl.
      apply andb_true_iff in E1 as [E1 Hm2]. apply andb_true_iff in E1 as [E1 Hm1].
      apply andb_true_iff in E1 as [Hs _].
      apply negb_true_iff in Hm1. apply negb_true_iff in Hm2.
      ih_t IHt E He x q lst r1 He1 Hx troot Hroot Htp. simpl. subst x.
      assert (Hpre : match (match lst with
                            | Some _ => let* root := read_var r1 (root_of g) in get_path root q
                            | None => Ok VVoid
                            end) with Ok _ => True | Err e => err_ok e end).
      { destruct lst as [st|]; [|exact I].
        destruct (env_ok_read D _ _ _ _ _ He1 Hroot Hm1) as (root & Hr & Hwr). rewrite Hr. simpl.
        destruct Htp as (tc & Hp & _).
        pose proof (get_path_ok D q root troot tc (wt_wfv D _ _ Hwr) (wt_sub D _ _ Hwr) Hp) as Hg.
        destruct (get_path root q); [exact I | exact Hg]. }
      match type of Hpre with match ?pre with _ => _ end => destruct pre as [u|]; simpl; [|exact Hpre] end.
      ih_e IH E0 He1 v r2 Hv He2. simpl.
      do_transfer (wt_wfv D _ _ Hv) (wt_sub D _ _ Hv) Hs w Hw. simpl.
      pose proof (assign_path_ok D _ _ _ _ _ _ _ _ _ He2 Hroot Hm2 Htp Hw) as Ha.
      match type of Ha with match ?a with _ => _ end => destruct a as [r3|]; simpl; [|exact Ha] end.
      split; [assumption | apply out_normal].
    - (* SSwap *) inv_check Hc. clear Hc0. simpl.
      apply andb_true_iff in E1 as [E1 Hmy]. apply andb_true_iff in E1 as [Heq Hmx].
      apply ty_eqb_eq in Heq. subst. apply negb_true_iff in Hmx. apply negb_true_iff in Hmy.
      destruct (env_ok_read D _ _ _ _ _ He E Hmx) as (vx & Hrx & Hwx). rewrite Hrx. simpl.
      destruct (env_ok_read D _ _ _ _ _ He E0 Hmy) as (vy & Hry & Hwy). rewrite Hry. simpl.
      split; [|apply out_normal].
      eapply env_ok_write; [eapply env_ok_write; [exact He | exact E | exact Hwy] | exact E0 | exact Hwx].
    - (* SAppend *) inv_check Hc. clear Hc0. simpl.
      apply andb_true_iff in E1 as [E1 Hm2]. apply andb_true_iff in E1 as [Hs Hm1].
      apply negb_true_iff in Hm1. apply negb_true_iff in Hm2.
      ih_t IHt E He x q lst r1 He1 Hx troot Hroot Htp. simpl. subst x.
      apply tpath_full in Htp.
      destruct (env_ok_read D _ _ _ _ _ He1 Hroot Hm1) as (root & Hr & Hwr). rewrite Hr. simpl.
      pose proof (get_path_ok D _ root troot _ (wt_wfv D _ _ Hwr) (wt_sub D _ _ Hwr) Htp) as Hg.
      match type of Hg with match ?a with _ => _ end => destruct a as [u|]; simpl; [|exact Hg] end.
      ih_e IH E0 He1 v r2 Hv He2. simpl.
      do_transfer (wt_wfv D _ _ Hv) (wt_sub D _ _ Hv) Hs w Hw. simpl.
      pose proof (append_path_ok D _ _ _ _ _ _ _ _ He2 Hroot Hm2 Htp Hw) as Ha.
      match type of Ha with match ?a with _ => _ end => destruct a as [r3|]; simpl; [|exact Ha] end.
      split; [assumption | apply out_normal].
    - (* SIf *) inv_check Hc. clear Hc0. simpl.
      ih_e IH E He vc r1 Hvc He1. simpl.
      apply wt_bool_inv in Hvc as (bb & ->). rewrite (env_ok_length D _ _ _ He1). destruct bb.
      + ih_b IHb E0 He1 o r2 Heo Hout. simpl.
        split; [apply env_ok_app_l; assumption | apply out_ok_and; assumption].
      + ih_b IHb E1 He1 o r2 Heo Hout. simpl.
        split; [apply env_ok_app_r; assumption | apply out_ok_and_r; assumption].
    - (* SIfLet *) inv_check Hc. clear Hc0. simpl.
      ih_e IH E He v0 r1 Hv0 He1. simpl.
      rewrite (env_ok_length D _ _ _ He1).
      do_transfer (wt_wfv D _ _ Hv0) (wt_sub D _ _ Hv0) (subtype_refl (TOpt t)) v Hv. simpl.
      apply wt_opt_inv in Hv as [-> | (w & -> & Hw)].
      + ih_b IHb E1 He1 o r2 Heo Hout. simpl.
        split; [apply env_ok_app_r; assumption | apply out_ok_and_r; assumption].
      + pose proof (env_ok_push D _ _ _ _ _ He1 Hw) as Hep.
        ih_b IHb E0 Hep o r2 Heo Hout. simpl.
        apply env_ok_pop_block in Heo.
        split; [apply env_ok_app_l; assumption | apply out_ok_and; assumption].
    - (* SWhile *) inv_check Hc. simpl.
      ih_e IH E He vc r1 Hvc He1. simpl.
      apply wt_bool_inv in Hvc as (bb & ->). destruct bb.
      + ih_b IHb E0 He1 o r2 Heo Hout. simpl.
        rewrite (env_ok_length D _ _ _ He1).
        pose proof (env_ok_subset D _ _ _ _ Heo E1) as He3.
        destruct Hout as (_ & _ & Hret).
        destruct o.
        * exact (IHs _ _ _ _ _ _ _ _ _ _ Hc0 He3).
        * simpl. split; [apply env_ok_app_l; assumption | apply out_normal].
        * exact (IHs _ _ _ _ _ _ _ _ _ _ Hc0 He3).
        * simpl. split; [apply env_ok_app_l; assumption|].
          apply out_loop_ok. simpl. apply Hret. reflexivity.
      + simpl. split; [apply env_ok_app_r; assumption | apply out_normal].
    - (* SFor *) inv_check Hc. clear Hc0. simpl.
      ih_e IH E He v r1 Hv He1. simpl.
      pose proof (wt_wfv D _ _ Hv) as Hwv.
      destruct (wt_arr_inv _ _ (wt_sub D _ _ Hv)) as (te0 & l & -> & Hte). simpl.
      rewrite wfv_arr in Hwv.
      pose proof (IHf rt _ _ _ _ _ _ _ l _ E1 E2 He1 (elem_ok_weaken _ _ _ Hte Hwv)) as Hf.
      match type of Hf with match ?a with _ => _ end => destruct a as [[o r2]|]; simpl; [|exact Hf] end.
      destruct Hf as [He2 Ho]. split; [assumption | apply out_loop_ok; assumption].
    - (* SReturn *) destruct e as [e|]; cbn in Hc; inv_check Hc; clear Hc0; simpl.
      + ih_e IH E He v r1 Hv He1. simpl.
        apply andb_true_iff in E0 as [Hs _].
        do_transfer (wt_wfv D _ _ Hv) (wt_sub D _ _ Hv) Hs w Hw. simpl.
        split; [assumption | apply out_return; assumption].
      + split; [assumption|]. apply out_return. cbn in E. apply ty_eqb_eq in E. rewrite E. reflexivity.
    - (* SBreak *) inv_check Hc. simpl. split; [assumption|].
      unfold out_ok; repeat split; intros; congruence.
    - (* SContinue *) inv_check Hc. simpl. split; [assumption|].
      unfold out_ok; repeat split; intros; congruence.
    - (* SExpr *) inv_check Hc. clear Hc0. simpl.
      ih_e IH E He v r1 Hv He1. simpl. split; [assumption|].
      split; [|split; [intros _; split; congruence | intros; congruence]].
      intro Ht. apply ty_eqb_eq in Ht. subst. exfalso. eapply wt_never_inv; eauto.
    - (* SDestroy *) inv_check Hc. clear Hc0. simpl.
      ih_e IH E He v r1 Hv He1. simpl. split; [assumption | apply out_normal].
    - (* SGuard *) inv_check Hc. clear Hc0. simpl.
      ih_e IH E He vc r1 Hvc He1. simpl.
      apply wt_bool_inv in Hvc as (bb & ->). rewrite (env_ok_length D _ _ _ He1). destruct bb.
      + simpl. split; [apply env_ok_app_l; assumption | apply out_normal].
      + ih_b IHb E0 He1 o r2 Heo Hout. simpl.
        destruct o; simpl;
          try (split; [apply env_ok_app_r; assumption | apply (out_ok_true_any _ _ false); assumption]).
        destruct Hout as (Hn & _). apply (Hn eq_refl). reflexivity.
    - (* SGuardLet *) inv_check Hc. clear Hc0. simpl.
      ih_e IH E He v0 r1 Hv0 He1. simpl.
      rewrite (env_ok_length D _ _ _ He1).
      do_transfer (wt_wfv D _ _ Hv0) (wt_sub D _ _ Hv0) (subtype_refl (TOpt t)) v Hv. simpl.
      apply wt_opt_inv in Hv as [-> | (w & -> & Hw)].
      + ih_b IHb E0 He1 o r2 Heo Hout. simpl.
        destruct o; simpl;
          try (split; [apply env_ok_app_l; assumption | apply (out_ok_true_any _ _ ret); assumption]).
        destruct Hout as (Hn & _). apply (Hn eq_refl). reflexivity.
      + pose proof (env_ok_push D _ _ _ _ _ He1 Hw) as Hep.
        ih_b IHb E1 Hep o r2 Heo Hout. simpl.
        apply env_ok_pop_block in Heo.
        split; [apply env_ok_app_r; assumption | assumption].
  Qed.

  (* a statement only extends the variable context (let) *)
  Lemma check_stmt_ctx rt G inv il s s' G' inv' ret :
    check_stmt (C rt) G inv il s = Some (s', G', inv', ret) -> exists G2, G' = G ++ G2.
  Proof.
    intro Hc.
    destruct s;
      first [ rewrite check_stmt_SIf in Hc | rewrite check_stmt_SIfLet in Hc
            | rewrite check_stmt_SWhile in Hc | rewrite check_stmt_SFor in Hc
            | rewrite check_stmt_SGuard in Hc | rewrite check_stmt_SGuardLet in Hc
            | cbn in Hc ];
      try (destruct e as [e|]; cbn in Hc);
      inv_check Hc; try (exists []; rewrite app_nil_r; reflexivity).
    eexists; reflexivity.
  Qed.

  Lemma env_ok_scope_app_l G n a b r : env_ok D G (scope n a) r -> env_ok D G (scope n (union a b)) r.
  Proof.
    intro H. eapply env_ok_weaken; eauto. intros i Hi. rewrite mem_scope in *. rewrite mem_union.
    apply andb_true_iff in Hi as [H1 H2]. rewrite H1, H2. reflexivity.
  Qed.

  Lemma env_ok_scope_app_r G n a b r : env_ok D G (scope n b) r -> env_ok D G (scope n (union a b)) r.
  Proof.
    intro H. eapply env_ok_weaken; eauto. intros i Hi. rewrite mem_scope in *. rewrite mem_union.
    apply andb_true_iff in Hi as [H1 H2]. rewrite H1, H2. rewrite orb_true_r. reflexivity.
  Qed.

  Lemma block_step n : IHS n -> IHB n -> IHB (S n).
  Proof.
    intros IHs IHb rt G inv il b b' inv' ret r Hc He.
    rewrite check_block_eq in Hc. destruct b as [|s rest].
    - inversion Hc; subst. simpl. split; [apply env_ok_pop0; assumption | apply out_normal].
    - inv_check Hc. simpl.
      destruct (check_stmt_ctx _ _ _ _ _ _ _ _ _ E) as (G2 & ->).
      pose proof (IHs _ _ _ _ _ _ _ _ _ _ E He) as Hs.
      match type of Hs with post_s _ _ _ _ _ ?ev => destruct ev as [[o r1]|] eqn:Ev; [|simpl; exact Hs] end.
      destruct Hs as [He1 Ho1]. simpl.
      destruct o.
      + (* normal: continue with the rest *)
        pose proof (IHb _ _ _ _ _ _ _ _ _ E0 He1) as Hb.
        match type of Hb with post_b _ _ _ _ _ ?ev => destruct ev as [[o2 r2]|] eqn:Ev2; [|simpl; exact Hb] end.
        destruct Hb as [He2 Ho2]. simpl. split.
        * apply env_ok_scope_app_r. apply (env_ok_pop_block G G2). exact He2.
        * destruct Ho1 as (Hn & _ & _).
          match type of Hn with
          | ?bb = true -> _ =>
            assert (Hb0 : bb = false)
              by (destruct bb; [exfalso; apply (Hn eq_refl); reflexivity | reflexivity]);
            rewrite Hb0 in *
          end.
          exact Ho2.
      + simpl. split; [apply env_ok_scope_app_l; apply (env_ok_pop D G G2); exact He1|].
        destruct Ho1 as (H1 & H2 & H3). repeat split; try (intros; congruence); auto; apply H2; assumption.
      + simpl. split; [apply env_ok_scope_app_l; apply (env_ok_pop D G G2); exact He1|].
        destruct Ho1 as (H1 & H2 & H3). repeat split; try (intros; congruence); auto; apply H2; assumption.
      + simpl. split; [apply env_ok_scope_app_l; apply (env_ok_pop D G G2); exact He1|].
        destruct Ho1 as (H1 & H2 & H3). repeat split; try (intros; congruence); auto.
  Qed.

  Lemma for_step n : IHB n -> IHFor n -> IHFor (S n).
  Proof.
    intros IHb IHf rt G i0 t b b' i1 rr l r Hc Hsub He Hl.
    destruct l as [|x rest]; simpl.
    - split; [assumption | exact I].
    - apply andb_true_iff in Hl as [Hx Hrest]. unfold elem_ok in Hx. apply andb_true_iff in Hx as [Hx1 Hx2].
      pose proof (env_ok_push D _ _ _ _ _ He (box_wt D _ _ Hx1 Hx2)) as Hep.
      ih_b IHb Hc Hep o r2 Heo Hout. simpl.
      apply env_ok_pop_block in Heo.
      rewrite (env_ok_length D _ _ _ He).
      pose proof (env_ok_subset D _ _ _ _ Heo Hsub) as He3.
      destruct Hout as (_ & _ & Hret).
      destruct o.
      + exact (IHf _ _ _ _ _ _ _ _ _ _ Hc Hsub He3 Hrest).
      + simpl. split; [assumption | exact I].
      + exact (IHf _ _ _ _ _ _ _ _ _ _ Hc Hsub He3 Hrest).
      + simpl. split; [assumption | apply Hret; reflexivity].
  Qed.

  Lemma env_ok_args : forall args ps, wt_list D args ps = true -> env_ok D ps [] (map Some args).
  Proof.
    intros args ps H. split.
    - rewrite map_length. apply wt_list_nth. exact H.
    - intros i t o Hi Ho. rewrite nth_error_map in Ho.
      destruct (nth_error args i) as [v|] eqn:Ev; simpl in Ho; [|discriminate].
      inversion Ho; subst. simpl.
      revert ps i H Hi Ev. induction args as [|a args IH]; destruct ps as [|p ps]; simpl; intros i H Hi Ev;
        try discriminate; try (destruct i; discriminate).
      apply andb_true_iff in H as [H1 H2]. destruct i; simpl in *.
      + inversion Hi; inversion Ev; subst. exact H1.
      + eapply IH; eauto.
  Qed.

  Lemma call_step n : IHB n -> IHC (S n).
  Proof.
    intros IHb f fd args Hfd Hargs. simpl. rewrite Hfd.
    destruct (HF _ _ Hfd) as [_ (b0 & i & rr & Hc & Hret)].
    pose proof (env_ok_args _ _ Hargs) as He.
    change (mkCenv D sigs (fn_ret fd) strict) with (C (fn_ret fd)) in Hc.
    ih_b IHb Hc He o r2 Heo Hout. simpl.
    destruct Hout as (Hn & Hj & Hr).
    destruct o; simpl.
    - destruct Hret as [Hv | ->].
      + rewrite Hv. simpl. reflexivity.
      + exfalso. apply (Hn eq_refl). reflexivity.
    - destruct (Hj eq_refl) as [Hb _]. apply Hb. reflexivity.
    - destruct (Hj eq_refl) as [_ Hc']. apply Hc'. reflexivity.
    - apply Hr. reflexivity.
  Qed.

  (* ---------------------------------------------------------------- the induction on fuel *)

  Theorem all_ok : forall n, IHE n /\ IHL n /\ IHT n /\ IHS n /\ IHB n /\ IHFor n /\ IHC n.
  Proof.
    induction n as [|n (IH & IHl & IHt & IHs & IHb & IHf & IHc)].
    - repeat split; red; intros; simpl; exact I.
    - pose proof (eval_step n IH IHl IHc) as H1.
      pose proof (list_step n IH IHl) as H2.
      pose proof (target_step n IH IHt) as H3.
      pose proof (stmt_step n IH IHt IHs IHb IHf) as H4.
      pose proof (block_step n IHs IHb) as H5.
      pose proof (for_step n IHb IHf) as H6.
      pose proof (call_step n IHb) as H7.
      repeat split; assumption.
  Qed.

End sound.
