(* C01: program-level soundness theorems, obtained from Sound.all_ok by discharging its
   hypotheses about the elaborated program from [check_program_gen strict p = Some p']. *)
From CV Require Export C01.Sound C01.Cases.

Lemma check_funs_nth strict D sigs : forall fs fs' k fd',
  check_funs strict D sigs fs = Some fs' -> nth_error fs' k = Some fd' ->
  exists fd, nth_error fs k = Some fd /\ check_fun strict D sigs fd = Some fd'.
Proof.
  induction fs as [|f fs IH]; simpl; intros fs' k fd' H Hk.
  - inversion H; subst. destruct k; discriminate.
  - destruct (check_fun strict D sigs f) as [f'|] eqn:Ef; [|discriminate].
    destruct (check_funs strict D sigs fs) as [r'|] eqn:Er; [|discriminate].
    inversion H; subst. destruct k; simpl in *.
    + inversion Hk; subst. exists f. split; [reflexivity | exact Ef].
    + eapply IH; eauto.
Qed.

Lemma check_funs_length strict D sigs : forall fs fs',
  check_funs strict D sigs fs = Some fs' -> length fs' = length fs.
Proof.
  induction fs as [|f fs IH]; simpl; intros fs' H.
  - inversion H; reflexivity.
  - destruct (check_fun strict D sigs f); [|discriminate].
    destruct (check_funs strict D sigs fs) eqn:Er; [|discriminate].
    inversion H; subst. simpl. f_equal. apply IH. reflexivity.
Qed.

Lemma check_fun_inv strict D sigs f f' :
  check_fun strict D sigs f = Some f' ->
  fn_params f' = fn_params f /\ fn_ret f' = fn_ret f /\
  exists i r, check_block (mkCenv D sigs (fn_ret f) strict) (fn_params f) [] false (fn_body f)
              = Some (fn_body f', i, r) /\ (fn_ret f = TVoid \/ r = true).
Proof.
  unfold check_fun. intro H.
  destruct (check_block (mkCenv D sigs (fn_ret f) strict) (fn_params f) [] false (fn_body f))
    as [[[b' i] r]|] eqn:Eb; [|discriminate].
  destruct (ty_eqb (fn_ret f) TVoid || r) eqn:Er; [|discriminate].
  inversion H; subst. simpl. split; [reflexivity|]. split; [reflexivity|].
  exists i, r. split; [reflexivity|].
  apply orb_true_iff in Er as [Er|Er]; [left; apply ty_eqb_eq; exact Er | right; exact Er].
Qed.

Section program.
  Variable strict bc : bool.
  Hypothesis Hbc : bc = false -> strict = true.
  Variable p p' : program.
  Hypothesis Hcheck : check_program_gen strict p = Some p'.

  Let D := p_decls p.
  Let sigs := map sig_of (p_funs p).

  Lemma elab_funs : p_decls p' = D /\ check_funs strict D sigs (p_funs p) = Some (p_funs p').
  Proof.
    unfold check_program_gen in Hcheck. fold D sigs in Hcheck.
    destruct (check_funs strict D sigs (p_funs p)) as [fs'|]; [|discriminate].
    destruct fs'; [discriminate|]. inversion Hcheck; subst. split; reflexivity.
  Qed.

  Lemma prog_HD : forall n, nth_error (p_decls p') n = nth_error D n.
  Proof. intro n. destruct elab_funs as [-> _]. reflexivity. Qed.

  Lemma prog_HF : forall f fd, nth_error (p_funs p') f = Some fd ->
    nth_error sigs f = Some (fn_params fd, fn_ret fd) /\
    exists b0 i r, check_block (mkCenv D sigs (fn_ret fd) strict) (fn_params fd) [] false b0
                   = Some (fn_body fd, i, r) /\ (fn_ret fd = TVoid \/ r = true).
  Proof.
    intros f fd Hf. destruct elab_funs as [_ Hfs].
    destruct (check_funs_nth _ _ _ _ _ _ _ Hfs Hf) as (fd0 & Hn & Hc).
    destruct (check_fun_inv _ _ _ _ _ Hc) as (Hp & Hr & i & r & Hb & Hret).
    split.
    - unfold sigs. rewrite nth_error_map, Hn. simpl. unfold sig_of. rewrite Hp, Hr. reflexivity.
    - rewrite Hp, Hr. exists (fn_body fd0), i, r. split; assumption.
  Qed.

  Lemma prog_HS : forall f sg, nth_error sigs f = Some sg -> exists fd, nth_error (p_funs p') f = Some fd.
  Proof.
    intros f sg Hs. destruct elab_funs as [_ Hfs].
    assert (Hlt : (f < length (p_funs p'))%nat).
    { rewrite (check_funs_length _ _ _ _ _ Hfs).
      unfold sigs in Hs. rewrite <- (map_length sig_of). apply nth_error_Some. congruence. }
    destruct (nth_error (p_funs p') f) eqn:E; [eauto|]. apply nth_error_None in E. lia.
  Qed.

  (* for every fuel and all well-typed arguments, running main never hits a defensive check;
     a produced value has main's declared return type *)
  Theorem run_sound : forall fuel args,
    wt_args p' args ->
    match run bc fuel p' args with
    | Ok v => exists fd, nth_error (p_funs p') O = Some fd /\ wt (p_decls p') v (fn_ret fd) = true
    | Err e => e <> Internal
    end.
  Proof.
    intros fuel args Hargs. unfold wt_args in Hargs.
    destruct (nth_error (p_funs p') O) as [fd|] eqn:Efd; [|contradiction].
    destruct elab_funs as [HDe _].
    pose proof (all_ok D sigs p' bc strict Hbc prog_HD prog_HF prog_HS fuel) as (_ & _ & _ & _ & _ & _ & Hc).
    rewrite HDe in Hargs.
    specialize (Hc O fd args Efd Hargs). unfold run. unfold post_v in Hc.
    destruct (callf p' bc fuel 0 args) as [v|e].
    - exists fd. split; [reflexivity|]. rewrite HDe. exact Hc.
    - intro He. subst. exact Hc.
  Qed.

End program.
