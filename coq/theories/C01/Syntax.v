(* C01 typed mini-Cadence: types, subtyping, syntax, run-time values.
   Definitions only (no proofs).

   Anchors in /repo: sema/type.go (IsSubType, OptionalType, VariableSizedType, DictionaryType,
   CompositeType, AnyStructType, AnyResourceType, NeverType), interpreter/value_*.go (run-time
   values and their StaticType), interpreter/interpreter.go (BoxOptional). *)
From CV Require Export Base.Prelude.

(* ------------------------------------------------------------------ types *)

Inductive ty :=
| TInt8 | TInt | TBool | TStr | TVoid | TNever | TAnyS | TAnyR
| TOpt (t : ty)
| TArr (t : ty)
| TDict (k v : ty)
| TStruct (n : nat)
| TRes (n : nat).

Fixpoint ty_eqb (a b : ty) : bool :=
  match a, b with
  | TInt8, TInt8 | TInt, TInt | TBool, TBool | TStr, TStr | TVoid, TVoid
  | TNever, TNever | TAnyS, TAnyS | TAnyR, TAnyR => true
  | TOpt x, TOpt y => ty_eqb x y
  | TArr x, TArr y => ty_eqb x y
  | TDict k v, TDict k' v' => ty_eqb k k' && ty_eqb v v'
  | TStruct n, TStruct m => Nat.eqb n m
  | TRes n, TRes m => Nat.eqb n m
  | _, _ => false
  end.

(* kind of a type: struct-kinded, resource-kinded, or "never-like" (Never, Never?, [Never?] ...:
   the types of nil literals, which fit both kinds) *)
Inductive kind := KS | KR | KN.

Fixpoint kind_of (t : ty) : kind :=
  match t with
  | TNever => KN
  | TRes _ | TAnyR => KR
  | TOpt t' | TArr t' => kind_of t'
  | TDict _ v => kind_of v
  | _ => KS
  end.

Definition kle (a b : kind) : bool :=
  match a, b with
  | KN, _ => true
  | KS, KS => true
  | KR, KR => true
  | _, _ => false
  end.

Definition is_res (t : ty) : bool := match kind_of t with KR => true | _ => false end.

(* sema.IsSubType restricted to the types above:
   - Never is a subtype of everything; AnyStruct / AnyResource are the tops of their kinds;
   - T? <: U? iff T <: U, and T <: U? iff T <: U for non-optional T;
   - variable-sized arrays and dictionaries are covariant; composites are nominal. *)
Fixpoint subtype (a b : ty) {struct b} : bool :=
  if ty_eqb a b then true else
  match a with
  | TNever => true
  | _ =>
    match b with
    | TAnyS => kle (kind_of a) KS
    | TAnyR => kle (kind_of a) KR
    | TOpt b' => match a with TOpt a' => subtype a' b' | _ => subtype a b' end
    | TArr b' => match a with TArr a' => subtype a' b' | _ => false end
    | TDict kb vb => match a with TDict ka va => subtype ka kb && subtype va vb | _ => false end
    | _ => false
    end
  end.

(* composite declarations: (is_resource, field types); the composite's number is its position *)
Definition decl := (bool * list ty)%type.
Definition decls := list decl.

(* ------------------------------------------------------------------ values *)

(* A composite value records its kind (struct/resource) and declaration number; arrays and
   dictionaries record their run-time element types (ArrayValue.Type, DictionaryValue.Type). *)
Inductive val :=
| VI8 (z : Z)
| VInt (z : Z)
| VBool (b : bool)
| VStr (s : list Z)
| VVoid
| VNil
| VSome (v : val)
| VArr (t : ty) (l : list val)
| VDict (k v : ty) (l : list (val * val))      (* insertion-ordered, unique keys *)
| VComp (r : bool) (n : nat) (fs : list val).

(* Value.StaticType *)
Fixpoint dyn (v : val) : ty :=
  match v with
  | VI8 _ => TInt8
  | VInt _ => TInt
  | VBool _ => TBool
  | VStr _ => TStr
  | VVoid => TVoid
  | VNil => TOpt TNever
  | VSome w => TOpt (dyn w)
  | VArr t _ => TArr t
  | VDict k v _ => TDict k v
  | VComp true n _ => TRes n
  | VComp false n _ => TStruct n
  end.

(* interpreter.BoxOptional, transcribed: walk the optional layers of the target type *)
Fixpoint box_go (t : ty) (inner value : val) : val :=
  match t with
  | TOpt t' =>
    match inner with
    | VSome i => box_go t' i value
    | VNil => inner                       (* NOTE in the Go code: nested nil will be unboxed! *)
    | _ => box_go t' inner (VSome value)
    end
  | _ => value
  end.
Definition box (v : val) (t : ty) : val := box_go t v v.

(* ------------------------------------------------------------------ syntax *)

Inductive binop := BAdd | BSub | BMul | BDiv | BMod | BLt | BLe | BGt | BGe.

Inductive castkind := CStatic | CFailable | CForce.   (* as, as?, as! *)

(* Type annotations written [t : ty] in an expression/statement are ELABORATION slots: the surface
   program leaves them arbitrary, the checker fills them in (sema.Elaboration), the interpreter reads them. *)
Inductive expr :=
| ELit8 (z : Z)                        (* integer literal of type Int8 *)
| ELitInt (z : Z)                      (* integer literal of type Int *)
| EBool (b : bool)
| EStr (s : list Z)
| ENil
| EVar (x : nat)                       (* variables are numbered by declaration order in the function *)
| EMove (x : nat)                      (* <- x  (resource variable) *)
| EBin (op : binop) (a b : expr)
| EEq (neg : bool) (a b : expr)        (* == / != *)
| EAnd (a b : expr)
| EOr (a b : expr)
| ENot (a : expr)
| ECoalesce (a b : expr) (tl tr tj : ty)       (* a ?? b ; left, right and result types *)
| ECond (c a b : expr) (ta tb tj : ty)         (* c ? a : b ; branch types and their join *)
| EForce (e : expr)                            (* e! *)
| EMember (e : expr) (f : nat) (ta : ty)       (* e.f ; accessed type *)
| EOptMember (e : expr) (f : nat) (ta : ty)    (* e?.f ; accessed (optional) type *)
| ECast (k : castkind) (e : expr) (tv t : ty)  (* e as T / as? T / as! T *)
| EArr (es : exprs) (te : ty)                  (* [e1,...] ; element type *)
| EDict (es : exprs) (tk tv : ty)              (* {k1: v1, ...} flattened *)
| EIndex (a i : expr) (ta ti tr : ty)          (* a[i] ; indexed, indexing and result types *)
| ELen (a : expr)                              (* a.length *)
| ECall (f : nat) (args : exprs)               (* user function *)
| ECtor (n : nat) (args : exprs)               (* S(...) / create R(...) *)
| EPanic                                       (* panic("") : Never *)
with exprs :=
| ENone
| EMore (e : expr) (t : ty) (r : exprs).       (* t = static type of e (elaboration) *)

Inductive target :=
| TgVar (x : nat)
| TgIndex (g : target) (i : expr)
| TgMember (g : target) (f : nat).

Inductive stmt :=
| SLet (ann : option ty) (e : expr) (tv tt : ty)      (* let x: T = e  (x = next variable number) *)
| SAssign (g : target) (e : expr) (tv tt : ty)        (* g = e *)
| SSwap (x y : nat)                                   (* x <-> y *)
| SAppend (g : target) (e : expr) (tv tt : ty)        (* g.append(e) *)
| SIf (c : expr) (b1 b2 : block)
| SIfLet (e : expr) (tv : ty) (b1 b2 : block)         (* if let x = e {..} else {..} *)
| SWhile (c : expr) (b : block)
| SFor (e : expr) (te : ty) (b : block)               (* for x in e {..} *)
| SReturn (e : option expr) (tv rt : ty)               (* value type, declared return type *)
| SBreak
| SContinue
| SExpr (e : expr)
| SDestroy (e : expr)
| SGuard (c : expr) (b : block)                       (* guard c else { b } *)
| SGuardLet (e : expr) (tv : ty) (b rest : block)     (* guard let x = e else { b } ; rest
                                                         (rest = the remaining statements of the enclosing
                                                          block: the scope of x) *)
with block :=
| BNil
| BCons (s : stmt) (b : block).

Record fundef := mkFun { fn_params : list ty; fn_ret : ty; fn_body : block }.

Record program := mkProg { p_decls : decls; p_funs : list fundef }.   (* function 0 is main *)
