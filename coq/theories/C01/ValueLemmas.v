(* C01: lemmas about run-time values: dynamic types, boxing, the transfer check, canonical forms. *)
From CV Require Export C01.TypeLemmas.

Arguments subtype : simpl never.

(* ------------------------------------------------------------------ dynamic types *)

Lemma dyn_not_never v : dyn v <> TNever.
Proof. destruct v; simpl; try discriminate. destruct r; discriminate. Qed.

Lemma dyn_not_anys v : dyn v <> TAnyS.
Proof. destruct v; simpl; try discriminate. destruct r; discriminate. Qed.

Lemma dyn_not_anyr v : dyn v <> TAnyR.
Proof. destruct v; simpl; try discriminate. destruct r; discriminate. Qed.

Lemma dyn_prim v t :
  match t with TInt8 | TInt | TBool | TStr | TVoid | TStruct _ | TRes _ | TNever => True | _ => False end ->
  subtype (dyn v) t = true -> dyn v = t.
Proof.
  intros Ht H. apply subtype_prim in H; [|exact Ht]. destruct H as [H|H]; [exact H|].
  exfalso; eapply dyn_not_never; eauto.
Qed.

Fixpoint wrapn (k : nat) (v : val) : val := match k with O => v | S k' => VSome (wrapn k' v) end.

Lemma wrapn_some k v : wrapn k (VSome v) = VSome (wrapn k v).
Proof. induction k; simpl; congruence. Qed.

Lemma wrap_opt k t : wrap k (TOpt t) = TOpt (wrap k t).
Proof. induction k; simpl; congruence. Qed.

Lemma dyn_wrapn k v : dyn (wrapn k v) = wrap k (dyn v).
Proof. induction k; simpl; congruence. Qed.

Lemma subtype_wrap k a b : subtype (wrap k a) (wrap k b) = subtype a b.
Proof. induction k; simpl; [reflexivity|]. rewrite subtype_opt_opt; exact IHk. Qed.

Lemma shape_wrapn k v t : shape (wrapn k v) (wrap k t) = shape v t.
Proof. induction k; simpl; auto. Qed.

Definition is_optval (v : val) : bool := match v with VNil | VSome _ => true | _ => false end.

Lemma dyn_nonopt v : is_optval v = false -> is_opt (dyn v) = false.
Proof. destruct v; simpl; try discriminate; try reflexivity. destruct r; reflexivity. Qed.

Lemma subtype_nonopt_opt a t : is_opt a = false -> a <> TNever -> subtype a (TOpt t) = subtype a t.
Proof.
  intros Ha Hn. rewrite subtype_unfold.
  destruct (ty_eqb a (TOpt t)) eqn:E.
  { apply ty_eqb_eq in E; subst; discriminate. }
  destruct a; try reflexivity; try discriminate. contradiction.
Qed.

(* ------------------------------------------------------------------ BoxOptional *)

Section box.
  Variable D : decls.

  Lemma wfv_wrapn k v : wfv D (wrapn k v) = wfv D v.
  Proof. induction k; simpl; auto. Qed.

  Lemma box_go_wfv : forall t inner value,
    wfv D value = true -> wfv D (box_go t inner value) = true.
  Proof.
    induction t; intros inner value H; simpl; try exact H.
    destruct inner; try (apply IHt; simpl; exact H); try exact H; reflexivity.
  Qed.

  Lemma box_go_shape : forall t k inner,
    shape (box_go t inner (wrapn k inner)) (wrap k t) = true.
  Proof.
    induction t; intros k inner; simpl; try (rewrite shape_wrapn; reflexivity).
    destruct inner; try (rewrite wrap_opt; exact (IHt (S k) _)).
    - rewrite wrap_opt. reflexivity.
    - rewrite wrapn_some, wrap_opt. exact (IHt (S k) inner).
  Qed.

  Lemma box_go_sub : forall t k inner,
    subtype (dyn inner) t = true ->
    subtype (dyn (box_go t inner (wrapn k inner))) (wrap k t) = true.
  Proof.
    induction t; intros k inner H; simpl;
      try (rewrite dyn_wrapn, subtype_wrap; exact H).
    assert (Hn : is_optval inner = false ->
                 subtype (dyn (box_go t inner (VSome (wrapn k inner)))) (wrap k (TOpt t)) = true).
    { intro Hi. rewrite wrap_opt. apply (IHt (S k) inner).
      rewrite <- H. symmetry. apply subtype_nonopt_opt; [apply dyn_nonopt; exact Hi | apply dyn_not_never]. }
    destruct inner; try (apply Hn; reflexivity).
    - (* nil *) rewrite wrap_opt. simpl. rewrite subtype_opt_opt. apply subtype_never.
    - (* some *) rewrite wrapn_some, wrap_opt. apply (IHt (S k) inner).
      simpl in H. rewrite subtype_opt_opt in H. exact H.
  Qed.

  Lemma box_wt v t : wfv D v = true -> subtype (dyn v) t = true -> wt D (box v t) t = true.
  Proof.
    intros Hw Hs. unfold wt, box.
    rewrite (box_go_wfv t v v Hw).
    pose proof (box_go_sub t O v Hs) as H1. simpl in H1. rewrite H1.
    pose proof (box_go_shape t O v) as H2. simpl in H2. rewrite H2. reflexivity.
  Qed.

  Lemma transfer_ok v vt t :
    wfv D v = true -> subtype (dyn v) vt = true -> subtype vt t = true ->
    exists w, transfer_check v vt t = Ok w /\ wt D w t = true.
  Proof.
    intros Hw H1 H2. unfold transfer_check. rewrite H1.
    assert (Hs : subtype (dyn v) t = true) by (eapply subtype_trans; eauto).
    pose proof (box_wt v t Hw Hs) as Hb.
    unfold wt in Hb. apply andb_true_iff in Hb as [Hb Hb3]. apply andb_true_iff in Hb as [Hb1 Hb2].
    rewrite Hb2. eexists; split; [reflexivity|]. unfold wt. rewrite Hb1, Hb2, Hb3. reflexivity.
  Qed.

  (* ---------------------------------------------------------------- wt: projections and canonical forms *)

  Lemma wt_wfv v t : wt D v t = true -> wfv D v = true.
  Proof. unfold wt. intro H. apply andb_true_iff in H as [H _]. apply andb_true_iff in H as [H _]. exact H. Qed.

  Lemma wt_sub v t : wt D v t = true -> subtype (dyn v) t = true.
  Proof. unfold wt. intro H. apply andb_true_iff in H as [H _]. apply andb_true_iff in H as [_ H]. exact H. Qed.

  Lemma wt_shape v t : wt D v t = true -> shape v t = true.
  Proof. unfold wt. intro H. apply andb_true_iff in H as [_ H]. exact H. Qed.

  Lemma wt_intro v t : wfv D v = true -> subtype (dyn v) t = true -> shape v t = true -> wt D v t = true.
  Proof. unfold wt. intros -> -> ->. reflexivity. Qed.

  Lemma shape_nonopt v t : is_opt t = false -> shape v t = true.
  Proof. destruct t; simpl; try reflexivity. discriminate. Qed.

  Lemma wt_opt_inv v t : wt D v (TOpt t) = true -> v = VNil \/ exists w, v = VSome w /\ wt D w t = true.
  Proof.
    intro H. pose proof (wt_wfv _ _ H) as Hw. pose proof (wt_sub _ _ H) as Hs. pose proof (wt_shape _ _ H) as Hp.
    simpl in Hp. destruct v; try discriminate.
    - left; reflexivity.
    - right. exists v. split; [reflexivity|]. simpl in *. rewrite subtype_opt_opt in Hs.
      apply wt_intro; assumption.
  Qed.

  Lemma wt_some w t : wt D w t = true -> wt D (VSome w) (TOpt t) = true.
  Proof.
    intro H. apply wt_intro; simpl.
    - eapply wt_wfv; eauto.
    - rewrite subtype_opt_opt. eapply wt_sub; eauto.
    - eapply wt_shape; eauto.
  Qed.

  Lemma wt_nil t : wt D VNil (TOpt t) = true.
  Proof. apply wt_intro; simpl; try reflexivity. rewrite subtype_opt_opt. apply subtype_never. Qed.

  Lemma wt_bool_inv v : wt D v TBool = true -> exists b, v = VBool b.
  Proof.
    intro H. apply wt_sub in H. apply dyn_prim in H; [|exact I].
    destruct v; simpl in H; try discriminate; eauto. destruct r; discriminate.
  Qed.

  Lemma wt_i8_inv v : wt D v TInt8 = true -> exists z, v = VI8 z /\ in_i8 z = true.
  Proof.
    intro H. pose proof (wt_wfv _ _ H) as Hw. apply wt_sub in H. apply dyn_prim in H; [|exact I].
    destruct v; simpl in H; try discriminate; eauto. destruct r; discriminate.
  Qed.

  Lemma wt_int_inv v : wt D v TInt = true -> exists z, v = VInt z.
  Proof.
    intro H. apply wt_sub in H. apply dyn_prim in H; [|exact I].
    destruct v; simpl in H; try discriminate; eauto. destruct r; discriminate.
  Qed.

  Lemma wt_never_inv v : wt D v TNever = true -> False.
  Proof.
    intro H. apply wt_sub in H. apply dyn_prim in H; [|exact I]. eapply dyn_not_never; eauto.
  Qed.

  Lemma wt_bool b : wt D (VBool b) TBool = true.
  Proof. reflexivity. Qed.

  Lemma wt_arr_inv v t :
    subtype (dyn v) (TArr t) = true -> exists te l, v = VArr te l /\ subtype te t = true.
  Proof.
    intro H. apply subtype_arr_inv in H. destruct H as [H | (a' & Ha & Hs)].
    { exfalso; eapply dyn_not_never; eauto. }
    destruct v; simpl in Ha; try discriminate.
    - inversion Ha; subst. eauto.
    - destruct r; discriminate.
  Qed.

  Lemma wt_dict_inv v k t :
    subtype (dyn v) (TDict k t) = true ->
    exists tk tv l, v = VDict tk tv l /\ subtype tk k = true /\ subtype tv t = true.
  Proof.
    intro H. apply subtype_dict_inv in H. destruct H as [H | (k' & v' & Ha & Hk & Hv)].
    { exfalso; eapply dyn_not_never; eauto. }
    destruct v; simpl in Ha; try discriminate.
    - inversion Ha; subst. eauto 6.
    - destruct r; discriminate.
  Qed.

  (* fields of a composite value *)
  Fixpoint fields_ok (fs : list val) (ts : list ty) : bool :=
    match fs, ts with
    | [], [] => true
    | x :: fs', t :: ts' => wfv D x && subtype (dyn x) t && shape x t && fields_ok fs' ts'
    | _, _ => false
    end.

  Lemma wfv_comp r n fs :
    wfv D (VComp r n fs) =
    match nth_error D n with
    | Some (r', fts) => Bool.eqb r r' && fields_ok fs fts
    | None => false
    end.
  Proof.
    simpl. destruct (nth_error D n) as [[r' fts]|]; reflexivity.
  Qed.

  Lemma fields_ok_nth : forall fs ts f tf,
    fields_ok fs ts = true -> nth_error ts f = Some tf ->
    exists x, nth_error fs f = Some x /\ wt D x tf = true.
  Proof.
    induction fs; destruct ts; simpl; intros f tf H Hn; try discriminate.
    - destruct f; discriminate.
    - apply andb_true_iff in H as [H H4].
      destruct f; simpl in *.
      + inversion Hn; subst. exists a. split; [reflexivity|exact H].
      + eapply IHfs; eauto.
  Qed.

  Lemma fields_ok_length : forall fs ts, fields_ok fs ts = true -> length fs = length ts.
  Proof.
    induction fs; destruct ts; simpl; intro H; try discriminate; try reflexivity.
    apply andb_true_iff in H as [_ H]. f_equal; auto.
  Qed.

  Lemma fields_ok_set : forall fs ts f tf x,
    fields_ok fs ts = true -> nth_error ts f = Some tf -> wt D x tf = true ->
    fields_ok (set_nth fs f x) ts = true.
  Proof.
    induction fs; destruct ts; simpl; intros f tf x H Hn Hx; try discriminate; try reflexivity.
    apply andb_true_iff in H as [H H4].
    destruct f; simpl in *.
    - inversion Hn; subst. unfold wt in Hx. rewrite Hx, H4. reflexivity.
    - rewrite H. simpl. eapply IHfs; eauto.
  Qed.

  Lemma fields_ok_of_wt_list : forall vs ts, wt_list D vs ts = true -> fields_ok vs ts = true.
  Proof.
    induction vs; destruct ts; simpl; intro H; try discriminate; try reflexivity.
    apply andb_true_iff in H as [H1 H2]. unfold wt in H1. rewrite H1. simpl. auto.
  Qed.

  (* a value whose run-time type is below a composite type is a composite of that declaration *)
  Lemma comp_inv v t fs :
    wfv D v = true -> subtype (dyn v) t = true -> fields_of D t = Some fs ->
    exists r n vs, v = VComp r n vs /\ t = comp_ty r n /\ nth_error D n = Some (r, fs) /\ fields_ok vs fs = true.
  Proof.
    intros Hw Hs Hf.
    assert (Hd : dyn v = t).
    { apply dyn_prim; [|exact Hs]. destruct t; simpl in Hf; try discriminate; exact I. }
    destruct v; simpl in Hd; subst t; simpl in Hf; try discriminate.
    rewrite wfv_comp in Hw.
    destruct r; simpl in Hf; destruct (nth_error D n) as [[r' fts]|] eqn:En; try discriminate;
      destruct r'; try discriminate; inversion Hf; subst; simpl in Hw.
    - exists true, n, fs0; repeat split; try reflexivity; try exact Hw; try exact En.
    - exists false, n, fs0; repeat split; try reflexivity; try exact Hw; try exact En.
  Qed.

End box.
