(* C01: the typing invariant of run-time values and environments (definitions only).
   [wt D v t] = value v is a well-formed representation of static type t:
     - wfv   : v is internally consistent (Int8 in range; elements of a container conform to the
               container's run-time element type; fields of a composite are well-typed
               representations of the declared field types);
     - the run-time type of v is a subtype of t (what the defensive transfer check tests);
     - shape : where t is an optional type, v is nil or Some (what `??`, `?.`, `if let` rely on). *)
From CV Require Export C01.Interp.

Fixpoint shape (v : val) (t : ty) {struct t} : bool :=
  match t with
  | TOpt t' => match v with VNil => true | VSome w => shape w t' | _ => false end
  | _ => true
  end.

Section typing.
  Variable D : decls.

  Fixpoint wfv (v : val) : bool :=
    match v with
    | VI8 z => in_i8 z
    | VInt _ | VBool _ | VStr _ | VVoid | VNil => true
    | VSome w => wfv w
    | VArr t l => forallb (fun x => wfv x && subtype (dyn x) t) l
    | VDict tk tv l =>
      forallb (fun p => let '(k, x) := p in
                        wfv k && subtype (dyn k) tk && wfv x && subtype (dyn x) tv) l
    | VComp r n fs =>
      match nth_error D n with
      | Some (r', fts) =>
        Bool.eqb r r' &&
        (fix go (fs : list val) (ts : list ty) {struct fs} : bool :=
           match fs, ts with
           | [], [] => true
           | x :: fs', t :: ts' => wfv x && subtype (dyn x) t && shape x t && go fs' ts'
           | _, _ => false
           end) fs fts
      | None => false
      end
    end.

  Definition wt (v : val) (t : ty) : bool := wfv v && subtype (dyn v) t && shape v t.

  (* a variable slot: a well-typed value, or an invalidated (moved) resource that the checker
     knows may be invalidated *)
  Definition slot_ok (inv : list nat) (i : nat) (t : ty) (o : option val) : Prop :=
    match o with
    | Some v => wt v t = true
    | None => mem i inv = true
    end.

  Definition env_ok (G : list ty) (inv : list nat) (r : env) : Prop :=
    length r = length G /\
    forall i t o, nth_error G i = Some t -> nth_error r i = Some o -> slot_ok inv i t o.

  (* well-typed argument lists *)
  Fixpoint wt_list (vs : list val) (ts : list ty) : bool :=
    match vs, ts with
    | [], [] => true
    | v :: vs', t :: ts' => wt v t && wt_list vs' ts'
    | _, _ => false
    end.

End typing.

(* the arguments of main are well-typed for an (elaborated) program *)
Definition wt_args (p : program) (args : list val) : Prop :=
  match nth_error (p_funs p) O with
  | Some fd => wt_list (p_decls p) args (fn_params fd) = true
  | None => False
  end.

Definition is_internal {A} (r : res A) : Prop :=
  match r with Err Internal => True | _ => False end.
