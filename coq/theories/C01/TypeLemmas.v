(* C01: lemmas about type equality, kinds and the subtype relation (reflexivity, transitivity,
   inversions). *)
From CV Require Export C01.Typing.

Lemma ty_eqb_refl t : ty_eqb t t = true.
Proof.
  induction t; simpl; auto using Nat.eqb_refl.
  rewrite IHt1, IHt2; reflexivity.
Qed.

Lemma ty_eqb_eq a : forall b, ty_eqb a b = true -> a = b.
Proof.
  induction a; destruct b; simpl; intro H; try discriminate; try reflexivity.
  - f_equal; auto.
  - f_equal; auto.
  - apply andb_true_iff in H as [H1 H2]. f_equal; auto.
  - apply Nat.eqb_eq in H; subst; reflexivity.
  - apply Nat.eqb_eq in H; subst; reflexivity.
Qed.

Lemma ty_eqb_iff a b : ty_eqb a b = true <-> a = b.
Proof. split; [apply ty_eqb_eq | intros ->; apply ty_eqb_refl]. Qed.

Lemma ty_eqb_false a b : ty_eqb a b = false -> a <> b.
Proof. intros H E; subst; rewrite ty_eqb_refl in H; discriminate. Qed.

Lemma subtype_refl t : subtype t t = true.
Proof. destruct t; simpl; rewrite ?ty_eqb_refl, ?Nat.eqb_refl; simpl; reflexivity. Qed.

Lemma subtype_never t : subtype TNever t = true.
Proof. destruct t; simpl; reflexivity. Qed.

(* one unfolding step, with the equality test made explicit *)
Lemma subtype_unfold a b :
  subtype a b =
  if ty_eqb a b then true else
  match a with
  | TNever => true
  | _ =>
    match b with
    | TAnyS => kle (kind_of a) KS
    | TAnyR => kle (kind_of a) KR
    | TOpt b' => match a with TOpt a' => subtype a' b' | _ => subtype a b' end
    | TArr b' => match a with TArr a' => subtype a' b' | _ => false end
    | TDict kb vb => match a with TDict ka va => subtype ka kb && subtype va vb | _ => false end
    | _ => false
    end
  end.
Proof. destruct b; reflexivity. Qed.

Lemma subtype_opt_opt a b : subtype (TOpt a) (TOpt b) = subtype a b.
Proof.
  rewrite subtype_unfold. simpl.
  destruct (ty_eqb a b) eqn:E; [|reflexivity].
  apply ty_eqb_eq in E; subst. symmetry; apply subtype_refl.
Qed.

Lemma subtype_arr_arr a b : subtype (TArr a) (TArr b) = subtype a b.
Proof.
  rewrite subtype_unfold. simpl.
  destruct (ty_eqb a b) eqn:E; [|reflexivity].
  apply ty_eqb_eq in E; subst. symmetry; apply subtype_refl.
Qed.

Lemma subtype_dict_dict k v k' v' :
  subtype (TDict k v) (TDict k' v') = subtype k k' && subtype v v'.
Proof.
  rewrite subtype_unfold. simpl.
  destruct (ty_eqb k k' && ty_eqb v v') eqn:E; [|reflexivity].
  apply andb_true_iff in E as [E1 E2].
  apply ty_eqb_eq in E1; apply ty_eqb_eq in E2; subst.
  rewrite !subtype_refl; reflexivity.
Qed.

(* ------------------------------------------------------------------ kinds *)

Lemma kle_refl k : kle k k = true.
Proof. destruct k; reflexivity. Qed.

Lemma kle_trans a b c : kle a b = true -> kle b c = true -> kle a c = true.
Proof. destruct a, b, c; simpl; auto. Qed.

Lemma subtype_kind : forall b a, subtype a b = true -> kle (kind_of a) (kind_of b) = true.
Proof.
  induction b; intros a H; rewrite subtype_unfold in H;
    (destruct (ty_eqb a _) eqn:E; [apply ty_eqb_eq in E; subst; apply kle_refl|]);
    destruct a; simpl in H; try discriminate; try reflexivity; try exact H;
    try (apply IHb in H; exact H).
  apply andb_true_iff in H as [_ H]. apply IHb2 in H. exact H.
Qed.

(* ------------------------------------------------------------------ inversions *)

Definition not_never (t : ty) : Prop := t <> TNever.

Lemma subtype_prim a b :
  match b with TInt8 | TInt | TBool | TStr | TVoid | TStruct _ | TRes _ | TNever => True | _ => False end ->
  subtype a b = true -> a = b \/ a = TNever.
Proof.
  intros Hb H. rewrite subtype_unfold in H.
  destruct (ty_eqb a b) eqn:E; [left; apply ty_eqb_eq; exact E|].
  destruct a; try (right; reflexivity); destruct b; try contradiction; discriminate.
Qed.

Lemma subtype_arr_inv a t : subtype a (TArr t) = true -> a = TNever \/ exists a', a = TArr a' /\ subtype a' t = true.
Proof.
  intro H. destruct a; try (left; reflexivity); try (rewrite subtype_unfold in H; simpl in H; discriminate).
  right. exists a. split; [reflexivity|]. rewrite subtype_arr_arr in H; exact H.
Qed.

Lemma subtype_dict_inv a k v :
  subtype a (TDict k v) = true ->
  a = TNever \/ exists k' v', a = TDict k' v' /\ subtype k' k = true /\ subtype v' v = true.
Proof.
  intro H. destruct a; try (left; reflexivity); try (rewrite subtype_unfold in H; simpl in H; discriminate).
  right. exists a1, a2. rewrite subtype_dict_dict in H. apply andb_true_iff in H. tauto.
Qed.

(* ------------------------------------------------------------------ transitivity *)

Lemma subtype_any_s a : subtype a TAnyS = true <-> kle (kind_of a) KS = true.
Proof.
  rewrite subtype_unfold. destruct (ty_eqb a TAnyS) eqn:E.
  - apply ty_eqb_eq in E; subst; simpl; tauto.
  - destruct a; simpl; tauto.
Qed.

Lemma subtype_any_r a : subtype a TAnyR = true <-> kle (kind_of a) KR = true.
Proof.
  rewrite subtype_unfold. destruct (ty_eqb a TAnyR) eqn:E.
  - apply ty_eqb_eq in E; subst; simpl; tauto.
  - destruct a; simpl; tauto.
Qed.

(* a type whose optional-stripped core is AnyStruct (resp. AnyResource) is above every type of its kind *)
Fixpoint core (t : ty) : ty := match t with TOpt t' => core t' | _ => t end.

Lemma kind_core t : kind_of (core t) = kind_of t.
Proof. induction t; simpl; auto. Qed.

Lemma subtype_core_any : forall c a,
  (core c = TAnyS -> kle (kind_of a) KS = true -> subtype a c = true) /\
  (core c = TAnyR -> kle (kind_of a) KR = true -> subtype a c = true).
Proof.
  induction c; split; intros Hc Hk; simpl in Hc; try discriminate.
  - apply subtype_any_s; exact Hk.
  - apply subtype_any_r; exact Hk.
  - rewrite subtype_unfold. destruct (ty_eqb a (TOpt c)); [reflexivity|].
    destruct a; try reflexivity; try (apply (proj1 (IHc _)); assumption).
  - rewrite subtype_unfold. destruct (ty_eqb a (TOpt c)); [reflexivity|].
    destruct a; try reflexivity; try (apply (proj2 (IHc _)); assumption).
Qed.

Lemma any_below : forall c, (subtype TAnyS c = true -> core c = TAnyS) /\ (subtype TAnyR c = true -> core c = TAnyR).
Proof.
  induction c; split; intro H; try reflexivity; try (rewrite subtype_unfold in H; simpl in H; discriminate); simpl.
  - apply IHc. rewrite subtype_unfold in H. simpl in H. exact H.
  - apply IHc. rewrite subtype_unfold in H. simpl in H. exact H.
Qed.

Lemma subtype_trans : forall c a b, subtype a b = true -> subtype b c = true -> subtype a c = true.
Proof.
  induction c; intros a b Hab Hbc.
  (* primitive / nominal supertypes *)
  1-6, 12, 13:
    (apply subtype_prim in Hbc; [|exact I]; destruct Hbc as [-> | ->]; [exact Hab|];
     apply subtype_prim in Hab; [|exact I]; destruct Hab as [-> | ->]; apply subtype_never).
  - (* AnyStruct *)
    apply subtype_any_s. apply subtype_any_s in Hbc.
    eapply kle_trans; [apply subtype_kind; exact Hab | exact Hbc].
  - (* AnyResource *)
    apply subtype_any_r. apply subtype_any_r in Hbc.
    eapply kle_trans; [apply subtype_kind; exact Hab | exact Hbc].
  - (* TOpt c *)
    rewrite subtype_unfold in Hbc.
    destruct (ty_eqb b (TOpt c)) eqn:E; [apply ty_eqb_eq in E; subst; exact Hab|].
    rewrite (subtype_unfold a (TOpt c)).
    destruct (ty_eqb a (TOpt c)); [reflexivity|].
    destruct b.
    all: try (apply subtype_prim in Hab; [|exact I]; destruct Hab as [-> | ->]; [exact Hbc | reflexivity]).
    + (* b = TAnyS *)
      destruct a; try reflexivity;
        try (eapply IHc; [exact Hab | exact Hbc]).
      (* a = TOpt a: need a <: c where core c = AnyS *)
      apply (proj1 (any_below c)) in Hbc.
      apply (proj1 (subtype_core_any c a)); [exact Hbc|].
      apply subtype_any_s in Hab. exact Hab.
    + (* b = TAnyR *)
      destruct a; try reflexivity;
        try (eapply IHc; [exact Hab | exact Hbc]).
      apply (proj2 (any_below c)) in Hbc.
      apply (proj2 (subtype_core_any c a)); [exact Hbc|].
      apply subtype_any_r in Hab. exact Hab.
    + (* b = TOpt b *)
      rewrite subtype_unfold in Hab. destruct (ty_eqb a (TOpt b)) eqn:E2.
      { apply ty_eqb_eq in E2; subst. exact Hbc. }
      destruct a; try reflexivity; eapply IHc; eauto.
    + (* b = TArr *)
      apply subtype_arr_inv in Hab. destruct Hab as [-> | (a' & -> & Ha)]; [reflexivity|].
      eapply IHc; [|exact Hbc]. rewrite subtype_arr_arr; exact Ha.
    + (* b = TDict *)
      apply subtype_dict_inv in Hab. destruct Hab as [-> | (k' & v' & -> & Hk & Hv)]; [reflexivity|].
      eapply IHc; [|exact Hbc]. rewrite subtype_dict_dict, Hk, Hv; reflexivity.
  - (* TArr c *)
    apply subtype_arr_inv in Hbc. destruct Hbc as [-> | (b' & -> & Hb)].
    { apply subtype_prim in Hab; [|exact I]. destruct Hab as [-> | ->]; reflexivity. }
    apply subtype_arr_inv in Hab. destruct Hab as [-> | (a' & -> & Ha)]; [reflexivity|].
    rewrite subtype_arr_arr. eapply IHc; eauto.
  - (* TDict *)
    apply subtype_dict_inv in Hbc. destruct Hbc as [-> | (k' & v' & -> & Hk & Hv)].
    { apply subtype_prim in Hab; [|exact I]. destruct Hab as [-> | ->]; reflexivity. }
    apply subtype_dict_inv in Hab. destruct Hab as [-> | (k'' & v'' & -> & Hk' & Hv')]; [reflexivity|].
    rewrite subtype_dict_dict. rewrite (IHc1 _ _ Hk' Hk), (IHc2 _ _ Hv' Hv). reflexivity.
Qed.
