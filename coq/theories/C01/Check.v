(* C01 typed mini-Cadence: the type checker (definitions only).
   [check_program p = Some p'] : p is accepted and p' is p with the elaboration slots filled in
   (the information sema.Checker records in sema.Elaboration and the interpreter reads back:
   static value/target types of every transfer, member-access types, index types, cast types).

   Anchors in /repo: sema/check_*.go (expression/statement rules), sema/type_tags.go
   (LeastCommonSuperType), sema/resources.go + recordResourceInvalidation (resource
   invalidation tracking), sema/check_function.go + function_activations.go (missing return
   statement / definite-return analysis), control statements outside loops. *)
From CV Require Export C01.Syntax.

Definition fsig := (list ty * ty)%type.

(* ce_strict = true additionally rejects a conditional expression whose branch types differ from
   their join (the exact guard under which the interpreter as written - which does not box the
   branch value - is sound; see Properties/C01.v) *)
Record cenv := mkCenv { ce_decls : decls; ce_funs : list fsig; ce_ret : ty; ce_strict : bool }.

Definition mem (x : nat) (l : list nat) : bool := existsb (Nat.eqb x) l.

(* invalidations that concern variables still in scope *)
Definition scope (n : nat) (inv : list nat) : list nat := filter (fun i => Nat.ltb i n) inv.

(* duplicate-free union of invalidation sets (keeps them bounded by the number of variables) *)
Definition union (a b : list nat) : list nat := a ++ filter (fun x => negb (mem x a)) b.

Definition subset (a b : list nat) : bool := forallb (fun i => mem i b) a.

Definition is_opt (t : ty) : bool := match t with TOpt _ => true | _ => false end.

(* ------------------------------------------------------------------ joins (LeastCommonSuperType) *)

Fixpoint strip (t : ty) : nat * ty :=
  match t with
  | TOpt t' => let '(d, c) := strip t' in (S d, c)
  | _ => (O, t)
  end.

Fixpoint wrap (d : nat) (t : ty) : ty :=
  match d with O => t | S d' => TOpt (wrap d' t) end.

Definition is_any (t : ty) : bool := match t with TAnyS | TAnyR => true | _ => false end.

Definition is_prim (t : ty) : bool :=
  match t with TInt8 | TInt | TBool | TStr => true | _ => false end.

Definition same_container (a b : ty) : bool :=
  match a, b with
  | TArr _, TArr _ | TDict _ _, TDict _ _ => true
  | _, _ => false
  end.

(* the least common supertype on the fragment (sema/type_tags.go LeastCommonSuperType);
   None = no join, or a join outside the fragment (Integer, HashableStruct, [T] vs [U], ...).
   - equal types join to themselves;
   - otherwise optionals are stripped, the cores are joined and the optional levels re-applied,
     except when the joined core is AnyStruct/AnyResource (they already contain nil);
   - different struct-kinded cores join to AnyStruct, except two hashable primitives (they join to
     HashableStruct / Integer) and two arrays or two dictionaries (element-wise joins), which are
     outside the fragment.
   The checker re-validates the result with [subtype] (as LeastCommonSuperType's sanity check does). *)
Definition join (a b : ty) : option ty :=
  if ty_eqb a b then Some a else
  let '(da, ca) := strip a in
  let '(db, cb) := strip b in
  let d := Nat.max da db in
  let rewrap c := if is_any c then Some c else Some (wrap d c) in
  if ty_eqb ca cb then rewrap ca
  else match ca, cb with
       | TNever, _ => rewrap cb
       | _, TNever => rewrap ca
       | _, _ =>
         if kle (kind_of ca) KS && kle (kind_of cb) KS &&
            negb (is_prim ca && is_prim cb) && negb (same_container ca cb)
         then Some TAnyS else None
       end.

Definition checked_join (a b : ty) : option ty :=
  match join a b with
  | Some j => if subtype a j && subtype b j then Some j else None
  | None => None
  end.

(* ------------------------------------------------------------------ expressions *)

Definition is_arith (op : binop) : bool :=
  match op with BAdd | BSub | BMul | BDiv | BMod => true | _ => false end.

Fixpoint equatable (t : ty) : bool :=
  match t with
  | TInt8 | TInt | TBool | TStr | TNever => true
  | TOpt t' => equatable t'
  | _ => false
  end.

Definition hashable (t : ty) : bool :=
  match t with TInt8 | TInt | TBool | TStr => true | _ => false end.

Definition is_intty (t : ty) : bool :=
  match t with TInt8 | TInt => true | _ => false end.

Definition comp_ty (r : bool) (n : nat) : ty := if r then TRes n else TStruct n.

(* field types of a composite type *)
Definition fields_of (D : decls) (t : ty) : option (list ty) :=
  match t with
  | TStruct n => match nth_error D n with Some (false, fs) => Some fs | _ => None end
  | TRes n => match nth_error D n with Some (true, fs) => Some fs | _ => None end
  | _ => None
  end.

Definition in_i8 (z : Z) : bool := (-128 <=? z) && (z <=? 127).

Fixpoint exprs_len (es : exprs) : nat :=
  match es with ENone => O | EMore _ _ r => S (exprs_len r) end.

Section check.
  Variable C : cenv.

  Fixpoint check_expr (G : list ty) (inv : list nat) (e : expr) {struct e}
    : option (expr * ty * list nat) :=
    match e with
    | ELit8 z => if in_i8 z then Some (e, TInt8, inv) else None
    | ELitInt _ => Some (e, TInt, inv)
    | EBool _ => Some (e, TBool, inv)
    | EStr _ => Some (e, TStr, inv)
    | ENil => Some (e, TOpt TNever, inv)
    | EVar x =>
      match nth_error G x with
      | Some t => if mem x inv then None else Some (e, t, inv)
      | None => None
      end
    | EMove x =>
      match nth_error G x with
      | Some t => if mem x inv then None
                  else if kle (kind_of t) KS then None
                  else Some (e, t, x :: inv)
      | None => None
      end
    | EBin op a b =>
      match check_expr G inv a with
      | Some (a', ta, i1) =>
        match check_expr G i1 b with
        | Some (b', tb, i2) =>
          if is_intty ta && ty_eqb ta tb
          then Some (EBin op a' b', if is_arith op then ta else TBool, i2)
          else None
        | None => None
        end
      | None => None
      end
    | EEq neg a b =>
      match check_expr G inv a with
      | Some (a', ta, i1) =>
        match check_expr G i1 b with
        | Some (b', tb, i2) =>
          if equatable ta && equatable tb && (subtype ta tb || subtype tb ta)
          then Some (EEq neg a' b', TBool, i2)
          else None
        | None => None
        end
      | None => None
      end
    | EAnd a b =>
      match check_expr G inv a with
      | Some (a', TBool, i1) =>
        match check_expr G i1 b with
        | Some (b', TBool, i2) => Some (EAnd a' b', TBool, union i1 i2)
        | _ => None
        end
      | _ => None
      end
    | EOr a b =>
      match check_expr G inv a with
      | Some (a', TBool, i1) =>
        match check_expr G i1 b with
        | Some (b', TBool, i2) => Some (EOr a' b', TBool, union i1 i2)
        | _ => None
        end
      | _ => None
      end
    | ENot a =>
      match check_expr G inv a with
      | Some (a', TBool, i1) => Some (ENot a', TBool, i1)
      | _ => None
      end
    | ECoalesce a b _ _ _ =>
      match check_expr G inv a with
      | Some (a', TOpt t, i1) =>
        match check_expr G i1 b with
        | Some (b', tb, i2) =>
          if kle (kind_of tb) KS then
            match checked_join t tb with
            | Some j => Some (ECoalesce a' b' (TOpt t) tb j, j, union i1 i2)
            | None => None
            end
          else None
        | None => None
        end
      | _ => None
      end
    | ECond c a b _ _ _ =>
      match check_expr G inv c with
      | Some (c', TBool, i0) =>
        match check_expr G i0 a with
        | Some (a', ta, i1) =>
          match check_expr G i0 b with
          | Some (b', tb, i2) =>
            match checked_join ta tb with
            | Some j =>
              if negb (ce_strict C) || (ty_eqb ta j && ty_eqb tb j)
              then Some (ECond c' a' b' ta tb j, j, union i1 i2) else None
            | None => None
            end
          | None => None
          end
        | None => None
        end
      | _ => None
      end
    | EForce a =>
      match check_expr G inv a with
      | Some (a', ta, i1) => Some (EForce a', match ta with TOpt t => t | _ => ta end, i1)
      | None => None
      end
    | EMember a f _ =>
      match check_expr G inv a with
      | Some (a', ta, i1) =>
        match fields_of (ce_decls C) ta with
        | Some fs => match nth_error fs f with
                     | Some tf => Some (EMember a' f ta, tf, i1)
                     | None => None
                     end
        | None => None
        end
      | None => None
      end
    | EOptMember a f _ =>
      match check_expr G inv a with
      | Some (a', TOpt ta, i1) =>
        match fields_of (ce_decls C) ta with
        | Some fs => match nth_error fs f with
                     | Some tf => Some (EOptMember a' f (TOpt ta), if is_opt tf then tf else TOpt tf, i1)
                     | None => None
                     end
        | None => None
        end
      | _ => None
      end
    | ECast k a _ t =>
      match check_expr G inv a with
      | Some (a', ta, i1) =>
        if kle (kind_of ta) KS && kle (kind_of t) KS then
          match k with
          | CStatic => if subtype ta t then Some (ECast k a' ta t, t, i1) else None
          | CFailable => Some (ECast k a' ta t, TOpt t, i1)
          | CForce => Some (ECast k a' ta t, t, i1)
          end
        else None
      | None => None
      end
    | EArr es te =>
      match check_list G inv es (fun _ => te) O with
      | Some (es', i1) => Some (EArr es' te, TArr te, i1)
      | None => None
      end
    | EDict es tk tv =>
      if hashable tk && Nat.even (exprs_len es) then
        match check_list G inv es (fun i => if Nat.even i then tk else tv) O with
        | Some (es', i1) => Some (EDict es' tk tv, TDict tk tv, i1)
        | None => None
        end
      else None
    | EIndex a i _ _ _ =>
      match check_expr G inv a with
      | Some (a', ta, i1) =>
        match check_expr G i1 i with
        | Some (i', ti, i2) =>
          match ta with
          | TArr t => if is_intty ti then Some (EIndex a' i' ta ti t, t, i2) else None
          | TDict k v => if subtype ti k then Some (EIndex a' i' ta ti (TOpt v), TOpt v, i2) else None
          | _ => None
          end
        | None => None
        end
      | None => None
      end
    | ELen a =>
      match check_expr G inv a with
      | Some (a', TArr t, i1) => Some (ELen a', TInt, i1)
      | _ => None
      end
    | ECall f args =>
      match nth_error (ce_funs C) f with
      | Some (ps, rt) =>
        if Nat.eqb (exprs_len args) (length ps) then
          match check_list G inv args (fun i => nth i ps TVoid) O with
          | Some (args', i1) => Some (ECall f args', rt, i1)
          | None => None
          end
        else None
      | None => None
      end
    | ECtor n args =>
      match nth_error (ce_decls C) n with
      | Some (r, fs) =>
        if Nat.eqb (exprs_len args) (length fs) then
          match check_list G inv args (fun i => nth i fs TVoid) O with
          | Some (args', i1) => Some (ECtor n args', comp_ty r n, i1)
          | None => None
          end
        else None
      | None => None
      end
    | EPanic => Some (e, TNever, inv)
    end
  (* a list of expressions, evaluated left to right; the i-th one is transferred to the type [tgt i]
     (arguments against parameter types, array elements against the element type, dictionary
     entries k1,v1,k2,v2,... against key and value type alternately) *)
  with check_list (G : list ty) (inv : list nat) (es : exprs) (tgt : nat -> ty) (i : nat) {struct es}
    : option (exprs * list nat) :=
    match es with
    | ENone => Some (ENone, inv)
    | EMore e _ r =>
      match check_expr G inv e with
      | Some (e', t, i1) =>
        if subtype t (tgt i) then
          match check_list G i1 r tgt (S i) with
          | Some (r', i2) => Some (EMore e' t r', i2)
          | None => None
          end
        else None
      | None => None
      end
    end.

  (* ------------------------------------------------------------------ assignment targets *)

  Fixpoint check_target (G : list ty) (inv : list nat) (g : target)
    : option (target * ty * list nat) :=
    match g with
    | TgVar x =>
      match nth_error G x with
      | Some t => if mem x inv then None else Some (g, t, inv)
      | None => None
      end
    | TgIndex g' i =>
      match check_target G inv g' with
      | Some (g'', TArr t, i1) =>
        match check_expr G i1 i with
        | Some (i', ti, i2) => if is_intty ti then Some (TgIndex g'' i', t, i2) else None
        | None => None
        end
      | Some (g'', TDict k v, i1) =>
        match check_expr G i1 i with
        | Some (i', ti, i2) => if subtype ti k && hashable ti then Some (TgIndex g'' i', TOpt v, i2) else None
        | None => None
        end
      | _ => None
      end
    | TgMember g' f =>
      match check_target G inv g' with
      | Some (g'', tg, i1) =>
        match fields_of (ce_decls C) tg with
        | Some fs => match nth_error fs f with
                     | Some tf => Some (TgMember g'' f, tf, i1)
                     | None => None
                     end
        | None => None
        end
      | None => None
      end
    end.

  Fixpoint root_of (g : target) : nat :=
    match g with
    | TgVar x => x
    | TgIndex g' _ | TgMember g' _ => root_of g'
    end.

  (* ------------------------------------------------------------------ statements *)

  (* result: elaborated statement, variable types after it, invalidations after it,
     and whether it definitely leaves the function (return / halt) or jumps *)
  Fixpoint check_stmt (G : list ty) (inv : list nat) (inloop : bool) (s : stmt) {struct s}
    : option (stmt * list ty * list nat * bool) :=
    match s with
    | SLet ann e _ _ =>
      match check_expr G inv e with
      | Some (e', te, i1) =>
        let tt := match ann with Some t => t | None => te end in
        if subtype te tt && negb (ty_eqb te TVoid) && negb (ty_eqb te TNever)
        then Some (SLet ann e' te tt, G ++ [tt], i1, false)
        else None
      | None => None
      end
    | SAssign g e _ _ =>
      match check_target G inv g with
      | Some (g', tg, i1) =>
        match check_expr G i1 e with
        | Some (e', te, i2) =>
          if subtype te tg && kle (kind_of tg) KS
             && negb (mem (root_of g) i1) && negb (mem (root_of g) i2)
          then Some (SAssign g' e' te tg, G, i2, false)
          else None
        | None => None
        end
      | None => None
      end
    | SSwap x y =>
      match nth_error G x, nth_error G y with
      | Some tx, Some t_y =>
        if ty_eqb tx t_y && negb (mem x inv) && negb (mem y inv)
        then Some (s, G, inv, false) else None
      | _, _ => None
      end
    | SAppend g e _ _ =>
      match check_target G inv g with
      | Some (g', TArr t, i1) =>
        match check_expr G i1 e with
        | Some (e', te, i2) =>
          if subtype te t && negb (mem (root_of g) i1) && negb (mem (root_of g) i2)
          then Some (SAppend g' e' te t, G, i2, false) else None
        | None => None
        end
      | _ => None
      end
    | SIf c b1 b2 =>
      match check_expr G inv c with
      | Some (c', TBool, i0) =>
        match check_block G i0 inloop b1 with
        | Some (b1', i1, r1) =>
          match check_block G i0 inloop b2 with
          | Some (b2', i2, r2) =>
            Some (SIf c' b1' b2', G, union (scope (length G) i1) (scope (length G) i2), r1 && r2)
          | None => None
          end
        | None => None
        end
      | _ => None
      end
    | SIfLet e _ b1 b2 =>
      match check_expr G inv e with
      | Some (e', TOpt t, i0) =>
        match check_block (G ++ [t]) i0 inloop b1 with
        | Some (b1', i1, r1) =>
          match check_block G i0 inloop b2 with
          | Some (b2', i2, r2) =>
            Some (SIfLet e' (TOpt t) b1' b2', G, union (scope (length G) i1) (scope (length G) i2), r1 && r2)
          | None => None
          end
        | None => None
        end
      | _ => None
      end
    | SWhile c b =>
      match check_expr G inv c with
      | Some (c', TBool, i0) =>
        match check_block G i0 true b with
        | Some (b', i1, _) =>
          (* the loop must not invalidate resources declared outside it *)
          if subset (scope (length G) i1) inv
          then Some (SWhile c' b', G, union inv i0, false) else None
        | None => None
        end
      | _ => None
      end
    | SFor e _ b =>
      match check_expr G inv e with
      | Some (e', TArr t, i0) =>
        if kle (kind_of t) KS then
          match check_block (G ++ [t]) i0 true b with
          | Some (b', i1, _) =>
            if subset (scope (length G) i1) i0
            then Some (SFor e' t b', G, i0, false) else None
          | None => None
          end
        else None
      | _ => None
      end
    | SReturn None _ _ =>
      if ty_eqb (ce_ret C) TVoid then Some (SReturn None TVoid TVoid, G, inv, true) else None
    | SReturn (Some e) _ _ =>
      match check_expr G inv e with
      | Some (e', te, i1) =>
        if subtype te (ce_ret C) && negb (ty_eqb (ce_ret C) TVoid)
        then Some (SReturn (Some e') te (ce_ret C), G, i1, true) else None
      | None => None
      end
    | SBreak => if inloop then Some (s, G, inv, true) else None
    | SContinue => if inloop then Some (s, G, inv, true) else None
    | SExpr e =>
      match check_expr G inv e with
      | Some (e', te, i1) => Some (SExpr e', G, i1, ty_eqb te TNever)
      | None => None
      end
    | SDestroy e =>
      match check_expr G inv e with
      | Some (e', te, i1) =>
        if kle (kind_of te) KS then None else Some (SDestroy e', G, i1, false)
      | None => None
      end
    (* the else block of a guard must definitely exit: return, halt, break or continue on every path
       (sema/check_conditional.go VisitGuardStatement: GuardStatementElseBlockMustExitError) *)
    | SGuard c b =>
      match check_expr G inv c with
      | Some (c', TBool, i0) =>
        match check_block G i0 inloop b with
        | Some (b', i1, r1) =>
          if r1 then Some (SGuard c' b', G, union i0 (scope (length G) i1), false) else None
        | None => None
        end
      | _ => None
      end
    | SGuardLet e _ b rest =>
      match check_expr G inv e with
      | Some (e', TOpt t, i0) =>
        match check_block G i0 inloop b with
        | Some (b', i1, r1) =>
          if r1 then
            match check_block (G ++ [t]) i0 inloop rest with
            | Some (rest', i2, r2) =>
              Some (SGuardLet e' (TOpt t) b' rest', G,
                    union (scope (length G) i1) (scope (length G) i2), r2)
            | None => None
            end
          else None
        | None => None
        end
      | _ => None
      end
    end
  (* a block: its variables go out of scope at the end *)
  with check_block (G : list ty) (inv : list nat) (inloop : bool) (b : block) {struct b}
    : option (block * list nat * bool) :=
    match b with
    | BNil => Some (BNil, inv, false)
    | BCons s r =>
      match check_stmt G inv inloop s with
      | Some (s', G1, i1, r1) =>
        match check_block G1 i1 inloop r with
        | Some (r', i2, r2) => Some (BCons s' r', union i1 i2, r1 || r2)
        | None => None
        end
      | None => None
      end
    end.

End check.

(* ------------------------------------------------------------------ programs *)

Definition sig_of (f : fundef) : fsig := (fn_params f, fn_ret f).

Definition check_fun (strict : bool) (D : decls) (sigs : list fsig) (f : fundef) : option fundef :=
  let C := mkCenv D sigs (fn_ret f) strict in
  match check_block C (fn_params f) [] false (fn_body f) with
  | Some (b', _, r) =>
    if ty_eqb (fn_ret f) TVoid || r then Some (mkFun (fn_params f) (fn_ret f) b') else None
  | None => None
  end.

Fixpoint check_funs (strict : bool) (D : decls) (sigs : list fsig) (fs : list fundef) : option (list fundef) :=
  match fs with
  | [] => Some []
  | f :: r =>
    match check_fun strict D sigs f with
    | Some f' => match check_funs strict D sigs r with
                 | Some r' => Some (f' :: r')
                 | None => None
                 end
    | None => None
    end
  end.

(* the typing produced for an accepted program is its elaborated form *)
Definition check_program_gen (strict : bool) (p : program) : option program :=
  match check_funs strict (p_decls p) (map sig_of (p_funs p)) (p_funs p) with
  | Some fs' => match fs' with
                | [] => None
                | _ => Some (mkProg (p_decls p) fs')
                end
  | None => None
  end.

(* the checker *)
Definition check_program : program -> option program := check_program_gen false.

(* the checker with the additional guard on conditional expressions *)
Definition check_program_uniform_cond : program -> option program := check_program_gen true.
