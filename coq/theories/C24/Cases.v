(* Check function for the per-run case files of C24: one case = one chain history; every item
   is a script / transaction (or contract-function call) given as the instruction list the
   harness derived from the generated Cadence program, the failure point observed for an
   injected metering failure (if any), whether the implementation reported success, and the
   projection of the host trace it recorded: program logs and bursts of SetValue calls (the set
   of owners written between two logs). *)
From CV Require Export Base.Prelude C24.Model.

Inductive pitem := PLog (s : Z) | PW (owners : list Z).

Fixpoint ins_owner (x : Z) (l : list Z) : list Z :=
  match l with
  | [] => [x]
  | y :: r => if x =? y then l else if x <? y then x :: l else y :: ins_owner x r
  end.

Definition flush_burst (b : list Z) (acc : list pitem) : list pitem :=
  match b with [] => acc | _ => PW b :: acc end.

(* [acc] is reversed *)
Fixpoint project_aux (t : list event) (b : list Z) (acc : list pitem) : list pitem :=
  match t with
  | [] => rev (flush_burst b acc)
  | Write k _ :: r => project_aux r (ins_owner (fst k) b) acc
  | Log s :: r => project_aux r [] (PLog s :: flush_burst b acc)
  | _ :: r => project_aux r b acc
  end.
Definition project (t : list event) : list pitem := project_aux t [] [].

Fixpoint zlist_eqb (a b : list Z) : bool :=
  match a, b with
  | [], [] => true
  | x :: r, y :: s => (x =? y) && zlist_eqb r s
  | _, _ => false
  end.
Definition pitem_eqb (a b : pitem) : bool :=
  match a, b with
  | PLog x, PLog y => x =? y
  | PW x, PW y => zlist_eqb x y
  | _, _ => false
  end.
Fixpoint pitems_eqb (a b : list pitem) : bool :=
  match a, b with
  | [], [] => true
  | x :: r, y :: s => pitem_eqb x y && pitems_eqb r s
  | _, _ => false
  end.

Record item := I { i_kind : kind; i_prog : list instr; i_fp : option failpoint;
                   i_ok : bool; i_obs : list pitem }.

Fixpoint check_items (L : ledger) (h : list item) : bool :=
  match h with
  | [] => true
  | it :: r =>
      let '(ok, tr, L') := run (i_kind it) L (i_prog it) (i_fp it) in
      Bool.eqb ok (i_ok it) && pitems_eqb (project tr) (i_obs it) && check_items L' r
  end.

(* chain state after deploying the harness contract C at 0x1: the account storage map of 0x1
   exists and the contract's field [counter] (cell (1, 20)) is 0 *)
Definition L0 : ledger := [((1, 0), Some 1); ((1, 20), Some 0)].

Definition check_case (h : list item) : bool := check_items L0 h.

(* the observation script run after every item: logs the 18 storage cells of the three
   accounts, the contract counter, and field x of contract D at 0x2 when it is deployed *)
Definition obs_prog (d : bool) : list instr :=
  flat_map (fun a => map (fun k => ILogV (a, k)) [1; 2; 3; 4; 30; 31]) [1; 2; 3]
  ++ [ILogV (1, 20)] ++ (if d then [ILogV (2, 40)] else []).
Definition IO (d ok : bool) (vals : list Z) : item :=
  I KScript (obs_prog d) None ok (map PLog vals).
