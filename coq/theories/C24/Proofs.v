(* C24 proofs about the executor model. *)
From CV Require Import Base.Prelude C24.Model.

Lemma reg_eqb_eq a b : reg_eqb a b = true <-> a = b.
Proof.
  destruct a as [a1 a2], b as [b1 b2]. unfold reg_eqb; simpl.
  rewrite andb_true_iff, !Z.eqb_eq. split; [intros [-> ->]; reflexivity | intros H; inversion H; auto].
Qed.
Lemma reg_eqb_refl a : reg_eqb a a = true. Proof. apply reg_eqb_eq. reflexivity. Qed.
Lemma reg_eqb_neq a b : reg_eqb a b = false <-> a <> b.
Proof.
  split.
  - intros H E. apply reg_eqb_eq in E. congruence.
  - intros H. destruct (reg_eqb a b) eqn:E; [|reflexivity]. apply reg_eqb_eq in E. contradiction.
Qed.

Lemma rget_rset {V} (l : list (reg * V)) k v k' :
  rget (rset l k v) k' = if reg_eqb k k' then Some v else rget l k'.
Proof.
  induction l as [|[k0 v0] r IH]; simpl.
  - reflexivity.
  - destruct (reg_eqb k0 k) eqn:E; simpl.
    + apply reg_eqb_eq in E; subst k0. destruct (reg_eqb k k'); reflexivity.
    + destruct (reg_eqb k0 k') eqn:E'.
      * apply reg_eqb_eq in E'; subst k0. destruct (reg_eqb k k') eqn:E2; [|reflexivity].
        apply reg_eqb_eq in E2; subst. rewrite reg_eqb_refl in E. discriminate.
      * exact IH.
Qed.

Lemma lget_write L k ov k' :
  lget (apply_write L k ov) k' = if reg_eqb k k' then ov else lget L k'.
Proof. unfold lget, apply_write. rewrite rget_rset. destruct (reg_eqb k k'); reflexivity. Qed.

Lemma rget_in_keys {V} (l : list (reg * V)) k : rget l k <> None <-> In k (map fst l).
Proof.
  induction l as [|[k0 v0] r IH]; simpl.
  - split; [congruence | tauto].
  - destruct (reg_eqb k0 k) eqn:E.
    + apply reg_eqb_eq in E. split; [auto | congruence].
    + apply reg_eqb_neq in E. rewrite IH. split; [auto | intros [H|H]; [congruence | exact H]].
Qed.

Lemma nodup_rset {V} (l : list (reg * V)) k v :
  NoDup (map fst l) -> NoDup (map fst (rset l k v)).
Proof.
  induction l as [|[k0 v0] r IH]; simpl; intro H.
  - constructor; [simpl; tauto | constructor].
  - inversion H as [|? ? Hn Hr]; subst. destruct (reg_eqb k0 k) eqn:E; simpl.
    + apply reg_eqb_eq in E; subst. constructor; assumption.
    + apply reg_eqb_neq in E. constructor; [|auto].
      rewrite <- rget_in_keys, rget_rset. destruct (reg_eqb k k0) eqn:E2.
      * apply reg_eqb_eq in E2. congruence.
      * rewrite rget_in_keys. exact Hn.
Qed.

(* ---------------------------------------------------------------- traces *)
Lemma writes_app a b : writes (a ++ b) = writes a ++ writes b.
Proof. unfold writes. apply filter_app. Qed.
Lemma replay_app L a b : replay L (a ++ b) = replay (replay L a) b.
Proof.
  revert L. induction a as [|e r IH]; intro L; simpl; [reflexivity|].
  destruct e; apply IH.
Qed.

(* ---------------------------------------------------------------- commit *)
Definition wfs (s : st) : Prop := NoDup (map fst (delta s)).

Lemma wfs_put s k ov : wfs s -> wfs (put s k ov).
Proof. unfold wfs, put; simpl. apply nodup_rset. Qed.
Lemma wfs_touch s a : wfs s -> wfs (touch s a).
Proof. unfold wfs, touch. destruct (has_account s a); auto. Qed.
Lemma wfs_do_set s k v : wfs s -> wfs (do_set s k v).
Proof. intro H. unfold do_set. apply wfs_put, wfs_touch, H. Qed.
Lemma wfs_do_del s k : wfs s -> wfs (do_del s k).
Proof. intro H. unfold do_del. destruct (view s k); [apply wfs_put|]; exact H. Qed.

Lemma led_do_set s k v : led (do_set s k v) = led s.
Proof. unfold do_set, put, touch. destruct (has_account s (fst k)); reflexivity. Qed.
Lemma led_do_del s k : led (do_del s k) = led s.
Proof. unfold do_del, put. destruct (view s k); reflexivity. Qed.

Lemma fold_upds_inv (P : st -> Prop) l s :
  P s -> (forall s k v, P s -> P (do_set s k v)) -> (forall s k, P s -> P (do_del s k)) ->
  P (fold_left (fun s kv => match snd kv with Some v => do_set s (fst kv) v | None => do_del s (fst kv) end) l s).
Proof.
  intros H0 Hs Hd. revert s H0. induction l as [|[k [v|]] r IH]; intros s H0; simpl; auto.
Qed.

Lemma wfs_apply_upds s : wfs s -> wfs (apply_upds s).
Proof.
  intro H. unfold apply_upds, wfs; simpl.
  apply (fold_upds_inv (fun s => NoDup (map fst (delta s)))).
  - exact H.
  - intros s0 k v H0. apply (wfs_do_set s0 k v H0).
  - intros s0 k H0. apply (wfs_do_del s0 k H0).
Qed.
Lemma led_apply_upds s : led (apply_upds s) = led s.
Proof.
  unfold apply_upds; simpl.
  apply (fold_upds_inv (fun s' => led s' = led s)); auto.
  - intros s0 k v H. rewrite led_do_set. exact H.
  - intros s0 k H. rewrite led_do_del. exact H.
Qed.

Lemma replay_stored accts L :
  replay L (map (fun a => Write (stored_reg a) (Some 1)) accts)
  = fold_left (fun L a => apply_write L (stored_reg a) (Some 1)) accts L.
Proof. revert L. induction accts as [|a r IH]; intro L; simpl; [reflexivity | apply IH]. Qed.
Lemma replay_deltas (ds : list (reg * option Z)) L :
  replay L (map (fun kv => Write (fst kv) (snd kv)) ds)
  = fold_left (fun L kv => apply_write L (fst kv) (snd kv)) ds L.
Proof. revert L. induction ds as [|a r IH]; intro L; simpl; [reflexivity | apply IH]. Qed.

Lemma all_writes_stored accts :
  forallb is_write (map (fun a => Write (stored_reg a) (Some 1)) accts) = true.
Proof. induction accts; simpl; auto. Qed.
Lemma all_writes_deltas (ds : list (reg * option Z)) :
  forallb is_write (map (fun kv => Write (fst kv) (snd kv)) ds) = true.
Proof. induction ds; simpl; auto. Qed.

(* whatever a commit does to the ledger is in its events, and its events are only writes *)
Lemma commit_events s wu uf mf s' ev ok :
  commit s wu uf mf = (s', ev, ok) ->
  led s' = replay (led s) ev /\ forallb is_write ev = true.
Proof.
  unfold commit. destruct (wu && uf) eqn:Eu.
  - intros H; inversion H; subst. auto.
  - set (s1 := if wu then apply_upds s else s).
    assert (Hl : led s1 = led s) by (unfold s1; destruct wu; [apply led_apply_upds | reflexivity]).
    destruct (delta s1) as [|d ds] eqn:Ed; simpl.
    + intros H; inversion H; subst; simpl. rewrite replay_stored, Hl. split; [reflexivity | apply all_writes_stored].
    + destruct mf.
      * intros H; inversion H; subst; simpl. rewrite replay_stored, Hl. split; [reflexivity | apply all_writes_stored].
      * intros H; inversion H; subst; simpl. rewrite replay_app, replay_stored, Hl.
        change (Write (fst d) (snd d) :: map (fun kv => Write (fst kv) (snd kv)) ds)
          with (map (fun kv : reg * option Z => Write (fst kv) (snd kv)) (d :: ds)).
        rewrite replay_deltas. split; [reflexivity|].
        rewrite forallb_app, all_writes_stored. simpl. apply all_writes_deltas.
Qed.

Lemma wfs_commit s wu uf mf s' ev ok : wfs s -> commit s wu uf mf = (s', ev, ok) -> wfs s'.
Proof.
  intros Hw. unfold commit. destruct (wu && uf).
  - intros H; inversion H; subst. exact Hw.
  - remember (if wu then apply_upds s else s) as s1 eqn:Es1.
    assert (Hw1 : wfs s1) by (subst s1; destruct wu; [apply wfs_apply_upds|]; exact Hw).
    unfold wfs in Hw1.
    destruct (delta s1) as [|d ds] eqn:Ed; cbn [delta].
    + intros H; inversion H; subst s'. unfold wfs. simpl. constructor.
    + destruct mf; intros H; inversion H; subst s'; unfold wfs; simpl; [|constructor].
      exact Hw1.
Qed.

(* ---------------------------------------------------------------- program execution *)
Lemma exec1_no_flush s i s' ev ok :
  i <> IFlush -> exec1 s i = (s', ev, ok) -> writes ev = [] /\ led s' = led s.
Proof.
  intros Hn. destruct i; simpl; try congruence.
  - unfold do_get. destruct (cached s k); intros H; inversion H; subst; auto.
  - intros H; inversion H; subst. split; [reflexivity | apply led_do_set].
  - intros H; inversion H; subst. split; [reflexivity | apply led_do_del].
  - destruct v; intros H; inversion H; subst; auto.
  - intros H; inversion H; subst. auto.
  - intros H; inversion H; subst. auto.
  - intros H; inversion H; subst. auto.
Qed.

Lemma exec_no_writes p : forall s fp n s' ev ok,
  flush_free p -> exec s p fp n = (s', ev, ok) -> writes ev = [] /\ led s' = led s.
Proof.
  induction p as [|i r IH]; intros s fp n s' ev ok Hf; simpl.
  - intros H; inversion H; subst. auto.
  - destruct (hits fp n); [intros H; inversion H; subst; auto|].
    destruct (exec1 s i) as [[s1 ev1] ok1] eqn:E1.
    assert (Hi : i <> IFlush) by (intro; subst; apply Hf; left; reflexivity).
    destruct (exec1_no_flush _ _ _ _ _ Hi E1) as [Hw1 Hl1].
    destruct ok1.
    + destruct (exec s1 r fp (S n)) as [[s2 ev2] ok2] eqn:E2.
      assert (Hr : flush_free r) by (intro Hin; apply Hf; right; exact Hin).
      destruct (IH _ _ _ _ _ _ Hr E2) as [Hw2 Hl2].
      intros H; inversion H; subst. rewrite writes_app, Hw1, Hw2. split; [reflexivity | congruence].
    + intros H; inversion H; subst. auto.
Qed.

Lemma exec1_led s i s' ev ok : exec1 s i = (s', ev, ok) -> led s' = replay (led s) ev.
Proof.
  destruct i; simpl.
  - unfold do_get. destruct (cached s k); intros H; inversion H; subst; reflexivity.
  - intros H; inversion H; subst. apply led_do_set.
  - intros H; inversion H; subst. apply led_do_del.
  - destruct v; intros H; inversion H; subst; reflexivity.
  - intros H; inversion H; subst. reflexivity.
  - intros H; inversion H; subst. reflexivity.
  - intros H. apply commit_events in H. apply H.
  - intros H; inversion H; subst. reflexivity.
Qed.

Lemma exec_led p : forall s fp n s' ev ok,
  exec s p fp n = (s', ev, ok) -> led s' = replay (led s) ev.
Proof.
  induction p as [|i r IH]; intros s fp n s' ev ok; simpl.
  - intros H; inversion H; subst. reflexivity.
  - destruct (hits fp n); [intros H; inversion H; subst; reflexivity|].
    destruct (exec1 s i) as [[s1 ev1] ok1] eqn:E1. pose proof (exec1_led _ _ _ _ _ E1) as H1.
    destruct ok1.
    + destruct (exec s1 r fp (S n)) as [[s2 ev2] ok2] eqn:E2.
      pose proof (IH _ _ _ _ _ _ E2) as H2.
      intros H; inversion H; subst. rewrite replay_app, <- H1. exact H2.
    + intros H; inversion H; subst. exact H1.
Qed.

Lemma wfs_exec1 s i s' ev ok : wfs s -> exec1 s i = (s', ev, ok) -> wfs s'.
Proof.
  intros Hw. destruct i; simpl.
  - unfold do_get. destruct (cached s k); intros H; inversion H; subst; exact Hw.
  - intros H; inversion H; subst. apply wfs_do_set, Hw.
  - intros H; inversion H; subst. apply wfs_do_del, Hw.
  - destruct v; intros H; inversion H; subst; unfold wfs; simpl; [apply nodup_rset|]; exact Hw.
  - intros H; inversion H; subst. exact Hw.
  - intros H; inversion H; subst. exact Hw.
  - apply wfs_commit. exact Hw.
  - intros H; inversion H; subst. exact Hw.
Qed.

Lemma wfs_exec p : forall s fp n s' ev ok, wfs s -> exec s p fp n = (s', ev, ok) -> wfs s'.
Proof.
  induction p as [|i r IH]; intros s fp n s' ev ok Hw; simpl.
  - intros H; inversion H; subst. exact Hw.
  - destruct (hits fp n); [intros H; inversion H; subst; exact Hw|].
    destruct (exec1 s i) as [[s1 ev1] ok1] eqn:E1. pose proof (wfs_exec1 _ _ _ _ _ Hw E1) as H1.
    destruct ok1.
    + destruct (exec s1 r fp (S n)) as [[s2 ev2] ok2] eqn:E2.
      intros H; inversion H; subst. eapply IH; eassumption.
    + intros H; inversion H; subst. exact H1.
Qed.

Lemma wfs_init L : wfs (init L). Proof. unfold wfs; simpl. constructor. Qed.

Arguments apply_upds : simpl never.

(* ---------------------------------------------------------------- property theorems *)

(* every change of the ledger is a Write event of the host trace (all executors, all outcomes) *)
Lemma run_tx_replay L p fp ok tr L' : run_tx L p fp = (ok, tr, L') -> L' = replay L tr.
Proof.
  unfold run_tx. destruct (exec (init L) p fp 0) as [[s1 ev1] ok1] eqn:E.
  pose proof (exec_led _ _ _ _ _ _ _ E) as H1. simpl in H1.
  destruct ok1.
  - destruct (commit s1 true (is_updates fp) (is_meter fp)) as [[s2 ev2] ok2] eqn:Ec.
    destruct (commit_events _ _ _ _ _ _ _ Ec) as [H2 _].
    intros H; inversion H; subst. rewrite replay_app. simpl. rewrite <- H1. exact H2.
  - intros H; inversion H; subst. exact H1.
Qed.

Theorem ledger_changes_only_by_writes k L p fp ok tr L' :
  run k L p fp = (ok, tr, L') -> L' = replay L tr.
Proof.
  destruct k; simpl.
  - destruct (exec (init L) p fp 0) as [[s1 ev1] ok1] eqn:E.
    pose proof (exec_led _ _ _ _ _ _ _ E) as H1. simpl in H1.
    destruct ok1; intros H; inversion H; subst; [rewrite replay_app; simpl|]; exact H1.
  - apply run_tx_replay.
  - destruct (run_tx L p fp) as [[ok0 tr0] L0] eqn:E. pose proof (run_tx_replay _ _ _ _ _ _ E) as H0.
    destruct (ok0 && is_export fp); intros H; inversion H; subst; reflexivity.
Qed.

Theorem script_no_writes_partial L p fp ok tr L' :
  flush_free p -> run KScript L p fp = (ok, tr, L') -> writes tr = [] /\ L' = L.
Proof.
  intros Hf. unfold run. destruct (exec (init L) p fp 0) as [[s1 ev1] ok1] eqn:E.
  destruct (exec_no_writes _ _ _ _ _ _ _ Hf E) as [Hw Hl]. simpl in Hl.
  destruct ok1; intros H; injection H as Hok Htr HL'; subst tr L'; (split; [|exact Hl]).
  - rewrite writes_app, Hw. reflexivity.
  - exact Hw.
Qed.

Theorem failed_tx_no_writes_partial L p fp tr L' :
  flush_free p -> run KTx L p fp = (false, tr, L') ->
  ~ (fp = Some AtCommitMeter /\ fresh_at_commit L p fp <> []) ->
  writes tr = [] /\ L' = L.
Proof.
  intros Hf. unfold run, run_tx, fresh_at_commit.
  destruct (exec (init L) p fp 0) as [[s1 ev1] ok1] eqn:E.
  destruct (exec_no_writes _ _ _ _ _ _ _ Hf E) as [Hw Hl]. simpl in Hl.
  destruct ok1.
  - unfold commit. cbn [andb]. destruct (is_updates fp) eqn:Eu.
    + intros H _. injection H as Htr HL'. subst tr L'. rewrite writes_app, Hw. auto.
    + cbv beta iota zeta. remember (apply_upds s1) as su eqn:Esu.
      destruct (delta su) as [|d ds] eqn:Ed; [intros H; discriminate H|].
      destruct (is_meter fp) eqn:Em; [|intros H; discriminate H].
      intros H Hg. injection H as Htr HL'. subst tr L'. cbn [led].
      assert (Hfr : fresh su = []).
      { destruct (fresh su) eqn:Efr; [reflexivity|]. exfalso. apply Hg.
        split; [|congruence]. destruct fp as [[| | |]|]; simpl in Em; congruence. }
      rewrite Hfr. simpl. rewrite writes_app, Hw. simpl.
      split; [reflexivity|]. rewrite Esu, led_apply_upds. exact Hl.
  - intros H _. injection H as Htr HL'. subst tr L'. auto.
Qed.

Theorem success_writes_after_end_partial L p fp tr L' :
  flush_free p -> run KTx L p fp = (true, tr, L') ->
  exists pre post, tr = pre ++ End :: post /\ writes pre = [] /\ forallb is_write post = true.
Proof.
  intros Hf. unfold run, run_tx. destruct (exec (init L) p fp 0) as [[s1 ev1] ok1] eqn:E.
  destruct (exec_no_writes _ _ _ _ _ _ _ Hf E) as [Hw Hl].
  destruct ok1; [|intros H; inversion H].
  destruct (commit s1 true (is_updates fp) (is_meter fp)) as [[s2 ev2] ok2] eqn:Ec.
  destruct (commit_events _ _ _ _ _ _ _ Ec) as [_ Hall].
  intros H; inversion H; subst. exists ev1, ev2. auto.
Qed.

Lemma fold_writes_get (ds : list (reg * option Z)) : forall L r,
  NoDup (map fst ds) ->
  lget (fold_left (fun L kv => apply_write L (fst kv) (snd kv)) ds L) r
  = match rget ds r with Some ov => ov | None => lget L r end.
Proof.
  induction ds as [|[k ov] rest IH]; intros L r Hn; simpl; [reflexivity|].
  inversion Hn as [|? ? Hnk Hr]; subst. rewrite IH by exact Hr. rewrite lget_write.
  destruct (reg_eqb k r) eqn:E.
  - apply reg_eqb_eq in E; subst r.
    destruct (rget rest k) eqn:Eg; [|reflexivity].
    exfalso. apply Hnk. apply rget_in_keys. congruence.
  - reflexivity.
Qed.

Lemma fold_stored_get accts : forall L r, snd r <> 0 ->
  lget (fold_left (fun L a => apply_write L (stored_reg a) (Some 1)) accts L) r = lget L r.
Proof.
  induction accts as [|a rest IH]; intros L r Hr; simpl; [reflexivity|].
  rewrite IH by exact Hr. rewrite lget_write.
  destruct (reg_eqb (stored_reg a) r) eqn:E; [|reflexivity].
  apply reg_eqb_eq in E. subst r. simpl in Hr. congruence.
Qed.

(* after a completed commit the ledger holds exactly the final in-memory view (data cells) *)
Lemma commit_holds_view s s' ev :
  wfs s -> commit s true false false = (s', ev, true) ->
  forall r, snd r <> 0 -> lget (led s') r = view (apply_upds s) r.
Proof.
  intros Hw. unfold commit. cbn [andb]. cbv beta iota zeta.
  pose proof (wfs_apply_upds s Hw) as Hw1. unfold wfs in Hw1.
  remember (apply_upds s) as su eqn:Esu.
  destruct (delta su) as [|d ds] eqn:Ed.
  - intros H r Hr. injection H as Hs' Hev. subst s'. cbn [led].
    rewrite fold_stored_get by exact Hr. unfold view. rewrite Ed. reflexivity.
  - intros H r Hr. injection H as Hs' Hev. subst s'. cbn [led].
    set (f := fun (L : ledger) (kv : reg * option Z) => apply_write L (fst kv) (snd kv)).
    set (L0 := fold_left (fun (L : ledger) (a : Z) => apply_write L (stored_reg a) (Some 1))
                         (fresh su) (led su)).
    change (fold_left f ds (apply_write L0 (fst d) (snd d))) with (fold_left f (d :: ds) L0).
    unfold f. rewrite fold_writes_get by exact Hw1. unfold L0.
    rewrite fold_stored_get by exact Hr.
    unfold view. rewrite Ed. reflexivity.
Qed.

(* a successful transaction's writes hold everything a later transaction observes: the ledger
   afterwards is the initial ledger with the trace's writes applied, and on every data cell it
   equals the transaction's final view (deltas and recorded contract updates) *)
Theorem next_tx_observes_exactly_writes L p fp tr L' :
  run KTx L p fp = (true, tr, L') ->
  L' = replay L tr /\ forall r, snd r <> 0 -> lget L' r = final_view L p fp r.
Proof.
  intros H. split; [eapply ledger_changes_only_by_writes; exact H|].
  revert H. unfold run, run_tx, final_view.
  destruct (exec (init L) p fp 0) as [[s1 ev1] ok1] eqn:E.
  pose proof (wfs_exec _ _ _ _ _ _ _ (wfs_init L) E) as Hw.
  destruct ok1; [|intros H; inversion H].
  destruct (commit s1 true (is_updates fp) (is_meter fp)) as [[s2 ev2] ok2] eqn:Ec.
  intros H; injection H as Hok Htr HL'. subst ok2 L'.
  revert Ec. unfold commit. cbn [andb].
  destruct (is_updates fp); [intros Ec; discriminate Ec|].
  cbv beta iota zeta. cbn [Model.delta led fresh loaded upds].
  destruct (Model.delta (apply_upds s1)) eqn:Ed.
  - intros Ec r Hr. apply (commit_holds_view s1 s2 ev2 Hw); [|exact Hr].
    unfold commit. cbn [andb]. cbv beta iota zeta. cbn [Model.delta led fresh loaded upds].
    rewrite Ed. exact Ec.
  - destruct (is_meter fp); [intros Ec; discriminate Ec|].
    intros Ec r Hr. apply (commit_holds_view s1 s2 ev2 Hw); [|exact Hr].
    unfold commit. cbn [andb]. cbv beta iota zeta. cbn [Model.delta led fresh loaded upds].
    rewrite Ed. exact Ec.
Qed.

(* contract-function calls behave like transactions unless the failure is the result export *)
Theorem failed_call_no_writes_partial L p fp tr L' :
  flush_free p -> run KCall L p fp = (false, tr, L') ->
  fp <> Some AtExport ->
  ~ (fp = Some AtCommitMeter /\ fresh_at_commit L p fp <> []) ->
  writes tr = [] /\ L' = L.
Proof.
  intros Hf H Hne Hg. simpl in H.
  destruct (run_tx L p fp) as [[ok0 tr0] L0] eqn:E.
  assert (Hx : is_export fp = false).
  { destruct fp as [[| | |]|]; simpl; try reflexivity. congruence. }
  rewrite Hx, andb_false_r in H. inversion H; subst.
  apply (failed_tx_no_writes_partial L p fp tr L' Hf); [exact E | exact Hg].
Qed.

Theorem failed_call_no_writes_refuted_export :
  exists L p, flush_free p /\ fst (fst (run KCall L p (Some AtExport))) = false /\
              writes (snd (fst (run KCall L p (Some AtExport)))) = [Write (1, 20) (Some 3)].
Proof.
  exists [((1, 0), Some 1); ((1, 20), Some 0)], [IGet (1, 20); ISet (1, 20) 3]. split.
  - unfold flush_free. simpl. intros [H|[H|[]]]; discriminate.
  - vm_compute. split; reflexivity.
Qed.

(* ---------------------------------------------------------------- the full statements fail *)
Definition script_no_writes_statement : Prop :=
  forall L p fp ok tr L', run KScript L p fp = (ok, tr, L') -> writes tr = [].
Definition failed_tx_no_writes_statement : Prop :=
  forall k L p fp tr L', k <> KScript -> run k L p fp = (false, tr, L') -> writes tr = [].
Definition success_writes_after_end_statement : Prop :=
  forall L p fp tr L', run KTx L p fp = (true, tr, L') ->
  exists pre post, tr = pre ++ End :: post /\ writes pre = [] /\ forallb is_write post = true.

(* a script that reads storage.used after a save writes registers *)
Theorem script_no_writes_refuted :
  exists L p, writes (snd (fst (run KScript L p None))) <> [].
Proof. exists [], [ISet (2, 1) 5; IFlush; ILog 0]. vm_compute. congruence. Qed.

(* a transaction that reads storage.used after a save and then fails has written registers *)
Theorem failed_tx_no_writes_refuted_flush :
  exists L p, fst (fst (run KTx L p None)) = false /\ writes (snd (fst (run KTx L p None))) <> [].
Proof. exists [], [ISet (2, 1) 5; IFlush; IFail]. vm_compute. split; congruence. Qed.

(* a flush-free transaction whose commit-time metering fails after it created an account
   storage map has already written that account's "stored" register *)
Theorem failed_tx_no_writes_refuted_commit_meter :
  exists L p fp, flush_free p /\ fst (fst (run KTx L p fp)) = false /\
                 writes (snd (fst (run KTx L p fp))) = [Write (2, 0) (Some 1)].
Proof.
  exists [], [ISet (2, 1) 5; ILog 0], (Some AtCommitMeter). split.
  - unfold flush_free. simpl. intros [H|[H|[]]]; discriminate.
  - vm_compute. split; reflexivity.
Qed.

Theorem success_writes_after_end_refuted :
  exists L p, fst (fst (run KTx L p None)) = true /\
    forall pre post, snd (fst (run KTx L p None)) = pre ++ End :: post -> writes pre <> [].
Proof.
  exists [], [ISet (2, 1) 5; IFlush; ILog 0]. split; [vm_compute; reflexivity|].
  intros pre post. vm_compute.
  destruct pre as [|e1 [|e2 [|e3 [|e4 pre]]]]; simpl; intros H; inversion H; subst; simpl; try congruence.
  all: try (destruct pre; simpl in *; discriminate).
Qed.
