(* C24  Failed transactions and all scripts write no ledger registers: executable model of
   the executors (no proofs here).

   Code shape transcribed:
   * runtime.Storage of one execution: in-memory deltas over the ledger (dirty cells), the set
     of NEW account storage maps whose "stored" register must be written
     (AccountStorage.newAccountStorageMapSlabIndices), and the recorded contract updates
     (Storage.contractUpdates) which are not visible during execution;
   * Storage.commit(commitContractUpdates): (1) contract updates are applied to the in-memory
     maps, (2) AccountStorage.commit() WRITES the registers of new account storage maps,
     (3) the size of the deltas is metered (computation EncodeValue, memory Bytes /
     AtreeEncodedSlab: may fail), (4) the slab deltas are WRITTEN;
   * transaction executor / contract-function executor: run the program, commit only when it
     returned without error; script executor: run the program, never commit;
   * Account.storage.used / .capacity and account creation call CommitStorageTemporarily =
     commit without contract updates, in the middle of the program ([IFlush]).
   Failures: [IFail] inside the program (panic, assertion, pre-/post-condition, force unwrap,
   type mismatch, index, arithmetic), or an injected failure point (metering limit) before any
   program step, during the commit-time application of contract updates, or at the
   commit-time metering. *)
From CV Require Import Base.Prelude.

Definition reg := (Z * Z)%type.            (* owner, key;  key 0 = the account's "stored" register *)
Definition reg_eqb (a b : reg) : bool := (fst a =? fst b) && (snd a =? snd b).

Inductive instr :=
| IGet (k : reg)                 (* read a cell (ledger read on a cache miss) *)
| ISet (k : reg) (v : Z)         (* write a cell in memory *)
| IDel (k : reg)                 (* remove a cell in memory *)
| IUpd (k : reg) (v : option Z)  (* RecordContractUpdate / RecordContractRemoval *)
| ILog (s : Z)
| ILogV (k : reg)                (* log the cell's current value (-1 when absent) *)
| IFlush                         (* CommitStorageTemporarily *)
| IFail.                         (* the program fails at this statement *)

Inductive event :=
| Read (k : reg) | Write (k : reg) (v : option Z) | Log (s : Z)
| End.                           (* the program's last statement has finished *)

(* where an injected (metering) failure strikes *)
Inductive failpoint :=
| AtStep (i : nat)               (* before program step i *)
| AtCommitUpdates                (* while the final commit applies the contract updates *)
| AtCommitMeter                  (* at the final commit's metering of the delta size *)
| AtExport.                      (* contract-function call: while the result is exported *)

Fixpoint rget {V} (l : list (reg * V)) (k : reg) : option V :=
  match l with
  | [] => None
  | (k', v) :: r => if reg_eqb k' k then Some v else rget r k
  end.
Fixpoint rset {V} (l : list (reg * V)) (k : reg) (v : V) : list (reg * V) :=
  match l with
  | [] => [(k, v)]
  | (k', v') :: r => if reg_eqb k' k then (k, v) :: r else (k', v') :: rset r k v
  end.

Definition ledger := list (reg * option Z).       (* None = register deleted / empty *)
Definition lget (L : ledger) (k : reg) : option Z :=
  match rget L k with Some ov => ov | None => None end.

Record st := { led : ledger;
               delta : list (reg * option Z);     (* dirty cells *)
               loaded : list reg;                 (* cells already read from the ledger *)
               fresh : list Z;                    (* new account storage maps *)
               upds : list (reg * option Z) }.    (* recorded contract updates, oldest first *)

Definition init (L : ledger) : st :=
  {| led := L; delta := []; loaded := []; fresh := []; upds := [] |}.

Definition view (s : st) (k : reg) : option Z :=
  match rget (delta s) k with Some ov => ov | None => lget (led s) k end.

Definition stored_reg (a : Z) : reg := (a, 0).
Definition has_account (s : st) (a : Z) : bool :=
  match lget (led s) (stored_reg a) with Some _ => true | None => existsb (Z.eqb a) (fresh s) end.

(* a write creates the account storage map if the account has none yet *)
Definition touch (s : st) (a : Z) : st :=
  if has_account s a then s
  else {| led := led s; delta := delta s; loaded := loaded s; fresh := a :: fresh s; upds := upds s |}.
Definition put (s : st) (k : reg) (ov : option Z) : st :=
  {| led := led s; delta := rset (delta s) k ov; loaded := loaded s; fresh := fresh s; upds := upds s |}.

Definition do_set (s : st) (k : reg) (v : Z) : st := put (touch s (fst k)) k (Some v).
(* removing an absent cell changes nothing (no slab becomes dirty) *)
Definition do_del (s : st) (k : reg) : st :=
  match view s k with Some _ => put s k None | None => s end.

Definition cached (s : st) (k : reg) : bool :=
  match rget (delta s) k with Some _ => true | None => existsb (reg_eqb k) (loaded s) end.
Definition do_get (s : st) (k : reg) : st * list event :=
  if cached s k then (s, [])
  else ({| led := led s; delta := delta s; loaded := k :: loaded s; fresh := fresh s; upds := upds s |},
        [Read k]).

Definition apply_write (L : ledger) (k : reg) (ov : option Z) : ledger := rset L k ov.

(* Storage.commit. [mfail]: the metering of step (3) fails. Returns the state, the events and
   whether the commit completed. *)
Definition apply_upds (s : st) : st :=
  let s' := fold_left (fun s kv => match snd kv with
                                   | Some v => do_set s (fst kv) v
                                   | None => do_del s (fst kv)
                                   end) (upds s) s in
  {| led := led s'; delta := delta s'; loaded := loaded s'; fresh := fresh s'; upds := [] |}.

Definition commit (s : st) (with_updates : bool) (ufail mfail : bool) : st * list event * bool :=
  (* (1) commitContractUpdates *)
  if with_updates && ufail then (s, [], false) else
  let s1 := if with_updates then apply_upds s else s in
  (* (2) AccountStorage.commit: registers of the new account storage maps *)
  let accts := fresh s1 in   (* sorted by address in the code; the order is immaterial here *)
  let ev2 := map (fun a => Write (stored_reg a) (Some 1)) accts in
  let L2 := fold_left (fun L a => apply_write L (stored_reg a) (Some 1)) accts (led s1) in
  let s2 := {| led := L2; delta := delta s1; loaded := loaded s1; fresh := []; upds := upds s1 |} in
  (* (3) metering of the delta size (only when there are deltas) *)
  match delta s2 with
  | [] => (s2, ev2, true)
  | _ :: _ =>
      if mfail then (s2, ev2, false) else
      (* (4) FastCommit of the slab deltas *)
      let ds := delta s2 in  (* sorted by slab id in the code; the order is immaterial here *)
      let ev4 := map (fun kv => Write (fst kv) (snd kv)) ds in
      let L4 := fold_left (fun L kv => apply_write L (fst kv) (snd kv)) ds L2 in
      ({| led := L4; delta := []; loaded := loaded s2; fresh := []; upds := upds s2 |},
       ev2 ++ ev4, true)
  end.

Definition slab_of (k : reg) : reg := (fst k, snd k + 1000).

Definition logv (s : st) (k : reg) : Z := match view s k with Some v => v | None => -1 end.

(* one program statement; false = the program failed here *)
Definition exec1 (s : st) (i : instr) : st * list event * bool :=
  match i with
  | IGet k => let '(s', ev) := do_get s k in (s', ev, true)
  | ISet k v => (do_set s k v, [], true)
  | IDel k => (do_del s k, [], true)
  | IUpd k v =>
      (* the new contract value's own slab is allocated in the account when the contract is
         instantiated (dirty at once, but referenced by no storage map until the update is
         committed); the update itself is only recorded *)
      let s0 := match v with Some x => put s (slab_of k) (Some x) | None => s end in
      ({| led := led s0; delta := delta s0; loaded := loaded s0; fresh := fresh s0;
          upds := upds s0 ++ [(k, v)] |}, [], true)
  | ILog x => (s, [Log x], true)
  | ILogV k => (s, [Log (logv s k)], true)
  | IFlush => commit s false false false
  | IFail => (s, [], false)
  end.

Definition hits (fp : option failpoint) (n : nat) : bool :=
  match fp with Some (AtStep i) => Nat.eqb i n | _ => false end.

Fixpoint exec (s : st) (p : list instr) (fp : option failpoint) (n : nat) : st * list event * bool :=
  match p with
  | [] => (s, [], true)
  | i :: r =>
      if hits fp n then (s, [], false) else
      let '(s1, ev1, ok) := exec1 s i in
      if ok then let '(s2, ev2, ok2) := exec s1 r fp (S n) in (s2, ev1 ++ ev2, ok2)
      else (s1, ev1, false)
  end.

Definition is_updates (fp : option failpoint) : bool :=
  match fp with Some AtCommitUpdates => true | _ => false end.
Definition is_meter (fp : option failpoint) : bool :=
  match fp with Some AtCommitMeter => true | _ => false end.

Definition is_export (fp : option failpoint) : bool :=
  match fp with Some AtExport => true | _ => false end.

Inductive kind := KScript | KTx
                | KCall.   (* contract-function executor: commits, THEN exports the result *)

(* result: succeeded?, host trace, ledger afterwards *)
Definition run_tx (L : ledger) (p : list instr) (fp : option failpoint)
  : bool * list event * ledger :=
  let '(s1, ev1, ok1) := exec (init L) p fp 0 in
  if ok1 then
    let '(s2, ev2, ok2) := commit s1 true (is_updates fp) (is_meter fp) in
    (ok2, ev1 ++ End :: ev2, led s2)
  else (false, ev1, led s1).

Definition run (k : kind) (L : ledger) (p : list instr) (fp : option failpoint)
  : bool * list event * ledger :=
  match k with
  | KScript =>
      (* script_executor.go: run, export the result (metered); no commit anywhere *)
      let '(s1, ev1, ok1) := exec (init L) p fp 0 in
      (ok1 && negb (is_export fp), if ok1 then ev1 ++ [End] else ev1, led s1)
  | KTx => run_tx L p fp
  | KCall =>
      (* contract_function_executor.go: commitStorage, then ExportValue (metered) *)
      let '(ok, tr, L') := run_tx L p fp in
      if ok && is_export fp then (false, tr, L') else (ok, tr, L')
  end.

(* ------------------------------------------------------------------------------------ *)
Definition is_write (e : event) : bool := match e with Write _ _ => true | _ => false end.
Definition writes (t : list event) : list event := filter is_write t.
Fixpoint replay (L : ledger) (t : list event) : ledger :=
  match t with
  | [] => L
  | Write k ov :: r => replay (apply_write L k ov) r
  | _ :: r => replay L r
  end.
Definition flush_free (p : list instr) : Prop := ~ In IFlush p.

(* the final in-memory view of a program: deltas plus the recorded contract updates *)
Definition final_view (L : ledger) (p : list instr) (fp : option failpoint) (k : reg) : option Z :=
  let '(s1, _, _) := exec (init L) p fp 0 in view (apply_upds s1) k.

(* accounts whose "stored" register the final commit writes before its metering *)
Definition fresh_at_commit (L : ledger) (p : list instr) (fp : option failpoint) : list Z :=
  let '(s1, _, _) := exec (init L) p fp 0 in fresh (apply_upds s1).
