(* Shared result/error types and small helpers for all models. *)
From Coq Require Export ZArith List Bool Lia.
Export ListNotations.
Open Scope Z_scope.

Inductive err : Type :=
| Overflow | Underflow | DivZero | NegShift
| IndexOOB | TypeMismatch | CondFail | Invalidated
| LimitComputation | LimitMemory | LimitDepth
| UserOther          (* any other user-facing error *)
| HostFail           (* failure raised by the embedding host *)
| Internal           (* errors.InternalError / unreachable / defensive check *)
| Crash              (* Go runtime panic: index out of range, nil deref, ... *)
| OutOfFuel.         (* model-only: fuel exhausted; excluded by theorem statements *)

Inductive res (A : Type) : Type :=
| Ok (a : A)
| Err (e : err).
Arguments Ok {A} a.
Arguments Err {A} e.

Definition err_eqb (a b : err) : bool :=
  match a, b with
  | Overflow, Overflow | Underflow, Underflow | DivZero, DivZero | NegShift, NegShift
  | IndexOOB, IndexOOB | TypeMismatch, TypeMismatch | CondFail, CondFail
  | Invalidated, Invalidated | LimitComputation, LimitComputation
  | LimitMemory, LimitMemory | LimitDepth, LimitDepth | UserOther, UserOther
  | HostFail, HostFail | Internal, Internal | Crash, Crash | OutOfFuel, OutOfFuel => true
  | _, _ => false
  end.

Lemma err_eqb_eq a b : err_eqb a b = true <-> a = b.
Proof. destruct a, b; simpl; split; intro H; try reflexivity; try discriminate. Qed.

Definition res_eqb {A} (eqb : A -> A -> bool) (x y : res A) : bool :=
  match x, y with
  | Ok a, Ok b => eqb a b
  | Err e, Err f => err_eqb e f
  | _, _ => false
  end.

Definition bind {A B} (x : res A) (f : A -> res B) : res B :=
  match x with Ok a => f a | Err e => Err e end.
Notation "'let*' x ':=' a 'in' b" := (bind a (fun x => b))
  (at level 200, x pattern, a at level 100, b at level 200).

Definition is_ok {A} (x : res A) : bool := match x with Ok _ => true | Err _ => false end.

(* indices of the cases (numbered from 0) on which [f] is false *)
Fixpoint mismatches_from {A} (f : A -> bool) (i : Z) (l : list A) : list Z :=
  match l with
  | [] => []
  | x :: r => if f x then mismatches_from f (i + 1) r else i :: mismatches_from f (i + 1) r
  end.
Definition mismatches {A} (f : A -> bool) (l : list A) : list Z := mismatches_from f 0 l.

(* Big integer literals: Coq's parser is very slow on literals of thousands of digits, so the
   harness writes integers wider than 192 bits as 64-bit limbs, most significant first. *)
Definition zl (neg : bool) (limbs : list Z) : Z :=
  let m := fold_left (fun acc l => acc * 18446744073709551616 + l) limbs 0 in
  if neg then - m else m.
