(* C39: format_idempotent for the skeleton model.
   Strategy: the output of one pass is a canonical text [txt hs fs tight D]; parsing it gives a normalised
   document N(D) with the same declarations in the same order; the preparation steps (strip semicolons, sort
   imports) are the identity on N(D); rendering N(D) gives the same canonical text. *)
From Coq Require Import ZArith List Bool Lia Permutation PeanoNat.
From CV Require Import C39.Model C39.Proofs.
Import ListNotations.
Open Scope Z_scope.

Lemma entry_eta e : mke (lead e) (decl e) (semi e) (same e) (trail e) = e.
Proof. destruct e; reflexivity. Qed.

Definition with_trail (e : entry) (cs : list Z) : entry :=
  mke (lead e) (decl e) (semi e) (same e) (trail e ++ cs).
Definition with_lead (e : entry) (cs : list Z) : entry :=
  mke cs (decl e) (semi e) (same e) (trail e).

(* ---------------------------------------------------------------- reading comment lines *)
Lemma read_cmts_pre cs : forall hdr grp,
  fold_left pstep (cmt_lines cs) (Pre hdr grp) = Pre hdr (grp ++ cs).
Proof.
  induction cs as [| c cs IH]; intros hdr grp; simpl; [now rewrite app_nil_r |].
  rewrite IH, <- app_assoc. reflexivity.
Qed.
Lemma read_cmts_adj cs : forall hdr done cur,
  fold_left pstep (cmt_lines cs) (Post hdr done cur true []) = Post hdr done (with_trail cur cs) true [].
Proof.
  induction cs as [| c cs IH]; intros hdr done cur; simpl.
  - unfold with_trail. now rewrite app_nil_r, entry_eta.
  - rewrite IH. unfold with_trail, add_trail. simpl. now rewrite <- app_assoc.
Qed.
Lemma read_cmts_nadj cs : forall hdr done cur nxt,
  fold_left pstep (cmt_lines cs) (Post hdr done cur false nxt) = Post hdr done cur false (nxt ++ cs).
Proof.
  induction cs as [| c cs IH]; intros hdr done cur nxt; simpl; [now rewrite app_nil_r |].
  rewrite IH, <- app_assoc. reflexivity.
Qed.

Ltac lnorm := repeat (rewrite <- app_assoc || rewrite <- app_comm_cons || rewrite app_nil_r || rewrite app_nil_l).

Lemma fold_single x st : fold_left pstep [x] st = pstep st x.
Proof. reflexivity. Qed.

(* ---------------------------------------------------------------- canonical texts *)
Section Canon.
  Variable tg : Z -> Z -> bool.               (* no blank line between declarations d1 d2 *)
  Definition tight (a b : entry) : bool := tg (decl a) (decl b).

  Fixpoint rend (prev : option Z) (es : list entry) : list line :=
    match es with
    | [] => []
    | e :: r =>
        (match prev with
         | None => []
         | Some p => if tg p (decl e) then [] else [LBlank]
         end) ++ render_entry e ++ rend (Some (decl e)) r
    end.

  (* normalisation of the entries that follow [cur]: (finished entries, last entry) *)
  Fixpoint normp (cur : entry) (es : list entry) : list entry * entry :=
    match es with
    | [] => ([], cur)
    | e :: r =>
        if tight cur e
        then let p := normp (with_lead e []) r in (with_trail cur (lead e) :: fst p, snd p)
        else let p := normp e r in (cur :: fst p, snd p)
    end.

  Lemma normp_cons_t cur e r : tg (decl cur) (decl e) = true ->
    normp cur (e :: r) = (with_trail cur (lead e) :: fst (normp (with_lead e []) r), snd (normp (with_lead e []) r)).
  Proof. intro T. simpl. unfold tight. now rewrite T. Qed.
  Lemma normp_cons_f cur e r : tg (decl cur) (decl e) = false ->
    normp cur (e :: r) = (cur :: fst (normp e r), snd (normp e r)).
  Proof. intro T. simpl. unfold tight. now rewrite T. Qed.

  Lemma read_entries es : forall hdr done cur,
    fold_left pstep (rend (Some (decl cur)) es) (Post hdr done cur true [])
    = Post hdr (rev (fst (normp cur es)) ++ done) (snd (normp cur es)) true [].
  Proof.
    induction es as [| e r IH]; intros hdr done cur; [reflexivity |].
    simpl rend.
    destruct (tg (decl cur) (decl e)) eqn:T.
    - (* adjacent: the leading comments of e are read as trailing comments of cur *)
      rewrite (normp_cons_t _ _ _ T). simpl fst. simpl snd.
      simpl app. unfold render_entry. rewrite !fold_left_app.
      rewrite read_cmts_adj. simpl fold_left at 2.
      rewrite read_cmts_adj.
      replace (with_trail (mke [] (decl e) (semi e) (same e) []) (trail e)) with (with_lead e [])
        by (unfold with_trail, with_lead; reflexivity).
      change (decl e) with (decl (with_lead e [])).
      rewrite IH. simpl. rewrite <- app_assoc. reflexivity.
    - rewrite (normp_cons_f _ _ _ T). simpl fst. simpl snd.
      unfold render_entry. rewrite !fold_left_app.
      rewrite (fold_single LBlank). simpl (pstep _ LBlank).
      rewrite read_cmts_nadj. rewrite fold_single. simpl (pstep _ (LCode _ _ _)).
      rewrite read_cmts_adj.
      replace (with_trail (mke (lead e) (decl e) (semi e) (same e) []) (trail e)) with e
        by (unfold with_trail; simpl; now rewrite entry_eta).
      rewrite IH. simpl. rewrite <- app_assoc. reflexivity.
  Qed.

  Lemma cmt_lines_app a b : cmt_lines (a ++ b) = cmt_lines a ++ cmt_lines b.
  Proof. apply map_app. Qed.

  (* re-rendering the normalised entries gives the same lines *)
  Lemma rend_norm es : forall cur prev,
    rend prev (fst (normp cur es) ++ [snd (normp cur es)]) = rend prev (cur :: es).
  Proof.
    induction es as [| e r IH]; intros cur prev; [reflexivity |].
    destruct (tg (decl cur) (decl e)) eqn:T.
    - rewrite (normp_cons_t _ _ _ T). simpl fst. simpl snd. rewrite <- app_comm_cons.
      change (rend prev (with_trail cur (lead e) :: (fst (normp (with_lead e []) r) ++ [snd (normp (with_lead e []) r)])))
        with ((match prev with None => [] | Some p => if tg p (decl cur) then [] else [LBlank] end)
              ++ render_entry (with_trail cur (lead e))
              ++ rend (Some (decl cur)) (fst (normp (with_lead e []) r) ++ [snd (normp (with_lead e []) r)])).
      rewrite IH. simpl rend. rewrite T. unfold render_entry, with_trail, with_lead. simpl.
      rewrite cmt_lines_app. lnorm. reflexivity.
    - rewrite (normp_cons_f _ _ _ T). simpl fst. simpl snd. rewrite <- app_comm_cons.
      change (rend prev (cur :: (fst (normp e r) ++ [snd (normp e r)])))
        with ((match prev with None => [] | Some p => if tg p (decl cur) then [] else [LBlank] end)
              ++ render_entry cur ++ rend (Some (decl cur)) (fst (normp e r) ++ [snd (normp e r)])).
      rewrite IH. reflexivity.
  Qed.

  Lemma rend_snoc_trail l : forall prev x cs,
    rend prev (l ++ [with_trail x cs]) = rend prev (l ++ [x]) ++ cmt_lines cs.
  Proof.
    induction l as [| y l IH]; intros prev x cs.
    - simpl. unfold render_entry, with_trail. simpl. rewrite cmt_lines_app. lnorm. reflexivity.
    - simpl. rewrite IH. lnorm. reflexivity.
  Qed.

  Lemma normp_decls es : forall cur,
    map decl (fst (normp cur es) ++ [snd (normp cur es)]) = map decl (cur :: es)
    /\ map semi (fst (normp cur es) ++ [snd (normp cur es)]) = map semi (cur :: es).
  Proof.
    induction es as [| e r IH]; intro cur; [split; reflexivity |].
    destruct (tg (decl cur) (decl e)) eqn:T.
    - rewrite (normp_cons_t _ _ _ T). simpl fst. simpl snd.
      destruct (IH (with_lead e [])) as [A B]. simpl in A, B. simpl. rewrite A, B. split; reflexivity.
    - rewrite (normp_cons_f _ _ _ T). simpl fst. simpl snd.
      destruct (IH e) as [A B]. simpl in A, B. simpl. rewrite A, B. split; reflexivity.
  Qed.

  (* ---------------------------------------------------------------- whole documents *)
  Variables hs fs : bool.                     (* blank line after the header / before the footer *)

  Definition txt (d : doc) : list line :=
    (match header d with [] => [] | h => cmt_lines h ++ (if hs then [LBlank] else []) end)
    ++ rend None (entries d)
    ++ (match footer d with [] => [] | f => (if fs then [LBlank] else []) ++ cmt_lines f end).

  (* the document obtained by parsing the canonical text of d (entries e1 :: r) *)
  Definition ndoc (h : list Z) (e1 : entry) (r : list entry) (f : list Z) : doc :=
    let cur1 := with_lead e1 ((if hs then [] else h) ++ lead e1) in
    let p := normp cur1 r in
    mkd (if hs then h else [])
        (fst p ++ [if fs then snd p else with_trail (snd p) f])
        (if fs then f else []).

  Lemma parse_txt h e1 r f :
    parse (txt (mkd h (e1 :: r) f)) = ndoc h e1 r f.
  Proof.
    unfold parse, txt, ndoc. simpl header. simpl entries. simpl footer.
    rewrite !fold_left_app.
    (* header part *)
    assert (H1 : fold_left pstep (match h with [] => [] | _ :: _ => cmt_lines h ++ (if hs then [LBlank] else []) end) (Pre [] [])
                 = Pre (if hs then h else []) (if hs then [] else h)).
    { destruct h as [| c h']; [destruct hs; reflexivity |].
      rewrite fold_left_app, read_cmts_pre. destruct hs; reflexivity. }
    rewrite H1. clear H1.
    (* first entry *)
    simpl rend. unfold render_entry at 1. rewrite !fold_left_app.
    rewrite read_cmts_pre. simpl fold_left at 3. rewrite read_cmts_adj.
    set (cur1 := with_lead e1 ((if hs then [] else h) ++ lead e1)).
    replace (with_trail (mke ((if hs then [] else h) ++ lead e1) (decl e1) (semi e1) (same e1) []) (trail e1)) with cur1
      by (unfold cur1, with_trail, with_lead; reflexivity).
    change (decl e1) with (decl cur1).
    rewrite read_entries. rewrite app_nil_r.
    (* footer part *)
    destruct f as [| c f'].
    - simpl. rewrite rev_involutive. destruct fs; simpl; [reflexivity |].
      unfold with_trail. now rewrite app_nil_r, entry_eta.
    - destruct fs.
      + simpl app. simpl fold_left. rewrite read_cmts_nadj. simpl. now rewrite rev_involutive.
      + simpl app. rewrite read_cmts_adj. simpl. now rewrite rev_involutive.
  Qed.

  Lemma txt_ndoc h e1 r f : txt (ndoc h e1 r f) = txt (mkd h (e1 :: r) f).
  Proof.
    unfold txt, ndoc. simpl header. simpl entries. simpl footer.
    set (cur1 := with_lead e1 ((if hs then [] else h) ++ lead e1)).
    assert (E : rend None (fst (normp cur1 r) ++ [if fs then snd (normp cur1 r) else with_trail (snd (normp cur1 r)) f])
                = rend None (cur1 :: r) ++ (if fs then [] else cmt_lines f)).
    { destruct fs.
      - now rewrite rend_norm, app_nil_r.
      - now rewrite rend_snoc_trail, rend_norm. }
    rewrite E. clear E.
    change (rend None (cur1 :: r)) with (render_entry cur1 ++ rend (Some (decl e1)) r).
    change (rend None (e1 :: r)) with (render_entry e1 ++ rend (Some (decl e1)) r).
    unfold cur1, render_entry, with_lead. simpl.
    destruct hs, fs; simpl; repeat rewrite cmt_lines_app; repeat rewrite <- app_assoc; simpl.
    - destruct h, f; reflexivity.
    - destruct h; destruct f; simpl; repeat rewrite app_nil_r; repeat rewrite <- app_assoc; reflexivity.
    - destruct h; destruct f; simpl; repeat rewrite app_nil_r; repeat rewrite <- app_assoc; reflexivity.
    - destruct h; destruct f; simpl; repeat rewrite app_nil_r; repeat rewrite <- app_assoc; reflexivity.
  Qed.

  Lemma ndoc_decls h e1 r f :
    map decl (entries (ndoc h e1 r f)) = map decl (e1 :: r)
    /\ map semi (entries (ndoc h e1 r f)) = map semi (e1 :: r)
    /\ entries (ndoc h e1 r f) <> [].
  Proof.
    unfold ndoc. simpl entries.
    set (cur1 := with_lead e1 ((if hs then [] else h) ++ lead e1)).
    destruct (normp_decls r cur1) as [A B].
    rewrite !map_app in *. simpl in *.
    split; [| split].
    - destruct fs; exact A.
    - destruct fs; exact B.
    - destruct (fst (normp cur1 r)); discriminate.
  Qed.
End Canon.
