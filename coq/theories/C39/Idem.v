(* C39: format_idempotent for the skeleton model.
   Strategy: the output of one pass is a canonical text [txt hs fs tight D]; parsing it gives a normalised
   document N(D) with the same declarations in the same order; the preparation steps (strip semicolons, sort
   imports) are the identity on N(D); rendering N(D) gives the same canonical text. *)
From Coq Require Import ZArith List Bool Lia Permutation PeanoNat.
From CV Require Import C39.Model C39.Proofs.
Import ListNotations.
Open Scope Z_scope.

Lemma entry_eta e : mke (lead e) (decl e) (semi e) (same e) (trail e) = e.
Proof. destruct e; reflexivity. Qed.

Definition with_trail (e : entry) (cs : list Z) : entry :=
  mke (lead e) (decl e) (semi e) (same e) (trail e ++ cs).
Definition with_lead (e : entry) (cs : list Z) : entry :=
  mke cs (decl e) (semi e) (same e) (trail e).

(* ---------------------------------------------------------------- reading comment lines *)
Lemma read_cmts_pre cs : forall hdr grp,
  fold_left pstep (cmt_lines cs) (Pre hdr grp) = Pre hdr (grp ++ cs).
Proof.
  induction cs as [| c cs IH]; intros hdr grp; simpl; [now rewrite app_nil_r |].
  rewrite IH, <- app_assoc. reflexivity.
Qed.
Lemma read_cmts_adj cs : forall hdr done cur,
  fold_left pstep (cmt_lines cs) (Post hdr done cur true []) = Post hdr done (with_trail cur cs) true [].
Proof.
  induction cs as [| c cs IH]; intros hdr done cur; simpl.
  - unfold with_trail. now rewrite app_nil_r, entry_eta.
  - rewrite IH. unfold with_trail, add_trail. simpl. now rewrite <- app_assoc.
Qed.
Lemma read_cmts_nadj cs : forall hdr done cur nxt,
  fold_left pstep (cmt_lines cs) (Post hdr done cur false nxt) = Post hdr done cur false (nxt ++ cs).
Proof.
  induction cs as [| c cs IH]; intros hdr done cur nxt; simpl; [now rewrite app_nil_r |].
  rewrite IH, <- app_assoc. reflexivity.
Qed.

Ltac lnorm := repeat (rewrite <- app_assoc || rewrite <- app_comm_cons || rewrite app_nil_r || rewrite app_nil_l).

Lemma fold_single x st : fold_left pstep [x] st = pstep st x.
Proof. reflexivity. Qed.

(* ---------------------------------------------------------------- canonical texts *)
Section Canon.
  Variable tg : Z -> Z -> bool.               (* no blank line between declarations d1 d2 *)
  Definition tight (a b : entry) : bool := tg (decl a) (decl b).

  Fixpoint rend (prev : option Z) (es : list entry) : list line :=
    match es with
    | [] => []
    | e :: r =>
        (match prev with
         | None => []
         | Some p => if tg p (decl e) then [] else [LBlank]
         end) ++ render_entry e ++ rend (Some (decl e)) r
    end.

  (* normalisation of the entries that follow [cur]: (finished entries, last entry) *)
  Fixpoint normp (cur : entry) (es : list entry) : list entry * entry :=
    match es with
    | [] => ([], cur)
    | e :: r =>
        if tight cur e
        then let p := normp (with_lead e []) r in (with_trail cur (lead e) :: fst p, snd p)
        else let p := normp e r in (cur :: fst p, snd p)
    end.

  Lemma normp_cons_t cur e r : tg (decl cur) (decl e) = true ->
    normp cur (e :: r) = (with_trail cur (lead e) :: fst (normp (with_lead e []) r), snd (normp (with_lead e []) r)).
  Proof. intro T. simpl. unfold tight. now rewrite T. Qed.
  Lemma normp_cons_f cur e r : tg (decl cur) (decl e) = false ->
    normp cur (e :: r) = (cur :: fst (normp e r), snd (normp e r)).
  Proof. intro T. simpl. unfold tight. now rewrite T. Qed.

  Lemma read_entries es : forall hdr done cur,
    fold_left pstep (rend (Some (decl cur)) es) (Post hdr done cur true [])
    = Post hdr (rev (fst (normp cur es)) ++ done) (snd (normp cur es)) true [].
  Proof.
    induction es as [| e r IH]; intros hdr done cur; [reflexivity |].
    simpl rend.
    destruct (tg (decl cur) (decl e)) eqn:T.
    - (* adjacent: the leading comments of e are read as trailing comments of cur *)
      rewrite (normp_cons_t _ _ _ T). simpl fst. simpl snd.
      simpl app. unfold render_entry. rewrite !fold_left_app.
      rewrite read_cmts_adj. simpl fold_left at 2.
      rewrite read_cmts_adj.
      replace (with_trail (mke [] (decl e) (semi e) (same e) []) (trail e)) with (with_lead e [])
        by (unfold with_trail, with_lead; reflexivity).
      change (decl e) with (decl (with_lead e [])).
      rewrite IH. simpl. rewrite <- app_assoc. reflexivity.
    - rewrite (normp_cons_f _ _ _ T). simpl fst. simpl snd.
      unfold render_entry. rewrite !fold_left_app.
      rewrite (fold_single LBlank). simpl (pstep _ LBlank).
      rewrite read_cmts_nadj. rewrite fold_single. simpl (pstep _ (LCode _ _ _)).
      rewrite read_cmts_adj.
      replace (with_trail (mke (lead e) (decl e) (semi e) (same e) []) (trail e)) with e
        by (unfold with_trail; simpl; now rewrite entry_eta).
      rewrite IH. simpl. rewrite <- app_assoc. reflexivity.
  Qed.

  Lemma cmt_lines_app a b : cmt_lines (a ++ b) = cmt_lines a ++ cmt_lines b.
  Proof. apply map_app. Qed.

  (* re-rendering the normalised entries gives the same lines *)
  Lemma rend_norm es : forall cur prev,
    rend prev (fst (normp cur es) ++ [snd (normp cur es)]) = rend prev (cur :: es).
  Proof.
    induction es as [| e r IH]; intros cur prev; [reflexivity |].
    destruct (tg (decl cur) (decl e)) eqn:T.
    - rewrite (normp_cons_t _ _ _ T). simpl fst. simpl snd. rewrite <- app_comm_cons.
      change (rend prev (with_trail cur (lead e) :: (fst (normp (with_lead e []) r) ++ [snd (normp (with_lead e []) r)])))
        with ((match prev with None => [] | Some p => if tg p (decl cur) then [] else [LBlank] end)
              ++ render_entry (with_trail cur (lead e))
              ++ rend (Some (decl cur)) (fst (normp (with_lead e []) r) ++ [snd (normp (with_lead e []) r)])).
      rewrite IH. simpl rend. rewrite T. unfold render_entry, with_trail, with_lead. simpl.
      rewrite cmt_lines_app. lnorm. reflexivity.
    - rewrite (normp_cons_f _ _ _ T). simpl fst. simpl snd. rewrite <- app_comm_cons.
      change (rend prev (cur :: (fst (normp e r) ++ [snd (normp e r)])))
        with ((match prev with None => [] | Some p => if tg p (decl cur) then [] else [LBlank] end)
              ++ render_entry cur ++ rend (Some (decl cur)) (fst (normp e r) ++ [snd (normp e r)])).
      rewrite IH. reflexivity.
  Qed.

  Lemma rend_snoc_trail l : forall prev x cs,
    rend prev (l ++ [with_trail x cs]) = rend prev (l ++ [x]) ++ cmt_lines cs.
  Proof.
    induction l as [| y l IH]; intros prev x cs.
    - simpl. unfold render_entry, with_trail. simpl. rewrite cmt_lines_app. lnorm. reflexivity.
    - simpl. rewrite IH. lnorm. reflexivity.
  Qed.

  Lemma normp_decls es : forall cur,
    map decl (fst (normp cur es) ++ [snd (normp cur es)]) = map decl (cur :: es)
    /\ map semi (fst (normp cur es) ++ [snd (normp cur es)]) = map semi (cur :: es).
  Proof.
    induction es as [| e r IH]; intro cur; [split; reflexivity |].
    destruct (tg (decl cur) (decl e)) eqn:T.
    - rewrite (normp_cons_t _ _ _ T). simpl fst. simpl snd.
      destruct (IH (with_lead e [])) as [A B]. simpl in A, B. simpl. rewrite A, B. split; reflexivity.
    - rewrite (normp_cons_f _ _ _ T). simpl fst. simpl snd.
      destruct (IH e) as [A B]. simpl in A, B. simpl. rewrite A, B. split; reflexivity.
  Qed.

  (* ---------------------------------------------------------------- whole documents *)
  Variables hs fs : bool.                     (* blank line after the header / before the footer *)

  Definition hpart (h : list Z) : list line :=
    match h with [] => [] | _ :: _ => cmt_lines h ++ (if hs then [LBlank] else []) end.
  Definition fpart (f : list Z) : list line :=
    match f with [] => [] | _ :: _ => (if fs then [LBlank] else []) ++ cmt_lines f end.
  Definition txt (d : doc) : list line :=
    hpart (header d) ++ rend None (entries d) ++ fpart (footer d).

  (* the document obtained by parsing the canonical text of d (entries e1 :: r) *)
  Definition ndoc (h : list Z) (e1 : entry) (r : list entry) (f : list Z) : doc :=
    let cur1 := with_lead e1 ((if hs then [] else h) ++ lead e1) in
    let p := normp cur1 r in
    mkd (if hs then h else [])
        (fst p ++ [if fs then snd p else with_trail (snd p) f])
        (if fs then f else []).

  Lemma parse_txt h e1 r f :
    parse (txt (mkd h (e1 :: r) f)) = ndoc h e1 r f.
  Proof.
    unfold parse, txt, ndoc. simpl header. simpl entries. simpl footer.
    rewrite !fold_left_app.
    (* header part *)
    assert (H1 : fold_left pstep (hpart h) (Pre [] [])
                 = Pre (if hs then h else []) (if hs then [] else h)).
    { unfold hpart. destruct h as [| c h']; [destruct hs; reflexivity |].
      rewrite fold_left_app, read_cmts_pre. destruct hs; reflexivity. }
    rewrite H1. clear H1.
    (* first entry *)
    simpl rend. unfold render_entry at 1. rewrite !fold_left_app.
    rewrite read_cmts_pre. simpl fold_left at 3. rewrite read_cmts_adj.
    set (cur1 := with_lead e1 ((if hs then [] else h) ++ lead e1)).
    replace (with_trail (mke ((if hs then [] else h) ++ lead e1) (decl e1) (semi e1) (same e1) []) (trail e1)) with cur1
      by (unfold cur1, with_trail, with_lead; reflexivity).
    change (decl e1) with (decl cur1).
    rewrite read_entries. rewrite app_nil_r.
    (* footer part *)
    unfold fpart. destruct f as [| c f'].
    - simpl. rewrite rev_involutive. destruct fs; simpl; [reflexivity |].
      unfold with_trail. now rewrite app_nil_r, entry_eta.
    - destruct fs.
      + rewrite fold_left_app, (fold_single LBlank). simpl (pstep _ LBlank).
        rewrite read_cmts_nadj. simpl. now rewrite rev_involutive.
      + rewrite app_nil_l, read_cmts_adj. simpl. now rewrite rev_involutive.
  Qed.

  Lemma txt_ndoc h e1 r f : txt (ndoc h e1 r f) = txt (mkd h (e1 :: r) f).
  Proof.
    unfold txt, ndoc. simpl header. simpl entries. simpl footer.
    set (cur1 := with_lead e1 ((if hs then [] else h) ++ lead e1)).
    assert (E : rend None (fst (normp cur1 r) ++ [if fs then snd (normp cur1 r) else with_trail (snd (normp cur1 r)) f])
                = rend None (cur1 :: r) ++ (if fs then [] else cmt_lines f)).
    { destruct fs.
      - now rewrite rend_norm, app_nil_r.
      - now rewrite rend_snoc_trail, rend_norm. }
    rewrite E. clear E.
    change (rend None (cur1 :: r)) with (render_entry cur1 ++ rend (Some (decl e1)) r).
    change (rend None (e1 :: r)) with (render_entry e1 ++ rend (Some (decl e1)) r).
    unfold cur1, render_entry, with_lead, hpart, fpart. simpl.
    destruct hs, fs; destruct h as [| hc h']; destruct f as [| fc f']; simpl;
      repeat rewrite cmt_lines_app; simpl; lnorm; reflexivity.
  Qed.

  Lemma ndoc_decls h e1 r f :
    map decl (entries (ndoc h e1 r f)) = map decl (e1 :: r)
    /\ map semi (entries (ndoc h e1 r f)) = map semi (e1 :: r)
    /\ entries (ndoc h e1 r f) <> [].
  Proof.
    unfold ndoc. simpl entries.
    set (cur1 := with_lead e1 ((if hs then [] else h) ++ lead e1)).
    destruct (normp_decls r cur1) as [A B].
    rewrite !map_app in *. simpl in *.
    split; [| split].
    - destruct fs; exact A.
    - destruct fs; exact B.
    - destruct (fst (normp cur1 r)); discriminate.
  Qed.
End Canon.

(* ================================================================ blank-line collapsing on canonical texts *)
Definition nb (l : line) : bool := negb (is_blank l).

Fixpoint nodbl (pb : bool) (ls : list line) : bool :=
  match ls with
  | [] => true
  | LBlank :: r => negb pb && nodbl true r
  | _ :: r => nodbl false r
  end.

Lemma limit_nodbl k ls : forall pb,
  nodbl pb ls = true -> limit_blanks (S k) (if pb then 1%nat else 0%nat) ls = ls.
Proof.
  induction ls as [| l ls IH]; intros pb H; [reflexivity |].
  destruct l as [| c | d s e]; simpl in *.
  - apply andb_true_iff in H. destruct H as [Hp H]. destruct pb; [discriminate |].
    simpl. f_equal. exact (IH true H).
  - f_equal. exact (IH false H).
  - f_equal. exact (IH false H).
Qed.

Lemma nodbl_nb_prefix A : forall X pb,
  forallb nb A = true -> A <> [] -> nodbl pb (A ++ X) = nodbl false X.
Proof.
  induction A as [| a A IH]; intros X pb H N; [contradiction |].
  simpl in H. apply andb_true_iff in H. destruct H as [Ha HA].
  destruct a as [| c | d s e]; [discriminate | |]; simpl;
    (destruct A as [| a' A']; [reflexivity | apply IH; [exact HA | discriminate]]).
Qed.

Lemma nb_cmts cs : forallb nb (cmt_lines cs) = true.
Proof. induction cs; simpl; auto. Qed.
Lemma nb_render_entry e : forallb nb (render_entry e) = true /\ render_entry e <> [].
Proof.
  unfold render_entry. split.
  - rewrite !forallb_app, !nb_cmts. reflexivity.
  - destruct (cmt_lines (lead e)); discriminate.
Qed.

Lemma nodbl_cmts cs : forall pb, nodbl pb (cmt_lines cs) = true.
Proof. induction cs as [| c cs IH]; intro pb; simpl; auto. Qed.

Lemma limit0_filter ls : forall run, limit_blanks 0 run ls = filter nb ls.
Proof.
  induction ls as [| l ls IH]; intro run; [reflexivity |].
  destruct l; simpl; rewrite ?IH; reflexivity.
Qed.

Lemma drop_final_nb ls : forallb nb ls = true -> drop_final_blank ls = ls.
Proof.
  induction ls as [| l ls IH]; intro H; [reflexivity |].
  simpl in H. apply andb_true_iff in H. destruct H as [Hl H].
  destruct ls as [| l' ls'].
  - destruct l; [discriminate | reflexivity | reflexivity].
  - rewrite drop_final_blank_cons, (IH H). reflexivity.
Qed.

Lemma drop_final_snoc ls : forall x, nb x = true -> drop_final_blank (ls ++ [x]) = ls ++ [x].
Proof.
  induction ls as [| l ls IH]; intros x H.
  - destruct x; [discriminate | reflexivity | reflexivity].
  - destruct ls as [| l' ls'].
    + simpl. destruct l; destruct x; try discriminate; reflexivity.
    + change ((l :: l' :: ls') ++ [x]) with (l :: l' :: (ls' ++ [x])).
      rewrite drop_final_blank_cons. f_equal. exact (IH x H).
Qed.

Lemma filter_nb_id ls : forallb nb ls = true -> filter nb ls = ls.
Proof.
  induction ls as [| l ls IH]; intro H; [reflexivity |].
  simpl in *. apply andb_true_iff in H. destruct H as [Hl H]. rewrite Hl, (IH H). reflexivity.
Qed.

Section Regimes.
  Variable imp : Z -> option (Z * Z).
  Definition tgI (d1 d2 : Z) : bool :=
    match imp d1, imp d2 with Some (g, _), Some (g', _) => g =? g' | _, _ => false end.
  Definition tgT (_ _ : Z) : bool := true.

  Lemma render_entries_rend es : forall prev,
    render_entries imp prev es = rend tgI (option_map decl prev) es.
  Proof.
    induction es as [| e r IH]; intro prev; [reflexivity |].
    simpl. rewrite IH. destruct prev as [p |]; reflexivity.
  Qed.

  Lemma render_txt d : entries d <> [] -> render imp d = txt tgI true true d.
  Proof.
    intro N. unfold render, txt, hpart, fpart. rewrite render_entries_rend. simpl option_map.
    destruct (header d) as [| hc h']; destruct (footer d) as [| fc f']; destruct (entries d); try contradiction; reflexivity.
  Qed.

  (* the canonical text with blank lines has no two consecutive blank lines and does not end with one *)
  Lemma nodbl_rend es : forall prev tail,
    nodbl false tail = true -> nodbl false (rend tgI prev es ++ tail) = true.
  Proof.
    induction es as [| e r IH]; intros prev tail H; [exact H |].
    simpl rend. destruct (nb_render_entry e) as [N1 N2].
    assert (G : nodbl false ((render_entry e ++ rend tgI (Some (decl e)) r) ++ tail) = true).
    { rewrite <- app_assoc. rewrite (nodbl_nb_prefix _ _ false N1 N2). now apply IH. }
    destruct prev as [p |]; [destruct (tgI p (decl e)) |]; simpl app; try exact G.
    simpl. rewrite <- app_assoc. rewrite (nodbl_nb_prefix _ _ true N1 N2). now apply IH.
  Qed.

  Lemma rend_last es : forall prev, es <> [] ->
    exists ls x, rend tgI prev es = ls ++ [x] /\ nb x = true.
  Proof.
    induction es as [| e r IH]; intros prev N; [contradiction |].
    destruct r as [| e' r'].
    - simpl. unfold render_entry. destruct (trail e) as [| c t] eqn:T using rev_ind.
      + exists ((match prev with None => [] | Some p => if tgI p (decl e) then [] else [LBlank] end) ++ cmt_lines (lead e)),
          (LCode (decl e) (semi e) (same e)).
        split; [simpl; lnorm; reflexivity | reflexivity].
      + exists ((match prev with None => [] | Some p => if tgI p (decl e) then [] else [LBlank] end)
                ++ cmt_lines (lead e) ++ [LCode (decl e) (semi e) (same e)] ++ cmt_lines t), (LCmt c).
        split; [| reflexivity]. rewrite cmt_lines_app. simpl. lnorm. reflexivity.
    - destruct (IH (Some (decl e))) as [ls [x [E Hx]]]; [discriminate |].
      exists ((match prev with None => [] | Some p => if tgI p (decl e) then [] else [LBlank] end)
              ++ render_entry e ++ ls), x.
      split; [| exact Hx].
      change (rend tgI prev (e :: e' :: r')) with
        ((match prev with None => [] | Some p => if tgI p (decl e) then [] else [LBlank] end)
         ++ render_entry e ++ rend tgI (Some (decl e)) (e' :: r')).
      rewrite E. lnorm. reflexivity.
  Qed.

  Lemma collapse_pos k d : entries d <> [] ->
    drop_final_blank (limit_blanks (S k) O (txt tgI true true d)) = txt tgI true true d.
  Proof.
    intro N.
    assert (ND : nodbl false (txt tgI true true d) = true).
    { unfold txt, hpart, fpart.
      assert (F : nodbl false (match footer d with [] => [] | _ :: _ => [LBlank] ++ cmt_lines (footer d) end) = true).
      { destruct (footer d) as [| fc f']; [reflexivity |]. simpl. apply nodbl_cmts. }
      destruct (header d) as [| hc h'].
      - simpl app. now apply nodbl_rend.
      - rewrite <- app_assoc. rewrite (nodbl_nb_prefix _ _ false (nb_cmts _)); [| discriminate].
        simpl app. simpl nodbl.
        destruct (entries d) as [| e r]; [contradiction |].
        simpl rend. destruct (nb_render_entry e) as [N1 N2].
        rewrite <- app_assoc, (nodbl_nb_prefix _ _ true N1 N2).
        now apply nodbl_rend. }
    rewrite (limit_nodbl k _ false ND).
    (* does not end with a blank line *)
    unfold txt, hpart, fpart.
    destruct (footer d) as [| fc f'] using rev_ind.
    - rewrite app_nil_r. destruct (rend_last (entries d) None N) as [ls [x [E Hx]]].
      rewrite E, app_assoc. now apply drop_final_snoc.
    - clear IHf'.
      assert (E : (match f' ++ [fc] with [] => [] | _ :: _ => [LBlank] ++ cmt_lines (f' ++ [fc]) end)
                  = ([LBlank] ++ cmt_lines f') ++ [LCmt fc]).
      { destruct f'; simpl; [reflexivity |]. rewrite cmt_lines_app. simpl. lnorm. reflexivity. }
      rewrite E, !app_assoc. now apply drop_final_snoc.
  Qed.

  Lemma filter_rend es : forall prev prev',
    filter nb (rend tgI prev es) = rend tgT prev' es.
  Proof.
    induction es as [| e r IH]; intros prev prev'; [reflexivity |].
    simpl rend. rewrite !filter_app, (IH _ (Some (decl e))).
    destruct (nb_render_entry e) as [N1 _]. rewrite (filter_nb_id _ N1).
    replace (filter nb match prev with None => [] | Some p => if tgI p (decl e) then [] else [LBlank] end) with (@nil line)
      by (destruct prev as [p |]; [destruct (tgI p (decl e)) |]; reflexivity).
    destruct prev'; reflexivity.
  Qed.

  Lemma collapse_zero d : entries d <> [] ->
    drop_final_blank (limit_blanks O O (txt tgI true true d)) = txt tgT false false d.
  Proof.
    intro N. rewrite limit0_filter.
    assert (E : filter nb (txt tgI true true d) = txt tgT false false d).
    { unfold txt, hpart, fpart. rewrite !filter_app, (filter_rend _ None None).
      f_equal; [| f_equal].
      - destruct (header d) as [| hc h']; [reflexivity |].
        rewrite filter_app, (filter_nb_id _ (nb_cmts _)). simpl. now rewrite app_nil_r.
      - destruct (footer d) as [| fc f']; [reflexivity |].
        rewrite filter_app, (filter_nb_id _ (nb_cmts _)). reflexivity. }
    rewrite E. apply drop_final_nb.
    rewrite <- E. clear E. induction (txt tgI true true d) as [| l ls IH]; [reflexivity |].
    simpl. destruct (nb l) eqn:H; simpl; rewrite ?H; auto.
  Qed.
End Regimes.

(* ================================================================ the preparation steps are the identity on N(D) *)
Section Prep.
  Variable imp : Z -> option (Z * Z).
  Notation is_import := (is_import imp).

  Lemma const_map_len (A B : Type) (l1 : list A) : forall (l2 : list B),
    length l1 = length l2 -> map (fun _ => false) l1 = map (fun _ => false) l2.
  Proof.
    induction l1 as [| a l1 IH]; intros [| b l2] H; try discriminate; [reflexivity |].
    simpl. f_equal. apply IH. now injection H.
  Qed.

  Lemma strip_id es : map semi es = map (fun _ => false) es -> strip_semis es = es.
  Proof.
    induction es as [| e r IH]; intro H; [reflexivity |].
    simpl in *. injection H as H1 H2. rewrite (IH H2). f_equal.
    rewrite <- H1. apply entry_eta.
  Qed.
  Lemma strip_all_false es : map semi (strip_semis es) = map (fun _ => false) (strip_semis es).
  Proof. induction es as [| e r IH]; simpl; [reflexivity | now rewrite IH]. Qed.

  Lemma sort_ordered_id l : ordered imp l -> sort_entries imp l = l.
  Proof.
    induction l as [| x r IH]; intro O; [reflexivity |].
    simpl in *. destruct O as [O1 O2]. rewrite (IH O2).
    destruct r as [| y r']; [reflexivity |]. simpl. now rewrite O1.
  Qed.
  Lemma refill_id es : refill imp es (filter is_import es) = es.
  Proof.
    induction es as [| e r IH]; [reflexivity |].
    simpl. destruct (is_import e) eqn:E; simpl; rewrite ?E, IH; reflexivity.
  Qed.
  Lemma sort_imports_id es : ordered imp (filter is_import es) -> sort_imports imp es = es.
  Proof. intro O. unfold sort_imports. rewrite (sort_ordered_id _ O). apply refill_id. Qed.

  Lemma filter_decl l1 : forall l2,
    map decl l1 = map decl l2 -> map decl (filter is_import l1) = map decl (filter is_import l2).
  Proof.
    induction l1 as [| a l1 IH]; intros [| b l2] H; try discriminate; [reflexivity |].
    simpl in H. injection H as H1 H2. simpl. unfold Model.is_import. rewrite H1.
    destruct (imp (decl b)); simpl; [rewrite H1; f_equal |]; now apply IH.
  Qed.
  Lemma ordered_decl l1 : forall l2, map decl l1 = map decl l2 -> ordered imp l1 -> ordered imp l2.
  Proof.
    induction l1 as [| a l1 IH]; intros [| b l2] H O; try discriminate; [exact I |].
    simpl in H. injection H as H1 H2. simpl in *. destruct O as [O1 O2].
    split; [| now apply (IH l2)].
    destruct l1 as [| a' l1']; destruct l2 as [| b' l2']; try discriminate; [exact I |].
    simpl in H2. injection H2 as H3 H4. unfold import_le in *. now rewrite <- H1, <- H3.
  Qed.

  (* the entries produced by the first pass *)
  Lemma prep_facts srt strip es0 :
    let es := prep imp srt strip es0 in
    (strip = true -> map semi es = map (fun _ => false) es)
    /\ (srt = true -> ordered imp (filter is_import es))
    /\ (es = [] -> es0 = []).
  Proof.
    unfold prep. split; [| split].
    - intro S. subst strip. destruct srt.
      + (* sorting permutes entries whose semi flags are all false *)
        assert (A : forall e, In e (sort_imports imp (strip_semis es0)) -> semi e = false).
        { intros e Hin. apply (Permutation_in _ (sort_imports_perm imp _)) in Hin.
          clear -Hin. induction es0 as [| x r IH]; [destruct Hin |].
          simpl in Hin. destruct Hin as [<- | Hin]; [reflexivity | now apply IH]. }
        induction (sort_imports imp (strip_semis es0)) as [| x r IH]; [reflexivity |].
        simpl. rewrite (A x (or_introl eq_refl)). f_equal. apply IH. intros e Hin. apply A. now right.
      + apply strip_all_false.
    - intro S. subst srt.
      destruct (sort_imports_shape imp (if strip then strip_semis es0 else es0)) as [_ [_ S3]].
      rewrite S3. apply sort_ordered, filter_all.
    - intro E.
      assert (L : length (if srt then sort_imports imp (if strip then strip_semis es0 else es0)
                          else if strip then strip_semis es0 else es0) = length es0).
      { destruct srt.
        - rewrite (Permutation_length (sort_imports_perm imp _)).
          destruct strip; [apply map_length | reflexivity].
        - destruct strip; [apply map_length | reflexivity]. }
      rewrite E in L. destruct es0; [reflexivity | discriminate].
  Qed.

  Lemma prep_id srt strip es0 es' :
    let es := prep imp srt strip es0 in
    map decl es' = map decl es -> map semi es' = map semi es ->
    prep imp srt strip es' = es'.
  Proof.
    intros es Hd Hs. destruct (prep_facts srt strip es0) as [F1 [F2 _]]. fold es in F1, F2.
    unfold prep.
    assert (S1 : (if strip then strip_semis es' else es') = es').
    { destruct strip; [| reflexivity]. apply strip_id.
      rewrite Hs, (F1 eq_refl). apply const_map_len.
      rewrite <- (map_length decl es), <- Hd. apply map_length. }
    rewrite S1. destruct srt; [| reflexivity].
    apply sort_imports_id.
    apply (ordered_decl (filter is_import es)); [| exact (F2 eq_refl)].
    symmetry. now apply filter_decl.
  Qed.
End Prep.

(* ================================================================ format_idempotent *)
Section Final.
  Variable imp : Z -> option (Z * Z).

  Lemma parse_no_entries ls : entries (parse ls) = [] -> footer (parse ls) = [].
  Proof.
    unfold parse. destruct (fold_left pstep ls (Pre [] [])) as [hdr grp | hdr done cur adj nxt]; simpl; [reflexivity |].
    intro H. destruct (rev done); discriminate.
  Qed.

  Lemma limit_cmts k cs : forall run X,
    cs <> [] -> limit_blanks k run (cmt_lines cs ++ X) = cmt_lines cs ++ limit_blanks k O X.
  Proof.
    induction cs as [| c cs IH]; intros run X N; [contradiction |].
    simpl. f_equal. destruct cs as [| c' cs']; [reflexivity |]. apply IH. discriminate.
  Qed.

  Lemma drop_final_cmts1 cs : cs <> [] -> drop_final_blank (cmt_lines cs ++ [LBlank]) = cmt_lines cs.
  Proof.
    induction cs as [| a t IH]; intro N; [contradiction |].
    destruct t as [| b t']; [reflexivity |].
    change (cmt_lines (a :: b :: t') ++ [LBlank]) with (LCmt a :: LCmt b :: (cmt_lines t' ++ [LBlank])).
    rewrite drop_final_blank_cons.
    change (cmt_lines (a :: b :: t')) with (LCmt a :: cmt_lines (b :: t')). f_equal.
    apply IH. discriminate.
  Qed.
  Lemma drop_final_cmts2 cs : cs <> [] ->
    drop_final_blank (cmt_lines cs ++ [LBlank; LBlank]) = cmt_lines cs ++ [LBlank].
  Proof.
    induction cs as [| a t IH]; intro N; [contradiction |].
    destruct t as [| b t']; [reflexivity |].
    change (cmt_lines (a :: b :: t') ++ [LBlank; LBlank]) with (LCmt a :: LCmt b :: (cmt_lines t' ++ [LBlank; LBlank])).
    rewrite drop_final_blank_cons.
    change (cmt_lines (a :: b :: t') ++ [LBlank]) with (LCmt a :: (cmt_lines (b :: t') ++ [LBlank])). f_equal.
    apply IH. discriminate.
  Qed.

  (* a program without declarations: only header comments *)
  Lemma header_only keep srt strip h :
    format imp keep srt strip (collapse keep (render imp (mkd h [] []))) = collapse keep (render imp (mkd h [] [])).
  Proof.
    destruct h as [| c h']; [destruct srt, strip; reflexivity |].
    set (h := c :: h').
    assert (P1 : parse (cmt_lines h) = mkd h [] []).
    { unfold parse. rewrite read_cmts_pre. reflexivity. }
    assert (P2 : parse (cmt_lines h ++ [LBlank]) = mkd h [] []).
    { unfold parse. rewrite fold_left_app, read_cmts_pre. simpl. now rewrite app_nil_r. }
    assert (R : render imp (mkd h [] []) = cmt_lines h ++ [LBlank; LBlank]).
    { unfold render, h. simpl. rewrite ?app_nil_r. reflexivity. }
    assert (PR : forall srt strip, prep imp srt strip [] = []) by (intros [] []; reflexivity).
    unfold collapse. rewrite R, limit_cmts by discriminate.
    destruct (Z.to_nat keep) as [| [| k]] eqn:K; simpl limit_blanks.
    - rewrite app_nil_r, (drop_final_nb _ (nb_cmts _)).
      rewrite format_unfold, P1. simpl. rewrite PR. fold h. rewrite R.
      unfold collapse. rewrite K, limit_cmts by discriminate. simpl limit_blanks.
      now rewrite app_nil_r, (drop_final_nb _ (nb_cmts _)).
    - assert (D1 : drop_final_blank (cmt_lines h ++ [LBlank]) = cmt_lines h)
        by (apply drop_final_cmts1; discriminate).
      rewrite D1.
      rewrite format_unfold, P1. simpl. rewrite PR. fold h. rewrite R.
      unfold collapse. rewrite K, limit_cmts by discriminate. simpl limit_blanks. exact D1.
    - assert (D2 : drop_final_blank (cmt_lines h ++ [LBlank; LBlank]) = cmt_lines h ++ [LBlank])
        by (apply drop_final_cmts2; discriminate).
      rewrite D2.
      rewrite format_unfold, P2. simpl. rewrite PR. fold h. rewrite R.
      unfold collapse. rewrite K, limit_cmts by discriminate. simpl limit_blanks. exact D2.
  Qed.

  Theorem format_idempotent keep srt strip ls :
    format imp keep srt strip (format imp keep srt strip ls) = format imp keep srt strip ls.
  Proof.
    rewrite (format_unfold imp keep srt strip ls).
    set (P := parse ls).
    set (es := prep imp srt strip (entries P)).
    destruct es as [| e1 r] eqn:Ees.
    - (* no declarations *)
      destruct (prep_facts imp srt strip (entries P)) as [_ [_ F3]].
      assert (E0 : entries P = []) by (apply F3; exact Ees).
      assert (F0 : footer P = []) by (apply parse_no_entries; exact E0).
      rewrite F0. apply header_only.
    - set (h := header P). set (f := footer P).
      assert (N : entries (mkd h (e1 :: r) f) <> []) by discriminate.
      rewrite (render_txt imp _ N).
      destruct (Z.to_nat keep) as [| k] eqn:K.
      + (* KeepBlankLines = 0 *)
        assert (EO : collapse keep (txt (tgI imp) true true (mkd h (e1 :: r) f))
                     = txt tgT false false (mkd h (e1 :: r) f)).
        { unfold collapse. rewrite K. apply (collapse_zero imp _ N). }
        rewrite EO.
        rewrite format_unfold, (parse_txt (tgT) false false h e1 r f).
        destruct (ndoc_decls tgT false false h e1 r f) as [Nd [Ns Nn]].
        assert (Pid : prep imp srt strip (entries (ndoc tgT false false h e1 r f)) = entries (ndoc tgT false false h e1 r f)).
        { apply (prep_id imp srt strip (entries P)); fold es; rewrite Ees; assumption. }
        rewrite Pid.
        replace (mkd (header (ndoc tgT false false h e1 r f)) (entries (ndoc tgT false false h e1 r f)) (footer (ndoc tgT false false h e1 r f)))
          with (ndoc tgT false false h e1 r f) by (destruct (ndoc tgT false false h e1 r f); reflexivity).
        rewrite (render_txt imp _ Nn). unfold collapse. rewrite K.
        rewrite (collapse_zero imp _ Nn). apply txt_ndoc.
      + (* KeepBlankLines >= 1 *)
        assert (EO : collapse keep (txt (tgI imp) true true (mkd h (e1 :: r) f))
                     = txt (tgI imp) true true (mkd h (e1 :: r) f)).
        { unfold collapse. rewrite K. apply (collapse_pos imp k _ N). }
        rewrite EO.
        rewrite format_unfold, (parse_txt (tgI imp) true true h e1 r f).
        destruct (ndoc_decls (tgI imp) true true h e1 r f) as [Nd [Ns Nn]].
        assert (Pid : prep imp srt strip (entries (ndoc (tgI imp) true true h e1 r f)) = entries (ndoc (tgI imp) true true h e1 r f)).
        { apply (prep_id imp srt strip (entries P)); fold es; rewrite Ees; assumption. }
        rewrite Pid.
        replace (mkd (header (ndoc (tgI imp) true true h e1 r f)) (entries (ndoc (tgI imp) true true h e1 r f)) (footer (ndoc (tgI imp) true true h e1 r f)))
          with (ndoc (tgI imp) true true h e1 r f) by (destruct (ndoc (tgI imp) true true h e1 r f); reflexivity).
        rewrite (render_txt imp _ Nn). unfold collapse. rewrite K.
        rewrite (collapse_pos imp k _ Nn). apply txt_ndoc.
  Qed.
End Final.
