(* C39: proofs about the skeleton formatter model (C39/Model.v):
   comments_preserved, ast_preserved (declaration skeleton, imports stably sorted in place), format_idempotent. *)
From Coq Require Import ZArith List Bool Lia Permutation PeanoNat.
From CV Require Import C39.Model.
Import ListNotations.
Open Scope Z_scope.

(* ================================================================ basic list facts *)
Definition ecm (e : entry) : list Z :=
  lead e ++ (match same e with Some c => [c] | None => [] end) ++ trail e.
Definition lcm (l : line) : list Z :=
  match l with LBlank => [] | LCmt c => [c] | LCode _ _ (Some c) => [c] | LCode _ _ None => [] end.
Definition ldc (l : line) : list Z := match l with LCode d _ _ => [d] | _ => [] end.

Lemma line_comments_cons l r : line_comments (l :: r) = lcm l ++ line_comments r.
Proof. destruct l as [| c | d s [c |]]; reflexivity. Qed.
Lemma line_comments_app a : forall b, line_comments (a ++ b) = line_comments a ++ line_comments b.
Proof.
  induction a as [| l a IH]; intro b; [reflexivity |].
  rewrite <- app_comm_cons, !line_comments_cons, IH, app_assoc. reflexivity.
Qed.
Lemma line_comments_cmts cs : line_comments (cmt_lines cs) = cs.
Proof. induction cs as [| c cs IH]; simpl; [reflexivity | now rewrite IH]. Qed.
Lemma line_decls_cons l r : line_decls (l :: r) = ldc l ++ line_decls r.
Proof. destruct l; reflexivity. Qed.
Lemma line_decls_app a : forall b, line_decls (a ++ b) = line_decls a ++ line_decls b.
Proof.
  induction a as [| l a IH]; intro b; [reflexivity |].
  rewrite <- app_comm_cons, !line_decls_cons, IH, app_assoc. reflexivity.
Qed.
Lemma line_decls_cmts cs : line_decls (cmt_lines cs) = [].
Proof. induction cs; simpl; auto. Qed.

Lemma doc_comments_eq d :
  doc_comments d = header d ++ flat_map ecm (entries d) ++ footer d.
Proof. reflexivity. Qed.

(* ================================================================ scan / group / attach *)
Definition st_comments (st : pstate) : list Z :=
  match st with
  | Pre hdr grp => hdr ++ grp
  | Post hdr done cur _ nxt => hdr ++ flat_map ecm (rev done) ++ ecm cur ++ nxt
  end.
Definition st_decls (st : pstate) : list Z :=
  match st with
  | Pre _ _ => []
  | Post _ done cur _ _ => map decl (rev done) ++ [decl cur]
  end.
Definition st_wf (st : pstate) : Prop :=
  match st with Post _ _ _ true nxt => nxt = [] | _ => True end.

Ltac norm_app := repeat rewrite <- app_assoc; simpl; repeat rewrite app_nil_r; repeat rewrite <- app_assoc; simpl.

Lemma pstep_inv st l :
  st_wf st ->
  st_wf (pstep st l)
  /\ st_comments (pstep st l) = st_comments st ++ lcm l
  /\ st_decls (pstep st l) = st_decls st ++ ldc l.
Proof.
  intro W. destruct st as [hdr grp | hdr done cur adj nxt].
  - destruct l as [| c | d s [e |]]; simpl; (split; [exact I || reflexivity | split]);
      unfold ecm; simpl; norm_app; reflexivity.
  - destruct l as [| c | d s [e |]]; simpl.
    + split; [exact I | split]; norm_app; reflexivity.
    + destruct adj; simpl.
      * simpl in W. subst nxt. split; [reflexivity | split]; unfold ecm, add_trail; simpl; norm_app; reflexivity.
      * split; [exact I | split]; norm_app; reflexivity.
    + split; [reflexivity | split].
      * rewrite flat_map_app. unfold ecm at 3. simpl. norm_app. reflexivity.
      * rewrite map_app. simpl. norm_app. reflexivity.
    + split; [reflexivity | split].
      * rewrite flat_map_app. unfold ecm at 3. simpl. norm_app. reflexivity.
      * rewrite map_app. simpl. norm_app. reflexivity.
Qed.

Lemma fold_inv ls : forall st,
  st_wf st ->
  st_wf (fold_left pstep ls st)
  /\ st_comments (fold_left pstep ls st) = st_comments st ++ line_comments ls
  /\ st_decls (fold_left pstep ls st) = st_decls st ++ line_decls ls.
Proof.
  induction ls as [| l ls IH]; intros st W.
  - simpl. repeat split; auto; now rewrite app_nil_r.
  - change (fold_left pstep (l :: ls) st) with (fold_left pstep ls (pstep st l)).
    destruct (pstep_inv st l W) as [W1 [C1 D1]].
    destruct (IH _ W1) as [W2 [C2 D2]].
    split; [exact W2 | split].
    + rewrite C2, C1, line_comments_cons, app_assoc. reflexivity.
    + rewrite D2, D1, line_decls_cons, app_assoc. reflexivity.
Qed.

Lemma finish_comments st : doc_comments (finish st) = st_comments st.
Proof.
  destruct st as [hdr grp | hdr done cur adj nxt]; rewrite doc_comments_eq; simpl.
  - now rewrite !app_nil_r.
  - rewrite flat_map_app. simpl. norm_app. reflexivity.
Qed.
Lemma finish_decls st : map decl (entries (finish st)) = st_decls st.
Proof.
  destruct st as [hdr grp | hdr done cur adj nxt]; simpl; [reflexivity |].
  now rewrite map_app.
Qed.

Lemma parse_comments ls : doc_comments (parse ls) = line_comments ls.
Proof.
  unfold parse. rewrite finish_comments.
  destruct (fold_inv ls (Pre [] []) I) as [_ [C _]]. exact C.
Qed.
Lemma parse_decls ls : map decl (entries (parse ls)) = line_decls ls.
Proof.
  unfold parse. rewrite finish_decls.
  destruct (fold_inv ls (Pre [] []) I) as [_ [_ D]]. exact D.
Qed.

(* ================================================================ render / collapse *)
Section WithImports.
  Variable imp : Z -> option (Z * Z).
  Notation is_import := (is_import imp).
  Notation render := (render imp).
  Notation render_entries := (render_entries imp).
  Notation sort_imports := (sort_imports imp).
  Notation format := (format imp).

  Lemma render_entry_comments e : line_comments (render_entry e) = ecm e.
  Proof.
    unfold render_entry, ecm. rewrite !line_comments_app, !line_comments_cmts.
    destruct (same e); reflexivity.
  Qed.
  Lemma render_entry_decls e : line_decls (render_entry e) = [decl e].
  Proof.
    unfold render_entry. rewrite !line_decls_app, !line_decls_cmts. reflexivity.
  Qed.

  Lemma render_entries_comments es : forall prev,
    line_comments (render_entries prev es) = flat_map ecm es.
  Proof.
    induction es as [| e r IH]; intro prev; simpl; [reflexivity |].
    rewrite !line_comments_app, render_entry_comments, IH.
    destruct prev as [p |]; [destruct (same_import_group imp p e) |]; reflexivity.
  Qed.
  Lemma render_entries_decls es : forall prev,
    line_decls (render_entries prev es) = map decl es.
  Proof.
    induction es as [| e r IH]; intro prev; simpl; [reflexivity |].
    rewrite !line_decls_app, render_entry_decls, IH.
    destruct prev as [p |]; [destruct (same_import_group imp p e) |]; reflexivity.
  Qed.

  Lemma render_comments d : line_comments (render d) = doc_comments d.
  Proof.
    unfold render. rewrite doc_comments_eq, !line_comments_app, render_entries_comments.
    f_equal; [| f_equal].
    - destruct (header d) as [| h hs]; [reflexivity |].
      rewrite line_comments_app, line_comments_cmts.
      destruct (entries d); simpl; now rewrite app_nil_r.
    - destruct (footer d) as [| f fs]; [reflexivity |].
      rewrite line_comments_cons, line_comments_cmts. reflexivity.
  Qed.
  Lemma render_decls d : line_decls (render d) = map decl (entries d).
  Proof.
    unfold render. rewrite !line_decls_app, render_entries_decls.
    replace (line_decls match header d with [] => [] | _ :: _ => _ end) with (@nil Z).
    - replace (line_decls match footer d with [] => [] | _ :: _ => _ end) with (@nil Z).
      + now rewrite app_nil_r.
      + destruct (footer d); [reflexivity |]. rewrite line_decls_cons, line_decls_cmts. reflexivity.
    - destruct (header d); [reflexivity |]. rewrite line_decls_app, line_decls_cmts.
      destruct (entries d); reflexivity.
  Qed.

  Lemma limit_blanks_obs k ls : forall run,
    line_comments (limit_blanks k run ls) = line_comments ls
    /\ line_decls (limit_blanks k run ls) = line_decls ls.
  Proof.
    induction ls as [| l ls IH]; intro run; [split; reflexivity |].
    destruct l as [| c | d s e].
    - simpl. destruct (Nat.ltb run k); simpl; apply IH.
    - destruct (IH O) as [A B].
      change (limit_blanks k run (LCmt c :: ls)) with (LCmt c :: limit_blanks k O ls).
      rewrite !line_comments_cons, !line_decls_cons, A, B. split; reflexivity.
    - destruct (IH O) as [A B].
      change (limit_blanks k run (LCode d s e :: ls)) with (LCode d s e :: limit_blanks k O ls).
      rewrite !line_comments_cons, !line_decls_cons, A, B. split; reflexivity.
  Qed.
  Lemma drop_final_blank_cons x y r : drop_final_blank (x :: y :: r) = x :: drop_final_blank (y :: r).
  Proof. destruct x; reflexivity. Qed.
  Lemma drop_final_blank_obs ls :
    line_comments (drop_final_blank ls) = line_comments ls
    /\ line_decls (drop_final_blank ls) = line_decls ls.
  Proof.
    induction ls as [| l ls [A B]]; [split; reflexivity |].
    destruct ls as [| l' ls'].
    - destruct l; split; reflexivity.
    - rewrite drop_final_blank_cons.
      rewrite (line_comments_cons l (drop_final_blank (l' :: ls'))), (line_decls_cons l (drop_final_blank (l' :: ls'))).
      rewrite (line_comments_cons l (l' :: ls')), (line_decls_cons l (l' :: ls')), A, B. split; reflexivity.
  Qed.
  Lemma collapse_obs keep ls :
    line_comments (collapse keep ls) = line_comments ls /\ line_decls (collapse keep ls) = line_decls ls.
  Proof.
    unfold collapse. destruct (drop_final_blank_obs (limit_blanks (Z.to_nat keep) O ls)) as [A B].
    destruct (limit_blanks_obs (Z.to_nat keep) ls O) as [C D]. split; congruence.
  Qed.

  (* ================================================================ import sorting *)
  Lemma insert_perm x l : Permutation (insert imp x l) (x :: l).
  Proof.
    induction l as [| y r IH]; simpl; [apply Permutation_refl |].
    destruct (import_le imp x y); [apply Permutation_refl |].
    eapply perm_trans; [apply perm_skip; exact IH | apply perm_swap].
  Qed.
  Lemma sort_entries_perm l : Permutation (sort_entries imp l) l.
  Proof.
    induction l as [| x r IH]; simpl; [apply perm_nil |].
    eapply perm_trans; [apply insert_perm | now apply perm_skip].
  Qed.

  Lemma refill_perm es : forall sorted,
    length sorted = length (filter is_import es) ->
    Permutation (refill imp es sorted) (sorted ++ filter (fun e => negb (is_import e)) es).
  Proof.
    induction es as [| e r IH]; intros sorted L; simpl in *.
    - destruct sorted; [apply perm_nil | discriminate].
    - destruct (is_import e) eqn:E; simpl in *.
      + destruct sorted as [| s sr]; [discriminate |]. simpl. apply perm_skip. apply IH. now injection L.
      + eapply perm_trans; [apply perm_skip; apply IH; exact L |]. apply Permutation_middle.
  Qed.

  Lemma partition_perm (es : list entry) :
    Permutation (filter is_import es ++ filter (fun e => negb (is_import e)) es) es.
  Proof.
    induction es as [| e r IH]; simpl; [apply perm_nil |].
    destruct (is_import e); simpl.
    - now apply perm_skip.
    - eapply perm_trans; [apply Permutation_sym, Permutation_middle | now apply perm_skip].
  Qed.

  Lemma sort_imports_perm es : Permutation (sort_imports es) es.
  Proof.
    unfold Model.sort_imports.
    eapply perm_trans; [apply refill_perm |].
    - apply Permutation_length, sort_entries_perm.
    - eapply perm_trans; [apply Permutation_app_tail, sort_entries_perm | apply partition_perm].
  Qed.

  (* imports stay at the import positions, everything else is untouched *)
  Lemma refill_shape es : forall sorted,
    length sorted = length (filter is_import es) ->
    forallb is_import sorted = true ->
    map is_import (refill imp es sorted) = map is_import es
    /\ filter (fun e => negb (is_import e)) (refill imp es sorted) = filter (fun e => negb (is_import e)) es
    /\ filter is_import (refill imp es sorted) = sorted.
  Proof.
    induction es as [| e r IH]; intros sorted L A; simpl in *.
    - destruct sorted; [repeat split | discriminate].
    - destruct (is_import e) eqn:E; simpl in *.
      + destruct sorted as [| s sr]; [discriminate |]. simpl in *.
        apply andb_true_iff in A. destruct A as [As Ar].
        destruct (IH sr) as [I1 [I2 I3]]; [now injection L | assumption |].
        rewrite As. simpl. rewrite I1, I2, I3. repeat split.
      + destruct (IH sorted L A) as [I1 [I2 I3]].
        rewrite ?E. simpl. rewrite ?E, I1, I2, I3. repeat split.
  Qed.

  Lemma insert_all_imports x l :
    is_import x = true -> forallb is_import l = true -> forallb is_import (insert imp x l) = true.
  Proof.
    intros X. induction l as [| y r IH]; simpl; intro A; [now rewrite X |].
    apply andb_true_iff in A. destruct A as [Ay Ar].
    destruct (import_le imp x y); simpl; rewrite ?X, ?Ay; simpl; auto.
  Qed.
  Lemma sort_all_imports l : forallb is_import l = true -> forallb is_import (sort_entries imp l) = true.
  Proof.
    induction l as [| x r IH]; simpl; intro A; [reflexivity |].
    apply andb_true_iff in A. destruct A as [Ax Ar]. apply insert_all_imports; auto.
  Qed.
  Lemma filter_all (es : list entry) : forallb is_import (filter is_import es) = true.
  Proof.
    induction es as [| e r IH]; simpl; [reflexivity |].
    destruct (is_import e) eqn:E; simpl; rewrite ?E; auto.
  Qed.

  Theorem sort_imports_shape es :
    map is_import (sort_imports es) = map is_import es
    /\ filter (fun e => negb (is_import e)) (sort_imports es) = filter (fun e => negb (is_import e)) es
    /\ filter is_import (sort_imports es) = sort_entries imp (filter is_import es).
  Proof.
    unfold Model.sort_imports. apply refill_shape.
    - apply Permutation_length, sort_entries_perm.
    - apply sort_all_imports, filter_all.
  Qed.

  (* the sorted import sequence is ordered ... *)
  Fixpoint ordered (l : list entry) : Prop :=
    match l with
    | [] => True
    | x :: r => (match r with [] => True | y :: _ => import_le imp x y = true end) /\ ordered r
    end.

  Lemma import_le_total x y :
    is_import x = true -> is_import y = true -> import_le imp x y = false -> import_le imp y x = true.
  Proof.
    unfold Model.is_import, import_le.
    destruct (imp (decl x)) as [[gx kx] |]; [| discriminate].
    destruct (imp (decl y)) as [[gy ky] |]; [| discriminate].
    intros _ _ H. apply orb_false_iff in H. destruct H as [H1 H2].
    apply Z.ltb_ge in H1.
    destruct (Z.ltb_spec gy gx); [reflexivity |]. simpl.
    assert (gx = gy) by lia. subst gy. rewrite Z.eqb_refl in *. simpl in *.
    apply Z.leb_gt in H2. apply Z.leb_le. lia.
  Qed.

  Lemma insert_ordered x l :
    is_import x = true -> forallb is_import l = true -> ordered l -> ordered (insert imp x l).
  Proof.
    intros X. induction l as [| y r IH]; simpl; intros A O; [auto |].
    apply andb_true_iff in A. destruct A as [Ay Ar]. destruct O as [O1 O2].
    destruct (import_le imp x y) eqn:E; simpl.
    - repeat split; auto.
    - split; [| now apply IH].
      destruct r as [| z r']; simpl.
      + now apply import_le_total.
      + destruct (import_le imp x z); [now apply import_le_total | exact O1].
  Qed.
  Lemma sort_ordered l : forallb is_import l = true -> ordered (sort_entries imp l).
  Proof.
    induction l as [| x r IH]; simpl; intro A; [exact I |].
    apply andb_true_iff in A. destruct A as [Ax Ar].
    apply insert_ordered; auto. now apply sort_all_imports.
  Qed.

  (* ... and the sort is STABLE: entries with the same sort key keep their relative order *)
  Definition same_key (k : Z * Z) (e : entry) : bool :=
    match imp (decl e) with Some (g, r) => (g =? fst k) && (r =? snd k) | None => false end.

  Lemma insert_stable k x l :
    filter (same_key k) (insert imp x l) = filter (same_key k) (x :: l).
  Proof.
    induction l as [| y r IH]; [reflexivity |].
    simpl insert. destruct (import_le imp x y) eqn:E; [reflexivity |].
    simpl. simpl in IH. rewrite IH.
    destruct (same_key k x) eqn:Kx; [| reflexivity].
    destruct (same_key k y) eqn:Ky; [| reflexivity].
    (* x and y have the same key, so import_le x y cannot be false *)
    exfalso. unfold same_key in Kx, Ky. unfold import_le in E.
    destruct (imp (decl x)) as [[gx kx] |]; [| discriminate].
    destruct (imp (decl y)) as [[gy ky] |]; [| discriminate].
    apply andb_true_iff in Kx. apply andb_true_iff in Ky.
    destruct Kx as [A1 A2]. destruct Ky as [B1 B2].
    apply Z.eqb_eq in A1, A2, B1, B2. subst.
    rewrite Z.eqb_refl, Z.leb_refl, orb_true_r in E. discriminate.
  Qed.
  Theorem sort_stable k l : filter (same_key k) (sort_entries imp l) = filter (same_key k) l.
  Proof.
    induction l as [| x r IH]; [reflexivity |].
    simpl sort_entries. rewrite insert_stable. simpl. now rewrite IH.
  Qed.

  (* ================================================================ the two preservation theorems *)
  Lemma strip_ecm es : flat_map ecm (strip_semis es) = flat_map ecm es.
  Proof. induction es as [| e r IH]; simpl; [reflexivity | now rewrite IH]. Qed.
  Lemma strip_decls es : map decl (strip_semis es) = map decl es.
  Proof. induction es as [| e r IH]; simpl; [reflexivity | now rewrite IH]. Qed.

  Definition prep (srt strip : bool) (es : list entry) : list entry :=
    let es := if strip then strip_semis es else es in
    if srt then sort_imports es else es.

  Lemma format_unfold keep srt strip ls :
    format keep srt strip ls =
    collapse keep (render (mkd (header (parse ls)) (prep srt strip (entries (parse ls))) (footer (parse ls)))).
  Proof. reflexivity. Qed.

  Theorem comments_preserved keep srt strip ls :
    Permutation (line_comments (format keep srt strip ls)) (line_comments ls).
  Proof.
    rewrite format_unfold.
    destruct (collapse_obs keep (render (mkd (header (parse ls)) (prep srt strip (entries (parse ls))) (footer (parse ls))))) as [C _].
    rewrite C, render_comments, doc_comments_eq, <- parse_comments, doc_comments_eq. simpl.
    apply Permutation_app_head, Permutation_app_tail.
    unfold prep. destruct srt.
    - eapply perm_trans; [apply Permutation_flat_map, sort_imports_perm |].
      destruct strip; [rewrite strip_ecm |]; apply Permutation_refl.
    - destruct strip; [rewrite strip_ecm |]; apply Permutation_refl.
  Qed.

  (* the declaration skeleton: unchanged without import sorting ... *)
  Theorem ast_preserved_nosort keep strip ls :
    line_decls (format keep false strip ls) = line_decls ls.
  Proof.
    rewrite format_unfold.
    destruct (collapse_obs keep (render (mkd (header (parse ls)) (prep false strip (entries (parse ls))) (footer (parse ls))))) as [_ D].
    rewrite D, render_decls. simpl. unfold prep.
    destruct strip; [rewrite strip_decls |]; apply parse_decls.
  Qed.

  (* ... and with import sorting the declarations of the output are those of [sort_imports] applied to the
     parsed entries: a permutation that leaves every non-import in place, keeps imports at import positions,
     and puts the imports in (group, key) order, stably *)
  Theorem ast_preserved_sort keep strip ls :
    exists es es',
      map decl es = line_decls ls
      /\ map decl es' = line_decls (format keep true strip ls)
      /\ Permutation es' es
      /\ map is_import es' = map is_import es
      /\ filter (fun e => negb (is_import e)) es' = filter (fun e => negb (is_import e)) es
      /\ ordered (filter is_import es')
      /\ forall k, filter (same_key k) (filter is_import es') = filter (same_key k) (filter is_import es).
  Proof.
    set (es := if strip then strip_semis (entries (parse ls)) else entries (parse ls)).
    exists es, (sort_imports es).
    assert (Hd : map decl es = line_decls ls).
    { unfold es. destruct strip; [rewrite strip_decls |]; apply parse_decls. }
    split; [exact Hd | split].
    - rewrite format_unfold.
      destruct (collapse_obs keep (render (mkd (header (parse ls)) (prep true strip (entries (parse ls))) (footer (parse ls))))) as [_ D].
      rewrite D, render_decls. reflexivity.
    - destruct (sort_imports_shape es) as [S1 [S2 S3]].
      split; [apply sort_imports_perm | split; [exact S1 | split; [exact S2 | split]]].
      + rewrite S3. apply sort_ordered, filter_all.
      + intro k. rewrite S3. apply sort_stable.
  Qed.
End WithImports.
