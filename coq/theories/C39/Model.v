(* C39: skeleton model of the formatter pipeline  scan -> group -> attach -> sort imports -> render -> collapse
   for programs made of single-line top-level declarations, comment-only lines, end-of-line comments and blank
   lines.  Definitions only; proofs in C39/Proofs.v; the case-checking function in C39/Cases.v.

   Transcribed from formatter/trivia/{group,attach,render}.go, formatter/rewrite/imports.go, ast/program.go
   (Program.Doc, declSeparatorHardLineCount) and formatter/formatter.go (collapseBlankLines), restricted to this
   fragment:
   * a GROUP is a maximal run of comment-only lines (a blank line or code ends it); an end-of-line comment is a
     group of its own (trivia.commentsSeparated / hasCodeBefore);
   * attachLevel at the top level: before the first declaration every group is a HEADER group, except the last one
     when no blank line separates it from the declaration (then LEADING of that declaration); after a declaration the
     end-of-line comment is its SAME-LINE comment, the first group is TRAILING of the declaration iff it starts on
     the next line, every other group is LEADING of the next declaration; after the last declaration the groups not
     taken as trailing are the FOOTER; a program without declarations has only header groups;
   * imports are stably sorted by (group, key) in place of the import positions, carrying their comments;
   * render: header groups, one comment per line, then a blank line; declarations separated by a blank line, except
     two imports of the same group (next line); leading groups on their own lines before the declaration; `;` kept
     unless semicolons are stripped; the same-line comment after two spaces; trailing groups on the following lines;
     footer after a blank line; finally at most [keep] consecutive blank lines are kept (the renderer never emits
     two except after a header-only program, so keep >= 1 changes nothing else and keep = 0 removes them all). *)
From Coq Require Import ZArith List Bool.
Import ListNotations.
Open Scope Z_scope.

Inductive line : Type :=
| LBlank
| LCmt (c : Z)                                  (* a comment-only line *)
| LCode (d : Z) (semi : bool) (eol : option Z). (* declaration d [;] [end-of-line comment] *)

(* a declaration with the comments attached to it *)
Record entry := mke { lead : list Z; decl : Z; semi : bool; same : option Z; trail : list Z }.
Record doc := mkd { header : list Z; entries : list entry; footer : list Z }.

(* ---------------------------------------------------------------- scan + group + attach *)
(* state before the first declaration: header groups closed so far, the group being read *)
(* state after a declaration: finished entries (reversed), the current entry, whether comments still go to its
   trailing slot (no blank line seen, still the first group), comments collected for the next declaration *)
Inductive pstate : Type :=
| Pre (hdr grp : list Z)
| Post (hdr : list Z) (done : list entry) (cur : entry) (adj : bool) (nxt : list Z).

Definition add_trail (e : entry) (c : Z) : entry :=
  mke (lead e) (decl e) (semi e) (same e) (trail e ++ [c]).

Definition pstep (st : pstate) (l : line) : pstate :=
  match st with
  | Pre hdr grp =>
      match l with
      | LBlank => Pre (hdr ++ grp) []
      | LCmt c => Pre hdr (grp ++ [c])
      | LCode d s e => Post hdr [] (mke grp d s e []) true []
      end
  | Post hdr done cur adj nxt =>
      match l with
      | LBlank => Post hdr done cur false nxt
      | LCmt c => if adj then Post hdr done (add_trail cur c) true nxt
                  else Post hdr done cur false (nxt ++ [c])
      | LCode d s e => Post hdr (cur :: done) (mke nxt d s e []) true []
      end
  end.

Definition finish (st : pstate) : doc :=
  match st with
  | Pre hdr grp => mkd (hdr ++ grp) [] []
  | Post hdr done cur _ nxt => mkd hdr (rev (cur :: done)) nxt
  end.

Definition parse (ls : list line) : doc := finish (fold_left pstep ls (Pre [] [])).

(* ---------------------------------------------------------------- import sorting *)
Section Imports.
  (* import classification of a declaration id: None = not an import; Some (group, key) *)
  Variable imp : Z -> option (Z * Z).

  Definition is_import (e : entry) : bool := match imp (decl e) with Some _ => true | None => false end.
  Definition import_le (a b : entry) : bool :=
    match imp (decl a), imp (decl b) with
    | Some (ga, ka), Some (gb, kb) => (ga <? gb) || ((ga =? gb) && (ka <=? kb))
    | _, _ => true
    end.
  (* stable insertion sort *)
  Fixpoint insert (x : entry) (l : list entry) : list entry :=
    match l with
    | [] => [x]
    | y :: r => if import_le x y then x :: l else y :: insert x r
    end.
  Definition sort_entries (l : list entry) : list entry := fold_right insert [] l.
  (* put the sorted imports back at the positions of the imports *)
  Fixpoint refill (es sorted : list entry) : list entry :=
    match es with
    | [] => []
    | e :: r =>
        if is_import e then
          match sorted with
          | s :: sr => s :: refill r sr
          | [] => e :: refill r []
          end
        else e :: refill r sorted
    end.
  Definition sort_imports (es : list entry) : list entry :=
    refill es (sort_entries (filter is_import es)).

  Definition same_import_group (a b : entry) : bool :=
    match imp (decl a), imp (decl b) with
    | Some (ga, _), Some (gb, _) => ga =? gb
    | _, _ => false
    end.

  (* ---------------------------------------------------------------- render *)
  Definition cmt_lines (cs : list Z) : list line := map LCmt cs.
  Definition render_entry (e : entry) : list line :=
    cmt_lines (lead e) ++ [LCode (decl e) (semi e) (same e)] ++ cmt_lines (trail e).
  Fixpoint render_entries (prev : option entry) (es : list entry) : list line :=
    match es with
    | [] => []
    | e :: r =>
        (match prev with
         | None => []
         | Some p => if same_import_group p e then [] else [LBlank]
         end) ++ render_entry e ++ render_entries (Some e) r
    end.
  Definition render (d : doc) : list line :=
    (match header d with
     | [] => []
     | h => cmt_lines h ++ (match entries d with [] => [LBlank; LBlank] | _ => [LBlank] end)
     end)
    ++ render_entries None (entries d)
    ++ (match footer d with [] => [] | f => LBlank :: cmt_lines f end).

  Definition is_blank (l : line) : bool := match l with LBlank => true | _ => false end.
  (* collapseBlankLines: at most [keep] consecutive blank lines survive *)
  Fixpoint limit_blanks (keep : nat) (run : nat) (ls : list line) : list line :=
    match ls with
    | [] => []
    | LBlank :: r => if Nat.ltb run keep then LBlank :: limit_blanks keep (S run) r
                     else limit_blanks keep (S run) r
    | l :: r => l :: limit_blanks keep O r
    end.
  (* the text ends with exactly one newline: a final empty piece is not a line *)
  Fixpoint drop_final_blank (ls : list line) : list line :=
    match ls with
    | [] => []
    | [LBlank] => []
    | l :: r => l :: drop_final_blank r
    end.
  Definition collapse (keep : Z) (ls : list line) : list line :=
    drop_final_blank (limit_blanks (Z.to_nat keep) O ls).

  Definition strip_semis (es : list entry) : list entry :=
    map (fun e => mke (lead e) (decl e) false (same e) (trail e)) es.

  (* the pipeline: keep = KeepBlankLines, srt = SortImports, strip = StripSemicolons *)
  Definition format (keep : Z) (srt strip : bool) (ls : list line) : list line :=
    let d := parse ls in
    let es := if strip then strip_semis (entries d) else entries d in
    let es := if srt then sort_imports es else es in
    collapse keep (render (mkd (header d) es (footer d))).
End Imports.

(* ---------------------------------------------------------------- observables *)
Fixpoint line_comments (ls : list line) : list Z :=
  match ls with
  | [] => []
  | LBlank :: r => line_comments r
  | LCmt c :: r => c :: line_comments r
  | LCode _ _ (Some c) :: r => c :: line_comments r
  | LCode _ _ None :: r => line_comments r
  end.
Fixpoint line_decls (ls : list line) : list Z :=
  match ls with
  | [] => []
  | LCode d _ _ :: r => d :: line_decls r
  | _ :: r => line_decls r
  end.
Definition doc_comments (d : doc) : list Z :=
  header d ++ flat_map (fun e => lead e ++ (match same e with Some c => [c] | None => [] end) ++ trail e) (entries d)
  ++ footer d.
