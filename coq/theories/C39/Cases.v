(* C39: case-checking function for the skeleton correspondence run. *)
From Coq Require Import ZArith List Bool.
From CV Require Import Base.Prelude C39.Model.
Import ListNotations.
Open Scope Z_scope.

(* the declaration table of harness/c39 (skeletonDecls): ids 0..4 ordinary declarations, 5..12 imports with
   (group, rank of the sort key inside the group); 12 is a second `import B from 0x02` *)
Definition sk_imp (d : Z) : option (Z * Z) :=
  match d with
  | 5 => Some (0, 1)   (* import Crypto *)
  | 6 => Some (0, 0)   (* import Alpha *)
  | 7 => Some (1, 2)   (* import B from 0x02 *)
  | 8 => Some (1, 1)   (* import A from 0x02 *)
  | 9 => Some (1, 0)   (* import C from 0x01 *)
  | 10 => Some (2, 1)  (* import Z from "z.cdc" *)
  | 11 => Some (2, 0)  (* import Y from "a.cdc" *)
  | 12 => Some (1, 2)  (* import B from 0x02 (duplicate) *)
  | _ => None
  end.

(* declarations with the same text cannot be told apart in the formatter's output *)
Definition text_class (d : Z) : Z := if d =? 12 then 7 else d.

Definition opt_eqb (a b : option Z) : bool :=
  match a, b with
  | Some x, Some y => x =? y
  | None, None => true
  | _, _ => false
  end.
Definition line_eqb (a b : line) : bool :=
  match a, b with
  | LBlank, LBlank => true
  | LCmt x, LCmt y => x =? y
  | LCode d s e, LCode d' s' e' => (text_class d =? text_class d') && Bool.eqb s s' && opt_eqb e e'
  | _, _ => false
  end.
Fixpoint lines_eqb (a b : list line) : bool :=
  match a, b with
  | [], [] => true
  | x :: r, y :: r' => line_eqb x y && lines_eqb r r'
  | _, _ => false
  end.

Record sk_case := mk_case {
  c_in : list line; c_keep : Z; c_sort : bool; c_strip : bool;
  c_readable : bool;            (* the harness could read the formatter's output back as skeleton lines *)
  c_out : list line }.          (* observed output of the real formatter *)

Definition check_case (c : sk_case) : bool :=
  c_readable c && lines_eqb (format sk_imp (c_keep c) (c_sort c) (c_strip c) (c_in c)) (c_out c).
