(* C16: what the specification means (independent of the code-shaped model). *)
From CV Require Import C16.Model C16.ProofsBase Num.WordProofs Num.IntProofs.
From Coq Require Import ZifyBool.

Definition n_is_word (t : nkind) : bool := match t with NI (KWord _) => true | _ => false end.

Lemma nfit_ok t r z : nfit t r = Ok z -> z = r /\ n_in_range t z.
Proof.
  unfold nfit, n_in_range. destruct (nmin t), (nmax t); brk; intro E; inversion E; subst; repeat split; lia.
Qed.

Lemma nfit_err t r e : nfit t r = Err e ->
  (e = Overflow /\ exists M, nmax t = Some M /\ r > M) \/
  (e = Underflow /\ exists m, nmin t = Some m /\ r < m).
Proof.
  unfold nfit. destruct (nmin t) as [m|], (nmax t) as [M|]; brk; intro E; inversion E; subst;
    try (left; split; [reflexivity|eexists; split; [reflexivity|lia]]);
    try (right; split; [reflexivity|eexists; split; [reflexivity|lia]]).
Qed.

(* a successful conversion returns a value of the target kind which is the rounded number
   (reduced modulo 2^n for Word targets) *)
Theorem spec_conv_sound s t m x z :
  wf_nkind t -> spec_conv_round s t m x = Ok z ->
  n_in_range t z /\
  (if n_is_word t then exists n, t = NI (KWord n) /\ z = round_div m (x * scale t) (scale s) mod 2 ^ n
   else z = round_div m (x * scale t) (scale s)).
Proof.
  intros Hwf. unfold spec_conv_round, target_fit.
  destruct t as [[n|n|n| |]| | | |]; simpl n_is_word; intro E;
    try (apply nfit_ok in E; destruct E as [-> R]; split; [exact R|reflexivity]).
  simpl scale in *. inversion E; subst. simpl in Hwf.
  set (r := round_div m (x * 1) (scale s)).
  pose proof (Z.mod_pos_bound r (2 ^ n) (pow2_pos n ltac:(lia))).
  split; [split; cbn [nmin nmax kmin kmax]; lia|]. exists n. split; reflexivity.
Qed.

(* a failed conversion: the target is not a Word kind and the rounded number is out of its range,
   Overflow above the maximum, Underflow below the minimum *)
Theorem spec_conv_errors s t m x e :
  spec_conv_round s t m x = Err e ->
  n_is_word t = false /\
  ((e = Overflow /\ exists M, nmax t = Some M /\ round_div m (x * scale t) (scale s) > M) \/
   (e = Underflow /\ exists mn, nmin t = Some mn /\ round_div m (x * scale t) (scale s) < mn)).
Proof.
  unfold spec_conv_round, target_fit.
  destruct t as [[n|n|n| |]| | | |]; simpl n_is_word; intro E; try discriminate;
    (split; [reflexivity|apply nfit_err in E; exact E]).
Qed.

(* a value that the target kind represents exactly is returned unchanged, whatever the rule *)
Theorem spec_conv_exact s t m x y :
  n_is_word t = false -> 0 < scale s -> x * scale t = y * scale s -> n_in_range t y ->
  spec_conv_round s t m x = Ok y.
Proof.
  intros Hw Hs E Hr. unfold spec_conv_round.
  assert (R: round_div m (x * scale t) (scale s) = y).
  { rewrite E. unfold round_div. rewrite Z.quot_mul, Z.rem_mul by lia. simpl Z.abs.
    destruct m; rewrite ?Z.geb_leb; brk; try lia; reflexivity. }
  rewrite R. unfold target_fit.
  assert (F: nfit t y = Ok y).
  { unfold nfit. destruct Hr as [H0 H1]. destruct (nmin t), (nmax t); brk; try lia; reflexivity. }
  destruct t as [[n|n|n| |]| | | |]; try exact F. discriminate.
Qed.
