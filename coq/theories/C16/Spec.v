(* C16: specification of numeric conversions (what the property demands).
   27 numeric kinds: the 20 integer kinds of IntSpec.ikind and the four fixed-point kinds.
   A value of a kind is carried as an integer: the integer itself, or the scaled integer
   (value * 10^8 for Fix64/UFix64, value * 10^24 for Fix128/UFix128). *)
From CV Require Export Num.IntSpec.

Inductive nkind : Type :=
| NI (k : ikind)
| NFix64 | NUFix64 | NFix128 | NUFix128.

Definition e8 : Z := 100000000.
Definition e16 : Z := 10000000000000000.
Definition e24 : Z := 1000000000000000000000000.

Definition scale (k : nkind) : Z :=
  match k with NI _ => 1 | NFix64 | NUFix64 => e8 | NFix128 | NUFix128 => e24 end.

Definition nmin (k : nkind) : option Z :=
  match k with
  | NI k => kmin k
  | NFix64 => Some (- 2 ^ 63) | NFix128 => Some (- 2 ^ 127)
  | NUFix64 | NUFix128 => Some 0
  end.
Definition nmax (k : nkind) : option Z :=
  match k with
  | NI k => kmax k
  | NFix64 => Some (2 ^ 63 - 1) | NFix128 => Some (2 ^ 127 - 1)
  | NUFix64 => Some (2 ^ 64 - 1) | NUFix128 => Some (2 ^ 128 - 1)
  end.

Definition n_in_range (k : nkind) (z : Z) : Prop :=
  (match nmin k with Some m => m <= z | None => True end) /\
  (match nmax k with Some m => z <= m | None => True end).

(* exact-or-fail at the carried-integer level *)
Definition nfit (k : nkind) (z : Z) : res Z :=
  match nmin k with
  | Some m => if z <? m then Err Underflow else
      match nmax k with Some M => if z >? M then Err Overflow else Ok z | None => Ok z end
  | None => match nmax k with Some M => if z >? M then Err Overflow else Ok z | None => Ok z end
  end.

(* rounding rules (sema.RoundingRule / fix.RoundingMode, same order) *)
Inductive rmode : Type := RTowardZero | RAwayFromZero | RNearestHalfAway | RNearestHalfEven.

(* the rational n/d (d > 0) rounded to an integer by the rule *)
Definition round_div (m : rmode) (n d : Z) : Z :=
  let q := Z.quot n d in            (* truncation toward zero *)
  let r := Z.abs (Z.rem n d) in     (* |n - q*d| < d *)
  let away := q + Z.sgn n in
  match m with
  | RTowardZero => q
  | RAwayFromZero => if r =? 0 then q else away
  | RNearestHalfAway => if 2 * r >=? d then away else q
  | RNearestHalfEven =>
      if 2 * r >? d then away else if 2 * r =? d then (if Z.even q then q else away) else q
  end.

(* the result of a conversion to kind t, given the (rounded) carried integer r of the result:
   Word kinds reduce modulo 2^n, every other kind is exact-or-fail *)
Definition target_fit (t : nkind) (r : Z) : res Z :=
  match t with
  | NI (KWord n) => Ok (r mod 2 ^ n)
  | _ => nfit t r
  end.

(* Converting x (carried integer of kind s, i.e. the number x / scale s) to kind t:
   the number, expressed at the scale of t, rounded by the rule; then fitted into t.
   For an integer target this is the integer part; for a fixed-point target the value with the
   excess fractional digits rounded. *)
Definition spec_conv_round (s t : nkind) (m : rmode) (x : Z) : res Z :=
  target_fit t (round_div m (x * scale t) (scale s)).

(* without a rounding rule: truncation toward zero *)
Definition spec_conv (s t : nkind) (x : Z) : res Z := spec_conv_round s t RTowardZero x.
