(* C16 proofs, part 4: conversions with a rounding rule (Fix64 / UFix64 targets), through the
   transcribed functions of github.com/onflow/fixed-point. *)
From CV Require Import C16.Model C16.ProofsBase C16.ProofsInt C16.ProofsFix Num.WordProofs Num.IntProofs.
From Coq Require Import ZifyBool.
Ltac Zify.zify_post_hook ::= Z.to_euclidean_division_equations.

Ltac brk ::=
  rewrite ?Z.geb_leb;
  repeat match goal with
  | |- context [?a >? ?b] => destruct (Z.gtb_spec a b)
  | |- context [?a <? ?b] => destruct (Z.ltb_spec a b)
  | |- context [?a =? ?b] => destruct (Z.eqb_spec a b)
  | |- context [?a <=? ?b] => destruct (Z.leb_spec a b)
  end; cbn [andb negb orb].

(* ---- facts about the specification's rounding function ---- *)
Lemma round_div_scale m x : round_div m (x * e8) e24 = round_div m x e16.
Proof.
  unfold round_div.
  assert (E: e24 = e16 * e8) by reflexivity.
  assert (Q: Z.quot (x * e8) e24 = Z.quot x e16).
  { rewrite E. apply Z.quot_mul_cancel_r; discriminate. }
  assert (R: Z.abs (Z.rem (x * e8) e24) = Z.abs (Z.rem x e16) * e8).
  { rewrite E. rewrite Z.mul_rem_distr_r by discriminate. rewrite Z.abs_mul. reflexivity. }
  assert (S: Z.sgn (x * e8) = Z.sgn x).
  { rewrite Z.sgn_mul. change (Z.sgn e8) with 1. lia. }
  clear E.
  rewrite Q, R, S. clear Q R S.
  generalize (Z.abs (Z.rem x e16)) as r. generalize (Z.quot x e16) as q. generalize (Z.sgn x) as sg.
  intros sg q r. unfold e8, e16, e24.
  destruct m; brk; try lia; try reflexivity.
Qed.

Lemma round_div_opp m n d : 0 < d -> round_div m (- n) d = - round_div m n d.
Proof.
  intro Hd. unfold round_div.
  rewrite Z.quot_opp_l, Z.rem_opp_l, Z.abs_opp, Z.sgn_opp by lia.
  rewrite Z.even_opp.
  destruct m; brk; try lia; destruct (Z.even (n ÷ d)); lia.
Qed.

(* exact division: every rule gives the quotient *)
Lemma round_div_exact m n d : 0 < d -> Z.rem n d = 0 -> round_div m n d = Z.quot n d.
Proof.
  intros Hd H. unfold round_div. rewrite H. simpl Z.abs.
  destruct m; brk; try lia; reflexivity.
Qed.

(* non-negative numerator: quotient plus the library's round-up decision *)
Lemma round_div_nonneg m a :
  0 <= a ->
  round_div m a e16 = a / e16 + (if ushould_round64 (a / e16) (a mod e16) e16 m then 1 else 0).
Proof.
  intro Ha. unfold round_div, ushould_round64.
  assert (Q: Z.quot a e16 = a / e16) by (unfold e16; lia).
  assert (R: Z.abs (Z.rem a e16) = a mod e16) by (unfold e16; lia).
  rewrite Q, R.
  assert (B: 0 <= a mod e16 < e16) by (unfold e16; lia).
  assert (S: a mod e16 <> 0 -> Z.sgn a = 1) by (unfold e16; lia).
  assert (W: wrap_u 64 (a mod e16 * 2) = 2 * (a mod e16)).
  { rewrite wrap_u_id by (rewrite p64; unfold e16 in *; lia). lia. }
  destruct m.
  - lia.
  - destruct (Z.eqb_spec (a mod e16) 0); cbn [negb]; lia.
  - rewrite W. unfold max_int64. unfold e16 in *. brk; try lia.
  - rewrite W. unfold max_int64. rewrite <- Z.negb_even. unfold e16 in *.
    brk; try lia; destruct (Z.even (a / 10000000000000000)); cbn [negb]; lia.
Qed.

Lemma round_div_nonneg_ge m a : 0 <= a -> a / e16 <= round_div m a e16 <= a / e16 + 1.
Proof.
  intro Ha. rewrite round_div_nonneg by assumption.
  destruct (ushould_round64 _ _ _ _); lia.
Qed.

Lemma round_div_0 m : round_div m 0 e16 = 0.
Proof. destruct m; reflexivity. Qed.

(* ---- the library conversion UFix128 -> UFix64, summarised ---- *)
Lemma lib_ufix128_to_ufix64_spec a m :
  0 <= a < 2 ^ 128 ->
  lib_ufix128_to_ufix64 a m =
    let R := round_div m a e16 in
    if a =? 0 then LOk 0
    else if R >? max_uint64 then LErr LPosOverflow
    else if R =? 0 then LErr LUnderflow
    else LOk R.
Proof.
  intros Ha. rewrite p128 in Ha. cbv zeta.
  pose proof (round_div_nonneg_ge m a ltac:(lia)) as G.
  rewrite round_div_nonneg in * by lia.
  unfold lib_ufix128_to_ufix64.
  destruct (Z.eqb_spec a 0) as [Hz|Hz]; [reflexivity|].
  unfold two64, max_uint64, e16 in *.
  destruct (Z.ltb_spec (a / 18446744073709551616) 10000000000000000); cbn [negb].
  - destruct (ushould_round64 (a / 10000000000000000) (a mod 10000000000000000) 10000000000000000 m).
    + brk; try lia; try reflexivity. f_equal. lia.
    + rewrite Z.add_0_r in *. brk; try lia; reflexivity.
  - brk; try lia; reflexivity.
Qed.

(* inputs on which the rounding conversions depart from the property: a non-zero Fix128/UFix128 value
   that the rule rounds to zero is reported as an underflow error instead of 0.0 *)
Definition round_zero_defect (m : rmode) (x : Z) : Prop :=
  x <> 0 /\ round_div m x e16 = 0.

Definition conv_round_defect (s t : nkind) (m : rmode) (x : Z) : Prop :=
  match s, t with
  | (NFix128 | NUFix128), (NFix64 | NUFix64) => round_zero_defect m x
  | _, _ => conv_defect s t x
  end.

Lemma spec_round_64 s t m x :
  (s = NFix128 \/ s = NUFix128) -> (t = NFix64 \/ t = NUFix64) ->
  spec_conv_round s t m x = nfit t (round_div m x e16).
Proof.
  intros [->| ->] [->| ->]; unfold spec_conv_round, target_fit; simpl scale; rewrite round_div_scale; reflexivity.
Qed.

Theorem conv_round_from_ufix128 t m x :
  (t = NFix64 \/ t = NUFix64) -> n_in_range NUFix128 x -> ~ round_zero_defect m x ->
  conv_model_round NUFix128 t m x = spec_conv_round NUFix128 t m x.
Proof.
  intros Ht Hr Hd. rewrite spec_round_64 by auto.
  apply (proj1 (nin_ufix128 _)) in Hr.
  pose proof (round_div_nonneg_ge m x ltac:(lia)) as G.
  assert (Hx: 0 <= x < 2 ^ 128) by (rewrite p128; lia).
  unfold round_zero_defect in Hd.
  destruct Ht as [->| ->]; unfold conv_model_round, conv_fix64_round, conv_ufix64_round;
    rewrite lib_ufix128_to_ufix64_spec by assumption; cbv zeta;
    set (R := round_div m x e16) in *; rewrite ?nfit_fix64, ?nfit_ufix64;
    unfold max_uint64, max_int64, e16 in *.
  - destruct (Z.eqb_spec x 0) as [Hz|Hz].
    + subst x. subst R. rewrite round_div_0. reflexivity.
    + brk; simpl; brk; try lia; try reflexivity. rewrite wrap_s64_id by lia. reflexivity.
  - destruct (Z.eqb_spec x 0) as [Hz|Hz].
    + subst x. subst R. rewrite round_div_0. reflexivity.
    + brk; simpl; brk; try lia; reflexivity.
Qed.

Theorem conv_round_from_fix128 t m x :
  (t = NFix64 \/ t = NUFix64) -> n_in_range NFix128 x -> ~ round_zero_defect m x ->
  conv_model_round NFix128 t m x = spec_conv_round NFix128 t m x.
Proof.
  intros Ht Hr Hd. rewrite spec_round_64 by auto.
  apply (proj1 (nin_fix128 _)) in Hr.
  unfold round_zero_defect in Hd.
  destruct (Z.ltb_spec x 0) as [Hneg|Hpos].
  - (* negative: the library works on |x| and re-applies the sign *)
    assert (Hx: 0 <= - x < 2 ^ 128) by (rewrite p128; lia).
    pose proof (round_div_nonneg_ge m (- x) ltac:(lia)) as G.
    pose proof (round_div_opp m x e16 ltac:(unfold e16; lia)) as O.
    destruct Ht as [->| ->]; unfold conv_model_round, conv_fix64_round, conv_ufix64_round.
    + unfold lib_fix128_to_fix64.
      destruct (Z.ltb_spec x 0); [|lia].
      rewrite (mod_small' (- x)) by assumption.
      rewrite lib_ufix128_to_ufix64_spec by assumption. cbv zeta.
      set (R := round_div m x e16) in *. set (R' := round_div m (- x) e16) in *.
      rewrite nfit_fix64. unfold lib_apply_sign64, max_uint64, max_int64, min_int64, e16 in *.
      destruct (Z.eqb_spec (- x) 0); [lia|].
      brk; simpl; brk; try lia; try reflexivity; try (f_equal; lia);
        try (rewrite wrap_s64_id by lia; f_equal; lia).
    + destruct (Z.ltb_spec x 0); [|lia].
      set (R := round_div m x e16) in *. set (R' := round_div m (- x) e16) in *.
      rewrite nfit_ufix64. unfold e16 in *.
      brk; try lia; try reflexivity.
  - assert (Hx: 0 <= x < 2 ^ 128) by (rewrite p128; lia).
    pose proof (round_div_nonneg_ge m x ltac:(lia)) as G.
    destruct Ht as [->| ->]; unfold conv_model_round, conv_fix64_round, conv_ufix64_round.
    + unfold lib_fix128_to_fix64.
      destruct (Z.ltb_spec x 0); [lia|].
      rewrite lib_ufix128_to_ufix64_spec by assumption. cbv zeta.
      set (R := round_div m x e16) in *.
      rewrite nfit_fix64. unfold lib_apply_sign64, max_uint64, max_int64, min_int64, e16 in *.
      destruct (Z.eqb_spec x 0) as [Hz|Hz].
      * subst x. subst R. rewrite round_div_0. reflexivity.
      * brk; simpl; brk; try lia; reflexivity.
    + destruct (Z.ltb_spec x 0); [lia|].
      rewrite lib_ufix128_to_ufix64_spec by assumption. cbv zeta.
      set (R := round_div m x e16) in *.
      rewrite nfit_ufix64. unfold max_uint64, e16 in *.
      destruct (Z.eqb_spec x 0) as [Hz|Hz].
      * subst x. subst R. rewrite round_div_0. reflexivity.
      * brk; simpl; brk; try lia; reflexivity.
Qed.

(* the other source kinds: the rounding converters delegate to the plain ones, and the scaling is
   exact, so every rule gives the same result *)
Lemma spec_round_exact s t m x :
  (t = NFix64 \/ t = NUFix64) -> (s <> NFix128 /\ s <> NUFix128) ->
  spec_conv_round s t m x = spec_conv s t x.
Proof.
  intros Ht [H1 H2]. unfold spec_conv, spec_conv_round. f_equal.
  assert (E: Z.rem (x * scale t) (scale s) = 0).
  { destruct Ht as [->| ->]; destruct s; try congruence; simpl scale; unfold e8; lia. }
  rewrite !round_div_exact; try assumption; try reflexivity;
    destruct s; simpl; unfold e8, e24; lia.
Qed.

Theorem conv_model_round_correct s t m x :
  wf_nkind s -> (t = NFix64 \/ t = NUFix64) -> n_in_range s x -> ~ conv_round_defect s t m x ->
  conv_model_round s t m x = spec_conv_round s t m x.
Proof.
  intros Hs Ht Hr Hd.
  destruct s as [k| | | |].
  - rewrite spec_round_exact by (auto; split; congruence).
    destruct Ht as [->| ->]; simpl in Hd; unfold conv_model_round, conv_fix64_round, conv_ufix64_round.
    + apply conv_fix64_correct; assumption.
    + apply conv_ufix64_correct; assumption.
  - rewrite spec_round_exact by (auto; split; congruence).
    destruct Ht as [->| ->]; simpl in Hd; unfold conv_model_round, conv_fix64_round, conv_ufix64_round.
    + apply conv_fix64_correct; assumption.
    + apply conv_ufix64_correct; assumption.
  - rewrite spec_round_exact by (auto; split; congruence).
    destruct Ht as [->| ->]; simpl in Hd; unfold conv_model_round, conv_fix64_round, conv_ufix64_round.
    + apply conv_fix64_correct; assumption.
    + apply conv_ufix64_correct; assumption.
  - apply conv_round_from_fix128; try assumption. destruct Ht as [->| ->]; exact Hd.
  - apply conv_round_from_ufix128; try assumption. destruct Ht as [->| ->]; exact Hd.
Qed.

(* ---- meaning of the rounding function (sanity of the specification) ---- *)
Theorem round_div_error_bound m n d :
  0 < d -> Z.abs (round_div m n d * d - n) < d.
Proof.
  intro Hd. unfold round_div.
  pose proof (Z.quot_rem' n d). pose proof (Z.rem_bound_abs n d ltac:(lia)).
  assert (Z.rem n d <> 0 -> Z.sgn n = Z.sgn (Z.rem n d)).
  { intro. pose proof (Z.rem_sign_nz n d ltac:(lia) ltac:(lia)). lia. }
  destruct m; brk; try nia; destruct (Z.even (n ÷ d)); nia.
Qed.

Theorem round_div_nearest m n d :
  0 < d -> (m = RNearestHalfAway \/ m = RNearestHalfEven) ->
  2 * Z.abs (round_div m n d * d - n) <= d.
Proof.
  intros Hd Hm. unfold round_div.
  pose proof (Z.quot_rem' n d). pose proof (Z.rem_bound_abs n d ltac:(lia)).
  assert (Z.rem n d <> 0 -> Z.sgn n = Z.sgn (Z.rem n d)).
  { intro. pose proof (Z.rem_sign_nz n d ltac:(lia) ltac:(lia)). lia. }
  destruct Hm as [->| ->]; brk; try nia; destruct (Z.even (n ÷ d)); nia.
Qed.

Theorem round_div_toward_zero n d : 0 < d -> round_div RTowardZero n d = Z.quot n d.
Proof. reflexivity. Qed.
