(* C16: witnesses of the inputs on which the faithful model (= the code of the pinned tree)
   departs from the specification. *)
From CV Require Import C16.Model C16.ProofsBase C16.ProofsFix C16.ProofsRound.

Definition C16_statement : Prop :=
  forall s t x, wf_nkind s -> wf_nkind t -> n_in_range s x ->
  conv_model s t x = spec_conv s t x.

Definition C16_statement_round : Prop :=
  forall s t m x, wf_nkind s -> (t = NFix64 \/ t = NUFix64) -> n_in_range s x ->
  conv_model_round s t m x = spec_conv_round s t m x.

Local Ltac wit s t x :=
  exists s, t, x; repeat split; try (simpl; lia); try (vm_compute; congruence); try discriminate.

(* UFix64(-0.000000000000000000000001 as Fix128) underflows, required 0.0 *)
Lemma fix128_to_ufix64_refuted :
  conv_model NFix128 NUFix64 (-1) = Err Underflow /\ spec_conv NFix128 NUFix64 (-1) = Ok 0.
Proof. vm_compute. split; reflexivity. Qed.

(* Fix64(-92233720368.547758080000000000000001 as Fix128) underflows, required Fix64.min *)
Lemma range_before_trunc_low_refuted :
  conv_model NFix128 NFix64 (-9223372036854775808 * e16 - 1) = Err Underflow /\
  spec_conv NFix128 NFix64 (-9223372036854775808 * e16 - 1) = Ok (-9223372036854775808).
Proof. vm_compute. split; reflexivity. Qed.

(* Fix64(92233720368.547758070000000000000001 as UFix128) overflows, required Fix64.max *)
Lemma range_before_trunc_refuted :
  conv_model NUFix128 NFix64 (9223372036854775807 * e16 + 1) = Err Overflow /\
  spec_conv NUFix128 NFix64 (9223372036854775807 * e16 + 1) = Ok 9223372036854775807.
Proof. vm_compute. split; reflexivity. Qed.

(* Fix64(-2^100 as Int128) reports Overflow, required Underflow *)
Lemma bigint_to_fix64_error_kind_refuted :
  conv_model (NI (KSigned 128)) NFix64 (- 2 ^ 100) = Err Overflow /\
  spec_conv (NI (KSigned 128)) NFix64 (- 2 ^ 100) = Err Underflow.
Proof. vm_compute. split; reflexivity. Qed.

(* Fix64(0.000000000000000000000001 as Fix128, rounding: towardZero) underflows, required 0.0;
   UFix64(0.000000004 as UFix128, rounding: nearestHalfEven) underflows, required 0.0 *)
Lemma round_to_zero_refuted :
  conv_model_round NFix128 NFix64 RTowardZero 1 = Err Underflow /\
  spec_conv_round NFix128 NFix64 RTowardZero 1 = Ok 0 /\
  conv_model_round NUFix128 NUFix64 RNearestHalfEven 4000000000000000 = Err Underflow /\
  spec_conv_round NUFix128 NUFix64 RNearestHalfEven 4000000000000000 = Ok 0.
Proof. vm_compute. repeat split; reflexivity. Qed.

Theorem statement_refuted : ~ C16_statement.
Proof.
  intro H. specialize (H NFix128 NUFix64 (-1)).
  destruct fix128_to_ufix64_refuted as [A B]. rewrite A, B in H.
  assert (Err Underflow = Ok 0 :> res Z) by (apply H; simpl; try lia; split; simpl; lia). discriminate.
Qed.

Theorem statement_round_refuted : ~ C16_statement_round.
Proof.
  intro H. specialize (H NFix128 NFix64 RTowardZero 1).
  destruct round_to_zero_refuted as [A [B _]]. rewrite A, B in H.
  assert (Err Underflow = Ok 0 :> res Z) by (apply H; simpl; auto; split; simpl; lia). discriminate.
Qed.

(* every witness lies in its defect class (the guards of the partial theorems are not vacuous) *)
Lemma witnesses_in_defect_classes :
  conv_defect NFix128 NFix64 (-9223372036854775808 * e16 - 1) /\
  conv_defect NFix128 NUFix64 (-1) /\
  conv_defect NUFix128 NFix64 (9223372036854775807 * e16 + 1) /\
  conv_defect (NI (KSigned 128)) NFix64 (- 2 ^ 100) /\
  conv_round_defect NFix128 NFix64 RTowardZero 1.
Proof.
  unfold conv_defect, conv_round_defect, round_zero_defect, e16, e24, max_int64, min_int64.
  repeat split; try lia; try (vm_compute; congruence); try (right; lia); try (left; lia).
Qed.
