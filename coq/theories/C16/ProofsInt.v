(* C16 proofs, part 2: every converter to an integer kind returns target_fit of the integer it reads. *)
From CV Require Import C16.Model C16.ProofsBase Num.WordProofs Num.IntProofs.
From Coq Require Import ZifyBool.
Ltac Zify.zify_post_hook ::= Z.div_mod_to_equations.

Lemma nfit_signed n z : nfit (NI (KSigned n)) z =
  if z <? - 2 ^ (n - 1) then Err Underflow else if z >? 2 ^ (n - 1) - 1 then Err Overflow else Ok z.
Proof. reflexivity. Qed.
Lemma nfit_unsigned n z : nfit (NI (KUnsigned n)) z =
  if z <? 0 then Err Underflow else if z >? 2 ^ n - 1 then Err Overflow else Ok z.
Proof. reflexivity. Qed.

(* reading the source: either a BigNumberValue (any integer) or ToInt (fits int64) *)
Lemma source_cases s x :
  wf_nkind s -> n_in_range s x ->
  (is_big s = true /\ code_ipart s x = x) \/
  (is_big s = false /\ to_int s x = Ok (code_ipart s x) /\ - 2 ^ 63 <= code_ipart s x <= 2 ^ 63 - 1).
Proof.
  intros Hwf Hr. destruct (is_big s) eqn:B.
  - left. split; [reflexivity|]. apply code_ipart_big; assumption.
  - right. split; [reflexivity|]. apply to_int_small; assumption.
Qed.

Section IntTargetProofs.
  Variable n : Z.
  Hypothesis Hn : 0 < n.
  Variables (s : nkind) (x : Z).
  Hypothesis Hwf : wf_nkind s.
  Hypothesis Hr : n_in_range s x.
  Local Notation v := (code_ipart s x).

  Lemma conv_sint_native_ok : n <= 64 ->
    conv_sint_native n s x = nfit (NI (KSigned n)) v.
  Proof.
    intro Hle. rewrite nfit_signed. unfold conv_sint_native.
    pose proof (pow2_le (n - 1) 63 ltac:(lia)) as HP. rewrite p63 in HP.
    destruct (source_cases s x Hwf Hr) as [[B E]|[B [T R]]]; rewrite B.
    - rewrite E. brk; try lia; try reflexivity.
      rewrite big_int64_id by (rewrite p63; lia). rewrite wrap_s_id by (try assumption; lia). reflexivity.
    - rewrite T. simpl bind. rewrite p63 in R.
      destruct (Z.eqb_spec n 64) as [->|Hne].
      + rewrite wrap_s_id by (rewrite ?p63; lia). change (2 ^ (64 - 1)) with 9223372036854775808.
        brk; try lia; reflexivity.
      + brk; try lia; try reflexivity. rewrite wrap_s_id by (try assumption; lia). reflexivity.
  Qed.

  Lemma conv_sint_big_ok :
    conv_sint_big n s x = nfit (NI (KSigned n)) v.
  Proof.
    rewrite nfit_signed. unfold conv_sint_big.
    pose proof (pow2_pos (n - 1) ltac:(lia)) as HP.
    destruct (source_cases s x Hwf Hr) as [[B E]|[B [T R]]]; rewrite B.
    - rewrite E. simpl bind. brk; try lia; reflexivity.
    - rewrite T. simpl bind. rewrite wrap_s_id by lia. brk; try lia; reflexivity.
  Qed.

  Lemma conv_uint_native_ok : n <= 64 ->
    conv_uint_native n s x = nfit (NI (KUnsigned n)) v.
  Proof.
    intro Hle. rewrite nfit_unsigned. unfold conv_uint_native.
    pose proof (pow2_le n 64 ltac:(lia)) as HP. rewrite p64 in HP.
    destruct (source_cases s x Hwf Hr) as [[B E]|[B [T R]]]; rewrite B.
    - rewrite E. brk; try lia; try reflexivity.
      rewrite wrap_u_big_int64 by lia. rewrite mod_small' by lia. reflexivity.
    - rewrite T. simpl bind. rewrite p63 in R.
      destruct (Z.ltb_spec n 64) as [Hlt|Hge].
      + pose proof (pow2_le n 63 ltac:(lia)) as HQ. rewrite p63 in HQ.
        destruct (Z.gtb_spec (2 ^ n - 1) 0); cbn [andb].
        * brk; try lia; try reflexivity. rewrite wrap_u_id by lia. reflexivity.
        * exfalso. assert (2 ^ n >= 2) by (replace n with (1 + (n - 1)) by lia; rewrite Z.pow_add_r by lia;
            pose proof (pow2_pos (n - 1) ltac:(lia)); lia). lia.
      + assert (n = 64) by lia. subst n. change (-1 >? 0) with false. cbn [andb].
        change (2 ^ 64) with 18446744073709551616.
        brk; try lia; try reflexivity. rewrite wrap_u_id by (rewrite p64; lia). reflexivity.
  Qed.

  Lemma conv_uint_big_ok :
    conv_uint_big n s x = nfit (NI (KUnsigned n)) v.
  Proof.
    rewrite nfit_unsigned. unfold conv_uint_big.
    pose proof (pow2_pos n ltac:(lia)) as HP.
    destruct (source_cases s x Hwf Hr) as [[B E]|[B [T R]]]; rewrite B.
    - rewrite E. simpl bind. brk; try lia; reflexivity.
    - rewrite T. simpl bind. rewrite wrap_s_id by lia. brk; try lia; reflexivity.
  Qed.

  Lemma conv_word_native_ok : n <= 64 ->
    conv_word_native n s x = Ok (v mod 2 ^ n).
  Proof.
    intro Hle. unfold conv_word_native.
    destruct (source_cases s x Hwf Hr) as [[B E]|[B [T R]]]; rewrite B.
    - rewrite E. rewrite wrap_u_big_int64 by lia. reflexivity.
    - rewrite T. reflexivity.
  Qed.

  Lemma conv_word_big_ok :
    conv_word_big n s x = Ok (v mod 2 ^ n).
  Proof.
    unfold conv_word_big.
    pose proof (pow2_pos n ltac:(lia)) as HP.
    assert (G: forall w, (if (w >? 2 ^ n - 1) || (w <? 0) then w mod 2 ^ n else w) = w mod 2 ^ n).
    { intro w. brk; try reflexivity. rewrite mod_small' by lia. reflexivity. }
    destruct (source_cases s x Hwf Hr) as [[B E]|[B [T R]]]; rewrite B.
    - rewrite E. simpl bind. rewrite G. reflexivity.
    - rewrite T. simpl bind. rewrite wrap_s_id by lia. rewrite G. reflexivity.
  Qed.
End IntTargetProofs.

Lemma conv_int_ok s x : wf_nkind s -> n_in_range s x -> conv_int s x = Ok (code_ipart s x).
Proof.
  intros Hwf Hr. unfold conv_int.
  destruct (source_cases s x Hwf Hr) as [[B E]|[B [T R]]]; rewrite B.
  - rewrite E. reflexivity.
  - rewrite T. simpl bind. rewrite wrap_s_id by lia. reflexivity.
Qed.

Lemma conv_uint_ok s x : wf_nkind s -> n_in_range s x ->
  conv_uint s x = nfit (NI KUInt) (code_ipart s x).
Proof.
  intros Hwf Hr. unfold conv_uint, nfit; simpl.
  destruct (source_cases s x Hwf Hr) as [[B E]|[B [T R]]]; rewrite B.
  - rewrite E. reflexivity.
  - rewrite T. simpl bind. rewrite p63 in R. brk; try reflexivity.
    rewrite wrap_u_id by (rewrite p64; lia). reflexivity.
Qed.

(* every converter to an integer kind: target_fit of the integer part the code reads *)
Theorem int_target_reads s k x :
  wf_nkind s -> wf_kind k -> n_in_range s x ->
  conv_model s (NI k) x = target_fit (NI k) (code_ipart s x).
Proof.
  intros Hwf Hk Hr. destruct k as [n|n|n| |]; simpl in Hk; unfold conv_model, target_fit.
  - destruct (Z.leb_spec n 64).
    + apply conv_sint_native_ok; assumption.
    + apply conv_sint_big_ok; assumption.
  - destruct (Z.leb_spec n 64).
    + apply conv_uint_native_ok; assumption.
    + apply conv_uint_big_ok; assumption.
  - destruct (Z.leb_spec n 64).
    + apply conv_word_native_ok; assumption.
    + apply conv_word_big_ok; assumption.
  - rewrite conv_int_ok by assumption. reflexivity.
  - apply conv_uint_ok; assumption.
Qed.

(* the specification for an integer target: the truncated integer part *)
Lemma spec_int_target s k x : spec_conv s (NI k) x = target_fit (NI k) (Z.quot x (scale s)).
Proof. unfold spec_conv, spec_conv_round, round_div. simpl scale. rewrite Z.mul_1_r. reflexivity. Qed.

Theorem int_target_correct s k x :
  wf_nkind s -> wf_kind k -> n_in_range s x ->
  conv_model s (NI k) x = spec_conv s (NI k) x.
Proof.
  intros. rewrite int_target_reads, spec_int_target by assumption.
  rewrite code_ipart_trunc by assumption. reflexivity.
Qed.
