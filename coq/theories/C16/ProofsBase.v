(* C16 proofs, part 1: Go/math-big primitives, ToInt, the integer value a converter reads. *)
From CV Require Import C16.Model Num.WordProofs Num.IntProofs.
From Coq Require Import ZifyBool Znumtheory.
Ltac Zify.zify_post_hook ::= Z.div_mod_to_equations.

Lemma p63 : 2 ^ 63 = 9223372036854775808. Proof. reflexivity. Qed.
Lemma p64 : 2 ^ 64 = 18446744073709551616. Proof. reflexivity. Qed.
Lemma p127 : 2 ^ 127 = 170141183460469231731687303715884105728. Proof. reflexivity. Qed.
Lemma p128 : 2 ^ 128 = 340282366920938463463374607431768211456. Proof. reflexivity. Qed.

Definition wf_nkind (k : nkind) : Prop := match k with NI k => wf_kind k | _ => True end.

Lemma pow2_le n k : 0 <= n <= k -> 0 < 2 ^ n <= 2 ^ k.
Proof. intros. split. apply pow2_pos; lia. apply Z.pow_le_mono_r; lia. Qed.

(* ---- wrap_s / wrap_u congruences ---- *)
Lemma wrap_s_mod n z : 0 < n -> wrap_s n z mod 2 ^ n = z mod 2 ^ n.
Proof.
  intros Hn. unfold wrap_s.
  pose proof (pow2_pos n ltac:(lia)) as Hp.
  rewrite <- (Zminus_mod_idemp_l ((z + 2 ^ (n - 1)) mod 2 ^ n)).
  rewrite Z.mod_mod by lia. rewrite Zminus_mod_idemp_l. f_equal. lia.
Qed.

Lemma wrap_s_cong n a b : 0 < n -> a mod 2 ^ n = b mod 2 ^ n -> wrap_s n a = wrap_s n b.
Proof.
  intros Hn H. unfold wrap_s. f_equal.
  rewrite <- (Zplus_mod_idemp_l a), <- (Zplus_mod_idemp_l b). rewrite H. reflexivity.
Qed.

Lemma opp_mod_cong a b m : a mod m = b mod m -> (- a) mod m = (- b) mod m.
Proof.
  intro H. replace (- a) with (0 - a) by lia. replace (- b) with (0 - b) by lia.
  rewrite (Zminus_mod 0 a), (Zminus_mod 0 b). rewrite H. reflexivity.
Qed.

Lemma big_int64_wrap v : big_int64 v = wrap_s 64 v.
Proof.
  unfold big_int64. change two64 with (2 ^ 64).
  assert (H64 : 0 < 2 ^ 64) by (rewrite p64; lia).
  destruct (Z.ltb_spec v 0).
  - apply wrap_s_cong; [lia|].
    replace v with (- (- v)) at 2 by lia. apply opp_mod_cong.
    rewrite (wrap_s_mod 64) by lia. rewrite Z.mod_mod by lia. f_equal. lia.
  - apply wrap_s_cong; [lia|]. rewrite Z.mod_mod by lia. f_equal. lia.
Qed.

Lemma is_int64_spec v : is_int64 v = true <-> - 2 ^ 63 <= v <= 2 ^ 63 - 1.
Proof. unfold is_int64, min_int64, max_int64. rewrite p63. lia. Qed.

Lemma big_int64_id v : - 2 ^ 63 <= v <= 2 ^ 63 - 1 -> big_int64 v = v.
Proof. intros. rewrite big_int64_wrap. apply wrap_s_id; lia. Qed.

Lemma mod_mod_pow a n k : 0 <= n <= k -> (a mod 2 ^ k) mod 2 ^ n = a mod 2 ^ n.
Proof.
  intros. symmetry. apply Zmod_div_mod.
  - apply pow2_pos; lia.
  - apply pow2_pos; lia.
  - exists (2 ^ (k - n)). rewrite <- Z.pow_add_r by lia. f_equal. lia.
Qed.

Lemma wrap_u_big_int64 n v : 0 < n <= 64 -> wrap_u n (big_int64 v) = v mod 2 ^ n.
Proof.
  intros. unfold wrap_u. rewrite big_int64_wrap.
  rewrite <- (mod_mod_pow (wrap_s 64 v) n 64) by lia.
  rewrite wrap_s_mod by lia. apply mod_mod_pow. lia.
Qed.

Lemma big_uint64_id v : 0 <= v <= 2 ^ 64 - 1 -> big_uint64 v = v.
Proof. intros. unfold big_uint64. change two64 with (2 ^ 64). rewrite Z.abs_eq by lia. apply mod_small'. lia. Qed.

(* ---- the integer a converter to an integer kind reads from its argument ---- *)
Definition code_ipart (s : nkind) (x : Z) : Z :=
  match s with
  | NI _ => x
  | NFix64 => Z.quot x e8
  | NUFix64 => x / e8
  | NFix128 => Z.quot x e24
  | NUFix128 => x / e24
  end.

Lemma nin_signed n x : n_in_range (NI (KSigned n)) x <-> - 2 ^ (n - 1) <= x <= 2 ^ (n - 1) - 1.
Proof. unfold n_in_range; simpl. tauto. Qed.
Lemma nin_unsigned n x : n_in_range (NI (KUnsigned n)) x <-> 0 <= x <= 2 ^ n - 1.
Proof. unfold n_in_range; simpl. tauto. Qed.
Lemma nin_word n x : n_in_range (NI (KWord n)) x <-> 0 <= x <= 2 ^ n - 1.
Proof. unfold n_in_range; simpl. tauto. Qed.

(* sources that are not BigNumberValues: ToInt succeeds with the (floored / truncated) integer part,
   which fits a Go int *)
Lemma to_int_small s x :
  wf_nkind s -> n_in_range s x -> is_big s = false ->
  to_int s x = Ok (code_ipart s x) /\ - 2 ^ 63 <= code_ipart s x <= 2 ^ 63 - 1.
Proof.
  intros Hwf Hr Hb. destruct s as [k| | | |]; simpl in *.
  - destruct k as [n|n|n| |]; simpl in *; try discriminate.
    + apply Z.ltb_ge in Hb. destruct Hr as [Hr0 Hr1]; simpl in Hr0, Hr1.
      destruct (Z.leb_spec n 64); [|lia]. split; [reflexivity|].
      pose proof (pow2_le (n - 1) 63 ltac:(lia)). lia.
    + apply Z.leb_gt in Hb. destruct Hr as [Hr0 Hr1]; simpl in Hr0, Hr1.
      destruct (Z.ltb_spec n 64); [|lia]. split; [reflexivity|].
      pose proof (pow2_le n 63 ltac:(lia)). lia.
    + apply Z.leb_gt in Hb. destruct Hr as [Hr0 Hr1]; simpl in Hr0, Hr1.
      destruct (Z.ltb_spec n 64); [|lia]. split; [reflexivity|].
      pose proof (pow2_le n 63 ltac:(lia)). lia.
  - destruct Hr as [H0 H1]; simpl in H0, H1. rewrite ?p63, ?p64, ?p127, ?p128 in *. split; [reflexivity|].
    unfold e8. pose proof (Z.quot_lt_upper_bound). 
    assert (- 9223372036854775808 <= x ÷ 100000000 <= 9223372036854775807).
    { destruct (Z.leb_spec 0 x).
      - rewrite Z.quot_div_nonneg by lia. lia.
      - rewrite quot_neg_pos by lia. lia. }
    lia.
  - destruct Hr as [H0 H1]; simpl in H0, H1. rewrite ?p63, ?p64, ?p127, ?p128 in *. split; [reflexivity|]. unfold e8. lia.
  - destruct Hr as [H0 H1]; simpl in H0, H1. rewrite ?p63, ?p64, ?p127, ?p128 in *.
    assert (E: - 9223372036854775808 <= Z.quot x e24 <= 9223372036854775807).
    { unfold e24. destruct (Z.leb_spec 0 x).
      - rewrite Z.quot_div_nonneg by lia. lia.
      - rewrite quot_neg_pos by lia. lia. }
    destruct (is_int64 (Z.quot x e24)) eqn:I.
    + rewrite big_int64_id by (rewrite p63; lia). split; [reflexivity|lia].
    + exfalso. assert (is_int64 (Z.quot x e24) = true) by (apply is_int64_spec; rewrite p63; lia). congruence.
  - destruct Hr as [H0 H1]; simpl in H0, H1. rewrite ?p63, ?p64, ?p127, ?p128 in *.
    assert (E: - 9223372036854775808 <= x / e24 <= 9223372036854775807) by (unfold e24; lia).
    destruct (is_int64 (x / e24)) eqn:I.
    + rewrite big_int64_id by (rewrite p63; lia). split; [reflexivity|lia].
    + exfalso. assert (is_int64 (x / e24) = true) by (apply is_int64_spec; rewrite p63; lia). congruence.
Qed.

(* BigNumberValue sources are integer kinds: ToBigInt is the value itself *)
Lemma is_big_int s : is_big s = true -> exists k, s = NI k.
Proof. destruct s; simpl; try discriminate. eauto. Qed.

Lemma code_ipart_big s x : is_big s = true -> code_ipart s x = x.
Proof. intro H. destruct (is_big_int s H) as [k ->]. reflexivity. Qed.

(* the integer part the code reads is the truncation toward zero the property asks for *)
Lemma code_ipart_trunc s x :
  n_in_range s x -> code_ipart s x = Z.quot x (scale s).
Proof.
  intros Hr. destruct s; simpl.
  - rewrite Z.quot_1_r. reflexivity.
  - reflexivity.
  - destruct Hr as [H0 _]; simpl in H0. rewrite Z.quot_div_nonneg by (unfold e8; lia). reflexivity.
  - reflexivity.
  - destruct Hr as [H0 _]; simpl in H0. rewrite Z.quot_div_nonneg by (unfold e24; lia). reflexivity.
Qed.
