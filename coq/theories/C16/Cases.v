(* Check functions for the per-run case files of C16. *)
From CV Require Export C16.Model.

(* (source kind, target kind, source value, observed result of the real Convert function,
    result required by the Go big.Rat oracle of the property) :
   the code-shaped model must reproduce the observation, and the Coq specification must agree
   with the Go oracle. *)
Definition check_conv (c : nkind * nkind * Z * res Z * res Z) : bool :=
  let '(s, t, x, obs, req) := c in
  res_eqb Z.eqb (conv_model s t x) obs && res_eqb Z.eqb (spec_conv s t x) req.

Definition check_conv_round (c : nkind * nkind * rmode * Z * res Z * res Z) : bool :=
  let '(s, t, m, x, obs, req) := c in
  res_eqb Z.eqb (conv_model_round s t m x) obs && res_eqb Z.eqb (spec_conv_round s t m x) req.

(* case constructors (a plain function application elaborates faster than a nested tuple) *)
Definition mkc (s t : nkind) (x : Z) (obs req : res Z) := (s, t, x, obs, req).
Definition mkr (s t : nkind) (m : rmode) (x : Z) (obs req : res Z) := (s, t, m, x, obs, req).
