(* C16 proofs, part 3: converters to the fixed-point kinds (without rounding rule). *)
From CV Require Import C16.Model C16.ProofsBase C16.ProofsInt Num.WordProofs Num.IntProofs.
From Coq Require Import ZifyBool.
Ltac Zify.zify_post_hook ::= Z.to_euclidean_division_equations.

Lemma nfit_fix64 z : nfit NFix64 z =
  if z <? -9223372036854775808 then Err Underflow else if z >? 9223372036854775807 then Err Overflow else Ok z.
Proof. reflexivity. Qed.
Lemma nfit_ufix64 z : nfit NUFix64 z =
  if z <? 0 then Err Underflow else if z >? 18446744073709551615 then Err Overflow else Ok z.
Proof. reflexivity. Qed.
Lemma nfit_fix128 z : nfit NFix128 z =
  if z <? -170141183460469231731687303715884105728 then Err Underflow
  else if z >? 170141183460469231731687303715884105727 then Err Overflow else Ok z.
Proof. reflexivity. Qed.
Lemma nfit_ufix128 z : nfit NUFix128 z =
  if z <? 0 then Err Underflow
  else if z >? 340282366920938463463374607431768211455 then Err Overflow else Ok z.
Proof. reflexivity. Qed.

(* carried-integer ranges of the fixed-point kinds, as numerals *)
Lemma nin_fix64 x : n_in_range NFix64 x <-> -9223372036854775808 <= x <= 9223372036854775807.
Proof. unfold n_in_range; simpl. tauto. Qed.
Lemma nin_ufix64 x : n_in_range NUFix64 x <-> 0 <= x <= 18446744073709551615.
Proof. unfold n_in_range; simpl. tauto. Qed.
Lemma nin_fix128 x : n_in_range NFix128 x <->
  -170141183460469231731687303715884105728 <= x <= 170141183460469231731687303715884105727.
Proof. unfold n_in_range; simpl. tauto. Qed.
Lemma nin_ufix128 x : n_in_range NUFix128 x <-> 0 <= x <= 340282366920938463463374607431768211455.
Proof. unfold n_in_range; simpl. tauto. Qed.

(* The inputs on which the code departs from the property (without rounding rule):
     Fix128 -> Fix64               a value strictly between Fix64.max and Fix64.max + 10^-8, or strictly between
                                   Fix64.min - 10^-8 and Fix64.min (range checked before truncation)
     UFix128 -> Fix64              value strictly between Fix64.max and Fix64.max + 10^-8
     Fix128 -> UFix64              value strictly between -10^-8 and 0 (truncates to 0, reported as underflow),
                                   or strictly between UFix64.max and UFix64.max + 10^-8
     UFix128 -> UFix64             value strictly between UFix64.max and UFix64.max + 10^-8
     integer kinds -> Fix64        value below -2^63 (reported as overflow instead of underflow) *)
Definition conv_defect (s t : nkind) (x : Z) : Prop :=
  match s, t with
  | NFix128, NFix64 =>
      max_int64 * e16 < x < (max_int64 + 1) * e16 \/ (min_int64 - 1) * e16 < x < min_int64 * e16
  | NUFix128, NFix64 => max_int64 * e16 < x < (max_int64 + 1) * e16
  | NFix128, NUFix64 =>
      - e16 < x < 0 \/ max_uint64 * e16 < x < (max_uint64 + 1) * e16
  | NUFix128, NUFix64 => max_uint64 * e16 < x < (max_uint64 + 1) * e16
  | NI _, NFix64 => x < min_int64
  | _, _ => False
  end.

Lemma wrap_s64_id z : -9223372036854775808 <= z <= 9223372036854775807 -> wrap_s 64 z = z.
Proof. intros. apply wrap_s_id; [lia|]. change (2 ^ (64 - 1)) with 9223372036854775808. lia. Qed.
Lemma wrap_u64_id z : 0 <= z <= 18446744073709551615 -> wrap_u 64 z = z.
Proof. intros. apply wrap_u_id. rewrite p64. lia. Qed.
Lemma big_int64_id' z : -9223372036854775808 <= z <= 9223372036854775807 -> big_int64 z = z.
Proof. intros. apply big_int64_id. rewrite p63. lia. Qed.
Lemma big_uint64_id' z : 0 <= z <= 18446744073709551615 -> big_uint64 z = z.
Proof. intros. apply big_uint64_id. rewrite p64. lia. Qed.

Ltac consts := unfold fix64_type_min_int, fix64_type_max_int, ufix64_type_max_int,
  max_int64, min_int64, max_uint64, two64, e8, e16, e24 in *.

Ltac int_source k x Hwf Hr :=
  destruct (source_cases (NI k) x Hwf Hr) as [[B E]|[B [T R]]];
  [ rewrite B | rewrite B, T; simpl bind; simpl code_ipart in R; rewrite ?p63 in R;
    try rewrite (wrap_s64_id x) by lia ].

Theorem conv_fix64_correct s x :
  wf_nkind s -> n_in_range s x -> ~ conv_defect s NFix64 x ->
  conv_fix64 s x = spec_conv s NFix64 x.
Proof.
  intros Hwf Hr Hd. unfold spec_conv, spec_conv_round, round_div, target_fit. rewrite nfit_fix64.
  destruct s as [k| | | |]; simpl scale; unfold conv_fix64.
  - simpl in Hd. int_source k x Hwf Hr.
    + unfold is_int64, new_fix64_with_integer. consts.
      destruct (Z.leb_spec (-9223372036854775808) x); [|lia].
      destruct (Z.leb_spec x 9223372036854775807); cbn [andb negb].
      * rewrite big_int64_id' by lia.
        brk; try lia; try reflexivity. rewrite wrap_s64_id by lia. f_equal. lia.
      * brk; try lia; reflexivity.
    + unfold new_fix64_with_integer. consts.
      brk; try lia; try reflexivity. rewrite wrap_s64_id by lia. f_equal. lia.
  - apply (proj1 (nin_fix64 _)) in Hr. consts. brk; try lia. f_equal. lia.
  - apply (proj1 (nin_ufix64 _)) in Hr. consts. brk; try lia; try reflexivity.
    rewrite wrap_s64_id by lia. f_equal. lia.
  - apply (proj1 (nin_fix128 _)) in Hr. simpl in Hd. unfold fix128_bigint_to_fix64. consts.
    assert (G1: ~ ((-9223372036854775808 - 1) * 10000000000000000 < x < -9223372036854775808 * 10000000000000000)) by lia.
    assert (G2: ~ (9223372036854775807 * 10000000000000000 < x < (9223372036854775807 + 1) * 10000000000000000)) by lia.
    brk; try lia; try reflexivity.
    rewrite big_int64_id' by lia. f_equal. lia.
  - apply (proj1 (nin_ufix128 _)) in Hr. simpl in Hd. unfold fix128_bigint_to_fix64. consts.
    brk; try lia; try reflexivity.
    rewrite big_int64_id' by lia. f_equal. lia.
Qed.

Theorem conv_ufix64_correct s x :
  wf_nkind s -> n_in_range s x -> ~ conv_defect s NUFix64 x ->
  conv_ufix64 s x = spec_conv s NUFix64 x.
Proof.
  intros Hwf Hr Hd. unfold spec_conv, spec_conv_round, round_div, target_fit. rewrite nfit_ufix64.
  destruct s as [k| | | |]; simpl scale; unfold conv_ufix64.
  - int_source k x Hwf Hr.
    + unfold is_uint64, new_ufix64_with_integer. consts.
      destruct (Z.ltb_spec x 0); [brk; try lia; reflexivity|].
      destruct (Z.leb_spec 0 x); [|lia].
      destruct (Z.leb_spec x 18446744073709551615); cbn [andb negb].
      * rewrite big_uint64_id' by lia.
        brk; try lia; try reflexivity. rewrite wrap_u64_id by lia. f_equal. lia.
      * brk; try lia; reflexivity.
    + unfold new_ufix64_with_integer. consts.
      destruct (Z.ltb_spec x 0); [brk; try lia; reflexivity|].
      rewrite (wrap_u64_id x) by lia.
      brk; try lia; try reflexivity. rewrite wrap_u64_id by lia. f_equal. lia.
  - apply (proj1 (nin_fix64 _)) in Hr. consts. brk; try lia; try reflexivity.
    rewrite wrap_u64_id by lia. f_equal. lia.
  - apply (proj1 (nin_ufix64 _)) in Hr. consts. brk; try lia. f_equal. lia.
  - apply (proj1 (nin_fix128 _)) in Hr. simpl in Hd. unfold fix128_bigint_to_ufix64. consts.
    assert (G1: ~ (- 10000000000000000 < x < 0)) by lia.
    assert (G2: ~ (18446744073709551615 * 10000000000000000 < x < (18446744073709551615 + 1) * 10000000000000000)) by lia.
    brk; try lia; try reflexivity.
    rewrite big_uint64_id' by lia. f_equal. lia.
  - apply (proj1 (nin_ufix128 _)) in Hr. simpl in Hd. unfold fix128_bigint_to_ufix64. consts.
    brk; try lia; try reflexivity.
    rewrite big_uint64_id' by lia. f_equal. lia.
Qed.

Theorem conv_fix128_correct s x :
  wf_nkind s -> n_in_range s x ->
  conv_fix128 s x = spec_conv s NFix128 x.
Proof.
  intros Hwf Hr. unfold spec_conv, spec_conv_round, round_div, target_fit. rewrite nfit_fix128.
  destruct s as [k| | | |]; simpl scale; unfold conv_fix128, fix128_range_check; rewrite ?p127.
  - int_source k x Hwf Hr; consts; brk; try lia; try reflexivity; f_equal; lia.
  - apply (proj1 (nin_fix64 _)) in Hr. consts. brk; try lia; try reflexivity; f_equal; lia.
  - apply (proj1 (nin_ufix64 _)) in Hr. consts. brk; try lia; try reflexivity; f_equal; lia.
  - apply (proj1 (nin_fix128 _)) in Hr. consts. brk; try lia; try reflexivity; f_equal; lia.
  - apply (proj1 (nin_ufix128 _)) in Hr. consts. brk; try lia; try reflexivity; f_equal; lia.
Qed.

Theorem conv_ufix128_correct s x :
  wf_nkind s -> n_in_range s x ->
  conv_ufix128 s x = spec_conv s NUFix128 x.
Proof.
  intros Hwf Hr. unfold spec_conv, spec_conv_round, round_div, target_fit. rewrite nfit_ufix128.
  destruct s as [k| | | |]; simpl scale; unfold conv_ufix128, ufix128_range_check; rewrite ?p128.
  - int_source k x Hwf Hr; consts; brk; try lia; try reflexivity; f_equal; lia.
  - apply (proj1 (nin_fix64 _)) in Hr. consts. brk; try lia; try reflexivity; f_equal; lia.
  - apply (proj1 (nin_ufix64 _)) in Hr. consts. brk; try lia; try reflexivity; f_equal; lia.
  - apply (proj1 (nin_fix128 _)) in Hr. consts. brk; try lia; try reflexivity; f_equal; lia.
  - apply (proj1 (nin_ufix128 _)) in Hr. consts. brk; try lia; try reflexivity; f_equal; lia.
Qed.

Definition wf_target (t : nkind) : Prop := wf_nkind t.

(* all 27 x 27 pairs, all source values, outside the defect classes *)
Theorem conv_model_correct s t x :
  wf_nkind s -> wf_nkind t -> n_in_range s x -> ~ conv_defect s t x ->
  conv_model s t x = spec_conv s t x.
Proof.
  intros Hs Ht Hr Hd. destruct t as [k| | | |].
  - apply int_target_correct; assumption.
  - apply conv_fix64_correct; assumption.
  - apply conv_ufix64_correct; assumption.
  - apply conv_fix128_correct; assumption.
  - apply conv_ufix128_correct; assumption.
Qed.

(* pairs that have no defect class at all *)
Definition defect_free_pair (s t : nkind) : Prop :=
  match s, t with
  | NFix128, (NFix64 | NUFix64) => False
  | NUFix128, (NFix64 | NUFix64) => False
  | NI (KSigned n), NFix64 => n <= 64
  | NI KInt, NFix64 => False
  | _, _ => True
  end.

Theorem conv_model_correct_defect_free s t x :
  wf_nkind s -> wf_nkind t -> n_in_range s x -> defect_free_pair s t ->
  conv_model s t x = spec_conv s t x.
Proof.
  intros Hs Ht Hr Hp. apply conv_model_correct; try assumption.
  destruct s as [[n|n|n| |]| | | |], t as [k| | | |]; simpl in *; try tauto;
    destruct Hr as [H0 H1]; simpl in H0, H1; unfold min_int64; intro Hx.
  - pose proof (pow2_le (n - 1) 63 ltac:(lia)) as HP. rewrite p63 in HP. lia.
  - lia.
  - lia.
  - lia.
Qed.
