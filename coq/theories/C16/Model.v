(* C16: code-shaped model of the numeric conversion functions of /repo/interpreter:
     ToInt / ToBigInt of every numeric value type, the BigNumberValue classification,
     ConvertInt8..ConvertInt256, ConvertInt, ConvertUInt, ConvertUnsigned (UInt8..UInt64),
     ConvertUInt128/256, ConvertWord (Word8..Word64), ConvertWord128/256,
     ConvertFix64, ConvertUFix64, ConvertFix128, ConvertUFix128,
     NewFix64ValueWithInteger, NewUFix64ValueWithInteger, fix128BigIntToFix64, fix128BigIntToUFix64,
     ConvertFix64WithRounding, ConvertUFix64WithRounding, handleFixedPointConversionError,
   and of the two functions of github.com/onflow/fixed-point v0.1.1 they call
     UFix128.ToUFix64 (utils.go), Fix128.ToFix64 (with Abs, ApplySign, ushouldRound64).
   Go's int is 64 bits. Sized Go conversions (int8(v), uint16(v), ...) wrap: made explicit. *)
From CV Require Export Num.IntModel C16.Spec.

Definition max_int64 : Z := 9223372036854775807.
Definition min_int64 : Z := -9223372036854775808.
Definition max_uint64 : Z := 18446744073709551615.
Definition two64 : Z := 18446744073709551616.

(* math/big: IsInt64, IsUint64, Int64 (low 64 bits of |v| as int64, negated when v < 0), Uint64 *)
Definition is_int64 (v : Z) : bool := (min_int64 <=? v) && (v <=? max_int64).
Definition is_uint64 (v : Z) : bool := (0 <=? v) && (v <=? max_uint64).
Definition big_int64 (v : Z) : Z :=
  let a := wrap_s 64 (Z.abs v mod two64) in
  if v <? 0 then wrap_s 64 (- a) else a.
Definition big_uint64 (v : Z) : Z := Z.abs v mod two64.

(* which value types implement BigNumberValue (ToBigInt(gauge) + ByteLength):
   Int, UInt, Int128, Int256, UInt64, UInt128, UInt256, Word64, Word128, Word256.
   (Fix128Value/UFix128Value have ToBigInt() without a gauge: not BigNumberValues.) *)
Definition is_big (s : nkind) : bool :=
  match s with
  | NI (KSigned n) => 64 <? n
  | NI (KUnsigned n) | NI (KWord n) => 64 <=? n
  | NI KInt | NI KUInt => true
  | _ => false
  end.

(* ToInt() int *)
Definition to_int (s : nkind) (x : Z) : res Z :=
  match s with
  | NI (KSigned n) =>
      if n <=? 64 then Ok x                                   (* int(v) *)
      else if is_int64 x then Ok (big_int64 x) else Err Overflow
  | NI (KUnsigned n) | NI (KWord n) =>
      if n <? 64 then Ok x                                    (* int(v) *)
      else if n =? 64 then (if x >? max_int64 then Err Overflow else Ok x)
      else if is_int64 x then Ok (big_int64 x) else Err Overflow
  | NI KInt | NI KUInt => if is_int64 x then Ok (big_int64 x) else Err Overflow
  | NFix64 => Ok (Z.quot x e8)                                (* int(v / sema.Fix64Factor), Go / truncates *)
  | NUFix64 => Ok (x / e8)                                    (* uint64 division *)
  | NFix128 =>
      let integerPart := Z.quot x e24 in                      (* big.Int.Quo: truncation toward zero *)
      if is_int64 integerPart then Ok (big_int64 integerPart) else Err Overflow
  | NUFix128 =>
      let integerPart := x / e24 in                           (* big.Int.Div: Euclidean; the value is non-negative *)
      if is_int64 integerPart then Ok (big_int64 integerPart) else Err Overflow
  end.

(* ---------------------------------------------------------------- integer targets *)
Section IntTargets.
  Variable n : Z.
  Let M := 2 ^ (n - 1) - 1.
  Let m := - 2 ^ (n - 1).
  Let U := 2 ^ n - 1.

  (* ConvertInt8 / 16 / 32 / 64 *)
  Definition conv_sint_native (s : nkind) (x : Z) : res Z :=
    if is_big s then
      let v := x in
      if v >? M then Err Overflow
      else if v <? m then Err Underflow
      else Ok (wrap_s n (big_int64 v))
    else
      let* v := to_int s x in
      if n =? 64 then Ok (wrap_s 64 v)                         (* ConvertInt64: return int64(v) *)
      else if v >? M then Err Overflow                         (* math.MaxIntN *)
      else if v <? m then Err Underflow
      else Ok (wrap_s n v).

  (* ConvertInt128 / 256 *)
  Definition conv_sint_big (s : nkind) (x : Z) : res Z :=
    let* v := (if is_big s then Ok x else let* i := to_int s x in Ok (wrap_s 64 i)) in
    if v >? M then Err Overflow
    else if v <? m then Err Underflow
    else Ok v.

  (* ConvertUnsigned[uintN](gauge, value, sema.UIntNTypeMaxInt, maxNumber) with
     maxNumber = math.MaxUintN for N < 64 and -1 for N = 64 *)
  Definition conv_uint_native (s : nkind) (x : Z) : res Z :=
    let maxNumber := if n <? 64 then U else -1 in
    if is_big s then
      let v := x in
      if v >? U then Err Overflow
      else if v <? 0 then Err Underflow
      else Ok (wrap_u n (big_int64 v))
    else
      let* v := to_int s x in
      if (maxNumber >? 0) && (v >? maxNumber) then Err Overflow
      else if v <? 0 then Err Underflow
      else Ok (wrap_u n v).

  (* ConvertUInt128 / 256 *)
  Definition conv_uint_big (s : nkind) (x : Z) : res Z :=
    let* v := (if is_big s then Ok x else let* i := to_int s x in Ok (wrap_s 64 i)) in
    if v >? U then Err Overflow
    else if v <? 0 then Err Underflow
    else Ok v.

  (* ConvertWord[uintN] *)
  Definition conv_word_native (s : nkind) (x : Z) : res Z :=
    if is_big s then Ok (wrap_u n (big_int64 x))
    else let* v := to_int s x in Ok (wrap_u n v).

  (* ConvertWord128 / 256 *)
  Definition conv_word_big (s : nkind) (x : Z) : res Z :=
    let* v := (if is_big s then Ok x else let* i := to_int s x in Ok (wrap_s 64 i)) in
    Ok (if (v >? U) || (v <? 0) then v mod 2 ^ n (* big.Int.Mod: Euclidean *) else v).
End IntTargets.

(* ConvertInt *)
Definition conv_int (s : nkind) (x : Z) : res Z :=
  if is_big s then Ok x
  else let* v := to_int s x in Ok (wrap_s 64 v).

(* ConvertUInt *)
Definition conv_uint (s : nkind) (x : Z) : res Z :=
  if is_big s then (if x <? 0 then Err Underflow else Ok x)
  else let* v := to_int s x in
       if v <? 0 then Err Underflow else Ok (wrap_u 64 v).

(* ---------------------------------------------------------------- fixed-point targets *)
Definition fix64_type_min_int : Z := -92233720368.   (* math.MinInt64 / Fix64Factor *)
Definition fix64_type_max_int : Z := 92233720368.
Definition ufix64_type_max_int : Z := 184467440737.  (* math.MaxUint64 / Fix64Factor *)

(* NewFix64ValueWithInteger / NewUnmeteredFix64ValueWithInteger *)
Definition new_fix64_with_integer (i : Z) : res Z :=
  if i <? fix64_type_min_int then Err Underflow
  else if i >? fix64_type_max_int then Err Overflow
  else Ok (wrap_s 64 (i * e8)).

(* values.NewUnmeteredUFix64ValueWithInteger *)
Definition new_ufix64_with_integer (i : Z) : res Z :=
  if i >? ufix64_type_max_int then Err Overflow
  else Ok (wrap_u 64 (i * e8)).

(* fix128BigIntToFix64: bounds are Fix64 min/max scaled by 10^16, checked first; then big.Int.Quo *)
Definition fix128_bigint_to_fix64 (b : Z) : res Z :=
  if b >? max_int64 * e16 then Err Overflow
  else if b <? min_int64 * e16 then Err Underflow
  else Ok (big_int64 (Z.quot b e16)).

(* fix128BigIntToUFix64: bounds checked first; big.Int.Div on a value that is non-negative by then *)

Definition fix128_bigint_to_ufix64 (b : Z) : res Z :=
  if b >? max_uint64 * e16 then Err Overflow
  else if b <? 0 * e16 then Err Underflow
  else Ok (big_uint64 (b / e16)).

(* ConvertFix64 (type switch order: Fix64, UFix64, Fix128, UFix128, BigNumberValue, NumberValue) *)
Definition conv_fix64 (s : nkind) (x : Z) : res Z :=
  match s with
  | NFix64 => Ok x
  | NUFix64 => if x >? max_int64 then Err Overflow else Ok (wrap_s 64 x)
  | NFix128 | NUFix128 => fix128_bigint_to_fix64 x
  | _ =>
      if is_big s then
        let v := x in
        if negb (is_int64 v) then Err Overflow
        else new_fix64_with_integer (big_int64 v)
      else
        let* i := to_int s x in new_fix64_with_integer (wrap_s 64 i)
  end.

(* ConvertUFix64 *)
Definition conv_ufix64 (s : nkind) (x : Z) : res Z :=
  match s with
  | NUFix64 => Ok x
  | NFix64 => if x <? 0 then Err Underflow else Ok (wrap_u 64 x)
  | NFix128 | NUFix128 => fix128_bigint_to_ufix64 x
  | _ =>
      if is_big s then
        let v := x in
        if v <? 0 then Err Underflow
        else if negb (is_uint64 v) then Err Overflow
        else new_ufix64_with_integer (big_uint64 v)
      else
        let* i := to_int s x in
        if i <? 0 then Err Underflow
        else new_ufix64_with_integer (wrap_u 64 i)
  end.

(* NewFix128ValueFromBigIntWithRangeCheck / NewUFix128ValueFromBigIntWithRangeCheck *)
Definition fix128_range_check (v : Z) : res Z :=
  if v <? - 2 ^ 127 then Err Underflow
  else if v >? 2 ^ 127 - 1 then Err Overflow
  else Ok v.
Definition ufix128_range_check (v : Z) : res Z :=
  if v <? 0 then Err Underflow
  else if v >? 2 ^ 128 - 1 then Err Overflow
  else Ok v.

(* ConvertFix128 *)
Definition conv_fix128 (s : nkind) (x : Z) : res Z :=
  match s with
  | NFix64 | NUFix64 => fix128_range_check (x * e16)
  | NFix128 => Ok x
  | NUFix128 => fix128_range_check x
  | _ =>
      if is_big s then fix128_range_check (x * e24)
      else let* i := to_int s x in fix128_range_check (wrap_s 64 i * e24)
  end.

(* ConvertUFix128 *)
Definition conv_ufix128 (s : nkind) (x : Z) : res Z :=
  match s with
  | NFix64 | NUFix64 => ufix128_range_check (x * e16)
  | NFix128 => ufix128_range_check x
  | NUFix128 => Ok x
  | _ =>
      if is_big s then ufix128_range_check (x * e24)
      else let* i := to_int s x in ufix128_range_check (wrap_s 64 i * e24)
  end.

(* the conversion function `T(x)` of every numeric type T *)
Definition conv_model (s t : nkind) (x : Z) : res Z :=
  match t with
  | NI (KSigned n) => if n <=? 64 then conv_sint_native n s x else conv_sint_big n s x
  | NI (KUnsigned n) => if n <=? 64 then conv_uint_native n s x else conv_uint_big n s x
  | NI (KWord n) => if n <=? 64 then conv_word_native n s x else conv_word_big n s x
  | NI KInt => conv_int s x
  | NI KUInt => conv_uint s x
  | NFix64 => conv_fix64 s x
  | NUFix64 => conv_ufix64 s x
  | NFix128 => conv_fix128 s x
  | NUFix128 => conv_ufix128 s x
  end.

(* ---------------------------------------------------------------- github.com/onflow/fixed-point *)
Inductive liberr : Type := LPosOverflow | LNegOverflow | LUnderflow.
Inductive lres : Type := LOk (z : Z) | LErr (e : liberr).

(* raw64.go: ushouldRound64(q, r, b, round) *)
Definition ushould_round64 (q r b : Z) (m : rmode) : bool :=
  match m with
  | RTowardZero => false
  | RAwayFromZero => negb (r =? 0)
  | _ =>
      if r >? max_int64 then true
      else
        let doubleR := wrap_u 64 (r * 2) in
        if doubleR >? b then true
        else if doubleR <? b then false
        else match m with RNearestHalfAway => true | _ => Z.odd q end
  end.

(* utils.go: (a UFix128) ToUFix64(round); a is the raw 128-bit unsigned value *)
Definition lib_ufix128_to_ufix64 (a : Z) (m : rmode) : lres :=
  if a =? 0 then LOk 0
  else
    let hi := a / two64 in
    if negb (hi <? e16) then LErr LPosOverflow
    else
      let quo := a / e16 in                       (* bits.Div64(hi, lo, 10^16): hi < 10^16 *)
      let rem := a mod e16 in
      if ushould_round64 quo rem e16 m then
        let sum := quo + 1 in                      (* bits.Add64(quo, 0, 1) *)
        let quo' := sum mod two64 in
        let carry := sum / two64 in
        if negb (carry =? 0) then LErr LPosOverflow else LOk quo'
      else if quo =? 0 then LErr LUnderflow
      else LOk quo.

(* fix64.go: (a UFix64) ApplySign(sign); the Fix64 result is read as a signed 64-bit integer *)
Definition lib_apply_sign64 (a sign : Z) : lres :=
  if sign =? 1 then
    if a >? max_int64 then LErr LPosOverflow else LOk a
  else
    if a =? 9223372036854775808 then LOk min_int64
    else if a >? max_int64 then LErr LNegOverflow
    else LOk (wrap_s 64 (- a)).

(* errors.go: applySign(err, sign) *)
Definition lib_apply_sign_err (e : liberr) (sign : Z) : liberr :=
  match e with LPosOverflow => if sign <? 0 then LNegOverflow else e | _ => e end.

(* utils.go: (a Fix128) ToFix64(round); a is the signed value. Abs() yields the two's-complement
   negation read as unsigned (2^127 for the minimum) and the sign. *)
Definition lib_fix128_to_fix64 (a : Z) (m : rmode) : lres :=
  let '(ua, sign) := if a <? 0 then ((- a) mod 2 ^ 128, -1) else (a, 1) in
  match lib_ufix128_to_ufix64 ua m with
  | LErr e => LErr (lib_apply_sign_err e sign)
  | LOk r => lib_apply_sign64 r sign
  end.

(* value_fixedpoint.go: handleFixedPointConversionError *)
Definition handle_conv_error (r : lres) : res Z :=
  match r with
  | LOk z => Ok z
  | LErr LPosOverflow => Err Overflow
  | LErr LNegOverflow => Err Underflow
  | LErr LUnderflow => Err Underflow
  end.

(* ConvertFix64WithRounding *)
Definition conv_fix64_round (s : nkind) (m : rmode) (x : Z) : res Z :=
  match s with
  | NFix128 => handle_conv_error (lib_fix128_to_fix64 x m)
  | NUFix128 =>
      let* r := handle_conv_error (lib_ufix128_to_ufix64 x m) in
      if r >? max_int64 then Err Overflow else Ok (wrap_s 64 r)
  | _ => conv_fix64 s x
  end.

(* ConvertUFix64WithRounding *)
Definition conv_ufix64_round (s : nkind) (m : rmode) (x : Z) : res Z :=
  match s with
  | NUFix128 => handle_conv_error (lib_ufix128_to_ufix64 x m)
  | NFix128 =>
      if x <? 0 then Err Underflow
      else handle_conv_error (lib_ufix128_to_ufix64 x m)
  | _ => conv_ufix64 s x
  end.

(* `T(x, rounding: m)`: only Fix64 and UFix64 declare ConvertWithRounding *)
Definition conv_model_round (s t : nkind) (m : rmode) (x : Z) : res Z :=
  match t with
  | NFix64 => conv_fix64_round s m x
  | NUFix64 => conv_ufix64_round s m x
  | _ => conv_model s t x
  end.
