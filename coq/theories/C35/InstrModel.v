(* C35  Code-shaped model of the instruction operand codec, bbq/opcode/instruction.go (emit* / decode* helpers,
   DecodeInstructions' use of a 16-bit instruction pointer) and of the generated per-instruction
   Encode / Decode* / DecodeInstruction functions of bbq/opcode/instructions.go.
   The per-instruction part is data: a table (Gen/GenC35Opcodes.v, regenerated from instructions.yml, opcode.go and
   instructions.go on every run) listing for each opcode the struct fields, the sequence of emit helpers called by
   Encode (with the field each one writes), the sequence of decode helpers called by Decode* (with the field each
   one assigns), and the opcodes whose `case` in DecodeInstruction dispatches to this instruction.

   ip is a Go uint16: every `*ip += n` and the index expression `*ip+1` wrap modulo 2^16; code[...] outside the
   slice is a Go panic = [Err Crash]. *)
From CV Require Export Base.Prelude.
From Coq Require Export String.

Definition wrap16 (z : Z) : Z := z mod 65536.

Definition len {A} (l : list A) : Z := Z.of_nat (List.length l).
Definition idx (l : list Z) (i : Z) : res Z :=
  if (0 <=? i) && (i <? len l) then Ok (nth (Z.to_nat i) l 0) else Err Crash.

(* helpers of instruction.go, named after the Go functions *)
Inductive codec := CBool | CUint16 | CUint16Array | CUpvalueArray | CCompositeKind | CPathDomain.
(* Go types of instruction struct fields *)
Inductive ftype := FBool | FUint16 | FUint16Array | FUpvalues | FCompositeKind | FPathDomain.

(* operand values: VNum covers uint16, common.CompositeKind (uint) and common.PathDomain (uint8) *)
Inductive oval :=
| VBool (b : bool)
| VNum (n : Z)
| VU16s (l : list Z)
| VUps (l : list (Z * bool)).

(* ---- emit ---- *)

(* func encodeUint16(v uint16) (byte, byte) { return byte((v >> 8) & 0xff), byte(v & 0xff) } *)
Definition emitUint16 (v : Z) : list Z := [Z.land (Z.shiftr v 8) 255; Z.land v 255].
Definition emitBool (b : bool) : list Z := [if b then 1 else 0].
Definition emitByte (b : Z) : list Z := [b].
(* emitCompositeKind(code, kind) = emitUint16(code, uint16(kind)) *)
Definition emitCompositeKind (k : Z) : list Z := emitUint16 (wrap16 k).
(* emitPathDomain(code, domain) = emitByte(code, byte(domain)) *)
Definition emitPathDomain (d : Z) : list Z := emitByte d.

(* func emitUint16Array(code *[]byte, values []uint16) {
     count := len(values); if count > math.MaxUint16 { panic(...) }
     emitUint16(code, uint16(count)); for _, value := range values { emitUint16(code, value) } } *)
Definition emitUint16Array (values : list Z) : res (list Z) :=
  let count := len values in
  if count >? 65535 then Err Crash else
  Ok (emitUint16 count ++ flat_map emitUint16 values).

Definition emitUpvalue (u : Z * bool) : list Z := emitUint16 (fst u) ++ emitBool (snd u).
Definition emitUpvalueArray (ups : list (Z * bool)) : res (list Z) :=
  let count := len ups in
  if count >? 65535 then Err Crash else
  Ok (emitUint16 count ++ flat_map emitUpvalue ups).

(* a value of the wrong shape for a helper cannot occur in Go (static typing): model-only [Internal] *)
Definition emit (c : codec) (v : oval) : res (list Z) :=
  match c, v with
  | CBool, VBool b => Ok (emitBool b)
  | CUint16, VNum n => Ok (emitUint16 n)
  | CCompositeKind, VNum n => Ok (emitCompositeKind n)
  | CPathDomain, VNum n => Ok (emitPathDomain n)
  | CUint16Array, VU16s l => emitUint16Array l
  | CUpvalueArray, VUps l => emitUpvalueArray l
  | _, _ => Err Internal
  end.

(* ---- decode: every function takes ip and returns (value, new ip) ---- *)

(* func decodeByte(ip *uint16, code []byte) byte { byt := code[*ip]; *ip += 1; return byt } *)
Definition decodeByte (ip : Z) (code : list Z) : res (Z * Z) :=
  let* byt := idx code ip in Ok (byt, wrap16 (ip + 1)).

(* func decodeUint16(ip *uint16, code []byte) uint16 {
     first := code[*ip]; last := code[*ip+1]; *ip += 2; return uint16(first)<<8 | uint16(last) } *)
Definition decodeUint16 (ip : Z) (code : list Z) : res (Z * Z) :=
  let* first := idx code ip in
  let* last := idx code (wrap16 (ip + 1)) in
  Ok (Z.lor (wrap16 (Z.shiftl first 8)) last, wrap16 (ip + 2)).

Definition decodeBool (ip : Z) (code : list Z) : res (bool * Z) :=
  let* (b, ip) := decodeByte ip code in Ok (b =? 1, ip).

Fixpoint decodeUint16Array_loop (n : nat) (ip : Z) (code : list Z) (values : list Z) : res (list Z * Z) :=
  match n with
  | O => Ok (values, ip)
  | S n' => let* (value, ip) := decodeUint16 ip code in
            decodeUint16Array_loop n' ip code (values ++ [value])
  end.
(* count := decodeUint16(ip, code); for i := 0; i < int(count); i++ { values = append(values, decodeUint16(ip, code)) } *)
Definition decodeUint16Array (ip : Z) (code : list Z) : res (list Z * Z) :=
  let* (count, ip) := decodeUint16 ip code in
  decodeUint16Array_loop (Z.to_nat count) ip code [].

Definition decodeUpvalue (ip : Z) (code : list Z) : res ((Z * bool) * Z) :=
  let* (targetIndex, ip) := decodeUint16 ip code in
  let* (isLocal, ip) := decodeBool ip code in
  Ok ((targetIndex, isLocal), ip).

Fixpoint decodeUpvalueArray_loop (n : nat) (ip : Z) (code : list Z) (ups : list (Z * bool))
    : res (list (Z * bool) * Z) :=
  match n with
  | O => Ok (ups, ip)
  | S n' => let* (u, ip) := decodeUpvalue ip code in
            decodeUpvalueArray_loop n' ip code (ups ++ [u])
  end.
Definition decodeUpvalueArray (ip : Z) (code : list Z) : res (list (Z * bool) * Z) :=
  let* (count, ip) := decodeUint16 ip code in
  decodeUpvalueArray_loop (Z.to_nat count) ip code [].

Definition decode (c : codec) (ip : Z) (code : list Z) : res (oval * Z) :=
  match c with
  | CBool => let* (b, ip) := decodeBool ip code in Ok (VBool b, ip)
  | CUint16 => let* (n, ip) := decodeUint16 ip code in Ok (VNum n, ip)
  | CCompositeKind => let* (n, ip) := decodeUint16 ip code in Ok (VNum n, ip)
  | CPathDomain => let* (n, ip) := decodeByte ip code in Ok (VNum n, ip)
  | CUint16Array => let* (l, ip) := decodeUint16Array ip code in Ok (VU16s l, ip)
  | CUpvalueArray => let* (l, ip) := decodeUpvalueArray ip code in Ok (VUps l, ip)
  end.

(* ---- the table and the generated functions ---- *)

Record entry := mk_entry {
  e_num : Z;                        (* value of the Opcode constant (position in the const block of opcode.go) *)
  e_name : string;                  (* Go constant / instruction name *)
  e_fields : list ftype;            (* struct fields of Instruction<Name>, in declaration order *)
  e_enc : list (nat * codec);       (* Encode: helper calls after emitOpcode, each with the field it writes *)
  e_dec : list (nat * codec);       (* Decode<Name>: helper calls, each with the field it assigns *)
  e_cases : list Z;                 (* opcodes whose case in DecodeInstruction returns this instruction *)
  e_yaml : list codec               (* helpers implied by the operand types in instructions.yml *)
}.

Definition instruction : Type := Z * list oval.   (* opcode, field values in declaration order *)

Fixpoint lookup_case (op : Z) (t : list entry) : option entry :=
  match t with
  | [] => None
  | e :: r => if existsb (Z.eqb op) (e_cases e) then Some e else lookup_case op r
  end.

Fixpoint lookup_num (op : Z) (t : list entry) : option entry :=
  match t with
  | [] => None
  | e :: r => if e_num e =? op then Some e else lookup_num op r
  end.

Definition default_val (f : ftype) : oval :=
  match f with
  | FBool => VBool false
  | FUint16 | FCompositeKind | FPathDomain => VNum 0
  | FUint16Array => VU16s []
  | FUpvalues => VUps []
  end.

Fixpoint emit_plan (plan : list (nat * codec)) (vals : list oval) : res (list Z) :=
  match plan with
  | [] => Ok []
  | (fi, c) :: r =>
    let* bs := emit c (nth fi vals (VNum 0)) in
    let* rest := emit_plan r vals in
    Ok (bs ++ rest)
  end.

(* func (i InstructionX) Encode(code *[]byte) { emitOpcode(code, i.Opcode()); emit..(code, i.F1); ... } *)
Definition encode_instruction (t : list entry) (i : instruction) : res (list Z) :=
  let '(op, vals) := i in
  match lookup_num op t with
  | None => Err Internal
  | Some e => let* bs := emit_plan (e_enc e) vals in Ok (op :: bs)
  end.

Fixpoint decode_plan (plan : list (nat * codec)) (ip : Z) (code : list Z) (acc : list (nat * oval))
    : res (list (nat * oval) * Z) :=
  match plan with
  | [] => Ok (acc, ip)
  | (fi, c) :: r =>
    let* (v, ip) := decode c ip code in
    decode_plan r ip code (acc ++ [(fi, v)])
  end.

(* the value of field fi after the assignments: the last assignment wins, unassigned fields keep Go's zero value *)
Fixpoint field_value (fi : nat) (assigned : list (nat * oval)) (dflt : oval) : oval :=
  match assigned with
  | [] => dflt
  | (k, v) :: r => field_value fi r (if Nat.eqb k fi then v else dflt)
  end.

Definition build_fields (fields : list ftype) (assigned : list (nat * oval)) : list oval :=
  map (fun p => field_value (fst p) assigned (default_val (snd p))) (combine (seq 0 (List.length fields)) fields).

(* func DecodeInstruction(ip *uint16, code []byte) Instruction {
     switch Opcode(decodeByte(ip, code)) { case X: return DecodeX(ip, code) ... }
     panic(errors.NewUnreachableError()) } *)
Definition decode_instruction (t : list entry) (ip : Z) (code : list Z) : res (instruction * Z) :=
  let* (op, ip) := decodeByte ip code in
  match lookup_case op t with
  | None => Err Internal
  | Some e =>
    let* (assigned, ip) := decode_plan (e_dec e) ip code [] in
    Ok ((e_num e, build_fields (e_fields e) assigned), ip)
  end.

(* func DecodeInstructions(code []byte) []Instruction {
     var ip uint16; for ip < uint16(len(code)) { instructions = append(instructions, DecodeInstruction(&ip, code)) } } *)
Fixpoint decode_instructions_loop (fuel : nat) (t : list entry) (ip : Z) (code : list Z) (acc : list instruction)
    : res (list instruction) :=
  if ip <? wrap16 (len code) then
    match fuel with
    | O => Err OutOfFuel
    | S f => let* (i, ip) := decode_instruction t ip code in
             decode_instructions_loop f t ip code (acc ++ [i])
    end
  else Ok acc.
Definition decode_instructions (t : list entry) (code : list Z) : res (list instruction) :=
  decode_instructions_loop (S (List.length code)) t 0 code [].
