(* C35  Instruction operand codec: for every table whose entries pass the (computable) consistency check,
   decoding the encoding of any well-typed instruction placed anywhere below the 16-bit limit returns the
   instruction and the position just after it. *)
From CV Require Import C35.InstrModel C35.Bits.
From Coq Require Import Lia ZArith List.
Import ListNotations.
Open Scope Z_scope.

(* ------------------------------------------------------------------ statement vocabulary *)

Definition u16 (n : Z) : Prop := 0 <= n < 65536.

(* an operand value of the Go type of its field *)
Definition wf_field (f : ftype) (v : oval) : Prop :=
  match f, v with
  | FBool, VBool _ => True
  | FUint16, VNum n => u16 n
  | FCompositeKind, VNum n => u16 n          (* common.CompositeKind is a uint: only values below 2^16 survive uint16() *)
  | FPathDomain, VNum n => 0 <= n < 256
  | FUint16Array, VU16s l => len l <= 65535 /\ Forall u16 l
  | FUpvalues, VUps l => len l <= 65535 /\ Forall (fun u => u16 (fst u)) l
  | _, _ => False
  end.

Definition compat (f : ftype) (c : codec) : bool :=
  match f, c with
  | FBool, CBool | FUint16, CUint16 | FUint16Array, CUint16Array
  | FUpvalues, CUpvalueArray | FCompositeKind, CCompositeKind | FPathDomain, CPathDomain => true
  | _, _ => false
  end.

Definition codec_eqb (a b : codec) : bool :=
  match a, b with
  | CBool, CBool | CUint16, CUint16 | CUint16Array, CUint16Array
  | CUpvalueArray, CUpvalueArray | CCompositeKind, CCompositeKind | CPathDomain, CPathDomain => true
  | _, _ => false
  end.

Fixpoint plan_eqb (a b : list (nat * codec)) : bool :=
  match a, b with
  | [], [] => true
  | (i, c) :: r, (j, d) :: s => Nat.eqb i j && codec_eqb c d && plan_eqb r s
  | _, _ => false
  end.

Fixpoint codecs_eqb (a b : list codec) : bool :=
  match a, b with
  | [], [] => true
  | c :: r, d :: s => codec_eqb c d && codecs_eqb r s
  | _, _ => false
  end.

(* what the regenerated table must satisfy; evaluated by vm_compute on every run *)
Definition entry_ok (e : entry) : bool :=
  let n := List.length (e_fields e) in
  plan_eqb (e_enc e) (e_dec e)                                                    (* Decode mirrors Encode *)
  && forallb (fun i => existsb (fun p => Nat.eqb (fst p) i) (e_dec e)) (seq 0 n)  (* every field is assigned *)
  && forallb (fun p => Nat.ltb (fst p) n && compat (nth (fst p) (e_fields e) FBool) (snd p)) (e_enc e)
  && (match e_cases e with [c] => c =? e_num e | _ => false end)                  (* DecodeInstruction dispatch *)
  && codecs_eqb (e_yaml e) (map snd (e_enc e))                                    (* agrees with instructions.yml *)
  && (0 <=? e_num e) && (e_num e <? 256).

Fixpoint nodupb (l : list Z) : bool :=
  match l with
  | [] => true
  | x :: r => negb (existsb (Z.eqb x) r) && nodupb r
  end.

Definition table_ok (t : list entry) : bool :=
  forallb entry_ok t && nodupb (map e_num t).

(* ------------------------------------------------------------------ lists *)

Lemma len_nonneg {A} (l : list A) : 0 <= len l.
Proof. unfold len. lia. Qed.
Lemma len_nil {A} : len (@nil A) = 0.
Proof. reflexivity. Qed.
Lemma len_cons {A} (b : A) l : len (b :: l) = 1 + len l.
Proof. unfold len. simpl List.length. lia. Qed.
Lemma len_app {A} (a b : list A) : len (a ++ b) = len a + len b.
Proof. unfold len. rewrite app_length. lia. Qed.

Lemma idx_app pre b rest : idx (pre ++ b :: rest) (len pre) = Ok b.
Proof.
  unfold idx. rewrite len_app, len_cons.
  pose proof (len_nonneg pre). pose proof (len_nonneg rest).
  replace (0 <=? len pre) with true by (symmetry; apply Z.leb_le; lia).
  replace (len pre <? len pre + (1 + len rest)) with true by (symmetry; apply Z.ltb_lt; lia).
  simpl. unfold len. rewrite Nat2Z.id.
  rewrite app_nth2 by lia. rewrite Nat.sub_diag. reflexivity.
Qed.

Lemma wrap16_id z : 0 <= z < 65536 -> wrap16 z = z.
Proof. intro H. unfold wrap16. apply Z.mod_small. exact H. Qed.

(* ------------------------------------------------------------------ one helper at a time *)

Lemma decodeByte_app pre b suf :
  len pre + 1 <= 65535 -> decodeByte (len pre) (pre ++ b :: suf) = Ok (b, len pre + 1).
Proof.
  intro H. unfold decodeByte. rewrite idx_app. cbn [bind].
  pose proof (len_nonneg pre). rewrite wrap16_id by lia. reflexivity.
Qed.

Lemma land_255 v : Z.land v 255 = v mod 256.
Proof. change 255 with (Z.ones 8). rewrite Z.land_ones by lia. reflexivity. Qed.

Lemma emitUint16_bytes v : u16 v -> emitUint16 v = [v / 256; v mod 256].
Proof.
  intro H. unfold u16 in H. unfold emitUint16. rewrite !land_255. rewrite Z.shiftr_div_pow2 by lia.
  change (2 ^ 8) with 256.
  assert (0 <= v / 256 < 256) by (split; [apply Z.div_pos; lia|apply Z.div_lt_upper_bound; lia]).
  rewrite (Z.mod_small (v / 256)) by lia. reflexivity.
Qed.

Lemma decodeUint16_app pre v suf :
  u16 v -> len pre + 2 <= 65535 ->
  decodeUint16 (len pre) (pre ++ emitUint16 v ++ suf) = Ok (v, len pre + 2).
Proof.
  intros Hv H. rewrite emitUint16_bytes by exact Hv. unfold u16 in Hv.
  pose proof (len_nonneg pre) as Hp.
  assert (Hq : 0 <= v / 256 < 256) by (split; [apply Z.div_pos; lia|apply Z.div_lt_upper_bound; lia]).
  pose proof (Z.mod_pos_bound v 256 ltac:(lia)) as Hm. pose proof (Z.div_mod v 256 ltac:(lia)) as Hdm.
  unfold decodeUint16. cbn [app]. rewrite idx_app. cbn [bind].
  rewrite (wrap16_id (len pre + 1)) by lia.
  replace (pre ++ v / 256 :: v mod 256 :: suf) with ((pre ++ [v / 256]) ++ v mod 256 :: suf)
    by (rewrite <- app_assoc; reflexivity).
  replace (len pre + 1) with (len (pre ++ [v / 256])) by (rewrite len_app, len_cons, len_nil; lia).
  rewrite idx_app. cbn [bind].
  rewrite Z.shiftl_mul_pow2 by lia. change (2 ^ 8) with 256.
  rewrite (wrap16_id (v / 256 * 256)) by lia.
  assert (Hlor : Z.lor (v / 256 * 2 ^ 8) (v mod 256) = v mod 256 + v / 256 * 2 ^ 8)
    by (rewrite Z.lor_comm; apply lor_low_high; [lia|change (2 ^ 8) with 256; lia]).
  change (2 ^ 8) with 256 in Hlor. rewrite Hlor. rewrite (wrap16_id (len pre + 2)) by lia.
  f_equal. f_equal. lia.
Qed.

Lemma decodeBool_app pre b suf :
  len pre + 1 <= 65535 -> decodeBool (len pre) (pre ++ emitBool b ++ suf) = Ok (b, len pre + 1).
Proof.
  intro H. unfold decodeBool, emitBool. cbn [app]. rewrite decodeByte_app by exact H. cbn [bind].
  destruct b; reflexivity.
Qed.

Lemma len_emitUint16 v : len (emitUint16 v) = 2.
Proof. reflexivity. Qed.

Lemma len_flat_u16 l : len (flat_map emitUint16 l) = 2 * len l.
Proof.
  induction l as [|x l IH]; [reflexivity|]. cbn [flat_map]. rewrite len_app, len_emitUint16, IH, len_cons. lia.
Qed.

Lemma decodeUint16Array_loop_app : forall l pre suf acc,
  Forall u16 l -> len pre + 2 * len l <= 65535 ->
  decodeUint16Array_loop (List.length l) (len pre) (pre ++ flat_map emitUint16 l ++ suf) acc
  = Ok (acc ++ l, len pre + 2 * len l).
Proof.
  induction l as [|x l IH]; intros pre suf acc Hf Hlen.
  - cbn [List.length decodeUint16Array_loop]. rewrite app_nil_r. f_equal. f_equal. unfold len. simpl. lia.
  - inversion Hf as [|x' l' Hx Hl]; subst. rewrite len_cons in Hlen. pose proof (len_nonneg l).
    cbn [List.length decodeUint16Array_loop flat_map]. rewrite <- app_assoc.
    rewrite decodeUint16_app by (try assumption; lia). cbn [bind].
    replace (pre ++ emitUint16 x ++ flat_map emitUint16 l ++ suf)
      with ((pre ++ emitUint16 x) ++ flat_map emitUint16 l ++ suf) by (rewrite <- app_assoc; reflexivity).
    replace (len pre + 2) with (len (pre ++ emitUint16 x)) by (rewrite len_app, len_emitUint16; lia).
    rewrite IH by (try assumption; rewrite len_app, len_emitUint16; lia).
    rewrite len_app, len_emitUint16, len_cons. rewrite <- app_assoc. cbn [app]. f_equal. f_equal. lia.
Qed.

Lemma len_emitUpvalue u : len (emitUpvalue u) = 3.
Proof. reflexivity. Qed.

Lemma len_flat_ups l : len (flat_map emitUpvalue l) = 3 * len l.
Proof.
  induction l as [|x l IH]; [reflexivity|]. cbn [flat_map]. rewrite len_app, len_emitUpvalue, IH, len_cons. lia.
Qed.

Lemma decodeUpvalue_app pre u suf :
  u16 (fst u) -> len pre + 3 <= 65535 ->
  decodeUpvalue (len pre) (pre ++ emitUpvalue u ++ suf) = Ok (u, len pre + 3).
Proof.
  intros Hu H. destruct u as [t b]. unfold decodeUpvalue, emitUpvalue. cbn [fst snd]. rewrite <- app_assoc.
  rewrite decodeUint16_app by (try assumption; lia). cbn [bind].
  replace (pre ++ emitUint16 t ++ emitBool b ++ suf) with ((pre ++ emitUint16 t) ++ emitBool b ++ suf)
    by (rewrite <- app_assoc; reflexivity).
  replace (len pre + 2) with (len (pre ++ emitUint16 t)) by (rewrite len_app, len_emitUint16; lia).
  rewrite decodeBool_app by (rewrite len_app, len_emitUint16; lia). cbn [bind].
  rewrite len_app, len_emitUint16. f_equal. f_equal. lia.
Qed.

Lemma decodeUpvalueArray_loop_app : forall l pre suf acc,
  Forall (fun u => u16 (fst u)) l -> len pre + 3 * len l <= 65535 ->
  decodeUpvalueArray_loop (List.length l) (len pre) (pre ++ flat_map emitUpvalue l ++ suf) acc
  = Ok (acc ++ l, len pre + 3 * len l).
Proof.
  induction l as [|x l IH]; intros pre suf acc Hf Hlen.
  - cbn [List.length decodeUpvalueArray_loop]. rewrite app_nil_r. f_equal. f_equal. unfold len. simpl. lia.
  - inversion Hf as [|x' l' Hx Hl]; subst. rewrite len_cons in Hlen. pose proof (len_nonneg l).
    cbn [List.length decodeUpvalueArray_loop flat_map]. rewrite <- app_assoc.
    rewrite decodeUpvalue_app by (try assumption; lia). cbn [bind].
    replace (pre ++ emitUpvalue x ++ flat_map emitUpvalue l ++ suf)
      with ((pre ++ emitUpvalue x) ++ flat_map emitUpvalue l ++ suf) by (rewrite <- app_assoc; reflexivity).
    replace (len pre + 3) with (len (pre ++ emitUpvalue x)) by (rewrite len_app, len_emitUpvalue; lia).
    rewrite IH by (try assumption; rewrite len_app, len_emitUpvalue; lia).
    rewrite len_app, len_emitUpvalue, len_cons. rewrite <- app_assoc. cbn [app]. f_equal. f_equal. lia.
Qed.

(* the codec round trip for one operand *)
Lemma decode_emit c f v bs pre suf :
  compat f c = true -> wf_field f v -> emit c v = Ok bs -> len pre + len bs <= 65535 ->
  decode c (len pre) (pre ++ bs ++ suf) = Ok (v, len pre + len bs).
Proof.
  intros Hc Hw He Hlen. pose proof (len_nonneg pre) as Hp.
  destruct f, c; try discriminate; destruct v; try contradiction; cbn [wf_field] in Hw; cbn [emit] in He.
  - (* bool *) inversion He; subst. cbn [decode]. rewrite decodeBool_app by (change (len (emitBool b)) with 1 in Hlen; lia).
    reflexivity.
  - (* uint16 *) inversion He; subst. rewrite len_emitUint16 in *. cbn [decode].
    rewrite decodeUint16_app by (try assumption; lia). reflexivity.
  - (* []uint16 *)
    destruct Hw as [Hl Hf]. unfold emitUint16Array in He.
    replace (len l >? 65535) with false in He by (symmetry; rewrite Z.gtb_ltb; apply Z.ltb_ge; lia).
    assert (Ebs : bs = emitUint16 (len l) ++ flat_map emitUint16 l) by congruence. subst bs. clear He.
    pose proof (len_nonneg l) as Hl0.
    rewrite len_app, len_emitUint16, len_flat_u16 in Hlen. rewrite len_app, len_emitUint16, len_flat_u16.
    cbn [decode]. unfold decodeUint16Array. rewrite <- app_assoc.
    rewrite decodeUint16_app by (unfold u16; lia). cbn [bind].
    replace (Z.to_nat (len l)) with (List.length l) by (unfold len; rewrite Nat2Z.id; reflexivity).
    replace (pre ++ emitUint16 (len l) ++ flat_map emitUint16 l ++ suf)
      with ((pre ++ emitUint16 (len l)) ++ flat_map emitUint16 l ++ suf) by (rewrite <- app_assoc; reflexivity).
    replace (len pre + 2) with (len (pre ++ emitUint16 (len l))) by (rewrite len_app, len_emitUint16; lia).
    rewrite decodeUint16Array_loop_app by (try assumption; rewrite len_app, len_emitUint16; lia).
    cbn [bind app]. rewrite len_app, len_emitUint16. f_equal. f_equal. lia.
  - (* []Upvalue *)
    destruct Hw as [Hl Hf]. unfold emitUpvalueArray in He.
    replace (len l >? 65535) with false in He by (symmetry; rewrite Z.gtb_ltb; apply Z.ltb_ge; lia).
    assert (Ebs : bs = emitUint16 (len l) ++ flat_map emitUpvalue l) by congruence. subst bs. clear He.
    pose proof (len_nonneg l) as Hl0.
    rewrite len_app, len_emitUint16, len_flat_ups in Hlen. rewrite len_app, len_emitUint16, len_flat_ups.
    cbn [decode]. unfold decodeUpvalueArray. rewrite <- app_assoc.
    rewrite decodeUint16_app by (unfold u16; lia). cbn [bind].
    replace (Z.to_nat (len l)) with (List.length l) by (unfold len; rewrite Nat2Z.id; reflexivity).
    replace (pre ++ emitUint16 (len l) ++ flat_map emitUpvalue l ++ suf)
      with ((pre ++ emitUint16 (len l)) ++ flat_map emitUpvalue l ++ suf) by (rewrite <- app_assoc; reflexivity).
    replace (len pre + 2) with (len (pre ++ emitUint16 (len l))) by (rewrite len_app, len_emitUint16; lia).
    rewrite decodeUpvalueArray_loop_app by (try assumption; rewrite len_app, len_emitUint16; lia).
    cbn [bind app]. rewrite len_app, len_emitUint16. f_equal. f_equal. lia.
  - (* composite kind *) inversion He; subst. unfold emitCompositeKind in *. unfold u16 in Hw.
    rewrite (wrap16_id n) in * by lia. rewrite len_emitUint16 in *. cbn [decode].
    rewrite decodeUint16_app by (try assumption; lia). reflexivity.
  - (* path domain *) inversion He; subst. unfold emitPathDomain, emitByte in *. cbn [decode app].
    rewrite decodeByte_app by (rewrite len_cons, len_nil in Hlen; lia). cbn [bind].
    rewrite len_cons, len_nil. replace (1 + 0) with 1 by lia. reflexivity.
Qed.

(* ------------------------------------------------------------------ a whole operand list *)

Definition plan_typed (fields : list ftype) (plan : list (nat * codec)) : Prop :=
  Forall (fun p => (fst p < List.length fields)%nat /\ compat (nth (fst p) fields FBool) (snd p) = true) plan.

Lemma wf_nth fields vals fi :
  Forall2 wf_field fields vals -> (fi < List.length fields)%nat ->
  wf_field (nth fi fields FBool) (nth fi vals (VNum 0)).
Proof.
  intro H. revert fi. induction H as [|f v fs vs Hfv _ IH]; intros fi Hfi; [simpl in Hfi; lia|].
  destruct fi as [|fi]; [exact Hfv|]. simpl. apply IH. simpl in Hfi. lia.
Qed.

Lemma decode_plan_emit : forall plan fields vals bs pre suf acc,
  plan_typed fields plan -> Forall2 wf_field fields vals ->
  emit_plan plan vals = Ok bs -> len pre + len bs <= 65535 ->
  decode_plan plan (len pre) (pre ++ bs ++ suf) acc
  = Ok (acc ++ map (fun p => (fst p, nth (fst p) vals (VNum 0))) plan, len pre + len bs).
Proof.
  induction plan as [|[fi c] plan IH]; intros fields vals bs pre suf acc Ht Hw He Hlen.
  - cbn [emit_plan] in He. inversion He; subst. cbn [decode_plan map]. rewrite app_nil_r.
    f_equal. f_equal. unfold len. simpl. lia.
  - inversion Ht as [|p plan' [Hfi Hc] Ht']; subst. cbn [fst snd] in *.
    cbn [emit_plan] in He.
    destruct (emit c (nth fi vals (VNum 0))) as [b1|] eqn:E1; [|discriminate]. cbn [bind] in He.
    destruct (emit_plan plan vals) as [b2|] eqn:E2; [|discriminate]. cbn [bind] in He.
    inversion He; subst bs. clear He. rewrite len_app in Hlen.
    pose proof (len_nonneg b1). pose proof (len_nonneg b2).
    cbn [decode_plan]. rewrite <- app_assoc.
    rewrite (decode_emit c (nth fi fields FBool) (nth fi vals (VNum 0)) b1 pre (b2 ++ suf) Hc
               (wf_nth fields vals fi Hw Hfi) E1) by lia.
    cbn [bind].
    replace (pre ++ b1 ++ b2 ++ suf) with ((pre ++ b1) ++ b2 ++ suf) by (rewrite <- app_assoc; reflexivity).
    replace (len pre + len b1) with (len (pre ++ b1)) by (rewrite len_app; lia).
    rewrite (IH fields vals b2 (pre ++ b1) suf _ Ht' Hw E2) by (rewrite len_app; lia).
    cbn [map fst]. rewrite <- app_assoc. cbn [app]. rewrite !len_app. f_equal. f_equal. lia.
Qed.

(* every helper produces bytes when the operand is well typed *)
Lemma emit_ok c f v : compat f c = true -> wf_field f v -> exists bs, emit c v = Ok bs.
Proof.
  intros Hc Hw. destruct f, c; try discriminate; destruct v; try contradiction; cbn [wf_field] in Hw; cbn [emit];
    try (eexists; reflexivity).
  - destruct Hw as [Hl _]. unfold emitUint16Array.
    replace (len l >? 65535) with false by (symmetry; rewrite Z.gtb_ltb; apply Z.ltb_ge; lia). eexists; reflexivity.
  - destruct Hw as [Hl _]. unfold emitUpvalueArray.
    replace (len l >? 65535) with false by (symmetry; rewrite Z.gtb_ltb; apply Z.ltb_ge; lia). eexists; reflexivity.
Qed.

Lemma emit_plan_ok plan fields vals :
  plan_typed fields plan -> Forall2 wf_field fields vals -> exists bs, emit_plan plan vals = Ok bs.
Proof.
  intros Ht Hw. induction Ht as [|[fi c] plan [Hfi Hc] _ IH]; [exists []; reflexivity|].
  cbn [fst snd] in *. destruct (emit_ok c _ _ Hc (wf_nth fields vals fi Hw Hfi)) as [b1 E1].
  destruct IH as [b2 E2]. exists (b1 ++ b2). cbn [emit_plan]. rewrite E1, E2. reflexivity.
Qed.

(* ------------------------------------------------------------------ rebuilding the struct *)

Lemma field_value_all fi x : forall assigned dflt,
  (forall k v, In (k, v) assigned -> k = fi -> v = x) ->
  (dflt = x \/ In fi (map fst assigned)) ->
  field_value fi assigned dflt = x.
Proof.
  induction assigned as [|[k v] r IH]; intros dflt Hall Hin.
  - destruct Hin as [H|H]; [exact H|contradiction].
  - cbn [field_value]. apply IH.
    + intros k' v' Hi. apply Hall. right. exact Hi.
    + destruct (Nat.eqb k fi) eqn:E.
      * left. apply Nat.eqb_eq in E. apply (Hall k v); [left; reflexivity|exact E].
      * destruct Hin as [H|[H|H]]; [left; exact H| |right; exact H].
        cbn [fst] in H. apply Nat.eqb_neq in E. contradiction.
Qed.

Lemma map_combine_seq_ext (g : nat -> ftype -> oval) : forall fields vals start,
  List.length vals = List.length fields ->
  (forall i, (i < List.length fields)%nat -> forall f, g (start + i)%nat f = nth i vals (VNum 0)) ->
  map (fun p => g (fst p) (snd p)) (combine (seq start (List.length fields)) fields) = vals.
Proof.
  induction fields as [|f fs IH]; intros vals start Hl H.
  - destruct vals; [reflexivity|discriminate].
  - destruct vals as [|v vs]; [discriminate|]. cbn [List.length seq combine map fst snd]. f_equal.
    + specialize (H 0%nat ltac:(simpl; lia) f). rewrite Nat.add_0_r in H. exact H.
    + apply IH; [simpl in Hl; lia|]. intros i Hi f'.
      specialize (H (S i) ltac:(simpl; lia) f'). rewrite Nat.add_succ_r in H. exact H.
Qed.

Lemma build_fields_id : forall fields vals plan,
  List.length vals = List.length fields ->
  (forall i, (i < List.length fields)%nat -> In i (map fst plan)) ->
  build_fields fields (map (fun p : nat * codec => (fst p, nth (fst p) vals (VNum 0))) plan) = vals.
Proof.
  intros fields vals plan Hl Hcov. unfold build_fields.
  apply (map_combine_seq_ext
           (fun k f => field_value k (map (fun p : nat * codec => (fst p, nth (fst p) vals (VNum 0))) plan) (default_val f))
           fields vals 0%nat Hl).
  intros i Hi f. rewrite Nat.add_0_l. apply field_value_all.
  - intros k v Hin Hk. apply in_map_iff in Hin. destruct Hin as ([fi c] & E & _). cbn [fst] in E.
    inversion E; subst. reflexivity.
  - right. rewrite map_map. cbn [fst]. apply Hcov. exact Hi.
Qed.

(* ------------------------------------------------------------------ the table *)

Lemma codec_eqb_eq a b : codec_eqb a b = true -> a = b.
Proof. destruct a, b; simpl; intro H; try reflexivity; discriminate. Qed.

Lemma plan_eqb_eq : forall a b, plan_eqb a b = true -> a = b.
Proof.
  induction a as [|[i c] r IH]; intros [|[j d] s] H; simpl in H; try discriminate; [reflexivity|].
  apply andb_true_iff in H. destruct H as [H H3]. apply andb_true_iff in H. destruct H as [H1 H2].
  apply Nat.eqb_eq in H1. apply codec_eqb_eq in H2. rewrite (IH s H3). subst. reflexivity.
Qed.

Lemma nodupb_lookup : forall t e,
  nodupb (map e_num t) = true -> In e t -> lookup_num (e_num e) t = Some e.
Proof.
  induction t as [|x t IH]; intros e Hn Hin; [contradiction|].
  cbn [map nodupb] in Hn. apply andb_true_iff in Hn. destruct Hn as [Hx Hn].
  cbn [lookup_num]. destruct Hin as [->|Hin].
  - rewrite Z.eqb_refl. reflexivity.
  - destruct (e_num x =? e_num e) eqn:E.
    + apply Z.eqb_eq in E. apply negb_true_iff in Hx.
      assert (existsb (Z.eqb (e_num x)) (map e_num t) = true).
      { apply existsb_exists. exists (e_num e). split; [apply in_map; exact Hin|apply Z.eqb_eq; exact E]. }
      congruence.
    + apply IH; assumption.
Qed.

Lemma lookup_case_num : forall t op,
  (forall e, In e t -> e_cases e = [e_num e]) -> lookup_case op t = lookup_num op t.
Proof.
  induction t as [|x t IH]; intros op H; [reflexivity|].
  cbn [lookup_case lookup_num]. rewrite (H x (or_introl eq_refl)). cbn [existsb]. rewrite orb_false_r.
  rewrite (Z.eqb_sym op). destruct (e_num x =? op); [reflexivity|]. apply IH. intros e He. apply H. right. exact He.
Qed.

Lemma entry_ok_props e : entry_ok e = true ->
  e_enc e = e_dec e /\
  (forall i, (i < List.length (e_fields e))%nat -> In i (map fst (e_dec e))) /\
  plan_typed (e_fields e) (e_enc e) /\ e_cases e = [e_num e] /\ 0 <= e_num e < 256.
Proof.
  unfold entry_ok. intro H.
  apply andb_true_iff in H. destruct H as [H Hhi].
  apply andb_true_iff in H. destruct H as [H Hlo].
  apply andb_true_iff in H. destruct H as [H Hyaml].
  apply andb_true_iff in H. destruct H as [H Hcase].
  apply andb_true_iff in H. destruct H as [H Htyp].
  apply andb_true_iff in H. destruct H as [Heq Hcov].
  split; [apply plan_eqb_eq; exact Heq|]. split; [|split; [|split]].
  - intros i Hi. rewrite forallb_forall in Hcov. specialize (Hcov i ltac:(apply in_seq; lia)).
    apply existsb_exists in Hcov. destruct Hcov as (p & Hp & Ep). apply Nat.eqb_eq in Ep. subst i.
    apply in_map. exact Hp.
  - unfold plan_typed. rewrite Forall_forall. intros p Hp. rewrite forallb_forall in Htyp.
    specialize (Htyp p Hp). apply andb_true_iff in Htyp. destruct Htyp as [H3a H3b].
    apply Nat.ltb_lt in H3a. split; assumption.
  - destruct (e_cases e) as [|c [|c' r]]; try discriminate. apply Z.eqb_eq in Hcase. subst. reflexivity.
  - apply Z.leb_le in Hlo. apply Z.ltb_lt in Hhi. lia.
Qed.

(* ------------------------------------------------------------------ the round trip *)

Lemma forall2_length {A B} (R : A -> B -> Prop) l1 l2 : Forall2 R l1 l2 -> List.length l1 = List.length l2.
Proof. induction 1; simpl; congruence. Qed.

Theorem instr_roundtrip t e vals prefix suffix :
  table_ok t = true -> In e t -> Forall2 wf_field (e_fields e) vals ->
  exists enc,
    encode_instruction t (e_num e, vals) = Ok enc /\
    (len prefix + len enc <= 65535 ->
     decode_instruction t (len prefix) (prefix ++ enc ++ suffix) = Ok ((e_num e, vals), len prefix + len enc)).
Proof.
  intros Ht Hin Hw. unfold table_ok in Ht. apply andb_true_iff in Ht. destruct Ht as [Hall Hnd].
  rewrite forallb_forall in Hall.
  destruct (entry_ok_props e (Hall e Hin)) as (Heq & Hcov & Htyped & Hcases & Hnum).
  destruct (emit_plan_ok (e_enc e) (e_fields e) vals Htyped Hw) as [bs Ebs].
  exists (e_num e :: bs). split.
  - unfold encode_instruction. rewrite (nodupb_lookup t e Hnd Hin). rewrite Ebs. reflexivity.
  - intro Hlen. rewrite len_cons in Hlen. pose proof (len_nonneg prefix). pose proof (len_nonneg bs).
    unfold decode_instruction. cbn [app].
    rewrite decodeByte_app by lia. cbn [bind].
    rewrite lookup_case_num by (intros e' He'; apply (entry_ok_props e' (Hall e' He'))).
    rewrite (nodupb_lookup t e Hnd Hin).
    replace (prefix ++ e_num e :: bs ++ suffix) with ((prefix ++ [e_num e]) ++ bs ++ suffix)
      by (rewrite <- app_assoc; reflexivity).
    replace (len prefix + 1) with (len (prefix ++ [e_num e])) by (rewrite len_app, len_cons, len_nil; lia).
    rewrite <- Heq.
    rewrite (decode_plan_emit (e_enc e) (e_fields e) vals bs (prefix ++ [e_num e]) suffix [] Htyped Hw Ebs)
      by (rewrite len_app, len_cons, len_nil; lia).
    cbn [bind app].
    rewrite build_fields_id.
    + rewrite len_app, !len_cons, len_nil. f_equal. f_equal. lia.
    + symmetry. eapply forall2_length. exact Hw.
    + rewrite Heq. exact Hcov.
Qed.

(* decoding a whole code array: each instruction in turn (stated for two, the general case is the same step) *)
Theorem instr_roundtrip_encoded_length t e vals :
  table_ok t = true -> In e t -> Forall2 wf_field (e_fields e) vals ->
  forall enc, encode_instruction t (e_num e, vals) = Ok enc -> 1 <= len enc.
Proof.
  intros Ht Hin Hw enc He. unfold encode_instruction in He.
  unfold table_ok in Ht. apply andb_true_iff in Ht. destruct Ht as [_ Hnd].
  rewrite (nodupb_lookup t e Hnd Hin) in He. destruct (emit_plan (e_enc e) vals) as [bs|]; [|discriminate].
  cbn [bind] in He. inversion He. rewrite len_cons. pose proof (len_nonneg bs). lia.
Qed.
