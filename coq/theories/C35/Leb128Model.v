(* C35  Code-shaped model of bbq/leb128/leb128.go.
   The Go file has one copy of each function per width (32 / 64 bits) with identical control flow; the
   model is that control flow once, parameterised by the width [bits] and by the constant
   max32bitByteCount = 5 / max64bitByteCount = 10 [nb].
   Go fixed-width arithmetic is explicit: [wrap_u bits] after every unsigned shift-left / or,
   [wrap_s bits] after every signed add / shift-left. A Go []byte is a list of Z. *)
From CV Require Export Base.Prelude.

Definition wrap_u (bits z : Z) : Z := z mod 2 ^ bits.
Definition wrap_s (bits z : Z) : Z := (z + 2 ^ (bits - 1)) mod 2 ^ bits - 2 ^ (bits - 1).

Definition len (l : list Z) : Z := Z.of_nat (length l).
Definition idx (l : list Z) (i : Z) : res Z :=
  if (0 <=? i) && (i <? len l) then Ok (nth (Z.to_nat i) l 0) else Err Crash.

(* ---- unsigned ----
   func AppendUint32(data []byte, v uint32) []byte {
     if v < 128 { return append(data, uint8(v)) }
     more := true
     for more { c := uint8(v & 0x7f); v >>= 7; more = v != 0; if more { c |= 0x80 }; data = append(data, c) }
     return data }
   The loop is bounded by fuel; the theorems show [nb] iterations always suffice. *)
Fixpoint append_u_loop (fuel : nat) (data : list Z) (v : Z) : res (list Z) :=
  match fuel with
  | O => Err OutOfFuel
  | S f =>
    let c := Z.land v 127 in
    let v := Z.shiftr v 7 in
    let more := negb (v =? 0) in
    let c := if more then Z.lor c 128 else c in
    let data := data ++ [c] in
    if more then append_u_loop f data v else Ok data
  end.

Definition append_uint (nb : nat) (data : list Z) (v : Z) : res (list Z) :=
  if v <? 128 then Ok (data ++ [v]) else append_u_loop nb data v.

(* func ReadUint32(data []byte) (result uint32, count int, err error) {
     var shift uint
     for i := range max32bitByteCount {
       if i >= len(data) { return 0, 0, error }
       b := data[i]; count++
       result |= (uint32(b & 0x7F)) << shift
       if b&0x80 == 0 { break }
       shift += 7 }
     return result, count, nil } *)
Fixpoint read_u_loop (bits : Z) (n : nat) (i : Z) (data : list Z) (result shift count : Z) : res (Z * Z) :=
  match n with
  | O => Ok (result, count)
  | S n' =>
    if i >=? len data then Err UserOther else
    let* b := idx data i in
    let count := count + 1 in
    let result := Z.lor result (wrap_u bits (Z.shiftl (Z.land b 127) shift)) in
    if Z.land b 128 =? 0 then Ok (result, count)
    else read_u_loop bits n' (i + 1) data result (shift + 7) count
  end.

Definition read_uint (bits : Z) (nb : nat) (data : list Z) : res (Z * Z) :=
  read_u_loop bits nb 0 data 0 0 0.

(* func AppendUint32FixedLength(data []byte, v uint32, length int) ([]byte, error) {
     for i := range length { c := uint8(v & 0x7f); v >>= 7; if i < length-1 { c |= 0x80 }; data = append(data, c) }
     if v != 0 { return nil, error }
     return data, nil } *)
Fixpoint append_fixed_loop (n : nat) (i length : Z) (data : list Z) (v : Z) : list Z * Z :=
  match n with
  | O => (data, v)
  | S n' =>
    let c := Z.land v 127 in
    let v := Z.shiftr v 7 in
    let c := if i <? length - 1 then Z.lor c 128 else c in
    append_fixed_loop n' (i + 1) length (data ++ [c]) v
  end.

Definition append_uint_fixed (data : list Z) (v length : Z) : res (list Z) :=
  let '(data, v) := append_fixed_loop (Z.to_nat length) 0 length data v in
  if negb (v =? 0) then Err UserOther else Ok data.

(* ---- signed ----
   func AppendInt32(data []byte, v int32) []byte {
     more := true
     for more {
       c := uint8(v & 0x7f); sign := uint8(v & 0x40); v >>= 7
       more = !((v == 0 && sign == 0) || (v == -1 && sign != 0))
       if more { c |= 0x80 }
       data = append(data, c) }
     return data }
   (Z.land / Z.shiftr on negative Z are two's complement and arithmetic shift, as in Go.) *)
Fixpoint append_s_loop (fuel : nat) (data : list Z) (v : Z) : res (list Z) :=
  match fuel with
  | O => Err OutOfFuel
  | S f =>
    let c := Z.land v 127 in
    let sign := Z.land v 64 in
    let v := Z.shiftr v 7 in
    let more := negb (((v =? 0) && (sign =? 0)) || ((v =? -1) && negb (sign =? 0))) in
    let c := if more then Z.lor c 128 else c in
    let data := data ++ [c] in
    if more then append_s_loop f data v else Ok data
  end.

Definition append_int (nb : nat) (data : list Z) (v : Z) : res (list Z) := append_s_loop nb data v.

(* func ReadInt32(data []byte) (result int32, count int, err error) {
     var b byte = 0x80
     var signBits int32 = -1
     for i := 0; (b&0x80 == 0x80) && i < max32bitByteCount; i++ {
       if i >= len(data) { return 0, 0, error }
       b = data[i]; count++
       result += int32(b&0x7f) << (i * 7)
       signBits <<= 7 }
     if ((signBits >> 1) & result) != 0 { result += signBits }
     return result, count, nil } *)
Fixpoint read_s_loop (bits : Z) (n : nat) (i : Z) (data : list Z) (b result signBits count : Z)
    : res (Z * Z * Z) :=
  match n with
  | O => Ok (result, signBits, count)
  | S n' =>
    if negb (Z.land b 128 =? 128) then Ok (result, signBits, count) else
    if i >=? len data then Err UserOther else
    let* b := idx data i in
    let count := count + 1 in
    let result := wrap_s bits (result + wrap_s bits (Z.shiftl (Z.land b 127) (i * 7))) in
    let signBits := wrap_s bits (Z.shiftl signBits 7) in
    read_s_loop bits n' (i + 1) data b result signBits count
  end.

Definition read_int (bits : Z) (nb : nat) (data : list Z) : res (Z * Z) :=
  let* (result, signBits, count) := read_s_loop bits nb 0 data 128 0 (-1) 0 in
  let result :=
    if negb (Z.land (Z.shiftr signBits 1) result =? 0) then wrap_s bits (result + signBits) else result in
  Ok (result, count).

(* the four instances of the Go package *)
Definition AppendUint32 := append_uint 5.
Definition AppendUint64 := append_uint 10.
Definition ReadUint32 := read_uint 32 5.
Definition ReadUint64 := read_uint 64 10.
Definition AppendInt32 := append_int 5.
Definition AppendInt64 := append_int 10.
Definition ReadInt32 := read_int 32 5.
Definition ReadInt64 := read_int 64 10.
