(* C35  Check functions for the per-run correspondence case files. *)
From CV Require Export C35.Leb128Model.
From CV Require Export C35.InstrModel Gen.GenC35Opcodes.
Local Open Scope list_scope.

Definition lz_eqb (a b : list Z) : bool :=
  (Nat.eqb (List.length a) (List.length b)) && forallb (fun p => fst p =? snd p) (combine a b).

(* ---- LEB128 ---- kinds: 0 = uint32, 1 = uint64, 2 = int32, 3 = int64 *)
Definition leb_append (k : Z) : list Z -> Z -> res (list Z) :=
  if k =? 0 then AppendUint32 else if k =? 1 then AppendUint64 else if k =? 2 then AppendInt32 else AppendInt64.
Definition leb_read (k : Z) : list Z -> res (Z * Z) :=
  if k =? 0 then ReadUint32 else if k =? 1 then ReadUint64 else if k =? 2 then ReadInt32 else ReadInt64.

Definition pair_eqb (a b : Z * Z) : bool := (fst a =? fst b) && (snd a =? snd b).

(* (kind, v, data before, bytes appended by the real Append, bytes placed after, real Read result) *)
Definition check_leb (c : Z * Z * list Z * list Z * list Z * res (Z * Z)) : bool :=
  let '(k, v, pre, enc, rest, rd) := c in
  res_eqb lz_eqb (leb_append k pre v) (Ok (pre ++ enc)) && res_eqb pair_eqb (leb_read k (enc ++ rest)) rd.

(* Read on arbitrary bytes: (kind, data, observed) *)
Definition check_leb_read (c : Z * list Z * res (Z * Z)) : bool :=
  let '(k, data, rd) := c in res_eqb pair_eqb (leb_read k data) rd.

(* AppendUint32FixedLength: (v, length, observed bytes or error, ReadUint32 of the bytes) *)
Definition check_leb_fixed (c : Z * Z * res (list Z)) : bool :=
  let '(v, length, obs) := c in res_eqb lz_eqb (append_uint_fixed [] v length) obs.

(* ---- instructions ---- *)
Definition ups_eqb (a b : list (Z * bool)) : bool :=
  (Nat.eqb (List.length a) (List.length b)) &&
  forallb (fun p => (fst (fst p) =? fst (snd p)) && Bool.eqb (snd (fst p)) (snd (snd p))) (combine a b).

Definition oval_eqb (a b : oval) : bool :=
  match a, b with
  | VBool x, VBool y => Bool.eqb x y
  | VNum x, VNum y => x =? y
  | VU16s x, VU16s y => lz_eqb x y
  | VUps x, VUps y => ups_eqb x y
  | _, _ => false
  end.

Definition vals_eqb (a b : list oval) : bool :=
  (Nat.eqb (List.length a) (List.length b)) && forallb (fun p => oval_eqb (fst p) (snd p)) (combine a b).

Definition decoded_eqb (a b : instruction * Z) : bool :=
  (fst (fst a) =? fst (fst b)) && vals_eqb (snd (fst a)) (snd (fst b)) && (snd a =? snd b).

(* a random instruction built in Go: (opcode, field values, prefix length, bytes produced by the real Encode);
   the model must produce the same bytes and decode them back at the same position *)
Definition check_instr (c : Z * list oval * Z * list Z) : bool :=
  let '(op, vals, plen, bytes) := c in
  res_eqb lz_eqb (encode_instruction gen_opcodes (op, vals)) (Ok bytes) &&
  res_eqb decoded_eqb
    (decode_instruction gen_opcodes plen (repeat 0 (Z.to_nat plen) ++ bytes ++ [255]))
    (Ok ((op, vals), plen + len bytes)).

(* the real DecodeInstruction on arbitrary bytes: code = pad zero bytes ++ tail, at position ip *)
Definition check_decode (c : Z * list Z * Z * res (Z * list oval * Z)) : bool :=
  let '(pad, tail, ip, obs) := c in
  let obs' := match obs with Ok (op, vals, ip') => Ok ((op, vals), ip') | Err e => Err e end in
  res_eqb decoded_eqb (decode_instruction gen_opcodes ip (repeat 0 (Z.to_nat pad) ++ tail)) obs'.
