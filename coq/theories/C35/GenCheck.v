(* C35  The table regenerated from the current source passes the consistency check (evaluated on every run). *)
From CV Require Import C35.InstrModel C35.InstrProofs Gen.GenC35Opcodes.

Lemma gen_table_ok : table_ok gen_opcodes = true.
Proof. vm_compute. reflexivity. Qed.

(* every Opcode constant of opcode.go is the number of exactly one instruction of the table *)
Lemma gen_constants_covered :
  forallb (fun p => existsb (fun e => e_num e =? snd p) gen_opcodes) gen_opcode_constants = true.
Proof. vm_compute. reflexivity. Qed.

Theorem gen_instr_roundtrip e vals prefix suffix :
  In e gen_opcodes -> Forall2 wf_field (e_fields e) vals ->
  exists enc,
    encode_instruction gen_opcodes (e_num e, vals) = Ok enc /\
    (len prefix + len enc <= 65535 ->
     decode_instruction gen_opcodes (len prefix) (prefix ++ enc ++ suffix)
     = Ok ((e_num e, vals), len prefix + len enc)).
Proof. intros. apply instr_roundtrip; [exact gen_table_ok|assumption|assumption]. Qed.
