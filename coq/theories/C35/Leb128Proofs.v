(* C35  LEB128: the transcribed loops compute the standard encoding, and reading it back returns the
   value and the number of bytes, for EVERY value of the type (induction on the 7-bit groups). *)
From CV Require Import C35.Leb128Model C35.Bits.
From Coq Require Import Lia ZArith List.
Import ListNotations.
Open Scope Z_scope.

(* ------------------------------------------------------------------ specification: LEB128 *)

(* unsigned: 7 bits per byte, least significant group first, bit 7 = "more groups follow" *)
Fixpoint enc_u (fuel : nat) (v : Z) : list Z :=
  match fuel with
  | O => []
  | S f => if v <? 128 then [v] else (v mod 128 + 128) :: enc_u f (v / 128)
  end.

(* signed: stop as soon as the remaining value is just the sign extension of bit 6 *)
Fixpoint enc_s (fuel : nat) (v : Z) : list Z :=
  match fuel with
  | O => []
  | S f => if (-64 <=? v) && (v <? 64) then [v mod 128] else (v mod 128 + 128) :: enc_s f (v / 128)
  end.

(* ------------------------------------------------------------------ lists *)

Lemma len_nonneg l : 0 <= len l.
Proof. unfold len. lia. Qed.
Lemma len_nil : len [] = 0.
Proof. reflexivity. Qed.
Lemma len_cons b l : len (b :: l) = 1 + len l.
Proof. unfold len. simpl length. lia. Qed.
Lemma len_app a b : len (a ++ b) = len a + len b.
Proof. unfold len. rewrite app_length. lia. Qed.

Lemma idx_app pre b rest : idx (pre ++ b :: rest) (len pre) = Ok b.
Proof.
  unfold idx. rewrite len_app, len_cons.
  pose proof (len_nonneg pre). pose proof (len_nonneg rest).
  replace (0 <=? len pre) with true by (symmetry; apply Z.leb_le; lia).
  replace (len pre <? len pre + (1 + len rest)) with true by (symmetry; apply Z.ltb_lt; lia).
  simpl. unfold len. rewrite Nat2Z.id.
  rewrite app_nth2 by lia. rewrite Nat.sub_diag. reflexivity.
Qed.

(* ------------------------------------------------------------------ bit facts *)

Lemma land_127 v : Z.land v 127 = v mod 128.
Proof. change 127 with (Z.ones 7). rewrite Z.land_ones by lia. reflexivity. Qed.

Lemma shiftr_7 v : Z.shiftr v 7 = v / 128.
Proof. rewrite Z.shiftr_div_pow2 by lia. reflexivity. Qed.

Lemma shiftl_mul a n : 0 <= n -> Z.shiftl a n = a * 2 ^ n.
Proof. intro H. apply Z.shiftl_mul_pow2. exact H. Qed.

Lemma lor_128 c : 0 <= c < 128 -> Z.lor c 128 = c + 128.
Proof. intro H. change 128 with (1 * 2 ^ 7) at 1. rewrite lor_low_high; lia. Qed.

(* facts about one byte, by exhaustion of the 256 values *)
Fixpoint upto (n : nat) : list Z := match n with O => [] | S k => upto k ++ [Z.of_nat k] end.

Lemma in_upto n b : 0 <= b < Z.of_nat n -> In b (upto n).
Proof.
  induction n as [|n IH]; intro H; [lia|]. simpl. apply in_or_app.
  destruct (Z.eq_dec b (Z.of_nat n)) as [->|Hne]; [right; left; reflexivity|left; apply IH; lia].
Qed.

Lemma byte_facts b : 0 <= b < 256 ->
  Z.land b 128 = (if b <? 128 then 0 else 128) /\ Z.land b 64 = (if b mod 128 <? 64 then 0 else 64).
Proof.
  intro H.
  assert (Hall : forallb (fun b => (Z.land b 128 =? (if b <? 128 then 0 else 128)) &&
                                   (Z.land b 64 =? (if b mod 128 <? 64 then 0 else 64))) (upto 256) = true)
    by (vm_compute; reflexivity).
  rewrite forallb_forall in Hall. specialize (Hall b (in_upto 256 b H)).
  apply andb_true_iff in Hall. destruct Hall as [H1 H2]. apply Z.eqb_eq in H1, H2. split; assumption.
Qed.

Lemma land_64 v : Z.land v 64 = (if v mod 128 <? 64 then 0 else 64).
Proof.
  replace (Z.land v 64) with (Z.land (Z.land v 127) 64)
    by (rewrite <- Z.land_assoc; reflexivity).
  rewrite land_127. pose proof (Z.mod_pos_bound v 128 ltac:(lia)) as Hm.
  destruct (byte_facts (v mod 128) ltac:(lia)) as [_ H]. rewrite H. rewrite Z.mod_mod by lia. reflexivity.
Qed.

Ltac decide_b c v :=
  replace c with v by (symmetry;
    first [ apply Z.leb_le; lia | apply Z.leb_gt; lia | apply Z.ltb_lt; lia | apply Z.ltb_ge; lia
          | apply Z.eqb_eq; lia | apply Z.eqb_neq; lia
          | rewrite Z.geb_leb; first [apply Z.leb_le; lia | apply Z.leb_gt; lia] ]).

(* ------------------------------------------------------------------ unsigned: append *)

Lemma pow128_succ f : 128 ^ Z.of_nat (S f) = 128 * 128 ^ Z.of_nat f.
Proof. rewrite Nat2Z.inj_succ. rewrite Z.pow_succ_r by lia. reflexivity. Qed.

Lemma append_u_loop_enc f : forall data v,
  0 < v < 128 ^ Z.of_nat f -> append_u_loop f data v = Ok (data ++ enc_u f v).
Proof.
  induction f as [|f IH]; intros data v Hv.
  - simpl in Hv. lia.
  - rewrite pow128_succ in Hv. cbn [append_u_loop enc_u].
    rewrite land_127, shiftr_7.
    pose proof (Z.mod_pos_bound v 128 ltac:(lia)) as Hm. pose proof (Z.div_mod v 128 ltac:(lia)) as Hdm.
    destruct (v <? 128) eqn:E.
    + apply Z.ltb_lt in E. rewrite Z.div_small by lia. simpl. rewrite Z.mod_small by lia. reflexivity.
    + apply Z.ltb_ge in E.
      assert (Hq : 0 < v / 128 < 128 ^ Z.of_nat f).
      { split; [apply Z.div_str_pos; lia|apply Z.div_lt_upper_bound; lia]. }
      decide_b (v / 128 =? 0) false. simpl negb. cbv iota.
      rewrite lor_128 by lia. rewrite IH by exact Hq. rewrite <- app_assoc. reflexivity.
Qed.

Theorem append_uint_enc nb data v :
  (0 < nb)%nat -> 0 <= v < 128 ^ Z.of_nat nb -> append_uint nb data v = Ok (data ++ enc_u nb v).
Proof.
  intros Hnb Hv. unfold append_uint. destruct (v <? 128) eqn:E.
  - destruct nb; [lia|]. simpl. rewrite E. reflexivity.
  - apply Z.ltb_ge in E. apply append_u_loop_enc. lia.
Qed.

Lemma enc_u_len f v : (0 < f)%nat -> 0 <= v < 128 ^ Z.of_nat f -> 1 <= len (enc_u f v) <= Z.of_nat f.
Proof.
  revert v. induction f as [|f IH]; intros v Hf Hv; [lia|].
  rewrite pow128_succ in Hv. simpl. destruct (v <? 128) eqn:E.
  - rewrite len_cons, len_nil. lia.
  - apply Z.ltb_ge in E. rewrite len_cons.
    assert (Hq : 0 <= v / 128 < 128 ^ Z.of_nat f).
    { split; [apply Z.div_pos; lia|apply Z.div_lt_upper_bound; lia]. }
    destruct f as [|f'].
    + simpl in Hq. assert (v / 128 = 0) by lia. apply Z.div_small_iff in H; lia.
    + specialize (IH (v / 128) ltac:(lia) Hq). lia.
Qed.

(* ------------------------------------------------------------------ unsigned: read *)

Lemma wrap_u_id bits z : 0 <= z < 2 ^ bits -> wrap_u bits z = z.
Proof. intro H. unfold wrap_u. apply Z.mod_small. exact H. Qed.

Lemma read_u_loop_enc bits : forall f n done v rest r,
  (0 < f)%nat -> (f <= n)%nat -> 0 <= v < 128 ^ Z.of_nat f ->
  0 <= r < 2 ^ (7 * len done) -> r + v * 2 ^ (7 * len done) < 2 ^ bits ->
  read_u_loop bits n (len done) (done ++ enc_u f v ++ rest) r (7 * len done) (len done)
  = Ok (r + v * 2 ^ (7 * len done), len done + len (enc_u f v)).
Proof.
  induction f as [|f IH]; intros n done v rest r Hf Hn Hv Hr Hbits; [lia|].
  destruct n as [|n]; [lia|].
  rewrite pow128_succ in Hv.
  pose proof (len_nonneg done) as Hd. pose proof (len_nonneg rest) as Hrest.
  assert (Hpow : 0 < 2 ^ (7 * len done)) by (apply Z.pow_pos_nonneg; lia).
  cbn [enc_u read_u_loop].
  destruct (v <? 128) eqn:E.
  - apply Z.ltb_lt in E. simpl app.
    rewrite len_app, len_cons. decide_b (len done >=? len done + (1 + len rest)) false.
    rewrite idx_app. cbn [bind].
    replace (Z.land v 127) with v by (rewrite land_127, Z.mod_small; lia).
    rewrite shiftl_mul by lia. rewrite wrap_u_id by nia.
    rewrite lor_low_high by lia.
    destruct (byte_facts v ltac:(lia)) as [H128 _]. rewrite H128. decide_b (v <? 128) true.
    rewrite Z.eqb_refl. rewrite len_cons, len_nil. replace (1 + 0) with 1 by lia. reflexivity.
  - apply Z.ltb_ge in E.
    pose proof (Z.mod_pos_bound v 128 ltac:(lia)) as Hm. pose proof (Z.div_mod v 128 ltac:(lia)) as Hdm.
    simpl app. rewrite len_app, len_cons.
    pose proof (len_nonneg (enc_u f (v / 128) ++ rest)).
    decide_b (len done >=? len done + (1 + len (enc_u f (v / 128) ++ rest))) false.
    rewrite idx_app. cbn [bind].
    set (g := v mod 128) in *.
    replace (Z.land (g + 128) 127) with g
      by (rewrite land_127; replace (g + 128) with (g + 1 * 128) by lia; rewrite Z.mod_add by lia;
          rewrite Z.mod_small; lia).
    rewrite shiftl_mul by lia.
    assert (Hq : 0 < v / 128 < 128 ^ Z.of_nat f).
    { split; [apply Z.div_str_pos; lia|apply Z.div_lt_upper_bound; lia]. }
    assert (Hv2 : v * 2 ^ (7 * len done) = g * 2 ^ (7 * len done) + (v / 128) * (128 * 2 ^ (7 * len done))) by nia.
    rewrite wrap_u_id by nia. rewrite lor_low_high by lia.
    destruct (byte_facts (g + 128) ltac:(lia)) as [H128 _]. rewrite H128. decide_b (g + 128 <? 128) false.
    simpl (128 =? 0). cbv iota.
    assert (Hf' : (0 < f)%nat).
    { destruct f; [|lia]. simpl in Hq. lia. }
    assert (Hld : len (done ++ [g + 128]) = len done + 1) by (rewrite len_app, len_cons, len_nil; lia).
    assert (Hp7 : 2 ^ (7 * (len done + 1)) = 128 * 2 ^ (7 * len done)).
    { replace (7 * (len done + 1)) with (7 + 7 * len done) by lia. rewrite Z.pow_add_r by lia. reflexivity. }
    specialize (IH n (done ++ [g + 128]) (v / 128) rest (r + g * 2 ^ (7 * len done)) Hf' ltac:(lia) ltac:(lia)).
    rewrite Hld in IH. rewrite Hp7 in IH.
    replace (7 * len done + 7) with (7 * (len done + 1)) by lia.
    rewrite <- app_assoc in IH. simpl app in IH.
    rewrite IH by nia. rewrite len_cons. rewrite Hv2. f_equal. f_equal; lia.
Qed.

Theorem read_uint_enc bits nb v rest :
  (0 < nb)%nat -> 0 <= v < 2 ^ bits -> 2 ^ bits <= 128 ^ Z.of_nat nb ->
  read_uint bits nb (enc_u nb v ++ rest) = Ok (v, len (enc_u nb v)).
Proof.
  intros Hnb Hv Hb. unfold read_uint.
  pose proof (read_u_loop_enc bits nb nb [] v rest 0 Hnb ltac:(lia) ltac:(lia)) as H.
  rewrite len_nil in H. simpl (7 * 0) in H. simpl (2 ^ 0) in H. simpl app in H.
  rewrite H by lia. f_equal. f_equal; lia.
Qed.

(* ------------------------------------------------------------------ signed: two's complement wrap *)

Lemma pow2_split bits : 0 < bits -> 2 ^ bits = 2 * 2 ^ (bits - 1).
Proof. intro H. replace bits with (1 + (bits - 1)) at 1 by lia. rewrite Z.pow_add_r by lia. reflexivity. Qed.

Lemma wrap_s_rep bits a : 0 < bits -> exists k, wrap_s bits a = a + k * 2 ^ bits.
Proof.
  intro H. unfold wrap_s. exists (- ((a + 2 ^ (bits - 1)) / 2 ^ bits)).
  assert (0 < 2 ^ bits) by (apply Z.pow_pos_nonneg; lia).
  pose proof (Z.div_mod (a + 2 ^ (bits - 1)) (2 ^ bits) ltac:(lia)). lia.
Qed.

Lemma wrap_s_range bits a : 0 < bits -> - 2 ^ (bits - 1) <= wrap_s bits a < 2 ^ (bits - 1).
Proof.
  intro H. unfold wrap_s. assert (0 < 2 ^ bits) by (apply Z.pow_pos_nonneg; lia).
  pose proof (Z.mod_pos_bound (a + 2 ^ (bits - 1)) (2 ^ bits) ltac:(lia)).
  rewrite (pow2_split bits H) in *. lia.
Qed.

Lemma wrap_s_id bits a : 0 < bits -> - 2 ^ (bits - 1) <= a < 2 ^ (bits - 1) -> wrap_s bits a = a.
Proof.
  intros H Ha. unfold wrap_s. rewrite Z.mod_small; [lia|]. rewrite (pow2_split bits H). lia.
Qed.

Lemma wrap_s_cong bits a b k : 0 < bits -> a = b + k * 2 ^ bits -> wrap_s bits a = wrap_s bits b.
Proof.
  intros H ->. unfold wrap_s.
  replace (b + k * 2 ^ bits + 2 ^ (bits - 1)) with (b + 2 ^ (bits - 1) + k * 2 ^ bits) by lia.
  rewrite Z_mod_plus_full. reflexivity.
Qed.

Lemma wrap_s_add bits a b : 0 < bits -> wrap_s bits (wrap_s bits a + wrap_s bits b) = wrap_s bits (a + b).
Proof.
  intro H. destruct (wrap_s_rep bits a H) as [k Hk]. destruct (wrap_s_rep bits b H) as [j Hj].
  rewrite Hk, Hj. apply (wrap_s_cong bits _ _ (k + j) H). lia.
Qed.

Lemma wrap_s_mul bits a c : 0 < bits -> wrap_s bits (wrap_s bits a * c) = wrap_s bits (a * c).
Proof.
  intro H. destruct (wrap_s_rep bits a H) as [k Hk]. rewrite Hk.
  apply (wrap_s_cong bits _ _ (k * c) H). lia.
Qed.

Lemma land_neg_pow2 m u : 0 <= m -> 0 <= u < 2 ^ (m + 1) ->
  Z.land (- 2 ^ m) u = if u <? 2 ^ m then 0 else 2 ^ m.
Proof.
  intros Hm Hu.
  assert (Hp : 0 < 2 ^ m) by (apply Z.pow_pos_nonneg; lia).
  replace (- 2 ^ m) with (Z.lnot (Z.ones m)) by (rewrite Z.ones_equiv; unfold Z.lnot; lia).
  rewrite Z.land_comm. rewrite <- Z.ldiff_land. rewrite Z.ldiff_ones_r by lia.
  rewrite Z.shiftr_div_pow2 by lia. rewrite Z.shiftl_mul_pow2 by lia.
  rewrite Z.pow_add_r in Hu by lia. change (2 ^ 1) with 2 in Hu.
  destruct (u <? 2 ^ m) eqn:E.
  - apply Z.ltb_lt in E. rewrite Z.div_small by lia. reflexivity.
  - apply Z.ltb_ge in E. replace (u / 2 ^ m) with 1; [lia|].
    apply Z.div_unique with (r := u - 2 ^ m); lia.
Qed.

(* ------------------------------------------------------------------ signed: append *)

Lemma append_s_loop_S f data v :
  append_s_loop (S f) data v =
  (let c := Z.land v 127 in
   let sign := Z.land v 64 in
   let v := Z.shiftr v 7 in
   let more := negb (((v =? 0) && (sign =? 0)) || ((v =? -1) && negb (sign =? 0))) in
   let c := if more then Z.lor c 128 else c in
   let data := data ++ [c] in
   if more then append_s_loop f data v else Ok data).
Proof. reflexivity. Qed.

Lemma enc_s_S f v :
  enc_s (S f) v = if (-64 <=? v) && (v <? 64) then [v mod 128] else (v mod 128 + 128) :: enc_s f (v / 128).
Proof. reflexivity. Qed.

Lemma read_s_loop_S bits n i data b result signBits count :
  read_s_loop bits (S n) i data b result signBits count =
  (if negb (Z.land b 128 =? 128) then Ok (result, signBits, count) else
   if i >=? len data then Err UserOther else
   let* b := idx data i in
   let count := count + 1 in
   let result := wrap_s bits (result + wrap_s bits (Z.shiftl (Z.land b 127) (i * 7))) in
   let signBits := wrap_s bits (Z.shiftl signBits 7) in
   read_s_loop bits n (i + 1) data b result signBits count).
Proof. reflexivity. Qed.


Lemma append_s_loop_enc f : forall data v,
  - 64 * 128 ^ Z.of_nat f <= v < 64 * 128 ^ Z.of_nat f ->
  append_s_loop (S f) data v = Ok (data ++ enc_s (S f) v).
Proof.
  induction f as [|f IH]; intros data v Hv.
  - simpl (128 ^ Z.of_nat 0) in Hv. rewrite append_s_loop_S, enc_s_S. cbv zeta.
    rewrite land_127, land_64, shiftr_7.
    pose proof (Z.mod_pos_bound v 128 ltac:(lia)) as Hm. pose proof (Z.div_mod v 128 ltac:(lia)) as Hdm.
    decide_b (-64 <=? v) true. decide_b (v <? 64) true. cbn [andb].
    destruct (Z_lt_dec v 0) as [L|L].
    + assert (v / 128 = -1) by (symmetry; apply Z.div_unique with (r := v + 128); lia).
      rewrite H. decide_b (v mod 128 <? 64) false. simpl. reflexivity.
    + assert (v / 128 = 0) by (apply Z.div_small; lia).
      rewrite H. decide_b (v mod 128 <? 64) true. simpl. reflexivity.
  - rewrite pow128_succ in Hv. rewrite append_s_loop_S, (enc_s_S (S f)). cbv zeta.
    rewrite land_127, land_64, shiftr_7.
    pose proof (Z.mod_pos_bound v 128 ltac:(lia)) as Hm. pose proof (Z.div_mod v 128 ltac:(lia)) as Hdm.
    assert (Hpos : 0 < 128 ^ Z.of_nat f) by (apply Z.pow_pos_nonneg; lia).
    destruct ((-64 <=? v) && (v <? 64)) eqn:E.
    + apply andb_true_iff in E. destruct E as [E1 E2]. apply Z.leb_le in E1. apply Z.ltb_lt in E2.
      destruct (Z_lt_dec v 0) as [L|L].
      * assert (v / 128 = -1) by (symmetry; apply Z.div_unique with (r := v + 128); lia).
        rewrite H. decide_b (v mod 128 <? 64) false. simpl. reflexivity.
      * assert (v / 128 = 0) by (apply Z.div_small; lia).
        rewrite H. decide_b (v mod 128 <? 64) true. simpl. reflexivity.
    + assert (Hout : v < -64 \/ 64 <= v).
      { apply andb_false_iff in E. destruct E as [E|E]; [apply Z.leb_gt in E|apply Z.ltb_ge in E]; lia. }
      assert (Hmore : negb (((v / 128 =? 0) && ((if v mod 128 <? 64 then 0 else 64) =? 0))
                            || ((v / 128 =? -1) && negb ((if v mod 128 <? 64 then 0 else 64) =? 0))) = true).
      { apply negb_true_iff. apply orb_false_iff. split; apply andb_false_iff.
        - destruct (Z.eq_dec (v / 128) 0) as [Eq|Ne]; [right|left; apply Z.eqb_neq; exact Ne].
          destruct (v mod 128 <? 64) eqn:E6; [apply Z.ltb_lt in E6; lia|reflexivity].
        - destruct (Z.eq_dec (v / 128) (-1)) as [Eq|Ne]; [right|left; apply Z.eqb_neq; exact Ne].
          destruct (v mod 128 <? 64) eqn:E6; [reflexivity|apply Z.ltb_ge in E6; lia]. }
      rewrite Hmore. rewrite lor_128 by lia.
      assert (Hq : - 64 * 128 ^ Z.of_nat f <= v / 128 < 64 * 128 ^ Z.of_nat f).
      { split; [apply Z.div_le_lower_bound; lia|apply Z.div_lt_upper_bound; lia]. }
      rewrite IH by exact Hq. rewrite <- app_assoc. reflexivity.
Qed.

Theorem append_int_enc nb data v :
  (0 < nb)%nat -> - 64 * 128 ^ (Z.of_nat nb - 1) <= v < 64 * 128 ^ (Z.of_nat nb - 1) ->
  append_int nb data v = Ok (data ++ enc_s nb v).
Proof.
  intros Hnb Hv. destruct nb as [|f]; [lia|]. unfold append_int.
  apply append_s_loop_enc. replace (Z.of_nat (S f) - 1) with (Z.of_nat f) in Hv by lia. exact Hv.
Qed.

Lemma enc_s_len f v : 1 <= len (enc_s (S f) v) <= Z.of_nat (S f).
Proof.
  revert v. induction f as [|f IH]; intro v.
  - rewrite enc_s_S. destruct ((-64 <=? v) && (v <? 64)); cbn [enc_s]; rewrite ?len_cons, ?len_nil; lia.
  - rewrite (enc_s_S (S f)). destruct ((-64 <=? v) && (v <? 64)).
    + rewrite len_cons, len_nil. lia.
    + rewrite len_cons. specialize (IH (v / 128)). lia.
Qed.

(* ------------------------------------------------------------------ signed: read *)

Lemma read_s_loop_enc bits : forall f n done v rest b R,
  0 < bits -> (S f <= n)%nat ->
  - 64 * 128 ^ Z.of_nat f <= v < 64 * 128 ^ Z.of_nat f ->
  Z.land b 128 = 128 -> 0 <= R < 2 ^ (7 * len done) ->
  exists U,
    read_s_loop bits n (len done) (done ++ enc_s (S f) v ++ rest) b
      (wrap_s bits R) (wrap_s bits (- 2 ^ (7 * len done))) (len done)
    = Ok (wrap_s bits U, wrap_s bits (- 2 ^ (7 * (len done + len (enc_s (S f) v)))),
          len done + len (enc_s (S f) v)) /\
    0 <= U < 2 ^ (7 * (len done + len (enc_s (S f) v))) /\
    ((U < 2 ^ (7 * (len done + len (enc_s (S f) v)) - 1) /\ R + v * 2 ^ (7 * len done) = U) \/
     (2 ^ (7 * (len done + len (enc_s (S f) v)) - 1) <= U /\
      R + v * 2 ^ (7 * len done) = U - 2 ^ (7 * (len done + len (enc_s (S f) v))))).
Proof.
  induction f as [|f IH]; intros n done v rest b R Hbits Hn Hv Hb HR;
    (destruct n as [|n]; [lia|]);
    pose proof (len_nonneg done) as Hd;
    assert (Hpow : 0 < 2 ^ (7 * len done)) by (apply Z.pow_pos_nonneg; lia);
    pose proof (Z.mod_pos_bound v 128 ltac:(lia)) as Hm; pose proof (Z.div_mod v 128 ltac:(lia)) as Hdm;
    assert (Hp7 : 2 ^ (7 * (len done + 1)) = 128 * 2 ^ (7 * len done))
      by (replace (7 * (len done + 1)) with (7 + 7 * len done) by lia; rewrite Z.pow_add_r by lia; reflexivity);
    assert (Hp6 : 2 ^ (7 * (len done + 1) - 1) = 64 * 2 ^ (7 * len done))
      by (replace (7 * (len done + 1) - 1) with (6 + 7 * len done) by lia; rewrite Z.pow_add_r by lia; reflexivity).
  - (* last group *)
    simpl (128 ^ Z.of_nat 0) in Hv. rewrite enc_s_S.
    decide_b (-64 <=? v) true. decide_b (v <? 64) true. cbn [andb app].
    rewrite len_cons, len_nil. replace (len done + (1 + 0)) with (len done + 1) by lia.
    rewrite read_s_loop_S. rewrite Hb. simpl (128 =? 128). cbn [negb].
    rewrite len_app, len_cons. pose proof (len_nonneg rest).
    decide_b (len done >=? len done + (1 + len rest)) false.
    rewrite idx_app. cbn [bind].
    set (g := v mod 128) in *.
    replace (Z.land g 127) with g by (rewrite land_127; unfold g; rewrite Z.mod_mod by lia; reflexivity).
    rewrite shiftl_mul by lia. rewrite wrap_s_add by exact Hbits.
    rewrite (shiftl_mul _ 7) by lia. rewrite wrap_s_mul by exact Hbits.
    replace (- 2 ^ (7 * len done) * 2 ^ 7) with (- 2 ^ (7 * (len done + 1))) by (rewrite Hp7; lia).
    replace (len done * 7) with (7 * len done) by lia.
    exists (R + g * 2 ^ (7 * len done)).
    split.
    { cbv zeta. destruct n as [|n]; [reflexivity|]. rewrite read_s_loop_S.
      destruct (byte_facts g ltac:(lia)) as [H128 _]. rewrite H128. decide_b (g <? 128) true.
      simpl (0 =? 128). cbn [negb]. reflexivity. }
    split; [rewrite Hp7; nia|]. rewrite Hp6, Hp7.
    destruct (Z_lt_dec v 0) as [L|L].
    + right. assert (g = v + 128) by (unfold g; symmetry; apply Z.mod_unique with (q := -1); lia). nia.
    + left. assert (g = v) by (unfold g; apply Z.mod_small; lia). nia.
  - rewrite pow128_succ in Hv.
    assert (Hpos : 0 < 128 ^ Z.of_nat f) by (apply Z.pow_pos_nonneg; lia).
    rewrite (enc_s_S (S f)).
    destruct ((-64 <=? v) && (v <? 64)) eqn:E.
    + (* last group (with fuel to spare) *)
      apply andb_true_iff in E. destruct E as [E1 E2]. apply Z.leb_le in E1. apply Z.ltb_lt in E2.
      cbn [app]. rewrite len_cons, len_nil. replace (len done + (1 + 0)) with (len done + 1) by lia.
      rewrite read_s_loop_S. rewrite Hb. simpl (128 =? 128). cbn [negb].
      rewrite len_app, len_cons. pose proof (len_nonneg rest).
      decide_b (len done >=? len done + (1 + len rest)) false.
      rewrite idx_app. cbn [bind].
      set (g := v mod 128) in *.
      replace (Z.land g 127) with g by (rewrite land_127; unfold g; rewrite Z.mod_mod by lia; reflexivity).
      rewrite shiftl_mul by lia. rewrite wrap_s_add by exact Hbits.
      rewrite (shiftl_mul _ 7) by lia. rewrite wrap_s_mul by exact Hbits.
      replace (- 2 ^ (7 * len done) * 2 ^ 7) with (- 2 ^ (7 * (len done + 1))) by (rewrite Hp7; lia).
      replace (len done * 7) with (7 * len done) by lia.
      exists (R + g * 2 ^ (7 * len done)).
      split.
      { cbv zeta. destruct n as [|n]; [reflexivity|]. rewrite read_s_loop_S.
        destruct (byte_facts g ltac:(lia)) as [H128 _]. rewrite H128. decide_b (g <? 128) true.
        simpl (0 =? 128). cbn [negb]. reflexivity. }
      split; [rewrite Hp7; nia|]. rewrite Hp6, Hp7.
      destruct (Z_lt_dec v 0) as [L|L].
      * right. assert (g = v + 128) by (unfold g; symmetry; apply Z.mod_unique with (q := -1); lia). nia.
      * left. assert (g = v) by (unfold g; apply Z.mod_small; lia). nia.
    + (* a group with the continuation bit *)
      cbn [app]. rewrite len_cons.
      rewrite read_s_loop_S. rewrite Hb. simpl (128 =? 128). cbn [negb].
      rewrite len_app, len_cons. pose proof (len_nonneg (enc_s (S f) (v / 128) ++ rest)).
      decide_b (len done >=? len done + (1 + len (enc_s (S f) (v / 128) ++ rest))) false.
      rewrite idx_app. cbn [bind].
      set (g := v mod 128) in *.
      replace (Z.land (g + 128) 127) with g
        by (rewrite land_127; replace (g + 128) with (g + 1 * 128) by lia; rewrite Z.mod_add by lia;
            rewrite Z.mod_small; lia).
      rewrite shiftl_mul by lia. rewrite wrap_s_add by exact Hbits.
      rewrite (shiftl_mul _ 7) by lia. rewrite wrap_s_mul by exact Hbits.
      replace (- 2 ^ (7 * len done) * 2 ^ 7) with (- 2 ^ (7 * (len done + 1))) by (rewrite Hp7; lia).
      replace (len done * 7) with (7 * len done) by lia.
      assert (Hq : - 64 * 128 ^ Z.of_nat f <= v / 128 < 64 * 128 ^ Z.of_nat f).
      { split; [apply Z.div_le_lower_bound; lia|apply Z.div_lt_upper_bound; lia]. }
      assert (Hb' : Z.land (g + 128) 128 = 128).
      { destruct (byte_facts (g + 128) ltac:(lia)) as [H128 _]. rewrite H128. decide_b (g + 128 <? 128) false. reflexivity. }
      assert (Hld : len (done ++ [g + 128]) = len done + 1) by (rewrite len_app, len_cons, len_nil; lia).
      destruct (IH n (done ++ [g + 128]) (v / 128) rest (g + 128) (R + g * 2 ^ (7 * len done))
                  Hbits ltac:(lia) Hq Hb' ltac:(rewrite Hld, Hp7; nia)) as (U & Hrun & HU & Hcase).
      rewrite Hld in Hrun, HU, Hcase. rewrite <- app_assoc in Hrun. cbn [app] in Hrun.
      replace (len done + (1 + len (enc_s (S f) (v / 128)))) with (len done + 1 + len (enc_s (S f) (v / 128))) by lia.
      exists U. split; [exact Hrun|]. split; [exact HU|].
      rewrite Hp7 in Hcase.
      assert (Hv2 : R + v * 2 ^ (7 * len done)
                    = R + g * 2 ^ (7 * len done) + v / 128 * (128 * 2 ^ (7 * len done))) by nia.
      rewrite Hv2. exact Hcase.
Qed.

Theorem read_int_enc bits nb v rest :
  0 < bits -> (0 < nb)%nat -> bits <= 7 * Z.of_nat nb ->
  - 2 ^ (bits - 1) <= v < 2 ^ (bits - 1) ->
  read_int bits nb (enc_s nb v ++ rest) = Ok (v, len (enc_s nb v)).
Proof.
  intros Hbits Hnb Hfit Hv. destruct nb as [|f]; [lia|].
  assert (Hrange : - 64 * 128 ^ Z.of_nat f <= v < 64 * 128 ^ Z.of_nat f).
  { assert (2 ^ (bits - 1) <= 64 * 128 ^ Z.of_nat f).
    { change 64 with (2 ^ 6). change 128 with (2 ^ 7). rewrite <- Z.pow_mul_r by lia.
      rewrite <- Z.pow_add_r by lia. apply Z.pow_le_mono_r; lia. }
    lia. }
  assert (H128 : Z.land 128 128 = 128) by reflexivity.
  destruct (read_s_loop_enc bits f (S f) [] v rest 128 0 Hbits ltac:(lia) Hrange H128 ltac:(simpl; lia))
    as (U & Hrun & HU & Hcase).
  assert (Hh : 0 < 2 ^ (bits - 1)) by (apply Z.pow_pos_nonneg; lia).
  rewrite len_nil in Hrun, HU, Hcase. rewrite Z.mul_0_r, Z.pow_0_r in Hrun, Hcase.
  cbn [app] in Hrun. rewrite Z.add_0_l in Hrun, HU, Hcase.
  rewrite (wrap_s_id bits 0) in Hrun by lia.
  rewrite (wrap_s_id bits (- (1))) in Hrun by lia. change (- (1)) with (-1) in Hrun.
  unfold read_int. rewrite Hrun. cbn [bind].
  pose proof (enc_s_len f v) as Hk. set (k := len (enc_s (S f) v)) in *.
  replace (0 + v * 1) with v in Hcase by lia.
  assert (Hp7k : 2 ^ (7 * k) = 2 * 2 ^ (7 * k - 1)).
  { replace (7 * k) with (1 + (7 * k - 1)) at 1 by lia. rewrite Z.pow_add_r by lia. reflexivity. }
  assert (Hpk : 0 < 2 ^ (7 * k - 1)) by (apply Z.pow_pos_nonneg; lia).
  destruct (Z_lt_dec (7 * k) bits) as [Lk|Lk].
  - (* fewer than bits payload bits: exact arithmetic, explicit sign extension *)
    assert (Hle : 2 ^ (7 * k) <= 2 ^ (bits - 1)) by (apply Z.pow_le_mono_r; lia).
    rewrite (wrap_s_id bits (- 2 ^ (7 * k))) by lia.
    rewrite (wrap_s_id bits U) by lia.
    replace (Z.shiftr (- 2 ^ (7 * k)) 1) with (- 2 ^ (7 * k - 1)).
    2:{ rewrite Z.shiftr_div_pow2 by lia. change (2 ^ 1) with 2. rewrite Hp7k.
        replace (- (2 * 2 ^ (7 * k - 1))) with ((- 2 ^ (7 * k - 1)) * 2) by lia.
        rewrite Z.div_mul by lia. reflexivity. }
    rewrite land_neg_pow2 by (try lia; replace (7 * k - 1 + 1) with (7 * k) by lia; lia).
    destruct Hcase as [[Hlt Heq]|[Hge Heq]].
    + decide_b (U <? 2 ^ (7 * k - 1)) true. simpl (0 =? 0). cbn [negb]. rewrite Heq. reflexivity.
    + decide_b (U <? 2 ^ (7 * k - 1)) false.
      replace (2 ^ (7 * k - 1) =? 0) with false by (symmetry; apply Z.eqb_neq; lia). cbn [negb].
      replace (U + - 2 ^ (7 * k)) with v by lia. rewrite wrap_s_id by lia. reflexivity.
  - (* all bits used: the accumulated sign mask has been shifted out, wrap-around does the rest *)
    assert (Hsb : wrap_s bits (- 2 ^ (7 * k)) = 0).
    { rewrite (wrap_s_cong bits (- 2 ^ (7 * k)) 0 (- 2 ^ (7 * k - bits)) Hbits).
      - apply wrap_s_id; [lia|]. assert (0 < 2 ^ (bits - 1)) by (apply Z.pow_pos_nonneg; lia). lia.
      - assert (Hsplit : 2 ^ (7 * k) = 2 ^ (7 * k - bits) * 2 ^ bits)
          by (rewrite <- Z.pow_add_r by lia; f_equal; lia).
        lia. }
    rewrite Hsb. simpl (Z.shiftr 0 1). rewrite Z.land_0_l. simpl (0 =? 0). cbn [negb].
    destruct Hcase as [[Hlt Heq]|[Hge Heq]].
    + rewrite <- Heq. rewrite wrap_s_id by lia. reflexivity.
    + rewrite (wrap_s_cong bits U v (2 ^ (7 * k - bits)) Hbits).
      * rewrite wrap_s_id by lia. reflexivity.
      * assert (Hsplit : 2 ^ (7 * k) = 2 ^ (7 * k - bits) * 2 ^ bits)
          by (rewrite <- Z.pow_add_r by lia; f_equal; lia).
        lia.
Qed.

(* ------------------------------------------------------------------ the four instances *)

Definition leb_roundtrip (append : list Z -> Z -> res (list Z)) (read : list Z -> res (Z * Z))
    (maxlen : Z) (v : Z) : Prop :=
  forall data rest, exists enc,
    append data v = Ok (data ++ enc) /\ read (enc ++ rest) = Ok (v, len enc) /\ 1 <= len enc <= maxlen.

Theorem leb_u32_roundtrip v : 0 <= v < 2 ^ 32 -> leb_roundtrip AppendUint32 ReadUint32 5 v.
Proof.
  intros Hv data rest. exists (enc_u 5 v).
  assert (H35 : 2 ^ 32 <= 128 ^ Z.of_nat 5) by (vm_compute; discriminate).
  split; [apply append_uint_enc; lia|]. split; [apply read_uint_enc; lia|].
  apply (enc_u_len 5 v); lia.
Qed.

Theorem leb_u64_roundtrip v : 0 <= v < 2 ^ 64 -> leb_roundtrip AppendUint64 ReadUint64 10 v.
Proof.
  intros Hv data rest. exists (enc_u 10 v).
  assert (H70 : 2 ^ 64 <= 128 ^ Z.of_nat 10) by (vm_compute; discriminate).
  split; [apply append_uint_enc; lia|]. split; [apply read_uint_enc; lia|].
  apply (enc_u_len 10 v); lia.
Qed.

Theorem leb_i32_roundtrip v : - 2 ^ 31 <= v < 2 ^ 31 -> leb_roundtrip AppendInt32 ReadInt32 5 v.
Proof.
  intros Hv data rest. exists (enc_s 5 v).
  assert (H34 : 2 ^ 31 <= 64 * 128 ^ (Z.of_nat 5 - 1)) by (vm_compute; discriminate).
  split; [apply append_int_enc; lia|]. split; [apply read_int_enc; simpl; lia|].
  apply (enc_s_len 4 v).
Qed.

Theorem leb_i64_roundtrip v : - 2 ^ 63 <= v < 2 ^ 63 -> leb_roundtrip AppendInt64 ReadInt64 10 v.
Proof.
  intros Hv data rest. exists (enc_s 10 v).
  assert (H69 : 2 ^ 63 <= 64 * 128 ^ (Z.of_nat 10 - 1)) by (vm_compute; discriminate).
  split; [apply append_int_enc; lia|]. split; [apply read_int_enc; simpl; lia|].
  apply (enc_s_len 9 v).
Qed.
