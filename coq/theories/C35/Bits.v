(* C35  Two bit-level facts shared by the LEB128 and the instruction codec proofs. *)
From Coq Require Import ZArith Lia.
Open Scope Z_scope.

(* disjoint bit ranges: or = plus *)
Lemma land_low_high a b n : 0 <= n -> 0 <= a < 2 ^ n -> Z.land a (b * 2 ^ n) = 0.
Proof.
  intros Hn Ha. apply Z.bits_inj'. intros m Hm. rewrite Z.land_spec, Z.bits_0.
  destruct (Z_lt_dec m n) as [L|L].
  - rewrite <- Z.shiftl_mul_pow2 by lia. rewrite Z.shiftl_spec_low by lia. apply Bool.andb_false_r.
  - replace (Z.testbit a m) with false; [reflexivity|]. symmetry.
    destruct (Z.eq_dec a 0) as [->|Hne]; [apply Z.bits_0|].
    apply Z.bits_above_log2; [lia|].
    assert (Z.log2 a < n) by (apply Z.log2_lt_pow2; lia). lia.
Qed.

Lemma lor_low_high a b n : 0 <= n -> 0 <= a < 2 ^ n -> Z.lor a (b * 2 ^ n) = a + b * 2 ^ n.
Proof.
  intros Hn Ha. pose proof (land_low_high a b n Hn Ha) as H0.
  rewrite <- Z.lxor_lor by exact H0. symmetry. apply Z.add_nocarry_lxor. exact H0.
Qed.
