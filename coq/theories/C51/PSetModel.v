(* C51 — code-shaped model of common/persistent.OrderedSet[T] (T = Z) and its specification.

   Go: type OrderedSet struct { Parent *OrderedSet; items *orderedmap.OrderedMap[T, struct{}] }.
   Model: a heap of set objects addressed by creation index (a Go pointer = the index);
   `items` is nil until the first Add, then an ordered map (model of OMapModel.v) with unit values
   (0 here).  The loops `for currentS != nil { ...; currentS = currentS.Parent }` use fuel and
   report fuel exhaustion; the theorems give a sufficient fuel (number of objects + 1). *)
From CV Require Export C51.OMapModel.

Record pobj := mkPO { po_parent : option nat; po_items : option omap }.
Definition pheap := list pobj.

Fixpoint update_nth {A} (n : nat) (f : A -> A) (l : list A) : list A :=
  match l, n with
  | [], _ => []
  | x :: r, O => f x :: r
  | x :: r, S n => x :: update_nth n f r
  end.

(* keys of an `items` field in iteration order: Oldest() ... Next() *)
Definition items_keys (it : option omap) : list Z :=
  match it with
  | None => []
  | Some m => if negb (om_init m) then [] else om_list m
  end.
Definition items_contains (it : option omap) (x : Z) : bool :=
  match it with
  | None => false
  | Some m => om_contains m x
  end.

(* Contains *)
Fixpoint ps_contains_f (fuel : nat) (hp : pheap) (cur : option nat) (x : Z) : option bool :=
  match cur with
  | None => Some false
  | Some h =>
      match fuel with
      | O => None
      | S f =>
          match nth_error hp h with
          | None => None
          | Some o => if items_contains (po_items o) x then Some true
                      else ps_contains_f f hp (po_parent o) x
          end
      end
  end.

(* ForEach with a callback that never fails: the visited items *)
Fixpoint ps_foreach_f (fuel : nat) (hp : pheap) (cur : option nat) : option (list Z) :=
  match cur with
  | None => Some []
  | Some h =>
      match fuel with
      | O => None
      | S f =>
          match nth_error hp h with
          | None => None
          | Some o => match ps_foreach_f f hp (po_parent o) with
                      | Some rest => Some (items_keys (po_items o) ++ rest)
                      | None => None
                      end
          end
      end
  end.

(* ForEach with a callback that fails on the first item >= c: visited items (the failing one included)
   and whether the callback failed *)
Fixpoint take_until (c : Z) (l : list Z) : list Z * bool :=
  match l with
  | [] => ([], false)
  | x :: r => if x >=? c then ([x], true) else let '(t, s) := take_until c r in (x :: t, s)
  end.

Fixpoint ps_foreach_stop_f (fuel : nat) (hp : pheap) (cur : option nat) (c : Z) : option (list Z) :=
  match cur with
  | None => Some []
  | Some h =>
      match fuel with
      | O => None
      | S f =>
          match nth_error hp h with
          | None => None
          | Some o =>
              let '(t, stopped) := take_until c (items_keys (po_items o)) in
              if stopped then Some t
              else match ps_foreach_stop_f f hp (po_parent o) c with
                   | Some rest => Some (t ++ rest)
                   | None => None
                   end
          end
      end
  end.

Fixpoint ps_isempty_f (fuel : nat) (hp : pheap) (cur : option nat) : option bool :=
  match cur with
  | None => Some true
  | Some h =>
      match fuel with
      | O => None
      | S f =>
          match nth_error hp h with
          | None => None
          | Some o => match items_keys (po_items o) with
                      | _ :: _ => Some false
                      | [] => ps_isempty_f f hp (po_parent o)
                      end
          end
      end
  end.

Definition ps_fuel (hp : pheap) : nat := S (length hp).

Definition ps_contains hp h x := ps_contains_f (ps_fuel hp) hp (Some h) x.
Definition ps_foreach hp h := ps_foreach_f (ps_fuel hp) hp (Some h).
Definition ps_foreach_stop hp h c := ps_foreach_stop_f (ps_fuel hp) hp (Some h) c.
Definition ps_isempty hp h := ps_isempty_f (ps_fuel hp) hp (Some h).

(* Add *)
Definition ps_add (hp : pheap) (h : nat) (x : Z) : option pheap :=
  match ps_contains hp h x with
  | None => None
  | Some true => Some hp
  | Some false =>
      Some (update_nth h (fun o =>
              let m := match po_items o with Some m => m | None => om_zero end in
              mkPO (po_parent o) (Some (fst (om_set m x 0)))) hp)
  end.

(* NewOrderedSet(parent) / parent.Clone() *)
Definition ps_new (hp : pheap) (parent : option nat) : option pheap :=
  match parent with
  | None => Some (hp ++ [mkPO None None])
  | Some p => if (p <? length hp)%nat then Some (hp ++ [mkPO (Some p) None]) else None
  end.

(* AddIntersection(a, b): a.ForEach(item => if b.Contains(item) { s.Add(item) }).
   The Go iteration runs over the live chain of a while s is being added to.  Items that
   appear in a's chain during the iteration are items just added to s: for them b.Contains was
   true and s.Contains is now true, so visiting them changes nothing; hence the loop is modelled
   over the items present when it starts (the correspondence run covers s inside a's chain). *)
Fixpoint ps_add_if (hp : pheap) (s b : nat) (items : list Z) : option pheap :=
  match items with
  | [] => Some hp
  | x :: r =>
      match ps_contains hp b x with
      | None => None
      | Some false => ps_add_if hp s b r
      | Some true => match ps_add hp s x with
                     | Some hp' => ps_add_if hp' s b r
                     | None => None
                     end
      end
  end.

Definition ps_add_intersection (hp : pheap) (s a b : nat) : option pheap :=
  if negb ((s <? length hp)%nat && (b <? length hp)%nat) then None else
  match ps_foreach hp a with
  | None => None
  | Some items => ps_add_if hp s b items
  end.

Inductive ps_op :=
| PNew (parent : option nat) | PClone (h : nat)
| PAdd (h : nat) (x : Z) | PContains (h : nat) (x : Z)
| PForEach (h : nat) | PForEachStop (h : nat) (c : Z) | PIsEmpty (h : nat)
| PAddIntersection (s a b : nat).

Definition zlist_obs (l : list Z) : obs := VList (map (fun x => (x, 0)) l).

Definition ps_step (hp : pheap) (o : ps_op) : pheap * obs :=
  match o with
  | PNew p => match ps_new hp p with Some hp' => (hp', VUnit) | None => (hp, VCrash) end
  | PClone h => match ps_new hp (Some h) with Some hp' => (hp', VUnit) | None => (hp, VCrash) end
  | PAdd h x => match ps_add hp h x with Some hp' => (hp', VUnit) | None => (hp, VCrash) end
  | PContains h x => (hp, match ps_contains hp h x with Some b => VBool b | None => VCrash end)
  | PForEach h => (hp, match ps_foreach hp h with Some l => zlist_obs l | None => VCrash end)
  | PForEachStop h c => (hp, match ps_foreach_stop hp h c with Some l => zlist_obs l | None => VCrash end)
  | PIsEmpty h => (hp, match ps_isempty hp h with Some b => VBool b | None => VCrash end)
  | PAddIntersection s a b =>
      match ps_add_intersection hp s a b with Some hp' => (hp', VUnit) | None => (hp, VCrash) end
  end.

Fixpoint ps_run (hp : pheap) (ops : list ps_op) : list obs :=
  match ops with
  | [] => []
  | o :: r => let '(hp', x) := ps_step hp o in x :: ps_run hp' r
  end.

(* ---------- specification ----------
   Every set object has its own items (a plain list, insertion order) and the list of its
   ancestors, nearest first, fixed at creation.  A set denotes the concatenation of the own
   items along  self :: ancestors. *)
Record sobj := mkSO { so_own : list Z; so_anc : list nat }.
Definition sheap := list sobj.

Definition s_own (sh : sheap) (g : nat) : list Z :=
  match nth_error sh g with Some o => so_own o | None => [] end.
Definition s_chain (sh : sheap) (h : nat) : list nat :=
  match nth_error sh h with Some o => h :: so_anc o | None => [] end.
Definition s_view (sh : sheap) (h : nat) : list Z := flat_map (s_own sh) (s_chain sh h).
Definition s_contains (sh : sheap) (h : nat) (x : Z) : bool := existsb (Z.eqb x) (s_view sh h).
Definition s_valid (sh : sheap) (h : nat) : bool := (h <? length sh)%nat.

Definition s_add (sh : sheap) (h : nat) (x : Z) : sheap :=
  if s_contains sh h x then sh
  else update_nth h (fun o => mkSO (so_own o ++ [x]) (so_anc o)) sh.

Definition s_new (sh : sheap) (parent : option nat) : sheap :=
  sh ++ [mkSO [] (match parent with None => [] | Some p => s_chain sh p end)].

Definition s_add_intersection (sh : sheap) (s a b : nat) : sheap :=
  fold_left (fun sh x => if s_contains sh b x then s_add sh s x else sh) (s_view sh a) sh.

Definition s_step (sh : sheap) (o : ps_op) : sheap * obs :=
  match o with
  | PNew None => (s_new sh None, VUnit)
  | PNew (Some p) | PClone p => if s_valid sh p then (s_new sh (Some p), VUnit) else (sh, VCrash)
  | PAdd h x => if s_valid sh h then (s_add sh h x, VUnit) else (sh, VCrash)
  | PContains h x => (sh, if s_valid sh h then VBool (s_contains sh h x) else VCrash)
  | PForEach h => (sh, if s_valid sh h then zlist_obs (s_view sh h) else VCrash)
  | PForEachStop h c => (sh, if s_valid sh h then zlist_obs (fst (take_until c (s_view sh h))) else VCrash)
  | PIsEmpty h => (sh, if s_valid sh h then VBool (match s_view sh h with [] => true | _ => false end) else VCrash)
  | PAddIntersection s a b =>
      if s_valid sh s && s_valid sh a && s_valid sh b then (s_add_intersection sh s a b, VUnit) else (sh, VCrash)
  end.

Fixpoint s_run (sh : sheap) (ops : list ps_op) : list obs :=
  match ops with
  | [] => []
  | o :: r => let '(sh', x) := s_step sh o in x :: s_run sh' r
  end.

(* histories that only mention handles that exist (every Go history is of this kind) *)
Definition op_valid (n : nat) (o : ps_op) : bool :=
  match o with
  | PNew None => true
  | PNew (Some p) | PClone p => (p <? n)%nat
  | PAdd h _ | PContains h _ | PForEach h | PForEachStop h _ | PIsEmpty h => (h <? n)%nat
  | PAddIntersection s a b => (s <? n)%nat && (a <? n)%nat && (b <? n)%nat
  end.
Definition op_creates (o : ps_op) : bool := match o with PNew _ | PClone _ => true | _ => false end.
Fixpoint hist_valid (n : nat) (ops : list ps_op) : bool :=
  match ops with
  | [] => true
  | o :: r => op_valid n o && hist_valid (if op_creates o then S n else n) r
  end.
