(* C51 — the persistent-set model refines the ancestor-list specification for all histories;
   adding to a set never changes what any of its ancestors (or any unrelated set) contains. *)
From CV Require Import C51.OMapModel C51.OMapProofs C51.PSetModel.
From Coq Require Import Arith.

(* ---------- list helpers ---------- *)
Lemma nth_update_eq {A} (f : A -> A) l n x :
  nth_error l n = Some x -> nth_error (update_nth n f l) n = Some (f x).
Proof.
  revert n. induction l as [|y l IH]; intros [|n]; simpl; try discriminate.
  - intros H; inversion H; reflexivity.
  - apply IH.
Qed.

Lemma nth_update_neq {A} (f : A -> A) l n m : n <> m -> nth_error (update_nth n f l) m = nth_error l m.
Proof.
  revert n m. induction l as [|y l IH]; intros [|n] [|m] H; simpl; try reflexivity; try congruence.
  apply IH. congruence.
Qed.

Lemma update_nth_length {A} (f : A -> A) l n : length (update_nth n f l) = length l.
Proof. revert n. induction l as [|y l IH]; intros [|n]; simpl; auto. Qed.

Lemma nth_error_valid {A} (l : list A) n : (n < length l)%nat -> exists x, nth_error l n = Some x.
Proof.
  intros H. destruct (nth_error l n) eqn:E; [eauto|]. apply nth_error_None in E. lia.
Qed.

Lemma existsb_app' {A} (f : A -> bool) a b : existsb f (a ++ b) = existsb f a || existsb f b.
Proof. apply existsb_app. Qed.

Lemma take_until_app c a b :
  take_until c (a ++ b) =
  let '(t, s) := take_until c a in
  if s then (t, true) else let '(t', s') := take_until c b in (t ++ t', s').
Proof.
  induction a as [|x a IH]; simpl.
  - destruct (take_until c b); reflexivity.
  - destruct (x >=? c); [reflexivity|].
    rewrite IH. destruct (take_until c a) as [t s]. destruct s; [reflexivity|].
    destruct (take_until c b); reflexivity.
Qed.

Lemma ahas_existsb k (l : list (Z * Z)) : ahas k l = existsb (Z.eqb k) (map fst l).
Proof.
  unfold ahas. induction l as [|[a b] l IH]; simpl; [reflexivity|].
  destruct (k =? a); [reflexivity|exact IH].
Qed.

Lemma abs_keys s : map fst (abs s) = om_list s.
Proof. unfold abs. rewrite map_map. simpl. apply map_id. Qed.

(* ---------- items field ---------- *)
Definition items_wf (it : option omap) : Prop := match it with Some m => wf m | None => True end.

Lemma items_keys_abs m : wf m -> items_keys (Some m) = om_list m.
Proof.
  intros W. simpl. destruct (om_init m) eqn:E; simpl; [reflexivity|].
  destruct (wf_uninit _ W E) as [_ [_ ->]]. reflexivity.
Qed.

Lemma items_contains_keys it x : items_wf it -> items_contains it x = existsb (Z.eqb x) (items_keys it).
Proof.
  destruct it as [m|]; simpl; intros W; [|reflexivity].
  rewrite om_contains_abs by exact W. rewrite ahas_existsb, abs_keys.
  destruct (om_init m) eqn:E; simpl; [reflexivity|].
  destruct (wf_uninit _ W E) as [_ [_ ->]]. reflexivity.
Qed.

Lemma items_add it x :
  items_wf it -> items_contains it x = false ->
  let m := match it with Some m => m | None => om_zero end in
  let it' := Some (fst (om_set m x 0)) in
  items_wf it' /\ items_keys it' = items_keys it ++ [x].
Proof.
  intros W Hc m it'.
  assert (wf m) as Wm by (destruct it; [exact W|apply wf_zero]).
  assert (items_keys it = om_list m) as Ek.
  { destruct it as [m0|]; [apply items_keys_abs, W|reflexivity]. }
  assert (ahas x (abs m) = false) as Hx.
  { destruct it as [m0|]; simpl in Hc.
    - rewrite <- om_contains_abs by exact W. exact Hc.
    - reflexivity. }
  pose proof (om_set_sim m x 0 Wm) as H. unfold it'. destruct (om_set m x 0) as [m' old].
  destruct H as [W' [EA [_ EI]]]. simpl. split; [exact W'|].
  rewrite EI. simpl. rewrite <- abs_keys, EA. unfold sp_set. rewrite Hx.
  rewrite map_app, abs_keys, Ek. reflexivity.
Qed.

(* ---------- refinement relation ---------- *)
Definition obj_rel (sh : sheap) (i : nat) (o : pobj) (so : sobj) : Prop :=
  so_own so = items_keys (po_items o) /\
  items_wf (po_items o) /\
  so_anc so = match po_parent o with None => [] | Some p => s_chain sh p end /\
  (forall p, po_parent o = Some p -> (p < i)%nat).

Definition prel (hp : pheap) (sh : sheap) : Prop :=
  length hp = length sh /\
  forall i o, nth_error hp i = Some o -> exists so, nth_error sh i = Some so /\ obj_rel sh i o so.

Lemma prel_nil : prel [] [].
Proof. split; [reflexivity|]. intros [|i] o; discriminate. Qed.

Lemma s_view_unfold sh h o so :
  nth_error sh h = Some so -> obj_rel sh h o so ->
  s_view sh h = items_keys (po_items o) ++
                match po_parent o with None => [] | Some p => s_view sh p end.
Proof.
  intros E [Eo [_ [Ea _]]]. unfold s_view at 1, s_chain. rewrite E. simpl.
  unfold s_own at 1. rewrite E, Eo. f_equal. rewrite Ea.
  destruct (po_parent o); reflexivity.
Qed.

Section Loops.
  Variables (hp : pheap) (sh : sheap).
  Hypothesis R : prel hp sh.

  Lemma contains_f_spec x : forall fuel h, (h < fuel)%nat -> (h < length hp)%nat ->
    ps_contains_f fuel hp (Some h) x = Some (existsb (Z.eqb x) (s_view sh h)).
  Proof.
    induction fuel as [|f IH]; intros h Hf Hl; [lia|].
    destruct (nth_error_valid hp h Hl) as [o Eo]. simpl. rewrite Eo.
    destruct (proj2 R h o Eo) as [so [Es Ro]].
    rewrite (s_view_unfold sh h o so Es Ro), existsb_app'.
    destruct Ro as [_ [Wi [_ Hp]]].
    rewrite items_contains_keys by exact Wi.
    destruct (existsb (Z.eqb x) (items_keys (po_items o))); [reflexivity|]. simpl.
    destruct (po_parent o) as [p|] eqn:Ep; [|destruct f; reflexivity].
    specialize (Hp p eq_refl). apply IH; lia.
  Qed.

  Lemma foreach_f_spec : forall fuel h, (h < fuel)%nat -> (h < length hp)%nat ->
    ps_foreach_f fuel hp (Some h) = Some (s_view sh h).
  Proof.
    induction fuel as [|f IH]; intros h Hf Hl; [lia|].
    destruct (nth_error_valid hp h Hl) as [o Eo]. simpl. rewrite Eo.
    destruct (proj2 R h o Eo) as [so [Es Ro]].
    rewrite (s_view_unfold sh h o so Es Ro).
    destruct Ro as [_ [Wi [_ Hp]]].
    destruct (po_parent o) as [p|] eqn:Ep; [|destruct f; simpl; rewrite app_nil_r; reflexivity].
    specialize (Hp p eq_refl). rewrite IH by lia. reflexivity.
  Qed.

  Lemma foreach_stop_f_spec c : forall fuel h, (h < fuel)%nat -> (h < length hp)%nat ->
    ps_foreach_stop_f fuel hp (Some h) c = Some (fst (take_until c (s_view sh h))).
  Proof.
    induction fuel as [|f IH]; intros h Hf Hl; [lia|].
    destruct (nth_error_valid hp h Hl) as [o Eo]. simpl. rewrite Eo.
    destruct (proj2 R h o Eo) as [so [Es Ro]].
    rewrite (s_view_unfold sh h o so Es Ro), take_until_app.
    destruct Ro as [_ [Wi [_ Hp]]].
    destruct (take_until c (items_keys (po_items o))) as [t s]. destruct s; [reflexivity|].
    destruct (po_parent o) as [p|] eqn:Ep.
    - specialize (Hp p eq_refl). rewrite IH by lia.
      destruct (take_until c (s_view sh p)); reflexivity.
    - destruct f; simpl; rewrite app_nil_r; reflexivity.
  Qed.

  Lemma isempty_f_spec : forall fuel h, (h < fuel)%nat -> (h < length hp)%nat ->
    ps_isempty_f fuel hp (Some h) = Some (match s_view sh h with [] => true | _ => false end).
  Proof.
    induction fuel as [|f IH]; intros h Hf Hl; [lia|].
    destruct (nth_error_valid hp h Hl) as [o Eo]. simpl. rewrite Eo.
    destruct (proj2 R h o Eo) as [so [Es Ro]].
    rewrite (s_view_unfold sh h o so Es Ro).
    destruct Ro as [_ [Wi [_ Hp]]].
    destruct (items_keys (po_items o)); [|reflexivity]. simpl.
    destruct (po_parent o) as [p|] eqn:Ep; [|destruct f; reflexivity].
    specialize (Hp p eq_refl). apply IH; lia.
  Qed.

  Lemma ps_contains_spec h x : (h < length hp)%nat -> ps_contains hp h x = Some (s_contains sh h x).
  Proof. intros H. apply contains_f_spec; unfold ps_fuel; lia. Qed.
  Lemma ps_foreach_spec h : (h < length hp)%nat -> ps_foreach hp h = Some (s_view sh h).
  Proof. intros H. apply foreach_f_spec; unfold ps_fuel; lia. Qed.
  Lemma ps_foreach_stop_spec h c : (h < length hp)%nat ->
    ps_foreach_stop hp h c = Some (fst (take_until c (s_view sh h))).
  Proof. intros H. apply foreach_stop_f_spec; unfold ps_fuel; lia. Qed.
  Lemma ps_isempty_spec h : (h < length hp)%nat ->
    ps_isempty hp h = Some (match s_view sh h with [] => true | _ => false end).
  Proof. intros H. apply isempty_f_spec; unfold ps_fuel; lia. Qed.

  (* an invalid handle (not expressible in Go) is reported, never silently accepted *)
  Lemma ps_invalid h : ~ (h < length hp)%nat ->
    ps_contains hp h 0 = None /\ ps_foreach hp h = None /\ ps_isempty hp h = None.
  Proof.
    intros H. assert (nth_error hp h = None) as E by (apply nth_error_None; lia).
    unfold ps_contains, ps_foreach, ps_isempty, ps_fuel. simpl. rewrite E. auto.
  Qed.
End Loops.

Lemma invalid_none (hp : pheap) h : ~ (h < length hp)%nat -> nth_error hp h = None.
Proof. intros H. apply nth_error_None. lia. Qed.

(* s_chain does not depend on the own items *)
Lemma s_chain_update sh h f g :
  (forall o, so_anc (f o) = so_anc o) -> s_chain (update_nth h f sh) g = s_chain sh g.
Proof.
  intros Hf. unfold s_chain. destruct (Nat.eq_dec h g) as [->|N].
  - destruct (nth_error sh g) eqn:E.
    + rewrite (nth_update_eq f sh g s E). rewrite Hf. reflexivity.
    + assert (nth_error (update_nth g f sh) g = None) as ->; [|reflexivity].
      apply nth_error_None. rewrite update_nth_length. apply nth_error_None, E.
  - rewrite nth_update_neq by exact N. reflexivity.
Qed.

Lemma s_chain_app sh extra g : (g < length sh)%nat -> s_chain (sh ++ extra) g = s_chain sh g.
Proof. intros H. unfold s_chain. rewrite nth_error_app1 by exact H. reflexivity. Qed.

Lemma prel_add hp sh h x : prel hp sh -> (h < length hp)%nat ->
  exists hp', ps_add hp h x = Some hp' /\ prel hp' (s_add sh h x).
Proof.
  intros R Hl. unfold ps_add, s_add. rewrite (ps_contains_spec hp sh R h x Hl).
  pose proof (contains_f_spec hp sh R x (ps_fuel hp) h ltac:(unfold ps_fuel; lia) Hl) as Hc.
  destruct (s_contains sh h x) eqn:Ec; [eauto|].
  eexists. split; [reflexivity|].
  destruct R as [Rl Ro]. split; [rewrite !update_nth_length; exact Rl|].
  destruct (nth_error_valid hp h Hl) as [oh Eoh].
  destruct (Ro h oh Eoh) as [soh [Esoh Roh]].
  (* x is not among h's own items *)
  assert (items_contains (po_items oh) x = false) as Hx.
  { unfold s_contains in Ec. rewrite (s_view_unfold sh h oh soh Esoh Roh) in Ec.
    destruct Roh as [Eo [Wi _]]. rewrite items_contains_keys by exact Wi.
    rewrite existsb_app' in Ec. apply orb_false_iff in Ec. tauto. }
  intros i o Ei. destruct (Nat.eq_dec h i) as [<-|N].
  - rewrite (nth_update_eq _ hp h oh Eoh) in Ei. inversion Ei; subst o. clear Ei.
    rewrite (nth_update_eq _ sh h soh Esoh). eexists. split; [reflexivity|].
    destruct Roh as [Eo [Wi [Ea Hp]]].
    destruct (items_add (po_items oh) x Wi Hx) as [W' K'].
    unfold obj_rel; cbn [so_own so_anc po_items po_parent].
    split; [rewrite K', Eo; reflexivity|]. split; [exact W'|]. split; [|exact Hp].
    rewrite Ea. destruct (po_parent oh); [|reflexivity].
    symmetry. apply s_chain_update. reflexivity.
  - rewrite nth_update_neq in Ei by exact N. destruct (Ro i o Ei) as [so [Es [Eo [Wi [Ea Hp]]]]].
    exists so. split; [rewrite nth_update_neq by exact N; exact Es|].
    split; [exact Eo|]. split; [exact Wi|]. split; [|exact Hp].
    rewrite Ea. destruct (po_parent o); [|reflexivity].
    symmetry. apply s_chain_update. reflexivity.
Qed.

Lemma prel_new hp sh parent : prel hp sh ->
  (forall p, parent = Some p -> (p < length hp)%nat) ->
  exists hp', ps_new hp parent = Some hp' /\ prel hp' (s_new sh parent).
Proof.
  intros [Rl Ro] Hp. unfold ps_new, s_new.
  assert (exists hp', match parent with
            | Some p => if (p <? length hp)%nat then Some (hp ++ [mkPO (Some p) None]) else None
            | None => Some (hp ++ [mkPO None None]) end = Some hp' /\ hp' = hp ++ [mkPO parent None]) as [hp' [E ->]].
  { destruct parent as [p|]; [|eauto]. specialize (Hp p eq_refl).
    apply Nat.ltb_lt in Hp. rewrite Hp. eauto. }
  destruct parent as [p|]; (eexists; split; [exact E|]).
  all: split; [rewrite !app_length, Rl; reflexivity|].
  all: intros i o Ei; destruct (Nat.lt_ge_cases i (length hp)) as [Hi|Hi].
  - rewrite nth_error_app1 in Ei by exact Hi. destruct (Ro i o Ei) as [so [Es [Eo [Wi [Ea Hpp]]]]].
    exists so. split; [rewrite nth_error_app1 by lia; exact Es|].
    split; [exact Eo|]. split; [exact Wi|]. split; [|exact Hpp].
    rewrite Ea. destruct (po_parent o) as [q|] eqn:Eq; [|reflexivity].
    symmetry. apply s_chain_app. specialize (Hpp q eq_refl). lia.
  - rewrite nth_error_app2 in Ei by exact Hi.
    destruct (i - length hp)%nat as [|k] eqn:Ek; simpl in Ei; [|destruct k; discriminate].
    inversion Ei; subst o. assert (i = length sh) as -> by lia.
    rewrite nth_error_app2 by lia. rewrite Nat.sub_diag. simpl. eexists. split; [reflexivity|].
    unfold obj_rel; simpl. split; [reflexivity|]. split; [exact I|]. split.
    + symmetry. apply s_chain_app. specialize (Hp p eq_refl). lia.
    + intros q Hq. inversion Hq; subst. specialize (Hp q eq_refl). lia.
  - rewrite nth_error_app1 in Ei by exact Hi. destruct (Ro i o Ei) as [so [Es [Eo [Wi [Ea Hpp]]]]].
    exists so. split; [rewrite nth_error_app1 by lia; exact Es|].
    split; [exact Eo|]. split; [exact Wi|]. split; [|exact Hpp].
    rewrite Ea. destruct (po_parent o) as [q|] eqn:Eq; [|reflexivity].
    symmetry. apply s_chain_app. specialize (Hpp q eq_refl). lia.
  - rewrite nth_error_app2 in Ei by exact Hi.
    destruct (i - length hp)%nat as [|k] eqn:Ek; simpl in Ei; [|destruct k; discriminate].
    inversion Ei; subst o. assert (i = length sh) as -> by lia.
    rewrite nth_error_app2 by lia. rewrite Nat.sub_diag. simpl. eexists. split; [reflexivity|].
    unfold obj_rel; simpl. split; [reflexivity|]. split; [exact I|]. split; [reflexivity|discriminate].
Qed.

Lemma s_add_length sh h x : length (s_add sh h x) = length sh.
Proof. unfold s_add. destruct (s_contains sh h x); [reflexivity|apply update_nth_length]. Qed.

Lemma prel_add_if items : forall hp sh s b, prel hp sh -> (s < length hp)%nat -> (b < length hp)%nat ->
  exists hp', ps_add_if hp s b items = Some hp' /\
    prel hp' (fold_left (fun sh x => if s_contains sh b x then s_add sh s x else sh) items sh).
Proof.
  induction items as [|x items IH]; intros hp sh s b R Hs Hb; simpl; [eauto|].
  rewrite (ps_contains_spec hp sh R b x Hb).
  destruct (s_contains sh b x).
  - destruct (prel_add hp sh s x R Hs) as [hp1 [E1 R1]]. rewrite E1.
    assert (length hp1 = length hp) as El.
    { rewrite (proj1 R1), s_add_length. symmetry. apply (proj1 R). }
    apply IH; [exact R1|lia|lia].
  - apply IH; assumption.
Qed.

Lemma s_valid_iff hp sh h : prel hp sh -> s_valid sh h = true <-> (h < length hp)%nat.
Proof. intros [Rl _]. unfold s_valid. rewrite Nat.ltb_lt, Rl. tauto. Qed.

Lemma ps_step_sim hp sh o : prel hp sh ->
  prel (fst (ps_step hp o)) (fst (s_step sh o)) /\ snd (ps_step hp o) = snd (s_step sh o).
Proof.
  intros R.
  assert (forall h, s_valid sh h = true -> (h < length hp)%nat) as V1 by (intros h; apply (s_valid_iff hp sh h R)).
  assert (forall h, s_valid sh h = false -> ~ (h < length hp)%nat) as V2.
  { intros h H Hl. apply (s_valid_iff hp sh h R) in Hl. congruence. }
  assert (forall p, s_valid sh p = false -> ps_new hp (Some p) = None) as Vn.
  { intros p H. apply V2 in H. unfold ps_new. destruct (p <? length hp)%nat eqn:E; [|reflexivity].
    apply Nat.ltb_lt in E. contradiction. }
  destruct o as [[p|]|p|h x|h x|h|h c|h|s a b]; cbn [ps_step s_step].
  - destruct (s_valid sh p) eqn:Ev.
    + destruct (prel_new hp sh (Some p) R) as [hp' [E R']]; [intros q Hq; inversion Hq; subst; auto|].
      rewrite E. simpl. auto.
    + rewrite (Vn p Ev). simpl. auto.
  - destruct (prel_new hp sh None R) as [hp' [E R']]; [discriminate|]. rewrite E. simpl. auto.
  - destruct (s_valid sh p) eqn:Ev.
    + destruct (prel_new hp sh (Some p) R) as [hp' [E R']]; [intros q Hq; inversion Hq; subst; auto|].
      rewrite E. simpl. auto.
    + rewrite (Vn p Ev). simpl. auto.
  - destruct (s_valid sh h) eqn:Ev.
    + destruct (prel_add hp sh h x R (V1 h Ev)) as [hp' [E R']]. rewrite E. simpl. auto.
    + unfold ps_add, ps_contains, ps_fuel. simpl. rewrite (invalid_none hp h (V2 h Ev)). simpl. auto.
  - simpl. split; [exact R|]. destruct (s_valid sh h) eqn:Ev.
    + rewrite (ps_contains_spec hp sh R h x (V1 h Ev)). reflexivity.
    + unfold ps_contains, ps_fuel. simpl. rewrite (invalid_none hp h (V2 h Ev)). reflexivity.
  - simpl. split; [exact R|]. destruct (s_valid sh h) eqn:Ev.
    + rewrite (ps_foreach_spec hp sh R h (V1 h Ev)). reflexivity.
    + unfold ps_foreach, ps_fuel. simpl. rewrite (invalid_none hp h (V2 h Ev)). reflexivity.
  - simpl. split; [exact R|]. destruct (s_valid sh h) eqn:Ev.
    + rewrite (ps_foreach_stop_spec hp sh R h c (V1 h Ev)). reflexivity.
    + unfold ps_foreach_stop, ps_fuel. simpl. rewrite (invalid_none hp h (V2 h Ev)). reflexivity.
  - simpl. split; [exact R|]. destruct (s_valid sh h) eqn:Ev.
    + rewrite (ps_isempty_spec hp sh R h (V1 h Ev)). reflexivity.
    + unfold ps_isempty, ps_fuel. simpl. rewrite (invalid_none hp h (V2 h Ev)). reflexivity.
  - unfold ps_add_intersection.
    destruct (s_valid sh s) eqn:Evs; simpl.
    2:{ assert ((s <? length hp)%nat = false) as -> by (apply Nat.ltb_ge; apply V2 in Evs; lia). simpl. auto. }
    assert ((s <? length hp)%nat = true) as -> by (apply Nat.ltb_lt, V1, Evs).
    destruct (s_valid sh a) eqn:Eva; simpl.
    2:{ destruct (b <? length hp)%nat; simpl; [|auto].
        unfold ps_foreach, ps_fuel. simpl. rewrite (invalid_none hp a (V2 a Eva)). simpl. auto. }
    destruct (s_valid sh b) eqn:Evb; simpl.
    2:{ assert ((b <? length hp)%nat = false) as -> by (apply Nat.ltb_ge; apply V2 in Evb; lia). simpl. auto. }
    assert ((b <? length hp)%nat = true) as -> by (apply Nat.ltb_lt, V1, Evb). simpl.
    rewrite (ps_foreach_spec hp sh R a (V1 a Eva)).
    destruct (prel_add_if (s_view sh a) hp sh s b R (V1 s Evs) (V1 b Evb)) as [hp' [E R']].
    rewrite E. simpl. auto.
Qed.

Theorem ps_run_refines ops : forall hp sh, prel hp sh -> ps_run hp ops = s_run sh ops.
Proof.
  induction ops as [|o ops IH]; intros hp sh R; simpl; [reflexivity|].
  destruct (ps_step_sim hp sh o R) as [R' E].
  destruct (ps_step hp o) as [hp' x]. destruct (s_step sh o) as [sh' y]. simpl in *.
  rewrite E. f_equal. apply IH, R'.
Qed.

Corollary ps_refines ops : ps_run [] ops = s_run [] ops.
Proof. apply ps_run_refines, prel_nil. Qed.

(* ---------- mutation of a set never affects its ancestors ---------- *)
Definition swf (sh : sheap) : Prop :=
  forall i so, nth_error sh i = Some so -> forall g, In g (so_anc so) -> (g < i)%nat.

Lemma s_chain_bound sh g k : swf sh -> In k (s_chain sh g) -> (k <= g)%nat /\ (g < length sh)%nat.
Proof.
  intros W. unfold s_chain. destruct (nth_error sh g) eqn:E; [|intros []].
  assert (g < length sh)%nat by (apply nth_error_Some; congruence).
  intros [<-|H']; [lia|]. specialize (W g s E k H'). lia.
Qed.

Lemma s_own_update sh h f k : h <> k -> s_own (update_nth h f sh) k = s_own sh k.
Proof. intros N. unfold s_own. rewrite nth_update_neq by exact N. reflexivity. Qed.

Lemma s_view_add_frame sh h x g : ~ In h (s_chain sh g) -> s_view (s_add sh h x) g = s_view sh g.
Proof.
  intros N. unfold s_add. destruct (s_contains sh h x); [reflexivity|].
  unfold s_view. rewrite s_chain_update by reflexivity.
  induction (s_chain sh g) as [|k l IH]; simpl; [reflexivity|].
  rewrite s_own_update by (intros ->; apply N; left; reflexivity).
  rewrite IH; [reflexivity|]. intros H; apply N; right; exact H.
Qed.

Lemma s_chain_add sh h x g : s_chain (s_add sh h x) g = s_chain sh g.
Proof.
  unfold s_add. destruct (s_contains sh h x); [reflexivity|]. apply s_chain_update. reflexivity.
Qed.

Lemma s_view_add_intersection_frame sh s a b g :
  ~ In s (s_chain sh g) -> s_view (s_add_intersection sh s a b) g = s_view sh g.
Proof.
  unfold s_add_intersection. generalize (s_view sh a) as items. intros items. revert sh.
  induction items as [|x items IH]; intros sh N; simpl; [reflexivity|].
  destruct (s_contains sh b x).
  - rewrite IH; [apply s_view_add_frame, N|]. rewrite s_chain_add. exact N.
  - apply IH, N.
Qed.

(* a proper ancestor's chain cannot contain the descendant *)
Lemma ancestor_chain_excludes sh h so g :
  swf sh -> nth_error sh h = Some so -> In g (so_anc so) -> ~ In h (s_chain sh g).
Proof.
  intros W E Hg Hin. apply (s_chain_bound sh g h W) in Hin. specialize (W h so E g Hg). lia.
Qed.

(* reachable states *)
Definition ps_after (ops : list ps_op) : pheap := fold_left (fun hp o => fst (ps_step hp o)) ops [].
Definition s_after (ops : list ps_op) : sheap := fold_left (fun sh o => fst (s_step sh o)) ops [].

Lemma prel_after ops : prel (ps_after ops) (s_after ops).
Proof.
  unfold ps_after, s_after. generalize prel_nil. generalize (@nil pobj). generalize (@nil sobj).
  induction ops as [|o ops IH]; intros sh hp R; simpl; [exact R|].
  apply IH. apply ps_step_sim, R.
Qed.

Lemma prel_swf hp sh : prel hp sh -> swf sh.
Proof.
  intros [Rl Ro]. intros i. induction i as [i IHi] using lt_wf_ind. intros so Es g Hg.
  assert (i < length hp)%nat as Hi by (rewrite Rl; apply nth_error_Some; congruence).
  destruct (nth_error_valid hp i Hi) as [o Eo]. destruct (Ro i o Eo) as [so' [Es' [_ [_ [Ea Hp]]]]].
  rewrite Es in Es'. inversion Es'; subst so'. rewrite Ea in Hg.
  destruct (po_parent o) as [p|]; [|destruct Hg]. specialize (Hp p eq_refl).
  unfold s_chain in Hg. destruct (nth_error sh p) as [sp|] eqn:Ep; [|destruct Hg].
  destruct Hg as [<-|Hg]; [exact Hp|]. specialize (IHi p Hp sp Ep g Hg). lia.
Qed.

(* ancestors in the model heap: follow Parent pointers at least once *)
Inductive ancestor (hp : pheap) : nat -> nat -> Prop :=
| anc_parent h o p : nth_error hp h = Some o -> po_parent o = Some p -> ancestor hp h p
| anc_step h o p g : nth_error hp h = Some o -> po_parent o = Some p -> ancestor hp p g -> ancestor hp h g.

Lemma ancestor_spec hp sh h g : prel hp sh -> ancestor hp h g ->
  exists so, nth_error sh h = Some so /\ In g (so_anc so).
Proof.
  intros R A. induction A as [h o p Eo Ep|h o p g Eo Ep A IH].
  - destruct (proj2 R h o Eo) as [so [Es [_ [_ [Ea Hp]]]]]. exists so. split; [exact Es|].
    rewrite Ea, Ep. unfold s_chain.
    assert (p < length sh)%nat as Hl.
    { specialize (Hp p Ep). rewrite <- (proj1 R). apply Nat.lt_trans with h; [exact Hp|].
      apply nth_error_Some. congruence. }
    destruct (nth_error_valid sh p Hl) as [sp ->]. left; reflexivity.
  - destruct IH as [sp [Esp Hg]].
    destruct (proj2 R h o Eo) as [so [Es [_ [_ [Ea _]]]]]. exists so. split; [exact Es|].
    rewrite Ea, Ep. unfold s_chain. rewrite Esp. right; exact Hg.
Qed.

(* operations that only read set g *)
Definition reads (g : nat) (q : ps_op) : bool :=
  match q with
  | PContains h _ | PForEach h | PForEachStop h _ | PIsEmpty h => (h =? g)%nat
  | _ => false
  end.
(* operations that write to set h *)
Definition writes (h : nat) (w : ps_op) : bool :=
  match w with
  | PAdd s _ | PAddIntersection s _ _ => (s =? h)%nat
  | _ => false
  end.

Lemma s_read_frame sh sh' g q :
  length sh' = length sh -> s_view sh' g = s_view sh g -> reads g q = true ->
  snd (s_step sh' q) = snd (s_step sh q).
Proof.
  intros El Ev Hq. destruct q; simpl in Hq; try discriminate;
    apply Nat.eqb_eq in Hq; subst; simpl; unfold s_valid, s_contains; rewrite El, Ev; reflexivity.
Qed.

Lemma s_add_intersection_length sh s a b : length (s_add_intersection sh s a b) = length sh.
Proof.
  unfold s_add_intersection. generalize (s_view sh a) as items. intros items. revert sh.
  induction items as [|x items IH]; intros sh; simpl; [reflexivity|].
  destruct (s_contains sh b x); [rewrite IH; apply s_add_length|apply IH].
Qed.

Lemma s_write_frame sh h w g q :
  ~ In h (s_chain sh g) -> writes h w = true -> reads g q = true ->
  snd (s_step (fst (s_step sh w)) q) = snd (s_step sh q).
Proof.
  intros N Hw Hq. destruct w; simpl in Hw; try discriminate; apply Nat.eqb_eq in Hw; subst; simpl.
  - destruct (s_valid sh h); simpl; [|reflexivity].
    apply (s_read_frame sh _ g q); [apply s_add_length|apply s_view_add_frame, N|exact Hq].
  - destruct (s_valid sh h && s_valid sh a && s_valid sh b); simpl; [|reflexivity].
    apply (s_read_frame sh _ g q);
      [apply s_add_intersection_length|apply s_view_add_intersection_frame, N|exact Hq].
Qed.

(* After ANY history: a write to set h (Add, AddIntersection) leaves every observation of a
   proper ancestor g of h unchanged. *)
Theorem ps_write_never_affects_ancestor ops h w g q :
  let hp := ps_after ops in
  ancestor hp h g -> writes h w = true -> reads g q = true ->
  snd (ps_step (fst (ps_step hp w)) q) = snd (ps_step hp q).
Proof.
  intros hp A Hw Hq. pose proof (prel_after ops) as R. fold hp in R.
  destruct (ps_step_sim hp (s_after ops) w R) as [R' _].
  rewrite (proj2 (ps_step_sim _ _ q R')), (proj2 (ps_step_sim _ _ q R)).
  destruct (ancestor_spec hp _ h g R A) as [so [Es Hg]].
  apply (s_write_frame _ h w g q); [|exact Hw|exact Hq].
  apply (ancestor_chain_excludes _ h so g (prel_swf _ _ R) Es Hg).
Qed.

(* ... and more generally of every set whose chain does not pass through h *)
Theorem s_write_never_affects_unrelated ops h w g q :
  ~ In h (s_chain (s_after ops) g) -> writes h w = true -> reads g q = true ->
  snd (ps_step (fst (ps_step (ps_after ops) w)) q) = snd (ps_step (ps_after ops) q).
Proof.
  intros N Hw Hq. pose proof (prel_after ops) as R.
  destruct (ps_step_sim _ _ w R) as [R' _].
  rewrite (proj2 (ps_step_sim _ _ q R')), (proj2 (ps_step_sim _ _ q R)).
  apply (s_write_frame _ h w g q N Hw Hq).
Qed.

(* a clone contains exactly the items of its parent at the time of cloning *)
Theorem s_clone_view sh p : s_valid sh p = true -> s_view (s_new sh (Some p)) (length sh) = s_view sh p.
Proof.
  intros V. unfold s_valid in V. apply Nat.ltb_lt in V.
  set (sh' := s_new sh (Some p)).
  assert (nth_error sh' (length sh) = Some (mkSO [] (s_chain sh p))) as En.
  { unfold sh', s_new. rewrite nth_error_app2 by lia. rewrite Nat.sub_diag. reflexivity. }
  assert (forall k, In k (s_chain sh p) -> s_own sh' k = s_own sh k) as H.
  { intros k Hk. unfold s_own, sh', s_new. unfold s_chain in Hk. destruct (nth_error sh p) eqn:E; [|destruct Hk].
    destruct (nth_error sh k) eqn:Ek.
    - rewrite nth_error_app1 by (apply nth_error_Some; congruence). rewrite Ek. reflexivity.
    - apply nth_error_None in Ek. rewrite nth_error_app2 by lia.
      destruct (k - length sh)%nat as [|[|j]]; reflexivity. }
  unfold s_view. unfold s_chain at 1. rewrite En. simpl. unfold s_own at 1. rewrite En. simpl.
  induction (s_chain sh p) as [|k l IH] in H |- *; simpl; [reflexivity|].
  rewrite H by (left; reflexivity). f_equal. apply IH. intros j Hj. apply H. right; exact Hj.
Qed.

(* what Add does to the set itself *)
Theorem s_add_view sh h x : s_valid sh h = true ->
  s_contains (s_add sh h x) h x = true /\
  (s_contains sh h x = true -> s_add sh h x = sh).
Proof.
  intros V. unfold s_add. destruct (s_contains sh h x) eqn:E; [auto|]. split; [|discriminate].
  unfold s_valid in V. apply Nat.ltb_lt in V. destruct (nth_error_valid sh h V) as [so Es].
  unfold s_contains, s_view. rewrite s_chain_update by reflexivity.
  unfold s_chain. rewrite Es. simpl. rewrite existsb_app'. apply orb_true_iff. left.
  unfold s_own. rewrite (nth_update_eq _ sh h so Es). simpl.
  rewrite existsb_app'. simpl. rewrite Z.eqb_refl. apply orb_true_iff. right. reflexivity.
Qed.

(* valid histories never report an invalid handle *)
Lemma s_step_length sh o : length (fst (s_step sh o)) = if op_creates o && op_valid (length sh) o then S (length sh) else length sh.
Proof.
  unfold s_valid. destruct o as [[p|]|p|h x|h x|h|h c|h|s a b]; simpl; unfold s_valid.
  - destruct (p <? length sh)%nat; simpl; [unfold s_new; rewrite app_length; simpl; lia|reflexivity].
  - unfold s_new; rewrite app_length; simpl; lia.
  - destruct (p <? length sh)%nat; simpl; [unfold s_new; rewrite app_length; simpl; lia|reflexivity].
  - destruct (h <? length sh)%nat; simpl; [apply s_add_length|reflexivity].
  - reflexivity.
  - reflexivity.
  - reflexivity.
  - reflexivity.
  - destruct ((s <? length sh)%nat && (a <? length sh)%nat && (b <? length sh)%nat); simpl;
      [apply s_add_intersection_length|reflexivity].
Qed.

Theorem s_valid_no_crash ops : forall sh, hist_valid (length sh) ops = true -> ~ In VCrash (s_run sh ops).
Proof.
  induction ops as [|o ops IH]; intros sh H; simpl; [tauto|].
  simpl in H. apply andb_true_iff in H. destruct H as [Hv Hr].
  pose proof (s_step_length sh o) as Hl. rewrite Hv, andb_true_r in Hl.
  destruct (s_step sh o) as [sh' x] eqn:Es. simpl in Hl. intros [Hx|Hin].
  - subst x. destruct o as [[p|]|p|h y|h y|h|h c|h|s a b]; simpl in Es, Hv; unfold s_valid in Es;
      try rewrite Hv in Es; try discriminate; inversion Es.
  - apply (IH sh'); [rewrite Hl; exact Hr|exact Hin].
Qed.

Corollary ps_valid_no_crash ops : hist_valid 0 ops = true -> ~ In VCrash (ps_run [] ops).
Proof. intros H. rewrite ps_refines. exact (s_valid_no_crash ops [] H). Qed.
