(* C51 — code-shaped model of common/orderedmap.OrderedMap[K,V] (K = V = Z) and its simple
   specification (association list in insertion order).

   Go representation:  pairs map[K]*Pair ; list *list.List[*Pair]   (nil/nil for the zero value)
   Model:              om_pairs : Go map K -> V as association list (one binding per key),
                       om_list  : keys of the linked list, front to back,
                       om_init  : pairs != nil.
   The value lives in the Pair object shared by map and list; the model keeps it in om_pairs and
   reads it through the key (a failed read = nil dereference = Crash; proved unreachable). *)
From CV Require Export Base.Prelude.

(* ---------- Go map[Z]Z ---------- *)
Definition amap := list (Z * Z).

Fixpoint alookup (k : Z) (m : amap) : option Z :=
  match m with
  | [] => None
  | (k', v) :: r => if k =? k' then Some v else alookup k r
  end.

Fixpoint aremove (k : Z) (m : amap) : amap :=
  match m with
  | [] => []
  | (k', v) :: r => if k =? k' then aremove k r else (k', v) :: aremove k r
  end.

Definition aset (k v : Z) (m : amap) : amap := (k, v) :: aremove k m.
Definition ahas (k : Z) (m : amap) : bool := match alookup k m with Some _ => true | None => false end.

(* list.Remove(element): unlink that element (the first -- and only -- one holding key k) *)
Fixpoint lremove (k : Z) (l : list Z) : list Z :=
  match l with
  | [] => []
  | x :: r => if k =? x then r else x :: lremove k r
  end.

(* element after / before the element holding k *)
Fixpoint lnext (k : Z) (l : list Z) : option Z :=
  match l with
  | [] => None
  | x :: r => if k =? x then hd_error r else lnext k r
  end.
Fixpoint lprev_aux (prev : option Z) (k : Z) (l : list Z) : option Z :=
  match l with
  | [] => None
  | x :: r => if k =? x then prev else lprev_aux (Some x) k r
  end.
Definition lprev := lprev_aux None.

(* ---------- model state ---------- *)
Record omap := mkOM { om_init : bool; om_pairs : amap; om_list : list Z }.

Definition om_zero : omap := mkOM false [] [].      (* zero value: OrderedMap{} *)
Definition om_new : omap := mkOM true [] [].        (* orderedmap.New(size) *)

Inductive obs :=
| VUnit | VCrash
| VBool (b : bool)
| VOpt (o : option Z)
| VPair (o : option (Z * Z))
| VInt (z : Z)
| VList (l : list (Z * Z)).

Inductive om_op :=
| OSet (k v : Z) | OGet (k : Z) | OContains (k : Z) | ODelete (k : Z) | OLen | OClear
| OForeach | OOldest | ONewest | ONext (k : Z) | OPrev (k : Z)
| OForAll (c : Z) | OForAny (c : Z)           (* predicate on keys: key < c *)
| OSetAll (l : list (Z * Z))                  (* other map = New + Set of each pair of l, in order *)
| ODisjoint (l : list (Z * Z)) | OIntersect (l : list (Z * Z)) | OUnion (l : list (Z * Z)).

Definition om_ensure (s : omap) : omap :=
  if om_init s then s else mkOM true [] [].

Definition om_get (s : omap) (k : Z) : option Z :=
  if negb (om_init s) then None else alookup k (om_pairs s).

Definition om_contains (s : omap) (k : Z) : bool :=
  if negb (om_init s) then false else ahas k (om_pairs s).

Definition om_set (s : omap) (k v : Z) : omap * option Z :=
  let s := om_ensure s in
  match alookup k (om_pairs s) with
  | Some old => (mkOM true (aset k v (om_pairs s)) (om_list s), Some old)      (* pair.Value = value *)
  | None => (mkOM true (aset k v (om_pairs s)) (om_list s ++ [k]), None)       (* PushBack *)
  end.

Definition om_delete (s : omap) (k : Z) : omap * option Z :=
  if negb (om_init s) then (s, None) else
  match alookup k (om_pairs s) with
  | None => (s, None)
  | Some old => (mkOM true (aremove k (om_pairs s)) (lremove k (om_list s)), Some old)
  end.

Definition om_len (s : omap) : Z := Z.of_nat (length (om_pairs s)).

Definition om_clear (s : omap) : omap :=
  if negb (om_init s) then s else mkOM true [] [].

(* read the pair behind a list element: (key, value); None = nil dereference *)
Definition om_pair (s : omap) (k : Z) : option (Z * Z) :=
  match alookup k (om_pairs s) with Some v => Some (k, v) | None => None end.

Fixpoint om_walk (s : omap) (l : list Z) : option (list (Z * Z)) :=
  match l with
  | [] => Some []
  | k :: r => match om_pair s k, om_walk s r with
              | Some p, Some ps => Some (p :: ps)
              | _, _ => None
              end
  end.

Definition om_foreach (s : omap) : option (list (Z * Z)) :=
  if negb (om_init s) then Some [] else om_walk s (om_list s).

Definition opt_pair_obs (o : option Z) (s : omap) : obs :=
  match o with
  | None => VPair None
  | Some k => match om_pair s k with Some p => VPair (Some p) | None => VCrash end
  end.

Definition om_oldest (s : omap) : obs :=
  if negb (om_init s) then VPair None else opt_pair_obs (hd_error (om_list s)) s.
Definition om_newest (s : omap) : obs :=
  if negb (om_init s) then VPair None else opt_pair_obs (hd_error (rev (om_list s))) s.

(* GetPair(k) then Next()/Prev(): VUnit when GetPair returns nil *)
Definition om_next (s : omap) (k : Z) : obs :=
  if negb (om_init s) then VUnit else
  if ahas k (om_pairs s) then opt_pair_obs (lnext k (om_list s)) s else VUnit.
Definition om_prev (s : omap) (k : Z) : obs :=
  if negb (om_init s) then VUnit else
  if ahas k (om_pairs s) then opt_pair_obs (lprev k (om_list s)) s else VUnit.

Definition om_forall (s : omap) (c : Z) : bool :=
  if negb (om_init s) then true else forallb (fun k => k <? c) (om_list s).
(* as written in orderedmap.go: `if om.pairs == nil { return false }` *)
Definition om_forany (s : omap) (c : Z) : bool :=
  if negb (om_init s) then false else existsb (fun k => k <? c) (om_list s).

Definition om_set_list (s : omap) (l : list (Z * Z)) : omap :=
  fold_left (fun s p => fst (om_set s (fst p) (snd p))) l s.

Definition om_build (l : list (Z * Z)) : omap := om_set_list om_new l.

(* SetAll(other): other.Foreach(Set) *)
Definition om_setall (s other : omap) : option omap :=
  match om_foreach other with
  | Some ps => Some (om_set_list s ps)
  | None => None
  end.

Definition om_disjoint (s other : omap) : option bool :=
  match om_foreach s with
  | Some ps => Some (fold_left (fun acc p => acc && negb (om_contains other (fst p))) ps true)
  | None => None
  end.

Definition om_intersection (s other : omap) : option omap :=
  match om_foreach s with
  | Some ps => Some (fold_left (fun r p => if om_contains other (fst p) then fst (om_set r (fst p) (snd p)) else r) ps om_new)
  | None => None
  end.

Definition om_union (s other : omap) : option omap :=
  match om_setall om_new s with
  | Some u => om_setall u other
  | None => None
  end.

Definition list_obs (o : option (list (Z * Z))) : obs :=
  match o with Some l => VList l | None => VCrash end.

Definition om_step (s : omap) (o : om_op) : omap * obs :=
  match o with
  | OSet k v => let '(s', old) := om_set s k v in (s', VOpt old)
  | OGet k => (s, VOpt (om_get s k))
  | OContains k => (s, VBool (om_contains s k))
  | ODelete k => let '(s', old) := om_delete s k in (s', VOpt old)
  | OLen => (s, VInt (om_len s))
  | OClear => (om_clear s, VUnit)
  | OForeach => (s, list_obs (om_foreach s))
  | OOldest => (s, om_oldest s)
  | ONewest => (s, om_newest s)
  | ONext k => (s, om_next s k)
  | OPrev k => (s, om_prev s k)
  | OForAll c => (s, VBool (om_forall s c))
  | OForAny c => (s, VBool (om_forany s c))
  | OSetAll l => match om_setall s (om_build l) with Some s' => (s', VUnit) | None => (s, VCrash) end
  | ODisjoint l => (s, match om_disjoint s (om_build l) with Some b => VBool b | None => VCrash end)
  | OIntersect l => (s, match om_intersection s (om_build l) with Some r => list_obs (om_foreach r) | None => VCrash end)
  | OUnion l => (s, match om_union s (om_build l) with Some r => list_obs (om_foreach r) | None => VCrash end)
  end.

Fixpoint om_run (s : omap) (ops : list om_op) : list obs :=
  match ops with
  | [] => []
  | o :: r => let '(s', v) := om_step s o in v :: om_run s' r
  end.

(* ---------- specification: association list in insertion order ---------- *)
Definition spec := list (Z * Z).

Fixpoint sp_update (k v : Z) (l : spec) : spec :=
  match l with
  | [] => []
  | (k', v') :: r => if k =? k' then (k', v) :: r else (k', v') :: sp_update k v r
  end.

Definition sp_set (l : spec) (k v : Z) : spec :=
  if ahas k l then sp_update k v l else l ++ [(k, v)].

Definition sp_del (l : spec) (k : Z) : spec := filter (fun p => negb (k =? fst p)) l.

Definition sp_set_list (l : spec) (ps : list (Z * Z)) : spec :=
  fold_left (fun l p => sp_set l (fst p) (snd p)) ps l.

Fixpoint sp_next (k : Z) (l : spec) : option (Z * Z) :=
  match l with
  | [] => None
  | (k', _) :: r => if k =? k' then hd_error r else sp_next k r
  end.

Definition sp_prev (k : Z) (l : spec) : option (Z * Z) := sp_next k (rev l).

Definition sp_step (l : spec) (o : om_op) : spec * obs :=
  match o with
  | OSet k v => (sp_set l k v, VOpt (alookup k l))
  | OGet k => (l, VOpt (alookup k l))
  | OContains k => (l, VBool (ahas k l))
  | ODelete k => (sp_del l k, VOpt (alookup k l))
  | OLen => (l, VInt (Z.of_nat (length l)))
  | OClear => ([], VUnit)
  | OForeach => (l, VList l)
  | OOldest => (l, VPair (hd_error l))
  | ONewest => (l, VPair (hd_error (rev l)))
  | ONext k => (l, if ahas k l then VPair (sp_next k l) else VUnit)
  | OPrev k => (l, if ahas k l then VPair (sp_prev k l) else VUnit)
  | OForAll c => (l, VBool (forallb (fun p => fst p <? c) l))
  | OForAny c => (l, VBool (existsb (fun p => fst p <? c) l))
  | OSetAll ps => (sp_set_list l (sp_set_list [] ps), VUnit)
  | ODisjoint ps => (l, VBool (forallb (fun p => negb (ahas (fst p) (sp_set_list [] ps))) l))
  | OIntersect ps => (l, VList (filter (fun p => ahas (fst p) (sp_set_list [] ps)) l))
  | OUnion ps => (l, VList (sp_set_list (sp_set_list [] l) (sp_set_list [] ps)))
  end.

Fixpoint sp_run (l : spec) (ops : list om_op) : list obs :=
  match ops with
  | [] => []
  | o :: r => let '(l', v) := sp_step l o in v :: sp_run l' r
  end.
