(* C51 — check functions evaluated (vm_compute) on the per-run case files: the code-shaped models
   are run on the same histories as the real Go packages and every observation is compared. *)
From CV Require Export C51.OMapModel C51.BiMapModel C51.PSetModel C51.ITreeModel.

Definition pair_eqb (a b : Z * Z) : bool := (fst a =? fst b) && (snd a =? snd b).
Fixpoint list_eqb {A} (eqb : A -> A -> bool) (a b : list A) : bool :=
  match a, b with
  | [], [] => true
  | x :: a', y :: b' => eqb x y && list_eqb eqb a' b'
  | _, _ => false
  end.
Definition opt_eqb {A} (eqb : A -> A -> bool) (a b : option A) : bool :=
  match a, b with
  | None, None => true
  | Some x, Some y => eqb x y
  | _, _ => false
  end.

Definition obs_eqb (a b : obs) : bool :=
  match a, b with
  | VUnit, VUnit => true
  | VCrash, VCrash => true
  | VBool x, VBool y => Bool.eqb x y
  | VOpt x, VOpt y => opt_eqb Z.eqb x y
  | VPair x, VPair y => opt_eqb pair_eqb x y
  | VInt x, VInt y => x =? y
  | VList x, VList y => list_eqb pair_eqb x y
  | _, _ => false
  end.

(* ordered map: (created by New?, [(operation, observed result)]) *)
Fixpoint om_check_steps (s : omap) (steps : list (om_op * obs)) : bool :=
  match steps with
  | [] => true
  | (o, x) :: r => let '(s', y) := om_step s o in obs_eqb x y && om_check_steps s' r
  end.
Definition check_omap (c : bool * list (om_op * obs)) : bool :=
  let '(newed, steps) := c in om_check_steps (if newed then om_new else om_zero) steps.

Fixpoint bm_check_steps (b : bimap) (steps : list (bm_op * obs)) : bool :=
  match steps with
  | [] => true
  | (o, x) :: r => let '(b', y) := bm_step b o in obs_eqb x y && bm_check_steps b' r
  end.
Definition check_bimap (steps : list (bm_op * obs)) : bool := bm_check_steps bm_new steps.

Fixpoint ps_check_steps (hp : pheap) (steps : list (ps_op * obs)) : bool :=
  match steps with
  | [] => true
  | (o, x) :: r => let '(hp', y) := ps_step hp o in obs_eqb x y && ps_check_steps hp' r
  end.
Definition check_pset (steps : list (ps_op * obs)) : bool := ps_check_steps [] steps.

(* interval tree *)
Definition entry_eqb (a b : entry) : bool :=
  (e_lo a =? e_lo b) && (e_hi a =? e_hi b) && (e_val a =? e_val b).
Definition pos_eqb (a b : pos) : bool :=
  match a, b with PMin, PMin => true | P x, P y => x =? y | _, _ => false end.
Fixpoint tree_eqb (a b : tree) : bool :=
  match a, b with
  | Leaf, Leaf => true
  | Node l lo hi v mx n r, Node l' lo' hi' v' mx' n' r' =>
      (lo =? lo') && (hi =? hi') && (v =? v') && pos_eqb mx mx' && (n =? n') &&
      tree_eqb l l' && tree_eqb r r'
  | _, _ => false
  end.
Definition iobs_eqb (a b : iobs) : bool :=
  match a, b with
  | IUnit, IUnit => true
  | ICrash, ICrash => true
  | IOptV x, IOptV y => opt_eqb Z.eqb x y
  | IBool x, IBool y => Bool.eqb x y
  | IEntry x, IEntry y => opt_eqb entry_eqb x y
  | IEntries x, IEntries y => list_eqb entry_eqb x y
  | IVals x, IVals y => list_eqb Z.eqb x y
  | _, _ => false
  end.

(* Boolean form of the invariant (BST order on (Min,Max), cached maxima, sizes), evaluated on the
   shape of the REAL tree as read back from the Go heap *)
Fixpoint elems_b (t : tree) : list entry :=
  match t with
  | Leaf => []
  | Node l lo hi v _ _ r => (lo, hi, v) :: elems_b l ++ elems_b r
  end.
Definition kle_b (lo hi lo' hi' : Z) : bool := (lo <? lo') || ((lo =? lo') && (hi <=? hi')).
Fixpoint wf_b (t : tree) : bool :=
  match t with
  | Leaf => true
  | Node l lo hi v mx n r =>
      wf_b l && wf_b r &&
      forallb (fun e => kle_b (e_lo e) (e_hi e) lo hi) (elems_b l) &&
      forallb (fun e => kle_b lo hi (e_lo e) (e_hi e)) (elems_b r) &&
      pos_eqb mx (max3 (P hi) (tmax l) (tmax r)) && (n =? 1 + tsize l + tsize r)
  end.

(* one step of an interval-tree history as recorded by the harness:
   CPut: the interval put and the depth at which the new node sits in the real tree afterwards --
         this is the random choice math/rand made (descend `depth` times, then insert at the root
         of that subtree), fed to the model as its choice list;
   CQuery: a query and the exact answer of the real tree;
   CDump: the real tree (shape and all fields) read back by reflection. *)
Inductive it_case :=
| CPut (lo hi v depth : Z)
| CQuery (o : it_op) (x : iobs)
| CDump (t : tree).

Fixpoint it_check_steps (t : tree) (steps : list it_case) : bool :=
  match steps with
  | [] => true
  | CPut lo hi v d :: r =>
      match rand_insert (repeat false (Z.to_nat d) ++ [true]) t lo hi v with
      | Ok (t', _) => it_check_steps t' r
      | Err _ => false
      end
  | CQuery o x :: r =>
      let '(_, y) := it_step [] t o in iobs_eqb x y && it_check_steps t r
  | CDump real :: r => tree_eqb t real && wf_b real && it_check_steps t r
  end.
Definition check_itree (steps : list it_case) : bool := it_check_steps Leaf steps.

(* list builders without implicit arguments or notations: long literals elaborate in linear time *)
Definition OS (o : om_op) (x : obs) (r : list (om_op * obs)) : list (om_op * obs) := (o, x) :: r.
Definition ON : list (om_op * obs) := [].
Definition BS (o : bm_op) (x : obs) (r : list (bm_op * obs)) : list (bm_op * obs) := (o, x) :: r.
Definition BN : list (bm_op * obs) := [].
Definition SS (o : ps_op) (x : obs) (r : list (ps_op * obs)) : list (ps_op * obs) := (o, x) :: r.
Definition SN : list (ps_op * obs) := [].
Definition IC (c : it_case) (r : list it_case) : list it_case := c :: r.
Definition IN : list it_case := [].
Definition LP (k v : Z) (r : list (Z * Z)) : list (Z * Z) := (k, v) :: r.
Definition LPN : list (Z * Z) := [].
Definition LE (lo hi v : Z) (r : list entry) : list entry := (lo, hi, v) :: r.
Definition LEN : list entry := [].
Definition LZ (z : Z) (r : list Z) : list Z := z :: r.
Definition LZN : list Z := [].

(* diagnostics: index of the first step of a history on which model and implementation differ (-1: none) *)
Fixpoint om_first_bad (s : omap) (steps : list (om_op * obs)) (i : Z) : Z :=
  match steps with
  | [] => -1
  | (o, x) :: r => let '(s', y) := om_step s o in if obs_eqb x y then om_first_bad s' r (i + 1) else i
  end.
Definition first_bad_omap (c : bool * list (om_op * obs)) : Z :=
  let '(newed, steps) := c in om_first_bad (if newed then om_new else om_zero) steps 0.
Fixpoint bm_first_bad (b : bimap) (steps : list (bm_op * obs)) (i : Z) : Z :=
  match steps with
  | [] => -1
  | (o, x) :: r => let '(b', y) := bm_step b o in if obs_eqb x y then bm_first_bad b' r (i + 1) else i
  end.
Definition first_bad_bimap (steps : list (bm_op * obs)) : Z := bm_first_bad bm_new steps 0.
Fixpoint ps_first_bad (hp : pheap) (steps : list (ps_op * obs)) (i : Z) : Z :=
  match steps with
  | [] => -1
  | (o, x) :: r => let '(hp', y) := ps_step hp o in if obs_eqb x y then ps_first_bad hp' r (i + 1) else i
  end.
Definition first_bad_pset (steps : list (ps_op * obs)) : Z := ps_first_bad [] steps 0.
Fixpoint it_first_bad (t : tree) (steps : list it_case) (i : Z) : Z :=
  match steps with
  | [] => -1
  | CPut lo hi v d :: r =>
      match rand_insert (repeat false (Z.to_nat d) ++ [true]) t lo hi v with
      | Ok (t', _) => it_first_bad t' r (i + 1)
      | Err _ => i
      end
  | CQuery o x :: r => let '(_, y) := it_step [] t o in if iobs_eqb x y then it_first_bad t r (i + 1) else i
  | CDump real :: r => if tree_eqb t real && wf_b real then it_first_bad t r (i + 1) else i
  end.
Definition first_bad_itree (steps : list it_case) : Z := it_first_bad Leaf steps 0.
