(* C51 — code-shaped model of common/bimap.BiMap[K,V] (K = V = Z) and its specification
   (a list of pairs in which no key and no value occurs twice). *)
From CV Require Export C51.OMapModel.

Record bimap := mkBM { bm_fw : amap; bm_bw : amap }.      (* forward map[K]V, backward map[V]K *)
Definition bm_new : bimap := mkBM [] [].

(* Insert: as written in bimap.go *)
Definition bm_insert (b : bimap) (k v : Z) : bimap :=
  let bw1 := match alookup k (bm_fw b) with
             | Some existing => aremove existing (bm_bw b)
             | None => bm_bw b
             end in
  let fw1 := match alookup v bw1 with
             | Some existing => aremove existing (bm_fw b)
             | None => bm_fw b
             end in
  mkBM (aset k v fw1) (aset v k bw1).

Definition bm_exists (b : bimap) (k : Z) : bool := ahas k (bm_fw b).
Definition bm_exists_inv (b : bimap) (v : Z) : bool := ahas v (bm_bw b).

Definition bm_get (b : bimap) (k : Z) : option Z :=
  if negb (bm_exists b k) then None else alookup k (bm_fw b).
Definition bm_get_inv (b : bimap) (v : Z) : option Z :=
  if negb (bm_exists_inv b v) then None else alookup v (bm_bw b).

Definition bm_delete (b : bimap) (k : Z) : bimap :=
  if negb (bm_exists b k) then b else
  match bm_get b k with
  | Some val => mkBM (aremove k (bm_fw b)) (aremove val (bm_bw b))
  | None => b   (* Get after Exists always finds the key: the zero value is never used *)
  end.

Definition bm_delete_inv (b : bimap) (v : Z) : bimap :=
  if negb (bm_exists_inv b v) then b else
  match bm_get_inv b v with
  | Some key => mkBM (aremove key (bm_fw b)) (aremove v (bm_bw b))
  | None => b
  end.

Definition bm_size (b : bimap) : Z := Z.of_nat (length (bm_fw b)).

Inductive bm_op :=
| BInsert (k v : Z) | BExists (k : Z) | BExistsInv (v : Z) | BGet (k : Z) | BGetInv (v : Z)
| BDelete (k : Z) | BDeleteInv (v : Z) | BSize.

Definition bm_step (b : bimap) (o : bm_op) : bimap * obs :=
  match o with
  | BInsert k v => (bm_insert b k v, VUnit)
  | BExists k => (b, VBool (bm_exists b k))
  | BExistsInv v => (b, VBool (bm_exists_inv b v))
  | BGet k => (b, VOpt (bm_get b k))
  | BGetInv v => (b, VOpt (bm_get_inv b v))
  | BDelete k => (bm_delete b k, VUnit)
  | BDeleteInv v => (bm_delete_inv b v, VUnit)
  | BSize => (b, VInt (bm_size b))
  end.

Fixpoint bm_run (b : bimap) (ops : list bm_op) : list obs :=
  match ops with
  | [] => []
  | o :: r => let '(b', x) := bm_step b o in x :: bm_run b' r
  end.

(* ---------- specification: a list of (key, value) pairs ---------- *)
Definition swap (p : Z * Z) : Z * Z := (snd p, fst p).

Definition bs_insert (l : list (Z * Z)) (k v : Z) : list (Z * Z) :=
  (k, v) :: filter (fun p => negb (fst p =? k) && negb (snd p =? v)) l.
Definition bs_get (l : list (Z * Z)) (k : Z) : option Z := alookup k l.
Definition bs_get_inv (l : list (Z * Z)) (v : Z) : option Z := alookup v (map swap l).
Definition bs_delete (l : list (Z * Z)) (k : Z) := filter (fun p => negb (fst p =? k)) l.
Definition bs_delete_inv (l : list (Z * Z)) (v : Z) := filter (fun p => negb (snd p =? v)) l.

Definition is_some {A} (o : option A) : bool := match o with Some _ => true | None => false end.

Definition bs_step (l : list (Z * Z)) (o : bm_op) : list (Z * Z) * obs :=
  match o with
  | BInsert k v => (bs_insert l k v, VUnit)
  | BExists k => (l, VBool (is_some (bs_get l k)))
  | BExistsInv v => (l, VBool (is_some (bs_get_inv l v)))
  | BGet k => (l, VOpt (bs_get l k))
  | BGetInv v => (l, VOpt (bs_get_inv l v))
  | BDelete k => (bs_delete l k, VUnit)
  | BDeleteInv v => (bs_delete_inv l v, VUnit)
  | BSize => (l, VInt (Z.of_nat (length l)))
  end.

Fixpoint bs_run (l : list (Z * Z)) (ops : list bm_op) : list obs :=
  match ops with
  | [] => []
  | o :: r => let '(l', x) := bs_step l o in x :: bs_run l' r
  end.
