(* C51 — interval search tree: for every choice list (every behaviour of math/rand) insertion keeps
   the BST order, the cached maxima and the sizes, never dereferences nil, and every query answers
   as the plain list of entries does. *)
From CV Require Import C51.ITreeModel.

(* ---------- comparisons ---------- *)
Lemma pcmp_lt x y : (pcmp (P x) (P y) <? 0) = (x <? y).
Proof. simpl. destruct (Z.ltb_spec x y); [reflexivity|]. destruct (Z.ltb_spec y x); reflexivity. Qed.
Lemma pcmp_gt x y : (pcmp (P x) (P y) >? 0) = (y <? x).
Proof.
  simpl. destruct (Z.ltb_spec x y); destruct (Z.ltb_spec y x); try reflexivity; lia.
Qed.
Lemma pcmp_le x y : (pcmp (P x) (P y) <=? 0) = (x <=? y).
Proof.
  simpl. destruct (Z.ltb_spec x y); destruct (Z.ltb_spec y x); destruct (Z.leb_spec x y); try reflexivity; lia.
Qed.
Lemma pcmp_ge x y : (pcmp (P x) (P y) >=? 0) = (y <=? x).
Proof.
  simpl. destruct (Z.ltb_spec x y); destruct (Z.ltb_spec y x); destruct (Z.leb_spec y x); try reflexivity; lia.
Qed.
Lemma pcmp_m1 x y : (pcmp (P x) (P y) =? -1) = (x <? y).
Proof. simpl. destruct (Z.ltb_spec x y); [reflexivity|]. destruct (Z.ltb_spec y x); reflexivity. Qed.

Lemma icontains_spec lo hi v p : icontains lo hi p = e_contains p (lo, hi, v).
Proof. unfold icontains, e_contains, e_lo, e_hi. rewrite !pcmp_le. reflexivity. Qed.

Lemma iintersects_spec lo hi v qlo qhi : iintersects lo hi qlo qhi = e_intersects qlo qhi (lo, hi, v).
Proof.
  unfold iintersects, e_intersects, e_lo, e_hi. rewrite !pcmp_m1. simpl.
  destruct (Z.ltb_spec qhi lo); destruct (Z.ltb_spec hi qlo);
    destruct (Z.leb_spec lo qhi); destruct (Z.leb_spec qlo hi); try reflexivity; lia.
Qed.

Definition klt (lo hi lo' hi' : Z) : Prop := lo < lo' \/ (lo = lo' /\ hi < hi').
Definition kle (lo hi lo' hi' : Z) : Prop := lo < lo' \/ (lo = lo' /\ hi <= hi').

Lemma icmp_lt lo hi lo' hi' : (icmp lo hi lo' hi' <? 0) = true <-> klt lo hi lo' hi'.
Proof.
  unfold icmp, klt. rewrite !pcmp_lt, !pcmp_gt.
  destruct (Z.ltb_spec lo lo'); destruct (Z.ltb_spec lo' lo); destruct (Z.ltb_spec hi hi');
    destruct (Z.ltb_spec hi' hi); simpl; split; intros; try reflexivity; try discriminate; lia.
Qed.
Lemma icmp_gt lo hi lo' hi' : (icmp lo hi lo' hi' >? 0) = true <-> klt lo' hi' lo hi.
Proof.
  unfold icmp, klt. rewrite !pcmp_lt, !pcmp_gt.
  destruct (Z.ltb_spec lo lo'); destruct (Z.ltb_spec lo' lo); destruct (Z.ltb_spec hi hi');
    destruct (Z.ltb_spec hi' hi); simpl; split; intros; try reflexivity; try discriminate; lia.
Qed.
Lemma icmp_nlt lo hi lo' hi' : (icmp lo hi lo' hi' <? 0) = false <-> kle lo' hi' lo hi.
Proof.
  rewrite <- not_true_iff_false, icmp_lt. unfold klt, kle. lia.
Qed.

(* ---------- order on positions with MinPosition ---------- *)
Definition ple (a b : pos) : Prop := pcmp a b <= 0.

Lemma ple_trans a b c : ple a b -> ple b c -> ple a c.
Proof.
  unfold ple. destruct a, b, c; simpl; try lia;
    repeat match goal with |- context [?x <? ?y] => destruct (Z.ltb_spec x y) end; lia.
Qed.
Lemma ple_P x y : ple (P x) (P y) <-> x <= y.
Proof.
  unfold ple. simpl. repeat match goal with |- context [?x <? ?y] => destruct (Z.ltb_spec x y) end; lia.
Qed.
Lemma ple_refl a : ple a a.
Proof. destruct a; [unfold ple; simpl; lia|apply ple_P; lia]. Qed.
Lemma not_ple_P_min x : ~ ple (P x) PMin.
Proof. unfold ple; simpl; lia. Qed.

Lemma max3_spec a b c :
  let m := max3 a b c in ple a m /\ ple b m /\ ple c m /\ (m = a \/ m = b \/ m = c).
Proof.
  unfold max3, ple. destruct a, b, c; simpl;
    repeat match goal with |- context [?x <? ?y] => destruct (Z.ltb_spec x y); simpl end;
    repeat split; auto; try lia.
Qed.

Lemma pcmp_lt_P a p : (pcmp a (P p) <? 0) = true <-> ~ ple (P p) a.
Proof.
  unfold ple. destruct a; simpl; [split; [lia|reflexivity]|].
  destruct (Z.ltb_spec z p); destruct (Z.ltb_spec p z); simpl;
    split; intros; try reflexivity; try discriminate; lia.
Qed.
Lemma pcmp_ge_P a p : (pcmp a (P p) >=? 0) = negb (pcmp a (P p) <? 0).
Proof.
  destruct (Z.geb_spec (pcmp a (P p)) 0); destruct (Z.ltb_spec (pcmp a (P p)) 0); try reflexivity; lia.
Qed.

(* ---------- elements and the invariant ---------- *)
Fixpoint elems (t : tree) : list entry :=
  match t with
  | Leaf => []
  | Node l lo hi v _ _ r => (lo, hi, v) :: elems l ++ elems r
  end.

Fixpoint wf (t : tree) : Prop :=
  match t with
  | Leaf => True
  | Node l lo hi v mx n r =>
      wf l /\ wf r /\
      Forall (fun e => kle (e_lo e) (e_hi e) lo hi) (elems l) /\
      Forall (fun e => kle lo hi (e_lo e) (e_hi e)) (elems r) /\
      mx = max3 (P hi) (tmax l) (tmax r) /\
      n = 1 + tsize l + tsize r
  end.

Lemma tmax_spec t : wf t ->
  Forall (fun e => ple (P (e_hi e)) (tmax t)) (elems t) /\
  match t with
  | Leaf => True
  | _ => exists e, In e (elems t) /\ tmax t = P (e_hi e)
  end.
Proof.
  induction t as [|l IHl lo hi v mx n r IHr]; simpl; [auto|].
  intros [Wl [Wr [_ [_ [Emx _]]]]]. destruct (IHl Wl) as [Al El]. destruct (IHr Wr) as [Ar Er].
  destruct (max3_spec (P hi) (tmax l) (tmax r)) as [M1 [M2 [M3 M4]]]. rewrite <- Emx in *.
  split.
  - constructor; [exact M1|]. apply Forall_app. split.
    + eapply Forall_impl; [|exact Al]. intros e He. exact (ple_trans _ _ _ He M2).
    + eapply Forall_impl; [|exact Ar]. intros e He. exact (ple_trans _ _ _ He M3).
  - destruct M4 as [M|[M|M]].
    + exists (lo, hi, v). split; [left; reflexivity|exact M].
    + destruct l; [simpl in M; rewrite M in M1; exfalso; apply (not_ple_P_min _ M1)|].
      destruct El as [e [He Ee]]. exists e. split; [right; apply in_app_iff; left; exact He|congruence].
    + destruct r; [simpl in M; rewrite M in M1; exfalso; apply (not_ple_P_min _ M1)|].
      destruct Er as [e [He Ee]]. exists e. split; [right; apply in_app_iff; right; exact He|congruence].
Qed.

Lemma wf_fix_node l lo hi v r :
  wf l -> wf r ->
  Forall (fun e => kle (e_lo e) (e_hi e) lo hi) (elems l) ->
  Forall (fun e => kle lo hi (e_lo e) (e_hi e)) (elems r) ->
  wf (fix_node l lo hi v r).
Proof. intros. simpl. auto 10. Qed.

Lemma elems_fix_node l lo hi v r : elems (fix_node l lo hi v r) = (lo, hi, v) :: elems l ++ elems r.
Proof. reflexivity. Qed.

Lemma kle_trans a b c d e f : kle a b c d -> kle c d e f -> kle a b e f.
Proof. unfold kle. lia. Qed.
Lemma klt_kle a b c d : klt a b c d -> kle a b c d.
Proof. unfold klt, kle. lia. Qed.

(* ---------- root insertion ---------- *)
Lemma root_insert_spec t lo hi v : wf t ->
  exists a b mx n,
    root_insert t lo hi v = Ok (Node a lo hi v mx n b) /\
    wf (Node a lo hi v mx n b) /\
    Permutation (elems a ++ elems b) (elems t).
Proof.
  induction t as [|l IHl lo' hi' v' mx' n' r IHr]; intros W.
  - exists Leaf, Leaf, (P hi), 1. simpl. repeat split; auto.
  - simpl in W. destruct W as [Wl [Wr [Fl [Fr [Emx En]]]]].
    simpl. destruct (icmp lo hi lo' hi' <? 0) eqn:Ec.
    + apply icmp_lt in Ec.
      destruct (IHl Wl) as [a [b [mx [n [E [W' Pm]]]]]]. rewrite E. simpl.
      simpl in W'. destruct W' as [Wa [Wb [Fa [Fb _]]]].
      do 4 eexists. split; [reflexivity|].
      assert (Forall (fun e => kle (e_lo e) (e_hi e) lo' hi') (elems b)) as Fb'.
      { eapply Permutation_Forall in Fl; [|symmetry; exact Pm]. apply Forall_app in Fl. tauto. }
      split.
      * apply wf_fix_node; auto.
        -- apply wf_fix_node; auto.
        -- rewrite elems_fix_node. constructor; [apply klt_kle, Ec|]. apply Forall_app. split; [exact Fb|].
           eapply Forall_impl; [|exact Fr]. intros e He. eapply kle_trans; [apply klt_kle, Ec|exact He].
      * rewrite elems_fix_node. simpl.
        apply Permutation_trans with ((lo', hi', v') :: (elems a ++ elems b) ++ elems r).
        -- rewrite <- app_assoc. symmetry. apply Permutation_middle.
        -- constructor. apply Permutation_app_tail, Pm.
    + apply icmp_nlt in Ec.
      destruct (IHr Wr) as [a [b [mx [n [E [W' Pm]]]]]]. rewrite E. simpl.
      simpl in W'. destruct W' as [Wa [Wb [Fa [Fb _]]]].
      do 4 eexists. split; [reflexivity|].
      assert (Forall (fun e => kle lo' hi' (e_lo e) (e_hi e)) (elems a)) as Fa'.
      { eapply Permutation_Forall in Fr; [|symmetry; exact Pm]. apply Forall_app in Fr. tauto. }
      split.
      * apply wf_fix_node; auto.
        -- apply wf_fix_node; auto.
        -- rewrite elems_fix_node. constructor; [exact Ec|]. apply Forall_app. split; [|exact Fa].
           eapply Forall_impl; [|exact Fl]. intros e He. eapply kle_trans; [exact He|exact Ec].
      * rewrite elems_fix_node. simpl.
        constructor. rewrite <- app_assoc. apply Permutation_app_head, Pm.
Qed.

(* ---------- randomized insertion, for every choice list ---------- *)
Lemma rand_insert_spec t lo hi v : forall cs, wf t ->
  exists t' cs', rand_insert cs t lo hi v = Ok (t', cs') /\ wf t' /\
    Permutation (elems t') ((lo, hi, v) :: elems t).
Proof.
  induction t as [|l IHl lo' hi' v' mx' n' r IHr]; intros cs W.
  - exists (new_node lo hi v), cs. simpl. repeat split; auto.
  - cbn [rand_insert]. destruct (next_choice cs) as [c cs1]. destruct c.
    + destruct (root_insert_spec _ lo hi v W) as [a [b [mx [n [E [W' Pm]]]]]].
      rewrite E. simpl. do 2 eexists. split; [reflexivity|]. split; [exact W'|].
      simpl. constructor. exact Pm.
    + simpl in W. destruct W as [Wl [Wr [Fl [Fr [Emx En]]]]].
      destruct (icmp lo hi lo' hi' <? 0) eqn:Ec.
      * apply icmp_lt in Ec. destruct (IHl cs1 Wl) as [l' [cs2 [E [W' Pm]]]]. rewrite E. simpl.
        do 2 eexists. split; [reflexivity|]. split.
        -- apply wf_fix_node; auto. eapply Permutation_Forall; [symmetry; exact Pm|].
           constructor; [apply klt_kle, Ec|exact Fl].
        -- rewrite elems_fix_node. simpl.
           apply Permutation_trans with ((lo', hi', v') :: ((lo, hi, v) :: elems l) ++ elems r).
           ++ constructor. apply Permutation_app_tail, Pm.
           ++ simpl. apply perm_swap.
      * apply icmp_nlt in Ec. destruct (IHr cs1 Wr) as [r' [cs2 [E [W' Pm]]]]. rewrite E. simpl.
        do 2 eexists. split; [reflexivity|]. split.
        -- apply wf_fix_node; auto. eapply Permutation_Forall; [symmetry; exact Pm|].
           constructor; [exact Ec|exact Fr].
        -- rewrite elems_fix_node. simpl.
           apply Permutation_trans with ((lo', hi', v') :: elems l ++ ((lo, hi, v) :: elems r)).
           ++ constructor. apply Permutation_app_head, Pm.
           ++ apply Permutation_trans with ((lo', hi', v') :: (lo, hi, v) :: elems l ++ elems r).
              ** constructor. symmetry. apply Permutation_middle.
              ** apply perm_swap.
Qed.

(* the size field counts the entries *)
Lemma tsize_elems t : wf t -> tsize t = Z.of_nat (length (elems t)).
Proof.
  induction t as [|l IHl lo hi v mx n r IHr]; [reflexivity|].
  cbn [wf elems tsize length]. intros [Wl [Wr [_ [_ [_ En]]]]].
  rewrite En, (IHl Wl), (IHr Wr), app_length. lia.
Qed.

Lemma wf_check_count t : wf t -> t_check_count t = true.
Proof.
  induction t as [|l IHl lo hi v mx n r IHr]; [reflexivity|].
  cbn [wf t_check_count]. intros [Wl [Wr [_ [_ [_ En]]]]]. rewrite (IHl Wl), (IHr Wr). cbn [andb]. apply Z.eqb_eq, En.
Qed.

(* ---------- pruning facts ---------- *)
Lemma kle_lo a b c d : kle a b c d -> a <= c.
Proof. unfold kle. lia. Qed.

Lemma filter_nil_forall {A} (f : A -> bool) l : filter f l = [] <-> forall x, In x l -> f x = false.
Proof.
  induction l as [|x l IH]; simpl; [split; [intros _ ? []|reflexivity]|].
  destruct (f x) eqn:E.
  - split; [discriminate|]. intros H. specialize (H x (or_introl eq_refl)). congruence.
  - rewrite IH. split.
    + intros H y [<-|Hy]; auto.
    + intros H y Hy. apply H. right; exact Hy.
Qed.

(* nothing in a subtree whose cached maximum is below p contains p *)
Lemma prune_below t p : wf t -> (is_leaf t || (pcmp (tmax t) (P p) <? 0)) = true ->
  filter (e_contains p) (elems t) = [].
Proof.
  intros W H. destruct t as [|l lo hi v mx n r]; [reflexivity|].
  simpl in H. apply pcmp_lt_P in H.
  destruct (tmax_spec _ W) as [A _]. simpl tmax in A.
  assert (forall e, In e (elems (Node l lo hi v mx n r)) -> e_contains p e = false) as Hn.
  { intros e He. rewrite Forall_forall in A. specialize (A e He).
    unfold e_contains. destruct (Z.leb_spec p (e_hi e)); [|apply andb_false_r].
    exfalso. apply H. eapply ple_trans; [|exact A]. apply ple_P. lia. }
  apply filter_nil_forall, Hn.
Qed.

Lemma prune_below_q t qlo qhi : wf t -> (is_leaf t || (pcmp (tmax t) (P qlo) <? 0)) = true ->
  filter (e_intersects qlo qhi) (elems t) = [].
Proof.
  intros W H. destruct t as [|l lo hi v mx n r]; [reflexivity|].
  simpl in H. apply pcmp_lt_P in H.
  destruct (tmax_spec _ W) as [A _]. simpl tmax in A.
  assert (forall e, In e (elems (Node l lo hi v mx n r)) -> e_intersects qlo qhi e = false) as Hn.
  { intros e He. rewrite Forall_forall in A. specialize (A e He).
    unfold e_intersects. destruct (Z.leb_spec qlo (e_hi e)); [|apply andb_false_r].
    exfalso. apply H. eapply ple_trans; [|exact A]. apply ple_P. lia. }
  apply filter_nil_forall, Hn.
Qed.

(* if the left subtree reaches up to p but holds no entry containing p, then neither does the
   right subtree (its minima are at least as large) *)
Lemma prune_right l lo hi v mx n r p :
  wf (Node l lo hi v mx n r) ->
  (is_leaf l || (pcmp (tmax l) (P p) <? 0)) = false ->
  filter (e_contains p) (elems l) = [] ->
  filter (e_contains p) (elems r) = [].
Proof.
  intros W H Hl. simpl in W. destruct W as [Wl [Wr [Fl [Fr _]]]].
  apply orb_false_iff in H. destruct H as [Hleaf Hmax].
  destruct (tmax_spec l Wl) as [_ Ex]. destruct l as [|ll llo lhi lv lmx ln lr]; [discriminate|].
  destruct Ex as [e [He Ee]].
  assert (~ ~ ple (P p) (tmax (Node ll llo lhi lv lmx ln lr))) as Hp.
  { intros Hc. apply pcmp_lt_P in Hc. congruence. }
  rewrite Ee in Hp. assert (p <= e_hi e) as Hpe.
  { destruct (Z.le_gt_cases p (e_hi e)); [assumption|]. exfalso. apply Hp. rewrite ple_P. lia. }
  rewrite filter_nil_forall in Hl. specialize (Hl e He).
  assert (p < e_lo e) as Hlo.
  { unfold e_contains in Hl. destruct (Z.leb_spec (e_lo e) p); destruct (Z.leb_spec p (e_hi e)); simpl in Hl; try discriminate; lia. }
  rewrite Forall_forall in Fl, Fr. specialize (Fl e He). apply kle_lo in Fl.
  apply filter_nil_forall. intros e' He'. specialize (Fr e' He'). apply kle_lo in Fr.
  unfold e_contains. destruct (Z.leb_spec (e_lo e') p); [lia|reflexivity].
Qed.

Lemma prune_right_q l lo hi v mx n r qlo qhi :
  wf (Node l lo hi v mx n r) ->
  (is_leaf l || (pcmp (tmax l) (P qlo) <? 0)) = false ->
  filter (e_intersects qlo qhi) (elems l) = [] ->
  filter (e_intersects qlo qhi) (elems r) = [].
Proof.
  intros W H Hl. simpl in W. destruct W as [Wl [Wr [Fl [Fr _]]]].
  apply orb_false_iff in H. destruct H as [Hleaf Hmax].
  destruct (tmax_spec l Wl) as [_ Ex]. destruct l as [|ll llo lhi lv lmx ln lr]; [discriminate|].
  destruct Ex as [e [He Ee]].
  assert (~ ~ ple (P qlo) (tmax (Node ll llo lhi lv lmx ln lr))) as Hp.
  { intros Hc. apply pcmp_lt_P in Hc. congruence. }
  rewrite Ee in Hp. assert (qlo <= e_hi e) as Hpe.
  { destruct (Z.le_gt_cases qlo (e_hi e)); [assumption|]. exfalso. apply Hp. rewrite ple_P. lia. }
  rewrite filter_nil_forall in Hl. specialize (Hl e He).
  assert (qhi < e_lo e) as Hlo.
  { unfold e_intersects in Hl. destruct (Z.leb_spec (e_lo e) qhi); destruct (Z.leb_spec qlo (e_hi e)); simpl in Hl; try discriminate; lia. }
  rewrite Forall_forall in Fl, Fr. specialize (Fl e He). apply kle_lo in Fl.
  apply filter_nil_forall. intros e' He'. specialize (Fr e' He'). apply kle_lo in Fr.
  unfold e_intersects. destruct (Z.leb_spec (e_lo e') qhi); [lia|reflexivity].
Qed.

(* ---------- SearchAll ---------- *)
Definition nonempty {A} (l : list A) : bool := match l with [] => false | _ => true end.

Lemma nonempty_app {A} (a b : list A) : nonempty (a ++ b) = nonempty a || nonempty b.
Proof. destruct a; reflexivity. Qed.

Lemma search_all_spec t p : wf t -> forall acc,
  t_search_all t p acc =
  (nonempty (filter (e_contains p) (elems t)), acc ++ filter (e_contains p) (elems t)).
Proof.
  induction t as [|l IHl lo hi v mx n r IHr]; intros W acc.
  - simpl. rewrite app_nil_r. reflexivity.
  - pose proof W as W0. simpl in W. destruct W as [Wl [Wr _]].
    cbn [t_search_all elems filter]. rewrite (icontains_spec lo hi v p).
    rewrite filter_app.
    set (acc1 := if e_contains p (lo, hi, v) then acc ++ [(lo, hi, v)] else acc).
    set (ml := filter (e_contains p) (elems l)). set (mr := filter (e_contains p) (elems r)).
    assert (forall rest, (if e_contains p (lo, hi, v) then (lo, hi, v) :: rest else rest) = 
                    (if e_contains p (lo, hi, v) then [(lo, hi, v)] else []) ++ rest) as Hhd
      by (intros; destruct (e_contains p (lo, hi, v)); reflexivity).
    assert (acc1 = acc ++ (if e_contains p (lo, hi, v) then [(lo, hi, v)] else [])) as Eacc1
      by (unfold acc1; destruct (e_contains p (lo, hi, v)); [reflexivity|rewrite app_nil_r; reflexivity]).
    rewrite pcmp_ge_P. rewrite <- negb_orb.
    destruct (is_leaf l || (pcmp (tmax l) (P p) <? 0)) eqn:Epr; cbn [negb].
    + (* left subtree pruned: it holds nothing *)
      assert (ml = []) as Eml by (apply prune_below; assumption).
      assert ((false || is_leaf l || (pcmp (tmax l) (P p) <? 0)) = true) as -> by (simpl; exact Epr).
      rewrite (IHr Wr). fold mr. rewrite Eml. simpl.
      rewrite Hhd, Eacc1, <- app_assoc. f_equal.
      destruct (e_contains p (lo, hi, v)); reflexivity.
    + rewrite (IHl Wl). fold ml.
      assert ((nonempty ml || is_leaf l || (pcmp (tmax l) (P p) <? 0)) = nonempty ml) as ->.
      { rewrite <- orb_assoc, Epr. apply orb_false_r. }
      destruct (nonempty ml) eqn:Enl.
      * rewrite (IHr Wr). fold mr.
        rewrite Hhd, Eacc1, <- !app_assoc. f_equal.
        destruct (e_contains p (lo, hi, v)); simpl; rewrite ?nonempty_app, ?Enl; reflexivity.
      * assert (ml = []) as Eml by (destruct ml; [reflexivity|discriminate]).
        assert (mr = []) as Emr by (eapply prune_right; eauto).
        rewrite Eml, Emr. simpl. rewrite Hhd, Eacc1, <- !app_assoc, !app_nil_r. f_equal.
        destruct (e_contains p (lo, hi, v)); reflexivity.
Qed.

Lemma filter_perm {A} (f : A -> bool) l l' : Permutation l l' -> Permutation (filter f l) (filter f l').
Proof.
  induction 1; simpl.
  - constructor.
  - destruct (f x); [constructor|]; assumption.
  - destruct (f x), (f y); [apply perm_swap|reflexivity|reflexivity|reflexivity].
  - eapply Permutation_trans; eassumption.
Qed.

(* ---------- Search / SearchInterval ---------- *)
Lemma search_spec t p : wf t ->
  match t_search t p with
  | Some e => In e (elems t) /\ e_contains p e = true
  | None => filter (e_contains p) (elems t) = []
  end.
Proof.
  induction t as [|l IHl lo hi v mx n r IHr]; intros W; [reflexivity|].
  pose proof W as W0. simpl in W. destruct W as [Wl [Wr _]].
  cbn [t_search elems]. rewrite (icontains_spec lo hi v p).
  destruct (e_contains p (lo, hi, v)) eqn:Ec; [split; [left; reflexivity|exact Ec]|].
  destruct (is_leaf l || (pcmp (tmax l) (P p) <? 0)) eqn:Epr.
  - specialize (IHr Wr). destruct (t_search r p) as [e|].
    + destruct IHr as [He Hc]. split; [right; apply in_app_iff; right; exact He|exact Hc].
    + simpl. rewrite Ec, filter_app, IHr, (prune_below l p Wl Epr). reflexivity.
  - specialize (IHl Wl). destruct (t_search l p) as [e|].
    + destruct IHl as [He Hc]. split; [right; apply in_app_iff; left; exact He|exact Hc].
    + simpl. rewrite Ec, filter_app, IHl, (prune_right l lo hi v mx n r p W0 Epr IHl). reflexivity.
Qed.

Lemma search_interval_spec t qlo qhi : wf t ->
  match t_search_interval t qlo qhi with
  | Some e => In e (elems t) /\ e_intersects qlo qhi e = true
  | None => filter (e_intersects qlo qhi) (elems t) = []
  end.
Proof.
  induction t as [|l IHl lo hi v mx n r IHr]; intros W; [reflexivity|].
  pose proof W as W0. simpl in W. destruct W as [Wl [Wr _]].
  cbn [t_search_interval elems]. rewrite (iintersects_spec lo hi v qlo qhi).
  destruct (e_intersects qlo qhi (lo, hi, v)) eqn:Ec; [split; [left; reflexivity|exact Ec]|].
  destruct (is_leaf l || (pcmp (tmax l) (P qlo) <? 0)) eqn:Epr.
  - specialize (IHr Wr). destruct (t_search_interval r qlo qhi) as [e|].
    + destruct IHr as [He Hc]. split; [right; apply in_app_iff; right; exact He|exact Hc].
    + simpl. rewrite Ec, filter_app, IHr, (prune_below_q l qlo qhi Wl Epr). reflexivity.
  - specialize (IHl Wl). destruct (t_search_interval l qlo qhi) as [e|].
    + destruct IHl as [He Hc]. split; [right; apply in_app_iff; left; exact He|exact Hc].
    + simpl. rewrite Ec, filter_app, IHl, (prune_right_q l lo hi v mx n r qlo qhi W0 Epr IHl). reflexivity.
Qed.

(* ---------- Get ---------- *)
Lemma get_spec t lo hi : wf t ->
  match t_get t lo hi with
  | Some v => In (lo, hi, v) (elems t)
  | None => filter (same_interval lo hi) (elems t) = []
  end.
Proof.
  induction t as [|l IHl lo' hi' v' mx n r IHr]; intros W; [reflexivity|].
  simpl in W. destruct W as [Wl [Wr [Fl [Fr _]]]].
  cbn [t_get elems].
  assert (forall es, Forall (fun e => ~ (e_lo e = lo /\ e_hi e = hi)) es -> filter (same_interval lo hi) es = []) as Hno.
  { intros es H. apply filter_nil_forall. intros e He. rewrite Forall_forall in H. specialize (H e He).
    unfold same_interval. destruct (Z.eqb_spec (e_lo e) lo); destruct (Z.eqb_spec (e_hi e) hi); try reflexivity. tauto. }
  destruct (icmp lo hi lo' hi' <? 0) eqn:E1.
  - apply icmp_lt in E1. specialize (IHl Wl). destruct (t_get l lo hi) as [v|].
    + right. apply in_app_iff. left. exact IHl.
    + simpl. unfold same_interval at 1. unfold e_lo, e_hi. simpl.
      assert ((lo' =? lo) && (hi' =? hi) = false) as ->.
      { unfold klt in E1. destruct (Z.eqb_spec lo' lo); destruct (Z.eqb_spec hi' hi); try reflexivity. lia. }
      rewrite filter_app, IHl. simpl. apply Hno.
      eapply Forall_impl; [|exact Fr]. intros e He. unfold klt in E1. unfold kle in He. lia.
  - destruct (icmp lo hi lo' hi' >? 0) eqn:E2.
    + apply icmp_gt in E2. specialize (IHr Wr). destruct (t_get r lo hi) as [v|].
      * right. apply in_app_iff. right. exact IHr.
      * simpl. unfold same_interval at 1. unfold e_lo, e_hi. simpl.
        assert ((lo' =? lo) && (hi' =? hi) = false) as ->.
        { unfold klt in E2. destruct (Z.eqb_spec lo' lo); destruct (Z.eqb_spec hi' hi); try reflexivity. lia. }
        rewrite filter_app, IHr, app_nil_r. apply Hno.
        eapply Forall_impl; [|exact Fl]. intros e He. unfold klt in E2. unfold kle in He. lia.
    + assert (lo = lo' /\ hi = hi') as [-> ->].
      { apply icmp_nlt in E1. rewrite <- not_true_iff_false, icmp_gt in E2. unfold kle, klt in *. lia. }
      left. reflexivity.
Qed.

(* ---------- Values ---------- *)
Lemma values_spec t : Permutation (t_values t) (map e_val (elems t)).
Proof.
  induction t as [|l IHl lo hi v mx n r IHr]; simpl; [constructor|].
  rewrite map_app. apply Permutation_trans with (v :: t_values l ++ t_values r).
  - symmetry. apply Permutation_cons_append.
  - constructor. apply Permutation_app; assumption.
Qed.

(* ---------- all histories, all choice lists ---------- *)
Lemma filter_nil_perm {A} (f : A -> bool) l l' : Permutation l l' -> filter f l = [] -> filter f l' = [].
Proof.
  intros Hp H. apply (filter_perm f) in Hp. rewrite H in Hp. apply Permutation_nil in Hp. exact Hp.
Qed.

Lemma existsb_filter {A} (f : A -> bool) l : existsb f l = nonempty (filter f l).
Proof. induction l as [|x l IH]; simpl; [reflexivity|]. destruct (f x); simpl; auto. Qed.

Lemma it_step_sound cs t es o : wf t -> Permutation (elems t) es ->
  let '((t', cs'), x) := it_step cs t o in
  wf t' /\ Permutation (elems t') (sp_entries es o) /\ allowed es o x.
Proof.
  intros W Pm. destruct o as [lo hi v|lo hi|lo hi|p|qlo qhi|p|]; cbn [it_step sp_entries allowed].
  - destruct (rand_insert_spec t lo hi v cs W) as [t' [cs' [E [W' Pm']]]]. rewrite E.
    split; [exact W'|split; [|exact I]].
    eapply Permutation_trans; [exact Pm'|]. 
    apply Permutation_trans with ((lo, hi, v) :: es); [constructor; exact Pm|apply Permutation_cons_append].
  - split; [exact W|split; [exact Pm|]]. pose proof (get_spec t lo hi W) as H.
    destruct (t_get t lo hi) as [v|].
    + eapply Permutation_in; eassumption.
    + eapply filter_nil_perm; eassumption.
  - split; [exact W|split; [exact Pm|]]. pose proof (get_spec t lo hi W) as H.
    rewrite existsb_filter. destruct (t_get t lo hi) as [v|].
    + assert (In (lo, hi, v) es) as Hin by (eapply Permutation_in; eassumption).
      assert (In (lo, hi, v) (filter (same_interval lo hi) es)) as Hf.
      { apply filter_In. split; [exact Hin|]. unfold same_interval, e_lo, e_hi. simpl. rewrite !Z.eqb_refl. reflexivity. }
      destruct (filter (same_interval lo hi) es); [destruct Hf|reflexivity].
    + rewrite (filter_nil_perm _ _ _ Pm H). reflexivity.
  - split; [exact W|split; [exact Pm|]]. pose proof (search_spec t p W) as H.
    destruct (t_search t p) as [e|].
    + destruct H as [He Hc]. split; [eapply Permutation_in; eassumption|exact Hc].
    + eapply filter_nil_perm; eassumption.
  - split; [exact W|split; [exact Pm|]]. pose proof (search_interval_spec t qlo qhi W) as H.
    destruct (t_search_interval t qlo qhi) as [e|].
    + destruct H as [He Hc]. split; [eapply Permutation_in; eassumption|exact Hc].
    + eapply filter_nil_perm; eassumption.
  - split; [exact W|split; [exact Pm|]]. rewrite (search_all_spec t p W). simpl.
    apply filter_perm, Pm.
  - split; [exact W|split; [exact Pm|]].
    eapply Permutation_trans; [apply values_spec|]. apply Permutation_map, Pm.
Qed.

Theorem it_run_conforms ops : forall cs t es, wf t -> Permutation (elems t) es ->
  conforms es ops (it_run cs t ops).
Proof.
  induction ops as [|o ops IH]; intros cs t es W Pm; simpl; [exact I|].
  pose proof (it_step_sound cs t es o W Pm) as H.
  destruct (it_step cs t o) as [[t' cs'] x]. destruct H as [W' [Pm' Ha]].
  split; [exact Ha|]. apply IH; assumption.
Qed.

Corollary it_conforms cs ops : conforms [] ops (it_run cs Leaf ops).
Proof. apply it_run_conforms; [exact I|constructor]. Qed.

(* the invariant after every history: BST order, cached maxima, sizes *)
Definition it_after (cs : list bool) (ops : list it_op) : tree * list bool :=
  fold_left (fun st o => fst (it_step (snd st) (fst st) o)) ops (Leaf, cs).

Theorem it_after_wf ops : forall cs, wf (fst (it_after cs ops)).
Proof.
  unfold it_after. assert (forall st, wf (fst st) -> wf (fst (fold_left (fun st o => fst (it_step (snd st) (fst st) o)) ops st))) as H.
  { induction ops as [|o ops IH]; intros [t cs] W; simpl; [exact W|].
    apply IH. pose proof (it_step_sound cs t (elems t) o W (Permutation_refl _)) as H.
    destruct (it_step cs t o) as [[t' cs'] x]. simpl. tauto. }
  intros cs. apply H. exact I.
Qed.

(* conforming outputs never contain a nil dereference *)
Lemma conforms_no_crash ops : forall es xs, conforms es ops xs -> ~ In ICrash xs.
Proof.
  induction ops as [|o ops IH]; intros es [|x xs] H; simpl in *; try tauto.
  destruct H as [Ha Hc]. intros [->|Hin].
  - destruct o; exact Ha.
  - exact (IH _ _ Hc Hin).
Qed.

Corollary it_no_crash cs ops : ~ In ICrash (it_run cs Leaf ops).
Proof. exact (conforms_no_crash ops [] _ (it_conforms cs ops)). Qed.

Corollary search_all_exact t p : wf t -> snd (t_search_all t p []) = filter (e_contains p) (elems t).
Proof. intros W. rewrite (search_all_spec t p W []). reflexivity. Qed.
