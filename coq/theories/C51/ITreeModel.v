(* C51 — code-shaped model of common/intervalst (interval.go, node.go, intervalst.go) with
   positions, and values, in Z, and its specification: the list of entries that were Put.

   The tree is a randomized BST keyed by (Min, Max) with the maximum endpoint of each subtree
   cached in every node.  `rand.Float32()*float32(size) < 1.0` is modelled by a Boolean taken
   from an arbitrary choice list (an exhausted list answers false): the theorems hold for every
   choice list, so for every behaviour of math/rand. *)
From CV Require Export Base.Prelude.
From Coq Require Export Permutation.

(* Position values that can occur in the `max` field: a user position or MinPosition *)
Inductive pos := PMin | P (z : Z).

(* a.Compare(b); user positions answer 1 against MinPosition, MinPosition answers -1 / 0 *)
Definition pcmp (a b : pos) : Z :=
  match a, b with
  | PMin, PMin => 0
  | PMin, P _ => -1
  | P _, PMin => 1
  | P x, P y => if x <? y then -1 else if y <? x then 1 else 0
  end.

Definition entry := (Z * Z * Z)%type.              (* (Min, Max, value) *)
Definition e_lo (e : entry) : Z := fst (fst e).
Definition e_hi (e : entry) : Z := snd (fst e).
Definition e_val (e : entry) : Z := snd e.

(* Interval.Compare *)
Definition icmp (lo hi lo' hi' : Z) : Z :=
  let mins := pcmp (P lo) (P lo') in
  let maxs := pcmp (P hi) (P hi') in
  if mins <? 0 then -1 else if mins >? 0 then 1
  else if maxs <? 0 then -1 else if maxs >? 0 then 1 else 0.

(* Interval.Contains *)
Definition icontains (lo hi p : Z) : bool :=
  (pcmp (P lo) (P p) <=? 0) && (pcmp (P p) (P hi) <=? 0).

(* Interval.Intersects *)
Definition iintersects (lo hi qlo qhi : Z) : bool :=
  negb ((pcmp (P qhi) (P lo) =? -1) || (pcmp (P hi) (P qlo) =? -1)).

Inductive tree :=
| Leaf
| Node (l : tree) (lo hi v : Z) (mx : pos) (n : Z) (r : tree).

Definition tsize (t : tree) : Z := match t with Leaf => 0 | Node _ _ _ _ _ n _ => n end.
Definition tmax (t : tree) : pos := match t with Leaf => PMin | Node _ _ _ _ mx _ _ => mx end.
Definition is_leaf (t : tree) : bool := match t with Leaf => true | _ => false end.

Definition max3 (a b c : pos) : pos :=
  if (pcmp b a >=? 0) && (pcmp b c >=? 0) then b
  else if (pcmp c a >=? 0) && (pcmp c b >=? 0) then c
  else a.

(* node.fix() applied to a node with the given children *)
Definition fix_node (l : tree) (lo hi v : Z) (r : tree) : tree :=
  Node l lo hi v (max3 (P hi) (tmax l) (tmax r)) (1 + tsize l + tsize r) r.

Definition new_node (lo hi v : Z) : tree := Node Leaf lo hi v (P hi) 1 Leaf.

(* rotR / rotL: a nil child is a nil-pointer dereference *)
Definition rot_r (t : tree) : res tree :=
  match t with
  | Node (Node a xlo xhi xv _ _ b) lo hi v _ _ c =>
      Ok (fix_node a xlo xhi xv (fix_node b lo hi v c))
  | _ => Err Crash
  end.
Definition rot_l (t : tree) : res tree :=
  match t with
  | Node a lo hi v _ _ (Node b xlo xhi xv _ _ c) =>
      Ok (fix_node (fix_node a lo hi v b) xlo xhi xv c)
  | _ => Err Crash
  end.

Fixpoint root_insert (t : tree) (lo hi v : Z) : res tree :=
  match t with
  | Leaf => Ok (new_node lo hi v)
  | Node l lo' hi' v' mx n r =>
      if icmp lo hi lo' hi' <? 0 then
        let* l' := root_insert l lo hi v in rot_r (Node l' lo' hi' v' mx n r)
      else
        let* r' := root_insert r lo hi v in rot_l (Node l lo' hi' v' mx n r')
  end.

Definition next_choice (cs : list bool) : bool * list bool :=
  match cs with [] => (false, []) | c :: r => (c, r) end.

Fixpoint rand_insert (cs : list bool) (t : tree) (lo hi v : Z) : res (tree * list bool) :=
  match t with
  | Leaf => Ok (new_node lo hi v, cs)
  | Node l lo' hi' v' mx n r =>
      let '(c, cs1) := next_choice cs in
      if c then
        let* t' := root_insert t lo hi v in Ok (t', cs1)
      else if icmp lo hi lo' hi' <? 0 then
        let* (l', cs2) := rand_insert cs1 l lo hi v in Ok (fix_node l' lo' hi' v' r, cs2)
      else
        let* (r', cs2) := rand_insert cs1 r lo hi v in Ok (fix_node l lo' hi' v' r', cs2)
  end.

Fixpoint t_get (t : tree) (lo hi : Z) : option Z :=
  match t with
  | Leaf => None
  | Node l lo' hi' v' _ _ r =>
      let c := icmp lo hi lo' hi' in
      if c <? 0 then t_get l lo hi else if c >? 0 then t_get r lo hi else Some v'
  end.

Fixpoint t_search (t : tree) (p : Z) : option entry :=
  match t with
  | Leaf => None
  | Node l lo hi v _ _ r =>
      if icontains lo hi p then Some (lo, hi, v)
      else if is_leaf l || (pcmp (tmax l) (P p) <? 0) then t_search r p
      else t_search l p
  end.

Fixpoint t_search_interval (t : tree) (qlo qhi : Z) : option entry :=
  match t with
  | Leaf => None
  | Node l lo hi v _ _ r =>
      if iintersects lo hi qlo qhi then Some (lo, hi, v)
      else if is_leaf l || (pcmp (tmax l) (P qlo) <? 0) then t_search_interval r qlo qhi
      else t_search_interval l qlo qhi
  end.

(* searchAll(n, p, entries) (found, entries) *)
Fixpoint t_search_all (t : tree) (p : Z) (entries : list entry) : bool * list entry :=
  match t with
  | Leaf => (false, entries)
  | Node l lo hi v _ _ r =>
      let found1 := icontains lo hi p in
      let entries1 := if found1 then entries ++ [(lo, hi, v)] else entries in
      let '(found2, entries2) :=
        if negb (is_leaf l) && (pcmp (tmax l) (P p) >=? 0) then t_search_all l p entries1
        else (false, entries1) in
      let '(found3, entries3) :=
        if found2 || is_leaf l || (pcmp (tmax l) (P p) <? 0) then t_search_all r p entries2
        else (false, entries2) in
      (found1 || found2 || found3, entries3)
  end.

Fixpoint t_values (t : tree) : list Z :=
  match t with
  | Leaf => []
  | Node l _ _ v _ _ r => (t_values l ++ t_values r) ++ [v]
  end.

(* checkCount && checkMax of intervalst.go (test helper): the invariant the code itself states *)
Fixpoint t_check_count (t : tree) : bool :=
  match t with
  | Leaf => true
  | Node l _ _ _ _ n r => t_check_count l && t_check_count r && (n =? 1 + tsize l + tsize r)
  end.

Inductive it_op :=
| IPut (lo hi v : Z) | IGet (lo hi : Z) | IContains (lo hi : Z)
| ISearch (p : Z) | ISearchInterval (lo hi : Z) | ISearchAll (p : Z) | IValues.

Inductive iobs :=
| IUnit | ICrash
| IOptV (o : option Z) | IBool (b : bool)
| IEntry (o : option entry) | IEntries (l : list entry) | IVals (l : list Z).

Definition it_step (cs : list bool) (t : tree) (o : it_op) : (tree * list bool) * iobs :=
  match o with
  | IPut lo hi v => match rand_insert cs t lo hi v with
                    | Ok (t', cs') => ((t', cs'), IUnit)
                    | Err _ => ((t, cs), ICrash)
                    end
  | IGet lo hi => ((t, cs), IOptV (t_get t lo hi))
  | IContains lo hi => ((t, cs), IBool (match t_get t lo hi with Some _ => true | None => false end))
  | ISearch p => ((t, cs), IEntry (t_search t p))
  | ISearchInterval lo hi => ((t, cs), IEntry (t_search_interval t lo hi))
  | ISearchAll p => ((t, cs), IEntries (snd (t_search_all t p [])))
  | IValues => ((t, cs), IVals (t_values t))
  end.

Fixpoint it_run (cs : list bool) (t : tree) (ops : list it_op) : list iobs :=
  match ops with
  | [] => []
  | o :: r => let '((t', cs'), x) := it_step cs t o in x :: it_run cs' t' r
  end.

(* ---------- specification: the list of entries put so far ---------- *)
Definition same_interval (lo hi : Z) (e : entry) : bool := (e_lo e =? lo) && (e_hi e =? hi).
Definition e_contains (p : Z) (e : entry) : bool := (e_lo e <=? p) && (p <=? e_hi e).
Definition e_intersects (qlo qhi : Z) (e : entry) : bool := (e_lo e <=? qhi) && (qlo <=? e_hi e).

Definition sp_entries (es : list entry) (o : it_op) : list entry :=
  match o with IPut lo hi v => es ++ [(lo, hi, v)] | _ => es end.

(* which answers the specification allows; where several entries qualify the tree may return
   any of them (which one depends on the random shape) *)
Definition allowed (es : list entry) (o : it_op) (x : iobs) : Prop :=
  match o, x with
  | IPut _ _ _, IUnit => True
  | IGet lo hi, IOptV None => filter (same_interval lo hi) es = []
  | IGet lo hi, IOptV (Some v) => In (lo, hi, v) es
  | IContains lo hi, IBool b => b = existsb (same_interval lo hi) es
  | ISearch p, IEntry None => filter (e_contains p) es = []
  | ISearch p, IEntry (Some e) => In e es /\ e_contains p e = true
  | ISearchInterval qlo qhi, IEntry None => filter (e_intersects qlo qhi) es = []
  | ISearchInterval qlo qhi, IEntry (Some e) => In e es /\ e_intersects qlo qhi e = true
  | ISearchAll p, IEntries l => Permutation l (filter (e_contains p) es)
  | IValues, IVals l => Permutation l (map e_val es)
  | _, _ => False
  end.

Fixpoint conforms (es : list entry) (ops : list it_op) (xs : list iobs) : Prop :=
  match ops, xs with
  | [], [] => True
  | o :: ops', x :: xs' => allowed es o x /\ conforms (sp_entries es o) ops' xs'
  | _, _ => False
  end.
