(* C51 — the bimap model refines the pair-list specification for all histories, and its two
   maps stay mutually inverse. *)
From CV Require Import C51.OMapModel C51.OMapProofs C51.BiMapModel.
From Coq Require Import Permutation.

Lemma lookup_in m k v : alookup k m = Some v -> In (k, v) m.
Proof.
  induction m as [|[a b] m IH]; simpl; [discriminate|].
  destruct (k =? a) eqn:E; intros H.
  - inversion H; subst. left. f_equal. lia.
  - right. auto.
Qed.

Lemma in_lookup m k v : NoDup (map fst m) -> In (k, v) m -> alookup k m = Some v.
Proof.
  induction m as [|[a b] m IH]; simpl; intros ND H; [tauto|].
  inversion ND as [|? ? Hn ND']; subst.
  destruct H as [H|H].
  - inversion H; subst. rewrite Z.eqb_refl. reflexivity.
  - destruct (k =? a) eqn:E; [|auto].
    assert (k = a) by lia; subst. exfalso. apply Hn. apply in_map_iff. exists (a, v). auto.
Qed.

Lemma nodup_fst_fun (l : list (Z * Z)) a b b' :
  NoDup (map fst l) -> In (a, b) l -> In (a, b') l -> b = b'.
Proof.
  intros ND H1 H2. apply in_lookup in H1; [|exact ND]. apply in_lookup in H2; [|exact ND]. congruence.
Qed.

Lemma map_snd_swap (l : list (Z * Z)) : map fst (map swap l) = map snd l.
Proof. rewrite map_map. reflexivity. Qed.

Lemma in_swap (l : list (Z * Z)) a b : In (b, a) (map swap l) <-> In (a, b) l.
Proof.
  rewrite in_map_iff. split.
  - intros [[x y] [H1 H2]]. unfold swap in H1; simpl in H1. inversion H1; subst. exact H2.
  - intros H. exists (a, b). auto.
Qed.

Lemma nodup_snd_fun (l : list (Z * Z)) a a' b :
  NoDup (map snd l) -> In (a, b) l -> In (a', b) l -> a = a'.
Proof.
  intros ND H1 H2. rewrite <- map_snd_swap in ND.
  apply (nodup_fst_fun (map swap l) b a a' ND); apply in_swap; assumption.
Qed.

Lemma nodup_map_filter {A B} (f : A -> B) (p : A -> bool) l :
  NoDup (map f l) -> NoDup (map f (filter p l)).
Proof.
  induction l as [|x l IH]; simpl; intros H; [constructor|].
  inversion H as [|? ? Hn Hd]; subst.
  destruct (p x); simpl; [constructor|]; auto.
  intros Hin. apply Hn. apply in_map_iff in Hin. destruct Hin as [y [E Hy]].
  apply filter_In in Hy. apply in_map_iff. exists y. tauto.
Qed.

Lemma nodup_of_map {A B} (f : A -> B) l : NoDup (map f l) -> NoDup l.
Proof.
  induction l as [|x l IH]; simpl; intros H; [constructor|].
  inversion H; subst. constructor; [|auto]. intros Hin. apply H2. apply in_map, Hin.
Qed.

Lemma opt_ext (x y : option Z) : (forall v, x = Some v <-> y = Some v) -> x = y.
Proof.
  intros H. destruct x as [a|], y as [b|]; try reflexivity.
  - apply H. reflexivity.
  - symmetry. apply H. reflexivity.
  - destruct (proj2 (H b) eq_refl); reflexivity.
Qed.

Record brel (b : bimap) (l : list (Z * Z)) : Prop := {
  br_k : NoDup (map fst l);
  br_v : NoDup (map snd l);
  br_fk : NoDup (map fst (bm_fw b));
  br_bk : NoDup (map fst (bm_bw b));
  br_fw : forall k v, In (k, v) l <-> alookup k (bm_fw b) = Some v;
  br_bw : forall k v, In (k, v) l <-> alookup v (bm_bw b) = Some k }.

Lemma brel_new : brel bm_new [].
Proof. split; simpl; try (apply NoDup_nil); intros; split; try tauto; discriminate. Qed.

(* the two maps are mutually inverse *)
Lemma brel_inverse b l : brel b l -> forall k v,
  alookup k (bm_fw b) = Some v <-> alookup v (bm_bw b) = Some k.
Proof. intros R k v. rewrite <- (br_fw _ _ R), <- (br_bw _ _ R). tauto. Qed.

Lemma brel_get b l k : brel b l -> bm_get b k = bs_get l k.
Proof.
  intros R. unfold bm_get, bm_exists, bs_get, ahas.
  assert (alookup k (bm_fw b) = alookup k l) as E.
  { apply opt_ext. intros v. rewrite <- (br_fw _ _ R). split.
    - apply in_lookup, (br_k _ _ R).
    - apply lookup_in. }
  rewrite E. destruct (alookup k l); reflexivity.
Qed.

Lemma brel_get_inv b l v : brel b l -> bm_get_inv b v = bs_get_inv l v.
Proof.
  intros R. unfold bm_get_inv, bm_exists_inv, bs_get_inv, ahas.
  assert (alookup v (bm_bw b) = alookup v (map swap l)) as E.
  { apply opt_ext. intros k. rewrite <- (br_bw _ _ R). split.
    - intros H. apply in_lookup; [rewrite map_snd_swap; apply (br_v _ _ R)|apply in_swap, H].
    - intros H. apply in_swap, lookup_in; exact H. }
  rewrite E. destruct (alookup v (map swap l)); reflexivity.
Qed.

Lemma brel_size b l : brel b l -> bm_size b = Z.of_nat (length l).
Proof.
  intros R. unfold bm_size. f_equal. apply Permutation_length, NoDup_Permutation.
  - apply (nodup_of_map fst), (br_fk _ _ R).
  - apply (nodup_of_map fst), (br_k _ _ R).
  - intros [k v]. rewrite (br_fw _ _ R). split.
    + apply in_lookup, (br_fk _ _ R).
    + apply lookup_in.
Qed.

Lemma in_bs_insert l k v a b :
  In (a, b) (bs_insert l k v) <-> (a = k /\ b = v) \/ (In (a, b) l /\ a <> k /\ b <> v).
Proof.
  unfold bs_insert. simpl. rewrite filter_In. simpl.
  rewrite andb_true_iff, !negb_true_iff, !Z.eqb_neq.
  split.
  - intros [H|H]; [inversion H; auto|tauto].
  - intros [[-> ->]|H]; [auto|tauto].
Qed.

Lemma brel_insert b l k v : brel b l -> brel (bm_insert b k v) (bs_insert l k v).
Proof.
  intros R. unfold bm_insert.
  set (bw1 := match alookup k (bm_fw b) with Some e => aremove e (bm_bw b) | None => bm_bw b end).
  set (fw1 := match alookup v bw1 with Some e => aremove e (bm_fw b) | None => bm_fw b end).
  (* lookups in the intermediate maps *)
  assert (forall y, alookup y bw1 =
            match alookup k (bm_fw b) with
            | Some e => if y =? e then None else alookup y (bm_bw b)
            | None => alookup y (bm_bw b) end) as Hbw1.
  { intros y. unfold bw1. destruct (alookup k (bm_fw b)); [apply alookup_aremove|reflexivity]. }
  assert (forall x, alookup x fw1 =
            match alookup v bw1 with
            | Some e => if x =? e then None else alookup x (bm_fw b)
            | None => alookup x (bm_fw b) end) as Hfw1.
  { intros x. unfold fw1. destruct (alookup v bw1); [apply alookup_aremove|reflexivity]. }
  split; cbn [bm_fw bm_bw].
  - (* keys unique *)
    unfold bs_insert. simpl. constructor.
    + intros Hin. apply in_map_iff in Hin. destruct Hin as [[a c] [E Hin]]. simpl in E; subst.
      apply filter_In in Hin. destruct Hin as [_ Hin]. simpl in Hin. rewrite Z.eqb_refl in Hin. discriminate.
    + apply nodup_map_filter, (br_k _ _ R).
  - unfold bs_insert. simpl. constructor.
    + intros Hin. apply in_map_iff in Hin. destruct Hin as [[a c] [E Hin]]. simpl in E; subst.
      apply filter_In in Hin. destruct Hin as [_ Hin]. simpl in Hin. rewrite Z.eqb_refl, andb_false_r in Hin. discriminate.
    + apply nodup_map_filter, (br_v _ _ R).
  - apply aset_nodup. unfold fw1. destruct (alookup v bw1); [apply aremove_nodup|]; apply (br_fk _ _ R).
  - apply aset_nodup. unfold bw1. destruct (alookup k (bm_fw b)); [apply aremove_nodup|]; apply (br_bk _ _ R).
  - (* forward map *)
    intros a c. rewrite in_bs_insert, alookup_aset.
    destruct (a =? k) eqn:Eak.
    + assert (a = k) by lia; subst. split; [intros [[_ ->]|H]; [reflexivity|tauto]|].
      intros H; inversion H; auto.
    + assert (a <> k) as Nak by lia. rewrite Hfw1.
      destruct (alookup v bw1) as [k2|] eqn:Lv.
      * (* some other key k2 currently maps to v *)
        rewrite Hbw1 in Lv.
        assert (alookup v (bm_bw b) = Some k2) as Lv'.
        { destruct (alookup k (bm_fw b)); [destruct (v =? z); [discriminate|exact Lv]|exact Lv]. }
        apply (br_bw _ _ R) in Lv'.
        destruct (a =? k2) eqn:Eak2.
        -- assert (a = k2) by lia; subst. split; [|discriminate].
           intros [[? _]|[Hin [_ Ncv]]]; [contradiction|].
           exfalso. apply Ncv. apply (nodup_fst_fun l k2 c v (br_k _ _ R)); assumption.
        -- rewrite <- (br_fw _ _ R). split.
           ++ intros [[? _]|[Hin _]]; [contradiction|exact Hin].
           ++ intros Hin. right. split; [exact Hin|split; [exact Nak|]].
              intros ->. assert (a = k2) by (apply (nodup_snd_fun l a k2 v (br_v _ _ R)); assumption). lia.
      * rewrite <- (br_fw _ _ R). split.
        -- intros [[? _]|[Hin _]]; [contradiction|exact Hin].
        -- intros Hin. right. split; [exact Hin|split; [exact Nak|]].
           intros ->. rewrite Hbw1 in Lv.
           assert (alookup v (bm_bw b) = Some a) as Hva by (apply (br_bw _ _ R), Hin).
           destruct (alookup k (bm_fw b)) as [old|] eqn:Lk; [|congruence].
           destruct (v =? old) eqn:Evo; [|congruence].
           assert (v = old) by lia; subst.
           apply (br_fw _ _ R) in Lk.
           apply Nak. apply (nodup_snd_fun l a k old (br_v _ _ R)); assumption.
  - (* backward map *)
    intros a c. rewrite in_bs_insert, alookup_aset.
    destruct (c =? v) eqn:Ecv.
    + assert (c = v) by lia; subst. split; [intros [[-> _]|H]; [reflexivity|tauto]|].
      intros H; inversion H; auto.
    + assert (c <> v) as Ncv by lia. rewrite Hbw1.
      destruct (alookup k (bm_fw b)) as [old|] eqn:Lk.
      * apply (br_fw _ _ R) in Lk.
        destruct (c =? old) eqn:Eco.
        -- assert (c = old) by lia; subst. split; [|discriminate].
           intros [[_ ?]|[Hin [Nak _]]]; [contradiction|].
           exfalso. apply Nak. apply (nodup_snd_fun l a k old (br_v _ _ R)); assumption.
        -- rewrite <- (br_bw _ _ R). split.
           ++ intros [[_ ?]|[Hin _]]; [contradiction|exact Hin].
           ++ intros Hin. right. split; [exact Hin|split; [|exact Ncv]].
              intros ->. assert (c = old) by (apply (nodup_fst_fun l k c old (br_k _ _ R)); assumption). lia.
      * rewrite <- (br_bw _ _ R). split.
        -- intros [[_ ?]|[Hin _]]; [contradiction|exact Hin].
        -- intros Hin. right. split; [exact Hin|split; [|exact Ncv]].
           intros ->. apply (br_fw _ _ R) in Hin. congruence.
Qed.

Lemma brel_delete b l k : brel b l -> brel (bm_delete b k) (bs_delete l k).
Proof.
  intros R. unfold bm_delete. rewrite (brel_get b l k R). unfold bm_exists, ahas, bs_get.
  assert (alookup k (bm_fw b) = alookup k l) as E.
  { pose proof (brel_get b l k R) as H. unfold bm_get, bm_exists, ahas, bs_get in H.
    destruct (alookup k (bm_fw b)), (alookup k l); simpl in H; congruence. }
  rewrite E. destruct (alookup k l) as [val|] eqn:L; simpl.
  - assert (In (k, val) l) as Hkv by (apply lookup_in, L).
    split; cbn [bm_fw bm_bw]; unfold bs_delete.
    + apply nodup_map_filter, (br_k _ _ R).
    + apply nodup_map_filter, (br_v _ _ R).
    + apply aremove_nodup, (br_fk _ _ R).
    + apply aremove_nodup, (br_bk _ _ R).
    + intros a c. rewrite filter_In, alookup_aremove. simpl. rewrite negb_true_iff.
      destruct (a =? k); [split; [intros [_ ?]|]; discriminate|].
      rewrite (br_fw _ _ R). tauto.
    + intros a c. rewrite filter_In, alookup_aremove. simpl. rewrite negb_true_iff.
      destruct (c =? val) eqn:Ec.
      * assert (c = val) by lia; subst. split; [|discriminate].
        intros [Hin Ne]. assert (a = k) by (apply (nodup_snd_fun l a k val (br_v _ _ R)); assumption).
        lia.
      * rewrite <- (br_bw _ _ R). split; [tauto|]. intros Hin. split; [exact Hin|].
        apply Z.eqb_neq. intros ->.
        assert (c = val) by (apply (nodup_fst_fun l k c val (br_k _ _ R)); assumption). lia.
  - (* key absent: nothing changes *)
    assert (bs_delete l k = l) as ->; [|exact R].
    unfold bs_delete. rewrite (proj2 (filter_ext_in_iff _ (fun _ => true) l)).
    + clear. induction l; simpl; congruence.
    + intros [a c] Hin. simpl. destruct (a =? k) eqn:Ea; [|reflexivity].
      assert (a = k) by lia; subst. apply in_lookup in Hin; [congruence|apply (br_k _ _ R)].
Qed.

(* the structure is symmetric: exchange the roles of keys and values *)
Definition bm_swap (b : bimap) : bimap := mkBM (bm_bw b) (bm_fw b).

Lemma brel_swap b l : brel b l -> brel (bm_swap b) (map swap l).
Proof.
  intros R. split; cbn [bm_swap bm_fw bm_bw].
  - rewrite map_snd_swap. apply (br_v _ _ R).
  - rewrite map_map. simpl. apply (br_k _ _ R).
  - apply (br_bk _ _ R).
  - apply (br_fk _ _ R).
  - intros k v. rewrite in_swap. apply (br_bw _ _ R).
  - intros k v. rewrite in_swap. apply (br_fw _ _ R).
Qed.

Lemma map_swap_swap l : map swap (map swap l) = l.
Proof.
  rewrite map_map. rewrite <- (map_id l) at 2. apply map_ext. intros [a b]; reflexivity.
Qed.

Lemma bm_delete_inv_swap b v : bm_delete_inv b v = bm_swap (bm_delete (bm_swap b) v).
Proof.
  unfold bm_delete_inv, bm_delete, bm_get_inv, bm_get, bm_exists_inv, bm_exists, bm_swap. simpl.
  destruct (ahas v (bm_bw b)); simpl; [|destruct b; reflexivity].
  destruct (alookup v (bm_bw b)); simpl; [reflexivity|destruct b; reflexivity].
Qed.

Lemma bs_delete_inv_swap l v : bs_delete_inv l v = map swap (bs_delete (map swap l) v).
Proof.
  unfold bs_delete_inv, bs_delete. rewrite filter_map_comm, map_swap_swap. reflexivity.
Qed.

Lemma brel_delete_inv b l v : brel b l -> brel (bm_delete_inv b v) (bs_delete_inv l v).
Proof.
  intros R. rewrite bm_delete_inv_swap, bs_delete_inv_swap.
  apply brel_swap, brel_delete, brel_swap, R.
Qed.

Lemma bm_step_sim b l o : brel b l ->
  brel (fst (bm_step b o)) (fst (bs_step l o)) /\ snd (bm_step b o) = snd (bs_step l o).
Proof.
  intros R. destruct o; simpl.
  - split; [apply brel_insert, R|reflexivity].
  - split; [exact R|]. pose proof (brel_get b l k R) as H. unfold bm_get, bm_exists, ahas in *.
    rewrite <- H. destruct (alookup k (bm_fw b)); reflexivity.
  - split; [exact R|]. pose proof (brel_get_inv b l v R) as H. unfold bm_get_inv, bm_exists_inv, ahas in *.
    rewrite <- H. destruct (alookup v (bm_bw b)); reflexivity.
  - split; [exact R|]. rewrite (brel_get b l k R). reflexivity.
  - split; [exact R|]. rewrite (brel_get_inv b l v R). reflexivity.
  - split; [apply brel_delete, R|reflexivity].
  - split; [apply brel_delete_inv, R|reflexivity].
  - split; [exact R|]. rewrite (brel_size b l R). reflexivity.
Qed.

Theorem bm_run_refines ops : forall b l, brel b l -> bm_run b ops = bs_run l ops.
Proof.
  induction ops as [|o ops IH]; intros b l R; simpl; [reflexivity|].
  destruct (bm_step_sim b l o R) as [R' E].
  destruct (bm_step b o) as [b' x]. destruct (bs_step l o) as [l' y]. simpl in *.
  rewrite E. f_equal. apply IH, R'.
Qed.

(* state reached by a history *)
Definition bm_after (ops : list bm_op) : bimap := fold_left (fun b o => fst (bm_step b o)) ops bm_new.
Definition bs_after (ops : list bm_op) : list (Z * Z) := fold_left (fun l o => fst (bs_step l o)) ops [].

Lemma brel_after ops : brel (bm_after ops) (bs_after ops).
Proof.
  unfold bm_after, bs_after. generalize brel_new. generalize bm_new. generalize (@nil (Z * Z)).
  induction ops as [|o ops IH]; intros l b R; simpl; [exact R|].
  apply IH. apply bm_step_sim, R.
Qed.

(* forward and backward are mutually inverse after every history *)
Theorem bm_inverse_after ops k v :
  alookup k (bm_fw (bm_after ops)) = Some v <-> alookup v (bm_bw (bm_after ops)) = Some k.
Proof. apply (brel_inverse _ _ (brel_after ops)). Qed.

Theorem bm_get_roundtrip ops k v :
  bm_get (bm_after ops) k = Some v <-> bm_get_inv (bm_after ops) v = Some k.
Proof.
  unfold bm_get, bm_get_inv, bm_exists, bm_exists_inv, ahas.
  pose proof (bm_inverse_after ops k v) as H.
  destruct (alookup k (bm_fw (bm_after ops))) eqn:E1, (alookup v (bm_bw (bm_after ops))) eqn:E2; simpl; tauto.
Qed.

Corollary bm_refines ops : bm_run bm_new ops = bs_run [] ops.
Proof. exact (bm_run_refines ops bm_new [] brel_new). Qed.
