(* C51 — the ordered-map model refines the association-list specification, for all histories. *)
From CV Require Import C51.OMapModel.
From Coq Require Import Permutation.

(* ---------- Go map lemmas ---------- *)
Lemma alookup_aremove k k' m :
  alookup k (aremove k' m) = if k =? k' then None else alookup k m.
Proof.
  induction m as [|[a v] m IH]; simpl.
  - destruct (k =? k'); reflexivity.
  - destruct (k' =? a) eqn:E1; simpl.
    + rewrite IH. destruct (k =? k') eqn:E2; [reflexivity|].
      destruct (k =? a) eqn:E3; [lia|reflexivity].
    + rewrite IH. destruct (k =? a) eqn:E3; [|reflexivity].
      destruct (k =? k') eqn:E2; [lia|reflexivity].
Qed.

Lemma alookup_aset k k' v m :
  alookup k (aset k' v m) = if k =? k' then Some v else alookup k m.
Proof.
  unfold aset; simpl. destruct (k =? k') eqn:E; [reflexivity|].
  rewrite alookup_aremove, E. reflexivity.
Qed.

Lemma alookup_in k m : In k (map fst m) <-> alookup k m <> None.
Proof.
  induction m as [|[a v] m IH]; simpl.
  - split; [tauto|congruence].
  - destruct (k =? a) eqn:E.
    + split; [congruence|]. intros _. left. lia.
    + rewrite <- IH. split; [intros [H|H]; [lia|exact H]|tauto].
Qed.

Lemma ahas_in k m : ahas k m = true <-> In k (map fst m).
Proof.
  rewrite alookup_in. unfold ahas. destruct (alookup k m); split; congruence.
Qed.

Lemma aremove_keys k k' m : In k (map fst (aremove k' m)) <-> k <> k' /\ In k (map fst m).
Proof.
  rewrite !alookup_in, alookup_aremove. destruct (k =? k') eqn:E.
  - split; [congruence|]. intros [H _]. lia.
  - split; [intros H; split; [lia|exact H]|tauto].
Qed.

Lemma aremove_nodup k m : NoDup (map fst m) -> NoDup (map fst (aremove k m)).
Proof.
  induction m as [|[a v] m IH]; simpl; intros H; [constructor|].
  inversion H as [|? ? Hn Hd]; subst.
  destruct (k =? a); simpl; [auto|].
  constructor; [|auto]. rewrite aremove_keys. tauto.
Qed.

Lemma aset_nodup k v m : NoDup (map fst m) -> NoDup (map fst (aset k v m)).
Proof.
  intros H. unfold aset; simpl. constructor; [|apply aremove_nodup, H].
  rewrite aremove_keys. tauto.
Qed.

Lemma aset_keys k k' v m : In k (map fst (aset k' v m)) <-> k = k' \/ In k (map fst m).
Proof.
  rewrite !alookup_in, alookup_aset. destruct (k =? k') eqn:E.
  - split; [intros _; left; lia|congruence].
  - split; [tauto|intros [H|H]; [lia|exact H]].
Qed.

(* ---------- abstraction ---------- *)
Definition vof (m : amap) (k : Z) : Z := match alookup k m with Some v => v | None => 0 end.
Definition abs (s : omap) : spec := map (fun k => (k, vof (om_pairs s) k)) (om_list s).

Record wf (s : omap) : Prop := {
  wf_nd : NoDup (om_list s);
  wf_ndp : NoDup (map fst (om_pairs s));
  wf_keys : forall k, In k (om_list s) <-> In k (map fst (om_pairs s));
  wf_init : om_init s = false -> om_pairs s = [] /\ om_list s = [] }.

Lemma wf_zero : wf om_zero.
Proof. split; simpl; try constructor; try tauto. Qed.
Lemma wf_new : wf om_new.
Proof. split; simpl; try constructor; try tauto; try discriminate. Qed.

Lemma alookup_mapkeys (g : Z -> Z) k l :
  alookup k (map (fun k => (k, g k)) l) = if existsb (Z.eqb k) l then Some (g k) else None.
Proof.
  induction l as [|x l IH]; simpl; [reflexivity|].
  destruct (k =? x) eqn:E; simpl; [|exact IH].
  assert (k = x) by lia. subst. reflexivity.
Qed.

Lemma existsb_eqb_in k l : existsb (Z.eqb k) l = true <-> In k l.
Proof.
  rewrite existsb_exists. split.
  - intros [x [H1 H2]]. assert (k = x) by lia. subst; exact H1.
  - intros H. exists k. split; [exact H|lia].
Qed.

Lemma abs_lookup s k : wf s -> alookup k (abs s) = alookup k (om_pairs s).
Proof.
  intros W. unfold abs. rewrite alookup_mapkeys.
  destruct (existsb (Z.eqb k) (om_list s)) eqn:E.
  - apply existsb_eqb_in in E. apply (wf_keys _ W), alookup_in in E.
    unfold vof. destruct (alookup k (om_pairs s)); congruence.
  - destruct (alookup k (om_pairs s)) eqn:L; [|reflexivity].
    assert (In k (om_list s)) as H.
    { apply (wf_keys _ W), alookup_in. congruence. }
    apply existsb_eqb_in in H. congruence.
Qed.

Lemma abs_has s k : wf s -> ahas k (abs s) = ahas k (om_pairs s).
Proof. intros W. unfold ahas. rewrite abs_lookup by exact W. reflexivity. Qed.

Lemma wf_uninit s : wf s -> om_init s = false -> abs s = [] /\ om_pairs s = [] /\ om_list s = [].
Proof.
  intros W E. destruct (wf_init _ W E) as [H1 H2]. unfold abs. rewrite H2. simpl. auto.
Qed.

Lemma om_walk_abs s l :
  (forall k, In k l -> In k (map fst (om_pairs s))) ->
  om_walk s l = Some (map (fun k => (k, vof (om_pairs s) k)) l).
Proof.
  induction l as [|x l IH]; simpl; intros H; [reflexivity|].
  rewrite IH by (intros; apply H; auto).
  unfold om_pair, vof. assert (alookup x (om_pairs s) <> None) as Hx by (apply alookup_in, H; auto).
  destruct (alookup x (om_pairs s)); [reflexivity|congruence].
Qed.

Lemma om_foreach_abs s : wf s -> om_foreach s = Some (abs s).
Proof.
  intros W. unfold om_foreach. destruct (om_init s) eqn:E; simpl.
  - apply om_walk_abs. intros k. apply (wf_keys _ W).
  - destruct (wf_uninit _ W E) as [-> _]. reflexivity.
Qed.

Lemma om_pair_abs s k : wf s -> In k (om_list s) -> om_pair s k = Some (k, vof (om_pairs s) k).
Proof.
  intros W H. apply (wf_keys _ W), alookup_in in H. unfold om_pair, vof.
  destruct (alookup k (om_pairs s)); congruence.
Qed.

Lemma opt_pair_obs_abs s o : wf s -> (forall k, o = Some k -> In k (om_list s)) ->
  opt_pair_obs o s = VPair (option_map (fun k => (k, vof (om_pairs s) k)) o).
Proof.
  intros W H. destruct o as [k|]; simpl; [|reflexivity].
  rewrite om_pair_abs; auto.
Qed.

Lemma hd_error_map {A B} (f : A -> B) l : hd_error (map f l) = option_map f (hd_error l).
Proof. destruct l; reflexivity. Qed.

Lemma hd_error_in {A} (l : list A) x : hd_error l = Some x -> In x l.
Proof. destruct l; simpl; [discriminate|]. intros H; inversion H; auto. Qed.

(* ---------- set ---------- *)
Lemma map_ext_in' {A B} (f g : A -> B) l : (forall x, In x l -> f x = g x) -> map f l = map g l.
Proof. apply map_ext_in. Qed.

Lemma nodup_snoc (l : list Z) k : NoDup l -> ~ In k l -> NoDup (l ++ [k]).
Proof.
  induction l as [|x l IH]; simpl; intros H Hk.
  - constructor; [tauto|constructor].
  - inversion H; subst. constructor.
    + rewrite in_app_iff. simpl. intuition.
    + apply IH; tauto.
Qed.

Lemma sp_update_map (g : Z -> Z) k v l : NoDup l ->
  sp_update k v (map (fun x => (x, g x)) l) = map (fun x => (x, if x =? k then v else g x)) l.
Proof.
  induction l as [|x l IH]; simpl; intros H; [reflexivity|].
  inversion H as [|? ? Hn Hd]; subst.
  destruct (k =? x) eqn:E.
  - assert (k = x) by lia; subst. rewrite Z.eqb_refl. f_equal.
    apply map_ext_in. intros y Hy. destruct (y =? x) eqn:E2; [|reflexivity].
    assert (y = x) by lia; subst; contradiction.
  - rewrite IH by exact Hd. rewrite Z.eqb_sym, E. reflexivity.
Qed.

Lemma om_ensure_wf s : wf s -> wf (om_ensure s) /\ abs (om_ensure s) = abs s /\ om_init (om_ensure s) = true.
Proof.
  intros W. unfold om_ensure. destruct (om_init s) eqn:E; [auto|].
  destruct (wf_uninit _ W E) as [-> _]. split; [apply wf_new|auto].
Qed.

Lemma om_set_sim s k v :
  wf s -> let '(s', old) := om_set s k v in
  wf s' /\ abs s' = sp_set (abs s) k v /\ old = alookup k (abs s) /\ om_init s' = true.
Proof.
  intros W0. unfold om_set.
  destruct (om_ensure_wf _ W0) as [W [EA EI]].
  rewrite <- EA. set (t := om_ensure s) in *. clearbody t. clear W0 EA s.
  unfold sp_set. rewrite abs_has, abs_lookup by exact W. unfold ahas.
  destruct (alookup k (om_pairs t)) eqn:L.
  - (* existing key: value replaced in place *)
    assert (In k (om_list t)) as Hk by (apply (wf_keys _ W), alookup_in; congruence).
    split; [|split; [|split]]; try reflexivity.
    + split; cbn [om_list om_pairs om_init].
      * apply (wf_nd _ W).
      * apply aset_nodup, (wf_ndp _ W).
      * intros x. rewrite aset_keys, (wf_keys _ W). split; [tauto|].
        intros [->|H]; [apply (wf_keys _ W), Hk|exact H].
      * discriminate.
    + unfold abs; simpl. rewrite sp_update_map by apply (wf_nd _ W).
      apply map_ext_in. intros x _. unfold vof. rewrite alookup_aset. destruct (x =? k); reflexivity.
  - assert (~ In k (om_list t)) as Hk.
    { intros H. apply (wf_keys _ W), alookup_in in H. congruence. }
    split; [|split; [|split]]; try reflexivity.
    + split; cbn [om_list om_pairs om_init].
      * apply nodup_snoc; [apply (wf_nd _ W)|exact Hk].
      * apply aset_nodup, (wf_ndp _ W).
      * intros x. rewrite aset_keys, in_app_iff, (wf_keys _ W). simpl. intuition.
      * discriminate.
    + unfold abs; simpl. rewrite map_app. simpl. f_equal.
      * apply map_ext_in. intros x Hx. unfold vof. rewrite alookup_aset.
        destruct (x =? k) eqn:E; [|reflexivity]. assert (x = k) by lia; subst; contradiction.
      * unfold vof. rewrite alookup_aset, Z.eqb_refl. reflexivity.
Qed.

(* ---------- delete ---------- *)
Lemma lremove_filter k l : NoDup l -> lremove k l = filter (fun x => negb (k =? x)) l.
Proof.
  induction l as [|x l IH]; simpl; intros H; [reflexivity|].
  inversion H as [|? ? Hn Hd]; subst.
  destruct (k =? x) eqn:E; simpl.
  - assert (k = x) by lia; subst.
    symmetry. rewrite (proj2 (filter_ext_in_iff _ (fun _ => true) l)).
    + clear. induction l; simpl; congruence.
    + intros y Hy. destruct (x =? y) eqn:E2; [|reflexivity].
      assert (x = y) by lia; subst; contradiction.
  - rewrite IH by exact Hd. reflexivity.
Qed.

Lemma filter_map_comm {A B} (f : A -> B) (p : B -> bool) l :
  filter p (map f l) = map f (filter (fun x => p (f x)) l).
Proof.
  induction l as [|x l IH]; simpl; [reflexivity|].
  destruct (p (f x)); simpl; rewrite IH; reflexivity.
Qed.

Lemma nodup_filter {A} (p : A -> bool) l : NoDup l -> NoDup (filter p l).
Proof.
  induction l as [|x l IH]; simpl; intros H; [constructor|].
  inversion H; subst. destruct (p x); [constructor|]; auto.
  rewrite filter_In. tauto.
Qed.

Lemma om_delete_sim s k :
  wf s -> let '(s', old) := om_delete s k in
  wf s' /\ abs s' = sp_del (abs s) k /\ old = alookup k (abs s).
Proof.
  intros W. unfold om_delete. destruct (om_init s) eqn:EI; simpl.
  - rewrite abs_lookup by exact W.
    destruct (alookup k (om_pairs s)) eqn:L.
    + split; [|split; [|reflexivity]].
      * split; cbn [om_list om_pairs om_init].
        -- rewrite lremove_filter by apply (wf_nd _ W). apply nodup_filter, (wf_nd _ W).
        -- apply aremove_nodup, (wf_ndp _ W).
        -- intros x. rewrite aremove_keys, lremove_filter by apply (wf_nd _ W).
           rewrite filter_In, (wf_keys _ W). rewrite negb_true_iff. split; intros [H1 H2]; split; auto; lia.
        -- discriminate.
      * unfold abs, sp_del; cbn [om_list om_pairs].
        rewrite lremove_filter by apply (wf_nd _ W). rewrite filter_map_comm. cbn [fst].
        apply map_ext_in. intros x Hx. apply filter_In in Hx. destruct Hx as [_ Hx].
        unfold vof. rewrite alookup_aremove. rewrite negb_true_iff in Hx.
        rewrite Z.eqb_sym, Hx. reflexivity.
    + split; [exact W|split; [|reflexivity]].
      unfold sp_del. symmetry.
      rewrite (proj2 (filter_ext_in_iff _ (fun _ => true) (abs s))).
      * clear. induction (abs s); simpl; congruence.
      * intros [a b] Hin. cbn [fst]. destruct (k =? a) eqn:E; [|reflexivity].
        assert (k = a) by lia; subst. exfalso.
        assert (alookup a (abs s) <> None) as H by (apply alookup_in, in_map_iff; exists (a, b); auto).
        rewrite abs_lookup in H by exact W. congruence.
  - destruct (wf_uninit _ W EI) as [E _]. rewrite E. simpl. auto.
Qed.

(* ---------- len ---------- *)
Lemma om_len_abs s : wf s -> om_len s = Z.of_nat (length (abs s)).
Proof.
  intros W. unfold om_len, abs. rewrite map_length. f_equal.
  rewrite <- (map_length fst). apply Permutation_length, NoDup_Permutation.
  - apply (wf_ndp _ W).
  - apply (wf_nd _ W).
  - intros x. symmetry. apply (wf_keys _ W).
Qed.

(* ---------- next / prev ---------- *)
Lemma lnext_abs (g : Z -> Z) k l :
  sp_next k (map (fun x => (x, g x)) l) = option_map (fun x => (x, g x)) (lnext k l).
Proof.
  induction l as [|x l IH]; simpl; [reflexivity|].
  destruct (k =? x); [apply hd_error_map|exact IH].
Qed.

Lemma lnext_in k l y : lnext k l = Some y -> In y l.
Proof.
  induction l as [|x l IH]; simpl; [discriminate|].
  destruct (k =? x); intros H; [right; apply hd_error_in, H|right; auto].
Qed.

Lemma lnext_app_notin k a b : ~ In k a -> lnext k (a ++ b) = lnext k b.
Proof.
  induction a as [|x a IH]; simpl; intros H; [reflexivity|].
  destruct (k =? x) eqn:E; [exfalso; apply H; left; lia|]. apply IH. tauto.
Qed.

Lemma lnext_app_in k a b : In k a ->
  lnext k (a ++ b) = match lnext k a with Some y => Some y | None => hd_error b end.
Proof.
  induction a as [|x a IH]; simpl; intros H; [tauto|].
  destruct (k =? x) eqn:E.
  - destruct a; reflexivity.
  - apply IH. destruct H as [H|H]; [lia|exact H].
Qed.

Lemma lprev_aux_rev p k l : NoDup l ->
  lprev_aux p k l =
  if existsb (Z.eqb k) l then match lnext k (rev l) with Some y => Some y | None => p end else None.
Proof.
  revert p. induction l as [|x l IH]; simpl; intros p H; [reflexivity|].
  inversion H as [|? ? Hn Hd]; subst.
  destruct (k =? x) eqn:E; simpl.
  - assert (k = x) by lia; subst.
    rewrite lnext_app_notin by (rewrite <- in_rev; exact Hn). simpl. rewrite Z.eqb_refl. reflexivity.
  - rewrite IH by exact Hd. destruct (existsb (Z.eqb k) l) eqn:Ex; [|reflexivity].
    apply existsb_eqb_in in Ex. rewrite lnext_app_in by (rewrite <- in_rev; exact Ex).
    destruct (lnext k (rev l)); reflexivity.
Qed.

Lemma lprev_rev k l : NoDup l -> In k l -> lprev k l = lnext k (rev l).
Proof.
  intros H Hk. unfold lprev. rewrite lprev_aux_rev by exact H.
  apply existsb_eqb_in in Hk. rewrite Hk. destruct (lnext k (rev l)); reflexivity.
Qed.

(* ---------- set_list and the derived whole-map operations ---------- *)
Lemma om_set_list_sim ps : forall s, wf s ->
  wf (om_set_list s ps) /\ abs (om_set_list s ps) = sp_set_list (abs s) ps.
Proof.
  induction ps as [|[k v] ps IH]; intros s W; simpl; [auto|].
  pose proof (om_set_sim s k v W) as H. destruct (om_set s k v) as [s' old].
  destruct H as [W' [EA _]]. simpl. destruct (IH s' W') as [W'' EA'].
  split; [exact W''|]. rewrite EA', EA. reflexivity.
Qed.

Lemma om_build_sim ps : wf (om_build ps) /\ abs (om_build ps) = sp_set_list [] ps.
Proof. apply (om_set_list_sim ps om_new wf_new). Qed.

Lemma om_contains_abs s k : wf s -> om_contains s k = ahas k (abs s).
Proof.
  intros W. unfold om_contains. destruct (om_init s) eqn:E; simpl.
  - symmetry. apply abs_has, W.
  - destruct (wf_uninit _ W E) as [-> _]. reflexivity.
Qed.

Lemma om_get_abs s k : wf s -> om_get s k = alookup k (abs s).
Proof.
  intros W. unfold om_get. destruct (om_init s) eqn:E; simpl.
  - symmetry. apply abs_lookup, W.
  - destruct (wf_uninit _ W E) as [-> _]. reflexivity.
Qed.

Lemma fold_and_forallb {A} (f : A -> bool) l b :
  fold_left (fun acc p => acc && f p) l b = b && forallb f l.
Proof.
  revert b. induction l as [|x l IH]; simpl; intros b; [rewrite andb_true_r; reflexivity|].
  rewrite IH. rewrite andb_assoc. reflexivity.
Qed.

Lemma abs_keys_nodup s : wf s -> NoDup (map fst (abs s)).
Proof.
  intros W. unfold abs. rewrite map_map. simpl. rewrite map_id. apply (wf_nd _ W).
Qed.

Lemma sp_set_fresh l k v : ~ In k (map fst l) -> sp_set l k v = l ++ [(k, v)].
Proof.
  intros H. unfold sp_set. destruct (ahas k l) eqn:E; [|reflexivity].
  apply ahas_in in E. contradiction.
Qed.

Lemma intersection_fold (f : Z -> bool) ps : forall r,
  wf r -> NoDup (map fst ps) -> (forall k, In k (map fst ps) -> ~ In k (map fst (abs r))) ->
  let r' := fold_left (fun r p => if f (fst p) then fst (om_set r (fst p) (snd p)) else r) ps r in
  wf r' /\ abs r' = abs r ++ filter (fun p => f (fst p)) ps.
Proof.
  induction ps as [|[k v] ps IH]; intros r W ND Hd; simpl.
  - rewrite app_nil_r. auto.
  - simpl in ND. inversion ND as [|? ? Hn ND']; subst.
    destruct (f k) eqn:Ef.
    + pose proof (om_set_sim r k v W) as H. destruct (om_set r k v) as [r1 old].
      destruct H as [W1 [EA _]]. simpl.
      rewrite sp_set_fresh in EA by (apply Hd; simpl; auto).
      destruct (IH r1 W1 ND') as [W2 EA2].
      * intros x Hx. rewrite EA, map_app, in_app_iff. simpl.
        intros [H|[H|[]]]; [apply (Hd x); simpl; auto|subst; contradiction].
      * split; [exact W2|]. rewrite EA2, EA, <- app_assoc. reflexivity.
    + apply IH; auto. intros x Hx. apply Hd. simpl; auto.
Qed.

Lemma forallb_ext' {A} (f g : A -> bool) l : (forall x, f x = g x) -> forallb f l = forallb g l.
Proof. intros H. induction l; simpl; [reflexivity|]. rewrite H, IHl. reflexivity. Qed.

(* ---------- one step ---------- *)
Lemma forallb_abs (g : Z -> Z) c l :
  forallb (fun p : Z * Z => fst p <? c) (map (fun x => (x, g x)) l) = forallb (fun k => k <? c) l.
Proof. induction l; simpl; congruence. Qed.
Lemma existsb_abs (g : Z -> Z) c l :
  existsb (fun p : Z * Z => fst p <? c) (map (fun x => (x, g x)) l) = existsb (fun k => k <? c) l.
Proof. induction l; simpl; congruence. Qed.

Lemma hd_in_list s o : o = hd_error (om_list s) -> forall k, o = Some k -> In k (om_list s).
Proof. intros -> k H. apply hd_error_in, H. Qed.

Lemma om_step_sim s o :
  wf s ->
  wf (fst (om_step s o)) /\ abs (fst (om_step s o)) = fst (sp_step (abs s) o) /\
  snd (om_step s o) = snd (sp_step (abs s) o).
Proof.
  intros W. destruct o; cbn [om_step sp_step].
  - (* Set *)
    pose proof (om_set_sim s k v W) as H. destruct (om_set s k v) as [s' old].
    destruct H as [W' [EA [EO _]]]. simpl. rewrite EO. auto.
  - simpl. rewrite om_get_abs by exact W. auto.
  - simpl. rewrite om_contains_abs by exact W. auto.
  - pose proof (om_delete_sim s k W) as H. destruct (om_delete s k) as [s' old].
    destruct H as [W' [EA EO]]. simpl. rewrite EO. auto.
  - simpl. rewrite om_len_abs by exact W. auto.
  - (* Clear *)
    simpl. unfold om_clear. destruct (om_init s) eqn:E; simpl.
    + split; [apply wf_new|auto].
    + destruct (wf_uninit _ W E) as [EA _]. auto.
  - simpl. rewrite om_foreach_abs by exact W. auto.
  - (* Oldest *)
    simpl. split; [exact W|split; [reflexivity|]]. unfold om_oldest.
    destruct (om_init s) eqn:E; simpl.
    + rewrite opt_pair_obs_abs; [|exact W|intros k; apply hd_error_in].
      unfold abs. rewrite hd_error_map. reflexivity.
    + destruct (wf_uninit _ W E) as [-> _]. reflexivity.
  - (* Newest *)
    simpl. split; [exact W|split; [reflexivity|]]. unfold om_newest.
    destruct (om_init s) eqn:E; simpl.
    + rewrite opt_pair_obs_abs; [|exact W|intros k H; apply hd_error_in in H; apply in_rev, H].
      unfold abs. rewrite <- map_rev, hd_error_map. reflexivity.
    + destruct (wf_uninit _ W E) as [-> _]. reflexivity.
  - (* Next *)
    simpl. split; [exact W|split; [reflexivity|]]. unfold om_next.
    destruct (om_init s) eqn:E; simpl.
    + rewrite abs_has by exact W. destruct (ahas k (om_pairs s)); [|reflexivity].
      rewrite opt_pair_obs_abs; [|exact W|intros y; apply lnext_in].
      unfold abs. rewrite lnext_abs. reflexivity.
    + destruct (wf_uninit _ W E) as [-> _]. reflexivity.
  - (* Prev *)
    simpl. split; [exact W|split; [reflexivity|]]. unfold om_prev.
    destruct (om_init s) eqn:E; simpl.
    + rewrite abs_has by exact W. destruct (ahas k (om_pairs s)) eqn:Hh; [|reflexivity].
      assert (In k (om_list s)) as Hk by (apply (wf_keys _ W), ahas_in, Hh).
      rewrite lprev_rev by (auto; apply (wf_nd _ W)).
      rewrite opt_pair_obs_abs; [|exact W|intros y H; apply lnext_in in H; apply in_rev, H].
      unfold sp_prev, abs. rewrite <- map_rev, lnext_abs. reflexivity.
    + destruct (wf_uninit _ W E) as [-> _]. reflexivity.
  - (* ForAllKeys *)
    simpl. split; [exact W|split; [reflexivity|]]. unfold om_forall.
    destruct (om_init s) eqn:E; simpl.
    + unfold abs. rewrite forallb_abs. reflexivity.
    + destruct (wf_uninit _ W E) as [-> _]. reflexivity.
  - (* ForAnyKey *)
    simpl. split; [exact W|split; [reflexivity|]]. unfold om_forany.
    destruct (om_init s) eqn:E; simpl.
    + unfold abs. rewrite existsb_abs. reflexivity.
    + destruct (wf_uninit _ W E) as [-> _]. reflexivity.
  - (* SetAll *)
    destruct (om_build_sim l) as [Wb EAb]. unfold om_setall.
    rewrite om_foreach_abs by exact Wb.
    destruct (om_set_list_sim (abs (om_build l)) s W) as [W' EA]. simpl.
    rewrite EA. rewrite EAb in *. auto.
  - (* KeySetIsDisjointFrom *)
    destruct (om_build_sim l) as [Wb EAb]. unfold om_disjoint.
    rewrite om_foreach_abs by exact W. simpl.
    split; [exact W|split; [reflexivity|]]. f_equal.
    rewrite fold_and_forallb. simpl. apply forallb_ext'. intros p.
    rewrite om_contains_abs, EAb by exact Wb. reflexivity.
  - (* KeySetIntersection *)
    destruct (om_build_sim l) as [Wb EAb]. unfold om_intersection.
    rewrite om_foreach_abs by exact W. simpl.
    split; [exact W|split; [reflexivity|]].
    destruct (intersection_fold (om_contains (om_build l)) (abs s) om_new wf_new (abs_keys_nodup s W))
      as [Wr EAr]; [intros k _ []|].
    rewrite om_foreach_abs by exact Wr. simpl. f_equal. rewrite EAr. simpl.
    apply filter_ext. intros p. rewrite om_contains_abs, EAb by exact Wb. reflexivity.
  - (* KeySetUnion *)
    destruct (om_build_sim l) as [Wb EAb]. unfold om_union, om_setall.
    rewrite om_foreach_abs by exact W.
    rewrite om_foreach_abs by exact Wb.
    destruct (om_set_list_sim (abs s) om_new wf_new) as [W1 EA1].
    destruct (om_set_list_sim (abs (om_build l)) _ W1) as [W2 EA2]. simpl.
    split; [exact W|split; [reflexivity|]].
    rewrite om_foreach_abs by exact W2. simpl. rewrite EA2, EA1, EAb. reflexivity.
Qed.

(* ---------- all histories ---------- *)
Theorem om_run_refines ops : forall s, wf s -> om_run s ops = sp_run (abs s) ops.
Proof.
  induction ops as [|o ops IH]; intros s W; simpl; [reflexivity|].
  destruct (om_step_sim s o W) as [W' [EA EO]].
  destruct (om_step s o) as [s' v] eqn:Es. destruct (sp_step (abs s) o) as [l' v'] eqn:El.
  simpl in *. rewrite EO. f_equal. rewrite <- EA. apply IH; assumption.
Qed.

Corollary om_zero_refines ops : om_run om_zero ops = sp_run [] ops.
Proof. apply (om_run_refines ops om_zero wf_zero). Qed.
Corollary om_new_refines ops : om_run om_new ops = sp_run [] ops.
Proof. apply (om_run_refines ops om_new wf_new). Qed.

(* order facts of the specification that the property text names *)
Lemma sp_update_keys k v l : map fst (sp_update k v l) = map fst l.
Proof.
  induction l as [|[a b] l IH]; simpl; [reflexivity|].
  destruct (k =? a); simpl; congruence.
Qed.

(* re-inserting an existing key keeps every key at its position *)
Lemma sp_set_existing_keeps_order l k v :
  ahas k l = true -> map fst (sp_set l k v) = map fst l.
Proof. intros H. unfold sp_set. rewrite H. apply sp_update_keys. Qed.

(* a new key goes to the end *)
Lemma sp_set_new_appends l k v : ahas k l = false -> sp_set l k v = l ++ [(k, v)].
Proof. intros H. unfold sp_set. rewrite H. reflexivity. Qed.

(* lookup after set *)
Lemma sp_set_lookup l k v k' :
  alookup k' (sp_set l k v) = if k' =? k then Some v else alookup k' l.
Proof.
  unfold sp_set. destruct (ahas k l) eqn:H.
  - unfold ahas in H. induction l as [|[a b] l IH]; simpl in *; [discriminate|].
    destruct (k =? a) eqn:E; simpl.
    + assert (k = a) by lia; subst. destruct (k' =? a); reflexivity.
    + destruct (k' =? a) eqn:E2.
      * destruct (k' =? k) eqn:E3; [lia|reflexivity].
      * apply IH, H.
  - unfold ahas in H. induction l as [|[a b] l IH]; simpl in *.
    + destruct (k' =? k); reflexivity.
    + destruct (k =? a) eqn:E; [discriminate|].
      destruct (k' =? a) eqn:E2.
      * destruct (k' =? k) eqn:E3; [lia|reflexivity].
      * apply IH, H.
Qed.

(* delete removes the key and keeps the others in order *)
Lemma sp_del_lookup l k k' :
  alookup k' (sp_del l k) = if k' =? k then None else alookup k' l.
Proof.
  unfold sp_del. induction l as [|[a b] l IH]; simpl.
  - destruct (k' =? k); reflexivity.
  - destruct (k =? a) eqn:E; simpl.
    + rewrite IH. destruct (k' =? k) eqn:E2; [reflexivity|].
      destruct (k' =? a) eqn:E3; [lia|reflexivity].
    + destruct (k' =? a) eqn:E3; [|exact IH].
      destruct (k' =? k) eqn:E2; [lia|reflexivity].
Qed.
