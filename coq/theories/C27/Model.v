(* C27  Contract update validation: code-shaped model.
   Transcribed from
     stdlib/contract_update_validation.go  (Validate, collectImports, collectRemovedTypePragmas,
        checkDeclarationUpdatability, checkFields, checkField, checkDeclarationKindChange,
        checkNestedDeclarations, checkNestedDeclarationRemoval, checkTypeNotRemoved,
        getNestedNominalTypeDecls, checkEnumCases, checkConformance)
     stdlib/type-comparator.go             (every Check*Equality, checkNameEquality,
        checkIdentifierEquality, identifiersEqual)
     ast/type.go, ast/access.go            (the type AST that is compared)
   This file has definitions only; the specification (stored values, typing, usability) is in
   Spec.v and the proofs are in Proofs.v. *)
From CV Require Export Base.Prelude.

Definition name := Z.                       (* identifiers, interned by the harness *)
Definition nom := (name * list name)%type.  (* ast.NominalType: Identifier, NestedIdentifiers *)
Definition loc := (Z * name)%type.          (* common.AddressLocation: address, contract name *)

(* ast.Authorization of a reference type (nil = no authorization) *)
Inductive auth : Type :=
| ANone
| AConj (l : list nom)      (* ast.ConjunctiveEntitlementSet *)
| ADisj (l : list nom)      (* ast.DisjunctiveEntitlementSet *)
| AMap (m : nom).           (* ast.MappedAccess *)

(* ast.Type *)
Inductive ty : Type :=
| TNom (n : nom)
| TOpt (t : ty)
| TVar (t : ty)                        (* [T] *)
| TConst (t : ty) (size base : Z)      (* [T; n]: IntegerExpression value and base *)
| TDict (k v : ty)
| TRef (a : auth) (t : ty)
| TInter (l : list nom)                (* {I, J}: []*NominalType *)
| TFun (purity : Z) (ps : list ty) (r : ty)
| TInst (t : ty) (args : list ty).     (* T<A, B> *)

(* common.DeclarationKind of the declarations that can be members *)
Inductive dkind : Type :=
| KStruct | KResource | KContract | KEvent | KEnum      (* ast.CompositeDeclaration *)
| KStructIface | KResIface | KContractIface             (* ast.InterfaceDeclaration *)
| KAttachment                                           (* ast.AttachmentDeclaration *)
| KEntitlement | KEntMapping.                           (* never consulted by the validator *)

Definition dkind_code (k : dkind) : Z :=
  match k with
  | KStruct => 0 | KResource => 1 | KContract => 2 | KEvent => 3 | KEnum => 4
  | KStructIface => 5 | KResIface => 6 | KContractIface => 7 | KAttachment => 8
  | KEntitlement => 9 | KEntMapping => 10
  end.
Definition dkind_eqb (a b : dkind) : bool := dkind_code a =? dkind_code b.

Definition is_composite (k : dkind) : bool :=
  match k with KStruct | KResource | KContract | KEvent | KEnum => true | _ => false end.
Definition is_iface (k : dkind) : bool :=        (* DeclarationKind.IsInterfaceDeclaration *)
  match k with KStructIface | KResIface | KContractIface => true | _ => false end.
Definition is_attachment (k : dkind) : bool :=
  match k with KAttachment => true | _ => false end.

(* a pragma declaration, as far as collectRemovedTypePragmas distinguishes them *)
Inductive pragma : Type :=
| PRemoved (n : name)   (* #removedType(n), one identifier argument *)
| PBadArity             (* #removedType(...) with != 1 arguments *)
| PBadArg               (* #removedType(e), e not an identifier *)
| POther.               (* any other pragma *)

(* a declaration with the members the validator looks at *)
Inductive decl : Type :=
| Decl (k : dkind) (n : name)
       (fields : list (name * ty))   (* Members.Fields(), source order *)
       (nested : list decl)          (* nested type declarations, source order *)
       (confs : list nom)            (* Conformances *)
       (cases : list name)           (* Members.EnumCases() *)
       (prs : list pragma)           (* Members.Pragmas() *)
       (base : option nom).          (* attachment base type *)

Definition dk (d : decl) := let '(Decl k _ _ _ _ _ _ _) := d in k.
Definition dname (d : decl) := let '(Decl _ n _ _ _ _ _ _) := d in n.
Definition dfields (d : decl) := let '(Decl _ _ f _ _ _ _ _) := d in f.
Definition dnested (d : decl) := let '(Decl _ _ _ x _ _ _ _) := d in x.
Definition dconfs (d : decl) := let '(Decl _ _ _ _ c _ _ _) := d in c.
Definition dcases (d : decl) := let '(Decl _ _ _ _ _ c _ _) := d in c.
Definition dprs (d : decl) := let '(Decl _ _ _ _ _ _ p _) := d in p.
Definition dbase (d : decl) := let '(Decl _ _ _ _ _ _ _ b) := d in b.

(* an import declaration: address location (None: identifier/string location, skipped by
   collectImports) and the imported identifiers with alias (0 = no alias) *)
Definition import := (option Z * list (name * name))%type.

Record program : Type := Program {
  p_imports : list import;
  p_root : decl
}.

(* ------------------------------------------------------------------ small list helpers *)
Fixpoint zmem (x : Z) (l : list Z) : bool :=
  match l with [] => false | y :: r => (x =? y) || zmem x r end.

Fixpoint list_eqb {A} (eqb : A -> A -> bool) (a b : list A) : bool :=
  match a, b with
  | [], [] => true
  | x :: r, y :: s => eqb x y && list_eqb eqb r s
  | _, _ => false
  end.

Definition loc_eqb (a b : loc) : bool := (fst a =? fst b) && (snd a =? snd b).
Definition oloc_eqb (a b : option loc) : bool :=
  match a, b with
  | None, None => true
  | Some x, Some y => loc_eqb x y
  | _, _ => false
  end.

(* Go map[string]T built by successive assignment: the LAST binding of a key wins *)
Definition amap (A : Type) := list (name * A).
Fixpoint aget {A} (m : amap A) (k : name) : option A :=
  match m with
  | [] => None
  | (k', v) :: r => if k =? k' then Some v else aget r k
  end.
Fixpoint adel {A} (m : amap A) (k : name) : amap A :=
  match m with
  | [] => []
  | (k', v) :: r => if k =? k' then adel r k else (k', v) :: adel r k
  end.
Definition aset {A} (m : amap A) (k : name) (v : A) : amap A := (k, v) :: adel m k.

(* ------------------------------------------------------------------ collectImports *)
(* acct: AccountContractNamesProvider.GetAccountContractNames, as an association list *)
Definition acct_names := list (Z * list name).
Fixpoint acct_get (a : acct_names) (addr : Z) : list name :=
  match a with
  | [] => []
  | (x, ns) :: r => if addr =? x then ns else acct_get r addr
  end.

Definition collect_imports (acct : acct_names) (imps : list import) : amap loc :=
  fold_left (fun m (imp : import) =>
    match fst imp with
    | None => m                                   (* e.g. Crypto: continue *)
    | Some addr =>
        match snd imp with
        | [] => fold_left (fun m id => aset m id (addr, id)) (acct_get acct addr) m
        | ids => fold_left (fun m (ia : name * name) =>
                   let nm := if snd ia =? 0 then fst ia else snd ia in
                   aset m nm (addr, fst ia)) ids m
        end
    end) imps [].

(* ------------------------------------------------------------------ type comparator *)
Record cmp_env : Type := CmpEnv {
  ce_root : name;              (* TypeComparator.RootDeclIdentifier (of the NEW program) *)
  ce_exp : amap loc;           (* expectedIdentifierImportLocations (old program) *)
  ce_found : amap loc          (* foundIdentifierImportLocations (new program) *)
}.

(* identifiersEqual *)
Definition identifiers_equal (a b : list name) : bool := list_eqb Z.eqb a b.

(* checkIdentifierEquality(qualified, simple) *)
Definition check_identifier_equality (e : cmp_env) (q s : nom) : bool :=
  if negb (fst q =? ce_root e) then false
  else match snd q with
       | [] => false     (* unreachable: q is qualified *)
       | n0 :: rest =>
           if negb (n0 =? fst s) then false
           else identifiers_equal (snd s) rest
       end.

Definition is_qualified (n : nom) : bool := match snd n with [] => false | _ => true end.

(* checkNameEquality(expected, found) *)
Definition check_name_equality (e : cmp_env) (ex fo : nom) : bool :=
  if is_qualified ex && negb (is_qualified fo) then check_identifier_equality e ex fo
  else if is_qualified fo && negb (is_qualified ex) then check_identifier_equality e fo ex
  else if negb (fst ex =? fst fo) then false
  else if negb (oloc_eqb (aget (ce_exp e) (fst ex)) (aget (ce_found e) (fst fo))) then false
  else identifiers_equal (snd ex) (snd fo).

(* element-wise comparison after the length check (for index, x := range expected { found[index] }) *)
Fixpoint noms_equal (e : cmp_env) (a b : list nom) : bool :=
  match a, b with
  | [], _ => true
  | x :: r, y :: s => check_name_equality e x y && noms_equal e r s
  | _ :: _, [] => false
  end.

Definition nom_list_eq (e : cmp_env) (a b : list nom) : bool :=
  (Z.of_nat (length a) =? Z.of_nat (length b)) && noms_equal e a b.

(* Check{Conjunctive,Disjunctive}EntitlementSetEquality, CheckMappedAccessEquality and the
   authorization switch of CheckReferenceTypeEquality *)
Definition auth_eq (e : cmp_env) (a b : auth) : bool :=
  match a, b with
  | ANone, ANone => true
  | AConj l, AConj l' => nom_list_eq e l l'
  | ADisj l, ADisj l' => nom_list_eq e l l'
  | AMap m, AMap m' => check_name_equality e m m'
  | _, _ => false
  end.

(* Type.CheckEqual(other, comparator): true = nil error *)
Fixpoint ty_eq (e : cmp_env) (ex fo : ty) {struct ex} : bool :=
  match ex with
  | TNom n => match fo with TNom n' => check_name_equality e n n' | _ => false end
  | TOpt t => match fo with TOpt t' => ty_eq e t t' | _ => false end
  | TVar t => match fo with TVar t' => ty_eq e t t' | _ => false end
  | TConst t sz b =>
      match fo with
      | TConst t' sz' b' => if negb (sz' =? sz) || negb (b' =? b) then false else ty_eq e t t'
      | _ => false
      end
  | TDict k v =>
      match fo with
      | TDict k' v' => if ty_eq e k k' then ty_eq e v v' else false
      | _ => false
      end
  | TRef a t =>
      match fo with
      | TRef a' t' => if auth_eq e a a' then ty_eq e t t' else false
      | _ => false
      end
  | TInter l => match fo with TInter l' => nom_list_eq e l l' | _ => false end
  | TFun p ps r =>
      match fo with
      | TFun p' ps' r' =>
          if negb (Z.of_nat (length ps) =? Z.of_nat (length ps')) then false
          else if negb (p =? p') then false
          else if (fix go (a b : list ty) : bool :=
                     match a, b with
                     | [], _ => true
                     | x :: xs, y :: ys => ty_eq e x y && go xs ys
                     | _ :: _, [] => false
                     end) ps ps'
          then ty_eq e r r' else false
      | _ => false
      end
  | TInst t args =>
      match fo with
      | TInst t' args' =>
          if negb (ty_eq e t t') then false
          else if negb (Z.of_nat (length args) =? Z.of_nat (length args')) then false
          else (fix go (a b : list ty) : bool :=
                  match a, b with
                  | [], _ => true
                  | x :: xs, y :: ys => ty_eq e x y && go xs ys
                  | _ :: _, [] => false
                  end) args args'
      | _ => false
      end
  end.

(* ------------------------------------------------------------------ reported errors *)
Inductive uerr : Type :=
| ENameMismatch (o n : name)          (* NameMismatchError *)
| EExtraField (d f : name)            (* ExtraneousFieldError *)
| EFieldMismatch (d f : name)         (* FieldMismatchError *)
| EKindChange (n : name)              (* InvalidDeclarationKindChangeError *)
| EMissingDecl (n : name)             (* MissingDeclarationError *)
| EBadPragma                          (* InvalidTypeRemovalPragmaError *)
| EUseOfRemoved (n : name)            (* UseOfRemovedTypeError *)
| EPragmaRemoved (n : name)           (* TypeRemovalPragmaRemovalError *)
| EMissingCases (d : name)            (* MissingEnumCasesError *)
| ECaseMismatch (ex fo : name)        (* EnumCaseMismatchError *)
| EConfMismatch (d : name)            (* ConformanceMismatchError *)
| EBaseMismatch.                      (* TypeMismatchError from the attachment base type *)

Definition uerr_code (x : uerr) : Z * Z * Z :=
  match x with
  | ENameMismatch o n => (1, o, n)
  | EExtraField d f => (2, d, f)
  | EFieldMismatch d f => (3, d, f)
  | EKindChange n => (4, n, 0)
  | EMissingDecl n => (5, n, 0)
  | EBadPragma => (6, 0, 0)
  | EUseOfRemoved n => (7, n, 0)
  | EPragmaRemoved n => (8, n, 0)
  | EMissingCases d => (9, d, 0)
  | ECaseMismatch a b => (10, a, b)
  | EConfMismatch d => (11, d, 0)
  | EBaseMismatch => (12, 0, 0)
  end.

(* ------------------------------------------------------------------ collectRemovedTypePragmas *)
(* orderedmap.Set: a key already present keeps its position *)
Definition oset_add (s : list name) (n : name) : list name := if zmem n s then s else s ++ [n].

Fixpoint collect_removed (prs : list pragma) (acc : list name) : list name :=
  match prs with
  | [] => acc
  | PRemoved n :: r => collect_removed r (oset_add acc n)
  | _ :: r => collect_removed r acc
  end.

Fixpoint pragma_errors (prs : list pragma) : list uerr :=
  match prs with
  | [] => []
  | (PBadArity | PBadArg) :: r => EBadPragma :: pragma_errors r
  | _ :: r => pragma_errors r
  end.

(* ------------------------------------------------------------------ checkFields / checkField *)
Definition fields_by_identifier (fs : list (name * ty)) : amap ty :=
  fold_left (fun m (f : name * ty) => aset m (fst f) (snd f)) fs [].

Fixpoint check_fields_loop (e : cmp_env) (newname : name) (oldf : amap ty) (newfs : list (name * ty))
  : list uerr :=
  match newfs with
  | [] => []
  | (f, t') :: r =>
      match aget oldf f with
      | None => EExtraField newname f :: check_fields_loop e newname oldf r
      | Some t =>
          (if ty_eq e t t' then [] else [EFieldMismatch newname f])
          ++ check_fields_loop e newname oldf r
      end
  end.

Definition check_fields (e : cmp_env) (old new : decl) : list uerr :=
  check_fields_loop e (dname new) (fields_by_identifier (dfields old)) (dfields new).

(* ------------------------------------------------------------------ checkEnumCases *)
Fixpoint enum_case_loop (olds news : list name) : list uerr :=
  match news with
  | [] => []
  | n :: nr =>
      match olds with
      | [] => []                       (* index >= oldEnumCaseCount: continue (all further too) *)
      | o :: orest => (if o =? n then [] else [ECaseMismatch o n]) ++ enum_case_loop orest nr
      end
  end.

Definition check_enum_cases (old new : decl) : list uerr :=
  if Z.of_nat (length (dcases new)) <? Z.of_nat (length (dcases old))
  then [EMissingCases (dname new)]
  else enum_case_loop (dcases old) (dcases new).

(* ------------------------------------------------------------------ checkConformance *)
(* first new conformance equal to [oc] is removed from the remaining candidates *)
Fixpoint take_match (e : cmp_env) (oc : nom) (news : list nom) : option (list nom) :=
  match news with
  | [] => None
  | nc :: r =>
      if check_name_equality e oc nc then Some r
      else match take_match e oc r with
           | Some r' => Some (nc :: r')
           | None => None
           end
  end.

Fixpoint conformance_loop (e : cmp_env) (newname : name) (olds news : list nom) : list uerr :=
  match olds with
  | [] => []
  | oc :: r =>
      match take_match e oc news with
      | Some news' => conformance_loop e newname r news'
      | None => [EConfMismatch newname]        (* report and return *)
      end
  end.

Definition check_conformance (e : cmp_env) (old new : decl) : list uerr :=
  conformance_loop e (dname new) (dconfs old) (dconfs new).

(* ------------------------------------------------------------------ getNestedNominalTypeDecls *)
Definition by_identifier (cls : dkind -> bool) (ds : list decl) (m : amap decl) : amap decl :=
  fold_left (fun m d => if cls (dk d) then aset m (dname d) d else m) ds m.

Definition nested_nominal_decls (d : decl) : amap decl :=
  by_identifier is_iface (dnested d)
    (by_identifier is_attachment (dnested d)
       (by_identifier is_composite (dnested d) [])).

(* sort.Slice by identifier (names are interned so that Z order = string order) *)
Fixpoint insert_by_name (d : decl) (l : list decl) : list decl :=
  match l with
  | [] => [d]
  | x :: r => if dname d <=? dname x then d :: x :: r else x :: insert_by_name d r
  end.
Definition sort_by_name (l : list decl) : list decl := fold_right insert_by_name [] l.

(* one of the three loops of checkNestedDeclarations over the new nested declarations of a class:
   returns the reported errors and the remaining old declarations *)
Section NestedLoop.
  Variable rec : decl -> decl -> list uerr.
  Variable removed : list name.
  Variable cls : dkind -> bool.
  Fixpoint nested_loop (m : amap decl) (news : list decl) : list uerr * amap decl :=
    match news with
    | [] => ([], m)
    | x :: r =>
        if cls (dk x) then
          let e1 := if zmem (dname x) removed then [EUseOfRemoved (dname x)] else [] in
          match aget m (dname x) with
          | None => let res := nested_loop m r in (e1 ++ fst res, snd res)
          | Some ox =>
              let e2 := rec ox x in
              let res := nested_loop (adel m (dname x)) r in
              (e1 ++ e2 ++ fst res, snd res)
          end
        else nested_loop m r
    end.
End NestedLoop.

(* checkNestedDeclarationRemoval for every remaining old declaration, sorted by name *)
Definition missing_errors (removed : list name) (missing : list decl) : list uerr :=
  flat_map (fun d => if zmem (dname d) removed && negb (is_iface (dk d)) then []
                     else [EMissingDecl (dname d)]) missing.

(* ------------------------------------------------------------------ checkDeclarationUpdatability *)
Fixpoint check_decl (e : cmp_env) (old new : decl) {struct new} : list uerr :=
  if negb (dkind_eqb (dk old) (dk new)) then [EKindChange (dname old)]   (* checkDeclarationKindChange *)
  else
    let e_name := if dname old =? dname new then [] else [ENameMismatch (dname old) (dname new)] in
    let e_fields := check_fields e old new in
    (* checkNestedDeclarations *)
    let old_removed := collect_removed (dprs old) [] in
    let removed := collect_removed (dprs new) [] in
    let e_prag := pragma_errors (dprs new) in
    let e_pragrem := flat_map (fun r => if zmem r removed then [] else [EPragmaRemoved r]) old_removed in
    let m0 := nested_nominal_decls old in
    let news := match new with Decl _ _ _ x _ _ _ _ => x end in
    let r1 := nested_loop (fun o n => check_decl e o n) removed is_composite m0 news in
    let r2 := nested_loop (fun o n => check_decl e o n) removed is_attachment (snd r1) news in
    let r3 := nested_loop (fun o n => check_decl e o n) removed is_iface (snd r2) news in
    let e_missing := missing_errors removed (sort_by_name (map snd (snd r3))) in
    let e_enum := check_enum_cases old new in
    (* conformances: only when both are *ast.CompositeDeclaration *)
    let e_conf := if is_composite (dk new) && is_composite (dk old) then check_conformance e old new else [] in
    (* attachment base type *)
    let e_base := if is_attachment (dk old) && is_attachment (dk new) then
                    match dbase old, dbase new with
                    | Some bo, Some bn => if check_name_equality e bo bn then [] else [EBaseMismatch]
                    | _, _ => []
                    end
                  else [] in
    e_name ++ e_fields ++ e_prag ++ e_pragrem ++ fst r1 ++ fst r2 ++ fst r3 ++ e_missing ++ e_enum
    ++ e_conf ++ e_base.

(* ContractUpdateValidator.Validate for two programs each having a sole contract (interface)
   declaration; [acct] answers getAccountContractNames for wildcard imports *)
Definition validate (acct : acct_names) (old new : program) : list uerr :=
  let e := CmpEnv (dname (p_root new))
                  (collect_imports acct (p_imports old))
                  (collect_imports acct (p_imports new)) in
  check_decl e (p_root old) (p_root new).

Definition valid_update (acct : acct_names) (old new : program) : bool :=
  match validate acct old new with [] => true | _ => false end.
