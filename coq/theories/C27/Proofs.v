(* C27  Proofs: an accepted update keeps stored values usable (under the guards that exclude
   the defect classes found while proving, see Properties/C27.v). *)
From CV Require Import C27.Model C27.Spec.
From Coq Require Import Lia.

(* ------------------------------------------------------------------ boolean equalities *)
Lemma list_eqb_eq {A} (eqb : A -> A -> bool) :
  (forall x y, eqb x y = true -> x = y) -> forall a b, list_eqb eqb a b = true -> a = b.
Proof.
  intros H a; induction a as [|x r IH]; intros [|y s] E; simpl in E; try discriminate; auto.
  apply andb_true_iff in E as [E1 E2]. f_equal; auto.
Qed.

Lemma list_eqb_refl {A} (eqb : A -> A -> bool) :
  (forall x, eqb x x = true) -> forall a, list_eqb eqb a a = true.
Proof. intros H a; induction a; simpl; auto. rewrite H, IHa; auto. Qed.

Lemma path_eqb_eq a b : path_eqb a b = true -> a = b.
Proof. apply list_eqb_eq. intros x y E; apply Z.eqb_eq; auto. Qed.
Lemma path_eqb_refl a : path_eqb a a = true.
Proof. apply list_eqb_refl. intros; apply Z.eqb_refl. Qed.

Lemma identifiers_equal_eq a b : identifiers_equal a b = true -> a = b.
Proof. apply path_eqb_eq. Qed.

Lemma loc_eqb_eq a b : loc_eqb a b = true -> a = b.
Proof.
  destruct a, b; unfold loc_eqb; simpl; intros E.
  apply andb_true_iff in E as [E1 E2]. apply Z.eqb_eq in E1, E2. subst; auto.
Qed.
Lemma loc_eqb_refl a : loc_eqb a a = true.
Proof. destruct a; unfold loc_eqb; simpl. rewrite !Z.eqb_refl; auto. Qed.

Lemma oloc_eqb_eq a b : oloc_eqb a b = true -> a = b.
Proof.
  destruct a, b; simpl; intros E; try discriminate; auto. apply loc_eqb_eq in E; subst; auto.
Qed.

Lemma tid_eqb_eq a b : tid_eqb a b = true -> a = b.
Proof.
  destruct a, b; simpl; intros E; try discriminate.
  - apply path_eqb_eq in E; subst; auto.
  - apply andb_true_iff in E as [E1 E2]. apply loc_eqb_eq in E1. apply path_eqb_eq in E2. subst; auto.
  - apply Z.eqb_eq in E; subst; auto.
Qed.
Lemma tid_eqb_refl a : tid_eqb a a = true.
Proof.
  destruct a; simpl; auto using path_eqb_refl, Z.eqb_refl.
  rewrite loc_eqb_refl, path_eqb_refl; auto.
Qed.

Lemma tids_eqb_eq a b : tids_eqb a b = true -> a = b.
Proof. apply list_eqb_eq. apply tid_eqb_eq. Qed.

Lemma sauth_eqb_eq a b : sauth_eqb a b = true -> a = b.
Proof.
  destruct a, b; simpl; intros E; try discriminate; auto.
  - apply tids_eqb_eq in E; subst; auto.
  - apply tids_eqb_eq in E; subst; auto.
  - apply tid_eqb_eq in E; subst; auto.
Qed.

Lemma sty_eqb_eq a : forall b, sty_eqb a b = true -> a = b.
Proof.
  induction a; intros b E; destruct b; simpl in E; try discriminate.
  - apply tid_eqb_eq in E; subst; auto.
  - f_equal; auto.
  - f_equal; auto.
  - apply andb_true_iff in E as [E1 E2]. apply Z.eqb_eq in E2. f_equal; auto.
  - apply andb_true_iff in E as [E1 E2]. f_equal; auto.
  - apply andb_true_iff in E as [E1 E2]. apply sauth_eqb_eq in E1. f_equal; auto.
  - apply tids_eqb_eq in E; subst; auto.
  - f_equal; auto.
Qed.

Lemma sty_eqb_refl a : sty_eqb a a = true.
Proof.
  induction a; simpl; auto using tid_eqb_refl.
  - rewrite IHa, Z.eqb_refl; auto.
  - rewrite IHa1, IHa2; auto.
  - rewrite IHa. destruct a; simpl; try rewrite tid_eqb_refl; auto;
      unfold tids_eqb; rewrite list_eqb_refl; auto using tid_eqb_refl.
  - unfold tids_eqb; apply list_eqb_refl; apply tid_eqb_refl.
Qed.

Lemma dkind_eqb_eq a b : dkind_eqb a b = true -> a = b.
Proof. destruct a, b; unfold dkind_eqb; simpl; intros E; try reflexivity; discriminate. Qed.
Lemma dkind_eqb_refl a : dkind_eqb a a = true.
Proof. unfold dkind_eqb; apply Z.eqb_refl. Qed.

Lemma zmem_In x l : zmem x l = true <-> In x l.
Proof.
  induction l; simpl; split; intros H; try discriminate; try contradiction.
  - apply orb_true_iff in H as [H|H]; [left; apply Z.eqb_eq in H; auto | right; apply IHl; auto].
  - apply orb_true_iff. destruct H as [H|H]; [left; subst; apply Z.eqb_refl | right; apply IHl; auto].
Qed.

(* ------------------------------------------------------------------ association maps *)
Lemma aget_adel {A} (m : amap A) k k' :
  aget (adel m k) k' = if k' =? k then None else aget m k'.
Proof.
  induction m as [|[k0 v] r IH]; simpl.
  - destruct (k' =? k); auto.
  - destruct (k =? k0) eqn:E.
    + apply Z.eqb_eq in E; subst. rewrite IH. destruct (k' =? k0) eqn:E2; auto.
    + simpl. rewrite IH. destruct (k' =? k0) eqn:E2; auto.
      apply Z.eqb_eq in E2; subst. rewrite Z.eqb_sym, E; auto.
Qed.

Lemma aget_aset {A} (m : amap A) k v k' :
  aget (aset m k v) k' = if k' =? k then Some v else aget m k'.
Proof. unfold aset; simpl. rewrite aget_adel. destruct (k' =? k); auto. Qed.

Lemma aget_In {A} (m : amap A) k v : aget m k = Some v -> In (k, v) m.
Proof.
  induction m as [|[k0 v0] r IH]; simpl; intros H; try discriminate.
  destruct (k =? k0) eqn:E.
  - apply Z.eqb_eq in E; inversion H; subst; auto.
  - right; auto.
Qed.

(* ------------------------------------------------------------------ find_decl *)
Lemma find_decl_name n ds d : find_decl n ds = Some d -> dname d = n /\ In d ds.
Proof.
  induction ds as [|x r IH]; simpl; intros H; try discriminate.
  destruct (n =? dname x) eqn:E.
  - apply Z.eqb_eq in E. inversion H; subst; auto.
  - destruct (IH H); auto.
Qed.

Lemma find_decl_none n ds : find_decl n ds = None -> forall d, In d ds -> dname d <> n.
Proof.
  induction ds as [|x r IH]; simpl; intros H d Hd; [contradiction|].
  destruct Hd as [Hd|Hd]; subst.
  - destruct (n =? dname d) eqn:E; try discriminate. apply Z.eqb_neq in E; auto.
  - destruct (n =? dname x); try discriminate. auto.
Qed.

Lemma find_decl_nodup ds d :
  nodup_names (map dname ds) = true -> In d ds -> find_decl (dname d) ds = Some d.
Proof.
  induction ds as [|x r IH]; simpl; intros N H; try contradiction.
  apply andb_true_iff in N as [N1 N2].
  destruct H as [H|H].
  - subst. rewrite Z.eqb_refl; auto.
  - destruct (dname d =? dname x) eqn:E.
    + apply Z.eqb_eq in E. apply negb_true_iff in N1.
      assert (zmem (dname x) (map dname r) = true) as C.
      { apply zmem_In. rewrite <- E. apply in_map; auto. }
      congruence.
    + auto.
Qed.

(* ------------------------------------------------------------------ the old-declaration map *)
Lemma aget_by_identifier cls ds : forall m k,
  nodup_names (map dname ds) = true ->
  aget (by_identifier cls ds m) k =
    match find_decl k ds with
    | Some d => if cls (dk d) then Some d else aget m k
    | None => aget m k
    end.
Proof.
  unfold by_identifier.
  induction ds as [|d r IH]; intros m k N; simpl; auto.
  simpl in N. apply andb_true_iff in N as [N1 N2].
  rewrite IH by auto.
  destruct (k =? dname d) eqn:E.
  - apply Z.eqb_eq in E; subst.
    assert (find_decl (dname d) r = None) as Hn.
    { destruct (find_decl (dname d) r) eqn:F; auto.
      apply find_decl_name in F as [F1 F2].
      apply negb_true_iff in N1.
      assert (zmem (dname d) (map dname r) = true) as C.
      { apply zmem_In. rewrite <- F1. apply in_map; auto. }
      congruence. }
    rewrite Hn. destruct (cls (dk d)); auto. rewrite aget_aset, Z.eqb_refl; auto.
  - destruct (find_decl k r) as [d'|] eqn:F.
    + destruct (cls (dk d')); auto. destruct (cls (dk d)); auto. rewrite aget_aset, E; auto.
    + destruct (cls (dk d)); auto. rewrite aget_aset, E; auto.
Qed.

Definition class3 (k : dkind) : bool := is_composite k || is_attachment k || is_iface k.

Lemma aget_nested_nominal d k :
  nodup_names (map dname (dnested d)) = true ->
  aget (nested_nominal_decls d) k =
    match find_decl k (dnested d) with
    | Some x => if class3 (dk x) then Some x else None
    | None => None
    end.
Proof.
  intros N. unfold nested_nominal_decls.
  rewrite !aget_by_identifier by auto.
  destruct (find_decl k (dnested d)) as [x|]; simpl; auto.
  unfold class3. destruct (dk x); simpl; auto.
Qed.

(* ------------------------------------------------------------------ the nested loops *)
Lemma nested_loop_spec rec removed cls : forall news m,
  nodup_names (map dname news) = true ->
  fst (nested_loop rec removed cls m news) = [] ->
  (forall x, In x news -> cls (dk x) = true ->
     zmem (dname x) removed = false /\
     forall ox, aget m (dname x) = Some ox -> rec ox x = [])
  /\ (forall k, aget (snd (nested_loop rec removed cls m news)) k =
                if existsb (fun x => cls (dk x) && (dname x =? k)) news then None else aget m k).
Proof.
  induction news as [|x r IH]; intros m N E; simpl in *.
  - split; [intros ? []|auto].
  - apply andb_true_iff in N as [N1 N2]. apply negb_true_iff in N1.
    assert (forall y, In y r -> dname y <> dname x) as Hne.
    { intros y Hy C. assert (zmem (dname x) (map dname r) = true); [|congruence].
      apply zmem_In. rewrite <- C. apply in_map; auto. }
    destruct (cls (dk x)) eqn:Cx; simpl.
    + destruct (aget m (dname x)) as [ox|] eqn:G; simpl in E.
      * apply app_eq_nil in E as [E1 E]. apply app_eq_nil in E as [E2 E3].
        destruct (IH (adel m (dname x)) N2 E3) as [IH1 IH2].
        split.
        -- intros y [Hy|Hy] Cy.
           ++ subst y. split.
              ** destruct (zmem (dname x) removed); auto; discriminate.
              ** intros ox' G'. rewrite G in G'. inversion G'; subst; auto.
           ++ destruct (IH1 y Hy Cy) as [A B]. split; auto.
              intros ox' G'. apply B. rewrite aget_adel.
              destruct (dname y =? dname x) eqn:Eq; auto.
              apply Z.eqb_eq in Eq. exfalso; eapply Hne; eauto.
        -- intros k. rewrite IH2, aget_adel. rewrite Z.eqb_sym.
           destruct (dname x =? k) eqn:Ek; simpl; auto.
           destruct (existsb _ r); auto.
      * apply app_eq_nil in E as [E1 E3].
        destruct (IH m N2 E3) as [IH1 IH2].
        split.
        -- intros y [Hy|Hy] Cy.
           ++ subst y. split.
              ** destruct (zmem (dname x) removed); auto; discriminate.
              ** intros ox' G'. congruence.
           ++ apply IH1; auto.
        -- intros k. rewrite IH2.
           destruct (dname x =? k) eqn:Ek; simpl; auto.
           apply Z.eqb_eq in Ek; subst k.
           destruct (existsb _ r); auto.
    + destruct (IH m N2 E) as [IH1 IH2]. split.
      * intros y [Hy|Hy] Cy; [subst; congruence | apply IH1; auto].
      * intros k. rewrite IH2. auto.
Qed.

(* sorting keeps the elements *)
Lemma insert_by_name_In d l x : In x (insert_by_name d l) <-> x = d \/ In x l.
Proof.
  induction l as [|y r IH]; simpl.
  - intuition.
  - destruct (dname d <=? dname y); simpl.
    + intuition.
    + rewrite IH. intuition.
Qed.
Lemma sort_by_name_In l x : In x (sort_by_name l) <-> In x l.
Proof.
  induction l as [|y r IH]; simpl; [tauto|].
  rewrite insert_by_name_In, IH. intuition.
Qed.

Lemma flat_map_nil {A B} (f : A -> list B) l : flat_map f l = [] -> forall x, In x l -> f x = [].
Proof.
  induction l as [|y r IH]; simpl; intros E x H; [contradiction|].
  apply app_eq_nil in E as [E1 E2]. destruct H; subst; auto.
Qed.

(* ------------------------------------------------------------------ one step of check_decl *)
Lemma check_decl_unfold e old new :
  check_decl e old new =
  if negb (dkind_eqb (dk old) (dk new)) then [EKindChange (dname old)]
  else
    let e_name := if dname old =? dname new then [] else [ENameMismatch (dname old) (dname new)] in
    let e_fields := check_fields e old new in
    let old_removed := collect_removed (dprs old) [] in
    let removed := collect_removed (dprs new) [] in
    let e_prag := pragma_errors (dprs new) in
    let e_pragrem := flat_map (fun r => if zmem r removed then [] else [EPragmaRemoved r]) old_removed in
    let m0 := nested_nominal_decls old in
    let news := dnested new in
    let r1 := nested_loop (fun o n => check_decl e o n) removed is_composite m0 news in
    let r2 := nested_loop (fun o n => check_decl e o n) removed is_attachment (snd r1) news in
    let r3 := nested_loop (fun o n => check_decl e o n) removed is_iface (snd r2) news in
    let e_missing := missing_errors removed (sort_by_name (map snd (snd r3))) in
    let e_enum := check_enum_cases old new in
    let e_conf := if is_composite (dk new) && is_composite (dk old) then check_conformance e old new else [] in
    let e_base := if is_attachment (dk old) && is_attachment (dk new) then
                    match dbase old, dbase new with
                    | Some bo, Some bn => if check_name_equality e bo bn then [] else [EBaseMismatch]
                    | _, _ => []
                    end
                  else [] in
    e_name ++ e_fields ++ e_prag ++ e_pragrem ++ fst r1 ++ fst r2 ++ fst r3 ++ e_missing ++ e_enum
    ++ e_conf ++ e_base.
Proof. destruct new; reflexivity. Qed.

Record checked (e : cmp_env) (old new : decl) : Prop := {
  ck_kind : dk old = dk new;
  ck_name : dname old = dname new;
  ck_fields : check_fields e old new = [];
  ck_enum : check_enum_cases old new = [];
  ck_conf : is_composite (dk new) = true -> check_conformance e old new = [];
  ck_nested : nodup_names (map dname (dnested old)) = true ->
              nodup_names (map dname (dnested new)) = true ->
              forall n d0, find_decl n (dnested old) = Some d0 -> class3 (dk d0) = true ->
                (is_iface (dk d0) = true \/ zmem n (collect_removed (dprs new) []) = false) ->
                exists d1, find_decl n (dnested new) = Some d1 /\ check_decl e d0 d1 = []
}.

Lemma class3_cases k : class3 k = true ->
  (is_composite k = true /\ is_attachment k = false /\ is_iface k = false) \/
  (is_composite k = false /\ is_attachment k = true /\ is_iface k = false) \/
  (is_composite k = false /\ is_attachment k = false /\ is_iface k = true).
Proof. destruct k; simpl; intros; try discriminate; auto. Qed.

Lemma existsb_false_forall {A} (f : A -> bool) l : existsb f l = false -> forall x, In x l -> f x = false.
Proof.
  induction l; simpl; intros E x H; [contradiction|].
  apply orb_false_iff in E as [E1 E2]. destruct H; subst; auto.
Qed.

Lemma check_decl_nil e old new : check_decl e old new = [] -> checked e old new.
Proof.
  rewrite check_decl_unfold.
  destruct (dkind_eqb (dk old) (dk new)) eqn:K; simpl; [|discriminate].
  intros E.
  apply app_eq_nil in E as [Hname E]. apply app_eq_nil in E as [Hf E].
  apply app_eq_nil in E as [Hprag E]. apply app_eq_nil in E as [Hpragrem E].
  apply app_eq_nil in E as [H1 E]. apply app_eq_nil in E as [H2 E]. apply app_eq_nil in E as [H3 E].
  apply app_eq_nil in E as [Hmiss E]. apply app_eq_nil in E as [Hen E].
  apply app_eq_nil in E as [Hconf Ebase].
  apply dkind_eqb_eq in K.
  constructor; auto.
  - destruct (dname old =? dname new) eqn:N; [apply Z.eqb_eq in N; auto | discriminate].
  - intros C. rewrite C, <- K, C in *. simpl in *. auto.
  - intros No Nn n d0 Fd C3 Hrem.
    set (rec := fun o n0 => check_decl e o n0) in *.
    set (removed := collect_removed (dprs new) []) in *.
    set (m0 := nested_nominal_decls old) in *.
    set (r1 := nested_loop rec removed is_composite m0 (dnested new)) in *.
    set (r2 := nested_loop rec removed is_attachment (snd r1) (dnested new)) in *.
    set (r3 := nested_loop rec removed is_iface (snd r2) (dnested new)) in *.
    destruct (nested_loop_spec rec removed is_composite (dnested new) m0 Nn H1) as [A1 B1].
    destruct (nested_loop_spec rec removed is_attachment (dnested new) (snd r1) Nn H2) as [A2 B2].
    destruct (nested_loop_spec rec removed is_iface (dnested new) (snd r2) Nn H3) as [A3 B3].
    fold r1 in B1. fold r2 in B2. fold r3 in B3.
    assert (aget m0 n = Some d0) as G0.
    { unfold m0. rewrite aget_nested_nominal by auto. rewrite Fd, C3. auto. }
    apply find_decl_name in Fd as Fd'. destruct Fd' as [Dn _].
    (* is there a new declaration of one of the three classes with this name? *)
    destruct (existsb (fun x => class3 (dk x) && (dname x =? n)) (dnested new)) eqn:Ex.
    + apply existsb_exists in Ex as [x [Hx Cx]].
      apply andb_true_iff in Cx as [Cx Nx]. apply Z.eqb_eq in Nx.
      exists x. split.
      * rewrite <- Nx. apply find_decl_nodup; auto.
      * (* no other new declaration has this name *)
        assert (forall cls, (forall y, In y (dnested new) -> dname y = n -> cls (dk y) = false) ->
                 existsb (fun x0 => cls (dk x0) && (dname x0 =? n)) (dnested new) = false) as NoEx.
        { intros cls Hc. destruct (existsb (fun x0 => cls (dk x0) && (dname x0 =? n)) (dnested new)) eqn:X; auto.
          apply existsb_exists in X as [y [Hy Cy]]. apply andb_true_iff in Cy as [Cy Ny].
          apply Z.eqb_eq in Ny. rewrite (Hc y Hy Ny) in Cy. discriminate. }
        assert (forall y, In y (dnested new) -> dname y = n -> y = x) as Uniq.
        { intros y Hy Ny.
          assert (find_decl (dname y) (dnested new) = Some y) by (apply find_decl_nodup; auto).
          assert (find_decl (dname x) (dnested new) = Some x) by (apply find_decl_nodup; auto).
          congruence. }
        destruct (class3_cases _ Cx) as [[Ca [Cb Cc]]|[[Ca [Cb Cc]]|[Ca [Cb Cc]]]].
        -- destruct (A1 x Hx Ca) as [_ R]. apply R. rewrite Nx; auto.
        -- destruct (A2 x Hx Cb) as [_ R]. apply R. rewrite Nx, B1, NoEx; auto.
           intros y Hy Ny. rewrite (Uniq y Hy Ny); auto.
        -- destruct (A3 x Hx Cc) as [_ R]. apply R. rewrite Nx, B2, NoEx, B1, NoEx; auto.
           ++ intros y Hy Ny. rewrite (Uniq y Hy Ny); auto.
           ++ intros y Hy Ny. rewrite (Uniq y Hy Ny); auto.
    + (* the old declaration is left over: it must be covered by a pragma *)
      exfalso.
      assert (forall cls, (forall k, cls k = true -> class3 k = true) ->
                existsb (fun x0 => cls (dk x0) && (dname x0 =? n)) (dnested new) = false) as NoEx.
      { intros cls Hc. destruct (existsb (fun x0 => cls (dk x0) && (dname x0 =? n)) (dnested new)) eqn:X; auto.
        apply existsb_exists in X as [y [Hy Cy]]. apply andb_true_iff in Cy as [Cy Ny].
        pose proof (existsb_false_forall _ _ Ex y Hy) as Q. simpl in Q.
        rewrite (Hc _ Cy), Ny in Q. discriminate. }
      assert (aget (snd r3) n = Some d0) as G3.
      { rewrite B3, NoEx, B2, NoEx, B1, NoEx; auto; intros k Hk; unfold class3; rewrite Hk; auto.
        - rewrite orb_true_r; auto.
        - rewrite orb_true_r; auto. }
      apply aget_In in G3.
      assert (In d0 (sort_by_name (map snd (snd r3)))) as Hin.
      { apply sort_by_name_In. change d0 with (snd (n, d0)). apply in_map; auto. }
      pose proof (flat_map_nil _ _ Hmiss d0 Hin) as Q. simpl in Q.
      rewrite Dn in Q.
      destruct Hrem as [Hi|Hr].
      * rewrite Hi in Q. rewrite andb_false_r in Q. discriminate.
      * fold removed in Hr. rewrite Hr in Q. simpl in Q. discriminate.
Qed.

(* ------------------------------------------------------------------ induction principles *)
Section ty_ind'.
  Variable P : ty -> Prop.
  Hypothesis HNom : forall n, P (TNom n).
  Hypothesis HOpt : forall t, P t -> P (TOpt t).
  Hypothesis HVar : forall t, P t -> P (TVar t).
  Hypothesis HConst : forall t s b, P t -> P (TConst t s b).
  Hypothesis HDict : forall k v, P k -> P v -> P (TDict k v).
  Hypothesis HRef : forall a t, P t -> P (TRef a t).
  Hypothesis HInter : forall l, P (TInter l).
  Hypothesis HFun : forall p ps r, Forall P ps -> P r -> P (TFun p ps r).
  Hypothesis HInst : forall t args, P t -> Forall P args -> P (TInst t args).
  Fixpoint ty_ind' (t : ty) : P t :=
    match t with
    | TNom n => HNom n
    | TOpt x => HOpt x (ty_ind' x)
    | TVar x => HVar x (ty_ind' x)
    | TConst x s b => HConst x s b (ty_ind' x)
    | TDict k v => HDict k v (ty_ind' k) (ty_ind' v)
    | TRef a x => HRef a x (ty_ind' x)
    | TInter l => HInter l
    | TFun p ps r =>
        HFun p ps r
          ((fix go (l : list ty) : Forall P l :=
              match l with [] => Forall_nil _ | x :: xs => Forall_cons x (ty_ind' x) (go xs) end) ps)
          (ty_ind' r)
    | TInst c args =>
        HInst c args (ty_ind' c)
          ((fix go (l : list ty) : Forall P l :=
              match l with [] => Forall_nil _ | x :: xs => Forall_cons x (ty_ind' x) (go xs) end) args)
    end.
End ty_ind'.

Section value_ind'.
  Variable P : value -> Prop.
  Hypothesis HPrim : forall b, P (VPrim b).
  Hypothesis HNil : P VNil.
  Hypothesis HSome : forall v, P v -> P (VSome v).
  Hypothesis HArr : forall l, Forall P l -> P (VArr l).
  Hypothesis HDict : forall ks vs, Forall P ks -> Forall P vs -> P (VDict ks vs).
  Hypothesis HComp : forall q fns fvs, Forall P fvs -> P (VComp q fns fvs).
  Hypothesis HEnum : forall q r, P (VEnum q r).
  Hypothesis HExt : forall l p, P (VExt l p).
  Hypothesis HCap : forall s, P (VCap s).
  Hypothesis HType : forall s, P (VType s).
  Fixpoint value_ind' (v : value) : P v :=
    let go := fix go (l : list value) : Forall P l :=
                match l with [] => Forall_nil _ | x :: xs => Forall_cons x (value_ind' x) (go xs) end in
    match v with
    | VPrim b => HPrim b
    | VNil => HNil
    | VSome x => HSome x (value_ind' x)
    | VArr l => HArr l (go l)
    | VDict ks vs => HDict ks vs (go ks) (go vs)
    | VComp q fns fvs => HComp q fns fvs (go fvs)
    | VEnum q r => HEnum q r
    | VExt l p => HExt l p
    | VCap s => HCap s
    | VType s => HType s
    end.
End value_ind'.

(* ------------------------------------------------------------------ ty_eq on instantiations *)
Definition tys_eq (e : cmp_env) : list ty -> list ty -> bool :=
  fix go (a b : list ty) : bool :=
    match a, b with
    | [], _ => true
    | x :: xs, y :: ys => ty_eq e x y && go xs ys
    | _ :: _, [] => false
    end.

Lemma ty_eq_inst e t args t' args' :
  ty_eq e (TInst t args) (TInst t' args') =
  if negb (ty_eq e t t') then false
  else if negb (Z.of_nat (length args) =? Z.of_nat (length args')) then false
  else tys_eq e args args'.
Proof. reflexivity. Qed.

Lemma ty_eq_inst_true e t args t' args' :
  ty_eq e (TInst t args) (TInst t' args') = true ->
  ty_eq e t t' = true /\ length args = length args' /\ tys_eq e args args' = true.
Proof.
  rewrite ty_eq_inst.
  destruct (ty_eq e t t'); [|simpl; discriminate].
  destruct (Z.of_nat (length args) =? Z.of_nat (length args')) eqn:L; [|simpl; discriminate].
  simpl. intros H. apply Z.eqb_eq in L. apply Nat2Z.inj in L. auto.
Qed.

Lemma ty_eq_inst_single e c b t' args' :
  ty_eq e (TInst c [b]) (TInst t' args') = true ->
  exists b', args' = [b'] /\ ty_eq e c t' = true /\ ty_eq e b b' = true.
Proof.
  intros H. apply ty_eq_inst_true in H as [H1 [H2 H3]].
  destruct args' as [|b' [|x r]]; simpl in H2; try discriminate.
  exists b'. simpl in H3. apply andb_true_iff in H3 as [H3 _]. auto.
Qed.

(* ------------------------------------------------------------------ facts from wf_scope *)
Lemma forallb_In {A} (f : A -> bool) l : forallb f l = true -> forall x, In x l -> f x = true.
Proof. intros H x Hx. rewrite forallb_forall in H. auto. Qed.

Record wf_facts (acct : acct_names) (P : program) : Prop := {
  wf_flat : forall d, In d (locals P) -> dnested d = [];
  wf_nodup : nodup_names (map dname (locals P)) = true;
  wf_local : forall d, In d (locals P) ->
      is_builtin (dname d) = false /\ aget (imap acct P) (dname d) = None /\ dname d <> rootn P;
  wf_root_nb : is_builtin (rootn P) = false;
  wf_root_ni : aget (imap acct P) (rootn P) = None;
  wf_types : forall d, d = p_root P \/ In d (locals P) -> decl_types_ok acct P d = true
}.

Lemma wf_scope_facts acct P : wf_scope acct P = true -> wf_facts acct P.
Proof.
  unfold wf_scope. intros H.
  repeat (apply andb_true_iff in H as [H ?]).
  constructor; auto.
  - intros d Hd. pose proof (forallb_In _ _ H d Hd) as Q. cbv beta in Q. destruct (dnested d); auto; discriminate.
  - intros d Hd. match goal with X : forallb (fun d => negb (is_builtin _) && _ && _) _ = true |- _ =>
      pose proof (forallb_In _ _ X d Hd) as Q; cbv beta in Q end.
    apply andb_true_iff in Q as [Q Q3]. apply andb_true_iff in Q as [Q1 Q2].
    apply negb_true_iff in Q1, Q2, Q3. repeat split; auto.
    + destruct (aget (imap acct P) (dname d)); auto; discriminate.
    + apply Z.eqb_neq; auto.
  - apply negb_true_iff; auto.
  - match goal with X : negb (is_some (aget _ (rootn P))) = true |- _ => apply negb_true_iff in X;
      destruct (aget (imap acct P) (rootn P)); auto; discriminate end.
  - intros d Hd. match goal with X : forallb (decl_types_ok acct P) _ = true |- _ =>
      apply (forallb_In _ _ X) end. simpl. destruct Hd; auto.
Qed.

Lemma find_decl_wf acct P id d :
  wf_facts acct P -> find_decl id (locals P) = Some d ->
  is_builtin id = false /\ aget (imap acct P) id = None /\ id <> rootn P.
Proof.
  intros W F. apply find_decl_name in F as [F1 F2]. subst id. apply (wf_local _ _ W); auto.
Qed.

(* ------------------------------------------------------------------ an accepted update *)
Section Update.
  Variable acct : acct_names.
  Variable xc : ext_confs.
  Variables old new : program.
  Hypothesis Hv : validate acct old new = [].
  Hypothesis Wo' : wf_scope acct old = true.
  Hypothesis Wn' : wf_scope acct new = true.

  Let e := cmp_of acct old new.
  Let Wo := wf_scope_facts _ _ Wo'.
  Let Wn := wf_scope_facts _ _ Wn'.

  Lemma root_checked : checked e (p_root old) (p_root new).
  Proof. apply check_decl_nil. exact Hv. Qed.

  Lemma rootn_eq : rootn old = rootn new.
  Proof. apply (ck_name _ _ _ root_checked). Qed.

  (* a declaration of the old program that no pragma covers has a checked counterpart *)
  Lemma kept_pair q d0 :
    find_local old q = Some d0 -> class3 (dk d0) = true ->
    (forall r n, q = [r; n] -> is_iface (dk d0) = true \/ zmem n (removed_names new) = false) ->
    exists d1, find_local new q = Some d1 /\ checked e d0 d1.
  Proof.
    intros F C R. destruct q as [|r [|n [|? ?]]]; simpl in F; try discriminate.
    - destruct (r =? rootn old) eqn:E; try discriminate. inversion F; subst d0.
      exists (p_root new). simpl. rewrite <- rootn_eq, E. split; auto. apply root_checked.
    - destruct (r =? rootn old) eqn:E; try discriminate.
      destruct (ck_nested _ _ _ root_checked (wf_nodup _ _ Wo) (wf_nodup _ _ Wn) n d0 F C (R r n eq_refl))
        as [d1 [F1 K1]].
      exists d1. simpl. rewrite <- rootn_eq, E. split; auto. apply check_decl_nil; auto.
  Qed.

  (* ---------------------------------------------------------------- nominal types *)
  Lemma resolve_local_exists P n q :
    resolve acct P n = Some (TLocal q) -> is_some (find_local P q) = true.
  Proof.
    unfold resolve. destruct n as [id ns]; simpl.
    destruct ns as [|n1 rest].
    - destruct (id =? rootn P) eqn:E.
      + intros H; inversion H; subst. simpl. rewrite E. auto.
      + destruct (find_decl id (locals P)) eqn:F.
        * intros H; inversion H; subst. simpl. rewrite Z.eqb_refl, F. auto.
        * destruct (aget (imap acct P) id); [discriminate|]. destruct (is_builtin id); discriminate.
    - destruct (id =? rootn P) eqn:E.
      + destruct rest; [|discriminate]. destruct (find_decl n1 (locals P)) eqn:F; [|discriminate].
        intros H; inversion H; subst. simpl. rewrite E, F. auto.
      + destruct (find_decl id (locals P)); [discriminate|].
        destruct (aget (imap acct P) id); discriminate.
  Qed.

  Hypothesis G4 : no_import_capture acct old new = true.

  Lemma new_local_not_old_import id d :
    find_decl id (locals new) = Some d -> aget (imap acct old) id = None.
  Proof.
    intros F. apply find_decl_name in F as [F1 F2]. subst id.
    pose proof (forallb_In _ _ G4 d F2) as Q. cbv beta in Q. apply negb_true_iff in Q.
    destruct (aget (imap acct old) (dname d)); auto; discriminate.
  Qed.

  Lemma name_eq_resolve n n' t t' :
    check_name_equality e n n' = true ->
    resolve acct old n = Some t -> resolve acct new n' = Some t' ->
    (forall q, t = TLocal q -> is_some (find_local new q) = true) ->
    t = t'.
  Proof.
    destruct n as [id ns], n' as [id' ns'].
    unfold check_name_equality, check_identifier_equality, is_qualified, resolve; simpl.
    pose proof rootn_eq as RE.
    destruct ns as [|n1 rest], ns' as [|n1' rest']; simpl.
    - (* both simple *)
      destruct (id =? id') eqn:E1; simpl; [|discriminate]. apply Z.eqb_eq in E1; subst id'.
      destruct (oloc_eqb (aget (imap acct old) id) (aget (imap acct new) id)) eqn:E2; simpl; [|discriminate].
      apply oloc_eqb_eq in E2. intros _.
      rewrite RE. destruct (id =? rootn new) eqn:E3.
      + intros A B _. congruence.
      + destruct (find_decl id (locals old)) eqn:Fo.
        * intros A B K. inversion A; subst t.
          pose proof (K _ eq_refl) as K'. simpl in K'. rewrite Z.eqb_refl in K'.
          destruct (find_decl id (locals new)) eqn:Fn; [|discriminate]. congruence.
        * destruct (find_decl id (locals new)) eqn:Fn.
          -- destruct (find_decl_wf _ _ _ _ Wn Fn) as [B1 [B2 B3]].
             rewrite E2, B2, B1. discriminate.
          -- rewrite E2. intros A B _. congruence.
    - (* expected simple, found qualified *)
      destruct (id' =? rootn new) eqn:E1; simpl; [|discriminate].
      destruct (n1' =? id) eqn:E2; simpl; [|discriminate].
      apply Z.eqb_eq in E2; subst n1'.
      intros E3. apply identifiers_equal_eq in E3. subst rest'.
      destruct (find_decl id (locals new)) eqn:Fn; [|discriminate].
      destruct (find_decl_wf _ _ _ _ Wn Fn) as [B1 [B2 B3]].
      apply Z.eqb_eq in E1; subst id'.
      rewrite RE. assert (id =? rootn new = false) as E4 by (apply Z.eqb_neq; auto). rewrite E4.
      destruct (find_decl id (locals old)) eqn:Fo.
      + intros A B _. congruence.
      + rewrite (new_local_not_old_import _ _ Fn), B1. discriminate.
    - (* expected qualified, found simple *)
      destruct (id =? rootn new) eqn:E1; simpl; [|discriminate].
      destruct (n1 =? id') eqn:E2; simpl; [|discriminate].
      apply Z.eqb_eq in E2; subst n1.
      intros E3. apply identifiers_equal_eq in E3. subst rest.
      rewrite RE, E1.
      destruct (find_decl id' (locals old)) eqn:Fo; [|discriminate].
      intros A B K. inversion A; subst t.
      pose proof (K _ eq_refl) as K'. simpl in K'. rewrite E1 in K'.
      destruct (find_decl id' (locals new)) eqn:Fn; [|discriminate].
      destruct (find_decl_wf _ _ _ _ Wn Fn) as [B1 [B2 B3]].
      assert (id' =? rootn new = false) as E4 by (apply Z.eqb_neq; auto). rewrite E4 in B.
      apply Z.eqb_eq in E1. congruence.
    - (* both qualified *)
      destruct (id =? id') eqn:E1; simpl; [|discriminate]. apply Z.eqb_eq in E1; subst id'.
      destruct (oloc_eqb (aget (imap acct old) id) (aget (imap acct new) id)) eqn:E2; simpl; [|discriminate].
      apply oloc_eqb_eq in E2.
      intros E3. apply identifiers_equal_eq in E3. inversion E3; subst n1' rest'.
      rewrite RE. destruct (id =? rootn new) eqn:E4.
      + destruct rest; [|discriminate].
        destruct (find_decl n1 (locals old)); [|discriminate].
        destruct (find_decl n1 (locals new)); [|discriminate]. intros; congruence.
      + destruct (find_decl id (locals old)); [discriminate|].
        destruct (find_decl id (locals new)); [discriminate|].
        rewrite E2. intros; congruence.
  Qed.
  Hypothesis G2 : iface_confs_kept acct old new = true.
  Hypothesis G3 : ents_kept old new = true.

  Definition not_removed (q : list name) : Prop :=
    forall r n, q = [r; n] -> zmem n (removed_names new) = false.

  Lemma kind_cases k : class3 k = true \/ is_ent k = true.
  Proof. destruct k; simpl; auto. Qed.

  Lemma local_kept q d0 :
    find_local old q = Some d0 -> not_removed q -> is_some (find_local new q) = true.
  Proof.
    intros F R. destruct (kind_cases (dk d0)) as [C|C].
    - destruct (kept_pair q d0 F C) as [d1 [F1 _]].
      + intros r n Hq. right. eapply R; eauto.
      + rewrite F1; auto.
    - destruct q as [|r [|n [|? ?]]]; simpl in F; try discriminate.
      + destruct (r =? rootn old) eqn:E; try discriminate.
        simpl. rewrite <- rootn_eq, E. auto.
      + destruct (r =? rootn old) eqn:E; try discriminate.
        apply find_decl_name in F as F'. destruct F' as [Dn Hin].
        pose proof (forallb_In _ _ G3 d0 Hin) as Q. cbv beta in Q. rewrite C, Dn in Q.
        simpl. rewrite <- rootn_eq, E. auto.
  Qed.

  (* ---------------------------------------------------------------- conformances *)
  Lemma take_match_some oc : forall news news',
    take_match e oc news = Some news' ->
    (exists nc, In nc news /\ check_name_equality e oc nc = true) /\ (forall x, In x news' -> In x news).
  Proof.
    induction news as [|nc r IH]; simpl; intros news' H; [discriminate|].
    destruct (check_name_equality e oc nc) eqn:E.
    - inversion H; subst. split; [exists nc; auto | auto].
    - destruct (take_match e oc r) eqn:T; [|discriminate]. inversion H; subst.
      destruct (IH _ eq_refl) as [[x [Hx Ex]] Hs]. split.
      + exists x; auto.
      + intros y [Hy|Hy]; auto.
  Qed.

  Lemma conformance_loop_nil nm : forall olds news,
    conformance_loop e nm olds news = [] ->
    forall oc, In oc olds -> exists nc, In nc news /\ check_name_equality e oc nc = true.
  Proof.
    induction olds as [|o r IH]; simpl; intros news H oc Hin; [contradiction|].
    destruct (take_match e o news) as [news'|] eqn:T; [|discriminate].
    destruct (take_match_some _ _ _ T) as [[nc [Hn En]] Hs].
    destruct Hin as [Hin|Hin].
    - subst. exists nc; auto.
    - destruct (IH _ H oc Hin) as [x [Hx Ex]]. exists x; auto.
  Qed.

  Lemma resolve_some_In P l j :
    In j (resolve_some acct P l) <-> exists c, In c l /\ resolve acct P c = Some j.
  Proof.
    induction l as [|c r IH]; simpl.
    - split; [contradiction | intros [c [[] _]]].
    - destruct (resolve acct P c) eqn:R; simpl; rewrite IH.
      + split.
        * intros [H|[x [Hx Rx]]]; [exists c; subst; auto | exists x; auto].
        * intros [x [[Hx|Hx] Rx]]; [subst; left; congruence | right; exists x; auto].
      + split.
        * intros [x [Hx Rx]]; exists x; auto.
        * intros [x [[Hx|Hx] Rx]]; [subst; congruence | exists x; auto].
  Qed.

  Lemma iface_kept q k :
    kind_of old q = Some k -> is_iface k = true -> is_some (find_local new q) = true.
  Proof.
    unfold kind_of. destruct (find_local old q) as [d0|] eqn:F; [|discriminate].
    intros H I. inversion H; subst k.
    destruct (kept_pair q d0 F) as [d1 [F1 _]].
    - unfold class3. rewrite I. rewrite orb_true_r. auto.
    - intros; auto.
    - rewrite F1; auto.
  Qed.

  Lemma conf_ok_local P c q :
    conf_ok acct P c = true -> resolve acct P c = Some (TLocal q) ->
    exists k, kind_of P q = Some k /\ is_iface k = true.
  Proof.
    unfold conf_ok. intros H R. rewrite R in H.
    destruct (kind_of P q) as [k|]; [|discriminate]. exists k; auto.
  Qed.

  Lemma conf_subset d0 d1 :
    check_conformance e d0 d1 = [] ->
    (forall c, In c (dconfs d0) -> conf_ok acct old c = true) ->
    (forall c, In c (dconfs d1) -> conf_ok acct new c = true) ->
    incl (resolve_some acct old (dconfs d0)) (resolve_some acct new (dconfs d1)).
  Proof.
    intros H Oo On j Hj.
    apply resolve_some_In in Hj as [c [Hc Rc]].
    destruct (conformance_loop_nil _ _ _ H c Hc) as [nc [Hn En]].
    pose proof (On nc Hn) as Q. unfold conf_ok in Q.
    destruct (resolve acct new nc) as [j'|] eqn:Rn; [|discriminate].
    assert (j = j') as ->.
    { eapply name_eq_resolve; eauto.
      intros q ->. destruct (conf_ok_local _ _ _ (Oo c Hc) Rc) as [k [K I]].
      eapply iface_kept; eauto. }
    apply resolve_some_In. exists nc; auto.
  Qed.

  Lemma decl_confs_ok P d :
    wf_facts acct P -> (d = p_root P \/ In d (locals P)) ->
    forall c, In c (dconfs d) -> conf_ok acct P c = true.
  Proof.
    intros W Hd c Hc. pose proof (wf_types _ _ W d Hd) as T. unfold decl_types_ok in T.
    apply andb_true_iff in T as [_ T]. apply (forallb_In _ _ T); auto.
  Qed.

  Lemma find_local_in P q d : find_local P q = Some d -> d = p_root P \/ In d (locals P).
  Proof.
    destruct q as [|r [|n [|? ?]]]; simpl; try discriminate.
    - destruct (r =? rootn P); [|discriminate]. intros H; inversion H; auto.
    - destruct (r =? rootn P); [|discriminate]. intros H. apply find_decl_name in H as [_ H]; auto.
  Qed.

  Lemma iface_parents_incl j : incl (iface_parents acct xc old j) (iface_parents acct xc new j).
  Proof.
    destruct j as [q|l p|b]; simpl; try apply incl_refl.
    destruct (find_local old q) as [d0|] eqn:F; [|intros x []].
    destruct (is_iface (dk d0)) eqn:I; [|intros x []].
    destruct (kept_pair q d0 F) as [d1 [F1 K1]].
    { unfold class3. rewrite I, orb_true_r; auto. }
    { intros; auto. }
    rewrite F1. rewrite <- (ck_kind _ _ _ K1), I.
    apply conf_subset.
    - (* from G2 *)
      unfold iface_confs_kept in G2. apply andb_true_iff in G2 as [Ga Gb].
      destruct q as [|r [|n [|? ?]]]; simpl in F, F1; try discriminate.
      + destruct (r =? rootn old); [|discriminate]. inversion F; subst d0.
        destruct (r =? rootn new); [|discriminate]. inversion F1; subst d1.
        rewrite I in Gb. destruct (check_conformance _ (p_root old) (p_root new)); auto; discriminate.
      + destruct (r =? rootn old); [|discriminate]. destruct (r =? rootn new); [|discriminate].
        apply find_decl_name in F as F'. destruct F' as [Dn Hin].
        pose proof (forallb_In _ _ Ga d0 Hin) as Q. cbv beta in Q. rewrite I, Dn, F1 in Q.
        destruct (check_conformance _ d0 d1); auto; discriminate.
    - apply decl_confs_ok; auto. eapply find_local_in; eauto.
    - apply decl_confs_ok; auto. eapply find_local_in; eauto.
  Qed.

  Lemma supers_mono : forall F j i, In i (supers acct xc F old j) -> In i (supers acct xc F new j).
  Proof.
    induction F as [|f IH]; simpl; intros j i H; auto.
    destruct H as [H|H]; auto. right.
    apply in_flat_map in H as [p [Hp Hi]]. apply in_flat_map.
    exists p. split; auto. apply iface_parents_incl; auto.
  Qed.

  Lemma declared_confs_incl x :
    (forall q, x = TLocal q -> not_removed q) ->
    incl (declared_confs acct xc old x) (declared_confs acct xc new x).
  Proof.
    intros R. destruct x as [q|l p|b]; simpl; try apply incl_refl.
    destruct (find_local old q) as [d0|] eqn:F; [|intros x []].
    destruct (is_composite (dk d0)) eqn:I; [|intros x []].
    destruct (kept_pair q d0 F) as [d1 [F1 K1]].
    { unfold class3. rewrite I; auto. }
    { intros r n Hq. right. eapply (R q eq_refl); eauto. }
    rewrite F1. rewrite <- (ck_kind _ _ _ K1), I.
    apply conf_subset.
    - apply (ck_conf _ _ _ K1). rewrite <- (ck_kind _ _ _ K1); auto.
    - apply decl_confs_ok; auto. eapply find_local_in; eauto.
    - apply decl_confs_ok; auto. eapply find_local_in; eauto.
  Qed.

  Lemma all_supers_mono F x i :
    (forall q, x = TLocal q -> not_removed q) ->
    In i (all_supers acct xc F old x) -> In i (all_supers acct xc F new x).
  Proof.
    intros R H. unfold all_supers in *. apply in_flat_map in H as [c [Hc Hi]].
    apply in_flat_map. exists c. split.
    - apply declared_confs_incl; auto.
    - apply supers_mono; auto.
  Qed.

  Lemma conforms_In F P x i : conforms_b acct xc F P x i = true <-> In i (all_supers acct xc F P x).
  Proof.
    unfold conforms_b. rewrite existsb_exists. split.
    - intros [y [Hy Ey]]. apply tid_eqb_eq in Ey. subst; auto.
    - intros H. exists i. split; auto. apply tid_eqb_refl.
  Qed.

  Lemma conforms_mono F x i :
    (forall q, x = TLocal q -> not_removed q) ->
    conforms_b acct xc F old x i = true -> conforms_b acct xc F new x i = true.
  Proof. intros R H. apply conforms_In. apply all_supers_mono; auto. apply conforms_In; auto. Qed.

  (* ---------------------------------------------------------------- lists of nominal types *)
  Lemma resolve_all_some P l :
    (forall n, In n l -> is_some (resolve acct P n) = true) -> exists ts, resolve_all acct P l = Some ts.
  Proof.
    induction l as [|n r IH]; simpl; intros H; [eauto|].
    destruct (resolve acct P n) eqn:R.
    - destruct IH as [ts Hts]; [intros; apply H; auto|]. rewrite Hts. eauto.
    - pose proof (H n (or_introl eq_refl)) as Q. rewrite R in Q. discriminate.
  Qed.

  Lemma noms_equal_resolve : forall l l' ts ts',
    noms_equal e l l' = true -> length l = length l' ->
    resolve_all acct old l = Some ts -> resolve_all acct new l' = Some ts' ->
    (forall q, In (TLocal q) ts -> is_some (find_local new q) = true) -> ts = ts'.
  Proof.
    induction l as [|n r IH]; intros [|n' r'] ts ts' E L Ro Rn K; simpl in *; try discriminate.
    - congruence.
    - apply andb_true_iff in E as [E1 E2].
      destruct (resolve acct old n) as [t|] eqn:R1; [|discriminate].
      destruct (resolve_all acct old r) as [tr|] eqn:R2; [|discriminate].
      destruct (resolve acct new n') as [t'|] eqn:R3; [|discriminate].
      destruct (resolve_all acct new r') as [tr'|] eqn:R4; [|discriminate].
      inversion Ro; inversion Rn; subst.
      f_equal.
      + eapply name_eq_resolve; eauto. intros q ->. apply K. left; auto.
      + eapply IH; eauto. intros q Hq. apply K. right; auto.
  Qed.

  Lemma nom_list_eq_resolve l l' ts ts' :
    nom_list_eq e l l' = true ->
    resolve_all acct old l = Some ts -> resolve_all acct new l' = Some ts' ->
    (forall q, In (TLocal q) ts -> is_some (find_local new q) = true) -> ts = ts'.
  Proof.
    unfold nom_list_eq. intros E. apply andb_true_iff in E as [E1 E2].
    apply Z.eqb_eq in E1. apply Nat2Z.inj in E1. eapply noms_equal_resolve; eauto.
  Qed.

  Lemma auth_eq_resolve a a' s s' :
    auth_eq e a a' = true ->
    resolve_auth acct old a = Some s -> resolve_auth acct new a' = Some s' ->
    (forall q, In (TLocal q) (sauth_tids s) -> is_some (find_local new q) = true) -> s = s'.
  Proof.
    destruct a, a'; simpl; intros E Ro Rn K; try discriminate.
    - congruence.
    - destruct (resolve_all acct old l) eqn:R1; [|discriminate].
      destruct (resolve_all acct new l0) eqn:R2; [|discriminate].
      simpl in *. inversion Ro; inversion Rn; subst. f_equal.
      eapply nom_list_eq_resolve; eauto.
    - destruct (resolve_all acct old l) eqn:R1; [|discriminate].
      destruct (resolve_all acct new l0) eqn:R2; [|discriminate].
      simpl in *. inversion Ro; inversion Rn; subst. f_equal.
      eapply nom_list_eq_resolve; eauto.
    - destruct (resolve acct old m) eqn:R1; [|discriminate].
      destruct (resolve acct new m0) eqn:R2; [|discriminate].
      simpl in *. inversion Ro; inversion Rn; subst. f_equal.
      eapply name_eq_resolve; eauto. intros q ->. apply K. simpl; auto.
  Qed.

  Lemma auth_resolves_new a a' :
    auth_eq e a a' = true ->
    (forall n, In n (noms_of_auth a') -> is_some (resolve acct new n) = true) ->
    exists s', resolve_auth acct new a' = Some s'.
  Proof.
    destruct a, a'; simpl; intros E H; try discriminate; eauto.
    - destruct (resolve_all_some new l0 H) as [ts R]. rewrite R. simpl; eauto.
    - destruct (resolve_all_some new l0 H) as [ts R]. rewrite R. simpl; eauto.
    - pose proof (H m0 (or_introl eq_refl)) as Q.
      destruct (resolve acct new m0); [simpl; eauto | discriminate].
  Qed.

  (* ---------------------------------------------------------------- type annotations *)
  Lemma resolve_prim_simple P n p : resolve acct P n = Some (TPrim p) -> n = (p, []).
  Proof.
    destruct n as [id ns]. unfold resolve; simpl. destruct ns as [|n1 rest].
    - destruct (id =? rootn P); [discriminate|].
      destruct (find_decl id (locals P)); [discriminate|].
      destruct (aget (imap acct P) id); [discriminate|].
      destruct (is_builtin id); [|discriminate]. intros H; inversion H; auto.
    - destruct (id =? rootn P).
      + destruct rest; [|discriminate]. destruct (find_decl n1 (locals P)); discriminate.
      + destruct (find_decl id (locals P)); [discriminate|].
        destruct (aget (imap acct P) id); discriminate.
  Qed.

  (* shape of an accepted Capability<T> instantiation *)
  Lemma cap_inst_shape id b t' args' p :
    ty_eq e (TInst (TNom (id, [])) [b]) (TInst t' args') = true ->
    resolve acct old (id, []) = Some (TPrim p) ->
    (forall n, In n (ty_noms t') -> is_some (resolve acct new n) = true) ->
    exists b', t' = TNom (id, []) /\ args' = [b'] /\ ty_eq e b b' = true
               /\ resolve acct new (id, []) = Some (TPrim p).
  Proof.
    intros E Ro N.
    destruct (ty_eq_inst_single _ _ _ _ _ E) as [b' [-> [CE E']]]. rename E' into Eb.
    destruct t' as [n'| | | | | | | |]; try (simpl in CE; discriminate).
    simpl in CE.
    pose proof (N n' (or_introl eq_refl)) as Q.
    destruct (resolve acct new n') as [t2|] eqn:Rn; [|discriminate].
    assert (TPrim p = t2) as <-.
    { eapply name_eq_resolve; eauto. intros q Hq; discriminate. }
    pose proof (resolve_prim_simple _ _ _ Rn) as ->.
    pose proof (resolve_prim_simple _ _ _ Ro) as Hid. inversion Hid; subst id.
    exists b'. auto.
  Qed.

  Lemma resolves_new : forall t t' s,
    ty_eq e t t' = true ->
    (forall n, In n (ty_noms t') -> is_some (resolve acct new n) = true) ->
    resolve_ty acct old t = Some s -> exists s', resolve_ty acct new t' = Some s'.
  Proof.
    induction t using ty_ind'; intros t' st E N R.
    - destruct t'; simpl in E; try discriminate. simpl in *.
      pose proof (N n0 (or_introl eq_refl)) as Q.
      destruct (resolve acct new n0); [simpl; eauto | discriminate].
    - destruct t'; simpl in E; try discriminate. simpl in *.
      destruct (resolve_ty acct old t) eqn:Ro; [|discriminate].
      destruct (IHt _ _ E N eq_refl) as [s' Rn]. rewrite Rn. simpl; eauto.
    - destruct t'; simpl in E; try discriminate. simpl in *.
      destruct (resolve_ty acct old t) eqn:Ro; [|discriminate].
      destruct (IHt _ _ E N eq_refl) as [s' Rn]. rewrite Rn. simpl; eauto.
    - destruct t'; simpl in E; try discriminate. simpl in *.
      destruct (negb (size =? s) || negb (base =? b)); [discriminate|].
      destruct (resolve_ty acct old t) eqn:Ro; [|discriminate].
      destruct (IHt _ _ E N eq_refl) as [s' Rn]. rewrite Rn. simpl; eauto.
    - destruct t'; simpl in E; try discriminate. simpl in *.
      destruct (ty_eq e t1 t'1) eqn:E1; [|discriminate].
      destruct (resolve_ty acct old t1) eqn:Ro1; [|discriminate].
      destruct (resolve_ty acct old t2) eqn:Ro2; [|discriminate].
      destruct (IHt1 _ _ E1 (fun n H => N n (in_or_app _ _ _ (or_introl H))) eq_refl) as [s1 Rn1].
      destruct (IHt2 _ _ E (fun n H => N n (in_or_app _ _ _ (or_intror H))) eq_refl) as [s2 Rn2].
      rewrite Rn1, Rn2. eauto.
    - destruct t'; simpl in E; try discriminate. simpl in *.
      destruct (auth_eq e a a0) eqn:E1; [|discriminate].
      destruct (resolve_auth acct old a) eqn:Ro1; [|discriminate].
      destruct (resolve_ty acct old t) eqn:Ro2; [|discriminate].
      destruct (auth_resolves_new _ _ E1 (fun n H => N n (in_or_app _ _ _ (or_introl H)))) as [a' Ra].
      destruct (IHt _ _ E (fun n H => N n (in_or_app _ _ _ (or_intror H))) eq_refl) as [s2 Rn2].
      rewrite Ra, Rn2. eauto.
    - destruct t'; simpl in E; try discriminate. simpl in *.
      destruct (resolve_all_some new l0 N) as [ts Rn]. rewrite Rn. simpl; eauto.
    - simpl in R. discriminate.
    - destruct t' as [| | | | | | | |t' args']; try (simpl in E; discriminate).
      simpl in R.
      destruct t as [[id ns]| | | | | | | |]; try discriminate.
      destruct ns; [|discriminate]. destruct args as [|b [|]]; try discriminate.
      destruct (id =? bCapability) eqn:Ic; [|discriminate].
      destruct (resolve acct old (id, [])) as [[| |p]|] eqn:Rc; try discriminate.
      destruct (resolve_ty acct old b) as [sb|] eqn:Rb; [|discriminate].
      destruct (cap_inst_shape _ _ _ _ _ E Rc) as [b' [-> [-> [Eb Rc']]]].
      { intros n Hn. apply N. simpl. apply in_or_app. left; auto. }
      inversion H as [|? ? Hb _]; subst.
      destruct (Hb b' sb Eb) as [sb' Rb']; auto.
      { intros n Hn. apply N. simpl. right. rewrite app_nil_r. auto. }
      simpl. rewrite Ic, Rc', Rb'. simpl; eauto.
  Qed.

  Lemma ty_eq_resolve : forall t t' s s',
    ty_eq e t t' = true ->
    resolve_ty acct old t = Some s -> resolve_ty acct new t' = Some s' ->
    (forall q, In (TLocal q) (sty_tids s) -> is_some (find_local new q) = true) -> s = s'.
  Proof.
    induction t using ty_ind'; intros t' st st' E Ro Rn K.
    - destruct t'; simpl in E; try discriminate. simpl in *.
      destruct (resolve acct old n) eqn:R1; [|discriminate].
      destruct (resolve acct new n0) eqn:R2; [|discriminate].
      simpl in *. inversion Ro; inversion Rn; subst. f_equal.
      eapply name_eq_resolve; eauto. intros q ->. apply K. simpl; auto.
    - destruct t'; simpl in E; try discriminate. simpl in *.
      destruct (resolve_ty acct old t) eqn:R1; [|discriminate].
      destruct (resolve_ty acct new t') eqn:R2; [|discriminate].
      simpl in *. inversion Ro; inversion Rn; subst. f_equal. eapply IHt; eauto.
    - destruct t'; simpl in E; try discriminate. simpl in *.
      destruct (resolve_ty acct old t) eqn:R1; [|discriminate].
      destruct (resolve_ty acct new t') eqn:R2; [|discriminate].
      simpl in *. inversion Ro; inversion Rn; subst. f_equal. eapply IHt; eauto.
    - destruct t'; simpl in E; try discriminate. simpl in *.
      destruct (size =? s) eqn:Es; simpl in E; [|discriminate].
      destruct (base =? b); simpl in E; [|discriminate].
      apply Z.eqb_eq in Es. subst size.
      destruct (resolve_ty acct old t) eqn:R1; [|discriminate].
      destruct (resolve_ty acct new t') eqn:R2; [|discriminate].
      simpl in *. inversion Ro; inversion Rn; subst. f_equal. eapply IHt; eauto.
    - destruct t'; simpl in E; try discriminate. simpl in *.
      destruct (ty_eq e t1 t'1) eqn:E1; [|discriminate].
      destruct (resolve_ty acct old t1) eqn:R1; [|discriminate].
      destruct (resolve_ty acct old t2) eqn:R2; [|discriminate].
      destruct (resolve_ty acct new t'1) eqn:R3; [|discriminate].
      destruct (resolve_ty acct new t'2) eqn:R4; [|discriminate].
      inversion Ro; inversion Rn; subst. simpl in K. f_equal.
      + eapply IHt1; eauto. intros q Hq. apply K. apply in_or_app; auto.
      + eapply IHt2; eauto. intros q Hq. apply K. apply in_or_app; auto.
    - destruct t'; simpl in E; try discriminate. simpl in *.
      destruct (auth_eq e a a0) eqn:E1; [|discriminate].
      destruct (resolve_auth acct old a) eqn:R1; [|discriminate].
      destruct (resolve_ty acct old t) eqn:R2; [|discriminate].
      destruct (resolve_auth acct new a0) eqn:R3; [|discriminate].
      destruct (resolve_ty acct new t') eqn:R4; [|discriminate].
      inversion Ro; inversion Rn; subst. simpl in K. f_equal.
      + eapply auth_eq_resolve; eauto. intros q Hq. apply K. apply in_or_app; auto.
      + eapply IHt; eauto. intros q Hq. apply K. apply in_or_app; auto.
    - destruct t'; simpl in E; try discriminate. simpl in *.
      destruct (resolve_all acct old l) eqn:R1; [|discriminate].
      destruct (resolve_all acct new l0) eqn:R2; [|discriminate].
      simpl in *. inversion Ro; inversion Rn; subst. f_equal.
      eapply nom_list_eq_resolve; eauto.
    - simpl in Ro. discriminate.
    - destruct t' as [| | | | | | | |t' args']; try (simpl in E; discriminate).
      simpl in Ro.
      destruct t as [[id ns]| | | | | | | |]; try discriminate.
      destruct ns; [|discriminate]. destruct args as [|b [|]]; try discriminate.
      destruct (id =? bCapability) eqn:Ic; [|discriminate].
      destruct (resolve acct old (id, [])) as [[| |p]|] eqn:Rc; try discriminate.
      destruct (resolve_ty acct old b) as [sb|] eqn:Rb; [|discriminate].
      simpl in Ro. inversion Ro; subst st.
      (* the new side resolves, so its head is a nominal type that resolves *)
      assert (exists b', t' = TNom (id, []) /\ args' = [b'] /\ ty_eq e b b' = true) as [b' [-> [-> Eb]]].
      { destruct (ty_eq_inst_single _ _ _ _ _ E) as [b' [-> [CE Eb]]].
        destruct t' as [n'| | | | | | | |]; try (simpl in CE; discriminate).
        simpl in CE. simpl in Rn. destruct n' as [id' ns']. destruct ns'; [|discriminate].
        destruct (id' =? bCapability) eqn:Ic'; [|discriminate].
        unfold check_name_equality in CE. simpl in CE.
        destruct (id =? id') eqn:Ei; simpl in CE; [|discriminate].
        apply Z.eqb_eq in Ei. subst. exists b'. auto. }
      simpl in Rn. rewrite Ic in Rn.
      destruct (resolve acct new (id, [])) as [[| |p']|]; try discriminate.
      destruct (resolve_ty acct new b') as [sb'|] eqn:Rb'; [|discriminate].
      simpl in Rn. inversion Rn; subst st'. f_equal.
      inversion H as [|? ? Hb _]; subst.
      eapply Hb; eauto.
  Qed.

  (* ---------------------------------------------------------------- static types exist *)
  Lemma resolve_all_exist P : forall l ts,
    resolve_all acct P l = Some ts ->
    forall q, In (TLocal q) ts -> is_some (find_local P q) = true.
  Proof.
    induction l as [|n r IH]; simpl; intros ts H q Hq.
    - inversion H; subst. contradiction.
    - destruct (resolve acct P n) eqn:R1; [|discriminate].
      destruct (resolve_all acct P r) eqn:R2; [|discriminate].
      inversion H; subst. destruct Hq as [Hq|Hq].
      + subst. eapply resolve_local_exists; eauto.
      + eapply IH; eauto.
  Qed.

  Lemma resolve_ty_exist P : forall t s,
    resolve_ty acct P t = Some s ->
    forall q, In (TLocal q) (sty_tids s) -> is_some (find_local P q) = true.
  Proof.
    induction t using ty_ind'; intros st R q Hq; simpl in R.
    - destruct (resolve acct P n) eqn:R1; [|discriminate]. inversion R; subst. simpl in Hq.
      destruct Hq as [Hq|[]]. subst. eapply resolve_local_exists; eauto.
    - destruct (resolve_ty acct P t) eqn:R1; [|discriminate]. inversion R; subst. eapply IHt; eauto.
    - destruct (resolve_ty acct P t) eqn:R1; [|discriminate]. inversion R; subst. eapply IHt; eauto.
    - destruct (resolve_ty acct P t) eqn:R1; [|discriminate]. inversion R; subst. eapply IHt; eauto.
    - destruct (resolve_ty acct P t1) eqn:R1; [|discriminate].
      destruct (resolve_ty acct P t2) eqn:R2; [|discriminate]. inversion R; subst.
      simpl in Hq. apply in_app_or in Hq as [Hq|Hq]; [eapply IHt1 | eapply IHt2]; eauto.
    - destruct (resolve_auth acct P a) eqn:R1; [|discriminate].
      destruct (resolve_ty acct P t) eqn:R2; [|discriminate]. inversion R; subst.
      simpl in Hq. apply in_app_or in Hq as [Hq|Hq]; [|eapply IHt; eauto].
      destruct a; simpl in R1.
      + inversion R1; subst. contradiction.
      + destruct (resolve_all acct P l) eqn:R3; [|discriminate]. inversion R1; subst.
        eapply resolve_all_exist; eauto.
      + destruct (resolve_all acct P l) eqn:R3; [|discriminate]. inversion R1; subst.
        eapply resolve_all_exist; eauto.
      + destruct (resolve acct P m) eqn:R3; [|discriminate]. inversion R1; subst.
        simpl in Hq. destruct Hq as [Hq|[]]. subst. eapply resolve_local_exists; eauto.
    - destruct (resolve_all acct P l) eqn:R1; [|discriminate]. inversion R; subst.
      eapply resolve_all_exist; eauto.
    - discriminate.
    - destruct t as [[id ns]| | | | | | | |]; try discriminate.
      destruct ns; [|discriminate]. destruct args as [|b [|]]; try discriminate.
      destruct (id =? bCapability); [|discriminate].
      destruct (resolve acct P (id, [])) as [[| |p]|]; try discriminate.
      destruct (resolve_ty acct P b) eqn:Rb; [|discriminate]. inversion R; subst.
      inversion H as [|? ? Hb _]; subst. eapply Hb; eauto.
  Qed.

  (* ---------------------------------------------------------------- values *)
  Variable F : nat.

  Definition value_ok (v : value) : Prop := forall q, In q (value_paths v) -> not_removed q.

  Lemma value_ok_in l x (g : list value -> value) :
    (forall q, In q (flat_map value_paths l) -> In q (value_paths (g l))) ->
    value_ok (g l) -> In x l -> value_ok x.
  Proof.
    intros Hg H Hx q Hq. apply H. apply Hg. apply in_flat_map. exists x; auto.
  Qed.

  Lemma value_ok_arr l x : value_ok (VArr l) -> In x l -> value_ok x.
  Proof. apply (value_ok_in l x VArr). auto. Qed.
  Lemma value_ok_keys ks vs x : value_ok (VDict ks vs) -> In x ks -> value_ok x.
  Proof. apply (value_ok_in ks x (fun l => VDict l vs)). simpl. intros; apply in_or_app; auto. Qed.
  Lemma value_ok_vals ks vs x : value_ok (VDict ks vs) -> In x vs -> value_ok x.
  Proof. apply (value_ok_in vs x (fun l => VDict ks l)). simpl. intros; apply in_or_app; auto. Qed.
  Lemma value_ok_fields q fns fvs x : value_ok (VComp q fns fvs) -> In x fvs -> value_ok x.
  Proof. apply (value_ok_in fvs x (fun l => VComp q fns l)). simpl. auto. Qed.
  Lemma value_ok_some x : value_ok (VSome x) -> value_ok x.
  Proof. intros H q Hq. apply H. auto. Qed.

  Lemma forallb_mono {A} (f g : A -> bool) (Q : A -> Prop) l :
    (forall x, In x l -> f x = true -> Q x -> g x = true) ->
    forallb f l = true -> (forall x, In x l -> Q x) -> forallb g l = true.
  Proof.
    intros H Hf HQ. apply forallb_forall. intros x Hx.
    apply H; auto. apply (forallb_In _ _ Hf); auto.
  Qed.

  Lemma kind_kept q k :
    kind_of old q = Some k -> class3 k = true -> not_removed q -> kind_of new q = Some k.
  Proof.
    unfold kind_of. destruct (find_local old q) as [d0|] eqn:Fo; [|discriminate].
    intros H C R. inversion H; subst k.
    destruct (kept_pair q d0 Fo C) as [d1 [F1 K1]].
    - intros r n Hq. right. eapply R; eauto.
    - rewrite F1. rewrite (ck_kind _ _ _ K1). auto.
  Qed.

  Lemma struct_like_mono : forall v, struct_like old v = true -> value_ok v -> struct_like new v = true.
  Proof.
    induction v as [b| |x IHx|l IHl|ks vs IHk IHv|q fns fvs IHf|q r|l p|s|s] using value_ind';
      simpl; intros Hs Ok; auto.
    - eapply (forallb_mono (struct_like old) _ value_ok); [ | eassumption | ].
      + intros x Hx. rewrite Forall_forall in IHl. apply IHl; auto.
      + intros x Hx. eapply value_ok_arr; eauto.
    - apply andb_true_iff in Hs as [H1 H2]. apply andb_true_iff. split.
      + eapply (forallb_mono (struct_like old) _ value_ok); [ | eassumption | ].
        * intros x Hx. rewrite Forall_forall in IHk. apply IHk; auto.
        * intros x Hx. eapply value_ok_keys; eauto.
      + eapply (forallb_mono (struct_like old) _ value_ok); [ | eassumption | ].
        * intros x Hx. rewrite Forall_forall in IHv. apply IHv; auto.
        * intros x Hx. eapply value_ok_vals; eauto.
    - destruct (kind_of old q) as [k|] eqn:K; [|discriminate].
      destruct k; try discriminate.
      rewrite (kind_kept q KStruct K); auto. apply Ok. simpl; auto.
  Qed.

  Lemma resource_like_mono : forall v, resource_like old v = true -> value_ok v -> resource_like new v = true.
  Proof.
    induction v as [b| |x IHx|l IHl|ks vs IHk IHv|q fns fvs IHf|q r|l p|s|s] using value_ind';
      simpl; intros Hs Ok; auto.
    - destruct (kind_of old q) as [k|] eqn:K; [|discriminate].
      destruct k; try discriminate.
      rewrite (kind_kept q KResource K); auto. apply Ok. simpl; auto.
  Qed.

  Lemma inter_preserved x :
    (forall q, x = TLocal q -> not_removed q) ->
    forall l l' ts ts',
    noms_equal e l l' = true -> length l = length l' ->
    resolve_all acct old l = Some ts -> resolve_all acct new l' = Some ts' ->
    (forall n, In n l -> conf_ok acct old n = true) ->
    forallb (conforms_b acct xc F old x) ts = true ->
    forallb (conforms_b acct xc F new x) ts' = true.
  Proof.
    intros Rx.
    induction l as [|n r IH]; intros [|n' r'] ts ts' E L Ro Rn C Hs; simpl in *; try discriminate.
    - inversion Rn; subst; auto.
    - apply andb_true_iff in E as [E1 E2].
      destruct (resolve acct old n) as [t|] eqn:R1; [|discriminate].
      destruct (resolve_all acct old r) as [tr|] eqn:R2; [|discriminate].
      destruct (resolve acct new n') as [t'|] eqn:R3; [|discriminate].
      destruct (resolve_all acct new r') as [tr'|] eqn:R4; [|discriminate].
      inversion Ro; inversion Rn; subst. simpl in *.
      apply andb_true_iff in Hs as [H1 H2]. apply andb_true_iff. split.
      + assert (t = t') as <-.
        { eapply name_eq_resolve; eauto. intros q ->.
          destruct (conf_ok_local _ _ _ (C n (or_introl eq_refl)) R1) as [k [K I]].
          eapply iface_kept; eauto. }
        apply conforms_mono; auto.
      + eapply IH; eauto.
  Qed.

  Lemma sty_paths_in s q : In (TLocal q) (sty_tids s) -> In q (sty_paths s).
  Proof.
    unfold sty_paths. intros H. apply in_flat_map. exists (TLocal q). simpl; auto.
  Qed.

  Lemma has_sty_prim P v p :
    has_sty acct xc F P v (SNom (TPrim p)) =
    if p =? bAnyStruct then struct_like P v
    else if p =? bAnyResource then resource_like P v
    else match v with
         | VPrim b => prim_sub b p
         | VCap _ => p =? bCapability
         | VType _ => p =? bType
         | _ => false
         end.
  Proof. destruct v; reflexivity. Qed.

  Lemma has_sty_local P P' v q :
    has_sty acct xc F P v (SNom (TLocal q)) = has_sty acct xc F P' v (SNom (TLocal q)).
  Proof. destruct v; reflexivity. Qed.
  Lemma has_sty_ext P P' v l p :
    has_sty acct xc F P v (SNom (TExt l p)) = has_sty acct xc F P' v (SNom (TExt l p)).
  Proof. destruct v; reflexivity. Qed.
  Lemma has_sty_cap P P' v s :
    has_sty acct xc F P v (SCap s) = has_sty acct xc F P' v (SCap s).
  Proof. destruct v; reflexivity. Qed.
  Lemma has_sty_local_path P v q :
    has_sty acct xc F P v (SNom (TLocal q)) = true ->
    exists a b, q = [a; b] /\ In q (value_paths v).
  Proof.
    destruct q as [|a [|b [|? ?]]]; destruct v; simpl; try discriminate;
      intros H; apply path_eqb_eq in H; subst; exists a, b; simpl; auto.
  Qed.

  Lemma has_sty_preserved : forall t t' v s s',
    ty_eq e t t' = true ->
    (forall n, In n (ty_inters t) -> conf_ok acct old n = true) ->
    resolve_ty acct old t = Some s -> resolve_ty acct new t' = Some s' ->
    has_sty acct xc F old v s = true -> value_ok v ->
    has_sty acct xc F new v s' = true.
  Proof.
    induction t using ty_ind'; intros t' v st st' E C Ro Rn Hs Ok.
    - (* nominal *)
      destruct t'; simpl in E; try discriminate. simpl in Ro, Rn.
      destruct (resolve acct old n) as [tid|] eqn:R1; [|discriminate].
      destruct (resolve acct new n0) as [tid'|] eqn:R2; [|discriminate].
      simpl in Ro, Rn. inversion Ro; inversion Rn; subst.
      destruct tid as [q|l p|p].
      + destruct (has_sty_local_path _ _ _ Hs) as [a [b [-> Hin]]].
        assert (TLocal [a; b] = tid') as <-.
        { eapply name_eq_resolve; eauto. intros q Hq. inversion Hq; subst.
          pose proof (resolve_local_exists _ _ _ R1) as Ex.
          destruct (find_local old [a; b]) as [d0|] eqn:Fo; [|discriminate].
          eapply local_kept; eauto. }
        rewrite (has_sty_local new old). exact Hs.
      + assert (TExt l p = tid') as <-.
        { eapply name_eq_resolve; eauto. intros q Hq; discriminate. }
        rewrite (has_sty_ext new old). exact Hs.
      + assert (TPrim p = tid') as <-.
        { eapply name_eq_resolve; eauto. intros q Hq; discriminate. }
        rewrite has_sty_prim in *.
        destruct (p =? bAnyStruct); [apply struct_like_mono; auto|].
        destruct (p =? bAnyResource); [apply resource_like_mono; auto|]. exact Hs.
    - destruct t'; simpl in E; try discriminate. simpl in Ro, Rn.
      destruct (resolve_ty acct old t) eqn:R1; [|discriminate].
      destruct (resolve_ty acct new t') eqn:R2; [|discriminate].
      simpl in Ro, Rn. inversion Ro; inversion Rn; subst. destruct v; simpl in Hs |- *; try discriminate; auto.
      all: try (eapply IHt; eauto; apply value_ok_some; auto).
    - destruct t'; simpl in E; try discriminate. simpl in Ro, Rn.
      destruct (resolve_ty acct old t) eqn:R1; [|discriminate].
      destruct (resolve_ty acct new t') eqn:R2; [|discriminate].
      simpl in Ro, Rn. inversion Ro; inversion Rn; subst. destruct v; simpl in Hs |- *; try discriminate.
      eapply (forallb_mono (fun x => has_sty acct xc F old x _) _ value_ok); [ | eassumption | ].
      + intros x Hx Hx' Okx. eapply IHt; eauto.
      + intros x Hx. eapply value_ok_arr; eauto.
    - destruct t'; simpl in E; try discriminate. simpl in Ro, Rn.
      destruct (size =? s) eqn:Es; simpl in E; [|discriminate].
      destruct (base =? b); simpl in E; [|discriminate].
      apply Z.eqb_eq in Es. subst size.
      destruct (resolve_ty acct old t) eqn:R1; [|discriminate].
      destruct (resolve_ty acct new t') eqn:R2; [|discriminate].
      simpl in Ro, Rn. inversion Ro; inversion Rn; subst. destruct v; simpl in Hs |- *; try discriminate.
      apply andb_true_iff in Hs as [H1 H2]. apply andb_true_iff. split; auto.
      eapply (forallb_mono (fun x => has_sty acct xc F old x _) _ value_ok); [ | eassumption | ].
      + intros x Hx Hx' Okx. eapply IHt; eauto.
      + intros x Hx. eapply value_ok_arr; eauto.
    - destruct t'; simpl in E; try discriminate. simpl in Ro, Rn.
      destruct (ty_eq e t1 t'1) eqn:E1; [|discriminate].
      destruct (resolve_ty acct old t1) eqn:R1; [|discriminate].
      destruct (resolve_ty acct old t2) eqn:R2; [|discriminate].
      destruct (resolve_ty acct new t'1) eqn:R3; [|discriminate].
      destruct (resolve_ty acct new t'2) eqn:R4; [|discriminate].
      inversion Ro; inversion Rn; subst. destruct v; simpl in Hs |- *; try discriminate.
      apply andb_true_iff in Hs as [H1 H2]. apply andb_true_iff. split.
      + eapply (forallb_mono (fun x => has_sty acct xc F old x _) _ value_ok); [ | eassumption | ].
        * intros x Hx Hx' Okx. eapply IHt1; eauto. intros n Hn. apply C. apply in_or_app; auto.
        * intros x Hx. eapply value_ok_keys; eauto.
      + eapply (forallb_mono (fun x => has_sty acct xc F old x _) _ value_ok); [ | eassumption | ].
        * intros x Hx Hx' Okx. eapply IHt2; eauto. intros n Hn. apply C. apply in_or_app; auto.
        * intros x Hx. eapply value_ok_vals; eauto.
    - (* reference: no stored value has a reference type *)
      simpl in Ro.
      destruct (resolve_auth acct old a); [|discriminate].
      destruct (resolve_ty acct old t); [|discriminate].
      inversion Ro; subst. destruct v; simpl in Hs; discriminate.
    - (* intersection *)
      destruct t'; simpl in E; try discriminate. simpl in Ro, Rn.
      destruct (resolve_all acct old l) eqn:R1; [|discriminate].
      destruct (resolve_all acct new l0) eqn:R2; [|discriminate].
      simpl in Ro, Rn. inversion Ro; inversion Rn; subst. simpl in *.
      unfold nom_list_eq in E. apply andb_true_iff in E as [E1 E2].
      apply Z.eqb_eq in E1. apply Nat2Z.inj in E1.
      destruct v; try discriminate.
      + eapply inter_preserved; eauto.
        intros q0 Hq. inversion Hq; subst. apply Ok. simpl; auto.
      + eapply inter_preserved; eauto. intros q0 Hq; discriminate.
    - simpl in Ro. discriminate.
    - (* Capability<T> *)
      assert (st = st') as <-.
      { eapply ty_eq_resolve; eauto. intros q Hq.
        pose proof (resolve_ty_exist _ _ _ Ro q Hq) as Ex.
        destruct (find_local old q) as [d0|] eqn:Fo; [|discriminate].
        eapply local_kept; eauto.
        (* the static type is the one carried by the value *)
        simpl in Ro.
        destruct t as [[id ns]| | | | | | | |]; try discriminate.
        destruct ns; [|discriminate]. destruct args as [|b [|]]; try discriminate.
        destruct (id =? bCapability); [|discriminate].
        destruct (resolve acct old (id, [])) as [[| |p]|]; try discriminate.
        destruct (resolve_ty acct old b) eqn:Rb; [|discriminate]. inversion Ro; subst.
        destruct v; simpl in Hs; try discriminate. apply sty_eqb_eq in Hs. subst.
        apply Ok. simpl. apply sty_paths_in. auto. }
      simpl in Ro.
      destruct t as [[id ns]| | | | | | | |]; try discriminate.
      destruct ns; [|discriminate]. destruct args as [|b [|]]; try discriminate.
      destruct (id =? bCapability); [|discriminate].
      destruct (resolve acct old (id, [])) as [[| |p]|]; try discriminate.
      destruct (resolve_ty acct old b) eqn:Rb; [|discriminate]. inversion Ro; subst.
      rewrite (has_sty_cap new old). exact Hs.
  Qed.

  (* ---------------------------------------------------------------- fields and enum cases *)
  Lemma check_fields_loop_nil nm oldf : forall newfs,
    check_fields_loop e nm oldf newfs = [] ->
    forall f t', In (f, t') newfs -> exists t, aget oldf f = Some t /\ ty_eq e t t' = true.
  Proof.
    induction newfs as [|[f0 t0] r IH]; simpl; intros H f t' Hin; [contradiction|].
    destruct (aget oldf f0) as [t|] eqn:G; [|discriminate].
    apply app_eq_nil in H as [H1 H2].
    destruct Hin as [Hin|Hin].
    - inversion Hin; subst. exists t. split; auto.
      destruct (ty_eq e t t'); auto; discriminate.
    - eapply IH; eauto.
  Qed.

  Lemma fields_by_identifier_In fs f t : aget (fields_by_identifier fs) f = Some t -> In (f, t) fs.
  Proof.
    unfold fields_by_identifier.
    assert (forall m, aget (fold_left (fun m (x : name * ty) => aset m (fst x) (snd x)) fs m) f = Some t ->
                      In (f, t) fs \/ aget m f = Some t) as G.
    { induction fs as [|[f0 t0] r IH]; simpl; intros m H; auto.
      destruct (IH _ H) as [H1|H1]; auto.
      rewrite aget_aset in H1. simpl in H1.
      destruct (f =? f0) eqn:E; auto.
      apply Z.eqb_eq in E. inversion H1; subst; auto. }
    intros H. destruct (G [] H) as [H1|H1]; auto. discriminate.
  Qed.

  Lemma vget_In fns : forall fvs f fv, vget fns fvs f = Some fv -> In fv fvs.
  Proof.
    induction fns as [|n r IH]; intros [|v vr] f fv; simpl; try discriminate.
    destruct (f =? n); intros H; [inversion H; auto | right; eapply IH; eauto].
  Qed.

  Lemma enum_case_loop_nil : forall news olds,
    enum_case_loop olds news = [] -> (length olds <= length news)%nat ->
    forall i c, nth_error olds i = Some c -> nth_error news i = Some c.
  Proof.
    induction news as [|n nr IH]; intros [|o orest] H L i c Hn; simpl in *;
      try (destruct i; discriminate); try lia.
    apply app_eq_nil in H as [H1 H2].
    destruct i as [|i]; simpl in *.
    - inversion Hn; subst. destruct (c =? n) eqn:E; [apply Z.eqb_eq in E; subst; auto | discriminate].
    - eapply IH; eauto. lia.
  Qed.

  Lemma enum_prefix d0 d1 i c :
    check_enum_cases d0 d1 = [] -> onth (dcases d0) i = Some c -> onth (dcases d1) i = Some c.
  Proof.
    unfold check_enum_cases, onth.
    destruct (Z.of_nat (length (dcases d1)) <? Z.of_nat (length (dcases d0))) eqn:L; [discriminate|].
    apply Z.ltb_ge in L. intros H.
    destruct (i <? 0); [discriminate|].
    eapply enum_case_loop_nil; eauto. lia.
  Qed.

  Lemma loadable_kept s :
    loadable old s = true -> (forall q, In q (sty_paths s) -> not_removed q) -> loadable new s = true.
  Proof.
    unfold loadable. intros H Ok. apply forallb_forall. intros t Ht.
    pose proof (forallb_In _ _ H t Ht) as Q. destruct t as [q| |]; simpl in *; auto.
    destruct (find_local old q) as [d0|] eqn:Fo; [|discriminate].
    eapply local_kept; eauto. apply Ok. apply sty_paths_in; auto.
  Qed.

  (* ---------------------------------------------------------------- the main result *)
  Theorem usable_preserved : forall v,
    wf_value acct xc F old v = true -> value_ok v -> usable acct xc F old new v = true.
  Proof.
    induction v as [b| |x IHx|l IHl|ks vs IHk IHv|q fns fvs IHf|q r|l p|s|s] using value_ind';
      simpl; intros W Ok; auto.
    - eapply (forallb_mono (wf_value acct xc F old) _ value_ok); [ | eassumption | ].
      + intros x Hx. rewrite Forall_forall in IHl. apply IHl; auto.
      + intros x Hx. eapply value_ok_arr; eauto.
    - apply andb_true_iff in W as [W1 W2]. apply andb_true_iff. split.
      + eapply (forallb_mono (wf_value acct xc F old) _ value_ok); [ | eassumption | ].
        * intros x Hx. rewrite Forall_forall in IHk. apply IHk; auto.
        * intros x Hx. eapply value_ok_keys; eauto.
      + eapply (forallb_mono (wf_value acct xc F old) _ value_ok); [ | eassumption | ].
        * intros x Hx. rewrite Forall_forall in IHv. apply IHv; auto.
        * intros x Hx. eapply value_ok_vals; eauto.
    - (* composite *)
      destruct (find_local old q) as [d0|] eqn:Fo; [|discriminate].
      apply andb_true_iff in W as [W W3]. apply andb_true_iff in W as [W1 W2].
      assert (not_removed q) as NR by (apply Ok; simpl; auto).
      assert (class3 (dk d0) = true) as C3 by (destruct (dk d0); simpl in *; auto; discriminate).
      destruct (kept_pair q d0 Fo C3) as [d1 [F1 K1]].
      { intros r n Hq. right. eapply NR; eauto. }
      rewrite F1.
      repeat (apply andb_true_iff; split).
      + rewrite (ck_kind _ _ _ K1). apply dkind_eqb_refl.
      + apply forallb_forall. intros [f t'] Hft. simpl.
        destruct (check_fields_loop_nil _ _ _ (ck_fields _ _ _ K1) f t' Hft) as [t [Gt Et]].
        apply fields_by_identifier_In in Gt.
        pose proof (forallb_In _ _ W2 (f, t) Gt) as Q. simpl in Q.
        destruct (vget fns fvs f) as [fv|] eqn:Vg; [|discriminate].
        unfold has_type in *.
        destruct (resolve_ty acct old t) as [s0|] eqn:Ro; [|discriminate].
        pose proof (wf_types _ _ Wn d1 (find_local_in _ _ _ F1)) as T1.
        pose proof (wf_types _ _ Wo d0 (find_local_in _ _ _ Fo)) as T0.
        unfold decl_types_ok in T0, T1.
        apply andb_true_iff in T0 as [T0 _]. apply andb_true_iff in T1 as [T1 _].
        pose proof (forallb_In _ _ T0 (f, t) Gt) as T0'. simpl in T0'.
        pose proof (forallb_In _ _ T1 (f, t') Hft) as T1'. simpl in T1'.
        apply andb_true_iff in T0' as [_ T0']. apply andb_true_iff in T1' as [T1' _].
        destruct (resolves_new t t' s0 Et) as [s1 Rn]; auto.
        { intros n Hn. apply (forallb_In _ _ T1'); auto. }
        rewrite Rn.
        eapply has_sty_preserved; eauto.
        * intros n Hn. apply (forallb_In _ _ T0'); auto.
        * eapply value_ok_fields; eauto. eapply vget_In; eauto.
      + apply forallb_forall. intros i Hi. apply conforms_In. apply all_supers_mono; auto.
        intros q0 Hq. inversion Hq; subst; auto.
      + eapply (forallb_mono (wf_value acct xc F old) _ value_ok); [ | eassumption | ].
        * intros x Hx. rewrite Forall_forall in IHf. apply IHf; auto.
        * intros x Hx. eapply value_ok_fields; eauto.
    - (* enum *)
      destruct (find_local old q) as [d0|] eqn:Fo; [|discriminate].
      apply andb_true_iff in W as [W W3]. apply andb_true_iff in W as [W1 W2].
      apply dkind_eqb_eq in W1.
      assert (not_removed q) as NR by (apply Ok; simpl; auto).
      assert (class3 (dk d0) = true) as C3 by (rewrite W1; auto).
      destruct (kept_pair q d0 Fo C3) as [d1 [F1 K1]].
      { intros r' n Hq. right. eapply NR; eauto. }
      rewrite F1. apply andb_true_iff. split.
      + rewrite (ck_kind _ _ _ K1). apply dkind_eqb_refl.
      + destruct (onth (dcases d0) r) as [c|] eqn:On.
        * rewrite (enum_prefix _ _ _ _ (ck_enum _ _ _ K1) On). simpl. apply Z.eqb_refl.
        * exfalso. unfold onth in On. apply Z.leb_le in W2. apply Z.ltb_lt in W3.
          destruct (r <? 0) eqn:Lr; [apply Z.ltb_lt in Lr; lia|].
          apply nth_error_None in On. lia.
    - (* value of another contract *)
      apply forallb_forall. intros i Hi. apply conforms_In. apply all_supers_mono; auto.
      intros q0 Hq. discriminate.
    - apply loadable_kept; auto.
  Qed.
  (* ---------------------------------------------------------------- well-formedness carries over *)
  (* needed to iterate the result along a history of updates: a value that could be in storage under
     the old program could also be in storage under the new one *)
  Lemma fields_preserved q d0 d1 fns fvs :
    find_local old q = Some d0 -> find_local new q = Some d1 -> checked e d0 d1 ->
    forallb (fun ft => match vget fns fvs (fst ft) with
                       | Some fv => has_type acct xc F old fv (snd ft)
                       | None => false
                       end) (dfields d0) = true ->
    (forall x, In x fvs -> value_ok x) ->
    forallb (fun ft => match vget fns fvs (fst ft) with
                       | Some fv => has_type acct xc F new fv (snd ft)
                       | None => false
                       end) (dfields d1) = true.
  Proof.
    intros Fo F1 K1 W2 Okf.
    apply forallb_forall. intros [f t'] Hft. simpl.
    destruct (check_fields_loop_nil _ _ _ (ck_fields _ _ _ K1) f t' Hft) as [t [Gt Et]].
    apply fields_by_identifier_In in Gt.
    pose proof (forallb_In _ _ W2 (f, t) Gt) as Q. simpl in Q.
    destruct (vget fns fvs f) as [fv|] eqn:Vg; [|discriminate].
    unfold has_type in *.
    destruct (resolve_ty acct old t) as [s0|] eqn:Ro; [|discriminate].
    pose proof (wf_types _ _ Wn d1 (find_local_in _ _ _ F1)) as T1.
    pose proof (wf_types _ _ Wo d0 (find_local_in _ _ _ Fo)) as T0.
    unfold decl_types_ok in T0, T1.
    apply andb_true_iff in T0 as [T0 _]. apply andb_true_iff in T1 as [T1 _].
    pose proof (forallb_In _ _ T0 (f, t) Gt) as T0'. simpl in T0'.
    pose proof (forallb_In _ _ T1 (f, t') Hft) as T1'. simpl in T1'.
    apply andb_true_iff in T0' as [_ T0']. apply andb_true_iff in T1' as [T1' _].
    destruct (resolves_new t t' s0 Et) as [s1 Rn]; auto.
    { intros n Hn. apply (forallb_In _ _ T1'); auto. }
    rewrite Rn.
    eapply has_sty_preserved; eauto.
    - intros n Hn. apply (forallb_In _ _ T0'); auto.
    - apply Okf. eapply vget_In; eauto.
  Qed.

  Theorem wf_value_preserved : forall v,
    wf_value acct xc F old v = true -> value_ok v -> wf_value acct xc F new v = true.
  Proof.
    induction v as [b| |x IHx|l IHl|ks vs IHk IHv|q fns fvs IHf|q r|l p|s|s] using value_ind';
      simpl; intros W Ok; auto.
    - eapply (forallb_mono (wf_value acct xc F old) _ value_ok); [ | eassumption | ].
      + intros x Hx. rewrite Forall_forall in IHl. apply IHl; auto.
      + intros x Hx. eapply value_ok_arr; eauto.
    - apply andb_true_iff in W as [W1 W2]. apply andb_true_iff. split.
      + eapply (forallb_mono (wf_value acct xc F old) _ value_ok); [ | eassumption | ].
        * intros x Hx. rewrite Forall_forall in IHk. apply IHk; auto.
        * intros x Hx. eapply value_ok_keys; eauto.
      + eapply (forallb_mono (wf_value acct xc F old) _ value_ok); [ | eassumption | ].
        * intros x Hx. rewrite Forall_forall in IHv. apply IHv; auto.
        * intros x Hx. eapply value_ok_vals; eauto.
    - destruct (find_local old q) as [d0|] eqn:Fo; [|discriminate].
      apply andb_true_iff in W as [W W3]. apply andb_true_iff in W as [W1 W2].
      assert (not_removed q) as NR by (apply Ok; simpl; auto).
      assert (class3 (dk d0) = true) as C3 by (destruct (dk d0); simpl in *; auto; discriminate).
      destruct (kept_pair q d0 Fo C3) as [d1 [F1 K1]].
      { intros r n Hq. right. eapply NR; eauto. }
      rewrite F1.
      repeat (apply andb_true_iff; split).
      + rewrite <- (ck_kind _ _ _ K1). exact W1.
      + eapply fields_preserved; eauto. intros x Hx. eapply value_ok_fields; eauto.
      + eapply (forallb_mono (wf_value acct xc F old) _ value_ok); [ | eassumption | ].
        * intros x Hx. rewrite Forall_forall in IHf. apply IHf; auto.
        * intros x Hx. eapply value_ok_fields; eauto.
    - destruct (find_local old q) as [d0|] eqn:Fo; [|discriminate].
      apply andb_true_iff in W as [W W3]. apply andb_true_iff in W as [W1 W2].
      pose proof W1 as W1'. apply dkind_eqb_eq in W1'.
      assert (not_removed q) as NR by (apply Ok; simpl; auto).
      assert (class3 (dk d0) = true) as C3 by (rewrite W1'; auto).
      destruct (kept_pair q d0 Fo C3) as [d1 [F1 K1]].
      { intros r' n Hq. right. eapply NR; eauto. }
      rewrite F1. rewrite <- (ck_kind _ _ _ K1), W1, W2. simpl.
      apply Z.leb_le in W2. apply Z.ltb_lt in W3.
      destruct (onth (dcases d0) r) as [c|] eqn:On.
      + pose proof (enum_prefix _ _ _ _ (ck_enum _ _ _ K1) On) as On1.
        unfold onth in On1. destruct (r <? 0) eqn:Lr; [discriminate|].
        assert (nth_error (dcases d1) (Z.to_nat r) <> None) as NN by congruence.
        apply nth_error_Some in NN. apply Z.ltb_lt. lia.
      + exfalso. unfold onth in On.
        destruct (r <? 0) eqn:Lr; [apply Z.ltb_lt in Lr; lia|].
        apply nth_error_None in On. lia.
    - apply loadable_kept; auto.
    - apply loadable_kept; auto.
  Qed.
End Update.

(* the boolean guard used in the property statement implies the Prop-level one *)
Lemma mentions_removed_ok new v : mentions_removed new v = false -> value_ok new v.
Proof.
  unfold mentions_removed, value_ok, not_removed. intros H q Hq r n ->.
  pose proof (existsb_false_forall _ _ H [r; n] Hq) as Q. exact Q.
Qed.

Theorem usable_preserved_b acct xc old new F v :
  validate acct old new = [] ->
  wf_scope acct old = true -> wf_scope acct new = true ->
  iface_confs_kept acct old new = true ->
  ents_kept old new = true ->
  no_import_capture acct old new = true ->
  mentions_removed new v = false ->
  wf_value acct xc F old v = true ->
  usable acct xc F old new v = true.
Proof.
  intros. eapply usable_preserved; eauto. apply mentions_removed_ok; auto.
Qed.

Theorem wf_value_preserved_b acct xc old new F v :
  validate acct old new = [] ->
  wf_scope acct old = true -> wf_scope acct new = true ->
  iface_confs_kept acct old new = true ->
  ents_kept old new = true ->
  no_import_capture acct old new = true ->
  mentions_removed new v = false ->
  wf_value acct xc F old v = true ->
  wf_value acct xc F new v = true.
Proof.
  intros. eapply wf_value_preserved; eauto. apply mentions_removed_ok; auto.
Qed.

(* ------------------------------------------------------------------ histories of updates *)
Definition step_ok (acct : acct_names) (old new : program) : Prop :=
  validate acct old new = [] /\ wf_scope acct old = true /\ wf_scope acct new = true
  /\ iface_confs_kept acct old new = true /\ ents_kept old new = true
  /\ no_import_capture acct old new = true.

(* P, then the versions of l one after the other, each update accepted *)
Fixpoint chain_ok (acct : acct_names) (P : program) (l : list program) : Prop :=
  match l with
  | [] => True
  | Q :: r => step_ok acct P Q /\ chain_ok acct Q r
  end.

Fixpoint all_usable (acct : acct_names) (xc : ext_confs) (F : nat) (P : program) (l : list program)
         (v : value) : Prop :=
  match l with
  | [] => True
  | Q :: r => usable acct xc F P Q v = true /\ all_usable acct xc F Q r v
  end.

Lemma last_default {A} (r : list A) : forall x d d', last (x :: r) d = last (x :: r) d'.
Proof. induction r as [|y r IH]; intros x d d'; [reflexivity|]. simpl in *. apply (IH y). Qed.

Lemma last_cons {A} (r : list A) Q P : last (Q :: r) P = last r Q.
Proof. destruct r as [|y r]; [reflexivity|]. change (last (Q :: y :: r) P) with (last (y :: r) P). apply last_default. Qed.

Theorem chain_preserved acct xc F v : forall l P,
  chain_ok acct P l ->
  (forall Q, In Q l -> mentions_removed Q v = false) ->
  wf_value acct xc F P v = true ->
  all_usable acct xc F P l v /\ wf_value acct xc F (last l P) v = true.
Proof.
  induction l as [|Q r IH]; intros P C M W.
  { simpl. split; auto. }
  destruct C as [[S1 [S2 [S3 [S4 [S5 S6]]]]] C].
  assert (mentions_removed Q v = false) as MQ by (apply M; left; auto).
  assert (wf_value acct xc F Q v = true) as WQ by (eapply wf_value_preserved_b; eauto).
  destruct (IH Q C (fun X HX => M X (or_intror HX)) WQ) as [A B].
  rewrite last_cons. split; auto.
  simpl. split; auto. eapply usable_preserved_b; eauto.
Qed.
