(* C27  Specification side: what it means for stored data to stay usable.
   Independent of the validator: declarations are given meaning by name resolution
   (what a nominal type written inside the contract refers to), static types, stored value
   trees tagged with qualified type names, value typing, and transitive interface conformance.
   Definitions only (all executable: the per-run case files evaluate them with vm_compute). *)
From CV Require Export C27.Model.

(* ------------------------------------------------------------------ built-in type names *)
(* identifiers 1..99 are reserved by the harness for built-in type names *)
Definition is_builtin (n : name) : bool := (0 <? n) && (n <? 100).
Definition bInt : name := 1.
Definition bString : name := 2.
Definition bBool : name := 3.
Definition bUInt8 : name := 4.
Definition bUInt64 : name := 5.
Definition bAddress : name := 6.
Definition bAnyStruct : name := 7.
Definition bAnyResource : name := 8.
Definition bCapability : name := 9.
Definition bType : name := 10.
Definition bInt8 : name := 12.
Definition bInteger : name := 17.
Definition prim_sub (b p : name) : bool :=
  (b =? p) || ((p =? bInteger) && zmem b [bInt; bUInt8; bUInt64; bInt8]).

(* ------------------------------------------------------------------ resolved types *)
(* fully qualified type identity: a declaration of the contract under update (path from the
   root: [C] or [C; S]), a declaration of another contract, or a built-in *)
Inductive tid : Type :=
| TLocal (path : list name)
| TExt (l : loc) (path : list name)
| TPrim (n : name).

Definition path_eqb (a b : list name) : bool := list_eqb Z.eqb a b.
Definition tid_eqb (a b : tid) : bool :=
  match a, b with
  | TLocal p, TLocal q => path_eqb p q
  | TExt l p, TExt m q => loc_eqb l m && path_eqb p q
  | TPrim x, TPrim y => x =? y
  | _, _ => false
  end.

Inductive sauth : Type :=
| SUnauth | SConj (l : list tid) | SDisj (l : list tid) | SMap (m : tid).

(* static types (what is stored with capabilities and type values; what field types denote) *)
Inductive sty : Type :=
| SNom (t : tid)
| SOpt (s : sty)
| SVar (s : sty)
| SConst (s : sty) (n : Z)
| SDict (k v : sty)
| SRef (a : sauth) (s : sty)
| SInter (l : list tid)
| SCap (s : sty).

Definition tids_eqb (a b : list tid) : bool := list_eqb tid_eqb a b.
Definition sauth_eqb (a b : sauth) : bool :=
  match a, b with
  | SUnauth, SUnauth => true
  | SConj l, SConj m => tids_eqb l m
  | SDisj l, SDisj m => tids_eqb l m
  | SMap x, SMap y => tid_eqb x y
  | _, _ => false
  end.
Fixpoint sty_eqb (a b : sty) : bool :=
  match a, b with
  | SNom x, SNom y => tid_eqb x y
  | SOpt x, SOpt y => sty_eqb x y
  | SVar x, SVar y => sty_eqb x y
  | SConst x n, SConst y m => sty_eqb x y && (n =? m)
  | SDict k v, SDict k' v' => sty_eqb k k' && sty_eqb v v'
  | SRef a x, SRef b y => sauth_eqb a b && sty_eqb x y
  | SInter l, SInter m => tids_eqb l m
  | SCap x, SCap y => sty_eqb x y
  | _, _ => false
  end.

Definition sauth_tids (a : sauth) : list tid :=
  match a with SUnauth => [] | SConj l => l | SDisj l => l | SMap m => [m] end.
Fixpoint sty_tids (s : sty) : list tid :=
  match s with
  | SNom t => [t]
  | SOpt x | SVar x | SConst x _ | SCap x => sty_tids x
  | SDict k v => sty_tids k ++ sty_tids v
  | SRef a x => sauth_tids a ++ sty_tids x
  | SInter l => l
  end.

(* ------------------------------------------------------------------ stored values *)
Inductive value : Type :=
| VPrim (b : name)                       (* a value of the built-in type b *)
| VNil
| VSome (v : value)
| VArr (l : list value)
| VDict (ks vs : list value)
| VComp (q : list name) (fns : list name) (fvs : list value)  (* struct/resource/contract: field names, field values *)
| VEnum (q : list name) (raw : Z)
| VExt (l : loc) (p : list name)         (* composite declared by another contract (opaque) *)
| VCap (s : sty)                         (* capability with borrow type s *)
| VType (s : sty).                       (* type value *)

Fixpoint vget (ns : list name) (vs : list value) (f : name) : option value :=
  match ns, vs with
  | n :: nr, v :: vr => if f =? n then Some v else vget nr vr f
  | _, _ => None
  end.

(* ------------------------------------------------------------------ the world around a program *)
(* ext conformances: declared conformances of types of OTHER contracts (their code does not change
   when this contract is updated) *)
Definition ext_confs := list ((loc * list name) * list tid).
Fixpoint xc_get (xc : ext_confs) (l : loc) (p : list name) : list tid :=
  match xc with
  | [] => []
  | ((l', p'), c) :: r => if loc_eqb l l' && path_eqb p p' then c else xc_get r l p
  end.

Section World.
  Variable acct : acct_names.
  Variable xc : ext_confs.

  Definition imap (P : program) : amap loc := collect_imports acct (p_imports P).
  Definition rootn (P : program) : name := dname (p_root P).
  Definition locals (P : program) : list decl := dnested (p_root P).

  Fixpoint find_decl (n : name) (ds : list decl) : option decl :=
    match ds with
    | [] => None
    | d :: r => if n =? dname d then Some d else find_decl n r
    end.

  Definition find_local (P : program) (q : list name) : option decl :=
    match q with
    | [r] => if r =? rootn P then Some (p_root P) else None
    | [r; n] => if r =? rootn P then find_decl n (locals P) else None
    | _ => None
    end.

  Definition is_some {A} (o : option A) : bool := match o with Some _ => true | None => false end.

  (* what a nominal type written inside the contract refers to *)
  Definition resolve (P : program) (n : nom) : option tid :=
    match snd n with
    | [] =>
        if fst n =? rootn P then Some (TLocal [fst n])
        else match find_decl (fst n) (locals P) with
             | Some _ => Some (TLocal [rootn P; fst n])
             | None =>
                 match aget (imap P) (fst n) with
                 | Some l => Some (TExt l [])
                 | None => if is_builtin (fst n) then Some (TPrim (fst n)) else None
                 end
             end
    | n1 :: rest =>
        if fst n =? rootn P then
          match rest with
          | [] => match find_decl n1 (locals P) with
                  | Some _ => Some (TLocal [fst n; n1])
                  | None => None
                  end
          | _ => None
          end
        else match find_decl (fst n) (locals P) with
             | Some _ => None
             | None =>
                 match aget (imap P) (fst n) with
                 | Some l => Some (TExt l (n1 :: rest))
                 | None => None
                 end
             end
    end.

  Fixpoint resolve_all (P : program) (l : list nom) : option (list tid) :=
    match l with
    | [] => Some []
    | n :: r =>
        match resolve P n, resolve_all P r with
        | Some t, Some ts => Some (t :: ts)
        | _, _ => None
        end
    end.

  (* the resolvable ones (used for declared conformances) *)
  Fixpoint resolve_some (P : program) (l : list nom) : list tid :=
    match l with
    | [] => []
    | n :: r => match resolve P n with
                | Some t => t :: resolve_some P r
                | None => resolve_some P r
                end
    end.

  Definition resolve_auth (P : program) (a : auth) : option sauth :=
    match a with
    | ANone => Some SUnauth
    | AConj l => option_map SConj (resolve_all P l)
    | ADisj l => option_map SDisj (resolve_all P l)
    | AMap m => option_map SMap (resolve P m)
    end.

  (* the static type denoted by a type annotation; function types and instantiations other than
     Capability<T> denote no storable type *)
  Fixpoint resolve_ty (P : program) (t : ty) : option sty :=
    match t with
    | TNom n => option_map SNom (resolve P n)
    | TOpt x => option_map SOpt (resolve_ty P x)
    | TVar x => option_map SVar (resolve_ty P x)
    | TConst x sz _ => option_map (fun s => SConst s sz) (resolve_ty P x)
    | TDict k v =>
        match resolve_ty P k, resolve_ty P v with
        | Some a, Some b => Some (SDict a b)
        | _, _ => None
        end
    | TRef a x =>
        match resolve_auth P a, resolve_ty P x with
        | Some a', Some s => Some (SRef a' s)
        | _, _ => None
        end
    | TInter l => option_map SInter (resolve_all P l)
    | TFun _ _ _ => None
    | TInst c args =>
        match c, args with
        | TNom (id, []), [b] =>
            if id =? bCapability then
              match resolve P (id, []) with
              | Some (TPrim _) => option_map SCap (resolve_ty P b)
              | _ => None
              end
            else None
        | _, _ => None
        end
    end.

  (* ---------------------------------------------------------------- conformance *)
  (* interfaces an interface declares to inherit from *)
  Definition iface_parents (P : program) (i : tid) : list tid :=
    match i with
    | TLocal q =>
        match find_local P q with
        | Some d => if is_iface (dk d) then resolve_some P (dconfs d) else []
        | None => []
        end
    | TExt l p => xc_get xc l p
    | TPrim _ => []
    end.

  (* i and everything it inherits from, following at most F inheritance steps *)
  Fixpoint supers (F : nat) (P : program) (i : tid) : list tid :=
    i :: match F with
         | O => []
         | S f => flat_map (supers f P) (iface_parents P i)
         end.

  (* conformances a composite type declares itself *)
  Definition declared_confs (P : program) (x : tid) : list tid :=
    match x with
    | TLocal q =>
        match find_local P q with
        | Some d => if is_composite (dk d) then resolve_some P (dconfs d) else []
        | None => []
        end
    | TExt l p => xc_get xc l p
    | TPrim _ => []
    end.

  Definition all_supers (F : nat) (P : program) (x : tid) : list tid :=
    flat_map (supers F P) (declared_confs P x).

  Definition conforms_b (F : nat) (P : program) (x i : tid) : bool :=
    existsb (tid_eqb i) (all_supers F P x).

  (* ---------------------------------------------------------------- value typing *)
  Definition kind_of (P : program) (q : list name) : option dkind :=
    match find_local P q with Some d => Some (dk d) | None => None end.

  Fixpoint struct_like (P : program) (v : value) : bool :=
    match v with
    | VPrim _ | VNil | VEnum _ _ | VCap _ | VType _ => true
    | VSome x => struct_like P x
    | VArr l => forallb (struct_like P) l
    | VDict ks vs => forallb (struct_like P) ks && forallb (struct_like P) vs
    | VComp q _ _ => match kind_of P q with Some KStruct => true | _ => false end
    | VExt _ _ => false
    end.

  Fixpoint resource_like (P : program) (v : value) : bool :=
    match v with
    | VSome x => resource_like P x
    | VComp q _ _ => match kind_of P q with Some KResource => true | _ => false end
    | _ => false
    end.

  Fixpoint has_sty (F : nat) (P : program) (v : value) (s : sty) {struct v} : bool :=
    match s with
    | SNom (TPrim p) =>
        if p =? bAnyStruct then struct_like P v
        else if p =? bAnyResource then resource_like P v
        else match v with
             | VPrim b => prim_sub b p
             | VCap _ => p =? bCapability
             | VType _ => p =? bType
             | _ => false
             end
    | SNom (TLocal q) =>
        match q with
        | [_; _] => match v with
                    | VComp q' _ _ => path_eqb q q'
                    | VEnum q' _ => path_eqb q q'
                    | _ => false
                    end
        | _ => false        (* the contract itself is never a field value *)
        end
    | SNom (TExt l p) =>
        match p with
        | [] => false       (* another contract itself is never a field value *)
        | _ => match v with VExt l' p' => loc_eqb l l' && path_eqb p p' | _ => false end
        end
    | SOpt s' => match v with VNil => true | VSome x => has_sty F P x s' | _ => false end
    | SVar s' => match v with VArr l => forallb (fun x => has_sty F P x s') l | _ => false end
    | SConst s' n =>
        match v with
        | VArr l => (Z.of_nat (length l) =? n) && forallb (fun x => has_sty F P x s') l
        | _ => false
        end
    | SDict k e =>
        match v with
        | VDict ks vs => forallb (fun x => has_sty F P x k) ks && forallb (fun x => has_sty F P x e) vs
        | _ => false
        end
    | SRef _ _ => false     (* references are not storable *)
    | SInter l =>
        match v with
        | VComp q _ _ => forallb (conforms_b F P (TLocal q)) l
        | VExt lo p => forallb (conforms_b F P (TExt lo p)) l
        | _ => false
        end
    | SCap b => match v with VCap s' => sty_eqb s' b | _ => false end
    end.

  Definition has_type (F : nat) (P : program) (v : value) (t : ty) : bool :=
    match resolve_ty P t with
    | Some s => has_sty F P v s
    | None => false
    end.

  (* every local declaration a static type mentions exists *)
  Definition tid_ok (P : program) (t : tid) : bool :=
    match t with TLocal q => is_some (find_local P q) | _ => true end.
  Definition loadable (P : program) (s : sty) : bool := forallb (tid_ok P) (sty_tids s).

  Definition storable_kind (k : dkind) : bool :=
    match k with KStruct | KResource | KContract => true | _ => false end.

  (* v is a value that can be in storage under program P: every composite carries exactly what
     its declaration says, at any depth *)
  Fixpoint wf_value (F : nat) (P : program) (v : value) : bool :=
    match v with
    | VPrim _ | VNil | VExt _ _ => true
    | VSome x => wf_value F P x
    | VArr l => forallb (wf_value F P) l
    | VDict ks vs => forallb (wf_value F P) ks && forallb (wf_value F P) vs
    | VComp q fns fvs =>
        match find_local P q with
        | Some d =>
            storable_kind (dk d)
            && forallb (fun ft => match vget fns fvs (fst ft) with
                                  | Some fv => has_type F P fv (snd ft)
                                  | None => false
                                  end) (dfields d)
            && forallb (wf_value F P) fvs
        | None => false
        end
    | VEnum q raw =>
        match find_local P q with
        | Some d => dkind_eqb (dk d) KEnum && (0 <=? raw) && (raw <? Z.of_nat (length (dcases d)))
        | None => false
        end
    | VCap s | VType s => loadable P s
    end.

  (* ---------------------------------------------------------------- usability after an update *)
  Definition onth {A} (l : list A) (i : Z) : option A :=
    if i <? 0 then None else nth_error l (Z.to_nat i).
  Definition oname_eqb (a b : option name) : bool :=
    match a, b with Some x, Some y => x =? y | _, _ => false end.

  (* The property's "usable": v (stored under old) can be used under new:
     - its type is still declared, with the same kind;
     - every field new declares for the type is present in v with a value of the declared type;
     - an enum raw value denotes a case of the same name;
     - the type conforms to everything it conformed to (transitively) under old;
     - static types it carries still denote declared types;
     - and the same holds for everything inside it. *)
  Fixpoint usable (F : nat) (old new : program) (v : value) : bool :=
    match v with
    | VPrim _ | VNil => true
    | VSome x => usable F old new x
    | VArr l => forallb (usable F old new) l
    | VDict ks vs => forallb (usable F old new) ks && forallb (usable F old new) vs
    | VComp q fns fvs =>
        match find_local old q, find_local new q with
        | Some d0, Some d1 =>
            dkind_eqb (dk d0) (dk d1)
            && forallb (fun ft => match vget fns fvs (fst ft) with
                                  | Some fv => has_type F new fv (snd ft)
                                  | None => false
                                  end) (dfields d1)
            && forallb (conforms_b F new (TLocal q)) (all_supers F old (TLocal q))
            && forallb (usable F old new) fvs
        | _, _ => false
        end
    | VEnum q raw =>
        match find_local old q, find_local new q with
        | Some d0, Some d1 =>
            dkind_eqb (dk d0) (dk d1) && oname_eqb (onth (dcases d0) raw) (onth (dcases d1) raw)
        | _, _ => false
        end
    | VExt l p => forallb (conforms_b F new (TExt l p)) (all_supers F old (TExt l p))
    | VCap s => loadable new s      (* using a capability loads its borrow type *)
    | VType _ => true               (* a type value is only a name: it always loads *)
    end.

  (* ---------------------------------------------------------------- what the checker guarantees *)
  Definition noms_of_auth (a : auth) : list nom :=
    match a with ANone => [] | AConj l => l | ADisj l => l | AMap m => [m] end.
  Fixpoint ty_noms (t : ty) : list nom :=
    match t with
    | TNom n => [n]
    | TOpt x | TVar x | TConst x _ _ => ty_noms x
    | TDict k v => ty_noms k ++ ty_noms v
    | TRef a x => noms_of_auth a ++ ty_noms x
    | TInter l => l
    | TFun _ ps r => flat_map ty_noms ps ++ ty_noms r
    | TInst c args => ty_noms c ++ flat_map ty_noms args
    end.

  Fixpoint nodup_names (l : list name) : bool :=
    match l with [] => true | x :: r => negb (zmem x r) && nodup_names r end.

  (* field types mention only types that resolve; conformances name interfaces (or, for enums,
     a built-in raw type; or something declared elsewhere) *)
  Definition conf_ok (P : program) (n : nom) : bool :=
    match resolve P n with
    | Some (TLocal q) => match kind_of P q with Some k => is_iface k | None => false end
    | Some _ => true
    | None => false
    end.
  (* members of intersection types *)
  Fixpoint ty_inters (t : ty) : list nom :=
    match t with
    | TNom _ => []
    | TOpt x | TVar x | TConst x _ _ | TRef _ x => ty_inters x
    | TDict k v => ty_inters k ++ ty_inters v
    | TInter l => l
    | TFun _ ps r => flat_map ty_inters ps ++ ty_inters r
    | TInst c args => ty_inters c ++ flat_map ty_inters args
    end.
  Definition decl_types_ok (P : program) (d : decl) : bool :=
    forallb (fun ft => forallb (fun n => is_some (resolve P n)) (ty_noms (snd ft))
                       && forallb (conf_ok P) (ty_inters (snd ft))) (dfields d)
    && forallb (conf_ok P) (dconfs d).

  (* necessary conditions of a program accepted by the type checker (each one observed on the real
     checker: a program violating one is rejected before the validator runs) *)
  Definition wf_scope (P : program) : bool :=
    forallb (fun d => match dnested d with [] => true | _ => false end) (locals P)
    && nodup_names (map dname (locals P))
    && forallb (fun d => negb (is_builtin (dname d))
                         && negb (is_some (aget (imap P) (dname d)))
                         && negb (dname d =? rootn P)) (locals P)
    && negb (is_builtin (rootn P))
    && negb (is_some (aget (imap P) (rootn P)))
    && forallb (decl_types_ok P) (p_root P :: locals P).

  (* ---------------------------------------------------------------- guards of the partial theorem *)
  (* local type paths a static type / a value mentions *)
  Definition sty_paths (s : sty) : list (list name) :=
    flat_map (fun t => match t with TLocal q => [q] | _ => [] end) (sty_tids s).
  Fixpoint value_paths (v : value) : list (list name) :=
    match v with
    | VPrim _ | VNil | VExt _ _ => []
    | VSome x => value_paths x
    | VArr l => flat_map value_paths l
    | VDict ks vs => flat_map value_paths ks ++ flat_map value_paths vs
    | VComp q _ fvs => q :: flat_map value_paths fvs
    | VEnum q _ => [q]
    | VCap s | VType s => sty_paths s
    end.

  Definition removed_names (P : program) : list name := collect_removed (dprs (p_root P)) [].
  (* G1: v mentions a type named by a #removedType pragma of the new program *)
  Definition mentions_removed (new : program) (v : value) : bool :=
    existsb (fun q => match q with [_; n] => zmem n (removed_names new) | _ => false end) (value_paths v).

  Definition cmp_of (old new : program) : cmp_env :=
    CmpEnv (rootn new) (imap old) (imap new).

  (* G2: every interface keeps the interfaces it inherits from (the check the validator applies to
     composites, applied to interface declarations) *)
  Definition iface_confs_kept (old new : program) : bool :=
    forallb (fun d => if is_iface (dk d) then
                        match find_decl (dname d) (locals new) with
                        | Some d' => match check_conformance (cmp_of old new) d d' with [] => true | _ => false end
                        | None => true
                        end
                      else true) (locals old)
    && (if is_iface (dk (p_root old))
        then match check_conformance (cmp_of old new) (p_root old) (p_root new) with [] => true | _ => false end
        else true).

  Definition is_ent (k : dkind) : bool := match k with KEntitlement | KEntMapping => true | _ => false end.
  (* G3: entitlement and entitlement-mapping declarations are kept *)
  Definition ents_kept (old new : program) : bool :=
    forallb (fun d => if is_ent (dk d) then is_some (find_decl (dname d) (locals new)) else true) (locals old).

  (* G4: no declaration of the new program takes the name of something the old program imported *)
  Definition no_import_capture (old new : program) : bool :=
    forallb (fun d => negb (is_some (aget (imap old) (dname d)))) (locals new).

End World.
