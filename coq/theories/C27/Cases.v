(* C27  Check functions evaluated (vm_compute) by the per-run case files. *)
From CV Require Export C27.Model C27.Spec.

Definition code3 := (Z * Z * Z)%type.
Definition code3_eqb (a b : code3) : bool :=
  let '(x, y, z) := a in let '(x', y', z') := b in (x =? x') && (y =? y') && (z =? z').

(* direct leg: the real ContractUpdateValidator on two parsed programs vs the model.
   observed = the reported errors, in order, as (kind code, name, name) *)
Definition check_validate (c : acct_names * program * program * list code3) : bool :=
  let '(acct, old, new, obs) := c in
  list_eqb code3_eqb (map uerr_code (validate acct old new)) obs.

Definition fuel : nat := 8.

(* end-to-end leg. verdict: 0 = the new program was rejected before validation (parser/checker),
   1 = the validator ran (obs = its errors; [] = update accepted).
   vals: (Some (value stored under the old version) when [old] is the version it was written under,
   None for the later steps of an update history, the part of it that the inspection under the new
   version can reach = without fields the new version no longer declares, result of the
   inspection: true = every read succeeded and returned what was stored). *)
Definition check_e2e (c : acct_names * ext_confs * program * program * Z * list code3
                          * list (option value * value * bool)) : bool :=
  let '(acct, xc, old, new, verdict, obs, vals) := c in
  if verdict =? 0 then true
  else
    wf_scope acct old && wf_scope acct new
    && list_eqb code3_eqb (map uerr_code (validate acct old new)) obs
    && forallb (fun vb => match fst (fst vb) with
                          | Some full => wf_value acct xc fuel old full
                          | None => true
                          end) vals
    && match obs with
       | [] => forallb (fun vb => Bool.eqb (usable acct xc fuel old new (snd (fst vb))) (snd vb)) vals
       | _ => true
       end.
