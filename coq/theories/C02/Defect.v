(* C02 — the known defect of the tree under test, rendered code-shaped (definitions only).

   `x.arr[i] <-> y`, where `arr` is a resource-typed field of the resource held by variable x:
   sema marks the index target `x.arr` as a nested resource move.  The VM compiler
   (bbq/compiler VisitSwapStatement / compileSwapTarget) compiles the target with the ordinary
   expression compiler, which for a nested resource move emits "remove field" - and nothing puts
   the field back.  Net effect of the statement in the VM: the element at i goes to y, y's old
   value is written into the removed array, and the array (with everything in it) is dropped;
   the composite keeps living without its field.  (The interpreter puts the field back but then
   keeps using the invalidated wrapper and fails with an internal error.) *)
From Coq Require Import ZArith List Bool.
From CV Require Import C02.Model.
Import ListNotations.
Open Scope Z_scope.

Definition vm_swap_member_index (x : Z) (i : nat) (y : Z) (st : state) : out state :=
  match assoc x (vars st), assoc y (vars st) with
  | Some (Rs u e t ks), Some ry =>
      match peek_kid (SlArr i) ks with
      | Some c =>
          let ks' := filter (fun p : label * rsrc => negb (is_arr (fst p))) ks in
          let st1 := set_vars st ((x, Rs u e t ks') :: (y, c) :: remove_key y (remove_key x (vars st))) in
          Done (invalidate (uuids c ++ uuids ry) st1)
      | None => Fail EIndex
      end
  | _, _ => Fail EStatic
  end.

(* the property, for this step: no live uuid vanishes (it stays live or is destroyed) *)
Definition vm_swap_member_index_conserves : Prop :=
  forall x i y st st', vm_swap_member_index x i y st = Done st' ->
  forall u, In u (live st) -> In u (live st' ++ dead_uuids st').

(* a witness state: x1 = Q(1){arr: [R 2, R 3]}, x4 = R 4, as built by ordinary commands *)
Definition defect_cmds : list cmd :=
  [ CXfer (PVar 1) (SNew false 2); CXfer (PVar 2) (SNew true 6);
    CXfer (PChild (BVar 1) SlArrEnd) (SPlace (PVar 2) false None);
    CXfer (PVar 3) (SNew true 8);
    CXfer (PChild (BVar 1) SlArrEnd) (SPlace (PVar 3) false None);
    CXfer (PVar 4) (SNew true 7) ].
