(* C02 — proofs about the resource model: uniqueness of ownership, conservation,
   destroy trace and destruction events. *)
From Coq Require Import ZArith List Bool Lia Permutation.
From CV Require Import C02.Model.
Import ListNotations.
Open Scope Z_scope.

(* ------------------------------------------------------------------ counting *)

Definition cnt (z : Z) (l : list Z) : nat := count_occ Z.eq_dec l z.

Lemma cnt_nil z : cnt z [] = 0%nat.
Proof. reflexivity. Qed.

Lemma cnt_app z l1 l2 : cnt z (l1 ++ l2) = (cnt z l1 + cnt z l2)%nat.
Proof. apply count_occ_app. Qed.

Lemma cnt_cons z a l : cnt z (a :: l) = ((if Z.eq_dec a z then 1 else 0) + cnt z l)%nat.
Proof. unfold cnt. simpl. destruct (Z.eq_dec a z); lia. Qed.

Lemma cnt_in z l : In z l <-> (cnt z l > 0)%nat.
Proof. apply count_occ_In. Qed.

Lemma cnt_notin z l : ~ In z l <-> cnt z l = 0%nat.
Proof. apply count_occ_not_In. Qed.

Lemma nodup_cnt l : NoDup l <-> forall z, (cnt z l <= 1)%nat.
Proof. apply NoDup_count_occ. Qed.

Lemma perm_cnt l1 l2 : Permutation l1 l2 <-> forall z, cnt z l1 = cnt z l2.
Proof. apply Permutation_count_occ. Qed.

Lemma nodup_app_l (l1 l2 : list Z) : NoDup (l1 ++ l2) -> NoDup l1.
Proof. rewrite !nodup_cnt. intros H z. specialize (H z). rewrite cnt_app in H. lia. Qed.

Lemma nodup_app_r (l1 l2 : list Z) : NoDup (l1 ++ l2) -> NoDup l2.
Proof. rewrite !nodup_cnt. intros H z. specialize (H z). rewrite cnt_app in H. lia. Qed.

(* ------------------------------------------------------------------ induction on trees *)

Section rsrc_ind2.
  Variable P : rsrc -> Prop.
  Hypothesis H : forall u e t ks, Forall (fun p : label * rsrc => P (snd p)) ks -> P (Rs u e t ks).
  Fixpoint rsrc_ind2 (r : rsrc) : P r :=
    match r with
    | Rs u e t ks =>
        H u e t ks
          ((fix go (l : list (label * rsrc)) : Forall (fun p : label * rsrc => P (snd p)) l :=
              match l with
              | [] => Forall_nil _
              | (lb, c) :: l' => Forall_cons (lb, c) (rsrc_ind2 c) (go l')
              end) ks)
    end.
End rsrc_ind2.

(* the nested-children view used by the recursive functions, as plain list functions *)
Definition kuuids (ks : list (label * rsrc)) : list Z :=
  flat_map (fun p : label * rsrc => let '(_, c) := p in uuids c) ks.

Lemma uuids_unfold u e t ks : uuids (Rs u e t ks) = u :: kuuids ks.
Proof. reflexivity. Qed.

Lemma kuuids_cons l c ks : kuuids ((l, c) :: ks) = uuids c ++ kuuids ks.
Proof. reflexivity. Qed.

Lemma kuuids_uuids_l ks : kuuids ks = uuids_l ks.
Proof.
  unfold kuuids, uuids_l. induction ks as [|[l c] ks IH]; simpl; [reflexivity|]. now rewrite IH.
Qed.

Lemma uuids_l_cons {K} (k : K) c (l : list (K * rsrc)) : uuids_l ((k, c) :: l) = uuids c ++ uuids_l l.
Proof. reflexivity. Qed.

Lemma uuids_l_app {K} (l1 l2 : list (K * rsrc)) : uuids_l (l1 ++ l2) = uuids_l l1 ++ uuids_l l2.
Proof. unfold uuids_l. apply flat_map_app. Qed.

Lemma find_in_unfold u u' e t ks :
  find_in u (Rs u' e t ks) = if u =? u' then Some (Rs u' e t ks) else find_l u ks.
Proof.
  simpl. destruct (u =? u'); [reflexivity|]. unfold find_l.
  induction ks as [|[l c] ks IH]; simpl; [reflexivity|]. destruct (find_in u c); [reflexivity|]. apply IH.
Qed.

Lemma subst_unfold u n u' e t ks :
  subst u n (Rs u' e t ks) = if u =? u' then n else Rs u' e t (subst_l u n ks).
Proof.
  simpl. destruct (u =? u'); [reflexivity|]. f_equal. unfold subst_l.
  induction ks as [|[l c] ks IH]; simpl; [reflexivity|]. now rewrite IH.
Qed.

Lemma find_l_cons {K} u (k : K) c l :
  find_l u ((k, c) :: l) = match find_in u c with Some x => Some x | None => find_l u l end.
Proof. reflexivity. Qed.

Lemma subst_l_cons {K} u n (k : K) c l : subst_l u n ((k, c) :: l) = (k, subst u n c) :: subst_l u n l.
Proof. reflexivity. Qed.

Opaque find_in subst uuids.

(* ------------------------------------------------------------------ find / subst on trees *)

Lemma root_in_uuids r : In (r_uuid r) (uuids r).
Proof. destruct r. rewrite uuids_unfold. now left. Qed.

Lemma find_subst_notin r : forall u n, ~ In u (uuids r) -> find_in u r = None /\ subst u n r = r.
Proof.
  induction r as [u' e t ks IH] using rsrc_ind2. intros u n Hn.
  rewrite uuids_unfold in Hn. rewrite find_in_unfold, subst_unfold.
  destruct (Z.eqb_spec u u') as [->|Hne]; [exfalso; apply Hn; now left|].
  assert (Hk : ~ In u (kuuids ks)) by (intro; apply Hn; now right).
  clear Hn. rewrite kuuids_uuids_l in Hk.
  assert (find_l u ks = None /\ subst_l u n ks = ks) as [-> ->]; [|split; reflexivity].
  induction ks as [|[l c] ks IHks]; [split; reflexivity|].
  rewrite uuids_l_cons in Hk. inversion IH as [|? ? Hc Hks]; subst. simpl in Hc.
  destruct (Hc u n) as [Hf Hs]; [intro; apply Hk; apply in_or_app; now left|].
  destruct IHks as [Hf' Hs']; [assumption|intro; apply Hk; apply in_or_app; now right|].
  rewrite find_l_cons, subst_l_cons, Hf, Hs, Hf', Hs'. split; reflexivity.
Qed.

Lemma find_l_notin {K} (l : list (K * rsrc)) u n :
  ~ In u (uuids_l l) -> find_l u l = None /\ subst_l u n l = l.
Proof.
  induction l as [|[k c] l IH]; intro Hn; [split; reflexivity|].
  rewrite uuids_l_cons in Hn.
  destruct (find_subst_notin c u n) as [Hf Hs]; [intro; apply Hn; apply in_or_app; now left|].
  destruct IH as [Hf' Hs']; [intro; apply Hn; apply in_or_app; now right|].
  rewrite find_l_cons, subst_l_cons, Hf, Hs, Hf', Hs'. split; reflexivity.
Qed.

(* what is found has the requested uuid and lies inside the tree *)
Lemma find_in_some r : forall u x, find_in u r = Some x ->
  r_uuid x = u /\ forall z, (cnt z (uuids x) <= cnt z (uuids r))%nat.
Proof.
  induction r as [u' e t ks IH] using rsrc_ind2. intros u x Hf.
  rewrite find_in_unfold in Hf.
  destruct (Z.eqb_spec u u') as [->|Hne].
  - inversion Hf; subst. split; [reflexivity|intro; lia].
  - rewrite uuids_unfold.
    assert (r_uuid x = u /\ forall z, (cnt z (uuids x) <= cnt z (kuuids ks))%nat) as [H1 H2].
    { rewrite kuuids_uuids_l. clear Hne. induction ks as [|[l c] ks IHks]; [discriminate|].
      inversion IH as [|? ? Hc Hks]; subst. simpl in Hc.
      rewrite find_l_cons in Hf. rewrite uuids_l_cons.
      destruct (find_in u c) eqn:Hfc.
      - inversion Hf; subst. destruct (Hc u x Hfc) as [H1 H2]. split; [assumption|].
        intro z. rewrite cnt_app. specialize (H2 z). lia.
      - destruct (IHks Hks Hf) as [H1 H2]. split; [assumption|].
        intro z. rewrite cnt_app. specialize (H2 z). lia. }
    split; [assumption|]. intro z. rewrite cnt_cons. specialize (H2 z). lia.
Qed.

Lemma find_l_some {K} (l : list (K * rsrc)) u x : find_l u l = Some x ->
  r_uuid x = u /\ forall z, (cnt z (uuids x) <= cnt z (uuids_l l))%nat.
Proof.
  induction l as [|[k c] l IH]; [discriminate|]. rewrite find_l_cons, uuids_l_cons.
  destruct (find_in u c) eqn:Hfc; intro Hf.
  - inversion Hf; subst. destruct (find_in_some c u x Hfc) as [H1 H2]. split; [assumption|].
    intro z. rewrite cnt_app. specialize (H2 z). lia.
  - destruct (IH Hf) as [H1 H2]. split; [assumption|].
    intro z. rewrite cnt_app. specialize (H2 z). lia.
Qed.

Lemma find_in_in r : forall u, In u (uuids r) -> exists x, find_in u r = Some x.
Proof.
  induction r as [u' e t ks IH] using rsrc_ind2. intros u Hin.
  rewrite find_in_unfold. destruct (Z.eqb_spec u u') as [->|Hne]; [eexists; reflexivity|].
  rewrite uuids_unfold in Hin. destruct Hin as [Heq|Hin]; [congruence|].
  rewrite kuuids_uuids_l in Hin. clear Hne.
  induction ks as [|[l c] ks IHks]; [destruct Hin|].
  inversion IH as [|? ? Hc Hks]; subst. simpl in Hc.
  rewrite find_l_cons. rewrite uuids_l_cons in Hin. apply in_app_or in Hin.
  destruct (find_in u c) eqn:Hfc; [eexists; reflexivity|].
  destruct Hin as [Hin|Hin]; [destruct (Hc u Hin) as [x Hx]; congruence|].
  apply IHks; assumption.
Qed.

Lemma find_l_in {K} (l : list (K * rsrc)) u : In u (uuids_l l) -> exists x, find_l u l = Some x.
Proof.
  induction l as [|[k c] l IH]; [intros []|]. rewrite uuids_l_cons, find_l_cons. intro Hin.
  apply in_app_or in Hin. destruct (find_in u c) eqn:Hfc; [eexists; reflexivity|].
  destruct Hin as [Hin|Hin]; [destruct (find_in_in c u Hin) as [x Hx]; congruence|].
  now apply IH.
Qed.

(* replacing the resource with uuid u by n: the uuids of the old one leave, those of n come *)
Lemma subst_cnt_l_gen {K} (l : list (K * rsrc)) u n x :
  (forall c, In c (map snd l) -> forall x', NoDup (uuids c) -> find_in u c = Some x' ->
     forall z, (cnt z (uuids (subst u n c)) + cnt z (uuids x') = cnt z (uuids c) + cnt z (uuids n))%nat) ->
  NoDup (uuids_l l) -> find_l u l = Some x ->
  forall z, (cnt z (uuids_l (subst_l u n l)) + cnt z (uuids x) = cnt z (uuids_l l) + cnt z (uuids n))%nat.
Proof.
  induction l as [|[k c] l IH]; intros Hall Hnd Hf z; [discriminate|].
  rewrite find_l_cons in Hf. rewrite subst_l_cons, !uuids_l_cons, !cnt_app.
  rewrite uuids_l_cons in Hnd.
  destruct (find_in u c) eqn:Hfc.
  - inversion Hf; subst.
    assert (Hin : In u (uuids c)).
    { destruct (find_in_some c u x Hfc) as [H1 H2]. apply cnt_in. specialize (H2 u).
      pose proof (root_in_uuids x) as Hr. rewrite H1 in Hr. apply cnt_in in Hr. lia. }
    assert (Hnl : ~ In u (uuids_l l)).
    { intro Hl. rewrite nodup_cnt in Hnd. specialize (Hnd u). rewrite cnt_app in Hnd.
      apply cnt_in in Hin. apply cnt_in in Hl. lia. }
    destruct (find_l_notin l u n Hnl) as [_ ->].
    pose proof (Hall c (or_introl eq_refl) x (nodup_app_l _ _ Hnd) Hfc z). lia.
  - assert (Hnc : ~ In u (uuids c)).
    { intro Hin. destruct (find_in_in c u Hin) as [x' Hx']. congruence. }
    destruct (find_subst_notin c u n Hnc) as [_ ->].
    assert (H := IH (fun c' Hc' => Hall c' (or_intror Hc')) (nodup_app_r _ _ Hnd) Hf z). lia.
Qed.

Lemma subst_cnt r : forall u n x, NoDup (uuids r) -> find_in u r = Some x ->
  forall z, (cnt z (uuids (subst u n r)) + cnt z (uuids x) = cnt z (uuids r) + cnt z (uuids n))%nat.
Proof.
  induction r as [u' e t ks IH] using rsrc_ind2. intros u n x Hnd Hf z.
  rewrite find_in_unfold in Hf. rewrite subst_unfold.
  destruct (Z.eqb_spec u u') as [->|Hne].
  - inversion Hf; subst. lia.
  - rewrite !uuids_unfold, !cnt_cons. rewrite uuids_unfold in Hnd.
    rewrite !kuuids_uuids_l. rewrite kuuids_uuids_l in Hnd.
    assert (Hnd' : NoDup (uuids_l ks)) by (inversion Hnd; assumption).
    assert (Hall : forall c, In c (map snd ks) -> forall x', NoDup (uuids c) -> find_in u c = Some x' ->
      forall z, (cnt z (uuids (subst u n c)) + cnt z (uuids x') = cnt z (uuids c) + cnt z (uuids n))%nat).
    { intros c Hc x' Hn' Hf'. rewrite Forall_forall in IH. apply in_map_iff in Hc.
      destruct Hc as [[l c'] [<- Hin]]. exact (IH (l, c') Hin u n x' Hn' Hf'). }
    pose proof (subst_cnt_l_gen ks u n x Hall Hnd' Hf z) as Hz. lia.
Qed.

Lemma subst_cnt_l {K} (l : list (K * rsrc)) u n x :
  NoDup (uuids_l l) -> find_l u l = Some x ->
  forall z, (cnt z (uuids_l (subst_l u n l)) + cnt z (uuids x) = cnt z (uuids_l l) + cnt z (uuids n))%nat.
Proof.
  intros. apply subst_cnt_l_gen; try assumption.
  intros c _ x' Hn' Hf'. now apply subst_cnt.
Qed.

(* after the replacement, the new resource is found under its own uuid *)
Lemma find_subst_same r : forall n, In (r_uuid n) (uuids r) -> NoDup (uuids r) ->
  find_in (r_uuid n) (subst (r_uuid n) n r) = Some n.
Proof.
  induction r as [u' e t ks IH] using rsrc_ind2. intros n Hin Hnd.
  rewrite subst_unfold. destruct (Z.eqb_spec (r_uuid n) u') as [Heq|Hne].
  - destruct n as [un en tn kn]. simpl. rewrite find_in_unfold, Z.eqb_refl. reflexivity.
  - rewrite find_in_unfold. destruct (Z.eqb_spec (r_uuid n) u'); [contradiction|].
    rewrite uuids_unfold in Hin, Hnd. destruct Hin as [Heq|Hin]; [congruence|].
    rewrite kuuids_uuids_l in Hin, Hnd. apply NoDup_cons_iff in Hnd. destruct Hnd as [_ Hnd'].
    induction ks as [|[l c] ks IHks]; [destruct Hin|].
    apply Forall_cons_iff in IH. destruct IH as [Hc Hks]. simpl in Hc.
    rewrite uuids_l_cons in Hin, Hnd'. rewrite subst_l_cons, find_l_cons.
    destruct (in_dec Z.eq_dec (r_uuid n) (uuids c)) as [Hic|Hnc].
    + now rewrite (Hc n Hic (nodup_app_l _ _ Hnd')).
    + destruct (find_subst_notin c (r_uuid n) n Hnc) as [Hf ->]. rewrite Hf.
      apply in_app_or in Hin. destruct Hin as [Hin|Hin]; [contradiction|].
      apply IHks; try assumption. now apply nodup_app_r in Hnd'.
Qed.

Lemma find_subst_same_l {K} (l : list (K * rsrc)) n : In (r_uuid n) (uuids_l l) ->
  NoDup (uuids_l l) -> find_l (r_uuid n) (subst_l (r_uuid n) n l) = Some n.
Proof.
  induction l as [|[k c] l IH]; intros Hin Hnd; [destruct Hin|].
  rewrite uuids_l_cons in Hin, Hnd. rewrite subst_l_cons, find_l_cons.
  destruct (in_dec Z.eq_dec (r_uuid n) (uuids c)) as [Hic|Hnc].
  - now rewrite (find_subst_same c n Hic (nodup_app_l _ _ Hnd)).
  - destruct (find_subst_notin c (r_uuid n) n Hnc) as [Hf ->]. rewrite Hf.
    apply in_app_or in Hin. destruct Hin as [Hin|Hin]; [contradiction|].
    apply IH; try assumption. now apply nodup_app_r in Hnd.
Qed.

(* ------------------------------------------------------------------ one level of nesting *)

Lemma uuids_cnt u e t ks z :
  cnt z (uuids (Rs u e t ks)) = ((if Z.eq_dec u z then 1 else 0) + cnt z (uuids_l ks))%nat.
Proof. now rewrite uuids_unfold, cnt_cons, kuuids_uuids_l. Qed.

Lemma peek_drop_cnt ks : forall s c, peek_kid s ks = Some c ->
  forall z, cnt z (uuids_l ks) = (cnt z (uuids c) + cnt z (uuids_l (drop_kid s ks)))%nat.
Proof.
  induction ks as [|[l c'] ks IH]; intros s c Hp z; [discriminate|].
  assert (Hrec : forall s', peek_kid s' ks = Some c ->
            cnt z (uuids_l ((l, c') :: ks)) = (cnt z (uuids c) + cnt z (uuids_l ((l, c') :: drop_kid s' ks)))%nat).
  { intros s' Hs'. rewrite !uuids_l_cons, !cnt_app, (IH _ _ Hs' z). lia. }
  assert (Hhere : c' = c ->
            cnt z (uuids_l ((l, c') :: ks)) = (cnt z (uuids c) + cnt z (uuids_l ks))%nat).
  { intros ->. now rewrite uuids_l_cons, cnt_app. }
  destruct s as [|[|i]| |k]; destruct l as [| |k']; cbn [peek_kid drop_kid] in Hp |- *;
    try (apply Hrec; exact Hp); try (apply Hhere; congruence).
  destruct (k =? k'); [apply Hhere; congruence|apply Hrec; exact Hp].
Qed.

Lemma peek_in ks : forall s c, peek_kid s ks = Some c -> In (r_uuid c) (uuids_l ks).
Proof.
  intros s c Hp. apply cnt_in. rewrite (peek_drop_cnt ks s c Hp).
  pose proof (root_in_uuids c) as H. apply cnt_in in H. lia.
Qed.

Lemma put_arr_cnt ks : forall i c ks', put_arr i c ks = Some ks' ->
  forall z, cnt z (uuids_l ks') = (cnt z (uuids c) + cnt z (uuids_l ks))%nat.
Proof.
  induction ks as [|[l c'] ks IH]; intros i c ks' Hp z; simpl in Hp.
  - destruct i; inversion Hp; subst. now rewrite uuids_l_cons, cnt_app.
  - destruct l.
    + destruct (put_arr i c ks) eqn:Hq; inversion Hp; subst.
      rewrite !uuids_l_cons, !cnt_app, (IH _ _ _ Hq z). lia.
    + destruct i.
      * inversion Hp; subst. now rewrite uuids_l_cons, cnt_app.
      * destruct (put_arr i c ks) eqn:Hq; inversion Hp; subst.
        rewrite !uuids_l_cons, !cnt_app, (IH _ _ _ Hq z). lia.
    + destruct i; inversion Hp; subst. now rewrite uuids_l_cons, cnt_app.
Qed.

Lemma put_arr_end_cnt ks c z :
  cnt z (uuids_l (put_arr_end c ks)) = (cnt z (uuids c) + cnt z (uuids_l ks))%nat.
Proof.
  induction ks as [|[l c'] ks IH]; cbn [put_arr_end].
  - now rewrite uuids_l_cons, cnt_app.
  - destruct l; rewrite !uuids_l_cons, !cnt_app, ?IH; lia.
Qed.

Lemma put_dict_cnt ks k c z :
  cnt z (uuids_l (put_dict k c ks)) = (cnt z (uuids c) + cnt z (uuids_l ks))%nat.
Proof.
  induction ks as [|[l c'] ks IH]; cbn [put_dict].
  - now rewrite uuids_l_cons, cnt_app.
  - destruct l; try (rewrite !uuids_l_cons, !cnt_app, ?IH; lia).
    destruct (k <? k0); rewrite !uuids_l_cons, !cnt_app, ?IH; lia.
Qed.

Lemma take_slot_cnt s r c r' : take_slot s r = Done (c, r') ->
  r_uuid r' = r_uuid r /\
  forall z, cnt z (uuids r) = (cnt z (uuids r') + cnt z (uuids_opt c))%nat.
Proof.
  destruct r as [u e t ks]. unfold take_slot.
  destruct s; try discriminate; destruct (peek_kid _ ks) eqn:Hp; intro H; inversion H; subst; clear H;
    (split; [reflexivity|]); intro z; simpl uuids_opt; rewrite ?uuids_cnt, ?cnt_nil;
    try rewrite (peek_drop_cnt ks _ _ Hp z); lia.
Qed.

Lemma put_slot_cnt s c r r' : put_slot s c r = Done r' ->
  r_uuid r' = r_uuid r /\
  forall z, cnt z (uuids r') = (cnt z (uuids r) + cnt z (uuids_opt c))%nat.
Proof.
  destruct r as [u e t ks]. unfold put_slot.
  destruct s.
  - destruct (peek_kid SlOpt ks); [discriminate|]. destruct c; intro H; inversion H; subst; clear H;
      (split; [reflexivity|]); intro z; simpl uuids_opt; rewrite ?uuids_cnt, ?uuids_l_cons, ?cnt_app, ?cnt_nil; lia.
  - destruct c; [|discriminate]. destruct (put_arr i r ks) eqn:Hq; intro H; inversion H; subst; clear H.
    split; [reflexivity|]. intro z. simpl uuids_opt. rewrite !uuids_cnt, (put_arr_cnt _ _ _ _ Hq z). lia.
  - destruct c; [|discriminate]. intro H; inversion H; subst; clear H.
    split; [reflexivity|]. intro z. simpl uuids_opt. rewrite !uuids_cnt, put_arr_end_cnt. lia.
  - destruct (peek_kid (SlDict k) ks); [discriminate|]. destruct c; intro H; inversion H; subst; clear H;
      (split; [reflexivity|]); intro z; simpl uuids_opt; rewrite ?uuids_cnt, ?put_dict_cnt, ?cnt_nil; lia.
Qed.

(* ------------------------------------------------------------------ association lists *)

Lemma assoc_remove_cnt (l : list (Z * rsrc)) k z :
  cnt z (uuids_l l) = (cnt z (uuids_opt (assoc k l)) + cnt z (uuids_l (remove_key k l)))%nat.
Proof.
  induction l as [|[k' c] l IH]; cbn [assoc remove_key]; [reflexivity|].
  destruct (k =? k'); cbn [uuids_opt].
  - now rewrite uuids_l_cons, cnt_app.
  - rewrite !uuids_l_cons, !cnt_app, IH. lia.
Qed.

Lemma assoc_in {V} (l : list (Z * V)) k v : assoc k l = Some v -> In (k, v) l.
Proof.
  induction l as [|[k' c] l IH]; simpl; [discriminate|].
  destruct (Z.eqb_spec k k') as [->|]; intro H; [inversion H; now left|right; auto].
Qed.

Lemma root_find r : find_in (r_uuid r) r = Some r.
Proof. destruct r. simpl r_uuid. now rewrite find_in_unfold, Z.eqb_refl. Qed.

Lemma assoc_find (l : list (Z * rsrc)) k r : assoc k l = Some r -> NoDup (uuids_l l) ->
  find_l (r_uuid r) l = Some r.
Proof.
  induction l as [|[k' c] l IH]; cbn [assoc]; [discriminate|]. intros Ha Hnd.
  rewrite uuids_l_cons in Hnd. rewrite find_l_cons.
  destruct (k =? k').
  - inversion Ha; subst. now rewrite root_find.
  - pose proof (IH Ha (nodup_app_r _ _ Hnd)) as Hf.
    assert (Hn : ~ In (r_uuid r) (uuids c)).
    { intro Hin. destruct (find_l_some l _ _ Hf) as [_ H2].
      rewrite nodup_cnt in Hnd. specialize (Hnd (r_uuid r)). rewrite cnt_app in Hnd.
      apply cnt_in in Hin. pose proof (root_in_uuids r) as Hr. apply cnt_in in Hr.
      specialize (H2 (r_uuid r)). lia. }
    destruct (find_subst_notin c (r_uuid r) r Hn) as [-> _]. exact Hf.
Qed.

(* ------------------------------------------------------------------ states *)

Definition nodup_live (st : state) : Prop := forall z, (cnt z (live st) <= 1)%nat.

Lemma live_cnt st z : cnt z (live st) = (cnt z (uuids_l (vars st)) + cnt z (uuids_l (store st)))%nat.
Proof. unfold live. apply cnt_app. Qed.

Lemma find_st_some st u x : find_st u st = Some x ->
  r_uuid x = u /\ forall z, (cnt z (uuids x) <= cnt z (live st))%nat.
Proof.
  unfold find_st. destruct (find_l u (vars st)) eqn:Hv; intro H.
  - inversion H; subst. destruct (find_l_some _ _ _ Hv) as [H1 H2]. split; [assumption|].
    intro z. rewrite live_cnt. specialize (H2 z). lia.
  - destruct (find_l_some _ _ _ H) as [H1 H2]. split; [assumption|].
    intro z. rewrite live_cnt. specialize (H2 z). lia.
Qed.

Lemma find_st_in st u : In u (live st) -> exists x, find_st u st = Some x.
Proof.
  unfold live, find_st. intro Hin. apply in_app_or in Hin.
  destruct (find_l u (vars st)) eqn:Hv; [eexists; reflexivity|].
  destruct Hin as [Hin|Hin]; [destruct (find_l_in _ _ Hin) as [x Hx]; congruence|].
  now apply find_l_in.
Qed.

Lemma subst_st_cnt st u n x : nodup_live st -> find_st u st = Some x ->
  forall z, (cnt z (live (subst_st u n st)) + cnt z (uuids x) = cnt z (live st) + cnt z (uuids n))%nat.
Proof.
  intros Hnd Hf z. unfold find_st in Hf. rewrite !live_cnt. unfold subst_st; simpl.
  assert (Hv : NoDup (uuids_l (vars st))).
  { apply nodup_cnt. intro y. specialize (Hnd y). rewrite live_cnt in Hnd. lia. }
  assert (Hs : NoDup (uuids_l (store st))).
  { apply nodup_cnt. intro y. specialize (Hnd y). rewrite live_cnt in Hnd. lia. }
  destruct (find_l u (vars st)) eqn:Hfv.
  - inversion Hf; subst.
    assert (Hn : ~ In u (uuids_l (store st))).
    { destruct (find_l_some _ _ _ Hfv) as [H1 H2]. intro Hin. apply cnt_in in Hin.
      specialize (Hnd u). rewrite live_cnt in Hnd. specialize (H2 u).
      pose proof (root_in_uuids x) as Hr. rewrite H1 in Hr. apply cnt_in in Hr. lia. }
    destruct (find_l_notin (store st) u n Hn) as [_ ->].
    pose proof (subst_cnt_l _ _ n _ Hv Hfv z). lia.
  - assert (Hn : ~ In u (uuids_l (vars st))).
    { intro Hin. destruct (find_l_in _ _ Hin) as [y Hy]. congruence. }
    destruct (find_l_notin (vars st) u n Hn) as [_ ->].
    pose proof (subst_cnt_l _ _ n _ Hs Hf z). lia.
Qed.

Lemma find_st_subst_same st n : nodup_live st -> In (r_uuid n) (live st) ->
  find_st (r_uuid n) (subst_st (r_uuid n) n st) = Some n.
Proof.
  intros Hnd Hin. unfold find_st, subst_st; simpl.
  assert (Hv : NoDup (uuids_l (vars st))).
  { apply nodup_cnt. intro y. specialize (Hnd y). rewrite live_cnt in Hnd. lia. }
  assert (Hs : NoDup (uuids_l (store st))).
  { apply nodup_cnt. intro y. specialize (Hnd y). rewrite live_cnt in Hnd. lia. }
  destruct (in_dec Z.eq_dec (r_uuid n) (uuids_l (vars st))) as [Hiv|Hnv].
  - now rewrite (find_subst_same_l _ n Hiv Hv).
  - destruct (find_l_notin (vars st) (r_uuid n) n Hnv) as [Hf ->]. rewrite Hf.
    unfold live in Hin. apply in_app_or in Hin. destruct Hin as [Hin|Hin]; [contradiction|].
    now apply find_subst_same_l.
Qed.

(* the resource a command works on is the one found under its uuid *)
Lemma resolve_find st v r : nodup_live st -> resolve_rv st v = Done r -> find_st (r_uuid r) st = Some r.
Proof.
  intros Hnd. destruct v as [|u| |p t]; simpl; try discriminate.
  - destruct (find_st u st) eqn:Hf; [|discriminate]. intro H; inversion H; subst.
    destruct (find_st_some _ _ _ Hf) as [-> _]. exact Hf.
  - unfold deref_sto. destruct (assoc p (store st)) eqn:Ha; [|discriminate].
    destruct (has_ty t r0); [|discriminate]. intro H; inversion H; subst.
    assert (Hs : NoDup (uuids_l (store st))).
    { apply nodup_cnt. intro y. specialize (Hnd y). rewrite live_cnt in Hnd. lia. }
    pose proof (assoc_find _ _ _ Ha Hs) as Hf. unfold find_st.
    assert (Hn : ~ In (r_uuid r) (uuids_l (vars st))).
    { intro Hin. apply cnt_in in Hin. destruct (find_l_some _ _ _ Hf) as [_ H2].
      specialize (H2 (r_uuid r)). specialize (Hnd (r_uuid r)). rewrite live_cnt in Hnd.
      pose proof (root_in_uuids r) as Hr. apply cnt_in in Hr. lia. }
    destruct (find_l_notin (vars st) (r_uuid r) r Hn) as [-> _]. exact Hf.
Qed.

Lemma base_find st b r : nodup_live st -> base_res st b = Done r -> find_st (r_uuid r) st = Some r.
Proof.
  intros Hnd. destruct b as [x|x|p]; simpl.
  - destruct (assoc x (vars st)) eqn:Ha; [|discriminate]. intro H; inversion H; subst.
    assert (Hv : NoDup (uuids_l (vars st))).
    { apply nodup_cnt. intro y. specialize (Hnd y). rewrite live_cnt in Hnd. lia. }
    unfold find_st. now rewrite (assoc_find _ _ _ Ha Hv).
  - destruct (assoc x (refs st)); [|discriminate]. now apply resolve_find.
  - destruct (assoc p (store st)) eqn:Ha; [|discriminate]. intro H; inversion H; subst.
    apply (resolve_find st (RSto p TI)); [assumption|].
    cbn [resolve_rv]. unfold deref_sto. rewrite Ha. reflexivity.
Qed.

(* ------------------------------------------------------------------ uuid ranges *)

Lemma seqZ_nil a : seqZ a a = [].
Proof. unfold seqZ. now rewrite Z.sub_diag. Qed.

Lemma seqZ_in a b z : In z (seqZ a b) <-> a <= z < b.
Proof.
  unfold seqZ. rewrite in_map_iff. split.
  - intros [i [<- Hi]]. apply in_seq in Hi. lia.
  - intros H. exists (Z.to_nat (z - a)). split; [lia|]. apply in_seq. lia.
Qed.

Lemma seqZ_nodup a b : NoDup (seqZ a b).
Proof.
  unfold seqZ. apply FinFun.Injective_map_NoDup; [|apply seq_NoDup].
  intros x y H. lia.
Qed.

Lemma seqZ_cnt a b z : cnt z (seqZ a b) = if (a <=? z) && (z <? b) then 1%nat else 0%nat.
Proof.
  destruct ((a <=? z) && (z <? b)) eqn:E.
  - assert (In z (seqZ a b)) as Hin by (apply seqZ_in; lia).
    apply cnt_in in Hin. pose proof (proj1 (nodup_cnt _) (seqZ_nodup a b) z). lia.
  - apply cnt_notin. rewrite seqZ_in. lia.
Qed.

(* ------------------------------------------------------------------ accounting of one step *)

Definition tot (z : Z) (st : state) : nat := (cnt z (live st) + cnt z (dead_uuids st))%nat.

Lemma uuids_opt_some r : uuids_opt (Some r) = uuids r.
Proof. reflexivity. Qed.

Lemma take_place_ok st pl c st1 : nodup_live st -> take_place st pl = Done (c, st1) ->
  refs st1 = refs st /\ next st1 = next st /\ dead st1 = dead st /\ logs st1 = logs st /\
  forall z, cnt z (live st) = (cnt z (live st1) + cnt z (uuids_opt c))%nat.
Proof.
  intros Hnd. destruct pl as [x|p|b s]; cbn [take_place].
  - intro H; inversion H; subst; clear H. repeat (split; [reflexivity|]).
    intro z. rewrite !live_cnt. cbn [vars store set_vars].
    rewrite (assoc_remove_cnt (vars st) x z). lia.
  - intro H; inversion H; subst; clear H. repeat (split; [reflexivity|]).
    intro z. rewrite !live_cnt. cbn [vars store set_store].
    rewrite (assoc_remove_cnt (store st) p z). lia.
  - destruct (base_res st b) as [r|] eqn:Hb; [|discriminate]. cbn [obind].
    destruct (take_slot s r) as [[c' r']|] eqn:Ht; [|discriminate]. cbn [obind fst snd].
    intro H; inversion H; subst; clear H. repeat (split; [reflexivity|]).
    intro z. pose proof (base_find _ _ _ Hnd Hb) as Hf.
    pose proof (subst_st_cnt st (r_uuid r) r' r Hnd Hf z) as H1.
    destruct (take_slot_cnt _ _ _ _ Ht) as [_ H2]. specialize (H2 z). lia.
Qed.

Lemma put_place_ok st pl c st' : nodup_live st -> put_place st pl c = Done st' ->
  refs st' = refs st /\ next st' = next st /\ dead st' = dead st /\ logs st' = logs st /\
  forall z, cnt z (live st') = (cnt z (live st) + cnt z (uuids_opt c))%nat.
Proof.
  intros Hnd. destruct pl as [x|p|b s]; cbn [put_place].
  - destruct (assoc x (vars st)); [discriminate|]. destruct c as [r|]; intro H; inversion H; subst; clear H;
      repeat (split; [reflexivity|]); intro z; rewrite !live_cnt; cbn [vars store set_vars uuids_opt];
      rewrite ?uuids_l_cons, ?cnt_app, ?cnt_nil; lia.
  - destruct c as [r|]; [|discriminate]. destruct (assoc p (store st)); [discriminate|].
    intro H; inversion H; subst; clear H. repeat (split; [reflexivity|]).
    intro z. rewrite !live_cnt. cbn [vars store set_store uuids_opt]. rewrite uuids_l_cons, cnt_app. lia.
  - destruct (base_res st b) as [r|] eqn:Hb; [|discriminate]. cbn [obind].
    destruct (put_slot s c r) as [r'|] eqn:Ht; [|discriminate]. cbn [obind].
    intro H; inversion H; subst; clear H. repeat (split; [reflexivity|]).
    intro z. pose proof (base_find _ _ _ Hnd Hb) as Hf.
    pose proof (subst_st_cnt st (r_uuid r) r' r Hnd Hf z) as H1.
    destruct (put_slot_cnt _ _ _ _ Ht) as [_ H2]. specialize (H2 z). lia.
Qed.

Lemma take_src_ok st s c st1 : nodup_live st -> take_src st s = Done (c, st1) ->
  refs st1 = refs st /\ dead st1 = dead st /\ logs st1 = logs st /\
  next st <= next st1 <= next st + 1 /\
  (forall z, (cnt z (live st1) <= cnt z (live st))%nat) /\
  forall z, (cnt z (live st) + cnt z (seqZ (next st) (next st1)) = cnt z (live st1) + cnt z (uuids_opt c))%nat.
Proof.
  intros Hnd. destruct s as [pl req cast|e t|]; cbn [take_src].
  - destruct (take_place st pl) as [[c0 st0]|] eqn:Ht; [|discriminate]. cbn [obind].
    destruct (take_place_ok _ _ _ _ Hnd Ht) as (H1 & H2 & H3 & H4 & H5).
    assert (Hgoal : refs st0 = refs st /\ dead st0 = dead st /\ logs st0 = logs st /\
      next st <= next st0 <= next st + 1 /\
      (forall z, (cnt z (live st0) <= cnt z (live st))%nat) /\
      forall z, (cnt z (live st) + cnt z (seqZ (next st) (next st0)) = cnt z (live st0) + cnt z (uuids_opt c0))%nat).
    { repeat (split; [assumption || lia|]). split; [intro z; specialize (H5 z); lia|].
      intro z. rewrite H2, seqZ_nil, cnt_nil. specialize (H5 z). lia. }
    destruct c0 as [r|].
    + destruct cast as [t|]; [destruct (has_ty t r); [|discriminate]|];
        intro H; inversion H; subst; exact Hgoal.
    + destruct req; [discriminate|]. intro H; inversion H; subst; exact Hgoal.
  - intro H; inversion H; subst; clear H. cbn [refs dead logs next].
    split; [reflexivity|]. split; [reflexivity|]. split; [reflexivity|]. split; [lia|].
    split; [intro z; unfold live; cbn [vars store]; lia|].
    intro z. unfold live; cbn [vars store].
    rewrite uuids_opt_some, uuids_cnt. unfold uuids_l at 5. cbn [flat_map]. rewrite cnt_nil, seqZ_cnt.
    destruct (Z.eq_dec (next st) z); destruct (Z.leb_spec (next st) z); destruct (Z.ltb_spec z (next st + 1));
      cbn [andb]; lia.
  - intro H; inversion H; subst; clear H.
    split; [reflexivity|]. split; [reflexivity|]. split; [reflexivity|]. split; [lia|].
    split; [intro; lia|].
    intro z. rewrite seqZ_nil, cnt_nil. cbn [uuids_opt]. rewrite cnt_nil. lia.
Qed.

Lemma live_invalidate us st : live (invalidate us st) = live st.
Proof. reflexivity. Qed.

Lemma nodup_live_le st st1 : nodup_live st -> (forall z, (cnt z (live st1) <= cnt z (live st))%nat) -> nodup_live st1.
Proof. intros H H1 z. specialize (H z). specialize (H1 z). lia. Qed.

Lemma dead_uuids_app st r : flat_map uuids (dead st ++ [r]) = dead_uuids st ++ uuids r.
Proof. unfold dead_uuids. rewrite flat_map_app. cbn [flat_map]. now rewrite app_nil_r. Qed.

Lemma step_acct c st st' : nodup_live st -> step c st = Done st' ->
  next st <= next st' <= next st + 1 /\
  (exists d, dead st' = dead st ++ d) /\
  forall z, tot z st' = (tot z st + cnt z (seqZ (next st) (next st')))%nat.
Proof.
  intros Hnd. unfold tot.
  assert (Hsame : forall st2 : state, vars st2 = vars st -> store st2 = store st -> next st2 = next st ->
             dead st2 = dead st ->
             next st <= next st2 <= next st + 1 /\
             (exists d, dead st2 = dead st ++ d) /\
             forall z, (cnt z (live st2) + cnt z (dead_uuids st2) =
                        cnt z (live st) + cnt z (dead_uuids st) + cnt z (seqZ (next st) (next st2)))%nat).
  { intros st2 Hv Hs Hn Hd. split; [lia|]. split; [exists []; now rewrite app_nil_r|].
    intro z. unfold live, dead_uuids. rewrite Hv, Hs, Hn, Hd, seqZ_nil, cnt_nil. lia. }
  assert (Hsetref : forall r v st2, set_ref st r v = Done st2 ->
             vars st2 = vars st /\ store st2 = store st /\ next st2 = next st /\ dead st2 = dead st).
  { intros r v st2. unfold set_ref. destruct (fresh_ref st r); [|discriminate].
    intro H; inversion H; subst. repeat split. }
  destruct c; cbn [step].
  - (* CXfer *)
    destruct (check_place st d) as [[]|]; [|discriminate]. cbn [obind].
    destruct (take_src st s) as [[v st1]|] eqn:Ht; [|discriminate]. cbn [obind].
    destruct (take_src_ok _ _ _ _ Hnd Ht) as (H1 & H2 & H3 & H4 & H5 & H6).
    intro Hp. apply put_place_ok in Hp; [|exact (nodup_live_le st st1 Hnd H5)].
    destruct Hp as (P1 & P2 & P3 & P4 & P5). cbn [invalidate set_refs next dead] in P2, P3.
    split; [lia|]. split; [exists []; rewrite app_nil_r; congruence|].
    intro z. specialize (P5 z). rewrite live_invalidate in P5. specialize (H6 z).
    unfold dead_uuids. rewrite P3, H2, P2. lia.
  - (* CDestroy *)
    destruct (assoc x (vars st)) as [r|] eqn:Ha.
    + intro H; inversion H; subst; clear H. cbn [next dead invalidate set_refs set_vars vars refs store].
      split; [lia|]. split; [eexists; reflexivity|].
      intro z. unfold dead_uuids. cbn [dead]. rewrite dead_uuids_app, cnt_app, seqZ_nil, cnt_nil.
      rewrite !live_cnt. cbn [vars store]. rewrite (assoc_remove_cnt (vars st) x z), Ha. cbn [uuids_opt].
      unfold dead_uuids. lia.
    + intro H; inversion H; subst. apply Hsame; reflexivity.
  - (* CSetTag *)
    destruct (base_res st b) as [r|] eqn:Hb; [|discriminate]. cbn [obind].
    intro H; inversion H; subst; clear H.
    set (n := Rs (r_uuid r) (r_ev r) t (r_kids r)).
    change (next (subst_st (r_uuid r) n st)) with (next st).
    change (dead (subst_st (r_uuid r) n st)) with (dead st).
    split; [lia|]. split; [exists []; now rewrite app_nil_r|].
    intro z. pose proof (base_find _ _ _ Hnd Hb) as Hf.
    pose proof (subst_st_cnt st (r_uuid r) n r Hnd Hf z) as H1.
    change (dead_uuids (subst_st (r_uuid r) n st)) with (dead_uuids st).
    rewrite seqZ_nil, cnt_nil.
    assert (cnt z (uuids n) = cnt z (uuids r)) as E
      by (subst n; destruct r; cbn [r_uuid r_ev r_kids]; now rewrite !uuids_cnt).
    lia.
  - (* CRefVar *)
    intro H. apply Hsetref in H. destruct H as (? & ? & ? & ?). now apply Hsame.
  - (* CRefStep *)
    destruct (base_res st b) as [p|]; [|discriminate]. cbn [obind].
    destruct s; try discriminate; try (destruct (peek_kid _ (r_kids p)); [|discriminate]);
      intro H; apply Hsetref in H; destruct H as (? & ? & ? & ?); now apply Hsame.
  - (* CRefUnwrap *)
    destruct (assoc r0 (refs st)) as [[| | |]|]; try discriminate;
      intro H; apply Hsetref in H; destruct H as (? & ? & ? & ?); now apply Hsame.
  - (* CRefCast *)
    destruct (assoc r0 (refs st)) as [[|u| |]|]; try discriminate.
    destruct (resolve_rv st (REph u)) as [p|]; [|discriminate]. cbn [obind].
    destruct (has_ty t p); [|destruct forced; [discriminate|]];
      intro H; apply Hsetref in H; destruct H as (? & ? & ? & ?); now apply Hsame.
  - (* CBorrow *)
    destruct (assoc p (store st)) as [x|]; [destruct (has_ty t x); [|discriminate]|];
      intro H; apply Hsetref in H; destruct H as (? & ? & ? & ?); now apply Hsame.
  - (* CUse *)
    destruct (assoc r (refs st)) as [[|u| |p t]|]; try discriminate.
    + destruct k; try discriminate. intro H; inversion H; subst. now apply Hsame.
    + destruct (resolve_rv st (REph u)); [|discriminate]. cbn [obind].
      intro H; inversion H; subst. now apply Hsame.
    + destruct (resolve_rv st (RSto p t)); [|discriminate]. cbn [obind].
      intro H; inversion H; subst. now apply Hsame.
  - (* CShowVar *)
    intro H; inversion H; subst. now apply Hsame.
  - (* CRefCopy *)
    destruct (assoc r0 (refs st)) as [[| | |]|]; try discriminate;
      intro H; apply Hsetref in H; destruct H as (? & ? & ? & ?); now apply Hsame.
Qed.

(* ------------------------------------------------------------------ the invariant *)

(* every uuid is owned by exactly one location (variable tree, storage tree) or was destroyed
   exactly once; uuids in use are below the counter; usable ephemeral references point to
   live resources *)
Record wf (st : state) : Prop := mkWf {
  wf_nodup : forall z, (tot z st <= 1)%nat;
  wf_fresh : forall z, (tot z st > 0)%nat -> z < next st;
  wf_refs : forall r u, In (r, REph u) (refs st) -> In u (live st)
}.

Lemma wf_nodup_live st : wf st -> nodup_live st.
Proof. intros [H _ _] z. specialize (H z). unfold tot in H. lia. Qed.

Lemma inval_in us st r u : In (r, REph u) (refs (invalidate us st)) ->
  In (r, REph u) (refs st) /\ ~ In u us.
Proof.
  cbn [invalidate set_refs refs]. rewrite in_map_iff. intros [[r' v] [Heq Hin]].
  cbn [fst snd] in Heq. injection Heq as E1 E2. subst r'.
  destruct v as [|u'| |p t]; cbn [inval_rv] in E2; try discriminate.
  destruct (existsb (Z.eqb u') us) eqn:E; [discriminate|]. injection E2 as ->.
  split; [assumption|]. intro Hin'. apply Bool.not_true_iff_false in E. apply E.
  apply existsb_exists. exists u. split; [assumption|apply Z.eqb_refl].
Qed.

Lemma set_ref_in st r v st2 r' u : set_ref st r v = Done st2 -> In (r', REph u) (refs st2) ->
  (v = REph u) \/ In (r', REph u) (refs st).
Proof.
  unfold set_ref. destruct (fresh_ref st r); [|discriminate]. intro H; inversion H; subst.
  cbn [set_refs refs]. intros [Heq|Hin]; [inversion Heq; now left|now right].
Qed.

Lemma set_ref_live st r v st2 : set_ref st r v = Done st2 -> live st2 = live st.
Proof. unfold set_ref. destruct (fresh_ref st r); [|discriminate]. intro H; inversion H; reflexivity. Qed.

Lemma in_uuids_l {K} (l : list (K * rsrc)) k c : In (k, c) l -> forall z, (cnt z (uuids c) <= cnt z (uuids_l l))%nat.
Proof.
  induction l as [|[k' c'] l IH]; [intros []|]. intros [Heq|Hin] z; rewrite uuids_l_cons, cnt_app.
  - inversion Heq; subst. lia.
  - specialize (IH Hin z). lia.
Qed.

Lemma step_refs c st st' : wf st -> step c st = Done st' ->
  forall r u, In (r, REph u) (refs st') -> In u (live st').
Proof.
  intros Hwf Hs r u Hin. pose proof (wf_nodup_live _ Hwf) as Hnd. pose proof (wf_refs _ Hwf) as Hr.
  assert (Hsr : forall r0 v, set_ref st r0 v = Done st' -> (v = REph u -> In u (live st)) -> In u (live st')).
  { intros r0 v Hset Hv. rewrite (set_ref_live _ _ _ _ Hset).
    destruct (set_ref_in _ _ _ _ _ _ Hset Hin) as [E|E]; [now apply Hv|eapply Hr; eassumption]. }
  destruct c; cbn [step] in Hs.
  - (* CXfer *)
    destruct (check_place st d) as [[]|]; [|discriminate]. cbn [obind] in Hs.
    destruct (take_src st s) as [[v st1]|] eqn:Ht; [|discriminate]. cbn [obind] in Hs.
    destruct (take_src_ok _ _ _ _ Hnd Ht) as (H1 & H2 & H3 & H4 & H5 & H6).
    apply put_place_ok in Hs; [|exact (nodup_live_le st st1 Hnd H5)].
    destruct Hs as (P1 & _ & _ & _ & P5). rewrite P1 in Hin.
    apply inval_in in Hin. destruct Hin as [Hin Hnot]. rewrite H1 in Hin.
    apply Hr in Hin. apply cnt_in. apply cnt_in in Hin. apply cnt_notin in Hnot.
    specialize (P5 u). rewrite live_invalidate in P5. specialize (H6 u). lia.
  - (* CDestroy *)
    destruct (assoc x (vars st)) as [r1|] eqn:Ha.
    + inversion Hs; subst; clear Hs. cbn [refs] in Hin.
      apply inval_in in Hin. destruct Hin as [Hin Hnot]. cbn [set_vars refs] in Hin.
      apply Hr in Hin. apply cnt_in. apply cnt_in in Hin. apply cnt_notin in Hnot.
      rewrite live_cnt in *. cbn [vars store invalidate set_refs set_vars].
      rewrite (assoc_remove_cnt (vars st) x u), Ha in Hin. cbn [uuids_opt] in Hin. lia.
    + inversion Hs; subst. eapply Hr; eassumption.
  - (* CSetTag *)
    destruct (base_res st b) as [r1|] eqn:Hb; [|discriminate]. cbn [obind] in Hs.
    inversion Hs; subst; clear Hs. cbn [subst_st refs] in Hin. apply Hr in Hin.
    apply cnt_in. apply cnt_in in Hin.
    pose proof (base_find _ _ _ Hnd Hb) as Hf.
    pose proof (subst_st_cnt st (r_uuid r1) (Rs (r_uuid r1) (r_ev r1) t (r_kids r1)) r1 Hnd Hf u) as H1.
    assert (cnt u (uuids (Rs (r_uuid r1) (r_ev r1) t (r_kids r1))) = cnt u (uuids r1)) as E
      by (destruct r1; cbn [r_uuid r_ev r_kids]; now rewrite !uuids_cnt).
    lia.
  - (* CRefVar *)
    apply (Hsr _ _ Hs). destruct (assoc x (vars st)) as [c|] eqn:Ha; cbn [rv_of_opt]; [|discriminate].
    intro E; inversion E; subst. apply assoc_in in Ha.
    apply cnt_in. rewrite live_cnt. pose proof (in_uuids_l _ _ _ Ha (r_uuid c)) as H.
    pose proof (root_in_uuids c) as H0. apply cnt_in in H0. lia.
  - (* CRefStep *)
    destruct (base_res st b) as [p|] eqn:Hb; [|discriminate]. cbn [obind] in Hs.
    pose proof (base_find _ _ _ Hnd Hb) as Hf. destruct (find_st_some _ _ _ Hf) as [_ Hle].
    assert (Hkid : forall c, peek_kid s (r_kids p) = Some c -> In (r_uuid c) (live st)).
    { intros c Hp. apply peek_in in Hp. apply cnt_in. apply cnt_in in Hp. specialize (Hle (r_uuid c)).
      destruct p as [pu pe pt pk]. cbn [r_kids] in Hp. rewrite uuids_cnt in Hle. lia. }
    destruct s; try discriminate.
    + apply (Hsr _ _ Hs). destruct (peek_kid SlOpt (r_kids p)) eqn:Hp; cbn [rv_of_opt]; [|discriminate].
      intro E; inversion E; subst. now apply Hkid.
    + destruct (peek_kid (SlArr i) (r_kids p)) eqn:Hp; [|discriminate].
      apply (Hsr _ _ Hs). intro E; inversion E; subst. now apply Hkid.
    + apply (Hsr _ _ Hs). destruct (peek_kid (SlDict k) (r_kids p)) eqn:Hp; cbn [rv_of_opt]; [|discriminate].
      intro E; inversion E; subst. now apply Hkid.
  - (* CRefUnwrap *)
    destruct (assoc r1 (refs st)) as [[|u1| |p t]|] eqn:Ha; try discriminate;
      apply (Hsr _ _ Hs); intro E; inversion E; subst.
    apply assoc_in in Ha. eapply Hr; eassumption.
  - (* CRefCast *)
    destruct (assoc r1 (refs st)) as [[|u1| |p t0]|] eqn:Ha; try discriminate.
    destruct (resolve_rv st (REph u1)) as [p|]; [|discriminate]. cbn [obind] in Hs.
    apply assoc_in in Ha.
    destruct (has_ty t p); [|destruct forced; [discriminate|]];
      apply (Hsr _ _ Hs); intro E; inversion E; subst. eapply Hr; eassumption.
  - (* CBorrow *)
    destruct (assoc p (store st)) as [x|]; [destruct (has_ty t x); [|discriminate]|];
      apply (Hsr _ _ Hs); intro E; inversion E.
  - (* CUse *)
    destruct (assoc r0 (refs st)) as [[|u1| |p t]|]; try discriminate.
    + destruct k; try discriminate. inversion Hs; subst. eapply Hr; eassumption.
    + destruct (resolve_rv st (REph u1)); [|discriminate]. cbn [obind] in Hs.
      inversion Hs; subst. eapply Hr; eassumption.
    + destruct (resolve_rv st (RSto p t)); [|discriminate]. cbn [obind] in Hs.
      inversion Hs; subst. eapply Hr; eassumption.
  - (* CShowVar *)
    inversion Hs; subst. eapply Hr; eassumption.
  - (* CRefCopy *)
    destruct (assoc r1 (refs st)) as [[|u1| |p t]|] eqn:Ha; try discriminate;
      apply (Hsr _ _ Hs); intro E; inversion E; subst.
    apply assoc_in in Ha. eapply Hr; eassumption.
Qed.

Lemma seqZ_split a b c z : a <= b -> b <= c ->
  cnt z (seqZ a c) = (cnt z (seqZ a b) + cnt z (seqZ b c))%nat.
Proof.
  intros. rewrite !seqZ_cnt.
  destruct (Z.leb_spec a z); destruct (Z.ltb_spec z c); destruct (Z.leb_spec b z); destruct (Z.ltb_spec z b);
    cbn [andb]; lia.
Qed.

Lemma wf_step c st st' : wf st -> step c st = Done st' -> wf st'.
Proof.
  intros Hwf Hs. pose proof (wf_nodup_live _ Hwf) as Hnd.
  destruct (step_acct _ _ _ Hnd Hs) as (Hn & _ & Ht).
  constructor.
  - intro z. rewrite Ht, seqZ_cnt. pose proof (wf_nodup _ Hwf z). pose proof (wf_fresh _ Hwf z).
    destruct (Z.leb_spec (next st) z); destruct (Z.ltb_spec z (next st')); cbn [andb]; lia.
  - intro z. rewrite Ht, seqZ_cnt. pose proof (wf_fresh _ Hwf z).
    destruct (Z.leb_spec (next st) z); destruct (Z.ltb_spec z (next st')); cbn [andb]; lia.
  - now apply (step_refs c st).
Qed.

(* whole command sequences: the state reached (also before a failing command) is well formed,
   and uuids are accounted for *)
Lemma run_obs_inv cs : forall st st' e, wf st -> run_obs cs st = (st', e) ->
  wf st' /\ next st <= next st' /\ (exists d, dead st' = dead st ++ d) /\
  forall z, tot z st' = (tot z st + cnt z (seqZ (next st) (next st')))%nat.
Proof.
  induction cs as [|c cs IH]; intros st st' e Hwf; cbn [run_obs].
  - intro H; inversion H; subst. split; [assumption|]. split; [lia|].
    split; [exists []; now rewrite app_nil_r|]. intro z. rewrite seqZ_nil, cnt_nil. lia.
  - destruct (step c st) as [st1|e1] eqn:Hs.
    + intro Hr. pose proof (wf_step _ _ _ Hwf Hs) as Hwf1.
      destruct (step_acct _ _ _ (wf_nodup_live _ Hwf) Hs) as (Hn & [d1 Hd1] & Ht).
      destruct (IH _ _ _ Hwf1 Hr) as (W & N & [d2 Hd2] & T).
      split; [assumption|]. split; [lia|]. split; [exists (d1 ++ d2); rewrite Hd2, Hd1; now rewrite app_assoc|].
      intro z. rewrite T, Ht, (seqZ_split (next st) (next st1) (next st') z) by lia. lia.
    + intro H; inversion H; subst. split; [assumption|]. split; [lia|].
      split; [exists []; now rewrite app_nil_r|]. intro z. rewrite seqZ_nil, cnt_nil. lia.
Qed.

Lemma run_obs_run cs : forall st st', run_obs cs st = (st', None) <-> run cs st = Done st'.
Proof.
  induction cs as [|c cs IH]; intros st st'; cbn [run_obs run].
  - split; intro H; inversion H; reflexivity.
  - destruct (step c st) as [st1|e1]; cbn [obind]; [apply IH|]. split; discriminate.
Qed.

(* ------------------------------------------------------------------ the destroy trace *)

Definition uuid3 (x : Z * bool * Z) : Z := fst (fst x).

Lemma destroy_trace_unfold u e t ks :
  destroy_trace (Rs u e t ks) = flat_map (fun p : label * rsrc => destroy_trace (snd p)) ks ++ [(u, e, t)].
Proof.
  cbn [destroy_trace]. f_equal. induction ks as [|[l c] ks IH]; cbn [flat_map snd]; [reflexivity|]. now rewrite IH.
Qed.

(* the destroy trace of a tree contains every resource of the tree exactly as often as the
   tree does: nested resources are destroyed with their container *)
Lemma destroy_trace_cnt r : forall z, cnt z (map uuid3 (destroy_trace r)) = cnt z (uuids r).
Proof.
  induction r as [u e t ks IH] using rsrc_ind2. intro z.
  rewrite destroy_trace_unfold, map_app, cnt_app, uuids_cnt. cbn [map uuid3 fst]. rewrite cnt_cons, cnt_nil.
  assert (cnt z (map uuid3 (flat_map (fun p : label * rsrc => destroy_trace (snd p)) ks)) = cnt z (uuids_l ks)) as ->; [|lia].
  induction ks as [|[l c] ks IHks]; [reflexivity|].
  apply Forall_cons_iff in IH. destruct IH as [Hc Hks]. cbn [snd] in Hc.
  cbn [flat_map snd]. rewrite map_app, cnt_app, uuids_l_cons, cnt_app, Hc, (IHks Hks). reflexivity.
Qed.

Lemma dead_trace_cnt (d : list rsrc) z :
  cnt z (map uuid3 (flat_map destroy_trace d)) = cnt z (flat_map uuids d).
Proof.
  induction d as [|r d IH]; [reflexivity|]. cbn [flat_map]. now rewrite map_app, !cnt_app, destroy_trace_cnt, IH.
Qed.

(* nested resources come before their container in the trace *)
Lemma destroy_trace_last u e t ks : exists pre, destroy_trace (Rs u e t ks) = pre ++ [(u, e, t)].
Proof. eexists. apply destroy_trace_unfold. Qed.

(* events: exactly one per destroyed resource that declares the event, none for the others *)
Lemma events_sub tr u : In u (map fst (events_of tr)) -> In u (map uuid3 tr).
Proof.
  unfold events_of. rewrite map_map. cbn [fst]. rewrite !in_map_iff.
  intros [x [Hx Hin]]. apply filter_In in Hin. exists x. split; [exact Hx|apply Hin].
Qed.

Lemma events_once tr : NoDup (map uuid3 tr) -> forall u e t, In (u, e, t) tr ->
  cnt u (map fst (events_of tr)) = if e then 1%nat else 0%nat.
Proof.
  induction tr as [|[[u' e'] t'] tr IH]; intros Hnd u e t Hin; [destruct Hin|].
  cbn [map uuid3 fst] in Hnd. apply NoDup_cons_iff in Hnd. destruct Hnd as [Hni Hnd].
  assert (Hev : events_of (((u', e'), t') :: tr) = if e' then (u', t') :: events_of tr else events_of tr).
  { unfold events_of. cbn [filter fst snd]. destruct e'; reflexivity. }
  rewrite Hev. destruct Hin as [Heq|Hin].
  - inversion Heq; subst.
    assert (cnt u (map fst (events_of tr)) = 0%nat) as H0.
    { apply cnt_notin. intro H. apply Hni. now apply events_sub. }
    destruct e; [cbn [map fst]; rewrite cnt_cons, H0; destruct (Z.eq_dec u u); [reflexivity|contradiction]|exact H0].
  - assert (u <> u').
    { intros ->. apply Hni. apply in_map_iff. exists (u', e, t). split; [reflexivity|assumption]. }
    destruct e'; [cbn [map fst]; rewrite cnt_cons; destruct (Z.eq_dec u' u); [congruence|]|];
      rewrite ?Nat.add_0_l; eapply IH; eassumption.
Qed.

(* ------------------------------------------------------------------ no internal error *)

Definition refs_ok (st : state) : Prop := forall r u, In (r, REph u) (refs st) -> In u (live st).

Lemma resolve_no_internal st r v : refs_ok st -> In (r, v) (refs st) -> resolve_rv st v <> Fail EInternal.
Proof.
  intros Hok Hin. destruct v as [|u| |p t]; cbn [resolve_rv]; try discriminate.
  - destruct (find_st_in st u (Hok _ _ Hin)) as [x ->]. discriminate.
  - unfold deref_sto. destruct (assoc p (store st)) as [x|]; [destruct (has_ty t x)|]; discriminate.
Qed.

Lemma base_no_internal st b : refs_ok st -> base_res st b <> Fail EInternal.
Proof.
  intros Hok. destruct b as [x|r|p]; cbn [base_res].
  - destruct (assoc x (vars st)); discriminate.
  - destruct (assoc r (refs st)) as [v|] eqn:Ha; [|discriminate].
    eapply resolve_no_internal; [eassumption|apply assoc_in; eassumption].
  - destruct (assoc p (store st)); discriminate.
Qed.

Lemma take_slot_no_internal s r : take_slot s r <> Fail EInternal.
Proof.
  destruct r as [u e t ks]. unfold take_slot. destruct s; try discriminate;
    destruct (peek_kid _ ks); discriminate.
Qed.

Lemma put_slot_no_internal s c r : put_slot s c r <> Fail EInternal.
Proof.
  destruct r as [u e t ks]. unfold put_slot. destruct s.
  - destruct (peek_kid SlOpt ks); [discriminate|]. destruct c; discriminate.
  - destruct c; [|discriminate]. destruct (put_arr i r ks); discriminate.
  - destruct c; discriminate.
  - destruct (peek_kid (SlDict k) ks); [discriminate|]. destruct c; discriminate.
Qed.

Lemma take_place_no_internal st pl : refs_ok st -> take_place st pl <> Fail EInternal.
Proof.
  intros Hok. destruct pl as [x|p|b s]; cbn [take_place]; try discriminate.
  pose proof (base_no_internal st b Hok). destruct (base_res st b) as [r|e]; cbn [obind]; [|congruence].
  pose proof (take_slot_no_internal s r). destruct (take_slot s r) as [[c r']|e]; cbn [obind]; [discriminate|congruence].
Qed.

Lemma put_place_no_internal st pl c : refs_ok st -> put_place st pl c <> Fail EInternal.
Proof.
  intros Hok. destruct pl as [x|p|b s]; cbn [put_place].
  - destruct (assoc x (vars st)); [discriminate|]. destruct c; discriminate.
  - destruct c; [|discriminate]. destruct (assoc p (store st)); discriminate.
  - pose proof (base_no_internal st b Hok). destruct (base_res st b) as [r|e]; cbn [obind]; [|congruence].
    pose proof (put_slot_no_internal s c r). destruct (put_slot s c r) as [r'|e]; cbn [obind]; [discriminate|congruence].
Qed.

Lemma xfer_mid_refs_ok st s v st1 : wf st -> take_src st s = Done (v, st1) ->
  refs_ok (invalidate (uuids_opt v) st1).
Proof.
  intros Hwf Ht r u Hin. pose proof (wf_nodup_live _ Hwf) as Hnd.
  destruct (take_src_ok _ _ _ _ Hnd Ht) as (H1 & H2 & H3 & H4 & H5 & H6).
  apply inval_in in Hin. destruct Hin as [Hin Hnot]. rewrite H1 in Hin.
  apply (wf_refs _ Hwf) in Hin. rewrite live_invalidate.
  apply cnt_in. apply cnt_in in Hin. apply cnt_notin in Hnot. specialize (H6 u). lia.
Qed.

Lemma take_src_no_internal st s : refs_ok st -> take_src st s <> Fail EInternal.
Proof.
  intros Hok. destruct s as [pl req cast|ev tg|]; cbn [take_src]; try discriminate.
  pose proof (take_place_no_internal st pl Hok).
  destruct (take_place st pl) as [[c0 st0]|e0]; cbn [obind]; [|congruence].
  destruct c0; [destruct cast as [t|]; [destruct (has_ty t r)|]|destruct req]; try discriminate.
  destruct pl; cbn [cast_err]; discriminate.
Qed.

(* the defensive failure of the model (a usable reference whose target cannot be found) is
   unreachable: no step from a well-formed state fails with EInternal *)
Lemma no_internal c st : wf st -> step c st <> Fail EInternal.
Proof.
  intros Hwf. pose proof (wf_refs _ Hwf) as Hok. change (refs_ok st) in Hok.
  destruct c; cbn [step].
  - assert (Htail : (do cs <- take_src st s; let '(v, st1) := cs in
                     put_place (invalidate (uuids_opt v) st1) d v) <> Fail EInternal).
    { pose proof (xfer_mid_refs_ok st s) as Hmid. pose proof (take_src_no_internal st s Hok).
      destruct (take_src st s) as [[v st1]|e] eqn:Ht; cbn [obind]; [|congruence].
      apply put_place_no_internal. now apply Hmid. }
    unfold check_place. destruct d as [x|p|b sl]; cbn [obind]; try exact Htail.
    pose proof (base_no_internal st b Hok). destruct (base_res st b) as [rb|eb]; cbn [obind]; [exact Htail|congruence].
  - destruct (assoc x (vars st)); discriminate.
  - pose proof (base_no_internal st b Hok). destruct (base_res st b); cbn [obind]; [discriminate|congruence].
  - unfold set_ref. destruct (fresh_ref st r); discriminate.
  - pose proof (base_no_internal st b Hok). destruct (base_res st b) as [p|]; cbn [obind]; [|congruence].
    unfold set_ref. destruct s; try discriminate; try (destruct (peek_kid _ (r_kids p)); [|discriminate]);
      destruct (fresh_ref st r); discriminate.
  - unfold set_ref. destruct (assoc r0 (refs st)) as [[| | |]|]; try discriminate; destruct (fresh_ref st r); discriminate.
  - destruct (assoc r0 (refs st)) as [[|u| |]|] eqn:Ha; try discriminate.
    pose proof (resolve_no_internal st r0 (REph u) Hok (assoc_in _ _ _ Ha)).
    destruct (resolve_rv st (REph u)) as [p|]; cbn [obind]; [|congruence].
    unfold set_ref. destruct (has_ty t p); [|destruct forced; [discriminate|]]; destruct (fresh_ref st r); discriminate.
  - unfold set_ref. destruct (assoc p (store st)) as [x|]; [destruct (has_ty t x); [|discriminate]|];
      destruct (fresh_ref st r); discriminate.
  - destruct (assoc r (refs st)) as [v|] eqn:Ha; [|discriminate].
    pose proof (resolve_no_internal st r v Hok (assoc_in _ _ _ Ha)).
    destruct v; try (destruct k; discriminate);
      (destruct (resolve_rv st _); cbn [obind]; [discriminate|congruence]).
  - discriminate.
  - unfold set_ref. destruct (assoc r0 (refs st)) as [[| | |]|]; try discriminate; destruct (fresh_ref st r); discriminate.
Qed.

(* ------------------------------------------------------------------ transactions *)

Record pwf (p : pstate) : Prop := mkPwf {
  pwf_nodup : forall z, (cnt z (uuids_l (p_store p)) <= 1)%nat;
  pwf_fresh : forall z, (cnt z (uuids_l (p_store p)) > 0)%nat -> z < p_next p
}.

Lemma tot_begin p z : tot z (begin_tx p) = cnt z (uuids_l (p_store p)).
Proof. unfold tot, live, dead_uuids, begin_tx. cbn [vars store dead flat_map]. unfold uuids_l at 1. cbn [flat_map]. rewrite cnt_app, !cnt_nil. lia. Qed.

Lemma begin_wf p : pwf p -> wf (begin_tx p).
Proof.
  intros [H1 H2]. constructor.
  - intro z. rewrite tot_begin. apply H1.
  - intro z. rewrite tot_begin. apply H2.
  - intros r u [].
Qed.

Lemma tot_final st z : vars st = [] -> tot z st = (cnt z (uuids_l (store st)) + cnt z (flat_map uuids (dead st)))%nat.
Proof. intro H. unfold tot, live, dead_uuids. rewrite H. unfold uuids_l at 1. cbn [flat_map]. rewrite cnt_app, cnt_nil. lia. Qed.

Lemma run_tx_inv cs p p' o : pwf p -> run_tx cs p = (p', o) ->
  p_next p <= p_next p' /\ o_next o = p_next p' /\ o_store o = p_store p' /\
  (tx_ok o = false -> p_store p' = p_store p) /\
  (tx_ok o = true ->
     forall z, (cnt z (uuids_l (p_store p)) + cnt z (seqZ (p_next p) (p_next p')) =
                cnt z (uuids_l (p_store p')) + cnt z (flat_map uuids (o_dead o)))%nat).
Proof.
  intros Hp. unfold run_tx. destruct (run_obs cs (begin_tx p)) as [st e] eqn:Hr.
  destruct (run_obs_inv _ _ _ _ (begin_wf _ Hp) Hr) as (W & N & _ & T). cbn [begin_tx next] in N.
  destruct e as [x|].
  - intro H; inversion H; subst; clear H. cbn [p_next p_store o_next o_store tx_ok o_err].
    repeat split; try lia; try reflexivity; try discriminate.
  - destruct (vars st) eqn:Hv.
    + intro H; inversion H; subst; clear H. cbn [p_next p_store o_next o_store o_dead tx_ok o_err].
      repeat split; try lia; try reflexivity; try discriminate.
      intros _ z. specialize (T z). rewrite tot_begin, (tot_final _ _ Hv) in T. cbn [begin_tx next] in T. lia.
    + intro H; inversion H; subst; clear H. cbn [p_next p_store o_next o_store tx_ok o_err].
      repeat split; try lia; try reflexivity; try discriminate.
Qed.

(* ------------------------------------------------------------------ histories *)

(* [D]: uuids destroyed so far by successful transactions *)
Definition hinv (p : pstate) (D : list Z) : Prop :=
  (forall z, (cnt z (uuids_l (p_store p)) + cnt z D <= 1)%nat) /\
  (forall z, (cnt z (uuids_l (p_store p)) + cnt z D > 0)%nat -> z < p_next p).

Lemma hinv_pwf p D : hinv p D -> pwf p.
Proof.
  intros [H1 H2]. constructor; intro z; [specialize (H1 z); lia|intro; apply H2; lia].
Qed.

Lemma destroyed_ok_cons o os :
  destroyed_ok (o :: os) = (if tx_ok o then flat_map destroy_trace (o_dead o) else []) ++ destroyed_ok os.
Proof. reflexivity. Qed.

Lemma run_hist_inv h : forall p D p' os, hinv p D -> run_hist h p = (p', os) ->
  hinv p' (D ++ map uuid3 (destroyed_ok os)) /\
  forall z, (cnt z (uuids_l (p_store p)) + cnt z (created_ok (p_next p) os) =
             cnt z (uuids_l (p_store p')) + cnt z (map uuid3 (destroyed_ok os)))%nat.
Proof.
  induction h as [|t h IH]; intros p D p' os Hi; cbn [run_hist].
  - intro H; inversion H; subst. cbn [destroyed_ok flat_map map created_ok]. rewrite app_nil_r.
    split; [assumption|]. intro z. lia.
  - destruct (run_tx t p) as [p1 o] eqn:Ht. destruct (run_hist h p1) as [p2 os'] eqn:Hh.
    intro H; inversion H; subst; clear H.
    destruct (run_tx_inv _ _ _ _ (hinv_pwf _ _ Hi) Ht) as (N & E1 & E2 & Hfail & Hok).
    destruct Hi as [I1 I2].
    assert (Hi1 : hinv p1 (D ++ map uuid3 (if tx_ok o then flat_map destroy_trace (o_dead o) else []))).
    { destruct (tx_ok o) eqn:Eo.
      - specialize (Hok eq_refl). unfold hinv. split; intro z; rewrite cnt_app, dead_trace_cnt; specialize (Hok z);
          specialize (I1 z); specialize (I2 z); rewrite seqZ_cnt in Hok;
          destruct (Z.leb_spec (p_next p) z); destruct (Z.ltb_spec z (p_next p1)); cbn [andb] in Hok; lia.
      - unfold hinv. rewrite (Hfail eq_refl). cbn [map]. rewrite app_nil_r. split; intro z; specialize (I1 z); specialize (I2 z); lia. }
    destruct (IH _ _ _ _ Hi1 Hh) as [Hi2 Hc].
    rewrite destroyed_ok_cons, map_app, app_assoc. split; [exact Hi2|].
    intro z. cbn [created_ok]. rewrite !cnt_app, E1. specialize (Hc z).
    destruct (tx_ok o) eqn:Eo.
    + specialize (Hok eq_refl z). rewrite dead_trace_cnt. lia.
    + rewrite (Hfail eq_refl) in Hc. cbn [map]. rewrite !cnt_nil. lia.
Qed.

Lemma hinv_init n : hinv (mkP [] n) [].
Proof. split; intro z; cbn [p_store]; unfold uuids_l; cbn [flat_map]; rewrite !cnt_nil; lia. Qed.

(* ------------------------------------------------------------------ main theorems *)

(* conservation: over any history started from empty storage, the uuids created by successful
   transactions are exactly the destroyed ones plus the ones in committed storage at the end *)
Theorem conservation h n0 p' os : run_hist h (mkP [] n0) = (p', os) ->
  Permutation (created_ok n0 os) (map uuid3 (destroyed_ok os) ++ uuids_l (p_store p')).
Proof.
  intro H. destruct (run_hist_inv h _ _ _ _ (hinv_init n0) H) as [_ Hc].
  apply perm_cnt. intro z. specialize (Hc z). cbn [p_store p_next] in Hc.
  unfold uuids_l at 1 in Hc. cbn [flat_map] in Hc. rewrite cnt_nil in Hc. rewrite cnt_app. lia.
Qed.

(* no uuid is destroyed twice, stored twice, or both destroyed and stored *)
Theorem destroyed_stored_unique h n0 p' os : run_hist h (mkP [] n0) = (p', os) ->
  NoDup (map uuid3 (destroyed_ok os) ++ uuids_l (p_store p')).
Proof.
  intro H. destruct (run_hist_inv h _ _ _ _ (hinv_init n0) H) as [[H1 _] _].
  apply nodup_cnt. intro z. specialize (H1 z). cbn [app] in H1. rewrite cnt_app. lia.
Qed.

(* exactly one destruction event for each destroyed resource whose type declares it (nested
   ones included, since the trace of a tree covers the whole tree), none for the others *)
Theorem events_exactly_once h n0 p' os : run_hist h (mkP [] n0) = (p', os) ->
  forall u e t, In (u, e, t) (destroyed_ok os) ->
  cnt u (map fst (events_of (destroyed_ok os))) = if e then 1%nat else 0%nat.
Proof.
  intros H u e t Hin. eapply events_once; [|eassumption].
  pose proof (destroyed_stored_unique _ _ _ _ H) as Hnd. apply nodup_cnt. intro z.
  rewrite nodup_cnt in Hnd. specialize (Hnd z). rewrite cnt_app in Hnd. lia.
Qed.

(* the same from any well-formed committed state, in particular from the one in which the
   contract (a stored value that owns resources without being one) is present *)
Theorem conservation_from h p p' os : hinv p [] -> run_hist h p = (p', os) ->
  Permutation (uuids_l (p_store p) ++ created_ok (p_next p) os)
              (map uuid3 (destroyed_ok os) ++ uuids_l (p_store p')) /\
  NoDup (map uuid3 (destroyed_ok os) ++ uuids_l (p_store p')) /\
  forall u e t, In (u, e, t) (destroyed_ok os) ->
    cnt u (map fst (events_of (destroyed_ok os))) = if e then 1%nat else 0%nat.
Proof.
  intros Hi H. destruct (run_hist_inv h _ _ _ _ Hi H) as [[H1 _] Hc].
  assert (Hnd : NoDup (map uuid3 (destroyed_ok os) ++ uuids_l (p_store p'))).
  { apply nodup_cnt. intro z. specialize (H1 z). cbn [app] in H1. rewrite cnt_app. lia. }
  split; [|split; [exact Hnd|]].
  - apply perm_cnt. intro z. specialize (Hc z). rewrite !cnt_app. lia.
  - intros u e t Hin. eapply events_once; [|eassumption].
    apply nodup_cnt. intro z. rewrite nodup_cnt in Hnd. specialize (Hnd z). rewrite cnt_app in Hnd. lia.
Qed.

Lemma hinv_contract n : 0 < n -> hinv (init_pstate n) [].
Proof.
  intro Hn. unfold init_pstate, contract_value. split; intro z; cbn [p_store p_next];
    unfold uuids_l; cbn [flat_map snd]; rewrite app_nil_r, uuids_cnt; unfold uuids_l; cbn [flat_map];
    rewrite !cnt_nil; destruct (Z.eq_dec 0 z); lia.
Qed.

(* reachable states: inside any transaction of any history *)
Inductive preach : pstate -> Prop :=
| preach_init : forall n, preach (mkP [] n)
| preach_contract : forall n, 0 < n -> preach (init_pstate n)
| preach_tx : forall p cs, preach p -> preach (fst (run_tx cs p)).

Inductive reach : state -> Prop :=
| reach_begin : forall p, preach p -> reach (begin_tx p)
| reach_step : forall st c st', reach st -> step c st = Done st' -> reach st'.

Lemma preach_pwf p : preach p -> pwf p.
Proof.
  induction 1 as [n|n Hn|p cs Hp IH].
  - apply (hinv_pwf _ []). apply hinv_init.
  - apply (hinv_pwf _ []). now apply hinv_contract.
  - destruct (run_tx cs p) as [p' o] eqn:Ht. cbn [fst].
    pose proof Ht as Ht'. unfold run_tx in Ht'. destruct (run_obs cs (begin_tx p)) as [st e] eqn:Hr.
    destruct (run_obs_inv _ _ _ _ (begin_wf _ IH) Hr) as (W & N & _ & T). cbn [begin_tx next] in N.
    assert (Hkeep : pwf (mkP (p_store p) (next st))).
    { destruct IH as [H1 H2]. constructor; cbn [p_store p_next]; [exact H1|]. intros z Hz. specialize (H2 z Hz). lia. }
    destruct e as [x|]; [inversion Ht'; subst; exact Hkeep|].
    destruct (vars st) eqn:Hv; [|inversion Ht'; subst; exact Hkeep].
    inversion Ht'; subst. constructor; cbn [p_store p_next]; intro z.
    + pose proof (wf_nodup _ W z) as Hz. rewrite (tot_final _ _ Hv) in Hz. lia.
    + intro Hz. apply (wf_fresh _ W z). rewrite (tot_final _ _ Hv). lia.
Qed.

Lemma reach_wf st : reach st -> wf st.
Proof.
  induction 1 as [p Hp|st c st' _ IH Hs].
  - apply begin_wf. now apply preach_pwf.
  - eapply wf_step; eassumption.
Qed.

(* the invariant: in every reachable state each uuid is owned by exactly one location, is
   not among the destroyed ones, and is below the counter *)
Theorem live_unique st : reach st ->
  NoDup (live st ++ dead_uuids st) /\ forall u, In u (live st) -> u < next st.
Proof.
  intro H. apply reach_wf in H. split.
  - apply nodup_cnt. intro z. pose proof (wf_nodup _ H z). unfold tot in *. rewrite cnt_app. lia.
  - intros u Hin. apply (wf_fresh _ H). apply cnt_in in Hin. unfold tot. lia.
Qed.

Theorem reach_no_internal st c : reach st -> step c st <> Fail EInternal.
Proof. intro H. apply no_internal. now apply reach_wf. Qed.

(* destroying a variable destroys everything nested in its content, in the code's order:
   nested resources first, the container last *)
Theorem destroy_covers_nested st x r st' : assoc x (vars st) = Some r -> step (CDestroy x) st = Done st' ->
  dead st' = dead st ++ [r] /\
  (forall z, cnt z (map uuid3 (destroy_trace r)) = cnt z (uuids r)) /\
  exists pre, destroy_trace r = pre ++ [(r_uuid r, r_ev r, r_tag r)].
Proof.
  intros Ha. cbn [step]. rewrite Ha. intro H; inversion H; subst; clear H. cbn [dead invalidate set_refs set_vars].
  split; [reflexivity|]. split; [apply destroy_trace_cnt|]. destruct r. apply destroy_trace_last.
Qed.

Lemma reach_run cs : forall st st', reach st -> run cs st = Done st' -> reach st'.
Proof.
  induction cs as [|c cs IH]; intros st st' Hr; cbn [run].
  - intro H; inversion H; subst; assumption.
  - destruct (step c st) as [st1|] eqn:Hs; cbn [obind]; [|discriminate].
    apply IH. eapply reach_step; eassumption.
Qed.

(* ------------------------------------------------------------------ the known defect *)
From CV Require Import C02.Defect.

(* the VM-shaped swap on a member index loses resources: from a reachable state, uuids 3 and 4
   are live before and neither live nor destroyed afterwards *)
Lemma vm_swap_member_index_refuted : ~ vm_swap_member_index_conserves.
Proof.
  intro H.
  destruct (run defect_cmds (begin_tx (mkP [] 1))) as [st|] eqn:Hr; [|vm_compute in Hr; discriminate].
  destruct (vm_swap_member_index 1 0 4 st) as [st'|] eqn:Hs;
    [|vm_compute in Hr; inversion Hr; subst; vm_compute in Hs; discriminate].
  specialize (H 1 0%nat 4 st st' Hs 3).
  vm_compute in Hr. inversion Hr; subst. vm_compute in Hs. inversion Hs; subst.
  assert (Hin : In 3 (live (mkSt [(4, Rs 4 true 7 []); (1, Rs 1 false 2 [(KArr, Rs 2 true 6 []); (KArr, Rs 3 true 8 [])])]
                            [] [] 5 [] []))) by (vm_compute; tauto).
  apply H in Hin. vm_compute in Hin. intuition discriminate.
Qed.

Lemma defect_state_reachable : exists st, run defect_cmds (begin_tx (mkP [] 1)) = Done st /\ reach st.
Proof.
  destruct (run defect_cmds (begin_tx (mkP [] 1))) as [st|] eqn:Hr; [|vm_compute in Hr; discriminate].
  exists st. split; [reflexivity|]. eapply reach_run; [|exact Hr]. apply reach_begin. apply preach_init.
Qed.
