(* C02 / C04 — check functions evaluated (vm_compute) by the per-run case files.
   A case = one generated history (list of transactions = lists of commands), the value of the
   host's uuid counter before it, and what one engine (interpreter or VM) was observed to do
   for each transaction.  [check_case] runs the model and compares. *)
From Coq Require Import ZArith List Bool.
From CV Require Export Base.Prelude C02.Model.
Import ListNotations.
Open Scope Z_scope.

Definition label_eqb (a b : label) : bool :=
  match a, b with
  | KOpt, KOpt | KArr, KArr => true
  | KDict k, KDict k' => k =? k'
  | _, _ => false
  end.

Fixpoint rsrc_eqb (a b : rsrc) {struct a} : bool :=
  match a, b with
  | Rs u e t ks, Rs u' e' t' ks' =>
      (u =? u') && Bool.eqb e e' && (t =? t') &&
      (fix go (l : list (label * rsrc)) (l' : list (label * rsrc)) : bool :=
         match l, l' with
         | [], [] => true
         | (lb, c) :: r, (lb', c') :: r' => label_eqb lb lb' && rsrc_eqb c c' && go r r'
         | _, _ => false
         end) ks ks'
  end.

Definition opt_eqb {A} (f : A -> A -> bool) (a b : option A) : bool :=
  match a, b with
  | Some x, Some y => f x y
  | None, None => true
  | _, _ => false
  end.

Fixpoint list_eqb {A} (f : A -> A -> bool) (a b : list A) : bool :=
  match a, b with
  | [], [] => true
  | x :: r, y :: r' => f x y && list_eqb f r r'
  | _, _ => false
  end.

Definition logent_eqb (a b : logent) : bool :=
  match a, b with
  | LInt x, LInt y => x =? y
  | LNil, LNil => true
  | LTree x, LTree y => opt_eqb rsrc_eqb x y
  | _, _ => false
  end.

(* ---- events: one per destroyed resource declaring the event; nested before container;
        array elements in index order; fields of one resource in any order (the code iterates
        the field map of the composite, whose order depends on hashing) *)

Definition ev_list (r : rsrc) : list (Z * Z) := events_of (destroy_trace r).
Definition ev_uuids (r : rsrc) : list Z := map fst (ev_list r).

Fixpoint arr_pairs (ls : list (list Z)) : list (Z * Z) :=
  match ls with
  | [] => []
  | l :: rest => flat_map (fun x => map (fun y => (x, y)) (concat rest)) l ++ arr_pairs rest
  end.

Fixpoint order_pairs (r : rsrc) : list (Z * Z) :=
  match r with
  | Rs u e t ks =>
      flat_map (fun p : label * rsrc => let '(_, c) := p in order_pairs c) ks
      ++ (if e then map (fun d => (d, u)) (flat_map (fun p : label * rsrc => ev_uuids (snd p)) ks) else [])
      ++ arr_pairs (map (fun p : label * rsrc => ev_uuids (snd p))
                        (filter (fun p : label * rsrc => is_arr (fst p)) ks))
  end.

Fixpoint index_of (z : Z) (l : list Z) : nat :=
  match l with
  | [] => O
  | x :: r => if x =? z then O else S (index_of z r)
  end.

Fixpoint insert_sorted (x : Z * Z) (l : list (Z * Z)) : list (Z * Z) :=
  match l with
  | [] => [x]
  | y :: r => if fst x <=? fst y then x :: l else y :: insert_sorted x r
  end.
Definition sort_pairs (l : list (Z * Z)) : list (Z * Z) := fold_right insert_sorted [] l.

Definition pair_eqb (a b : Z * Z) : bool := (fst a =? fst b) && (snd a =? snd b).

Definition check_seg (r : rsrc) (seg : list (Z * Z)) : bool :=
  list_eqb pair_eqb (sort_pairs (ev_list r)) (sort_pairs seg) &&
  forallb (fun p : Z * Z => Nat.ltb (index_of (fst p) (map fst seg)) (index_of (snd p) (map fst seg)))
          (order_pairs r).

Fixpoint check_events (dead : list rsrc) (obs : list (Z * Z)) : bool :=
  match dead with
  | [] => match obs with [] => true | _ => false end
  | r :: rest =>
      let n := length (ev_list r) in
      check_seg r (firstn n obs) && check_events rest (skipn n obs)
  end.

(* ---- committed storage, compared sorted by path *)

Fixpoint insert_store (x : Z * rsrc) (l : list (Z * rsrc)) : list (Z * rsrc) :=
  match l with
  | [] => [x]
  | y :: r => if fst x <=? fst y then x :: l else y :: insert_store x r
  end.
Definition sort_store (l : list (Z * rsrc)) : list (Z * rsrc) := fold_right insert_store [] l.

Definition store_eqb (a b : list (Z * rsrc)) : bool :=
  list_eqb (fun x y : Z * rsrc => (fst x =? fst y) && rsrc_eqb (snd x) (snd y)) (sort_store a) (sort_store b).

(* ---- one observed transaction *)

Record rawobs := mkRaw {
  e_err    : option rerr;
  e_next   : Z;                 (* host uuid counter afterwards + 1 = next uuid *)
  e_logs   : list logent;
  e_events : list (Z * Z);      (* (uuid, tag) of ResourceDestroyed events, in emission order *)
  e_store  : list (Z * rsrc)    (* committed storage afterwards, as read back by a script *)
}.

Definition check_tx (o : txobs) (e : rawobs) : bool :=
  opt_eqb rerr_eqb (o_err o) (e_err e) &&
  (o_next o =? e_next e) &&
  list_eqb logent_eqb (o_logs o) (e_logs e) &&
  check_events (o_dead o) (e_events e) &&
  store_eqb (o_store o) (e_store e).

Fixpoint check_txs (os : list txobs) (es : list rawobs) : bool :=
  match os, es with
  | [], [] => true
  | o :: r, e :: r' => check_tx o e && check_txs r r'
  | _, _ => false
  end.

(* (uuid counter before, history, observations of one engine) *)
Definition check_case (c : Z * list (list cmd) * list rawobs) : bool :=
  let '(n0, h, es) := c in
  check_txs (snd (run_hist h (init_pstate n0))) es.

