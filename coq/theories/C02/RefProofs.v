(* C04 — references to moved or destroyed resources become unusable: proofs over the model
   of C02/Model.v (the invariant [wf] and the uuid accounting come from C02/Proofs.v). *)
From Coq Require Import ZArith List Bool Lia.
From CV Require Import C02.Model C02.Proofs.
Import ListNotations.
Open Scope Z_scope.

(* ------------------------------------------------------------------ what a command moves *)

(* content of a place: a pure look-up, independent of [step] *)
Definition content (st : state) (pl : place) : option rsrc :=
  match pl with
  | PVar x => assoc x (vars st)
  | PSto p => assoc p (store st)
  | PChild b s => match base_res st b with Done r => peek_kid s (r_kids r) | Fail _ => None end
  end.

(* the resource (with everything nested in it) that a command moves or destroys *)
Definition moved_by (c : cmd) (st : state) : option rsrc :=
  match c with
  | CXfer _ (SPlace pl _ _) => content st pl
  | CDestroy x => assoc x (vars st)
  | _ => None
  end.

Lemma take_place_content st pl c st1 : take_place st pl = Done (c, st1) -> c = content st pl.
Proof.
  destruct pl as [x|p|b s]; cbn [take_place content].
  - intro H; inversion H; reflexivity.
  - intro H; inversion H; reflexivity.
  - destruct (base_res st b) as [r|]; [|discriminate]. cbn [obind].
    destruct r as [u e t ks]. unfold take_slot. cbn [r_kids].
    destruct s; try discriminate; destruct (peek_kid _ ks) eqn:Hp; cbn [obind fst snd];
      intro H; inversion H; subst; reflexivity.
Qed.

(* ------------------------------------------------------------------ shape of the reference table *)

Definition inval_refs (us : list Z) (l : list (Z * rv)) : list (Z * rv) :=
  map (fun p : Z * rv => (fst p, inval_rv us (snd p))) l.

Lemma assoc_inval us l r : assoc r (inval_refs us l) = option_map (inval_rv us) (assoc r l).
Proof.
  induction l as [|[k v] l IH]; cbn [inval_refs map assoc fst snd option_map]; [reflexivity|].
  destruct (r =? k); [reflexivity|exact IH].
Qed.

Lemma inval_nil l : inval_refs [] l = l.
Proof.
  induction l as [|[k v] l IH]; cbn [inval_refs map fst snd]; [reflexivity|].
  fold (inval_refs [] l). rewrite IH. destruct v; reflexivity.
Qed.

Lemma set_ref_shape st r v st' : set_ref st r v = Done st' ->
  assoc r (refs st) = None /\ refs st' = (r, v) :: refs st.
Proof.
  unfold set_ref, fresh_ref. destruct (assoc r (refs st)); [discriminate|].
  intro H; inversion H; subst. split; reflexivity.
Qed.

(* the uuids whose references a command clears *)
Definition cleared (c : cmd) (st : state) : list Z :=
  match c with
  | CXfer _ (SPlace pl _ _) => uuids_opt (content st pl)
  | CXfer _ (SNew _ _) => [next st]
  | CDestroy x => uuids_opt (assoc x (vars st))
  | _ => []
  end.

Lemma xfer_refs d s st st' : step (CXfer d s) st = Done st' ->
  refs st' = inval_refs (cleared (CXfer d s) st) (refs st).
Proof.
  cbn [step cleared].
  destruct (check_place st d) as [[]|]; [|discriminate]. cbn [obind].
  destruct (take_src st s) as [[v st1]|] eqn:Ht; [|discriminate]. cbn [obind].
  intro Hp.
  assert (Hrefs : refs st' = refs (invalidate (uuids_opt v) st1)).
  { destruct d as [x|p|b sl]; cbn [put_place] in Hp.
    - destruct (assoc x (vars (invalidate (uuids_opt v) st1))); [discriminate|].
      destruct v; inversion Hp; reflexivity.
    - destruct v; [|discriminate]. destruct (assoc p (store (invalidate (uuids_opt (Some r)) st1))); [discriminate|].
      inversion Hp; reflexivity.
    - destruct (base_res (invalidate (uuids_opt v) st1) b) as [rb|]; [|discriminate]. cbn [obind] in Hp.
      destruct (put_slot sl v rb); [|discriminate]. cbn [obind] in Hp. inversion Hp; reflexivity. }
  rewrite Hrefs. cbn [invalidate set_refs refs]. fold (inval_refs (uuids_opt v) (refs st1)).
  destruct s as [pl req cast|e t|]; cbn [take_src] in Ht.
  + destruct (take_place st pl) as [[c0 st0]|] eqn:Htp; [|discriminate]. cbn [obind] in Ht.
    pose proof (take_place_content _ _ _ _ Htp) as Hc.
    assert (Hr0 : refs st0 = refs st).
    { destruct pl as [x|p|b sl]; cbn [take_place] in Htp.
      - inversion Htp; reflexivity.
      - inversion Htp; reflexivity.
      - destruct (base_res st b) as [rb|]; [|discriminate]. cbn [obind] in Htp.
        destruct (take_slot sl rb); [|discriminate]. cbn [obind] in Htp. inversion Htp; reflexivity. }
    destruct c0 as [r0|].
    * destruct cast as [t|]; [destruct (has_ty t r0); [|discriminate]|];
        inversion Ht; subst; rewrite <- Hc, Hr0; reflexivity.
    * destruct req; [discriminate|]. inversion Ht; subst. rewrite <- Hc, Hr0. reflexivity.
  + inversion Ht; subst. reflexivity.
  + inversion Ht; subst. reflexivity.
Qed.

Lemma destroy_refs x st st' : step (CDestroy x) st = Done st' ->
  refs st' = inval_refs (cleared (CDestroy x) st) (refs st).
Proof.
  cbn [step cleared]. destruct (assoc x (vars st)) as [r|]; intro H; inversion H; subst; cbn [refs uuids_opt].
  - reflexivity.
  - now rewrite inval_nil.
Qed.

(* after a successful step the reference table is the old one with exactly the references to
   the cleared uuids invalidated, possibly extended by one fresh reference variable *)
Lemma step_refs_shape c st st' : step c st = Done st' ->
  refs st' = inval_refs (cleared c st) (refs st) \/
  exists r v, assoc r (refs st) = None /\ refs st' = (r, v) :: refs st.
Proof.
  assert (Hsr : forall r v, set_ref st r v = Done st' ->
            refs st' = inval_refs [] (refs st) \/
            exists r v, assoc r (refs st) = None /\ refs st' = (r, v) :: refs st).
  { intros r v H. right. exists r, v. now apply set_ref_shape. }
  destruct c; try (intro H; left; now apply xfer_refs); try (intro H; left; now apply destroy_refs);
    cbn [step cleared].
  - destruct (base_res st b) as [r|]; [|discriminate]. cbn [obind]. intro H; inversion H; subst.
    left. cbn [subst_st refs]. now rewrite inval_nil.
  - apply Hsr.
  - destruct (base_res st b) as [p|]; [|discriminate]. cbn [obind].
    destruct s; try discriminate; try (destruct (peek_kid _ (r_kids p)); [|discriminate]); apply Hsr.
  - destruct (assoc r0 (refs st)) as [[| | |]|]; try discriminate; apply Hsr.
  - destruct (assoc r0 (refs st)) as [[|u| |]|]; try discriminate.
    destruct (resolve_rv st (REph u)) as [p|]; [|discriminate]. cbn [obind].
    destruct (has_ty t p); [|destruct forced; [discriminate|]]; apply Hsr.
  - destruct (assoc p (store st)) as [x|]; [destruct (has_ty t x); [|discriminate]|]; apply Hsr.
  - intro Hs0. left. rewrite inval_nil. revert Hs0.
    destruct (assoc r (refs st)) as [[|u| |p t]|]; try discriminate.
    + destruct k; try discriminate. intro H; inversion H; reflexivity.
    + destruct (resolve_rv st (REph u)); [|discriminate]. cbn [obind]. intro H; inversion H; reflexivity.
    + destruct (resolve_rv st (RSto p t)); [|discriminate]. cbn [obind]. intro H; inversion H; reflexivity.
  - intro H; inversion H; subst. left. rewrite inval_nil. reflexivity.
  - destruct (assoc r0 (refs st)) as [[| | |]|]; try discriminate; apply Hsr.
Qed.

Lemma assoc_cons_other {V} r r' (v : V) l : assoc r' l = None -> forall w, assoc r l = Some w ->
  assoc r ((r', v) :: l) = Some w.
Proof.
  intros Hn w Hw. cbn [assoc]. destruct (Z.eqb_spec r r') as [->|]; [congruence|exact Hw].
Qed.

(* ------------------------------------------------------------------ invalidation *)

(* After a command moves or destroys the resource T, every reference previously taken to T or
   to any resource nested in T is dead. *)
Theorem ref_invalidated_after_move c st st' T u r :
  step c st = Done st' -> moved_by c st = Some T -> In u (uuids T) ->
  assoc r (refs st) = Some (REph u) -> assoc r (refs st') = Some RDead.
Proof.
  intros Hs Hm Hin Ha.
  assert (E : refs st' = inval_refs (uuids T) (refs st)).
  { destruct c; cbn [moved_by] in Hm; try discriminate.
    - destruct s; try discriminate. rewrite (xfer_refs _ _ _ _ Hs). cbn [cleared]. now rewrite Hm.
    - rewrite (destroy_refs _ _ _ Hs). cbn [cleared]. now rewrite Hm. }
  rewrite E, assoc_inval, Ha. cbn [option_map inval_rv].
  assert (existsb (Z.eqb u) (uuids T) = true) as ->; [|reflexivity].
  apply existsb_exists. exists u. split; [assumption|apply Z.eqb_refl].
Qed.

(* a dead reference stays dead, whatever is executed afterwards, and every use fails with the
   invalidated-reference error *)
Lemma dead_step c st st' r : step c st = Done st' -> assoc r (refs st) = Some RDead ->
  assoc r (refs st') = Some RDead.
Proof.
  intros Hs Ha. destruct (step_refs_shape _ _ _ Hs) as [E|(r' & v & Hn & E)]; rewrite E.
  - now rewrite assoc_inval, Ha.
  - now apply assoc_cons_other.
Qed.

Theorem dead_forever cs : forall st st' r, run cs st = Done st' -> assoc r (refs st) = Some RDead ->
  assoc r (refs st') = Some RDead /\ forall k, step (CUse r k) st' = Fail EInvalidRef.
Proof.
  induction cs as [|c cs IH]; intros st st' r; cbn [run].
  - intro H; inversion H; subst. intro Ha. split; [assumption|]. intro k. cbn [step]. now rewrite Ha.
  - destruct (step c st) as [st1|] eqn:Hs; cbn [obind]; [|discriminate].
    intros Hr Ha. apply (IH st1 st' r Hr). eapply dead_step; eassumption.
Qed.

(* the other ways of using a dead reference fail in the same way *)
Theorem dead_uses_fail st r : assoc r (refs st) = Some RDead ->
  (forall r' s, step (CRefStep r' (BRef r) s) st = Fail EInvalidRef) /\
  (forall r', step (CRefUnwrap r' r) st = Fail EInvalidRef) /\
  (forall r', step (CRefCopy r' r) st = Fail EInvalidRef) /\
  (forall r' t f, step (CRefCast r' r t f) st = Fail EInvalidRef) /\
  (forall t, step (CSetTag (BRef r) t) st = Fail EInvalidRef) /\
  (forall d s, step (CXfer (PChild (BRef r) d) s) st = Fail EInvalidRef).
Proof.
  intro Ha. repeat split; intros; cbn [step check_place base_res]; rewrite Ha; reflexivity.
Qed.

(* ------------------------------------------------------------------ stability *)

(* A reference to a resource that the command neither moves nor destroys (nor has nested in
   what it moves) stays usable, and reads the resource that currently has that uuid. *)
Theorem ref_stable_if_not_moved c st st' u r :
  wf st -> step c st = Done st' ->
  assoc r (refs st) = Some (REph u) ->
  (forall T, moved_by c st = Some T -> ~ In u (uuids T)) ->
  assoc r (refs st') = Some (REph u) /\
  exists x, find_st u st' = Some x /\ r_uuid x = u /\
            step (CUse r UTag) st' = Done (add_log st' (LInt (r_tag x))).
Proof.
  intros Hwf Hs Ha Hnm.
  assert (Hkeep : assoc r (refs st') = Some (REph u)).
  { destruct (step_refs_shape _ _ _ Hs) as [E|(r' & v & Hn & E)]; rewrite E.
    - rewrite assoc_inval, Ha. cbn [option_map inval_rv].
      assert (existsb (Z.eqb u) (cleared c st) = false) as ->; [|reflexivity].
      apply Bool.not_true_iff_false. intro Hex. apply existsb_exists in Hex.
      destruct Hex as [y [Hy Heq]]. apply Z.eqb_eq in Heq. subst y.
      destruct c; cbn [cleared] in Hy; try destruct Hy.
      + destruct s as [pl req cast|e t|]; cbn [moved_by] in Hnm.
        * destruct (content st pl) as [T|]; [|destruct Hy]. exact (Hnm T eq_refl Hy).
        * destruct Hy as [Hy|[]]. subst u.
          assert (In (next st) (live st)) as Hl by (apply (wf_refs _ Hwf r); now apply assoc_in).
          pose proof (wf_fresh _ Hwf (next st)) as Hf. apply cnt_in in Hl. unfold tot in Hf. lia.
        * destruct Hy.
      + cbn [moved_by] in Hnm. destruct (assoc x (vars st)) as [T|]; [|destruct Hy]. exact (Hnm T eq_refl Hy).
    - now apply assoc_cons_other. }
  split; [exact Hkeep|].
  pose proof (wf_step _ _ _ Hwf Hs) as Hwf'.
  assert (Hl : In u (live st')) by (apply (wf_refs _ Hwf' r); now apply assoc_in).
  destruct (find_st_in _ _ Hl) as [x Hx]. exists x. split; [exact Hx|].
  destruct (find_st_some _ _ _ Hx) as [Hu _]. split; [exact Hu|].
  cbn [step]. rewrite Hkeep. cbn [resolve_rv]. rewrite Hx. reflexivity.
Qed.

(* the reference reads current contents: a change made through any other access path to the
   same resource is seen by the next use *)
Theorem ref_reads_current st b x t r :
  wf st -> base_res st b = Done x -> assoc r (refs st) = Some (REph (r_uuid x)) ->
  exists st', step (CSetTag b t) st = Done st' /\
              step (CUse r UTag) st' = Done (add_log st' (LInt t)).
Proof.
  intros Hwf Hb Ha. pose proof (wf_nodup_live _ Hwf) as Hnd.
  eexists. split; [cbn [step]; rewrite Hb; reflexivity|].
  set (n := Rs (r_uuid x) (r_ev x) t (r_kids x)).
  pose proof (base_find _ _ _ Hnd Hb) as Hf.
  assert (Hin : In (r_uuid n) (live st)).
  { destruct (find_st_some _ _ _ Hf) as [_ Hle]. apply cnt_in. specialize (Hle (r_uuid x)).
    pose proof (root_in_uuids x) as Hr. apply cnt_in in Hr. cbn [n r_uuid]. lia. }
  pose proof (find_st_subst_same st n Hnd Hin) as Hfs. cbn [n r_uuid] in Hfs. fold n in Hfs.
  cbn [step]. change (refs (subst_st (r_uuid x) n st)) with (refs st). rewrite Ha.
  cbn [resolve_rv]. rewrite Hfs. reflexivity.
Qed.

(* ------------------------------------------------------------------ storage references *)

(* a storage reference is never cleared: it is re-resolved at every use *)
Theorem sto_ref_kept c st st' r p t : step c st = Done st' ->
  assoc r (refs st) = Some (RSto p t) -> assoc r (refs st') = Some (RSto p t).
Proof.
  intros Hs Ha. destruct (step_refs_shape _ _ _ Hs) as [E|(r' & v & Hn & E)]; rewrite E.
  - now rewrite assoc_inval, Ha.
  - now apply assoc_cons_other.
Qed.

(* and a use reads whatever is stored at the path now, after a dynamic type check *)
Theorem sto_ref_reads_current st r p t : assoc r (refs st) = Some (RSto p t) ->
  step (CUse r UTag) st =
  match assoc p (store st) with
  | Some x => if has_ty t x then Done (add_log st (LInt (r_tag x))) else Fail EDeref
  | None => Fail EDeref
  end.
Proof.
  intro Ha. cbn [step]. rewrite Ha. cbn [resolve_rv]. unfold deref_sto.
  destruct (assoc p (store st)) as [x|]; [destruct (has_ty t x)|]; reflexivity.
Qed.

(* a reference obtained by stepping into a resource points to a resource nested in it, so the
   invalidation theorem covers it whenever the outer resource moves *)
Theorem step_target_nested st r b s p c st' :
  base_res st b = Done p -> peek_kid s (r_kids p) = Some c -> step (CRefStep r b s) st = Done st' ->
  assoc r (refs st') = Some (REph (r_uuid c)) /\ In (r_uuid c) (uuids p).
Proof.
  intros Hb Hp Hs. cbn [step] in Hs. rewrite Hb in Hs. cbn [obind] in Hs.
  assert (Hset : set_ref st r (REph (r_uuid c)) = Done st').
  { destruct s; try discriminate; rewrite Hp in Hs; exact Hs. }
  destruct (set_ref_shape _ _ _ _ Hset) as [_ E]. split.
  - rewrite E. cbn [assoc]. now rewrite Z.eqb_refl.
  - destruct p as [pu pe pt pk]. cbn [r_kids] in Hp. apply peek_in in Hp.
    apply cnt_in. rewrite uuids_cnt. apply cnt_in in Hp. lia.
Qed.

(* a copy of a reference value - plain copy, argument / result of a function, stored in a field,
   array, dictionary or optional of a non-resource holder and read back (directly or through a
   reference to the holder) - is a usable reference to the same target, registered in the same
   table: the invalidation theorem applies to it like to the original *)
Theorem copy_same_target st r r0 u st' :
  step (CRefCopy r r0) st = Done st' -> assoc r0 (refs st) = Some (REph u) ->
  assoc r (refs st') = Some (REph u) /\ assoc r0 (refs st') = Some (REph u).
Proof.
  intros Hs Ha. cbn [step] in Hs. rewrite Ha in Hs.
  destruct (set_ref_shape _ _ _ _ Hs) as [Hn E]. rewrite E. split.
  - cbn [assoc]. now rewrite Z.eqb_refl.
  - now apply assoc_cons_other.
Qed.
