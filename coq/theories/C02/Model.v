(* C02 / C04 — executable model of Cadence's run-time resource semantics.

   A small resource-manipulation command language, executed on a state made of
   resource variables, reference variables, account storage, a uuid counter, the list of
   destroyed resource trees (from which the destroy trace and the ResourceDestroyed events
   are derived) and a log.  Definitions only; proofs are in Proofs.v / RefProofs.v.

   Shape of the real code that is modelled (interpreter/value_composite.go, value_array.go,
   value_dictionary.go, value_some.go, interpreter.go, value_ephemeral_reference.go,
   value_storage_reference.go; shared by the VM through bbq/vm):
   - every move of a resource (variable declaration, assignment, swap, second-value transfer,
     argument passing, append/insert/remove, save/load) is a `Transfer` with removal of the
     source, and `Transfer` calls `InvalidateReferencedResources`, which walks the moved value
     and all resources nested in it and clears every tracked ephemeral reference to them;
   - `Destroy` destroys nested resources first, then emits the default destruction event of the
     resource itself (if its type declares one), and also invalidates references;
   - an ephemeral reference whose referenced value was cleared fails every use with
     InvalidatedResourceReferenceError; a storage reference reads the storage path at each use
     and checks the dynamic type of what it finds. *)
From Coq Require Import ZArith List Bool.
Import ListNotations.
Open Scope Z_scope.

(* ------------------------------------------------------------------ values *)

(* where a nested resource sits inside its parent *)
Inductive label := KOpt | KArr | KDict (k : Z).

(* a resource: uuid, whether its type declares the default destruction event (type R: yes,
   type Q: no), an integer field, and the nested resources: the optional field, the array
   field (KArr entries, in array order) and the dictionary field (KDict entries, sorted by key) *)
Inductive rsrc := Rs (uuid : Z) (ev : bool) (tag : Z) (kids : list (label * rsrc)).

Definition r_uuid (r : rsrc) : Z := match r with Rs u _ _ _ => u end.
Definition r_ev (r : rsrc) : bool := match r with Rs _ e _ _ => e end.
Definition r_tag (r : rsrc) : Z := match r with Rs _ _ t _ => t end.
Definition r_kids (r : rsrc) : list (label * rsrc) := match r with Rs _ _ _ k => k end.

(* all uuids in a resource tree *)
Fixpoint uuids (r : rsrc) : list Z :=
  match r with
  | Rs u _ _ ks => u :: flat_map (fun p : label * rsrc => let '(_, c) := p in uuids c) ks
  end.

Definition uuids_opt (o : option rsrc) : list Z :=
  match o with Some r => uuids r | None => [] end.

Definition uuids_l {K} (l : list (K * rsrc)) : list Z :=
  flat_map (fun p : K * rsrc => uuids (snd p)) l.

(* destruction order of the code: nested resources first, then the resource itself *)
Fixpoint destroy_trace (r : rsrc) : list (Z * bool * Z) :=
  match r with
  | Rs u e t ks =>
      flat_map (fun p : label * rsrc => let '(_, c) := p in destroy_trace c) ks ++ [(u, e, t)]
  end.

(* the ResourceDestroyed events: one per destroyed resource whose type declares the event *)
Definition events_of (tr : list (Z * bool * Z)) : list (Z * Z) :=
  map (fun x => (fst (fst x), snd x)) (filter (fun x => snd (fst x)) tr).

Definition first_some {A B} (f : A -> option B) : list A -> option B :=
  fix go l := match l with
              | [] => None
              | a :: l' => match f a with Some b => Some b | None => go l' end
              end.

(* the resource with the given uuid inside a tree *)
Fixpoint find_in (u : Z) (r : rsrc) : option rsrc :=
  match r with
  | Rs u' _ _ ks =>
      if u =? u' then Some r
      else first_some (fun p : label * rsrc => let '(_, c) := p in find_in u c) ks
  end.

(* replace the resource with the given uuid by [n] *)
Fixpoint subst (u : Z) (n : rsrc) (r : rsrc) : rsrc :=
  match r with
  | Rs u' e t ks =>
      if u =? u' then n
      else Rs u' e t (map (fun p : label * rsrc => let '(l, c) := p in (l, subst u n c)) ks)
  end.

Definition find_l {K} (u : Z) (l : list (K * rsrc)) : option rsrc :=
  first_some (fun p : K * rsrc => find_in u (snd p)) l.

Definition subst_l {K} (u : Z) (n : rsrc) (l : list (K * rsrc)) : list (K * rsrc) :=
  map (fun p : K * rsrc => (fst p, subst u n (snd p))) l.

(* ------------------------------------------------------------------ errors *)

Inductive rerr :=
| EInvalidRef      (* InvalidatedResourceReferenceError *)
| EForceNil        (* ForceNilError *)
| EForceCast       (* ForceCastTypeMismatchError *)
| EIndex           (* ArrayIndexOutOfBoundsError *)
| EOverwrite       (* OverwriteError: save to an occupied path *)
| EForceAssign     (* ResourceLossError: force-assignment to a non-nil resource slot *)
| EDeref           (* DereferenceError: storage reference finds nothing / wrong type *)
| EStoredType      (* StoredValueTypeMismatchError: load/borrow with a wrong type *)
| EInternal        (* internal error (never reached from a well-formed state, see Proofs) *)
| EStatic          (* the command has no counterpart in a checker-accepted program *)
| ELoss            (* a resource variable is still full at the end of the transaction
                      (the checker's resource-loss rule) *)
| EOther.

Inductive out (A : Type) := Done (a : A) | Fail (e : rerr).
Arguments Done {A} a.
Arguments Fail {A} e.

Definition obind {A B} (x : out A) (f : A -> out B) : out B :=
  match x with Done a => f a | Fail e => Fail e end.
Notation "'do' x '<-' a ';' b" := (obind a (fun x => b))
  (at level 200, x pattern, a at level 100, b at level 200).

Definition rerr_eqb (a b : rerr) : bool :=
  match a, b with
  | EInvalidRef, EInvalidRef | EForceNil, EForceNil | EForceCast, EForceCast
  | EIndex, EIndex | EOverwrite, EOverwrite | EForceAssign, EForceAssign
  | EDeref, EDeref | EStoredType, EStoredType | EInternal, EInternal
  | EStatic, EStatic | ELoss, ELoss | EOther, EOther => true
  | _, _ => false
  end.

(* ------------------------------------------------------------------ state *)

(* static types used in casts, load and borrow: the interface {I}, R, Q *)
Inductive rty := TI | TR | TQ.

Definition has_ty (t : rty) (r : rsrc) : bool :=
  match t with TI => true | TR => r_ev r | TQ => negb (r_ev r) end.

(* value of a reference variable *)
Inductive rv :=
| RNil                       (* nil (optional reference) *)
| REph (u : Z)               (* usable ephemeral reference to the resource with this uuid *)
| RDead                      (* ephemeral reference whose target was moved or destroyed *)
| RSto (p : Z) (t : rty).    (* storage reference: path and borrow type *)

Inductive logent := LInt (z : Z) | LNil | LTree (t : option rsrc).

Record state := mkSt {
  vars  : list (Z * rsrc);   (* resource variables that currently hold a resource *)
  refs  : list (Z * rv);     (* reference variables *)
  store : list (Z * rsrc);   (* account storage: path -> resource *)
  next  : Z;                 (* next uuid to hand out *)
  dead  : list rsrc;         (* destroyed resource trees, oldest first *)
  logs  : list logent        (* log, oldest first *)
}.

Definition live (st : state) : list Z := uuids_l (vars st) ++ uuids_l (store st).
Definition dead_trace (st : state) : list (Z * bool * Z) := flat_map destroy_trace (dead st).
Definition dead_uuids (st : state) : list Z := flat_map uuids (dead st).

Fixpoint assoc {V} (k : Z) (l : list (Z * V)) : option V :=
  match l with
  | [] => None
  | (k', v) :: l' => if k =? k' then Some v else assoc k l'
  end.

(* remove the first binding of a key (the one [assoc] returns) *)
Fixpoint remove_key {V} (k : Z) (l : list (Z * V)) : list (Z * V) :=
  match l with
  | [] => []
  | (k', v) :: l' => if k =? k' then l' else (k', v) :: remove_key k l'
  end.

Definition find_st (u : Z) (st : state) : option rsrc :=
  match find_l u (vars st) with
  | Some r => Some r
  | None => find_l u (store st)
  end.

Definition subst_st (u : Z) (n : rsrc) (st : state) : state :=
  mkSt (subst_l u n (vars st)) (refs st) (subst_l u n (store st)) (next st) (dead st) (logs st).

Definition set_vars (st : state) v := mkSt v (refs st) (store st) (next st) (dead st) (logs st).
Definition set_refs (st : state) r := mkSt (vars st) r (store st) (next st) (dead st) (logs st).
Definition set_store (st : state) s := mkSt (vars st) (refs st) s (next st) (dead st) (logs st).
Definition add_log (st : state) (e : logent) :=
  mkSt (vars st) (refs st) (store st) (next st) (dead st) (logs st ++ [e]).

(* InvalidateReferencedResources: clear every ephemeral reference to one of the uuids *)
Definition inval_rv (us : list Z) (v : rv) : rv :=
  match v with
  | REph u => if existsb (Z.eqb u) us then RDead else REph u
  | _ => v
  end.

Definition invalidate (us : list Z) (st : state) : state :=
  set_refs st (map (fun p : Z * rv => (fst p, inval_rv us (snd p))) (refs st)).

(* ------------------------------------------------------------------ one level of nesting *)

Inductive slot := SlOpt | SlArr (i : nat) | SlArrEnd | SlDict (k : Z).

Definition is_arr (l : label) : bool := match l with KArr => true | _ => false end.

(* read the nested resource in a slot (None: empty / absent).  Array index out of range is
   an error of the caller, reported by [arr_in_range]. *)
Fixpoint peek_kid (s : slot) (ks : list (label * rsrc)) : option rsrc :=
  match ks with
  | [] => None
  | (l, c) :: r =>
      match s, l with
      | SlOpt, KOpt => Some c
      | SlArr O, KArr => Some c
      | SlArr (S i), KArr => peek_kid (SlArr i) r
      | SlDict k, KDict k' => if k =? k' then Some c else peek_kid s r
      | _, _ => peek_kid s r
      end
  end.

(* remove the nested resource in a slot *)
Fixpoint drop_kid (s : slot) (ks : list (label * rsrc)) : list (label * rsrc) :=
  match ks with
  | [] => []
  | (l, c) :: r =>
      match s, l with
      | SlOpt, KOpt => r
      | SlArr O, KArr => r
      | SlArr (S i), KArr => (l, c) :: drop_kid (SlArr i) r
      | SlDict k, KDict k' => if k =? k' then r else (l, c) :: drop_kid s r
      | _, _ => (l, c) :: drop_kid s r
      end
  end.

Definition arr_len (ks : list (label * rsrc)) : nat :=
  length (filter (fun p : label * rsrc => is_arr (fst p)) ks).

(* insert into the array part before index i (i = length: append); None: index out of range *)
Fixpoint put_arr (i : nat) (c : rsrc) (ks : list (label * rsrc)) : option (list (label * rsrc)) :=
  match ks with
  | (KOpt, c') :: r => option_map (cons (KOpt, c')) (put_arr i c r)
  | (KArr, c') :: r =>
      match i with
      | O => Some ((KArr, c) :: ks)
      | S j => option_map (cons (KArr, c')) (put_arr j c r)
      end
  | _ => match i with O => Some ((KArr, c) :: ks) | S _ => None end
  end.

(* append to the array part: insert before the first dictionary entry *)
Fixpoint put_arr_end (c : rsrc) (ks : list (label * rsrc)) : list (label * rsrc) :=
  match ks with
  | [] => [(KArr, c)]
  | (KDict k', c') :: r => (KArr, c) :: ks
  | e :: r => e :: put_arr_end c r
  end.

(* insert into the dictionary part, keeping it sorted by key *)
Fixpoint put_dict (k : Z) (c : rsrc) (ks : list (label * rsrc)) : list (label * rsrc) :=
  match ks with
  | [] => [(KDict k, c)]
  | (KDict k', c') :: r =>
      if k <? k' then (KDict k, c) :: ks else (KDict k', c') :: put_dict k c r
  | e :: r => e :: put_dict k c r
  end.

(* take the content of a slot out of a resource: (content, resource without it) *)
Definition take_slot (s : slot) (r : rsrc) : out (option rsrc * rsrc) :=
  match r with
  | Rs u e t ks =>
      match s with
      | SlArrEnd => Fail EStatic
      | SlArr i =>
          match peek_kid s ks with
          | Some c => Done (Some c, Rs u e t (drop_kid s ks))
          | None => Fail EIndex
          end
      | _ =>
          match peek_kid s ks with
          | Some c => Done (Some c, Rs u e t (drop_kid s ks))
          | None => Done (None, r)
          end
      end
  end.

(* put a value into a slot of a resource.  Optional field and dictionary entry must be empty
   (force-assignment check); arrays take only non-nil values, index at most the length. *)
Definition put_slot (s : slot) (c : option rsrc) (r : rsrc) : out rsrc :=
  match r with
  | Rs u e t ks =>
      match s with
      | SlOpt =>
          match peek_kid SlOpt ks with
          | Some _ => Fail EForceAssign
          | None => match c with Some x => Done (Rs u e t ((KOpt, x) :: ks)) | None => Done r end
          end
      | SlDict k =>
          match peek_kid s ks with
          | Some _ => Fail EForceAssign
          | None => match c with Some x => Done (Rs u e t (put_dict k x ks)) | None => Done r end
          end
      | SlArr i =>
          match c with
          | None => Fail EStatic
          | Some x => match put_arr i x ks with Some ks' => Done (Rs u e t ks') | None => Fail EIndex end
          end
      | SlArrEnd =>
          match c with
          | None => Fail EStatic
          | Some x => Done (Rs u e t (put_arr_end x ks))
          end
      end
  end.

(* ------------------------------------------------------------------ commands *)

(* the resource whose fields a command works on: the one in a variable (owned access,
   `x.arr.append(..)`) or the target of a reference (`r.arrAppend(..)`) *)
Inductive base :=
| BVar (x : Z)     (* the resource held by a variable (owned access) *)
| BRef (r : Z)     (* the target of a reference *)
| BSto (p : Z).    (* the value stored at a path, accessed in place.  Used for the contract: the
                      contract value is a stored composite that is not a resource but owns resources
                      in an optional field, an array field and a dictionary field, exactly the shape of
                      [rsrc]; it is modelled as a pseudo-resource (uuid 0, no event) that sits at a
                      reserved path from the start and is only ever accessed in place *)

Inductive place := PVar (x : Z) | PSto (p : Z) | PChild (b : base) (s : slot).

(* where the moved value comes from: a place ([req]: force-unwrap `!`; [cast]: `as! @T` /
   `load<@T>`), a freshly created resource, or nil *)
Inductive src :=
| SPlace (pl : place) (req : bool) (cast : option rty)
| SNew (ev : bool) (tag : Z)
| SNil.

(* UAtt: read the constant field (7) of the attachment every resource carries, through a reference
   to that attachment (modelled as a reference to the resource) *)
Inductive usekind := UTag | UCall | UUuid | ULen | UDLen | UOptTag | UShow | UAtt.

Inductive cmd :=
| CXfer (d : place) (s : src)           (* move the value of s into d *)
| CDestroy (x : Z)                      (* destroy the content of a variable *)
| CSetTag (b : base) (t : Z)
| CRefVar (r : Z) (x : Z)               (* r = &x *)
| CRefStep (r : Z) (b : base) (s : slot)(* r = reference to a nested resource of b *)
| CRefUnwrap (r : Z) (r0 : Z)           (* r = r0! *)
| CRefCast (r : Z) (r0 : Z) (t : rty) (forced : bool)   (* r = r0 as! &T / as? &T *)
| CBorrow (r : Z) (p : Z) (t : rty)     (* r = storage.borrow<&T>(from: p) *)
| CUse (r : Z) (k : usekind)            (* read through a reference and log *)
| CShowVar (x : Z)                      (* log the whole tree held by a variable *)
| CRefCopy (r : Z) (r0 : Z).            (* r = a copy of the reference value r0: plain copy, passing to /
                                           returning from a function, storing it in a struct field / array /
                                           dictionary / optional of a non-resource holder and reading it back,
                                           directly or through a reference to the holder *)

Definition deref_sto (st : state) (p : Z) (t : rty) : out rsrc :=
  match assoc p (store st) with
  | Some r => if has_ty t r then Done r else Fail EDeref
  | None => Fail EDeref
  end.

(* the resource a reference value designates right now *)
Definition resolve_rv (st : state) (v : rv) : out rsrc :=
  match v with
  | RNil => Fail EStatic
  | RDead => Fail EInvalidRef
  | REph u => match find_st u st with Some r => Done r | None => Fail EInternal end
  | RSto p t => deref_sto st p t
  end.

Definition base_res (st : state) (b : base) : out rsrc :=
  match b with
  | BVar x => match assoc x (vars st) with Some r => Done r | None => Fail EStatic end
  | BRef r => match assoc r (refs st) with Some v => resolve_rv st v | None => Fail EStatic end
  | BSto p => match assoc p (store st) with Some r => Done r | None => Fail EStatic end
  end.

(* the receiver of a nested access is evaluated (and checked) before anything moves *)
Definition check_place (st : state) (pl : place) : out unit :=
  match pl with
  | PChild b _ => do _ <- base_res st b; Done tt
  | _ => Done tt
  end.

Definition take_place (st : state) (pl : place) : out (option rsrc * state) :=
  match pl with
  | PVar x => Done (assoc x (vars st), set_vars st (remove_key x (vars st)))
  | PSto p => Done (assoc p (store st), set_store st (remove_key p (store st)))
  | PChild b s =>
      do r <- base_res st b;
      do cr <- take_slot s r;
      Done (fst cr, subst_st (r_uuid r) (snd cr) st)
  end.

Definition put_place (st : state) (pl : place) (c : option rsrc) : out state :=
  match pl with
  | PVar x =>
      match assoc x (vars st) with
      | Some _ => Fail EForceAssign
      | None => match c with Some r => Done (set_vars st ((x, r) :: vars st)) | None => Done st end
      end
  | PSto p =>
      match c with
      | None => Fail EStatic
      | Some r =>
          match assoc p (store st) with
          | Some _ => Fail EOverwrite
          | None => Done (set_store st ((p, r) :: store st))
          end
      end
  | PChild b s =>
      do r <- base_res st b;
      do r' <- put_slot s c r;
      Done (subst_st (r_uuid r) r' st)
  end.

Definition cast_err (pl : place) : rerr :=
  match pl with PSto _ => EStoredType | _ => EForceCast end.

Definition take_src (st : state) (s : src) : out (option rsrc * state) :=
  match s with
  | SNil => Done (None, st)
  | SNew e t =>
      Done (Some (Rs (next st) e t []),
            mkSt (vars st) (refs st) (store st) (next st + 1) (dead st) (logs st))
  | SPlace pl req cast =>
      do cs <- take_place st pl;
      let '(c, st1) := cs in
      match c with
      | None => if req then Fail EForceNil else Done (None, st1)
      | Some r =>
          match cast with
          | Some t => if has_ty t r then Done (Some r, st1) else Fail (cast_err pl)
          | None => Done (Some r, st1)
          end
      end
  end.

Definition fresh_ref (st : state) (r : Z) : bool :=
  match assoc r (refs st) with Some _ => false | None => true end.

Definition set_ref (st : state) (r : Z) (v : rv) : out state :=
  if fresh_ref st r then Done (set_refs st ((r, v) :: refs st)) else Fail EStatic.

Definition rv_of_opt (o : option rsrc) : rv :=
  match o with Some r => REph (r_uuid r) | None => RNil end.

Definition step (c : cmd) (st : state) : out state :=
  match c with
  | CXfer d s =>
      do _ <- check_place st d;
      do cs <- take_src st s;
      let '(v, st1) := cs in
      put_place (invalidate (uuids_opt v) st1) d v
  | CDestroy x =>
      match assoc x (vars st) with
      | None => Done st
      | Some r =>
          let st1 := invalidate (uuids r) (set_vars st (remove_key x (vars st))) in
          Done (mkSt (vars st1) (refs st1) (store st1) (next st1) (dead st1 ++ [r]) (logs st1))
      end
  | CSetTag b t =>
      do r <- base_res st b;
      Done (subst_st (r_uuid r) (Rs (r_uuid r) (r_ev r) t (r_kids r)) st)
  | CRefVar r x => set_ref st r (rv_of_opt (assoc x (vars st)))
  | CRefStep r b s =>
      do p <- base_res st b;
      match s with
      | SlArrEnd => Fail EStatic
      | SlArr _ =>
          match peek_kid s (r_kids p) with
          | Some c => set_ref st r (REph (r_uuid c))
          | None => Fail EIndex
          end
      | _ => set_ref st r (rv_of_opt (peek_kid s (r_kids p)))
      end
  | CRefUnwrap r r0 =>
      match assoc r0 (refs st) with
      | None => Fail EStatic
      | Some RNil => Fail EForceNil
      | Some RDead => Fail EInvalidRef
      | Some v => set_ref st r v
      end
  | CRefCast r r0 t forced =>
      match assoc r0 (refs st) with
      | Some (REph u) =>
          do p <- resolve_rv st (REph u);
          if has_ty t p then set_ref st r (REph u)
          else if forced then Fail EForceCast else set_ref st r RNil
      | Some RDead => Fail EInvalidRef
      | _ => Fail EStatic
      end
  | CBorrow r p t =>
      match assoc p (store st) with
      | None => set_ref st r RNil
      | Some x => if has_ty t x then set_ref st r (RSto p t) else Fail EStoredType
      end
  | CUse r k =>
      match assoc r (refs st) with
      | None => Fail EStatic
      | Some RNil => match k with UOptTag => Done (add_log st LNil) | _ => Fail EStatic end
      | Some v =>
          do p <- resolve_rv st v;
          Done (add_log st
                  (match k with
                   | UTag | UCall | UOptTag => LInt (r_tag p)
                   | UUuid => LInt (r_uuid p)
                   | ULen => LInt (Z.of_nat (arr_len (r_kids p)))
                   | UDLen => LInt (Z.of_nat (length (r_kids p) - arr_len (r_kids p)
                                                - (match peek_kid SlOpt (r_kids p) with Some _ => 1 | None => 0 end)))
                   | UShow => LTree (Some p)
                   | UAtt => LInt 7
                   end))
      end
  | CShowVar x => Done (add_log st (LTree (assoc x (vars st))))
  | CRefCopy r r0 =>
      match assoc r0 (refs st) with
      | None => Fail EStatic
      | Some RDead => Fail EInvalidRef
      | Some v => set_ref st r v
      end
  end.

Fixpoint run (cs : list cmd) (st : state) : out state :=
  match cs with
  | [] => Done st
  | c :: r => do st' <- step c st; run r st'
  end.

(* like [run], but on failure also returns the state reached before the failing command
   (the logs and uuid counter up to the failure are observable on the host) *)
Fixpoint run_obs (cs : list cmd) (st : state) : state * option rerr :=
  match cs with
  | [] => (st, None)
  | c :: r => match step c st with
              | Done st' => run_obs r st'
              | Fail e => (st, Some e)
              end
  end.

(* ------------------------------------------------------------------ transactions *)

(* what persists between transactions: storage and the uuid counter *)
Record pstate := mkP { p_store : list (Z * rsrc); p_next : Z }.

Definition begin_tx (p : pstate) : state := mkSt [] [] (p_store p) (p_next p) [] [].

(* observation of one transaction *)
Record txobs := mkObs {
  o_err   : option rerr;        (* None: success *)
  o_next  : Z;                  (* uuid counter afterwards *)
  o_logs  : list logent;
  o_dead  : list rsrc;          (* destroyed trees (events are derived from them) *)
  o_store : list (Z * rsrc)     (* committed storage afterwards *)
}.

(* A transaction succeeds if all commands succeed and no variable still holds a resource at
   the end; then storage and counter are committed.  Otherwise storage is rolled back; the
   uuid counter is not (the host's counter is outside the ledger). *)
Definition run_tx (cs : list cmd) (p : pstate) : pstate * txobs :=
  let '(st, e) := run_obs cs (begin_tx p) in
  match e with
  | Some x => (mkP (p_store p) (next st), mkObs (Some x) (next st) (logs st) (dead st) (p_store p))
  | None =>
      match vars st with
      | [] => (mkP (store st) (next st), mkObs None (next st) (logs st) (dead st) (store st))
      | _ :: _ => (mkP (p_store p) (next st), mkObs (Some ELoss) (next st) (logs st) (dead st) (p_store p))
      end
  end.

(* The contract of the test bench owns resources in an optional field, an array field and a
   dictionary field.  Its value is stored with the account, committed and rolled back like
   account storage, and only accessed in place ([BSto contract_path]). *)
Definition contract_path : Z := 100.
Definition contract_value : rsrc := Rs 0 false 0 [].
Definition init_pstate (n0 : Z) : pstate := mkP [(contract_path, contract_value)] n0.

Fixpoint run_hist (h : list (list cmd)) (p : pstate) : pstate * list txobs :=
  match h with
  | [] => (p, [])
  | t :: r =>
      let '(p1, o) := run_tx t p in
      let '(p2, os) := run_hist r p1 in
      (p2, o :: os)
  end.

Definition tx_ok (o : txobs) : bool := match o_err o with None => true | Some _ => false end.

(* uuids handed out in [a, b) *)
Definition seqZ (a b : Z) : list Z := map (fun i => a + Z.of_nat i) (seq 0 (Z.to_nat (b - a))).

(* created / destroyed over a history, counting successful transactions only; the counter
   value before each transaction is threaded through *)
Fixpoint created_ok (n0 : Z) (os : list txobs) : list Z :=
  match os with
  | [] => []
  | o :: r => (if tx_ok o then seqZ n0 (o_next o) else []) ++ created_ok (o_next o) r
  end.

Definition destroyed_ok (os : list txobs) : list (Z * bool * Z) :=
  flat_map (fun o => if tx_ok o then flat_map destroy_trace (o_dead o) else []) os.
