(* C46  Independent specification: the reference RLP encoder (Ethereum yellow paper, appendix B)
   and the canonicality predicates.  Nothing here mentions indices, wrapping or the decoder. *)
From CV Require Export Base.Prelude.

Definition blen (l : list Z) : Z := Z.of_nat (length l).

Definition is_byte (b : Z) : Prop := 0 <= b < 256.
Definition bytes (l : list Z) : Prop := Forall is_byte l.

(* minimal big-endian representation of a positive integer (BE in the yellow paper);
   8 digits are enough for every length below 2^64 *)
Fixpoint be_enc_fuel (fuel : nat) (n : Z) : list Z :=
  match fuel with
  | O => []
  | S f => if n <=? 0 then [] else be_enc_fuel f (n / 256) ++ [n mod 256]
  end.
Definition be_enc (n : Z) : list Z := be_enc_fuel 8 n.

(* R_b : encoding of a byte string *)
Definition encode_string (p : list Z) : list Z :=
  match p with
  | [b] => if b <? 128 then [b] else [129; b]
  | _ => if blen p <=? 55 then (128 + blen p) :: p
         else let lb := be_enc (blen p) in (183 + blen lb) :: lb ++ p
  end.

(* R_l : a list payload (the concatenated encodings of the items) with its length prefix *)
Definition list_frame (payload : list Z) : list Z :=
  if blen payload <=? 55 then (192 + blen payload) :: payload
  else let lb := be_enc (blen payload) in (247 + blen lb) :: lb ++ payload.

(* the full (recursive) encoder *)
Inductive item : Type :=
| Str (p : list Z)
| Lst (l : list item).

Fixpoint encode (x : item) : list Z :=
  match x with
  | Str p => encode_string p
  | Lst l => list_frame (flat_map encode l)
  end.

Fixpoint item_bytes (x : item) : Prop :=
  match x with
  | Str p => bytes p
  | Lst l => (fix all (l : list item) : Prop :=
                match l with [] => True | y :: r => item_bytes y /\ all r end) l
  end.

(* RLP.decodeList does not decode recursively (documented): it returns the *encoded* items.
   Its contract is therefore one level deep: an element of a canonical list is either the canonical
   encoding of a byte string, or a list payload (opaque at this level) under a canonical list prefix. *)
Definition item_ok (it : list Z) : Prop :=
  (exists p, bytes p /\ it = encode_string p) \/ (exists payload, bytes payload /\ it = list_frame payload).

Definition canonical_string (inp p : list Z) : Prop := bytes p /\ inp = encode_string p.
Definition canonical_list (inp : list Z) (items : list (list Z)) : Prop :=
  Forall item_ok items /\ inp = list_frame (concat items).

(* the property, as a predicate on a decoder *)
Definition string_decoder_exact (dec : list Z -> res (list Z)) (inp : list Z) : Prop :=
  (exists p, canonical_string inp p /\ dec inp = Ok p) \/
  ((forall p, ~ canonical_string inp p) /\ dec inp = Err UserOther).

Definition list_decoder_exact (dec : list Z -> res (list (list Z))) (inp : list Z) : Prop :=
  (exists items, canonical_list inp items /\ dec inp = Ok items) \/
  ((forall items, ~ canonical_list inp items) /\ dec inp = Err UserOther).

(* "never fail with an internal error or crash": the outcome is a value or a user error *)
Definition graceful {A} (r : res A) : Prop :=
  match r with Ok _ => True | Err UserOther => True | Err _ => False end.

(* ---- the inputs on which the implementation is known to crash (guards of the partial theorems) ---- *)

(* value of a big-endian digit string *)
Definition be_val (l : list Z) : Z := fold_left (fun a b => a * 256 + b) l 0.

(* an 8-byte length field without leading zero whose value, added to the position just after it,
   exceeds the largest Go int *)
Definition huge_len_at (pos : Z) (l : list Z) : Prop :=
  blen l = 8 /\ (forall b r, l = b :: r -> b <> 0) /\ be_val l <= 2 ^ 63 - 1 /\ 2 ^ 63 <= pos + be_val l.

(* RLP.decodeString crashes exactly on these inputs *)
Definition string_crash (inp : list Z) : Prop :=
  inp = [129] \/
  exists l rest, inp = 191 :: l ++ rest /\ huge_len_at 9 l.

(* some position of the input carries a long-form prefix (0xbf / 0xff) with such a length field *)
Definition has_huge_len (inp : list Z) : Prop :=
  exists pre b l rest, inp = pre ++ b :: l ++ rest /\ (b = 191 \/ b = 255) /\
    huge_len_at (blen pre + 9) l.
Definition no_huge_len (inp : list Z) : Prop := ~ has_huge_len inp.

(* the one non-canonical item form the implementation lets through inside a list: a single byte
   below 0x80 written with the prefix 0x81 (rejected by RLP.decodeString, by go-ethereum, and by the
   canonical-form rule 1 quoted in ReadSize's own documentation) *)
Definition item_nc1 (it : list Z) : Prop := exists x, 0 <= x < 128 /\ it = [129; x].

(* what RLP.decodeList accepts: *)
Definition accepted_list (inp : list Z) (items : list (list Z)) : Prop :=
  Forall (fun it => item_ok it \/ item_nc1 it) items /\ inp = list_frame (concat items).

Definition list_decoder_accepts (dec : list Z -> res (list (list Z))) (inp : list Z) : Prop :=
  (exists items, accepted_list inp items /\ dec inp = Ok items) \/
  ((forall items, ~ accepted_list inp items) /\ dec inp = Err UserOther).
