(* C46  Independent specification: the reference RLP encoder (Ethereum yellow paper, appendix B)
   and the canonicality predicates.  Nothing here mentions indices, wrapping or the decoder. *)
From CV Require Export Base.Prelude.

Definition blen (l : list Z) : Z := Z.of_nat (length l).

Definition is_byte (b : Z) : Prop := 0 <= b < 256.
Definition bytes (l : list Z) : Prop := Forall is_byte l.

(* minimal big-endian representation of a positive integer (BE in the yellow paper);
   8 digits are enough for every length below 2^64 *)
Fixpoint be_enc_fuel (fuel : nat) (n : Z) : list Z :=
  match fuel with
  | O => []
  | S f => if n <=? 0 then [] else be_enc_fuel f (n / 256) ++ [n mod 256]
  end.
Definition be_enc (n : Z) : list Z := be_enc_fuel 8 n.

(* R_b : encoding of a byte string *)
Definition encode_string (p : list Z) : list Z :=
  match p with
  | [b] => if b <? 128 then [b] else [129; b]
  | _ => if blen p <=? 55 then (128 + blen p) :: p
         else let lb := be_enc (blen p) in (183 + blen lb) :: lb ++ p
  end.

(* R_l : a list payload (the concatenated encodings of the items) with its length prefix *)
Definition list_frame (payload : list Z) : list Z :=
  if blen payload <=? 55 then (192 + blen payload) :: payload
  else let lb := be_enc (blen payload) in (247 + blen lb) :: lb ++ payload.

(* the full (recursive) encoder *)
Inductive item : Type :=
| Str (p : list Z)
| Lst (l : list item).

Fixpoint encode (x : item) : list Z :=
  match x with
  | Str p => encode_string p
  | Lst l => list_frame (flat_map encode l)
  end.

Fixpoint item_bytes (x : item) : Prop :=
  match x with
  | Str p => bytes p
  | Lst l => (fix all (l : list item) : Prop :=
                match l with [] => True | y :: r => item_bytes y /\ all r end) l
  end.

(* RLP.decodeList does not decode recursively (documented): it returns the *encoded* items.
   Its contract is therefore one level deep: an element of a canonical list is either the canonical
   encoding of a byte string, or a list payload (opaque at this level) under a canonical list prefix. *)
Definition item_ok (it : list Z) : Prop :=
  (exists p, bytes p /\ it = encode_string p) \/ (exists payload, bytes payload /\ it = list_frame payload).

Definition canonical_string (inp p : list Z) : Prop := bytes p /\ inp = encode_string p.
Definition canonical_list (inp : list Z) (items : list (list Z)) : Prop :=
  Forall item_ok items /\ inp = list_frame (concat items).

(* the property, as a predicate on a decoder *)
Definition string_decoder_exact (dec : list Z -> res (list Z)) (inp : list Z) : Prop :=
  (exists p, canonical_string inp p /\ dec inp = Ok p) \/
  ((forall p, ~ canonical_string inp p) /\ dec inp = Err UserOther).

Definition list_decoder_exact (dec : list Z -> res (list (list Z))) (inp : list Z) : Prop :=
  (exists items, canonical_list inp items /\ dec inp = Ok items) \/
  ((forall items, ~ canonical_list inp items) /\ dec inp = Err UserOther).

(* "never fail with an internal error or crash": the outcome is a value or a user error *)
Definition graceful {A} (r : res A) : Prop :=
  match r with Ok _ => True | Err UserOther => True | Err _ => False end.

(* the non-canonical two-byte form of a single byte below 0x80: prefix 0x81 followed by the byte *)
Definition item_nc1 (it : list Z) : Prop := exists x, 0 <= x < 128 /\ it = [129; x].
