(* C46  Check functions for the per-run correspondence case files. *)
From CV Require Export C46.Model.

Definition lz_eqb (a b : list Z) : bool :=
  (Nat.eqb (length a) (length b)) && forallb (fun p => fst p =? snd p) (combine a b).
Definition llz_eqb (a b : list (list Z)) : bool :=
  (Nat.eqb (length a) (length b)) && forallb (fun p => lz_eqb (fst p) (snd p)) (combine a b).

(* RLP.decodeString / RLP.decodeList (wrappers): the observed outcome must be the code-shaped model's *)
Definition check_string (c : list Z * res (list Z)) : bool :=
  let '(inp, obs) := c in res_eqb lz_eqb (rlp_decode_string inp) obs.

Definition check_list (c : list Z * res (list (list Z))) : bool :=
  let '(inp, obs) := c in res_eqb llz_eqb (rlp_decode_list inp) obs.

(* package rlp functions at an arbitrary non-negative start index *)
Definition check_raw_string (c : list Z * Z * res (list Z * Z)) : bool :=
  let '(inp, start, obs) := c in
  let m := decode_string inp start in
  res_eqb (fun a b => lz_eqb (fst a) (fst b) && (snd a =? snd b)) m obs.

Definition check_raw_list (c : list Z * Z * res (list (list Z) * Z)) : bool :=
  let '(inp, start, obs) := c in
  let m := decode_list inp start in
  res_eqb (fun a b => llz_eqb (fst a) (fst b) && (snd a =? snd b)) m obs.

Definition check_read_size (c : list Z * Z * res (bool * Z * Z)) : bool :=
  let '(inp, start, obs) := c in
  res_eqb (fun a b => let '(k, ds, sz) := a in let '(k', ds', sz') := b in
                      Bool.eqb k k' && (ds =? ds') && (sz =? sz'))
          (read_size inp start) obs.

(* ---- exhaustive blocks: all 256 one-byte extensions of a prefix ----
   outcomes are compared through injective codes; [exc] lists (last byte, code) for the outcomes that
   are not the default code 0 (user error) *)
Definition code_err (e : err) : Z := match e with UserOther => 0 | Crash => 1 | _ => 2 end.
Definition code_s (r : res (list Z)) : Z :=
  match r with
  | Err e => code_err e
  | Ok p => 3 + fold_left (fun a b => a * 257 + (b + 1)) p 0
  end.
Definition code_l (r : res (list (list Z))) : Z :=
  match r with
  | Err e => code_err e
  | Ok items => 3 + fold_left (fun a it => fold_left (fun a b => a * 258 + (b + 1)) it a * 258 + 257) items 0
  end.

Fixpoint upto (n : nat) : list Z :=
  match n with O => [] | S k => upto k ++ [Z.of_nat k] end.
Definition bytes256 : list Z := Eval vm_compute in upto 256.

Fixpoint lookup (b : Z) (exc : list (Z * Z)) : Z :=
  match exc with
  | [] => 0
  | (k, v) :: r => if k =? b then v else lookup b r
  end.

Definition check_block_s (c : list Z * list (Z * Z)) : bool :=
  let '(pre, exc) := c in
  forallb (fun b => let inp := pre ++ [b] in let want := lookup b exc in
                    code_s (rlp_decode_string inp) =? want)
          bytes256.

Definition check_block_l (c : list Z * list (Z * Z)) : bool :=
  let '(pre, exc) := c in
  forallb (fun b => let inp := pre ++ [b] in let want := lookup b exc in
                    code_l (rlp_decode_list inp) =? want)
          bytes256.

(* which last bytes of a block disagree (used by the driver to name the exact input) *)
Definition block_misses_s (c : list Z * list (Z * Z)) : list Z :=
  let '(pre, exc) := c in
  filter (fun b => negb (let inp := pre ++ [b] in let want := lookup b exc in
                    code_s (rlp_decode_string inp) =? want))
         bytes256.
Definition block_misses_l (c : list Z * list (Z * Z)) : list Z :=
  let '(pre, exc) := c in
  filter (fun b => negb (let inp := pre ++ [b] in let want := lookup b exc in
                    code_l (rlp_decode_list inp) =? want))
         bytes256.
