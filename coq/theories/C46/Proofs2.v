(* C46  The decoder with the known defect classes repaired (Cases.required_string / required_list:
   crash -> user error; a list holding a 0x81-form single byte -> user error) satisfies the property
   at full strength.  This is what justifies the outcome the harness demands on those inputs. *)
From CV Require Import C46.Model C46.Spec C46.Proofs C46.Cases.
From Coq Require Import Lia ZArith List.
Import ListNotations.
Open Scope Z_scope.

Lemma item_nc1_not_ok it : item_nc1 it -> ~ item_ok it.
Proof.
  intros (x0 & Hx0 & ->) [(p & Hp & E)|(payload & Hp & E)].
  - unfold encode_string in E. destruct p as [|x [|y r]].
    + discriminate.
    + destruct (x <? 128) eqn:Ex; [discriminate|]. apply Z.ltb_ge in Ex. inversion E. lia.
    + destruct (blen (x :: y :: r) <=? 55); cbv zeta in E.
      * inversion E.
      * inversion E. destruct (be_enc (blen (x :: y :: r))) as [|a [|a' t]]; simpl in *; try discriminate.
  - unfold list_frame in E. destruct (blen payload <=? 55) eqn:El; cbv zeta in E.
    + assert (E1 := f_equal (hd 0) E). cbn [hd] in E1. pose proof (len_nonneg payload).
      change blen with len in E1. lia.
    + assert (E1 := f_equal (hd 0) E). cbn [hd] in E1.
      pose proof (len_nonneg (be_enc (blen payload))). change blen with len in *. lia.
Qed.

Lemma is_nc1_true it : is_nc1 it = true -> bytes it -> item_nc1 it.
Proof.
  unfold is_nc1. intros H Hb.
  destruct it as [|a [|x [|y r]]]; try discriminate.
  apply andb_true_iff in H. destruct H as [Ha H]. apply Z.eqb_eq in Ha. subst a.
  apply Z.ltb_lt in H. exists x. split; [|reflexivity].
  apply bytes_cons in Hb. destruct Hb as [_ Hb]. apply bytes_cons in Hb. destruct Hb as [Hx _].
  unfold is_byte in Hx. lia.
Qed.

Lemma is_nc1_false it : is_nc1 it = false -> ~ item_nc1 it.
Proof.
  intros H (x & Hx & ->). unfold is_nc1 in H. rewrite Z.eqb_refl in H. simpl in H. apply Z.ltb_ge in H. lia.
Qed.

Theorem required_string_exact inp :
  bytes inp -> len inp < 2 ^ 62 -> string_decoder_exact required_string inp.
Proof.
  intros Hb Hlen. unfold string_decoder_exact, required_string.
  destruct (rlp_string_cases inp Hb Hlen) as [E|[(p & E & Hc)|(E & Hc)]]; rewrite E.
  - right. split; [|reflexivity]. intros p [Hp Hi].
    pose proof (rlp_decode_encode_string p Hp) as Hd. rewrite <- Hi in Hd.
    rewrite Hd in E by exact Hlen. discriminate.
  - left. exists p. split; [assumption|reflexivity].
  - right. split; [|reflexivity]. intros p. apply string_crash_not_canonical; assumption.
Qed.

Theorem required_list_exact inp :
  bytes inp -> len inp < 2 ^ 62 -> list_decoder_exact required_list inp.
Proof.
  intros Hb Hlen. unfold list_decoder_exact, required_list.
  assert (Hcanon : forall items', canonical_list inp items' -> rlp_decode_list inp = Ok items').
  { intros items' [Hf Hi]. pose proof (rlp_decode_encode_list items' Hf) as Hd.
    rewrite <- Hi in Hd. apply Hd; assumption. }
  destruct (rlp_list_cases inp Hb Hlen) as [E|[(items & E & Hf & Hi)|(E & Hh)]]; rewrite E.
  - right. split; [|reflexivity]. intros items' Hc. rewrite (Hcanon items' Hc) in E. discriminate.
  - pose proof (rlp_list_ok_accepted inp items Hb Hf Hi) as [Hacc _].
    assert (Hbi : Forall bytes items).
    { subst inp. apply list_frame_bytes_payload in Hb. apply bytes_concat_forall. exact Hb. }
    destruct (existsb is_nc1 items) eqn:Ex.
    + right. split; [|reflexivity]. intros items' Hc.
      pose proof (Hcanon items' Hc) as Hd. rewrite E in Hd. inversion Hd; subst items'.
      destruct Hc as [Hok _]. apply existsb_exists in Ex. destruct Ex as (it & Hin & Hnc).
      rewrite Forall_forall in Hok, Hbi.
      apply (item_nc1_not_ok it); [apply is_nc1_true; [exact Hnc|apply Hbi; exact Hin]|apply Hok; exact Hin].
    + left. exists items. split; [|reflexivity]. split; [|exact Hi].
      rewrite Forall_forall in *. intros it Hin. destruct (Hacc it Hin) as [H|H]; [exact H|].
      exfalso. apply (is_nc1_false it); [|exact H].
      destruct (is_nc1 it) eqn:Eit; [|reflexivity].
      assert (existsb is_nc1 items = true) by (apply existsb_exists; exists it; auto). congruence.
  - right. split; [|reflexivity]. intros items' Hc. rewrite (Hcanon items' Hc) in E. discriminate.
Qed.

Theorem required_graceful inp :
  bytes inp -> len inp < 2 ^ 62 -> graceful (required_string inp) /\ graceful (required_list inp).
Proof.
  intros Hb Hlen. split.
  - destruct (required_string_exact inp Hb Hlen) as [(p & _ & E)|(_ & E)]; rewrite E; exact I.
  - destruct (required_list_exact inp Hb Hlen) as [(p & _ & E)|(_ & E)]; rewrite E; exact I.
Qed.

(* the required outcome differs from the implementation model only on the known defect classes *)
Theorem required_string_differs inp :
  bytes inp -> len inp < 2 ^ 62 -> required_string inp <> rlp_decode_string inp -> string_crash inp.
Proof.
  intros Hb Hlen Hd. unfold required_string in Hd.
  destruct (rlp_string_cases inp Hb Hlen) as [E|[(p & E & _)|(E & Hc)]]; rewrite E in Hd; try congruence.
Qed.

Theorem required_list_differs inp :
  bytes inp -> len inp < 2 ^ 62 -> required_list inp <> rlp_decode_list inp ->
  has_huge_len inp \/ exists items, rlp_decode_list inp = Ok items /\ Exists item_nc1 items.
Proof.
  intros Hb Hlen Hd. unfold required_list in Hd.
  destruct (rlp_list_cases inp Hb Hlen) as [E|[(items & E & Hf & Hi)|(E & Hh)]]; rewrite E in Hd; try congruence.
  - right. exists items. split; [exact E|].
    destruct (existsb is_nc1 items) eqn:Ex; [|congruence].
    apply existsb_exists in Ex. destruct Ex as (it & Hin & Hnc).
    apply Exists_exists. exists it. split; [exact Hin|]. apply is_nc1_true; [exact Hnc|].
    subst inp. apply list_frame_bytes_payload in Hb. apply bytes_concat_forall in Hb.
    rewrite Forall_forall in Hb. apply Hb. exact Hin.
  - left. exact Hh.
Qed.

(* ------------------------------------------------------------------ never-crash: statement, refutation, partial *)

Definition never_crash_statement : Prop :=
  forall inp, bytes inp -> len inp < 2 ^ 62 ->
    graceful (rlp_decode_string inp) /\ graceful (rlp_decode_list inp).

Definition w_index : list Z := [129].
Definition w_overflow : list Z := [191; 127; 255; 255; 255; 255; 255; 255; 255].
Definition w_list_overflow : list Z := [201; 191; 127; 255; 255; 255; 255; 255; 255; 255].
Definition w_list_overflow2 : list Z := [201; 255; 127; 255; 255; 255; 255; 255; 255; 255].

Lemma bytes_dec_true l : forallb (fun b => (0 <=? b) && (b <? 256)) l = true -> bytes l.
Proof.
  intro H. unfold bytes. rewrite Forall_forall. rewrite forallb_forall in H. intros x Hx.
  specialize (H x Hx). apply andb_true_iff in H. destruct H as [H1 H2].
  apply Z.leb_le in H1. apply Z.ltb_lt in H2. unfold is_byte. lia.
Qed.

Theorem never_crash_witnesses :
  (bytes w_index /\ len w_index < 2 ^ 62 /\ rlp_decode_string w_index = Err Crash) /\
  (bytes w_overflow /\ len w_overflow < 2 ^ 62 /\ rlp_decode_string w_overflow = Err Crash) /\
  (bytes w_list_overflow /\ len w_list_overflow < 2 ^ 62 /\ rlp_decode_list w_list_overflow = Err Crash) /\
  (bytes w_list_overflow2 /\ len w_list_overflow2 < 2 ^ 62 /\ rlp_decode_list w_list_overflow2 = Err Crash).
Proof.
  repeat split; try (apply bytes_dec_true; reflexivity); try reflexivity.
Qed.

Theorem never_crash_refuted : ~ never_crash_statement.
Proof.
  intro H. destruct never_crash_witnesses as [(Hb & Hl & E) _].
  destruct (H w_index Hb Hl) as [G _]. rewrite E in G. exact G.
Qed.

Theorem never_crash_partial inp :
  bytes inp -> len inp < 2 ^ 62 -> ~ string_crash inp -> no_huge_len inp ->
  graceful (rlp_decode_string inp) /\ graceful (rlp_decode_list inp).
Proof.
  intros Hb Hlen Hs Hn. split; [apply rlp_string_graceful|apply rlp_list_graceful]; assumption.
Qed.

(* whatever the input, the model's outcome is a value, a user error or a crash:
   in particular the fuel of the list loop is never exhausted and nothing else is raised *)
Theorem outcome_classes inp :
  bytes inp -> len inp < 2 ^ 62 ->
  (exists p, rlp_decode_string inp = Ok p) \/ rlp_decode_string inp = Err UserOther \/ rlp_decode_string inp = Err Crash.
Proof.
  intros Hb Hlen. destruct (rlp_string_cases inp Hb Hlen) as [E|[(p & E & _)|(E & _)]]; eauto.
Qed.

Theorem outcome_classes_list inp :
  bytes inp -> len inp < 2 ^ 62 ->
  (exists p, rlp_decode_list inp = Ok p) \/ rlp_decode_list inp = Err UserOther \/ rlp_decode_list inp = Err Crash.
Proof.
  intros Hb Hlen. destruct (rlp_list_cases inp Hb Hlen) as [E|[(p & E & _)|(E & _)]]; eauto.
Qed.

Lemma short_no_huge_len inp : len inp < 9 -> no_huge_len inp.
Proof.
  intros H (pre & b & l & rest & E & _ & (H8 & _)).
  assert (E' : len inp = len (pre ++ b :: l ++ rest)) by (rewrite <- E; reflexivity).
  rewrite len_app, (len_cons b), len_app in E'. change blen with len in H8.
  pose proof (len_nonneg pre). pose proof (len_nonneg rest). lia.
Qed.

Lemma short_no_string_crash inp : len inp < 9 -> inp <> [129] -> ~ string_crash inp.
Proof.
  intros H Hne [E|(l & rest & E & (H8 & _))]; [contradiction|].
  assert (E' : len inp = len (191 :: l ++ rest)) by (rewrite <- E; reflexivity).
  rewrite len_cons, len_app in E'. change blen with len in H8. pose proof (len_nonneg rest). lia.
Qed.

(* ------------------------------------------------------------------ exact crash class of RLP.decodeList *)

(* RLP.decodeList crashes exactly when: the input starts with a canonical list prefix for a non-empty payload
   of announced size S that passes the (overflow-prone) size test, and after some well-framed items covering
   fewer than S bytes the next item starts with 0xbf / 0xff and an 8-byte length that overflows int. *)
Definition list_crash (inp : list Z) : Prop :=
  exists b hb S items c l rest,
    header false (b :: hb) S /\ S <> 0 /\
    inp = (b :: hb) ++ concat items ++ c :: l ++ rest /\
    (S + len (b :: hb) <= len inp \/ 2 ^ 63 <= S + len (b :: hb)) /\
    Forall framed items /\ len (concat items) < S /\
    (c = 191 \/ c = 255) /\ huge_len_at (len (b :: hb) + len (concat items) + 9) l.

Lemma list_loop_crash_witness fuel : forall inp lds done i e r,
  bytes inp -> len inp < 2 ^ 62 -> 0 <= i <= len inp -> 0 <= r <= i ->
  list_loop fuel inp lds done i e r = Err Crash ->
  exists new pre c l rest,
    Forall framed new /\ inp = pre ++ concat new ++ c :: l ++ rest /\ len pre = i /\
    r + len (concat new) < lds /\ (c = 191 \/ c = 255) /\ huge_len_at (i + len (concat new) + 9) l.
Proof.
  induction fuel as [|fuel IH]; intros inp lds done i e r Hb Hlen Hi Hr H;
    rewrite list_loop_unfold in H; destruct (r <? lds) eqn:Er; try discriminate.
  apply Z.ltb_lt in Er.
  destruct (Z.eq_dec i (len inp)) as [Ei|Ei].
  { rewrite read_size_oob in H by lia. discriminate. }
  assert (Hi' : 0 <= i < len inp) by lia.
  pose proof (item_step_cases inp i Hb Hlen Hi') as Hstep.
  destruct (read_size inp i) as [[[k ds] sz]|err'].
  2:{ cbn [bind] in H. congruence. }
  cbn [bind] in H. cbv zeta in Hstep, H.
  destruct Hstep as [Hinc|[(it & pre & post & Hsl & Hf & He & Hinp & Hpre)|(Hle & Hsl & Hh)]].
  - replace (wrap_int (ds + sz) >? len inp) with true in H by (symmetry; rewrite Z.gtb_ltb; apply Z.ltb_lt; lia).
    discriminate.
  - pose proof (framed_len it Hf) as Hlit.
    assert (Hle : wrap_int (ds + sz) <= len inp).
    { rewrite He, Hinp, !len_app. pose proof (len_nonneg post). lia. }
    replace (wrap_int (ds + sz) >? len inp) with false in H by (symmetry; rewrite Z.gtb_ltb; apply Z.ltb_ge; lia).
    rewrite Hsl in H. cbn [bind] in H. rewrite He in H.
    replace (i + len it - i) with (len it) in H by lia.
    rewrite (wrap_int_id (len it)) in H by lia. rewrite wrap_int_id in H by lia.
    apply IH in H; try assumption; try lia.
    destruct H as (new & pre' & c & l & rest & Hfn & Hinp' & Hpre' & Hlt & Hc & Hhuge).
    exists (it :: new), pre, c, l, rest. simpl concat. rewrite len_app.
    split; [constructor; assumption|]. split.
    + (* inp = pre ++ it ++ post = pre' ++ ... with len pre' = len pre + len it *)
      rewrite Hinp in Hinp'.
      rewrite (app_assoc pre it post) in Hinp'.
      apply app_eq_len_l in Hinp'; [|rewrite len_app; lia].
      destruct Hinp' as [<- ->]. rewrite Hinp. rewrite <- !app_assoc. reflexivity.
    + split; [assumption|]. split; [lia|]. split; [assumption|].
      replace (i + (len it + len (concat new)) + 9) with (i + len it + len (concat new) + 9) by lia. exact Hhuge.
  - destruct Hh as (pre & c & l & rest & Hinp & Hpre & Hc & Hhuge).
    exists [], pre, c, l, rest. simpl concat. rewrite len_nil.
    split; [constructor|]. split; [exact Hinp|]. split; [exact Hpre|]. split; [lia|]. split; [exact Hc|].
    rewrite Hpre in Hhuge. replace (i + 0 + 9) with (i + 9) by lia. exact Hhuge.
Qed.

Lemma list_loop_crash_complete : forall items inp lds done fuel pre c l rest e r,
  inp = pre ++ concat items ++ c :: l ++ rest -> Forall framed items ->
  bytes inp -> len inp < 2 ^ 62 -> (List.length items < fuel)%nat ->
  r + len (concat items) < lds -> 0 <= r <= len pre ->
  (c = 191 \/ c = 255) -> huge_len_at (len pre + len (concat items) + 9) l ->
  list_loop fuel inp lds done (len pre) e r = Err Crash.
Proof.
  induction items as [|it items IH]; intros inp lds done fuel pre c l rest e r Hinp Hf Hb Hlen Hfuel Hlds Hr Hc Hhuge;
    rewrite list_loop_unfold; simpl concat in *; rewrite ?len_nil, ?len_app in *.
  - replace (r <? lds) with true by (symmetry; apply Z.ltb_lt; lia).
    destruct fuel as [|fuel]; [simpl in Hfuel; lia|].
    simpl app in Hinp. subst inp.
    rewrite read_size_app by assumption.
    destruct Hhuge as (H8 & Hnz & Hmax & Hov).
    assert (Hbl : bytes l).
    { apply bytes_app in Hb. destruct Hb as [_ Hb]. apply bytes_cons in Hb. destruct Hb as [_ Hb].
      apply bytes_app in Hb. tauto. }
    rewrite (huge_read_hdr c l rest Hc Hbl H8 Hnz Hmax). cbn [shift_hdr bind]. cbv zeta.
    rewrite be_val_uint in *. pose proof (be_uint_bounds l Hbl) as Hbd. pose proof (len_nonneg pre).
    assert (len pre <= len (pre ++ c :: l ++ rest)) by (rewrite len_app; pose proof (len_nonneg (c :: l ++ rest)); lia).
    rewrite (wrap_int_ovf (len pre + 9 + be_uint l)) by lia.
    pose proof (len_nonneg (pre ++ c :: l ++ rest)).
    replace (len pre + 9 + be_uint l - 2 ^ 64 >? len (pre ++ c :: l ++ rest)) with false
      by (symmetry; rewrite Z.gtb_ltb; apply Z.ltb_ge; lia).
    rewrite slice_crash by lia. reflexivity.
  - inversion Hf as [|it' items' Hfit Hfitems]; subst it' items'.
    pose proof (framed_len it Hfit) as Hlit. pose proof (len_nonneg (concat items)) as Hlr.
    replace (r <? lds) with true by (symmetry; apply Z.ltb_lt; lia).
    destruct fuel as [|fuel]; [simpl in Hfuel; lia|].
    assert (Hinp2 : inp = pre ++ it ++ (concat items ++ c :: l ++ rest)) by (rewrite Hinp, <- !app_assoc; reflexivity).
    destruct (item_step_complete pre it (concat items ++ c :: l ++ rest) Hfit) as (k & ds & sz & Hrs & Hds);
      [rewrite <- Hinp2; assumption|rewrite <- Hinp2; assumption|].
    rewrite <- Hinp2 in Hrs. rewrite Hrs. cbn [bind]. cbv zeta.
    assert (Htot : len inp = len pre + len it + len (concat items ++ c :: l ++ rest))
      by (rewrite Hinp2, !len_app; lia).
    pose proof (len_nonneg (concat items ++ c :: l ++ rest)). pose proof (len_nonneg pre).
    rewrite Hds. rewrite (wrap_int_id (len pre + len it)) by lia.
    replace (len pre + len it >? len inp) with false by (symmetry; rewrite Z.gtb_ltb; apply Z.ltb_ge; lia).
    assert (Hsl : slice inp (len pre) (len pre + len it) = Ok it) by (rewrite Hinp2; apply slice_app).
    rewrite Hsl. cbn [bind].
    replace (len pre + len it - len pre) with (len it) by lia.
    rewrite (wrap_int_id (len it)) by lia. rewrite wrap_int_id by lia.
    replace (len pre + len it) with (len (pre ++ it)) by (rewrite len_app; lia).
    apply (IH inp lds (done ++ [it]) fuel (pre ++ it) c l rest).
    + rewrite Hinp2, <- !app_assoc. reflexivity.
    + assumption.
    + assumption.
    + assumption.
    + simpl in Hfuel. lia.
    + lia.
    + rewrite len_app. lia.
    + assumption.
    + rewrite len_app. replace (len pre + len it + len (concat items) + 9)
        with (len pre + (len it + len (concat items)) + 9) by lia. exact Hhuge.
Qed.

Theorem rlp_list_crash_iff inp :
  bytes inp -> len inp < 2 ^ 62 -> (rlp_decode_list inp = Err Crash <-> list_crash inp).
Proof.
  intros Hb Hlen. split.
  - (* every crash has this shape *)
    intro E. destruct inp as [|b rest]; [discriminate|].
    pose proof Hb as Hb'. apply bytes_cons in Hb'. destruct Hb' as [Hbb Hbr].
    unfold rlp_decode_list, decode_list in E.
    unfold ErrIncompleteInput, ErrListSizeMismatch, ErrTypeMismatch in E.
    change (read_size (b :: rest) 0) with (read_size ([] ++ b :: rest) (len [])) in E.
    rewrite read_size_app in E by assumption. rewrite len_nil in E.
    destruct (read_hdr b rest) as [[[k h] sz]|e] eqn:Eh.
    2:{ apply read_hdr_err in Eh. subst e. discriminate. }
    apply read_hdr_sound in Eh; [|assumption|assumption].
    cbn [shift_hdr bind] in E. rewrite Z.add_0_l in E.
    destruct Eh as [(-> & Hb127 & -> & ->)|(hb & rest' & -> & Hh & ->)]; [discriminate|].
    destruct k; [discriminate|].
    pose proof (header_len _ _ _ Hh) as [Hhl Hsz]. rewrite len_cons in Hhl. rewrite ?max_int_eq in Hsz.
    pose proof (len_nonneg hb) as Hhb. pose proof (len_nonneg rest') as Hr'.
    assert (Hlen' : len (b :: hb ++ rest') = 1 + len hb + len rest') by (rewrite len_cons, len_app; lia).
    destruct (sz =? 0) eqn:Esz.
    { cbn [bind] in E. destruct (negb (1 =? len (b :: hb ++ rest'))); congruence. }
    apply Z.eqb_neq in Esz.
    destruct (wrap_int (sz + (1 + len hb)) >? len (b :: hb ++ rest')) eqn:Einc; [cbn [bind] in E; discriminate E|].
    destruct (list_loop (S (length (b :: hb ++ rest'))) (b :: hb ++ rest') sz [] (1 + len hb) 0 0)
      as [[[ret e'] r']|err] eqn:EL.
    { cbn [bind] in E. destruct (negb (r' =? sz)); cbn [bind] in E; [discriminate E|].
      destruct (negb (wrap_int (e' - 0) =? len (b :: hb ++ rest'))); discriminate E. }
    cbn [bind] in E. assert (err = Crash) by congruence. subst err.
    apply list_loop_crash_witness in EL; try assumption; try lia.
    destruct EL as (new & pre & c & l & rest & Hfn & Hinp & Hpre & Hlt & Hc & Hhuge).
    change (b :: hb ++ rest') with ((b :: hb) ++ rest') in Hinp.
    apply app_eq_len_l in Hinp; [|rewrite len_cons; lia]. destruct Hinp as [<- Hrest].
    exists b, hb, sz, new, c, l, rest. split; [exact Hh|]. split; [exact Esz|].
    split; [rewrite Hrest; reflexivity|]. split.
    + (* the size test passed: either honestly or by overflow *)
      rewrite Z.gtb_ltb in Einc. apply Z.ltb_ge in Einc. rewrite len_cons.
      destruct (Z_le_dec (2 ^ 63) (sz + (1 + len hb))) as [Hov|Hov]; [right; exact Hov|left].
      rewrite wrap_int_id in Einc by lia.
      change (b :: hb ++ rest') with ((b :: hb) ++ rest') in Einc. exact Einc.
    + split; [exact Hfn|]. split; [lia|]. split; [exact Hc|]. rewrite len_cons. exact Hhuge.
  - (* every input of this shape crashes *)
    intros (b & hb & sz & items & c & l & rest & Hh & Hnz & -> & Hsize & Hf & Hlt & Hc & Hhuge).
    pose proof (header_len _ _ _ Hh) as [Hhl Hsz]. rewrite len_cons in Hhl. rewrite ?max_int_eq in Hsz.
    pose proof (len_nonneg hb) as Hhb.
    unfold rlp_decode_list, decode_list.
    change (read_size ((b :: hb) ++ concat items ++ c :: l ++ rest) 0)
      with (read_size ([] ++ b :: hb ++ (concat items ++ c :: l ++ rest)) (len [])).
    rewrite read_size_app by assumption. rewrite len_nil.
    rewrite (read_hdr_complete false b hb sz _ Hh). cbn [shift_hdr bind]. rewrite Z.add_0_l.
    replace (sz =? 0) with false by (symmetry; apply Z.eqb_neq; exact Hnz).
    rewrite len_cons in Hsize.
    assert (Hpass : (wrap_int (sz + (1 + len hb)) >? len ((b :: hb) ++ concat items ++ c :: l ++ rest)) = false).
    { rewrite Z.gtb_ltb. apply Z.ltb_ge. destruct Hsize as [Hs|Hs].
      - rewrite wrap_int_id by lia. exact Hs.
      - rewrite wrap_int_ovf by lia. pose proof (len_nonneg ((b :: hb) ++ concat items ++ c :: l ++ rest)). lia. }
    rewrite Hpass.
    replace (1 + len hb) with (len (b :: hb)) by (rewrite len_cons; lia).
    rewrite (list_loop_crash_complete items ((b :: hb) ++ concat items ++ c :: l ++ rest) sz []
               (S (length ((b :: hb) ++ concat items ++ c :: l ++ rest))) (b :: hb) c l rest 0 0);
      try assumption; try reflexivity; try lia.
    + pose proof (framed_items_length items Hf) as Hil.
      assert (len (concat items) <= len ((b :: hb) ++ concat items ++ c :: l ++ rest)).
      { rewrite !len_app. pose proof (len_nonneg (b :: hb)). pose proof (len_nonneg (c :: l ++ rest)). lia. }
      unfold len in *. lia.
    + rewrite len_cons. lia.
Qed.

Theorem never_crash_partial_exact inp :
  bytes inp -> len inp < 2 ^ 62 -> ~ string_crash inp -> ~ list_crash inp ->
  graceful (rlp_decode_string inp) /\ graceful (rlp_decode_list inp).
Proof.
  intros Hb Hlen Hs Hl. split; [apply rlp_string_graceful; assumption|].
  destruct (outcome_classes_list inp Hb Hlen) as [(p & E)|[E|E]]; rewrite E; try exact I.
  apply Hl. apply rlp_list_crash_iff; assumption.
Qed.
