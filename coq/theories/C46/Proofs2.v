(* C46  Never-crash at full strength, outcome classes, and the regression facts for the four defects repaired
   in onflow/cadence commit 8b09734 (their witness inputs are now rejected with a user error). *)
From CV Require Import C46.Model C46.Spec C46.Proofs.
From Coq Require Import Lia ZArith List.
Import ListNotations.
Open Scope Z_scope.

Definition never_crash_statement : Prop :=
  forall inp, bytes inp -> len inp < 2 ^ 62 ->
    graceful (rlp_decode_string inp) /\ graceful (rlp_decode_list inp).

Theorem never_crash : never_crash_statement.
Proof.
  intros inp Hb Hlen. split; [apply rlp_string_graceful|apply rlp_list_graceful]; assumption.
Qed.

(* every non-canonical (or truncated, or over-long, or trailing-bytes) input is rejected with a user error *)
Theorem string_rejects_noncanonical inp :
  bytes inp -> len inp < 2 ^ 62 -> (forall p, ~ canonical_string inp p) -> rlp_decode_string inp = Err UserOther.
Proof.
  intros Hb Hlen Hn. destruct (rlp_string_exact inp Hb Hlen) as [(p & Hc & _)|(_ & E)]; [|exact E].
  exfalso. exact (Hn p Hc).
Qed.

Theorem list_rejects_noncanonical inp :
  bytes inp -> len inp < 2 ^ 62 -> (forall items, ~ canonical_list inp items) -> rlp_decode_list inp = Err UserOther.
Proof.
  intros Hb Hlen Hn. destruct (rlp_list_exact inp Hb Hlen) as [(items & Hc & _)|(_ & E)]; [|exact E].
  exfalso. exact (Hn items Hc).
Qed.

Theorem outcome_classes inp :
  bytes inp -> len inp < 2 ^ 62 ->
  (exists p, rlp_decode_string inp = Ok p) \/ rlp_decode_string inp = Err UserOther.
Proof.
  intros Hb Hlen. destruct (rlp_string_cases inp Hb Hlen) as [E|(p & E & _)]; eauto.
Qed.

(* in particular the fuel of the list loop of the model is never exhausted *)
Theorem outcome_classes_list inp :
  bytes inp -> len inp < 2 ^ 62 ->
  (exists p, rlp_decode_list inp = Ok p) \/ rlp_decode_list inp = Err UserOther.
Proof.
  intros Hb Hlen. destruct (rlp_list_cases inp Hb Hlen) as [E|(p & E & _)]; eauto.
Qed.

(* ---- the item rule: 0x81 x with x < 0x80 is not a canonical item, so a list holding it is rejected ---- *)

Lemma item_nc1_not_ok it : item_nc1 it -> ~ item_ok it.
Proof.
  intros (x0 & Hx0 & ->) [(p & Hp & E)|(payload & Hp & E)].
  - unfold encode_string in E. destruct p as [|x [|y r]].
    + discriminate.
    + destruct (x <? 128) eqn:Ex; [discriminate|]. apply Z.ltb_ge in Ex. inversion E. lia.
    + destruct (blen (x :: y :: r) <=? 55); cbv zeta in E.
      * inversion E.
      * inversion E. destruct (be_enc (blen (x :: y :: r))) as [|a [|a' t]]; simpl in *; try discriminate.
  - unfold list_frame in E. destruct (blen payload <=? 55) eqn:El; cbv zeta in E.
    + assert (E1 := f_equal (hd 0) E). cbn [hd] in E1. pose proof (len_nonneg payload).
      change blen with len in E1. lia.
    + assert (E1 := f_equal (hd 0) E). cbn [hd] in E1.
      pose proof (len_nonneg (be_enc (blen payload))). change blen with len in *. lia.
Qed.

Theorem list_with_nc1_item_rejected inp items :
  bytes inp -> len inp < 2 ^ 62 -> Exists item_nc1 items -> rlp_decode_list inp <> Ok items.
Proof.
  intros Hb Hlen Hex E. destruct (rlp_list_sound inp items Hb Hlen E) as [Hok _].
  apply Exists_exists in Hex. destruct Hex as (it & Hin & Hnc).
  rewrite Forall_forall in Hok. exact (item_nc1_not_ok it Hnc (Hok it Hin)).
Qed.

(* ---- the former defect witnesses ---- *)
Definition w_index : list Z := [129].
Definition w_overflow : list Z := [191; 127; 255; 255; 255; 255; 255; 255; 255].
Definition w_list_overflow : list Z := [201; 191; 127; 255; 255; 255; 255; 255; 255; 255].
Definition w_list_overflow2 : list Z := [201; 255; 127; 255; 255; 255; 255; 255; 255; 255].
Definition w_list_nc1 : list Z := [194; 129; 5].

Theorem former_witnesses_rejected :
  rlp_decode_string w_index = Err UserOther /\
  rlp_decode_string w_overflow = Err UserOther /\
  rlp_decode_list w_list_overflow = Err UserOther /\
  rlp_decode_list w_list_overflow2 = Err UserOther /\
  rlp_decode_list w_list_nc1 = Err UserOther.
Proof. repeat split; reflexivity. Qed.
