(* C46  Proofs relating the code-shaped model (Model.v) to the reference encoder (Spec.v). *)
From CV Require Import C46.Model C46.Spec.
From Coq Require Import Lia ZArith List.
Import ListNotations.
Open Scope Z_scope.

(* ------------------------------------------------------------------ arithmetic *)

Lemma two63_eq : two63 = 2 ^ 63. Proof. reflexivity. Qed.
Lemma two64_eq : two64 = 2 ^ 64. Proof. reflexivity. Qed.
Lemma max_int_eq : max_int = 2 ^ 63 - 1. Proof. reflexivity. Qed.

Lemma wrap_int_id z : - 2 ^ 63 <= z < 2 ^ 63 -> wrap_int z = z.
Proof.
  intro H. unfold wrap_int. rewrite two63_eq, two64_eq.
  destruct ((- 2 ^ 63 <=? z) && (z <? 2 ^ 63)); [reflexivity|].
  rewrite Z.mod_small by lia. lia.
Qed.

Lemma wrap_int_ovf z : 2 ^ 63 <= z < 2 ^ 64 -> wrap_int z = z - 2 ^ 64.
Proof.
  intro H. unfold wrap_int. rewrite two63_eq, two64_eq.
  replace (z <? 2 ^ 63) with false by (symmetry; apply Z.ltb_ge; lia). rewrite andb_false_r.
  replace (z + 2 ^ 63) with ((z - 2 ^ 63) + 1 * 2 ^ 64) by lia.
  rewrite Z.mod_add by lia. rewrite Z.mod_small by lia. lia.
Qed.

Lemma wrap_uint_id z : 0 <= z < 2 ^ 64 -> wrap_uint z = z.
Proof.
  intro H. unfold wrap_uint. rewrite two64_eq.
  destruct ((0 <=? z) && (z <? 2 ^ 64)); [reflexivity|]. apply Z.mod_small. exact H.
Qed.

(* the shortcut branch of wrap_int / wrap_uint agrees with the defining formula *)
Lemma wrap_int_spec z : wrap_int z = (z + 2 ^ 63) mod 2 ^ 64 - 2 ^ 63.
Proof.
  unfold wrap_int. rewrite two63_eq, two64_eq.
  destruct ((- 2 ^ 63 <=? z) && (z <? 2 ^ 63)) eqn:E; [|reflexivity].
  apply andb_true_iff in E. destruct E as [E1 E2]. apply Z.leb_le in E1. apply Z.ltb_lt in E2.
  rewrite Z.mod_small by lia. lia.
Qed.

Lemma wrap_uint_spec z : wrap_uint z = z mod 2 ^ 64.
Proof.
  unfold wrap_uint. rewrite two64_eq.
  destruct ((0 <=? z) && (z <? 2 ^ 64)) eqn:E; [|reflexivity].
  apply andb_true_iff in E. destruct E as [E1 E2]. apply Z.leb_le in E1. apply Z.ltb_lt in E2.
  symmetry. apply Z.mod_small. lia.
Qed.

(* ------------------------------------------------------------------ lists, idx, slice *)

Lemma len_blen l : len l = blen l.
Proof. reflexivity. Qed.

Lemma len_nonneg l : 0 <= len l.
Proof. unfold len. lia. Qed.

Lemma len_nil : len [] = 0.
Proof. reflexivity. Qed.

Lemma len_cons b l : len (b :: l) = 1 + len l.
Proof. unfold len. simpl length. lia. Qed.

Lemma len_app a b : len (a ++ b) = len a + len b.
Proof. unfold len. rewrite app_length. lia. Qed.

Lemma len_zero_nil l : len l = 0 -> l = [].
Proof. destruct l; [reflexivity|]. rewrite len_cons. pose proof (len_nonneg l). lia. Qed.

Lemma bytes_app a b : bytes (a ++ b) <-> bytes a /\ bytes b.
Proof. unfold bytes. apply Forall_app. Qed.

Lemma bytes_cons x l : bytes (x :: l) <-> is_byte x /\ bytes l.
Proof. unfold bytes. split; intro H. - inversion H; auto. - destruct H. constructor; auto. Qed.

Lemma idx_app pre b rest : idx (pre ++ b :: rest) (len pre) = Ok b.
Proof.
  unfold idx. rewrite len_app, len_cons.
  pose proof (len_nonneg pre). pose proof (len_nonneg rest).
  replace (0 <=? len pre) with true by (symmetry; apply Z.leb_le; lia).
  replace (len pre <? len pre + (1 + len rest)) with true by (symmetry; apply Z.ltb_lt; lia).
  simpl. unfold len. rewrite Nat2Z.id.
  rewrite app_nth2 by lia. rewrite Nat.sub_diag. reflexivity.
Qed.

Lemma idx_oob inp i : len inp <= i -> idx inp i = Err Crash.
Proof.
  intro H. unfold idx.
  replace (i <? len inp) with false by (symmetry; apply Z.ltb_ge; lia).
  rewrite andb_false_r. reflexivity.
Qed.

Lemma split_at (inp : list Z) i :
  0 <= i < len inp -> exists pre b rest, inp = pre ++ b :: rest /\ len pre = i.
Proof.
  intro H. unfold len in *.
  exists (firstn (Z.to_nat i) inp).
  assert (Hn : (Z.to_nat i < length inp)%nat) by lia.
  destruct (skipn (Z.to_nat i) inp) as [|b rest] eqn:E.
  - apply (f_equal (@length Z)) in E. rewrite skipn_length in E. simpl in E. lia.
  - exists b, rest. split.
    + rewrite <- E. symmetry. apply firstn_skipn.
    + rewrite firstn_length. lia.
Qed.

Lemma slice_app pre mid rest :
  slice (pre ++ mid ++ rest) (len pre) (len pre + len mid) = Ok mid.
Proof.
  unfold slice. rewrite !len_app.
  pose proof (len_nonneg pre). pose proof (len_nonneg mid). pose proof (len_nonneg rest).
  replace (0 <=? len pre) with true by (symmetry; apply Z.leb_le; lia).
  replace (len pre <=? len pre + len mid) with true by (symmetry; apply Z.leb_le; lia).
  replace (len pre + len mid <=? len pre + (len mid + len rest)) with true by (symmetry; apply Z.leb_le; lia).
  simpl. f_equal.
  replace (len pre + len mid - len pre) with (len mid) by lia.
  unfold len. rewrite !Nat2Z.id.
  rewrite skipn_app. rewrite skipn_all. rewrite Nat.sub_diag. simpl.
  rewrite firstn_app. rewrite firstn_all. rewrite Nat.sub_diag. simpl. apply app_nil_r.
Qed.

Lemma slice_crash inp lo hi : hi < lo -> slice inp lo hi = Err Crash.
Proof.
  intro H. unfold slice.
  replace (lo <=? hi) with false by (symmetry; apply Z.leb_gt; lia).
  rewrite andb_false_r. reflexivity.
Qed.

Lemma slice_ok_inv inp lo hi s :
  slice inp lo hi = Ok s -> 0 <= lo /\ lo <= hi /\ hi <= len inp.
Proof.
  unfold slice. intro H.
  destruct (0 <=? lo) eqn:E1; [|discriminate].
  destruct (lo <=? hi) eqn:E2; [|discriminate].
  destruct (hi <=? len inp) eqn:E3; [|discriminate].
  apply Z.leb_le in E1, E2, E3. lia.
Qed.

(* ------------------------------------------------------------------ big-endian lengths *)

Lemma be_uint_acc_app l b acc : be_uint_acc (l ++ [b]) acc = be_uint_acc l acc * 256 + b.
Proof. revert acc. induction l as [|x l IH]; intro acc; simpl; [reflexivity|apply IH]. Qed.

Lemma be_uint_app l b : be_uint (l ++ [b]) = be_uint l * 256 + b.
Proof. apply be_uint_acc_app. Qed.

Lemma be_uint_bounds l : bytes l -> 0 <= be_uint l < 256 ^ len l.
Proof.
  induction l as [|b l IH] using rev_ind; intro Hb.
  - unfold be_uint. simpl. lia.
  - apply bytes_app in Hb. destruct Hb as [Hl Hb]. apply bytes_cons in Hb. destruct Hb as [Hb _].
    rewrite be_uint_app, len_app, len_cons, len_nil.
    specialize (IH Hl). unfold is_byte in Hb.
    rewrite Z.pow_add_r by (pose proof (len_nonneg l); lia).
    change (256 ^ (1 + 0)) with 256. nia.
Qed.

Lemma be_uint_lower b l : bytes (b :: l) -> b <> 0 -> 256 ^ len l <= be_uint (b :: l).
Proof.
  revert b. induction l as [|x l IH] using rev_ind; intros b Hb Hnz.
  - apply bytes_cons in Hb. destruct Hb as [Hb _]. unfold is_byte in Hb.
    unfold be_uint. simpl. lia.
  - change (b :: l ++ [x]) with ((b :: l) ++ [x]) in *.
    apply bytes_app in Hb. destruct Hb as [Hl Hx]. apply bytes_cons in Hx. destruct Hx as [Hx _].
    rewrite be_uint_app, len_app, len_cons, len_nil.
    specialize (IH b Hl Hnz). unfold is_byte in Hx.
    rewrite Z.pow_add_r by (pose proof (len_nonneg l); lia).
    change (256 ^ (1 + 0)) with 256. nia.
Qed.

Lemma be_enc_fuel_uint f n : 0 <= n < 256 ^ Z.of_nat f -> be_uint (be_enc_fuel f n) = n.
Proof.
  revert n. induction f as [|f IH]; intros n H.
  - simpl in *. unfold be_uint. simpl. lia.
  - simpl be_enc_fuel. destruct (n <=? 0) eqn:E.
    + apply Z.leb_le in E. unfold be_uint. simpl. lia.
    + apply Z.leb_gt in E. rewrite be_uint_app. rewrite IH.
      * pose proof (Z.div_mod n 256). lia.
      * rewrite Nat2Z.inj_succ in H. rewrite Z.pow_succ_r in H by lia.
        split. { apply Z.div_pos; lia. } { apply Z.div_lt_upper_bound; lia. }
Qed.

Lemma be_enc_fuel_zero f n : n <= 0 -> be_enc_fuel f n = [].
Proof. intro H. destruct f; simpl; [reflexivity|]. apply Z.leb_le in H. rewrite H. reflexivity. Qed.

Lemma be_enc_fuel_of_uint f l :
  bytes l -> (length l <= f)%nat -> (forall b r, l = b :: r -> b <> 0) ->
  be_enc_fuel f (be_uint l) = l.
Proof.
  revert f. induction l as [|x l IH] using rev_ind; intros f Hb Hl Hnz.
  - apply be_enc_fuel_zero. unfold be_uint. simpl. lia.
  - apply bytes_app in Hb. destruct Hb as [Hbl Hx]. apply bytes_cons in Hx. destruct Hx as [Hx _].
    unfold is_byte in Hx.
    rewrite app_length in Hl. simpl in Hl.
    destruct f as [|f]; [lia|].
    rewrite be_uint_app. simpl be_enc_fuel.
    pose proof (be_uint_bounds l Hbl) as Hbd.
    assert (Hpos : 0 < be_uint l * 256 + x).
    { destruct l as [|b r].
      - specialize (Hnz x [] eq_refl). unfold be_uint. simpl. lia.
      - assert (b <> 0) by (apply (Hnz b (r ++ [x])); reflexivity).
        pose proof (be_uint_lower b r Hbl H).
        assert (0 < 256 ^ len r) by (apply Z.pow_pos_nonneg; [lia|apply len_nonneg]). lia. }
    replace (be_uint l * 256 + x <=? 0) with false by (symmetry; apply Z.leb_gt; lia).
    replace ((be_uint l * 256 + x) / 256) with (be_uint l)
      by (symmetry; rewrite Z.add_comm; rewrite Z.div_add by lia; rewrite Z.div_small by lia; lia).
    replace ((be_uint l * 256 + x) mod 256) with x
      by (symmetry; rewrite Z.add_comm; rewrite Z.mod_add by lia; apply Z.mod_small; lia).
    f_equal. apply IH; [assumption|lia|].
    intros b r E. subst l. apply (Hnz b (r ++ [x])). reflexivity.
Qed.

Lemma be_enc_fuel_bytes f n : bytes (be_enc_fuel f n).
Proof.
  revert n. induction f as [|f IH]; intro n; simpl.
  - constructor.
  - destruct (n <=? 0); [constructor|].
    apply bytes_app. split; [apply IH|]. apply bytes_cons. split; [|constructor].
    unfold is_byte. apply Z.mod_pos_bound. lia.
Qed.

Lemma be_enc_fuel_length f n : (length (be_enc_fuel f n) <= f)%nat.
Proof.
  revert n. induction f as [|f IH]; intro n; simpl; [lia|].
  destruct (n <=? 0); simpl; [lia|]. rewrite app_length. simpl. specialize (IH (n / 256)). lia.
Qed.

Lemma be_enc_fuel_hd f n b r : 0 <= n < 256 ^ Z.of_nat f -> be_enc_fuel f n = b :: r -> b <> 0.
Proof.
  revert n b r. induction f as [|f IH]; intros n b r Hn E.
  - simpl in E. discriminate.
  - simpl in E. destruct (n <=? 0) eqn:En; [discriminate|]. apply Z.leb_gt in En.
    assert (Hq : 0 <= n / 256 < 256 ^ Z.of_nat f).
    { rewrite Nat2Z.inj_succ in Hn. rewrite Z.pow_succ_r in Hn by lia.
      split. { apply Z.div_pos; lia. } { apply Z.div_lt_upper_bound; lia. } }
    destruct (be_enc_fuel f (n / 256)) as [|b' r'] eqn:E'.
    + simpl in E. inversion E. subst.
      (* n/256 must be 0 here, so n mod 256 = n > 0 *)
      pose proof (be_enc_fuel_uint f (n / 256) Hq) as Hu. rewrite E' in Hu.
      unfold be_uint in Hu. simpl in Hu.
      pose proof (Z.div_mod n 256). lia.
    + simpl in E. inversion E. subst. eapply IH; eauto.
Qed.

Lemma be_enc_nonempty n : 0 < n -> be_enc n <> [].
Proof.
  intros H E. unfold be_enc in E.
  change (be_enc_fuel 8 n) with (if n <=? 0 then [] else be_enc_fuel 7 (n / 256) ++ [n mod 256]) in E.
  replace (n <=? 0) with false in E by (symmetry; apply Z.leb_gt; lia).
  destruct (be_enc_fuel 7 (n / 256)); discriminate.
Qed.

Definition pow256_8 : 256 ^ Z.of_nat 8 = 2 ^ 64 := eq_refl.

Lemma be_enc_uint n : 0 <= n < 2 ^ 64 -> be_uint (be_enc n) = n.
Proof. intro H. apply be_enc_fuel_uint. rewrite pow256_8. exact H. Qed.

Lemma be_enc_len n : 0 < n < 2 ^ 64 -> 1 <= len (be_enc n) <= 8.
Proof.
  intro H. pose proof (be_enc_fuel_length 8 n). pose proof (be_enc_nonempty n).
  unfold be_enc in *. unfold len. destruct (be_enc_fuel 8 n); [exfalso; apply H1; [lia|reflexivity]|].
  simpl length in *. lia.
Qed.

Lemma be_enc_len1 n : 255 < n < 2 ^ 64 -> 2 <= len (be_enc n).
Proof.
  intro H. pose proof (be_enc_uint n ltac:(lia)) as Hu.
  pose proof (be_enc_fuel_bytes 8 n) as Hb. fold (be_enc n) in Hb.
  pose proof (be_uint_bounds _ Hb) as Hbd. rewrite Hu in Hbd.
  pose proof (len_nonneg (be_enc n)).
  destruct (Z.eq_dec (len (be_enc n)) 0) as [E|E]; [rewrite E in Hbd; simpl in Hbd; lia|].
  destruct (Z.eq_dec (len (be_enc n)) 1) as [E1|E1]; [rewrite E1 in Hbd; simpl in Hbd; lia|].
  lia.
Qed.

Lemma be_enc_of_uint l :
  bytes l -> len l <= 8 -> (forall b r, l = b :: r -> b <> 0) -> be_enc (be_uint l) = l.
Proof. intros. apply be_enc_fuel_of_uint; auto. unfold len in *. lia. Qed.

(* ------------------------------------------------------------------ ReadSize, index-free *)

(* What ReadSize computes when the byte at startIndex is [b] and the bytes after it are [rest]:
   (isString, header length, data size); header length 0 = the byte is its own payload. *)
Definition read_hdr (b : Z) (rest : list Z) : res (bool * Z * Z) :=
  if b <=? 127 then Ok (true, 0, 1) else
  if b <=? 183 then Ok (true, 1, b - 128) else
  if (192 <=? b) && (b <=? 247) then Ok (false, 1, b - 192) else
  let n := if b <=? 191 then b - 183 else b - 247 in
  let isS := b <=? 191 in
  match rest with
  | [] => Err UserOther
  | l0 :: _ =>
    if n =? 1 then (if l0 <=? 55 then Err UserOther else Ok (isS, 2, l0))
    else if l0 =? 0 then Err UserOther
    else if n >? len rest then Err UserOther
    else let L := be_uint (firstn (Z.to_nat n) rest) in
         if L >? max_int then Err UserOther else Ok (isS, 1 + n, L)
  end.

Definition shift_hdr (i : Z) (r : res (bool * Z * Z)) : res (bool * Z * Z) :=
  match r with Ok (k, h, sz) => Ok (k, i + h, sz) | Err e => Err e end.

Lemma len_firstn n (l : list Z) : 0 <= n <= len l -> len (firstn (Z.to_nat n) l) = n.
Proof. intro H. unfold len in *. rewrite firstn_length. lia. Qed.

Lemma bytes_firstn n (l : list Z) : bytes l -> bytes (firstn n l).
Proof.
  intro H. rewrite <- (firstn_skipn n l) in H. apply bytes_app in H. tauto.
Qed.

Ltac leb_cases :=
  repeat match goal with
  | H : (_ <=? _) = true |- _ => apply Z.leb_le in H
  | H : (_ <=? _) = false |- _ => apply Z.leb_gt in H
  | H : (_ <? _) = true |- _ => apply Z.ltb_lt in H
  | H : (_ <? _) = false |- _ => apply Z.ltb_ge in H
  | H : (_ >=? _) = true |- _ => rewrite Z.geb_leb in H
  | H : (_ >=? _) = false |- _ => rewrite Z.geb_leb in H
  | H : (_ >? _) = true |- _ => rewrite Z.gtb_ltb in H
  | H : (_ >? _) = false |- _ => rewrite Z.gtb_ltb in H
  | H : (_ =? _) = true |- _ => apply Z.eqb_eq in H
  | H : (_ =? _) = false |- _ => apply Z.eqb_neq in H
  | H : (_ && _) = true |- _ => apply andb_true_iff in H; destruct H
  | H : (_ && _) = false |- _ => apply andb_false_iff in H
  end.

Ltac decide_b c v :=
  replace c with v by (symmetry;
    first [ apply Z.leb_le; lia | apply Z.leb_gt; lia | apply Z.ltb_lt; lia | apply Z.ltb_ge; lia
          | apply Z.eqb_eq; lia | apply Z.eqb_neq; lia
          | rewrite Z.geb_leb; first [apply Z.leb_le; lia | apply Z.leb_gt; lia]
          | rewrite Z.gtb_ltb; first [apply Z.ltb_lt; lia | apply Z.ltb_ge; lia] ]).

Ltac decide_in H c v :=
  replace c with v in H by (symmetry;
    first [ apply Z.leb_le; lia | apply Z.leb_gt; lia | apply Z.ltb_lt; lia | apply Z.ltb_ge; lia
          | apply Z.eqb_eq; lia | apply Z.eqb_neq; lia
          | rewrite Z.geb_leb; first [apply Z.leb_le; lia | apply Z.leb_gt; lia]
          | rewrite Z.gtb_ltb; first [apply Z.ltb_lt; lia | apply Z.ltb_ge; lia] ]).

Definition read_hdr_long (n : Z) (isS : bool) (rest : list Z) : res (bool * Z * Z) :=
  match rest with
  | [] => Err UserOther
  | l0 :: _ =>
    if n =? 1 then (if l0 <=? 55 then Err UserOther else Ok (isS, 2, l0))
    else if l0 =? 0 then Err UserOther
    else if n >? len rest then Err UserOther
    else let L := be_uint (firstn (Z.to_nat n) rest) in
         if L >? max_int then Err UserOther else Ok (isS, 1 + n, L)
  end.

Lemma read_size_long_tail pre b rest n isS :
  bytes rest -> len (pre ++ b :: rest) < 2 ^ 62 -> 1 <= n <= 8 ->
  (if len pre + 1 >=? len (pre ++ b :: rest) then Err ErrIncompleteInput else
   if n =? 1 then
     let* strLen := idx (pre ++ b :: rest) (len pre + 1) in
     let startIndex := wrap_int (len pre + 1 + 1) in
     if strLen <=? 55 then Err ErrNonCanonicalInput else
     Ok (isS, startIndex, wrap_int strLen)
   else
     let* b0 := idx (pre ++ b :: rest) (len pre + 1) in
     if b0 =? 0 then Err ErrNonCanonicalInput else
     let endIndex := wrap_int (len pre + 1 + wrap_int n) in
     if endIndex >? len (pre ++ b :: rest) then Err ErrIncompleteInput else
     let* lenData := slice (pre ++ b :: rest) (len pre + 1) endIndex in
     let startIndex := wrap_int (len pre + 1 + wrap_int n) in
     let strLen := wrap_uint (be_uint lenData) in
     if strLen >? max_int then Err ErrDataSizeTooLarge else
     Ok (isS, startIndex, wrap_int strLen))
  = shift_hdr (len pre) (read_hdr_long n isS rest).
Proof.
  intros Hbr Hlen Hn.
  pose proof (len_nonneg pre) as Hp. pose proof (len_nonneg rest) as Hr.
  assert (Hl : len (pre ++ b :: rest) = len pre + 1 + len rest) by (rewrite len_app, len_cons; lia).
  unfold read_hdr_long.
  destruct rest as [|l0 rest'].
  { rewrite len_nil in Hl. decide_b (len pre + 1 >=? len (pre ++ [b])) true. reflexivity. }
  rewrite len_cons in Hl. pose proof (len_nonneg rest') as Hr'.
  decide_b (len pre + 1 >=? len (pre ++ b :: l0 :: rest')) false.
  assert (Hidx : idx (pre ++ b :: l0 :: rest') (len pre + 1) = Ok l0).
  { replace (pre ++ b :: l0 :: rest') with ((pre ++ [b]) ++ l0 :: rest') by (rewrite <- app_assoc; reflexivity).
    replace (len pre + 1) with (len (pre ++ [b])) by (rewrite len_app, len_cons, len_nil; lia).
    apply idx_app. }
  rewrite Hidx. cbn [bind].
  apply bytes_cons in Hbr. destruct Hbr as [Hl0 Hbr']. unfold is_byte in Hl0.
  destruct (n =? 1) eqn:En.
  { destruct (l0 <=? 55) eqn:E5; [reflexivity|]. leb_cases.
    simpl. rewrite !wrap_int_id by lia. f_equal. f_equal. f_equal. lia. }
  destruct (l0 =? 0) eqn:E0; [reflexivity|].
  leb_cases.
  rewrite (wrap_int_id n) by lia.
  rewrite (wrap_int_id (len pre + 1 + n)) by lia.
  rewrite Hl.
  destruct (n >? len (l0 :: rest')) eqn:E6; rewrite len_cons in E6; leb_cases.
  { decide_b (len pre + 1 + n >? len pre + 1 + (1 + len rest')) true. reflexivity. }
  decide_b (len pre + 1 + n >? len pre + 1 + (1 + len rest')) false.
  assert (Hsl : slice (pre ++ b :: l0 :: rest') (len pre + 1) (len pre + 1 + n)
                = Ok (firstn (Z.to_nat n) (l0 :: rest'))).
  { pose proof (slice_app (pre ++ [b]) (firstn (Z.to_nat n) (l0 :: rest'))
                  (skipn (Z.to_nat n) (l0 :: rest'))) as HS.
    rewrite firstn_skipn in HS. rewrite len_firstn in HS by (rewrite len_cons; lia).
    rewrite <- app_assoc in HS.
    replace (len (pre ++ [b])) with (len pre + 1) in HS by (rewrite len_app, len_cons, len_nil; lia).
    exact HS. }
  rewrite Hsl. cbn [bind]. cbv zeta.
  assert (Hbd : 0 <= be_uint (firstn (Z.to_nat n) (l0 :: rest')) < 2 ^ 64).
  { pose proof (be_uint_bounds (firstn (Z.to_nat n) (l0 :: rest'))) as Hb.
    rewrite len_firstn in Hb by (rewrite len_cons; lia).
    assert (bytes (firstn (Z.to_nat n) (l0 :: rest')))
      by (apply bytes_firstn; apply bytes_cons; split; assumption).
    specialize (Hb H).
    assert (256 ^ n <= 256 ^ 8) by (apply Z.pow_le_mono_r; lia).
    change (256 ^ 8) with (2 ^ 64) in *. lia. }
  rewrite wrap_uint_id by exact Hbd.
  destruct (be_uint (firstn (Z.to_nat n) (l0 :: rest')) >? max_int) eqn:E7; [reflexivity|].
  rewrite ?max_int_eq in E7. leb_cases.
  cbn [shift_hdr]. rewrite wrap_int_id by lia. f_equal. f_equal. f_equal. lia.
Qed.

Lemma read_hdr_long_eq b rest :
  183 < b -> ~ (192 <= b <= 247) ->
  read_hdr b rest = read_hdr_long (if b <=? 191 then b - 183 else b - 247) (b <=? 191) rest.
Proof.
  intros H1 H2. unfold read_hdr, read_hdr_long.
  decide_b (b <=? 127) false. decide_b (b <=? 183) false.
  replace ((192 <=? b) && (b <=? 247)) with false; [reflexivity|].
  symmetry. apply andb_false_iff.
  destruct (Z_le_dec 192 b); [right; apply Z.leb_gt; lia|left; apply Z.leb_gt; lia].
Qed.

Lemma read_size_app pre b rest :
  bytes (pre ++ b :: rest) -> len (pre ++ b :: rest) < 2 ^ 62 ->
  read_size (pre ++ b :: rest) (len pre) = shift_hdr (len pre) (read_hdr b rest).
Proof.
  intros Hb Hlen.
  pose proof (len_nonneg pre) as Hp. pose proof (len_nonneg rest) as Hr.
  assert (Hl : len (pre ++ b :: rest) = len pre + 1 + len rest) by (rewrite len_app, len_cons; lia).
  apply bytes_app in Hb. destruct Hb as [_ Hb]. apply bytes_cons in Hb. destruct Hb as [Hbb Hbr].
  unfold is_byte in Hbb.
  unfold read_size.
  decide_b (len (pre ++ b :: rest) =? 0) false.
  decide_b (len pre >=? len (pre ++ b :: rest)) false.
  rewrite idx_app. cbn [bind].
  rewrite (wrap_int_id (len pre + 1)) by lia.
  rewrite (wrap_int_id (len pre + 1 - 1)) by lia.
  unfold ByteRangeEnd, ShortStringRangeStart, ShortStringRangeEnd, LongStringRangeStart,
    LongStringRangeEnd, ShortListRangeStart, ShortListRangeEnd, LongListRangeStart,
    MaxShortLengthAllowed, MaxLongLengthAllowed.
  destruct (b <=? 127) eqn:E1.
  { unfold read_hdr. rewrite E1. simpl. f_equal. f_equal. f_equal. lia. }
  destruct (b <=? 183) eqn:E2.
  { unfold read_hdr. rewrite E1, E2. leb_cases. simpl. rewrite wrap_int_id by lia. reflexivity. }
  leb_cases.
  destruct (Z_le_dec 192 b) as [G1|G1]; [destruct (Z_le_dec b 247) as [G2|G2]|].
  { unfold read_hdr. decide_b (b <=? 127) false. decide_b (b <=? 183) false.
    decide_b (192 <=? b) true. decide_b (b <=? 247) true.
    decide_b (b >=? 192) true. simpl. rewrite wrap_int_id by lia. reflexivity. }
  { (* long list *)
    rewrite read_hdr_long_eq by lia.
    decide_b (b >=? 192) true. decide_b (b <=? 247) false.
    decide_b (b >=? 184) true. decide_b (b <=? 191) false. decide_b (b >=? 248) true.
    cbv beta iota zeta. cbn [andb].
    apply read_size_long_tail; [assumption|assumption|lia]. }
  { (* long string *)
    rewrite read_hdr_long_eq by lia.
    decide_b (b >=? 192) false.
    decide_b (b >=? 184) true. decide_b (b <=? 191) true. decide_b (b >=? 248) false.
    cbv beta iota zeta. cbn [andb].
    apply read_size_long_tail; [assumption|assumption|lia]. }
Qed.

Lemma read_size_oob inp i : len inp <= i -> read_size inp i = Err UserOther.
Proof.
  intro H. unfold read_size.
  destruct (len inp =? 0); [reflexivity|].
  decide_b (i >=? len inp) true. reflexivity.
Qed.

Lemma read_hdr_err b rest e : read_hdr b rest = Err e -> e = UserOther.
Proof.
  unfold read_hdr. intro H.
  repeat match type of H with
  | (if ?c then _ else _) = _ => destruct c
  | (match ?l with [] => _ | _ :: _ => _ end) = _ => destruct l
  | (let _ := _ in _) = _ => cbv zeta in H
  end; try discriminate; inversion H; reflexivity.
Qed.

(* canonical length prefixes, in terms of the reference encoder's BE *)
Inductive header : bool -> list Z -> Z -> Prop :=
| H_ss b sz : 0 <= sz <= 55 -> b = 128 + sz -> header true [b] sz
| H_sl b sz : 0 <= sz <= 55 -> b = 192 + sz -> header false [b] sz
| H_ls b sz : 55 < sz <= max_int -> b = 183 + blen (be_enc sz) -> header true (b :: be_enc sz) sz
| H_ll b sz : 55 < sz <= max_int -> b = 247 + blen (be_enc sz) -> header false (b :: be_enc sz) sz.

Lemma firstn_app_exact (a b : list Z) : firstn (length a) (a ++ b) = a.
Proof. rewrite firstn_app, Nat.sub_diag, firstn_all. simpl. apply app_nil_r. Qed.

Lemma firstn_len_app (a b : list Z) : firstn (Z.to_nat (len a)) (a ++ b) = a.
Proof. unfold len. rewrite Nat2Z.id. apply firstn_app_exact. Qed.

Lemma read_hdr_long_sound n isS rest h sz k :
  bytes rest -> 1 <= n <= 8 -> read_hdr_long n isS rest = Ok (k, h, sz) ->
  exists hb rest', rest = hb ++ rest' /\ len hb = n /\ h = 1 + n /\ k = isS /\
                   be_enc sz = hb /\ 55 < sz <= max_int.
Proof.
  intros Hb Hn H. unfold read_hdr_long in H.
  destruct rest as [|l0 rest']; [discriminate|].
  pose proof Hb as Hb0. apply bytes_cons in Hb0. destruct Hb0 as [Hl0 Hbr]. unfold is_byte in Hl0.
  destruct (n =? 1) eqn:En.
  { destruct (l0 <=? 55) eqn:E5; [discriminate|]. leb_cases. inversion H; subst.
    exists [sz], rest'. repeat split; try reflexivity; try (rewrite ?max_int_eq; lia).
    replace sz with (be_uint [sz]) at 1 by (unfold be_uint; simpl; lia).
    apply be_enc_of_uint.
    - apply bytes_cons. split; [assumption|constructor].
    - rewrite len_cons, len_nil. lia.
    - intros b r E. inversion E. lia. }
  destruct (l0 =? 0) eqn:E0; [discriminate|].
  destruct (n >? len (l0 :: rest')) eqn:E6; [discriminate|].
  cbv zeta in H.
  destruct (be_uint (firstn (Z.to_nat n) (l0 :: rest')) >? max_int) eqn:E7; [discriminate|].
  leb_cases. inversion H; subst. clear H.
  exists (firstn (Z.to_nat n) (l0 :: rest')), (skipn (Z.to_nat n) (l0 :: rest')).
  assert (Hlen : len (firstn (Z.to_nat n) (l0 :: rest')) = n) by (apply len_firstn; lia).
  assert (Hbf : bytes (firstn (Z.to_nat n) (l0 :: rest'))) by (apply bytes_firstn; assumption).
  assert (Hshape : exists t, firstn (Z.to_nat n) (l0 :: rest') = l0 :: t /\ len t = n - 1).
  { destruct (Z.to_nat n) as [|m] eqn:Em; [lia|]. simpl. eexists. split; [reflexivity|].
    simpl firstn in Hlen. rewrite len_cons in Hlen. lia. }
  destruct Hshape as (t & Ht & Hlt).
  repeat split; try reflexivity.
  - symmetry. apply firstn_skipn.
  - exact Hlen.
  - apply be_enc_of_uint; [assumption|lia|].
    intros b r E. rewrite Ht in E. inversion E. subst. assumption.
  - rewrite Ht in *. pose proof (be_uint_lower l0 t Hbf E0) as Hlow.
    assert (256 ^ 1 <= 256 ^ len t) by (apply Z.pow_le_mono_r; lia). lia.
  - exact E7.
Qed.

Lemma read_hdr_sound b rest k h sz :
  is_byte b -> bytes rest -> read_hdr b rest = Ok (k, h, sz) ->
  (h = 0 /\ b <= 127 /\ k = true /\ sz = 1) \/
  (exists hb rest', rest = hb ++ rest' /\ header k (b :: hb) sz /\ h = 1 + len hb).
Proof.
  intros Hb Hr H. unfold is_byte in Hb.
  destruct (Z_le_dec b 183) as [G|G].
  - unfold read_hdr in H. destruct (b <=? 127) eqn:E1.
    + leb_cases. inversion H. left. lia.
    + decide_in H (b <=? 183) true. leb_cases. inversion H. subst. right.
      exists [], rest. repeat split. constructor; lia.
  - destruct (Z_le_dec 192 b) as [G1|G1]; [destruct (Z_le_dec b 247) as [G2|G2]|].
    + unfold read_hdr in H. decide_in H (b <=? 127) false. decide_in H (b <=? 183) false.
      decide_in H (192 <=? b) true. decide_in H (b <=? 247) true. simpl in H. inversion H. subst. right.
      exists [], rest. repeat split. constructor; lia.
    + rewrite read_hdr_long_eq in H by lia. decide_in H (b <=? 191) false.
      apply read_hdr_long_sound in H; [|assumption|lia].
      destruct H as (hb & rest' & -> & Hl & -> & -> & He & Hsz). right.
      exists hb, rest'. repeat split; [|lia].
      rewrite <- He. constructor; [assumption|rewrite He, <- len_blen; lia].
    + rewrite read_hdr_long_eq in H by lia. decide_in H (b <=? 191) true.
      apply read_hdr_long_sound in H; [|assumption|lia].
      destruct H as (hb & rest' & -> & Hl & -> & -> & He & Hsz). right.
      exists hb, rest'. repeat split; [|lia].
      rewrite <- He. constructor; [assumption|rewrite He, <- len_blen; lia].
Qed.

Lemma read_hdr_long_complete isS sz rest' :
  55 < sz <= max_int ->
  read_hdr_long (len (be_enc sz)) isS (be_enc sz ++ rest') = Ok (isS, 1 + len (be_enc sz), sz).
Proof.
  intro Hsz. rewrite ?max_int_eq in Hsz.
  pose proof (be_enc_len sz ltac:(lia)) as Hlen.
  pose proof (be_enc_uint sz ltac:(lia)) as Hu.
  pose proof (be_enc_fuel_bytes 8 sz) as Hb. fold (be_enc sz) in Hb.
  unfold read_hdr_long.
  destruct (be_enc sz) as [|l0 t] eqn:E; [rewrite len_nil in Hlen; lia|].
  assert (Hnz : l0 <> 0).
  { eapply (be_enc_fuel_hd 8 sz); [rewrite pow256_8; lia|exact E]. }
  simpl app. cbv iota.
  destruct (len (l0 :: t) =? 1) eqn:E1.
  - leb_cases. rewrite len_cons in E1. assert (t = []) by (apply len_zero_nil; lia). subst t.
    unfold be_uint in Hu. simpl in Hu. subst l0.
    decide_b (sz <=? 55) false. reflexivity.
  - decide_b (l0 =? 0) false.
    change (l0 :: t ++ rest') with ((l0 :: t) ++ rest').
    rewrite len_app. pose proof (len_nonneg rest').
    decide_b (len (l0 :: t) >? len (l0 :: t) + len rest') false.
    cbv zeta. rewrite !firstn_len_app. rewrite Hu.
    rewrite ?max_int_eq. decide_b (sz >? 2 ^ 63 - 1) false. reflexivity.
Qed.

Lemma read_hdr_complete k b hb sz rest' :
  header k (b :: hb) sz -> read_hdr b (hb ++ rest') = Ok (k, 1 + len hb, sz).
Proof.
  intro H. inversion H as [b' sz' Hs Eb|b' sz' Hs Eb|b' sz' Hs Eb|b' sz' Hs Eb]; subst b' sz'; clear H.
  - unfold read_hdr.
    decide_b (b <=? 127) false. decide_b (b <=? 183) true.
    rewrite len_nil. replace (b - 128) with sz by lia. reflexivity.
  - unfold read_hdr.
    decide_b (b <=? 127) false. decide_b (b <=? 183) false.
    decide_b (192 <=? b) true. decide_b (b <=? 247) true. cbn [andb].
    rewrite len_nil. replace (b - 192) with sz by lia. reflexivity.
  - rewrite ?max_int_eq in *. pose proof (be_enc_len sz ltac:(lia)) as Hl. rewrite len_blen in Hl.
    rewrite read_hdr_long_eq by lia.
    decide_b (b <=? 191) true.
    replace (b - 183) with (len (be_enc sz)) by (rewrite len_blen; lia).
    apply read_hdr_long_complete. rewrite ?max_int_eq. lia.
  - rewrite ?max_int_eq in *. pose proof (be_enc_len sz ltac:(lia)) as Hl. rewrite len_blen in Hl.
    rewrite read_hdr_long_eq by lia.
    decide_b (b <=? 191) false.
    replace (b - 247) with (len (be_enc sz)) by (rewrite len_blen; lia).
    apply read_hdr_long_complete. rewrite ?max_int_eq. lia.
Qed.

(* ------------------------------------------------------------------ RLP.decodeString *)

Lemma slice_app_firstn pre rest n :
  0 <= n <= len rest ->
  slice (pre ++ rest) (len pre) (len pre + n) = Ok (firstn (Z.to_nat n) rest).
Proof.
  intro H.
  pose proof (slice_app pre (firstn (Z.to_nat n) rest) (skipn (Z.to_nat n) rest)) as HS.
  rewrite firstn_skipn in HS. rewrite len_firstn in HS by lia. exact HS.
Qed.

Lemma firstn_len (l : list Z) : firstn (Z.to_nat (len l)) l = l.
Proof. unfold len. rewrite Nat2Z.id. apply firstn_all. Qed.

Lemma header_len k hh sz : header k hh sz -> 1 <= len hh <= 9 /\ 0 <= sz <= max_int.
Proof.
  intro H. destruct H; rewrite ?max_int_eq in *; rewrite ?len_cons, ?len_nil;
    try (pose proof (be_enc_len sz ltac:(lia))); lia.
Qed.

Lemma encode_string_header hh p :
  header true hh (len p) -> (forall x, p = [x] -> 128 <= x) -> encode_string p = hh ++ p.
Proof.
  intros H Hx.
  remember (len p) as sz eqn:Esz. remember true as k eqn:Ek.
  destruct H as [b sz Hs Eb|b sz Hs Eb|b sz Hs Eb|b sz Hs Eb]; try discriminate; subst b.
  - unfold encode_string. destruct p as [|x [|y r]].
    + rewrite len_nil in Esz. subst sz. reflexivity.
    + specialize (Hx x eq_refl). decide_b (x <? 128) false.
      rewrite len_cons, len_nil in Esz. subst sz. reflexivity.
    + rewrite <- len_blen, <- Esz. decide_b (sz <=? 55) true. reflexivity.
  - unfold encode_string. destruct p as [|x [|y r]].
    + rewrite len_nil in Esz. lia.
    + rewrite len_cons, len_nil in Esz. lia.
    + rewrite <- !len_blen, <- Esz. decide_b (sz <=? 55) false. cbv zeta. reflexivity.
Qed.

Definition string_outcome (inp : list Z) (r : res (list Z)) : Prop :=
  r = Err UserOther \/
  (exists p, r = Ok p /\ canonical_string inp p).

Lemma rlp_string_cases inp :
  bytes inp -> len inp < 2 ^ 62 -> string_outcome inp (rlp_decode_string inp).
Proof.
  intros Hb Hlen. destruct inp as [|b rest]; [left; reflexivity|].
  pose proof Hb as Hb'. apply bytes_cons in Hb'. destruct Hb' as [Hbb Hbr].
  unfold rlp_decode_string, decode_string.
  change (read_size (b :: rest) 0) with (read_size ([] ++ b :: rest) (len [])).
  rewrite read_size_app by assumption. rewrite len_nil.
  destruct (read_hdr b rest) as [[[k h] sz]|e] eqn:E.
  2:{ apply read_hdr_err in E. subst e. unfold string_outcome; left; reflexivity. }
  apply read_hdr_sound in E; [|assumption|assumption].
  cbn [shift_hdr bind]. rewrite Z.add_0_l.
  destruct E as [(-> & Hb127 & -> & ->)|(hb & rest' & -> & Hh & ->)].
  - (* single byte *)
    cbn [negb]. simpl ((1 =? 1) && (0 =? 0)). cbv iota.
    change (idx (b :: rest) 0) with (Ok b : res Z). cbn [bind].
    destruct rest as [|y r].
    + unfold string_outcome; right. exists [b]. split; [reflexivity|]. split; [assumption|].
      unfold encode_string. unfold is_byte in Hbb. decide_b (b <? 128) true. reflexivity.
    + unfold string_outcome; left. rewrite !len_cons. pose proof (len_nonneg r).
      decide_b (1 =? 1 + (1 + len r)) false. reflexivity.
  - destruct k; [|unfold string_outcome; left; reflexivity]. cbn [negb].
    pose proof (header_len _ _ _ Hh) as [Hhl Hsz]. rewrite len_cons in Hhl. rewrite ?max_int_eq in Hsz.
    pose proof (len_nonneg hb) as Hhb. pose proof (len_nonneg rest') as Hr'.
    assert (Hlen' : len (b :: hb ++ rest') = 1 + len hb + len rest')
      by (rewrite len_cons, len_app; lia).
    apply bytes_app in Hbr. destruct Hbr as [Hbhb Hbr'].
    decide_b (0 =? 1 + len hb) false. rewrite andb_false_r.
    (* the range test, on sizes *)
    rewrite Hlen'. replace (1 + len hb + len rest' - (1 + len hb)) with (len rest') by lia.
    rewrite (wrap_int_id (len rest')) by lia.
    destruct (sz >? len rest') eqn:Einc; [unfold string_outcome; left; reflexivity|]. leb_cases.
    destruct (sz =? 1) eqn:Esz.
    + (* one byte of data after a prefix: the prefix is 0x81 *)
      leb_cases. subst sz.
      inversion Hh as [b' sz' Hs Eb E1 E2|b' sz' Hs Eb|b' sz' Hs Eb|b' sz' Hs Eb]; subst; [|lia].
      change (128 + 1) with 129 in *.
      rewrite len_nil. simpl (1 + 0). simpl app.
      destruct rest' as [|x r]; [rewrite len_nil in Einc; lia|].
      change (idx (129 :: x :: r) 1) with (idx ([129] ++ x :: r) (len [129])).
      rewrite idx_app. cbn [bind].
      unfold ByteRangeEnd. destruct (x <=? 127) eqn:Ex; [unfold string_outcome; left; reflexivity|]. leb_cases.
      simpl (1 + 1). rewrite (wrap_int_id 2) by lia. rewrite !len_cons. pose proof (len_nonneg r).
      change (slice (129 :: x :: r) 1 2) with (slice ([129] ++ (x :: r)) (len [129]) (len [129] + 1)).
      rewrite slice_app_firstn by (rewrite len_cons; lia).
      cbn [bind]. simpl (firstn (Z.to_nat 1) (x :: r)). simpl (2 - 0). rewrite (wrap_int_id 2) by lia.
      destruct r as [|y r'].
      * unfold string_outcome; right. exists [x]. split; [reflexivity|]. split.
        -- apply bytes_cons in Hbr'. destruct Hbr' as [Hx _]. apply bytes_cons. split; [assumption|constructor].
        -- unfold encode_string. decide_b (x <? 128) false. reflexivity.
      * unfold string_outcome; left. rewrite len_cons. pose proof (len_nonneg r').
        decide_b (2 =? 1 + (1 + (1 + len r'))) false. reflexivity.
    + leb_cases. cbn [bind].
      rewrite (wrap_int_id (1 + len hb + sz)) by lia.
      change (b :: hb ++ rest') with ((b :: hb) ++ rest').
      replace (1 + len hb) with (len (b :: hb)) by (rewrite len_cons; lia).
      rewrite slice_app_firstn by lia. cbn [bind].
      rewrite (len_cons b hb). rewrite Z.sub_0_r.
      rewrite wrap_int_id by lia.
      destruct (1 + len hb + sz =? 1 + len hb + len rest') eqn:Etr; [|unfold string_outcome; left; reflexivity].
      leb_cases. assert (sz = len rest') by lia. subst sz.
      cbn [negb]. unfold string_outcome; right. exists rest'. rewrite firstn_len. split; [reflexivity|].
      split; [assumption|]. symmetry. apply encode_string_header; [assumption|].
      intros x Ex. subst rest'. rewrite len_cons, len_nil in Esz. lia.
Qed.

Lemma rlp_string_framed b hb p :
  header true (b :: hb) (len p) -> (forall x, p = [x] -> 128 <= x) ->
  bytes ((b :: hb) ++ p) -> len ((b :: hb) ++ p) < 2 ^ 62 ->
  rlp_decode_string ((b :: hb) ++ p) = Ok p.
Proof.
  intros Hh Hx Hb Hlen.
  pose proof (header_len _ _ _ Hh) as [Hhl Hsz]. rewrite len_cons in Hhl. rewrite ?max_int_eq in Hsz.
  pose proof (len_nonneg hb) as Hhb. pose proof (len_nonneg p) as Hp.
  assert (Hlen' : len ((b :: hb) ++ p) = 1 + len hb + len p) by (rewrite len_app, len_cons; lia).
  unfold rlp_decode_string, decode_string.
  change (read_size ((b :: hb) ++ p) 0) with (read_size ([] ++ b :: hb ++ p) (len [])).
  rewrite read_size_app by assumption. rewrite len_nil.
  rewrite (read_hdr_complete true b hb (len p) p Hh).
  cbn [shift_hdr bind negb]. rewrite Z.add_0_l.
  decide_b (0 =? 1 + len hb) false. rewrite andb_false_r.
  rewrite Hlen'. replace (1 + len hb + len p - (1 + len hb)) with (len p) by lia.
  rewrite (wrap_int_id (len p)) by lia. decide_b (len p >? len p) false.
  assert (Hnc : (if len p =? 1
                 then let* b0 := idx ((b :: hb) ++ p) (1 + len hb) in Ok (b0 <=? ByteRangeEnd)
                 else Ok false) = Ok false).
  { destruct (len p =? 1) eqn:E1; [|reflexivity]. leb_cases.
    destruct p as [|x [|y r]]; rewrite ?len_cons, ?len_nil in E1;
      try (pose proof (len_nonneg r)); try lia.
    replace (1 + len hb) with (len (b :: hb)) by (rewrite len_cons; lia).
    rewrite idx_app. cbn [bind]. specialize (Hx x eq_refl). unfold ByteRangeEnd.
    decide_b (x <=? 127) false. reflexivity. }
  rewrite Hnc. cbn [bind].
  rewrite (wrap_int_id (1 + len hb + len p)) by lia.
  replace (1 + len hb) with (len (b :: hb)) at 1 by (rewrite len_cons; lia).
  replace (1 + len hb + len p) with (len (b :: hb) + len p) at 1 by (rewrite len_cons; lia).
  rewrite slice_app_firstn by lia. cbn [bind]. rewrite Z.sub_0_r. rewrite wrap_int_id by lia.
  rewrite Z.eqb_refl. cbn [negb]. rewrite firstn_len. reflexivity.
Qed.

Theorem rlp_decode_encode_string p :
  bytes p -> len (encode_string p) < 2 ^ 62 -> rlp_decode_string (encode_string p) = Ok p.
Proof.
  intros Hb Hlen.
  assert (Hcase : (exists x, p = [x] /\ x < 128) \/ (forall x, p = [x] -> 128 <= x)).
  { destruct p as [|x [|y r]].
    - right. intros x E. discriminate.
    - destruct (Z_lt_dec x 128); [left; eauto|right]. intros x' E. inversion E. subst. lia.
    - right. intros x' E. discriminate. }
  destruct Hcase as [(x & -> & Hx)|Hx].
  - unfold encode_string. decide_b (x <? 128) true.
    apply bytes_cons in Hb. destruct Hb as [Hbx _]. unfold is_byte in Hbx.
    unfold rlp_decode_string, decode_string.
    change (read_size [x] 0) with (read_size ([] ++ x :: []) (len [])).
    rewrite (read_size_app [] x []); [|simpl; apply Forall_cons; [unfold is_byte; lia|apply Forall_nil]|unfold len; simpl; lia].
    unfold read_hdr. decide_b (x <=? 127) true. reflexivity.
  - pose proof (len_nonneg p) as Hp.
    assert (Hex : exists b hb, header true (b :: hb) (len p) /\ encode_string p = (b :: hb) ++ p).
    { destruct (Z_le_dec (len p) 55) as [L|L].
      - exists (128 + len p), []. assert (Hh : header true [128 + len p] (len p)) by (constructor; lia).
        split; [exact Hh|]. apply encode_string_header; assumption.
      - assert (Hlp : len p < 2 ^ 62).
        { revert Hlen. unfold encode_string. destruct p as [|x [|y r]];
            try (rewrite ?len_cons, ?len_nil in L; lia).
          change blen with len. decide_b (len (x :: y :: r) <=? 55) false. cbv zeta.
          rewrite (len_cons _ (_ ++ _)), len_app. pose proof (len_nonneg (be_enc (len (x :: y :: r)))). lia. }
        exists (183 + blen (be_enc (len p))), (be_enc (len p)).
        assert (Hh : header true ((183 + blen (be_enc (len p))) :: be_enc (len p)) (len p))
          by (constructor; [rewrite ?max_int_eq; lia|reflexivity]).
        split; [exact Hh|]. apply encode_string_header; assumption. }
    destruct Hex as (b & hb & Hh & E). rewrite E in *.
    apply rlp_string_framed; try assumption.
    pose proof (header_len _ _ _ Hh) as [Hhl _].
    inversion Hh as [b' sz' Hs Eb E1 E2|b' sz' Hs Eb|b' sz' Hs Eb E1 E2|b' sz' Hs Eb]; subst.
    + apply bytes_cons. split; [unfold is_byte; lia|assumption].
    + rewrite ?max_int_eq in Hs. pose proof (be_enc_len (len p) ltac:(lia)) as Hl. rewrite len_blen in Hl.
      apply bytes_cons. split; [unfold is_byte; lia|].
      apply bytes_app. split; [apply be_enc_fuel_bytes|assumption].
Qed.

Theorem rlp_string_exact inp :
  bytes inp -> len inp < 2 ^ 62 -> string_decoder_exact rlp_decode_string inp.
Proof.
  intros Hb Hlen. destruct (rlp_string_cases inp Hb Hlen) as [E|(p & E & Hc)].
  - right. split; [|exact E]. intros p [Hp Hi].
    pose proof (rlp_decode_encode_string p Hp) as Hd. rewrite <- Hi in Hd.
    rewrite Hd in E by exact Hlen. discriminate.
  - left. exists p. split; assumption.
Qed.

Theorem rlp_string_graceful inp :
  bytes inp -> len inp < 2 ^ 62 -> graceful (rlp_decode_string inp).
Proof.
  intros Hb Hlen. destruct (rlp_string_cases inp Hb Hlen) as [E|(p & E & _)]; rewrite E; exact I.
Qed.

(* ------------------------------------------------------------------ RLP.decodeList: one item *)

(* the byte strings the item loop of DecodeList steps over: a byte below 0x80, or a canonical prefix with its
   data, where one data byte under a string prefix must be at least 0x80 *)
Definition framed (it : list Z) : Prop :=
  (exists b, it = [b] /\ 0 <= b <= 127) \/
  (exists k b hb data, header k (b :: hb) (len data) /\ it = (b :: hb) ++ data /\
                       (k = true -> forall x, data = [x] -> 128 <= x)).

Lemma framed_len it : framed it -> 1 <= len it.
Proof.
  intros [(b & -> & _)|(k & b & hb & data & _ & -> & _)].
  - rewrite len_cons, len_nil. lia.
  - rewrite len_app, len_cons. pose proof (len_nonneg hb). pose proof (len_nonneg data). lia.
Qed.

(* the canonical-form test of the item loop (inline in the model, named here) *)
Definition nc_check (inp : list Z) (k : bool) (ds sz i : Z) : res bool :=
  if k && (sz =? 1) && negb (ds =? i)
  then let* b := idx inp ds in Ok (b <=? ByteRangeEnd) else Ok false.

(* the three things one loop iteration can do at an in-range item start [i] *)
Lemma item_step_cases inp i :
  bytes inp -> len inp < 2 ^ 62 -> 0 <= i < len inp ->
  match read_size inp i with
  | Err e => e = UserOther
  | Ok (k, ds, sz) =>
      (sz >? wrap_int (len inp - ds)) = true \/
      ((sz >? wrap_int (len inp - ds)) = false /\ nc_check inp k ds sz i = Ok true) \/
      ((sz >? wrap_int (len inp - ds)) = false /\ nc_check inp k ds sz i = Ok false /\
       exists it pre post, slice inp i (wrap_int (ds + sz)) = Ok it /\ framed it /\
                           wrap_int (ds + sz) = i + len it /\ inp = pre ++ it ++ post /\ len pre = i)
  end.
Proof.
  intros Hb Hlen Hi.
  destruct (split_at inp i Hi) as (pre & b & rest & -> & <-).
  rewrite read_size_app by assumption.
  pose proof Hb as Hb'. apply bytes_app in Hb'. destruct Hb' as [Hbpre Hb'].
  apply bytes_cons in Hb'. destruct Hb' as [Hbb Hbr].
  pose proof (len_nonneg pre) as Hp. pose proof (len_nonneg rest) as Hr.
  assert (Hl : len (pre ++ b :: rest) = len pre + 1 + len rest) by (rewrite len_app, len_cons; lia).
  destruct (read_hdr b rest) as [[[k h] sz]|e] eqn:E.
  2:{ apply read_hdr_err in E. exact E. }
  apply read_hdr_sound in E; [|assumption|assumption].
  cbn [shift_hdr].
  destruct E as [(-> & Hb127 & -> & ->)|(hb & rest' & -> & Hh & ->)].
  - right. right. rewrite Z.add_0_r. rewrite Hl.
    replace (len pre + 1 + len rest - len pre) with (1 + len rest) by lia.
    rewrite (wrap_int_id (1 + len rest)) by lia.
    split; [rewrite Z.gtb_ltb; apply Z.ltb_ge; lia|].
    split; [unfold nc_check; rewrite (Z.eqb_refl (len pre)); cbn [negb]; rewrite andb_false_r; reflexivity|].
    rewrite wrap_int_id by lia.
    exists [b], pre, rest. unfold is_byte in Hbb. split; [|split; [|split; [|split; reflexivity]]].
    + replace (len pre + 1) with (len pre + len [b]) by (rewrite len_cons, len_nil; lia).
      change (b :: rest) with ([b] ++ rest). apply slice_app.
    + left. exists b. split; [reflexivity|lia].
    + rewrite len_cons, len_nil. lia.
  - pose proof (header_len _ _ _ Hh) as [Hhl Hsz]. rewrite len_cons in Hhl. rewrite ?max_int_eq in Hsz.
    pose proof (len_nonneg hb) as Hhb. pose proof (len_nonneg rest') as Hr'.
    rewrite (len_app hb rest') in Hl. rewrite Hl.
    replace (len pre + 1 + (len hb + len rest') - (len pre + (1 + len hb))) with (len rest') by lia.
    rewrite (wrap_int_id (len rest')) by lia.
    destruct (sz >? len rest') eqn:Einc; [left; reflexivity|]. right. leb_cases.
    assert (Hslice : exists it,
              slice (pre ++ b :: hb ++ rest') (len pre) (wrap_int (len pre + (1 + len hb) + sz)) = Ok it /\
              it = (b :: hb) ++ firstn (Z.to_nat sz) rest' /\
              wrap_int (len pre + (1 + len hb) + sz) = len pre + len it /\
              pre ++ b :: hb ++ rest' = pre ++ it ++ skipn (Z.to_nat sz) rest').
    { rewrite wrap_int_id by lia.
      assert (Hlf : len (firstn (Z.to_nat sz) rest') = sz) by (apply len_firstn; lia).
      exists ((b :: hb) ++ firstn (Z.to_nat sz) rest'). split; [|split; [reflexivity|split]].
      - replace (len pre + (1 + len hb) + sz)
          with (len pre + len ((b :: hb) ++ firstn (Z.to_nat sz) rest'))
          by (rewrite len_app, len_cons; lia).
        replace (pre ++ b :: hb ++ rest')
          with (pre ++ ((b :: hb) ++ firstn (Z.to_nat sz) rest') ++ skipn (Z.to_nat sz) rest').
        + apply slice_app.
        + rewrite <- app_assoc. rewrite firstn_skipn. reflexivity.
      - rewrite len_app, len_cons. lia.
      - rewrite <- app_assoc. rewrite firstn_skipn. reflexivity. }
    destruct Hslice as (it & Hsl & Hit & Hend & Hsplit).
    assert (Hlf : len (firstn (Z.to_nat sz) rest') = sz) by (apply len_firstn; lia).
    unfold nc_check.
    replace (len pre + (1 + len hb) =? len pre) with false by (symmetry; apply Z.eqb_neq; lia).
    cbn [negb]. rewrite andb_true_r.
    destruct (k && (sz =? 1)) eqn:Ek.
    + (* string prefix with one byte of data: the byte decides *)
      apply andb_true_iff in Ek. destruct Ek as [-> Esz]. leb_cases. subst sz.
      destruct rest' as [|x r]; [rewrite len_nil in Einc; lia|].
      replace (pre ++ b :: hb ++ x :: r) with ((pre ++ b :: hb) ++ x :: r) by (rewrite <- app_assoc; reflexivity).
      replace (len pre + (1 + len hb)) with (len (pre ++ b :: hb)) by (rewrite len_app, len_cons; lia).
      rewrite idx_app. cbn [bind]. unfold ByteRangeEnd.
      destruct (x <=? 127) eqn:Ex; [left; split; reflexivity|right]. leb_cases.
      split; [reflexivity|]. split; [reflexivity|].
      rewrite <- app_assoc. cbn [app].
      replace (len (pre ++ b :: hb)) with (len pre + (1 + len hb)) by (rewrite len_app, len_cons; lia).
      exists it, pre, (skipn (Z.to_nat 1) (x :: r)). split; [exact Hsl|]. split; [|split; [exact Hend|split; [exact Hsplit|reflexivity]]].
      right. exists true, b, hb, (firstn (Z.to_nat 1) (x :: r)). rewrite Hlf. split; [exact Hh|]. split; [exact Hit|].
      intros _ x' Ex'. simpl in Ex'. inversion Ex'. subst. lia.
    + right. split; [reflexivity|]. split; [reflexivity|].
      exists it, pre, (skipn (Z.to_nat sz) rest'). split; [exact Hsl|]. split; [|split; [exact Hend|split; [exact Hsplit|reflexivity]]].
      right. exists k, b, hb, (firstn (Z.to_nat sz) rest'). rewrite Hlf. split; [exact Hh|]. split; [exact Hit|].
      intros -> x' Ex'. cbn [andb] in Ek. leb_cases.
      rewrite Ex' in Hlf. rewrite len_cons, len_nil in Hlf. lia.
Qed.

Lemma item_step_complete pre it post :
  framed it -> bytes (pre ++ it ++ post) -> len (pre ++ it ++ post) < 2 ^ 62 ->
  exists k ds sz, read_size (pre ++ it ++ post) (len pre) = Ok (k, ds, sz) /\
                  ds + sz = len pre + len it /\
                  (sz >? wrap_int (len (pre ++ it ++ post) - ds)) = false /\
                  nc_check (pre ++ it ++ post) k ds sz (len pre) = Ok false.
Proof.
  intros Hf Hb Hlen. pose proof (len_nonneg pre) as Hp. pose proof (len_nonneg post) as Hpost.
  destruct Hf as [(b & -> & Hb127)|(k & b & hb & data & Hh & -> & Hcond)].
  - change (pre ++ [b] ++ post) with (pre ++ b :: post) in *.
    rewrite read_size_app by assumption.
    unfold read_hdr. decide_b (b <=? 127) true. cbn [shift_hdr].
    eexists _, _, _. split; [reflexivity|]. rewrite len_cons, len_nil. split; [lia|].
    rewrite len_app, len_cons in *. rewrite Z.add_0_r.
    replace (len pre + (1 + len post) - len pre) with (1 + len post) by lia.
    rewrite wrap_int_id by lia. split; [rewrite Z.gtb_ltb; apply Z.ltb_ge; lia|].
    unfold nc_check. rewrite (Z.eqb_refl (len pre)). cbn [negb]. rewrite andb_false_r. reflexivity.
  - replace (pre ++ ((b :: hb) ++ data) ++ post) with (pre ++ b :: hb ++ (data ++ post)) in *
      by (rewrite <- !app_assoc; reflexivity).
    rewrite read_size_app by assumption.
    rewrite (read_hdr_complete k b hb (len data) (data ++ post) Hh). cbn [shift_hdr].
    pose proof (len_nonneg hb) as Hhb. pose proof (len_nonneg data) as Hd.
    eexists _, _, _. split; [reflexivity|]. rewrite len_app, len_cons. split; [lia|].
    assert (Hl : len (pre ++ b :: hb ++ data ++ post) = len pre + 1 + len hb + len data + len post)
      by (rewrite len_app, len_cons, !len_app; lia).
    rewrite Hl in *.
    replace (len pre + 1 + len hb + len data + len post - (len pre + (1 + len hb))) with (len data + len post) by lia.
    rewrite wrap_int_id by lia. split; [rewrite Z.gtb_ltb; apply Z.ltb_ge; lia|].
    unfold nc_check.
    replace (len pre + (1 + len hb) =? len pre) with false by (symmetry; apply Z.eqb_neq; lia).
    cbn [negb]. rewrite andb_true_r.
    destruct (k && (len data =? 1)) eqn:Ek; [|reflexivity].
    apply andb_true_iff in Ek. destruct Ek as [-> E1]. leb_cases.
    destruct data as [|x [|y r]]; rewrite ?len_cons, ?len_nil in E1; try (pose proof (len_nonneg r)); try lia.
    replace (pre ++ b :: hb ++ [x] ++ post) with ((pre ++ b :: hb) ++ x :: post) by (rewrite <- !app_assoc; reflexivity).
    replace (len pre + (1 + len hb)) with (len (pre ++ b :: hb)) by (rewrite len_app, len_cons; lia).
    rewrite idx_app. cbn [bind]. specialize (Hcond eq_refl x eq_refl). unfold ByteRangeEnd.
    decide_b (x <=? 127) false. reflexivity.
Qed.

(* ------------------------------------------------------------------ RLP.decodeList: the loop *)

Lemma list_loop_unfold fuel inp lds done i e r :
  list_loop fuel inp lds done i e r =
  if r <? lds then
    match fuel with
    | O => Err OutOfFuel
    | S fuel' =>
      let* (k, ids, isz) := read_size inp i in
      if isz >? wrap_int (len inp - ids) then Err ErrIncompleteInput else
      let* nonCanon := nc_check inp k ids isz i in
      if (nonCanon : bool) then Err ErrNonCanonicalInput else
      let e := wrap_int (ids + isz) in
      let* it := slice inp i e in
      list_loop fuel' inp lds (done ++ [it]) e e (wrap_int (r + wrap_int (e - i)))
    end
  else Ok (done, e, r).
Proof. destruct fuel; reflexivity. Qed.

Definition end_index (new : list (list Z)) (i e : Z) : Z :=
  match new with [] => e | _ => i + len (concat new) end.

Lemma split_at_le (inp : list Z) i :
  0 <= i <= len inp -> exists pre post, inp = pre ++ post /\ len pre = i.
Proof.
  intro H. exists (firstn (Z.to_nat i) inp), (skipn (Z.to_nat i) inp).
  split; [symmetry; apply firstn_skipn|]. apply len_firstn. lia.
Qed.

Lemma app_eq_len_l (a b c d : list Z) : a ++ b = c ++ d -> len a = len c -> a = c /\ b = d.
Proof.
  intros E L.
  assert (a = c).
  { apply (f_equal (firstn (Z.to_nat (len a)))) in E. rewrite firstn_len_app in E.
    rewrite L in E. rewrite firstn_len_app in E. exact E. }
  subst c. apply app_inv_head in E. auto.
Qed.

Lemma list_loop_sound fuel : forall inp lds done i e r ret e' r',
  bytes inp -> len inp < 2 ^ 62 -> 0 <= i <= len inp -> 0 <= r <= i ->
  list_loop fuel inp lds done i e r = Ok (ret, e', r') ->
  exists new, ret = done ++ new /\ Forall framed new /\ r' = r + len (concat new) /\ lds <= r' /\
              e' = end_index new i e /\ (r < lds -> new <> []) /\
              exists pre post, inp = pre ++ concat new ++ post /\ len pre = i.
Proof.
  induction fuel as [|fuel IH]; intros inp lds done i e r ret e' r' Hb Hlen Hi Hr H;
    rewrite list_loop_unfold in H; destruct (r <? lds) eqn:Er; leb_cases; try discriminate.
  - inversion H; subst. exists []. rewrite app_nil_r. simpl. rewrite len_nil.
    repeat split; try lia; try constructor.
    exact (split_at_le inp i Hi).
  - destruct (Z.eq_dec i (len inp)) as [Ei|Ei].
    { rewrite read_size_oob in H by lia. discriminate. }
    assert (Hi' : 0 <= i < len inp) by lia.
    pose proof (item_step_cases inp i Hb Hlen Hi') as Hstep.
    destruct (read_size inp i) as [[[k ds] sz]|err]; [|discriminate].
    cbn [bind] in H.
    destruct Hstep as [Hinc|[(Hinc & Hnc)|(Hinc & Hnc & it & pre & post & Hsl & Hf & He & Hinp & Hpre)]].
    + rewrite Hinc in H. discriminate.
    + rewrite Hinc, Hnc in H. cbn [bind] in H. discriminate.
    + rewrite Hinc, Hnc in H. cbn [bind] in H. cbv zeta in H.
      pose proof (framed_len it Hf) as Hlit.
      assert (Hle : wrap_int (ds + sz) <= len inp).
      { rewrite He, Hinp, !len_app. pose proof (len_nonneg post). lia. }
      rewrite Hsl in H. cbn [bind] in H. rewrite He in H.
      replace (i + len it - i) with (len it) in H by lia.
      rewrite (wrap_int_id (len it)) in H by lia. rewrite wrap_int_id in H by lia.
      apply IH in H; try assumption; try lia.
      destruct H as (new & -> & Hfn & -> & HS & -> & _ & (pre' & post' & Hinp' & Hpre')).
      exists (it :: new). rewrite <- app_assoc. simpl concat. rewrite len_app.
      split; [reflexivity|]. split; [constructor; assumption|]. split; [lia|]. split; [lia|].
      split.
      { unfold end_index. destruct new; simpl concat; repeat rewrite len_app; rewrite ?len_nil; lia. }
      split; [discriminate|].
      exists pre, post'. split; [|assumption].
      rewrite Hinp in Hinp'. rewrite Hinp.
      rewrite (app_assoc pre it post) in Hinp'.
      apply app_eq_len_l in Hinp'; [|rewrite len_app; lia].
      destruct Hinp' as [<- ->]. rewrite <- !app_assoc. reflexivity.
  - inversion H; subst. exists []. rewrite app_nil_r. simpl. rewrite len_nil.
    repeat split; try lia; try constructor.
    exact (split_at_le inp i Hi).
Qed.

(* the loop never fails otherwise than with a user error: no crash, and the fuel is never exhausted *)
Lemma list_loop_err fuel : forall inp lds done i e r err,
  bytes inp -> len inp < 2 ^ 62 -> 0 <= i <= len inp -> 0 <= r <= i ->
  len inp - i < Z.of_nat fuel ->
  list_loop fuel inp lds done i e r = Err err -> err = UserOther.
Proof.
  induction fuel as [|fuel IH]; intros inp lds done i e r err Hb Hlen Hi Hr Hfuel H;
    rewrite list_loop_unfold in H; destruct (r <? lds) eqn:Er; leb_cases; try discriminate.
  - simpl in Hfuel. lia.
  - destruct (Z.eq_dec i (len inp)) as [Ei|Ei].
    { rewrite read_size_oob in H by lia. inversion H. reflexivity. }
    assert (Hi' : 0 <= i < len inp) by lia.
    pose proof (item_step_cases inp i Hb Hlen Hi') as Hstep.
    destruct (read_size inp i) as [[[k ds] sz]|err'].
    2:{ cbn [bind] in H. congruence. }
    cbn [bind] in H.
    destruct Hstep as [Hinc|[(Hinc & Hnc)|(Hinc & Hnc & it & pre & post & Hsl & Hf & He & Hinp & Hpre)]].
    + rewrite Hinc in H. inversion H. reflexivity.
    + rewrite Hinc, Hnc in H. cbn [bind] in H. inversion H. reflexivity.
    + rewrite Hinc, Hnc in H. cbn [bind] in H. cbv zeta in H.
      pose proof (framed_len it Hf) as Hlit.
      assert (Hle : wrap_int (ds + sz) <= len inp).
      { rewrite He, Hinp, !len_app. pose proof (len_nonneg post). lia. }
      rewrite Hsl in H. cbn [bind] in H. rewrite He in H.
      replace (i + len it - i) with (len it) in H by lia.
      rewrite (wrap_int_id (len it)) in H by lia. rewrite wrap_int_id in H by lia.
      apply IH in H; try assumption; try lia.
Qed.

Lemma list_loop_complete : forall rest inp lds done fuel pre post e r,
  inp = pre ++ concat rest ++ post -> Forall framed rest ->
  bytes inp -> len inp < 2 ^ 62 -> (length rest <= fuel)%nat ->
  lds = r + len (concat rest) -> 0 <= r <= len pre ->
  list_loop fuel inp lds done (len pre) e r = Ok (done ++ rest, end_index rest (len pre) e, lds).
Proof.
  induction rest as [|it rest IH]; intros inp lds done fuel pre post e r Hinp Hf Hb Hlen Hfuel Hlds Hr;
    rewrite list_loop_unfold.
  - simpl in Hlds. rewrite len_nil in Hlds. decide_b (r <? lds) false.
    rewrite app_nil_r. simpl. f_equal. f_equal. lia.
  - inversion Hf as [|it' rest' Hfit Hfrest]; subst it' rest'.
    pose proof (framed_len it Hfit) as Hlit.
    simpl concat in *. rewrite len_app in Hlds. pose proof (len_nonneg (concat rest)) as Hlr.
    decide_b (r <? lds) true.
    destruct fuel as [|fuel]; [simpl in Hfuel; lia|].
    assert (Hinp2 : inp = pre ++ it ++ (concat rest ++ post)) by (rewrite Hinp, <- app_assoc; reflexivity).
    destruct (item_step_complete pre it (concat rest ++ post) Hfit) as (k & ds & sz & Hrs & Hds & Hinc & Hnc);
      [rewrite <- Hinp2; assumption|rewrite <- Hinp2; assumption|].
    rewrite <- Hinp2 in Hrs, Hinc, Hnc. rewrite Hrs. cbn [bind]. rewrite Hinc, Hnc. cbn [bind]. cbv zeta.
    assert (Htot : len inp = len pre + len it + len (concat rest ++ post))
      by (rewrite Hinp2, !len_app; lia).
    pose proof (len_nonneg (concat rest ++ post)). pose proof (len_nonneg pre).
    rewrite Hds. rewrite (wrap_int_id (len pre + len it)) by lia.
    assert (Hsl : slice inp (len pre) (len pre + len it) = Ok it) by (rewrite Hinp2; apply slice_app).
    rewrite Hsl. cbn [bind].
    replace (len pre + len it - len pre) with (len it) by lia.
    rewrite (wrap_int_id (len it)) by lia. rewrite wrap_int_id by lia.
    replace (len pre + len it) with (len (pre ++ it)) by (rewrite len_app; lia).
    rewrite (IH inp lds (done ++ [it]) fuel (pre ++ it) post (len (pre ++ it)) (r + len it)).
    + rewrite <- app_assoc. simpl app. f_equal. f_equal. f_equal.
      unfold end_index. destruct rest; simpl concat; repeat rewrite len_app; rewrite ?len_nil; lia.
    + rewrite Hinp2, <- !app_assoc. reflexivity.
    + assumption.
    + assumption.
    + assumption.
    + simpl in Hfuel. lia.
    + lia.
    + rewrite len_app. lia.
Qed.

(* ------------------------------------------------------------------ RLP.decodeList *)

Lemma list_frame_header hh payload :
  header false hh (len payload) -> list_frame payload = hh ++ payload.
Proof.
  intro H. remember (len payload) as sz eqn:Esz. remember false as k eqn:Ek.
  destruct H as [b sz Hs Eb|b sz Hs Eb|b sz Hs Eb|b sz Hs Eb]; try discriminate; subst b;
    unfold list_frame; change blen with len; rewrite <- Esz.
  - decide_b (sz <=? 55) true. reflexivity.
  - decide_b (sz <=? 55) false. reflexivity.
Qed.

Lemma list_frame_has_header payload :
  len payload <= max_int -> exists b hb, header false (b :: hb) (len payload) /\ list_frame payload = (b :: hb) ++ payload.
Proof.
  intro Hm. pose proof (len_nonneg payload).
  destruct (Z_le_dec (len payload) 55) as [L|L].
  - exists (192 + len payload), [].
    assert (Hh : header false [192 + len payload] (len payload)) by (constructor; lia).
    split; [exact Hh|]. apply list_frame_header. exact Hh.
  - exists (247 + blen (be_enc (len payload))), (be_enc (len payload)).
    assert (Hh : header false ((247 + blen (be_enc (len payload))) :: be_enc (len payload)) (len payload))
      by (constructor; [lia|reflexivity]).
    split; [exact Hh|]. apply list_frame_header. exact Hh.
Qed.

Definition list_outcome (inp : list Z) (r : res (list (list Z))) : Prop :=
  r = Err UserOther \/
  (exists items, r = Ok items /\ Forall framed items /\ inp = list_frame (concat items)).

Lemma rlp_list_cases inp :
  bytes inp -> len inp < 2 ^ 62 -> list_outcome inp (rlp_decode_list inp).
Proof.
  intros Hb Hlen. destruct inp as [|b rest]; [left; reflexivity|].
  pose proof Hb as Hb'. apply bytes_cons in Hb'. destruct Hb' as [Hbb Hbr].
  unfold rlp_decode_list, decode_list.
  change (read_size (b :: rest) 0) with (read_size ([] ++ b :: rest) (len [])).
  rewrite read_size_app by assumption. rewrite len_nil.
  destruct (read_hdr b rest) as [[[k h] sz]|e] eqn:E.
  2:{ apply read_hdr_err in E. subst e. left. reflexivity. }
  apply read_hdr_sound in E; [|assumption|assumption].
  cbn [shift_hdr bind]. rewrite Z.add_0_l.
  destruct E as [(-> & Hb127 & -> & ->)|(hb & rest' & -> & Hh & ->)]; [left; reflexivity|].
  destruct k; [left; reflexivity|].
  pose proof (header_len _ _ _ Hh) as [Hhl Hsz]. rewrite len_cons in Hhl. rewrite ?max_int_eq in Hsz.
  pose proof (len_nonneg hb) as Hhb. pose proof (len_nonneg rest') as Hr'.
  assert (Hlen' : len (b :: hb ++ rest') = 1 + len hb + len rest')
    by (rewrite len_cons, len_app; lia).
  destruct (sz =? 0) eqn:Esz; leb_cases.
  - (* empty list *)
    subst sz. cbn [bind]. rewrite Hlen'.
    destruct (1 =? 1 + len hb + len rest') eqn:E1; leb_cases; [|left; reflexivity].
    assert (hb = []) by (apply len_zero_nil; lia). assert (rest' = []) by (apply len_zero_nil; lia).
    subst hb rest'. unfold list_outcome. right. exists []. split; [reflexivity|]. split; [constructor|].
    simpl concat. symmetry. apply (list_frame_header [b] []). exact Hh.
  - rewrite Hlen'. replace (1 + len hb + len rest' - (1 + len hb)) with (len rest') by lia.
    rewrite (wrap_int_id (len rest')) by lia.
    destruct (sz >? len rest') eqn:Einc; [left; reflexivity|]. leb_cases.
    destruct (list_loop (S (length (b :: hb ++ rest'))) (b :: hb ++ rest') sz [] (1 + len hb) 0 0)
      as [[[ret e'] r']|err] eqn:EL.
    + apply list_loop_sound in EL; try assumption; try lia.
      destruct EL as (new & -> & Hfn & -> & HS & -> & Hne & (pre & post & Hinp & Hpre)).
      cbn [bind]. simpl app. rewrite Z.add_0_l.
      destruct (len (concat new) =? sz) eqn:Eeq; leb_cases; [|left; reflexivity].
      cbn [negb]. specialize (Hne ltac:(lia)).
      assert (Hei : end_index new (1 + len hb) 0 = 1 + len hb + len (concat new))
        by (unfold end_index; destruct new; [congruence|reflexivity]).
      rewrite Hei. rewrite Z.sub_0_r.
      assert (Hcl : len (b :: hb ++ rest') = len pre + len (concat new) + len post)
        by (rewrite Hinp, !len_app; lia).
      pose proof (len_nonneg post) as Hpost.
      rewrite wrap_int_id by lia. cbn [bind].
      destruct (1 + len hb + len (concat new) =? 1 + len hb + len rest') eqn:Etr; leb_cases;
        [|left; reflexivity].
      cbn [negb]. unfold list_outcome. right. exists new. split; [reflexivity|]. split; [assumption|].
      assert (post = []) by (apply len_zero_nil; lia). subst post. rewrite app_nil_r in Hinp.
      change (b :: hb ++ rest') with ((b :: hb) ++ rest') in Hinp.
      apply app_eq_len_l in Hinp; [|rewrite len_cons; lia].
      destruct Hinp as [<- ->]. symmetry. apply (list_frame_header (b :: hb)). rewrite Eeq. exact Hh.
    + apply list_loop_err in EL; try assumption; try lia.
      * subst err. left. reflexivity.
      * unfold len. rewrite Nat2Z.inj_succ. lia.
Qed.

Lemma framed_items_length items : Forall framed items -> Z.of_nat (length items) <= len (concat items).
Proof.
  induction 1 as [|it items Hf _ IH]; simpl; [rewrite len_nil; lia|].
  rewrite len_app. pose proof (framed_len it Hf). lia.
Qed.

Theorem rlp_list_framed items :
  Forall framed items -> bytes (list_frame (concat items)) -> len (list_frame (concat items)) < 2 ^ 62 ->
  rlp_decode_list (list_frame (concat items)) = Ok items.
Proof.
  intros Hf Hb Hlen.
  destruct items as [|it0 items0]; [reflexivity|].
  remember (it0 :: items0) as items eqn:Eitems.
  assert (Hne : items <> []) by (subst; discriminate).
  assert (Hpos : 1 <= len (concat items)).
  { subst items. simpl. rewrite len_app. inversion Hf; subst.
    pose proof (framed_len it0 H1). pose proof (len_nonneg (concat items0)). lia. }
  assert (Hpl : len (concat items) < 2 ^ 62).
  { revert Hlen. unfold list_frame. change blen with len.
    destruct (len (concat items) <=? 55); cbv zeta; rewrite len_cons, ?len_app;
      try (pose proof (len_nonneg (be_enc (len (concat items))))); lia. }
  destruct (list_frame_has_header (concat items)) as (b & hb & Hh & E); [rewrite ?max_int_eq; lia|].
  rewrite E in *.
  pose proof (header_len _ _ _ Hh) as [Hhl _]. rewrite len_cons in Hhl.
  pose proof (len_nonneg hb) as Hhb.
  assert (Hlen' : len ((b :: hb) ++ concat items) = 1 + len hb + len (concat items))
    by (rewrite len_app, len_cons; lia).
  unfold rlp_decode_list, decode_list.
  change (read_size ((b :: hb) ++ concat items) 0) with (read_size ([] ++ b :: hb ++ concat items) (len [])).
  rewrite read_size_app by assumption. rewrite len_nil.
  rewrite (read_hdr_complete false b hb (len (concat items)) (concat items) Hh).
  cbn [shift_hdr bind]. rewrite Z.add_0_l.
  decide_b (len (concat items) =? 0) false.
  rewrite Hlen'. replace (1 + len hb + len (concat items) - (1 + len hb)) with (len (concat items)) by lia.
  rewrite (wrap_int_id (len (concat items))) by lia.
  decide_b (len (concat items) >? len (concat items)) false.
  replace (1 + len hb) with (len (b :: hb)) by (rewrite len_cons; lia).
  rewrite (list_loop_complete items ((b :: hb) ++ concat items) (len (concat items)) []
             (S (length ((b :: hb) ++ concat items))) (b :: hb) [] 0 0).
  - cbn [bind]. simpl app. rewrite Z.eqb_refl. cbn [negb].
    replace (end_index items (len (b :: hb)) 0) with (len (b :: hb) + len (concat items))
      by (unfold end_index; destruct items; [congruence|reflexivity]).
    rewrite Z.sub_0_r. rewrite len_cons. rewrite wrap_int_id by lia. cbn [bind].
    rewrite Z.eqb_refl. reflexivity.
  - rewrite app_nil_r. reflexivity.
  - assumption.
  - assumption.
  - assumption.
  - pose proof (framed_items_length items Hf). unfold len in *. rewrite app_length. lia.
  - lia.
  - rewrite len_cons. lia.
Qed.

(* ------------------------------------------------------------------ items: framed = canonical *)

Lemma encode_string_has_header p :
  (forall x, p = [x] -> 128 <= x) -> len p <= max_int ->
  exists b hb, header true (b :: hb) (len p) /\ encode_string p = (b :: hb) ++ p.
Proof.
  intros Hx Hm. pose proof (len_nonneg p).
  destruct (Z_le_dec (len p) 55) as [L|L].
  - exists (128 + len p), []. assert (Hh : header true [128 + len p] (len p)) by (constructor; lia).
    split; [exact Hh|]. apply encode_string_header; assumption.
  - exists (183 + blen (be_enc (len p))), (be_enc (len p)).
    assert (Hh : header true ((183 + blen (be_enc (len p))) :: be_enc (len p)) (len p))
      by (constructor; [lia|reflexivity]).
    split; [exact Hh|]. apply encode_string_header; assumption.
Qed.

Lemma item_ok_framed it : item_ok it -> len it <= max_int -> framed it.
Proof.
  intros [(p & Hp & ->)|(payload & Hp & ->)] Hm.
  - assert (Hcase : (exists x, p = [x] /\ x < 128) \/ (forall x, p = [x] -> 128 <= x)).
    { destruct p as [|x [|y r]].
      - right. intros x E. discriminate.
      - destruct (Z_lt_dec x 128); [left; eauto|right]. intros x' E. inversion E. subst. lia.
      - right. intros x' E. discriminate. }
    destruct Hcase as [(x & -> & Hx)|Hx].
    + left. exists x. unfold encode_string. decide_b (x <? 128) true. split; [reflexivity|].
      apply bytes_cons in Hp. destruct Hp as [Hbx _]. unfold is_byte in Hbx. lia.
    + assert (Hlp : len p <= max_int).
      { revert Hm. unfold encode_string. destruct p as [|x [|y r]]; try (rewrite ?len_cons, ?len_nil; rewrite ?max_int_eq; lia).
        change blen with len. destruct (len (x :: y :: r) <=? 55); cbv zeta;
          rewrite (len_cons _ (_ ++ _)) || rewrite (len_cons _ (x :: y :: r)); rewrite ?len_app;
          try (pose proof (len_nonneg (be_enc (len (x :: y :: r))))); lia. }
      destruct (encode_string_has_header p Hx Hlp) as (b & hb & Hh & E).
      right. exists true, b, hb, p. split; [assumption|]. split; [assumption|]. intros _. exact Hx.
  - assert (Hlp : len payload <= max_int).
    { revert Hm. unfold list_frame. change blen with len. destruct (len payload <=? 55); cbv zeta;
        rewrite len_cons, ?len_app; try (pose proof (len_nonneg (be_enc (len payload)))); lia. }
    destruct (list_frame_has_header payload Hlp) as (b & hb & Hh & E).
    right. exists false, b, hb, payload. split; [assumption|]. split; [assumption|]. discriminate.
Qed.

Lemma framed_item it : framed it -> bytes it -> item_ok it.
Proof.
  intros [(b & -> & Hb)|(k & b & hb & data & Hh & -> & Hcond)] Hbytes.
  - left. exists [b]. split; [assumption|]. unfold encode_string. decide_b (b <? 128) true. reflexivity.
  - assert (Hbd : bytes data) by (apply bytes_app in Hbytes; tauto).
    destruct k.
    + left. exists data. split; [assumption|]. symmetry. apply encode_string_header; [assumption|].
      apply Hcond. reflexivity.
    + right. exists data. split; [assumption|]. symmetry. apply list_frame_header. assumption.
Qed.

Lemma len_concat_in (it : list Z) items : In it items -> len it <= len (concat items).
Proof.
  induction items as [|a items IH]; intro H; [contradiction|]. simpl. rewrite len_app.
  pose proof (len_nonneg a). pose proof (len_nonneg (concat items)).
  destruct H as [->|H]; [lia|]. specialize (IH H). lia.
Qed.

Lemma list_frame_len payload : len payload < len (list_frame payload).
Proof.
  unfold list_frame. change blen with len. destruct (len payload <=? 55); cbv zeta;
    rewrite len_cons, ?len_app; try (pose proof (len_nonneg (be_enc (len payload)))); lia.
Qed.

Lemma bytes_concat_forall items : bytes (concat items) -> Forall bytes items.
Proof.
  induction items as [|a items IH]; intro H; [constructor|]. simpl in H. apply bytes_app in H.
  constructor; tauto.
Qed.

Lemma list_frame_bytes_payload payload : bytes (list_frame payload) -> bytes payload.
Proof.
  unfold list_frame. destruct (blen payload <=? 55); cbv zeta; intro H.
  - apply bytes_cons in H. tauto.
  - apply bytes_cons in H. destruct H as [_ H]. apply bytes_app in H. tauto.
Qed.

(* ------------------------------------------------------------------ theorems about RLP.decodeList *)

Theorem rlp_decode_encode_list items :
  Forall item_ok items ->
  bytes (list_frame (concat items)) -> len (list_frame (concat items)) < 2 ^ 62 ->
  rlp_decode_list (list_frame (concat items)) = Ok items.
Proof.
  intros Hf Hb Hlen. apply rlp_list_framed; try assumption.
  pose proof (list_frame_len (concat items)) as Hfl.
  rewrite Forall_forall in *. intros it Hin.
  apply item_ok_framed; [apply Hf; exact Hin|]. pose proof (len_concat_in it items Hin). rewrite ?max_int_eq. lia.
Qed.

Lemma rlp_list_ok_canonical inp items :
  bytes inp -> Forall framed items -> inp = list_frame (concat items) -> canonical_list inp items.
Proof.
  intros Hb Hf E. split; [|exact E].
  subst inp. apply list_frame_bytes_payload in Hb. apply bytes_concat_forall in Hb.
  rewrite Forall_forall in *. intros it Hin. apply framed_item; auto.
Qed.

Theorem rlp_list_exact inp :
  bytes inp -> len inp < 2 ^ 62 -> list_decoder_exact rlp_decode_list inp.
Proof.
  intros Hb Hlen. destruct (rlp_list_cases inp Hb Hlen) as [E|(items & E & Hf & Hi)].
  - right. split; [|exact E]. intros items [Hok Hi].
    pose proof (rlp_decode_encode_list items Hok) as Hd. rewrite <- Hi in Hd.
    rewrite Hd in E by assumption. discriminate.
  - left. exists items. split; [|exact E]. apply rlp_list_ok_canonical; assumption.
Qed.

Theorem rlp_list_sound inp items :
  bytes inp -> len inp < 2 ^ 62 -> rlp_decode_list inp = Ok items -> canonical_list inp items.
Proof.
  intros Hb Hlen E. destruct (rlp_list_cases inp Hb Hlen) as [E'|(items' & E' & Hf & Hi)];
    rewrite E in E'; try discriminate.
  inversion E'; subst items'. apply rlp_list_ok_canonical; assumption.
Qed.

Theorem rlp_list_graceful inp :
  bytes inp -> len inp < 2 ^ 62 -> graceful (rlp_decode_list inp).
Proof.
  intros Hb Hlen. destruct (rlp_list_cases inp Hb Hlen) as [E|(p & E & _)]; rewrite E; exact I.
Qed.

(* ------------------------------------------------------------------ the recursive encoder *)

Lemma encode_string_bytes p : bytes p -> len p < 2 ^ 62 -> bytes (encode_string p).
Proof.
  intros Hb Hl. unfold encode_string. pose proof (len_nonneg p).
  assert (Hgen : bytes (if blen p <=? 55 then 128 + blen p :: p
                        else 183 + blen (be_enc (blen p)) :: be_enc (blen p) ++ p)).
  { change blen with len. destruct (len p <=? 55) eqn:E; leb_cases.
    - apply bytes_cons. split; [unfold is_byte; lia|assumption].
    - pose proof (be_enc_len (len p) ltac:(lia)).
      apply bytes_cons. split; [unfold is_byte; lia|].
      apply bytes_app. split; [apply be_enc_fuel_bytes|assumption]. }
  destruct p as [|x [|y r]]; try exact Hgen.
  apply bytes_cons in Hb. destruct Hb as [Hx _].
  destruct (x <? 128); repeat (apply bytes_cons; split); try assumption; try constructor; unfold is_byte; lia.
Qed.

Lemma list_frame_bytes payload : bytes payload -> len payload < 2 ^ 62 -> bytes (list_frame payload).
Proof.
  intros Hb Hl. unfold list_frame. pose proof (len_nonneg payload). change blen with len.
  destruct (len payload <=? 55) eqn:E; leb_cases.
  - apply bytes_cons. split; [unfold is_byte; lia|assumption].
  - pose proof (be_enc_len (len payload) ltac:(lia)).
    apply bytes_cons. split; [unfold is_byte; lia|].
    apply bytes_app. split; [apply be_enc_fuel_bytes|assumption].
Qed.

Section item_ind'.
  Variable P : item -> Prop.
  Hypothesis HStr : forall p, P (Str p).
  Hypothesis HLst : forall l, Forall P l -> P (Lst l).
  Fixpoint item_ind' (x : item) : P x :=
    match x with
    | Str p => HStr p
    | Lst l => HLst l ((fix go (l : list item) : Forall P l :=
                          match l with
                          | [] => Forall_nil _
                          | y :: r => Forall_cons _ (item_ind' y) (go r)
                          end) l)
    end.
End item_ind'.

Lemma item_bytes_Lst l : item_bytes (Lst l) <-> Forall item_bytes l.
Proof.
  induction l as [|y r IH].
  - simpl. split; intro; constructor.
  - split; intro H.
    + destruct H as [Hy Hr]. constructor; [exact Hy|apply IH; exact Hr].
    + inversion H; subst. split; [assumption|apply IH; assumption].
Qed.

Lemma encode_string_len p : len p <= len (encode_string p).
Proof.
  unfold encode_string. destruct p as [|x [|y r]].
  - rewrite len_nil. apply len_nonneg.
  - destruct (x <? 128); rewrite ?len_cons, ?len_nil; lia.
  - change blen with len. destruct (len (x :: y :: r) <=? 55); cbv zeta.
    + rewrite (len_cons _ (x :: y :: r)). lia.
    + rewrite (len_cons _ (_ ++ _)), len_app. pose proof (len_nonneg (be_enc (len (x :: y :: r)))). lia.
Qed.

Lemma encode_ok : forall x, item_bytes x -> len (encode x) < 2 ^ 62 ->
  bytes (encode x) /\ item_ok (encode x).
Proof.
  intro x. pattern x. apply item_ind'; clear x; [intros p Hb Hlen|intros l IH Hb Hlen].
  - simpl in *. pose proof (encode_string_len p).
    split; [apply encode_string_bytes; [assumption|lia]|]. left. exists p. split; [assumption|reflexivity].
  - apply item_bytes_Lst in Hb. simpl encode in *. rewrite flat_map_concat_map in *.
    pose proof (list_frame_len (concat (map encode l))) as Hfl.
    assert (Hpb : bytes (concat (map encode l))).
    { assert (Hall : Forall bytes (map encode l)).
      { rewrite Forall_forall in *. intros e He. apply in_map_iff in He. destruct He as (y & <- & Hy).
        apply (IH y Hy); [apply Hb; exact Hy|].
        pose proof (len_concat_in (encode y) (map encode l) ltac:(apply in_map; exact Hy)). lia. }
      clear - Hall. induction Hall as [|a rest Ha _ IHr]; simpl; [constructor|].
      apply bytes_app. split; assumption. }
    split.
    + apply list_frame_bytes; [assumption|lia].
    + right. exists (concat (map encode l)). split; [assumption|reflexivity].
Qed.

Theorem rlp_decode_encode_nested l :
  item_bytes (Lst l) -> len (encode (Lst l)) < 2 ^ 62 ->
  rlp_decode_list (encode (Lst l)) = Ok (map encode l).
Proof.
  intros Hb Hlen. destruct (encode_ok (Lst l) Hb Hlen) as [Hbytes _].
  apply item_bytes_Lst in Hb. simpl encode in *. rewrite flat_map_concat_map in *.
  apply rlp_decode_encode_list; try assumption.
  pose proof (list_frame_len (concat (map encode l))) as Hfl.
  rewrite Forall_forall in *. intros e He. apply in_map_iff in He. destruct He as (y & <- & Hy).
  apply encode_ok; [apply Hb; exact Hy|].
  pose proof (len_concat_in (encode y) (map encode l) ltac:(apply in_map; exact Hy)). lia.
Qed.

Theorem rlp_decode_encode_nested_string p :
  bytes p -> len (encode (Str p)) < 2 ^ 62 -> rlp_decode_string (encode (Str p)) = Ok p.
Proof. intros. simpl. apply rlp_decode_encode_string; assumption. Qed.

