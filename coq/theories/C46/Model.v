(* C46  Code-shaped model of stdlib/rlp/rlp.go (ReadSize, DecodeString, DecodeList), as of onflow/cadence commit
   8b09734, and of the Cadence wrappers stdlib/rlp.go (RLPDecodeString, RLPDecodeList).

   Conventions
   - a Go []byte is a list of Z (each 0..255); len is Zlength-like [len];
   - Go `int` is 64-bit two's complement: every addition/subtraction on ints that the Go code performs is
     written with [wrap_int];
   - an index expression inp[i] is [idx], a slice expression inp[lo:hi] is [slice]; both return
     [Err Crash] exactly when the Go runtime would panic (index / slice bounds out of range).
     ([slice] checks hi against len, Go checks against cap: on every path of this code that reaches a
      slice expression either hi <= len has just been tested or hi is negative, so cap never matters.)
   - the seven error values of package rlp are all turned into a user error (RLPDecodeStringError /
     RLPDecodeListError) by the wrappers: they are all [UserOther] here, kept under their Go names. *)
From CV Require Export Base.Prelude.

(* 2^63 and 2^64 as evaluated numerals (so that evaluating the model does not recompute the powers) *)
Definition two63 : Z := Eval compute in 2 ^ 63.
Definition two64 : Z := Eval compute in 2 ^ 64.
Definition max_int : Z := Eval compute in 2 ^ 63 - 1.
(* two's-complement wrap-around; the first branch is only a shortcut for values already in range
   (there (z + 2^63) mod 2^64 - 2^63 = z), which keeps evaluation of the model cheap *)
Definition wrap_int (z : Z) : Z :=
  if (- two63 <=? z) && (z <? two63) then z else (z + two63) mod two64 - two63.
Definition wrap_uint (z : Z) : Z :=
  if (0 <=? z) && (z <? two64) then z else z mod two64.

Definition len (inp : list Z) : Z := Z.of_nat (length inp).

Definition idx (inp : list Z) (i : Z) : res Z :=
  if (0 <=? i) && (i <? len inp) then Ok (nth (Z.to_nat i) inp 0) else Err Crash.

Definition slice (inp : list Z) (lo hi : Z) : res (list Z) :=
  if (0 <=? lo) && (lo <=? hi) && (hi <=? len inp)
  then Ok (firstn (Z.to_nat (hi - lo)) (skipn (Z.to_nat lo) inp))
  else Err Crash.

(* binary.BigEndian.Uint64 of the zero-padded 8-byte buffer = big-endian value of the copied bytes *)
Fixpoint be_uint_acc (bs : list Z) (acc : Z) : Z :=
  match bs with
  | [] => acc
  | b :: r => be_uint_acc r (acc * 256 + b)
  end.
Definition be_uint (bs : list Z) : Z := be_uint_acc bs 0.

Definition ErrEmptyInput := UserOther.
Definition ErrInvalidStartIndex := UserOther.
Definition ErrIncompleteInput := UserOther.
Definition ErrNonCanonicalInput := UserOther.
Definition ErrDataSizeTooLarge := UserOther.
Definition ErrListSizeMismatch := UserOther.
Definition ErrTypeMismatch := UserOther.

Definition ByteRangeEnd := 0x7f.
Definition ShortStringRangeStart := 0x80.
Definition ShortStringRangeEnd := 0xb7.
Definition LongStringRangeStart := 0xb8.
Definition LongStringRangeEnd := 0xbf.
Definition ShortListRangeStart := 0xc0.
Definition ShortListRangeEnd := 0xf7.
Definition LongListRangeStart := 0xf8.
Definition MaxShortLengthAllowed := 55.
Definition MaxLongLengthAllowed := max_int.

(* func ReadSize(inp []byte, startIndex int) (isString bool, dataStartIndex, dataSize int, err error) *)
Definition read_size (inp : list Z) (startIndex : Z) : res (bool * Z * Z) :=
  if len inp =? 0 then Err ErrEmptyInput else
  if startIndex >=? len inp then Err ErrInvalidStartIndex else
  let* firstByte := idx inp startIndex in
  let startIndex := wrap_int (startIndex + 1) in
  if firstByte <=? ByteRangeEnd then Ok (true, wrap_int (startIndex - 1), 1) else
  if firstByte <=? ShortStringRangeEnd then
    let strLen := firstByte - ShortStringRangeStart in
    Ok (true, startIndex, wrap_int strLen) else
  if (firstByte >=? ShortListRangeStart) && (firstByte <=? ShortListRangeEnd) then
    let strLen := firstByte - ShortListRangeStart in
    Ok (false, startIndex, wrap_int strLen) else
  let bytesToReadForLen := 0 in
  let isString := false in
  let '(bytesToReadForLen, isString) :=
    if (firstByte >=? LongStringRangeStart) && (firstByte <=? LongStringRangeEnd)
    then (firstByte - ShortStringRangeEnd, true) else (bytesToReadForLen, isString) in
  let '(bytesToReadForLen, isString) :=
    if firstByte >=? LongListRangeStart
    then (firstByte - ShortListRangeEnd, false) else (bytesToReadForLen, isString) in
  if startIndex >=? len inp then Err ErrIncompleteInput else
  if bytesToReadForLen =? 1 then
    let* strLen := idx inp startIndex in
    let startIndex := wrap_int (startIndex + 1) in
    if strLen <=? MaxShortLengthAllowed then Err ErrNonCanonicalInput else
    Ok (isString, startIndex, wrap_int strLen)
  else
    let* b0 := idx inp startIndex in
    if b0 =? 0 then Err ErrNonCanonicalInput else
    let endIndex := wrap_int (startIndex + wrap_int bytesToReadForLen) in
    if endIndex >? len inp then Err ErrIncompleteInput else
    let* lenData := slice inp startIndex endIndex in
    let startIndex := wrap_int (startIndex + wrap_int bytesToReadForLen) in
    let strLen := wrap_uint (be_uint lenData) in
    if strLen >? MaxLongLengthAllowed then Err ErrDataSizeTooLarge else
    Ok (isString, startIndex, wrap_int strLen).

(* func DecodeString(inp []byte, startIndex int) (str []byte, bytesRead int, err error)
   (as of commit 8b09734: the range test compares sizes, before the byte at dataStartIndex is read) *)
Definition decode_string (inp : list Z) (startIndex : Z) : res (list Z * Z) :=
  let* (isString, dataStartIndex, dataSize) := read_size inp startIndex in
  if negb isString then Err ErrTypeMismatch else
  if (dataSize =? 1) && (startIndex =? dataStartIndex) then
    let* b := idx inp dataStartIndex in Ok ([b], 1)
  else
  (* if dataSize > len(inp)-dataStartIndex { return nil, 0, ErrIncompleteInput } *)
  if dataSize >? wrap_int (len inp - dataStartIndex) then Err ErrIncompleteInput else
  (* dataSize == 1 && inp[dataStartIndex] <= ByteRangeEnd : && is short-circuit *)
  let* nonCanon :=
    (if dataSize =? 1 then let* b := idx inp dataStartIndex in Ok (b <=? ByteRangeEnd) else Ok false) in
  if (nonCanon : bool) then Err ErrNonCanonicalInput else
  let dataEndIndex := wrap_int (dataStartIndex + dataSize) in
  let* s := slice inp dataStartIndex dataEndIndex in
  Ok (s, wrap_int (dataEndIndex - startIndex)).

(* the loop `for dataBytesRead < listDataSize { ... }` of DecodeList; returns
   (retList, itemEndIndex, dataBytesRead) at loop exit *)
Fixpoint list_loop (fuel : nat) (inp : list Z) (listDataSize : Z)
    (retList : list (list Z)) (itemStartIndex itemEndIndex dataBytesRead : Z)
    : res (list (list Z) * Z * Z) :=
  if dataBytesRead <? listDataSize then
    match fuel with
    | O => Err OutOfFuel
    | S fuel' =>
      let* (itemIsString, itemDataStartIndex, itemSize) := read_size inp itemStartIndex in
      (* if itemSize > len(inp)-itemDataStartIndex { return nil, 0, ErrIncompleteInput } *)
      if itemSize >? wrap_int (len inp - itemDataStartIndex) then Err ErrIncompleteInput else
      (* itemIsString && itemSize == 1 && itemDataStartIndex != itemStartIndex &&
         inp[itemDataStartIndex] <= ByteRangeEnd : && is short-circuit *)
      let* nonCanon :=
        (if itemIsString && (itemSize =? 1) && negb (itemDataStartIndex =? itemStartIndex)
         then let* b := idx inp itemDataStartIndex in Ok (b <=? ByteRangeEnd) else Ok false) in
      if (nonCanon : bool) then Err ErrNonCanonicalInput else
      let itemEndIndex := wrap_int (itemDataStartIndex + itemSize) in
      let* it := slice inp itemStartIndex itemEndIndex in
      let retList := retList ++ [it] in
      let dataBytesRead := wrap_int (dataBytesRead + wrap_int (itemEndIndex - itemStartIndex)) in
      let itemStartIndex := itemEndIndex in
      list_loop fuel' inp listDataSize retList itemStartIndex itemEndIndex dataBytesRead
    end
  else Ok (retList, itemEndIndex, dataBytesRead).

(* func DecodeList(inp []byte, startIndex int) (encodedItems [][]byte, bytesRead int, err error) *)
Definition decode_list (inp : list Z) (startIndex : Z) : res (list (list Z) * Z) :=
  let* (isString, dataStartIndex, listDataSize) := read_size inp startIndex in
  if isString then Err ErrTypeMismatch else
  let retList := [] in
  if listDataSize =? 0 then Ok (retList, 1) else
  (* if listDataSize > len(inp)-dataStartIndex { return nil, 0, ErrIncompleteInput } *)
  if listDataSize >? wrap_int (len inp - dataStartIndex) then Err ErrIncompleteInput else
  let itemStartIndex := dataStartIndex in
  (* every iteration that does not return advances itemStartIndex by at least one byte within inp
     (proved: C46/Proofs.v list_loop_err: OutOfFuel is never returned), so len(inp)+1 iterations always suffice *)
  let* (retList, itemEndIndex, dataBytesRead) :=
    list_loop (S (length inp)) inp listDataSize retList itemStartIndex 0 0 in
  if negb (dataBytesRead =? listDataSize) then Err ErrListSizeMismatch else
  Ok (retList, wrap_int (itemEndIndex - startIndex)).

(* stdlib/rlp.go RLPDecodeString / RLPDecodeList: decode at index 0, then reject trailing bytes.
   (ByteArrayValueToByteSlice cannot fail for an argument of static type [UInt8].) *)
Definition rlp_decode_string (inp : list Z) : res (list Z) :=
  let* (output, bytesRead) := decode_string inp 0 in
  if negb (bytesRead =? len inp) then Err UserOther else Ok output.

Definition rlp_decode_list (inp : list Z) : res (list (list Z)) :=
  let* (output, bytesRead) := decode_list inp 0 in
  if negb (bytesRead =? len inp) then Err UserOther else Ok output.
