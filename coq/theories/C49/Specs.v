(* C49  What each operation does to a base and its attachments (for every route, kind and attachment type). *)
From CV Require Import C49.Model C49.Lemmas C49.Proofs C49.Invariant.
From Coq Require Import Permutation.
Open Scope Z_scope.

Lemma stripl_stored o : stored_ok o -> stripl (oatts o) = oatts o.
Proof. intros [_ H]. exact H. Qed.

Lemma obj_eta o : mkObj (okind o) (ox o) (ouuid o) (oatts o) = o.
Proof. destruct o; reflexivity. Qed.

Lemma same_slots i (o : obj) l k : alookup i l = Some o -> alookup k (aset i o (aremove i l)) = alookup k l.
Proof.
  intro H. destruct (Nat.eq_dec k i) as [->|Hne].
  - rewrite alookup_aset_same. auto.
  - rewrite alookup_aset_other by auto. apply alookup_aremove_other; auto.
Qed.

(* rebinding an attachment's base pointer is invisible in the stored form *)
Lemma stripl_rebind t a oid l :
  tlookup t l = Some a -> stripl (tset t (set_base a oid) l) = stripl l.
Proof.
  intro H. rewrite stripl_tset, strip_set_base. apply tset_same_id. rewrite tlookup_stripl, H. reflexivity.
Qed.

Lemma rebind_obj o t a n :
  stored_ok o -> tlookup t (oatts o) = Some a ->
  mkObj (okind o) (ox o) (ouuid o)
        (map (fun ta : tid * att => (fst ta, strip (snd ta)))
             (tset t (mkAtt (an a) (abx0 a) (ainner a) (Some n)) (oatts o))) = o.
Proof.
  intros Hok Ht.
  change (mkObj (okind o) (ox o) (ouuid o) (stripl (tset t (set_base a n) (oatts o))) = o).
  rewrite (stripl_rebind _ _ _ _ Ht), (stripl_stored _ Hok). apply obj_eta.
Qed.

Lemma tset_tset t a b l : tset t b (tset t a l) = tset t b l.
Proof.
  induction l as [|[t' a'] l IH]; simpl.
  - rewrite tid_eqb_refl. reflexivity.
  - destruct (tid_eqb t t') eqn:E; simpl; [rewrite tid_eqb_refl; reflexivity|rewrite E, IH; reflexivity].
Qed.

Lemma rebind_atts1 o t a n :
  stored_ok o -> tlookup t (oatts o) = Some a ->
  map (fun ta : tid * att => (fst ta, strip (snd ta)))
      (tset t (mkAtt (an a) (abx0 a) (ainner a) (Some n)) (oatts o)) = oatts o.
Proof.
  intros Hok Ht. change (stripl (tset t (set_base a n) (oatts o)) = oatts o).
  rewrite (stripl_rebind _ _ _ _ Ht). apply stripl_stored; auto.
Qed.

Lemma rebind_atts2 o t a n1 n2 :
  stored_ok o -> tlookup t (oatts o) = Some a ->
  map (fun ta : tid * att => (fst ta, strip (snd ta)))
      (tset t (mkAtt (an a) (abx0 a) (ainner a) (Some n2))
            (tset t (mkAtt (an a) (abx0 a) (ainner a) (Some n1)) (oatts o))) = oatts o.
Proof. intros Hok Ht. rewrite tset_tset. apply rebind_atts1; auto. Qed.

(* ---------------------------------------------------------------- travel: move / copy through any route *)
Theorem move_spec st i j r o :
  inv st -> alookup i (sto st) = Some o -> i <> j -> alookup j (sto st) = None ->
  exists st',
    step st (OMove i j r) = (st', Ok [], []) /\
    (* the whole base, with all its attachments and their states, is now in slot j *)
    alookup j (sto st') = Some o /\
    (* a resource has left slot i; a struct was copied *)
    alookup i (sto st') = (match okind o with KRes => None | KStruct => Some o end) /\
    (forall k, k <> i -> k <> j -> alookup k (sto st') = alookup k (sto st)).
Proof.
  intros Hinv Hs Hij Hj. pose proof (Hinv _ _ Hs) as Hok. pose proof (stripl_stored _ Hok) as Hst.
  assert (Hji : j <> i) by congruence.
  tx_unfold. rewrite Hs. simpl.
  destruct r, (okind o) eqn:K; simpl; rewrite ?K; simpl;
    rewrite ?(alookup_aremove_other i j) by auto; rewrite ?Hj; simpl;
    fold (stripl (oatts o)); rewrite ?stripl_idem, ?Hst;
    try (rewrite (proj2 (Nat.eqb_neq i j) Hij); simpl);
    rewrite ?(alookup_aremove_other j i) by auto; rewrite ?alookup_aremove_same; simpl;
    eexists; (split; [reflexivity|]); simpl;
    rewrite ?Nat.eqb_refl, ?(proj2 (Nat.eqb_neq j i) Hji), ?(proj2 (Nat.eqb_neq i j) Hij); simpl;
    rewrite ?Nat.eqb_refl; simpl;
    rewrite <- ?K, ?obj_eta;
    (split; [reflexivity|]);
    (split; [try reflexivity;
             rewrite ?(alookup_aremove_other j i) by auto; rewrite ?alookup_aremove_same; reflexivity|]);
    intros k Hki Hkj;
    rewrite ?(proj2 (Nat.eqb_neq k i) Hki), ?(proj2 (Nat.eqb_neq k j) Hkj); simpl;
    rewrite ?(proj2 (Nat.eqb_neq k i) Hki), ?(proj2 (Nat.eqb_neq k j) Hkj); simpl;
    rewrite ?alookup_aremove_other by auto; reflexivity.
Qed.

(* ---------------------------------------------------------------- access through base[T]: base / self binding *)
Theorem read_spec st i t r o :
  inv st -> alookup i (sto st) = Some o ->
  exists st',
    step st (ORead i t r) =
      (st', Ok (match tlookup t (oatts o) with
                | None => [0]
                | Some a => [1; an a; abx0 a; ox o; ouuid o]     (* self.n, self.bx0; base.x, base.uuid: the carrier's *)
                end), []) /\
    (forall k, alookup k (sto st') = alookup k (sto st)).
Proof.
  intros Hinv Hs. pose proof (Hinv _ _ Hs) as Hok. pose proof (stripl_stored _ Hok) as Hst.
  tx_unfold. rewrite Hs. simpl.
  destruct r, (okind o) eqn:K; simpl; rewrite ?K; simpl;
    fold (stripl (oatts o)); rewrite ?Hst;
    destruct (tlookup t (oatts o)) as [a|] eqn:Ht; simpl; rewrite ?alookup_aremove_same; simpl;
    eexists; (split; [reflexivity|]); simpl; intro k;
    (destruct (Nat.eqb k i) eqn:E;
     [ apply Nat.eqb_eq in E; subst k; rewrite Hs; f_equal;
       first [ reflexivity | apply rebind_obj; auto | rewrite <- K; apply rebind_obj; auto
             | rewrite <- ?K; fold (stripl (oatts o)); rewrite Hst; apply obj_eta ]
     | apply Nat.eqb_neq in E; rewrite !alookup_aremove_other by auto; reflexivity ]).
Qed.

(* after a move / copy and a change of the new carrier, `base` inside the attachment is the NEW carrier; the struct
   original, still bound to itself, sees its own field *)
Theorem setx_spec st i x t r o a :
  inv st -> alookup i (sto st) = Some o -> tlookup t (oatts o) = Some a ->
  exists st' o',
    step st (OSetX i x t r) =
      (st', Ok (match okind o with KRes => [1; x] | KStruct => [1; x; 1; ox o] end), []) /\
    alookup i (sto st') = Some o' /\ ox o' = x /\ okind o' = okind o /\ ouuid o' = ouuid o /\ oatts o' = oatts o /\
    (forall k, k <> i -> alookup k (sto st') = alookup k (sto st)).
Proof.
  intros Hinv Hs Ht. pose proof (Hinv _ _ Hs) as Hok. pose proof (stripl_stored _ Hok) as Hst.
  tx_unfold. rewrite Hs. simpl. fold (stripl (oatts o)). rewrite Hst, Ht. simpl.
  destruct r, (okind o) eqn:K; simpl; rewrite ?K; simpl;
    rewrite ?tlookup_tset_same; simpl; rewrite ?tlookup_tset_same; simpl;
    rewrite ?alookup_aremove_same; simpl;
    eexists; eexists; (split; [reflexivity|]); simpl; rewrite Nat.eqb_refl;
    (split; [reflexivity|]); simpl;
    (split; [reflexivity|]); (split; [reflexivity|]); (split; [reflexivity|]);
    (split;
     [ first [ apply rebind_atts2; auto | apply rebind_atts1; auto ]
     | intros k Hk; rewrite (proj2 (Nat.eqb_neq k i) Hk); rewrite !alookup_aremove_other by auto; reflexivity ]).
Qed.
