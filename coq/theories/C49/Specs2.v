(* C49  remove, destroy, forEachAttachment, incr. *)
From CV Require Import C49.Model C49.Lemmas C49.Proofs C49.Invariant C49.Specs.
From Coq Require Import Permutation.
Open Scope Z_scope.

(* the destroy events of one attachment of base o: nested resources first, then its own event, whose default
   arguments read `base` (the carrier o) and `self` *)
Definition att_events (o : obj) (ta : tid * att) : list event :=
  (match ainner (snd ta) with Some (u, v) => [EvInner u v] | None => [] end)
  ++ [EvAtt (fst ta) (ouuid o) (an (snd ta)) (ox o)].

Lemma tremove_absent t l : tlookup t l = None -> tremove t l = l.
Proof.
  induction l as [|[t' a] l IH]; simpl; auto. destruct (tid_eqb t t'); [discriminate|]. intro H. rewrite IH; auto.
Qed.

Theorem remove_spec st i t o :
  inv st -> alookup i (sto st) = Some o ->
  exists st' o',
    step st (ORemove i t) =
      (st', Ok [], match tlookup t (oatts o), okind o with
                   | Some a, KRes => att_events o (t, a)      (* destroyed: exactly these events, once *)
                   | _, _ => []                                (* absent: nothing happens; struct: just dropped *)
                   end) /\
    alookup i (sto st') = Some o' /\
    okind o' = okind o /\ ox o' = ox o /\ ouuid o' = ouuid o /\
    oatts o' = tremove t (oatts o) /\
    (forall k, k <> i -> alookup k (sto st') = alookup k (sto st)).
Proof.
  intros Hinv Hs. pose proof (Hinv _ _ Hs) as Hok. pose proof (stripl_stored _ Hok) as Hst.
  tx_unfold. rewrite Hs. simpl. fold (stripl (oatts o)). rewrite Hst.
  destruct (tlookup t (oatts o)) as [a|] eqn:Ht; simpl;
    destruct (okind o) eqn:K; simpl; rewrite ?alookup_aremove_same; simpl;
    eexists; eexists; (split; [unfold att_events; simpl; reflexivity|]); simpl; rewrite Nat.eqb_refl;
    (split; [reflexivity|]); simpl;
    (split; [reflexivity|]); (split; [reflexivity|]); (split; [reflexivity|]);
    (split;
     [ first [ fold (stripl (tremove t (oatts o))); rewrite stripl_tremove, Hst; reflexivity
             | fold (stripl (oatts o)); rewrite Hst, (tremove_absent _ _ Ht); reflexivity ]
     | intros k Hk; rewrite (proj2 (Nat.eqb_neq k i) Hk); rewrite !alookup_aremove_other by auto; reflexivity ]).
Qed.

(* ---------------------------------------------------------------- destroy *)
Lemma emit_emit m a b : emit (emit m a) b = emit m (a ++ b).
Proof. unfold emit. simpl. rewrite app_assoc. reflexivity. Qed.

Lemma emit_nil m : emit m [] = m.
Proof. unfold emit. rewrite app_nil_r. destruct m; reflexivity. Qed.

Lemma destroy_atts_events l : forall m oid ob,
  alookup oid (heap m) = Some ob ->
  destroy_atts m oid l = Ok (emit m (flat_map (att_events ob) l)).
Proof.
  induction l as [|[t a] l IH]; intros m oid ob Ho; simpl.
  - rewrite emit_nil. reflexivity.
  - unfold destroy_att, base_of. simpl. rewrite Ho.
    rewrite (IH (emit m _) oid ob) by (simpl; exact Ho).
    rewrite emit_emit. unfold att_events. simpl. reflexivity.
Qed.

Theorem destroy_spec st i o :
  inv st -> alookup i (sto st) = Some o ->
  exists st',
    step st (ODestroy i) =
      (st', Ok [], match okind o with
                   | KRes => flat_map (att_events o) (iter_order KRes (oatts o)) ++ [EvBase (ouuid o) (ox o)]
                   | KStruct => []
                   end) /\
    alookup i (sto st') = None /\
    (forall k, k <> i -> alookup k (sto st') = alookup k (sto st)).
Proof.
  intros Hinv Hs. pose proof (Hinv _ _ Hs) as Hok. pose proof (stripl_stored _ Hok) as Hst.
  unfold step, run_tx, bind, load, mem0. rewrite Hs. rewrite (strip_obj_stored _ Hok). simpl.
  destruct (okind o) eqn:K; simpl.
  - eexists. split; [reflexivity|]. simpl. split; [apply alookup_aremove_same|].
    intros k Hk. apply alookup_aremove_other; auto.
  - unfold destroy. simpl. rewrite K.
    rewrite (destroy_atts_events _ _ 0%nat o) by reflexivity.
    simpl. eexists. split; [reflexivity|].
    simpl. split; [apply alookup_aremove_same|]. intros k Hk. apply alookup_aremove_other; auto.
Qed.

(* the attachment events of a destroy are, up to order, exactly the attachments of the base: each destroyed once *)
Definition att_evs_of (es : list event) : list (tid * Z) :=
  flat_map (fun e => match e with EvAtt t _ n _ => [(t, n)] | _ => [] end) es.

Lemma att_evs_of_app a b : att_evs_of (a ++ b) = att_evs_of a ++ att_evs_of b.
Proof. unfold att_evs_of. apply flat_map_app. Qed.

Lemma att_evs_of_events o l : att_evs_of (flat_map (att_events o) l) = map (fun ta => (fst ta, an (snd ta))) l.
Proof.
  induction l as [|[t a] l IH]; simpl; auto.
  rewrite att_evs_of_app, IH. unfold att_events. simpl. destruct (ainner a) as [[u v]|]; reflexivity.
Qed.

Theorem destroy_all_once st i o st' obs evs0 :
  inv st -> alookup i (sto st) = Some o -> okind o = KRes ->
  step st (ODestroy i) = (st', obs, evs0) ->
  Permutation (att_evs_of evs0) (map (fun ta => (fst ta, an (snd ta))) (oatts o)) /\
  (exists pre, evs0 = pre ++ [EvBase (ouuid o) (ox o)]).
Proof.
  intros Hinv Hs K Hstep. destruct (destroy_spec st i o Hinv Hs) as [st1 [H1 _]].
  rewrite H1 in Hstep. inversion Hstep; subst. rewrite K. split.
  - rewrite att_evs_of_app, att_evs_of_events. simpl. rewrite app_nil_r.
    apply Permutation_map. exact (iter_order_perm KRes (oatts o)).
  - eexists. reflexivity.
Qed.

(* ---------------------------------------------------------------- forEachAttachment, incr *)
Theorem foreach_spec st i o :
  inv st -> alookup i (sto st) = Some o ->
  exists st',
    step st (OForEach i) =
      (st', Ok (flat_map (fun ta => [tcode (fst ta); an (snd ta)]) (iter_order (okind o) (oatts o))), []) /\
    (forall k, alookup k (sto st') = alookup k (sto st)).
Proof.
  intros Hinv Hs. pose proof (Hinv _ _ Hs) as Hok. pose proof (stripl_stored _ Hok) as Hst.
  tx_unfold. rewrite Hs. simpl. rewrite alookup_aremove_same. simpl.
  fold (stripl (oatts o)). rewrite ?stripl_idem, ?Hst.
  eexists. split.
  - rewrite flat_map_concat_map, map_map, <- flat_map_concat_map. reflexivity.
  - simpl. intro k. rewrite obj_eta. change (alookup k (aset i o (aremove i (sto st))) = alookup k (sto st)).
    apply same_slots; auto.
Qed.

Theorem incr_spec st i t o a :
  inv st -> alookup i (sto st) = Some o -> tlookup t (oatts o) = Some a ->
  exists st' o',
    step st (OIncr i t) = (st', Ok [an a + 1], []) /\
    alookup i (sto st') = Some o' /\
    okind o' = okind o /\ ox o' = ox o /\ ouuid o' = ouuid o /\
    tlookup t (oatts o') = Some (mkAtt (an a + 1) (abx0 a) (ainner a) None) /\
    (forall t', t' <> t -> tlookup t' (oatts o') = tlookup t' (oatts o)) /\
    (forall k, k <> i -> alookup k (sto st') = alookup k (sto st)).
Proof.
  intros Hinv Hs Ht. pose proof (Hinv _ _ Hs) as Hok. pose proof (stripl_stored _ Hok) as Hst.
  tx_unfold. rewrite Hs. simpl. fold (stripl (oatts o)). rewrite Hst, Ht. simpl.
  rewrite alookup_aremove_same. simpl.
  eexists. eexists. split; [reflexivity|]. simpl. rewrite Nat.eqb_refl.
  split; [reflexivity|]. simpl. repeat (split; [reflexivity|]).
  split; [|split].
  - match goal with |- tlookup t (map _ ?l) = _ => fold (stripl l) end.
    rewrite tlookup_stripl, tset_tset, tlookup_tset_same. reflexivity.
  - intros t' Hne. match goal with |- tlookup t' (map _ ?l) = _ => fold (stripl l) end.
    rewrite tlookup_stripl, tset_tset, tlookup_tset_other by auto.
    rewrite <- tlookup_stripl, Hst. reflexivity.
  - intros k Hk. rewrite (proj2 (Nat.eqb_neq k i) Hk). rewrite !alookup_aremove_other by auto. reflexivity.
Qed.
