(* C49  At most one attachment per type, in every state reachable by any history (and in the memory of every
   transaction on the way). *)
From CV Require Import C49.Model C49.Lemmas C49.Proofs.
Open Scope Z_scope.

Definition heap_ok (h : list (nat * obj)) : Prop := forall oid o, alookup oid h = Some o -> NoDup (keys (oatts o)).
Definition sto_ok (l : list (nat * obj)) : Prop := forall i o, alookup i l = Some o -> stored_ok o.

Lemma heap_ok_cons h oid o : heap_ok h -> NoDup (keys (oatts o)) -> heap_ok ((oid, o) :: h).
Proof.
  intros Hh Ho k o' H. simpl in H. destruct (Nat.eqb k oid); [inversion H; subst; auto|eauto].
Qed.

Lemma heap_ok_aremove h k : heap_ok h -> heap_ok (aremove k h).
Proof.
  intros Hh k' o H. destruct (Nat.eq_dec k' k) as [->|Hne].
  - rewrite alookup_aremove_same in H. discriminate.
  - rewrite alookup_aremove_other in H by auto. eauto.
Qed.

Lemma heap_ok_aset h k o : heap_ok h -> NoDup (keys (oatts o)) -> heap_ok (aset k o h).
Proof. intros Hh Ho. unfold aset. apply heap_ok_cons; auto. apply heap_ok_aremove; auto. Qed.

Lemma sto_ok_aremove l k : sto_ok l -> sto_ok (aremove k l).
Proof.
  intros Hh k' o H. destruct (Nat.eq_dec k' k) as [->|Hne].
  - rewrite alookup_aremove_same in H. discriminate.
  - rewrite alookup_aremove_other in H by auto. eauto.
Qed.

Lemma sto_ok_aset l k o : sto_ok l -> stored_ok o -> sto_ok (aset k o l).
Proof.
  intros Hh Ho k' o' H. destruct (Nat.eq_dec k' k) as [->|Hne].
  - rewrite alookup_aset_same in H. inversion H; subst; auto.
  - rewrite alookup_aset_other in H by auto. eauto.
Qed.

Lemma stored_ok_strip o : NoDup (keys (oatts o)) -> stored_ok (strip_obj o).
Proof.
  intro H. unfold stored_ok, strip_obj. simpl. fold (stripl (oatts o)). rewrite keys_stripl, stripl_idem. auto.
Qed.

Lemma nodup_strip_obj o : NoDup (keys (oatts o)) -> NoDup (keys (oatts (strip_obj o))).
Proof. intro H. unfold strip_obj. simpl. fold (stripl (oatts o)). rewrite keys_stripl. auto. Qed.

(* ---- primitives preserve the invariant *)
Lemma transfer_ok m oid oid' m' : heap_ok (heap m) -> transfer m oid = Ok (oid', m') -> heap_ok (heap m').
Proof.
  intros Hh H. unfold transfer in H. destruct (alookup oid (heap m)) as [o|] eqn:Ho; [|discriminate].
  destruct (okind o); inversion H; subst; auto. simpl. apply heap_ok_cons; eauto.
Qed.

Lemma via_ok m oid r oid' m' : heap_ok (heap m) -> via m oid r = Ok (oid', m') -> heap_ok (heap m').
Proof.
  intros Hh H. unfold via in H.
  destruct r; simpl in H; try (eapply transfer_ok; eauto; fail).
  destruct (alookup oid (heap m)) as [o|]; [|eapply transfer_ok; eauto].
  destruct (okind o); (eapply transfer_ok; [|exact H]); simpl; auto.
Qed.

Lemma get_type_key_ok m oid t oa m' : heap_ok (heap m) -> get_type_key m oid t = Ok (oa, m') -> heap_ok (heap m').
Proof.
  intros Hh H. unfold get_type_key in H. destruct (alookup oid (heap m)) as [o|] eqn:Ho; [|discriminate].
  destruct (tlookup t (oatts o)); inversion H; subst; auto.
  simpl. apply heap_ok_aset; auto. simpl. apply nodup_tset. eauto.
Qed.

Lemma put_att_ok m oid t a m' : heap_ok (heap m) -> put_att m oid t a = Ok m' -> heap_ok (heap m').
Proof.
  intros Hh H. unfold put_att in H. destruct (alookup oid (heap m)) as [o|] eqn:Ho; [|discriminate].
  inversion H; subst. simpl. apply heap_ok_aset; auto. simpl. apply nodup_tset. eauto.
Qed.

Lemma attach_ok m oid t n oid' m' : heap_ok (heap m) -> attach m oid t n = Ok (oid', m') -> heap_ok (heap m').
Proof.
  intros Hh H. unfold attach in H. destruct (alookup oid (heap m)) as [o|] eqn:Ho; [|discriminate].
  destruct (match okind o with KStruct => _ | KRes => _ end) as [inner m1] eqn:Hi.
  assert (Hh1 : heap_ok (heap m1)).
  { destruct (okind o), t; inversion Hi; subst; auto. }
  destruct (transfer m1 oid) as [[oid2 m2]|] eqn:Ht; [|discriminate].
  pose proof (transfer_ok _ _ _ _ Hh1 Ht) as Hh2.
  destruct (alookup oid2 (heap m2)) as [o2|] eqn:Ho2; [|discriminate].
  destruct (tlookup t (oatts o2)); [discriminate|]. inversion H; subst.
  simpl. apply heap_ok_aset; auto. simpl. apply nodup_tset. eauto.
Qed.

Lemma destroy_att_heap m t a m' : destroy_att m t a = Ok m' -> heap m' = heap m.
Proof.
  unfold destroy_att. destruct (base_of m a); [|discriminate]. intro H. inversion H; subst. reflexivity.
Qed.

Lemma remove_ok m oid t m' : heap_ok (heap m) -> remove m oid t = Ok m' -> heap_ok (heap m').
Proof.
  intros Hh H. unfold remove in H. destruct (alookup oid (heap m)) as [o|] eqn:Ho; [|discriminate].
  destruct (tlookup t (oatts o)); [|inversion H; subst; auto].
  assert (Hh1 : heap_ok (heap (put_obj m oid (mkObj (okind o) (ox o) (ouuid o) (tremove t (oatts o)))))).
  { simpl. apply heap_ok_aset; auto. simpl. apply nodup_tremove. eauto. }
  destruct (okind o).
  - inversion H; subst. auto.
  - apply destroy_att_heap in H. rewrite H. auto.
Qed.

Lemma destroy_atts_heap l : forall m oid m', destroy_atts m oid l = Ok m' -> heap m' = heap m.
Proof.
  induction l as [|[t a] l IH]; intros m oid m' H; simpl in H.
  - inversion H; auto.
  - destruct (destroy_att m t (set_base a oid)) as [m1|] eqn:H1; [|discriminate].
    apply destroy_att_heap in H1. rewrite <- H1. eauto.
Qed.

Lemma destroy_ok m oid m' : heap_ok (heap m) -> destroy m oid = Ok m' -> heap_ok (heap m').
Proof.
  intros Hh H. unfold destroy in H. destruct (alookup oid (heap m)) as [o|]; [|discriminate].
  destruct (destroy_atts m oid (iter_order (okind o) (oatts o))) as [m1|] eqn:H1; [|discriminate].
  inversion H; subst. simpl. apply destroy_atts_heap in H1. rewrite H1. apply heap_ok_aremove. auto.
Qed.

Lemma load_ok st m i oid st' m' :
  sto_ok st -> heap_ok (heap m) -> load st m i = Ok (oid, st', m') -> sto_ok st' /\ heap_ok (heap m').
Proof.
  intros Hs Hh H. unfold load in H. destruct (alookup i st) as [o|] eqn:Ho; [|discriminate].
  inversion H; subst. split; [apply sto_ok_aremove; auto|].
  simpl. apply heap_ok_cons; auto. apply nodup_strip_obj. apply (Hs _ _ Ho).
Qed.

Lemma save_ok st m oid i st' m' :
  sto_ok st -> heap_ok (heap m) -> save st m oid i = Ok (st', m') -> sto_ok st' /\ heap_ok (heap m').
Proof.
  intros Hs Hh H. unfold save in H. destruct (alookup i st); [discriminate|].
  destruct (alookup oid (heap m)) as [o|] eqn:Ho; [|discriminate]. inversion H; subst. split.
  - apply sto_ok_aset; auto. apply stored_ok_strip. eauto.
  - simpl. apply heap_ok_aremove. auto.
Qed.

(* ---- every transaction preserves the invariant *)
Lemma heap_ok_nil : heap_ok [].
Proof. intros k o H. discriminate. Qed.

Lemma run_tx_ok o st obs s' m :
  sto_ok (sto st) -> run_tx o st = Ok (obs, s', m) -> sto_ok s'.
Proof.
  intros Hs H. assert (H0 : heap_ok (heap (mem0 st))) by (simpl; apply heap_ok_nil).
  destruct o; unfold run_tx, bind in H.
  - (* create *)
    destruct (match k with KStruct => _ | KRes => _ end) as [u m1] eqn:Hu.
    assert (Hh1 : heap_ok (heap m1)) by (destruct k; inversion Hu; subst; simpl; auto).
    destruct (new_obj m1 (mkObj k x u [])) as [oid m2] eqn:Hn.
    assert (Hh2 : heap_ok (heap m2)).
    { unfold new_obj in Hn. inversion Hn; subst. simpl. apply heap_ok_cons; auto. simpl. constructor. }
    destruct (save (sto st) m2 oid i) as [[s2 m3]|] eqn:Hsv; [|discriminate]. inversion H; subst.
    eapply save_ok; eauto.
  - (* attach *)
    destruct (load (sto st) (mem0 st) i) as [[[oid s1] m1]|] eqn:Hl; [|discriminate].
    destruct (load_ok _ _ _ _ _ _ Hs H0 Hl) as [Hs1 Hh1].
    destruct (via m1 oid r) as [[oid1 m2]|] eqn:Hv; [|discriminate].
    pose proof (via_ok _ _ _ _ _ Hh1 Hv) as Hh2.
    destruct (attach m2 oid1 t n) as [[oid2 m3]|] eqn:Ha; [|discriminate].
    pose proof (attach_ok _ _ _ _ _ _ Hh2 Ha) as Hh3.
    destruct (save s1 m3 oid2 i) as [[s2 m4]|] eqn:Hsv; [|discriminate]. inversion H; subst.
    eapply save_ok; eauto.
  - (* remove *)
    destruct (load (sto st) (mem0 st) i) as [[[oid s1] m1]|] eqn:Hl; [|discriminate].
    destruct (load_ok _ _ _ _ _ _ Hs H0 Hl) as [Hs1 Hh1].
    destruct (remove m1 oid t) as [m2|] eqn:Hr; [|discriminate].
    pose proof (remove_ok _ _ _ _ Hh1 Hr) as Hh2.
    destruct (save s1 m2 oid i) as [[s2 m3]|] eqn:Hsv; [|discriminate]. inversion H; subst.
    eapply save_ok; eauto.
  - (* read *)
    destruct (load (sto st) (mem0 st) i) as [[[oid s1] m1]|] eqn:Hl; [|discriminate].
    destruct (load_ok _ _ _ _ _ _ Hs H0 Hl) as [Hs1 Hh1].
    destruct (via m1 oid r) as [[oid1 m2]|] eqn:Hv; [|discriminate].
    pose proof (via_ok _ _ _ _ _ Hh1 Hv) as Hh2.
    destruct (get_type_key m2 oid1 t) as [[oa m3]|] eqn:Hg; [|discriminate].
    pose proof (get_type_key_ok _ _ _ _ _ Hh2 Hg) as Hh3.
    destruct (match oa with Some a => _ | None => _ end) as [ob|]; [|discriminate].
    destruct (save s1 m3 oid1 i) as [[s2 m4]|] eqn:Hsv; [|discriminate]. inversion H; subst.
    eapply save_ok; eauto.
  - (* incr *)
    destruct (load (sto st) (mem0 st) i) as [[[oid s1] m1]|] eqn:Hl; [|discriminate].
    destruct (load_ok _ _ _ _ _ _ Hs H0 Hl) as [Hs1 Hh1].
    destruct (get_type_key m1 oid t) as [[oa m2]|] eqn:Hg; [|discriminate].
    pose proof (get_type_key_ok _ _ _ _ _ Hh1 Hg) as Hh2.
    destruct oa as [a|]; [|discriminate].
    destruct (put_att m2 oid t _) as [m3|] eqn:Hp; [|discriminate].
    pose proof (put_att_ok _ _ _ _ _ Hh2 Hp) as Hh3.
    destruct (save s1 m3 oid i) as [[s2 m4]|] eqn:Hsv; [|discriminate]. inversion H; subst.
    eapply save_ok; eauto.
  - (* setx *)
    destruct (load (sto st) (mem0 st) i) as [[[oid s1] m1]|] eqn:Hl; [|discriminate].
    destruct (load_ok _ _ _ _ _ _ Hs H0 Hl) as [Hs1 Hh1].
    destruct (get_type_key m1 oid t) as [[oa0 m2]|] eqn:Hg; [|discriminate].
    pose proof (get_type_key_ok _ _ _ _ _ Hh1 Hg) as Hh2.
    destruct (via m2 oid r) as [[oid1 m3]|] eqn:Hv; [|discriminate].
    pose proof (via_ok _ _ _ _ _ Hh2 Hv) as Hh3.
    destruct (alookup oid1 (heap m3)) as [o1|] eqn:Ho1; [|discriminate].
    assert (Hh4 : heap_ok (heap (put_obj m3 oid1 (mkObj (okind o1) x (ouuid o1) (oatts o1))))).
    { simpl. apply heap_ok_aset; auto. simpl. eauto. }
    destruct (get_type_key _ oid1 t) as [[oa1 m5]|] eqn:Hg1; [|discriminate].
    pose proof (get_type_key_ok _ _ _ _ _ Hh4 Hg1) as Hh5.
    destruct (match oa1 with Some a => _ | None => _ end) as [ob1|]; [|discriminate].
    destruct (match okind o1 with KStruct => _ | KRes => _ end) as [[ob0 m6]|] eqn:Hk; [|discriminate].
    assert (Hh6 : heap_ok (heap m6)).
    { destruct (okind o1).
      - destruct (get_type_key m5 oid t) as [[oa2 m6']|] eqn:Hg2; [|discriminate].
        pose proof (get_type_key_ok _ _ _ _ _ Hh5 Hg2) as Hh6'.
        destruct oa2 as [a2|]; [destruct (base_of m6' a2); [|discriminate]|]; inversion Hk; subst; auto.
      - inversion Hk; subst; auto. }
    destruct (save s1 m6 oid1 i) as [[s2 m7]|] eqn:Hsv; [|discriminate]. inversion H; subst.
    eapply save_ok; eauto.
  - (* move *)
    destruct (load (sto st) (mem0 st) i) as [[[oid s1] m1]|] eqn:Hl; [|discriminate].
    destruct (load_ok _ _ _ _ _ _ Hs H0 Hl) as [Hs1 Hh1].
    destruct (via m1 oid r) as [[oid1 m2]|] eqn:Hv; [|discriminate].
    pose proof (via_ok _ _ _ _ _ Hh1 Hv) as Hh2.
    destruct (save s1 m2 oid1 j) as [[s2 m3]|] eqn:Hsv; [|discriminate].
    destruct (save_ok _ _ _ _ _ _ Hs1 Hh2 Hsv) as [Hs2 Hh3].
    destruct (alookup oid (heap m3)).
    + destruct (save s2 m3 oid i) as [[s3 m4]|] eqn:Hsv2; [|discriminate]. inversion H; subst.
      eapply save_ok; eauto.
    + inversion H; subst. auto.
  - (* destroy *)
    destruct (load (sto st) (mem0 st) i) as [[[oid s1] m1]|] eqn:Hl; [|discriminate].
    destruct (load_ok _ _ _ _ _ _ Hs H0 Hl) as [Hs1 Hh1].
    destruct (alookup oid (heap m1)) as [o|]; [|discriminate].
    destruct (okind o).
    + inversion H; subst; auto.
    + destruct (destroy m1 oid); [|discriminate]. inversion H; subst; auto.
  - (* forEach *)
    destruct (load (sto st) (mem0 st) i) as [[[oid s1] m1]|] eqn:Hl; [|discriminate].
    destruct (load_ok _ _ _ _ _ _ Hs H0 Hl) as [Hs1 Hh1].
    destruct (for_each m1 oid) as [l|]; [|discriminate].
    destruct (save s1 m1 oid i) as [[s2 m2]|] eqn:Hsv; [|discriminate]. inversion H; subst.
    eapply save_ok; eauto.
Qed.

Lemma step_inv st o : inv st -> inv (fst (fst (step st o))).
Proof.
  intro H. unfold step. destruct (run_tx o st) as [[[obs s'] m]|e] eqn:Hr; simpl; auto.
  unfold inv. simpl. eapply run_tx_ok; eauto.
Qed.

Lemma inv0 : inv state0.
Proof. intros i o H. discriminate. Qed.

(* A value has at most one attachment of each type: in every state reachable by any history, every stored base
   has pairwise distinct attachment keys. *)
Theorem at_most_one_per_type : forall ops i o,
  alookup i (sto (run state0 ops)) = Some o -> NoDup (keys (oatts o)).
Proof.
  intros ops. assert (H : inv (run state0 ops)).
  { generalize inv0. generalize state0. induction ops as [|op ops IH]; intros st Hst; simpl; auto.
    apply IH. apply step_inv. auto. }
  intros i o Ho. apply (H i o Ho).
Qed.

(* ... hence base[T] is unambiguous: removing the attachment found by a lookup leaves none of that type *)
Corollary lookup_after_remove : forall ops i o t,
  alookup i (sto (run state0 ops)) = Some o -> tlookup t (tremove t (oatts o)) = None.
Proof. intros. apply tlookup_tremove_same. Qed.

Lemma run_inv ops : inv (run state0 ops).
Proof.
  generalize inv0. generalize state0. induction ops as [|op ops IH]; intros st Hst; simpl; auto.
  apply IH. apply step_inv. auto.
Qed.
