(* C49  Attachments: executable model of the attachment lifecycle, in the shape of
     interpreter/interpreter_expression.go   VisitAttachExpression
     interpreter/interpreter_statement.go    VisitRemoveStatement
     interpreter/value_composite.go          getTypeKey / SetTypeKey / RemoveTypeKey / forEachAttachment / Destroy / Transfer
   (bbq/vm has the same operations; both engines are compared with this model on every run).

   A composite keeps its attachments as hidden fields keyed by the attachment type: [oatts], a list without
   duplicate keys.  An attachment's `base` is NOT stored with it: the Go field CompositeValue.base is (re)bound
   by SetBaseValue every time the attachment is reached through a composite ([set_base] below), it is lost when the
   value goes through account storage, and it goes stale when a struct base is copied.  [abase] models that field:
   the identity (oid) of the in-memory composite the attachment was last bound to.

   World of the model: base kinds S (struct) and R (resource); attachment types TA, TB for each kind
   (AS, BS for S; AR, BR for R; AR owns a nested resource Inner); account storage with numbered slots.
   A history is a list of operations; each operation is one transaction that loads the base(s) from storage,
   optionally moves them through a route (variable, array, dictionary, optional, function call, resource field),
   operates, and saves back.  A failing transaction leaves the state unchanged and emits nothing. *)
From CV Require Export Base.Prelude.
Open Scope Z_scope.

Inductive bkind : Type := KStruct | KRes.
Inductive tid : Type := TA | TB.

Definition tid_eqb (a b : tid) : bool := match a, b with TA, TA | TB, TB => true | _, _ => false end.
Definition bkind_eqb (a b : bkind) : bool := match a, b with KStruct, KStruct | KRes, KRes => true | _, _ => false end.

(* an attachment as it sits in memory *)
Record att : Type := mkAtt {
  an : Z;                       (* its state: field n *)
  abx0 : Z;                     (* base.x as seen by its initializer *)
  ainner : option (Z * Z);      (* AR only: the nested resource Inner (uuid, v) *)
  abase : option nat }.         (* CompositeValue.base: oid of the composite it is bound to; None = nil *)

(* a base composite in memory *)
Record obj : Type := mkObj {
  okind : bkind;
  ox : Z;
  ouuid : Z;                    (* resources: uuid; structs: 0 *)
  oatts : list (tid * att) }.

(* stored form: what the storage encoding keeps (no Go pointers) *)
Definition strip (a : att) : att := mkAtt (an a) (abx0 a) (ainner a) None.
Definition strip_obj (o : obj) : obj := mkObj (okind o) (ox o) (ouuid o) (map (fun ta => (fst ta, strip (snd ta))) (oatts o)).

Inductive event : Type :=
| EvInner (id v : Z)                 (* C.Inner.ResourceDestroyed(id, v) *)
| EvAtt (t : tid) (bid n bx : Z)     (* C.AR / C.BR .ResourceDestroyed(bid: base.uuid, n: self.n, bx: base.x) *)
| EvBase (id x : Z).                 (* C.R.ResourceDestroyed(id, x) *)

Record state : Type := mkState {
  sto : list (nat * obj);       (* account storage: slot -> stored base (always stripped) *)
  nuuid : Z }.                  (* next uuid the host hands out *)

(* memory of a running transaction *)
Record mem : Type := mkMem {
  heap : list (nat * obj);      (* in-memory composites by identity; stale copies stay reachable *)
  noid : nat;
  uu : Z;
  evs : list event }.

Fixpoint alookup {A} (k : nat) (l : list (nat * A)) : option A :=
  match l with [] => None | (k', a) :: r => if Nat.eqb k k' then Some a else alookup k r end.
Fixpoint aremove {A} (k : nat) (l : list (nat * A)) : list (nat * A) :=
  match l with [] => [] | (k', a) :: r => if Nat.eqb k k' then aremove k r else (k', a) :: aremove k r end.
Definition aset {A} (k : nat) (a : A) (l : list (nat * A)) : list (nat * A) := (k, a) :: aremove k l.

Fixpoint tlookup (t : tid) (l : list (tid * att)) : option att :=
  match l with [] => None | (t', a) :: r => if tid_eqb t t' then Some a else tlookup t r end.
Fixpoint tremove (t : tid) (l : list (tid * att)) : list (tid * att) :=
  match l with [] => [] | (t', a) :: r => if tid_eqb t t' then tremove t r else (t', a) :: tremove t r end.
(* OrderedMap SetMember: replace in place if present, else append *)
Fixpoint tset (t : tid) (a : att) (l : list (tid * att)) : list (tid * att) :=
  match l with
  | [] => [(t, a)]
  | (t', a') :: r => if tid_eqb t t' then (t, a) :: r else (t', a') :: tset t a r
  end.

(* ---------------------------------------------------------------- primitives on the transaction memory *)
Definition new_obj (m : mem) (o : obj) : nat * mem :=
  (noid m, mkMem ((noid m, o) :: heap m) (S (noid m)) (uu m) (evs m)).
Definition put_obj (m : mem) (oid : nat) (o : obj) : mem := mkMem (aset oid o (heap m)) (noid m) (uu m) (evs m).
Definition emit (m : mem) (es : list event) : mem := mkMem (heap m) (noid m) (uu m) (evs m ++ es).
Definition fresh_uuid (m : mem) : Z * mem := (uu m, mkMem (heap m) (noid m) (uu m + 1) (evs m)).

(* CompositeValue.Transfer of a base that stays in memory: a resource is moved (same object), a struct is copied
   (a new object; the attachments are copied with it and keep whatever base pointer they had) *)
Definition transfer (m : mem) (oid : nat) : res (nat * mem) :=
  match alookup oid (heap m) with
  | None => Err Internal
  | Some o => match okind o with
              | KRes => Ok (oid, m)
              | KStruct => Ok (new_obj m o)
              end
  end.

(* attachment.SetBaseValue(base) *)
Definition set_base (a : att) (oid : nat) : att := mkAtt (an a) (abx0 a) (ainner a) (Some oid).

(* what attachment code sees as `base`: the composite its base pointer designates *)
Definition base_of (m : mem) (a : att) : res obj :=
  match abase a with
  | None => Err Crash                                    (* nil dereference *)
  | Some oid => match alookup oid (heap m) with Some o => Ok o | None => Err Internal end
  end.

(* CompositeValue.getTypeKey: look the attachment up; dynamically set its base to this composite *)
Definition get_type_key (m : mem) (oid : nat) (t : tid) : res (option att * mem) :=
  match alookup oid (heap m) with
  | None => Err Internal
  | Some o =>
    match tlookup t (oatts o) with
    | None => Ok (None, m)
    | Some a =>
        let a' := set_base a oid in
        Ok (Some a', put_obj m oid (mkObj (okind o) (ox o) (ouuid o) (tset t a' (oatts o))))
    end
  end.

(* write an attachment's state back (the attachment is reached by reference) *)
Definition put_att (m : mem) (oid : nat) (t : tid) (a : att) : res mem :=
  match alookup oid (heap m) with
  | None => Err Internal
  | Some o => Ok (put_obj m oid (mkObj (okind o) (ox o) (ouuid o) (tset t a (oatts o))))
  end.

(* VisitAttachExpression: attach T(n) to base *)
Definition attach (m : mem) (oid : nat) (t : tid) (n : Z) : res (nat * mem) :=
  match alookup oid (heap m) with
  | None => Err Internal
  | Some o =>
    (* the constructor runs with an implicit argument: a reference to the (not yet transferred) base *)
    let bx0 := ox o in
    let '(inner, m1) :=
      match okind o, t with
      | KRes, TA => let '(u, m1) := fresh_uuid m in (Some (u, n * 10), m1)
      | _, _ => (None, m)
      end in
    (* base = base.Transfer(...) *)
    match transfer m1 oid with
    | Err e => Err e
    | Ok (oid', m2) =>
      match alookup oid' (heap m2) with
      | None => Err Internal
      | Some o' =>
        (* attachment.SetBaseValue(base) *)
        let a := mkAtt n bx0 inner (Some oid') in
        (* base.SetTypeKey: SetMember reports an existing member -> DuplicateAttachmentError *)
        match tlookup t (oatts o') with
        | Some _ => Err UserOther
        | None => Ok (oid', put_obj m2 oid' (mkObj (okind o') (ox o') (ouuid o') (tset t a (oatts o'))))
        end
      end
    end
  end.

(* destruction of one attachment value whose base pointer has been set: nested resources first, then its own
   default destroy event (computed before, emitted after) *)
Definition destroy_att (m : mem) (t : tid) (a : att) : res mem :=
  match base_of m a with
  | Err e => Err e
  | Ok b =>
    let own := EvAtt t (ouuid b) (an a) (ox b) in
    let nested := match ainner a with Some (u, v) => [EvInner u v] | None => [] end in
    Ok (emit m (nested ++ [own]))
  end.

(* VisitRemoveStatement: remove T from base *)
Definition remove (m : mem) (oid : nat) (t : tid) : res mem :=
  match alookup oid (heap m) with
  | None => Err Internal
  | Some o =>
    match tlookup t (oatts o) with
    | None => Ok m                                              (* attachment not present on this base *)
    | Some a =>
        let m1 := put_obj m oid (mkObj (okind o) (ox o) (ouuid o) (tremove t (oatts o))) in
        match okind o with
        | KRes => destroy_att m1 t (set_base a oid)             (* `base` is still available in the destructor *)
        | KStruct => Ok m1
        end
    end
  end.

(* the order in which ForEachField reaches the hidden attachment fields (atree map order of this world's type ids:
   BR / BS before AR / AS); only the grouping "nested before own, attachments before base" is a property *)
Definition iter_order (k : bkind) (l : list (tid * att)) : list (tid * att) :=
  match k with
  | KRes => filter (fun ta => tid_eqb (fst ta) TB) l ++ filter (fun ta => tid_eqb (fst ta) TA) l
  | KStruct => filter (fun ta => tid_eqb (fst ta) TA) l ++ filter (fun ta => tid_eqb (fst ta) TB) l
  end.

Fixpoint destroy_atts (m : mem) (oid : nat) (l : list (tid * att)) : res mem :=
  match l with
  | [] => Ok m
  | (t, a) :: r =>
    match destroy_att m t (set_base a oid) with
    | Err e => Err e
    | Ok m1 => destroy_atts m1 oid r
    end
  end.

(* CompositeValue.Destroy of a resource base *)
Definition destroy (m : mem) (oid : nat) : res mem :=
  match alookup oid (heap m) with
  | None => Err Internal
  | Some o =>
    let own := EvBase (ouuid o) (ox o) in                      (* default event: arguments computed first *)
    match destroy_atts m oid (iter_order (okind o) (oatts o)) with       (* every nested resource, including attachments *)
    | Err e => Err e
    | Ok m1 => Ok (emit (mkMem (aremove oid (heap m1)) (noid m1) (uu m1) (evs m1)) [own])
    end
  end.

(* forEachAttachment: (type, n) of every attachment, each bound to this composite while visited *)
Definition for_each (m : mem) (oid : nat) : res (list (tid * Z)) :=
  match alookup oid (heap m) with
  | None => Err Internal
  | Some o => Ok (map (fun ta => (fst ta, an (snd ta))) (iter_order (okind o) (oatts o)))
  end.

(* ---------------------------------------------------------------- storage *)
(* load<T>(from:)! : decode a fresh in-memory object (base pointers are nil), remove it from storage *)
Definition load (st : list (nat * obj)) (m : mem) (slot : nat) : res (nat * list (nat * obj) * mem) :=
  match alookup slot st with
  | None => Err TypeMismatch                                   (* force-unwrap of nil *)
  | Some o => let '(oid, m1) := new_obj m (strip_obj o) in Ok (oid, aremove slot st, m1)
  end.

(* save(value, to:): fails if the path is occupied *)
Definition save (st : list (nat * obj)) (m : mem) (oid : nat) (slot : nat) : res (list (nat * obj) * mem) :=
  match alookup slot st, alookup oid (heap m) with
  | Some _, _ => Err UserOther                                  (* OverwriteError *)
  | None, None => Err Internal
  | None, Some o => Ok (aset slot (strip_obj o) st, mkMem (aremove oid (heap m)) (noid m) (uu m) (evs m))
  end.

(* ---------------------------------------------------------------- operations = transactions *)
(* routes: how the base travels inside the transaction before it is used; all are moves (resource) or copies (struct)
   through CompositeValue.Transfer *)
Inductive route : Type := RVar | RArray | RDict | ROptional | RCall | RField.

Definition via (m : mem) (oid : nat) (r : route) : res (nat * mem) :=
  match r, alookup oid (heap m) with
  | RField, Some o =>
      (* the wrapping resource Box is a resource of its own: it takes a uuid *)
      match okind o with
      | KRes => transfer (snd (fresh_uuid m)) oid
      | KStruct => transfer m oid
      end
  | _, _ => transfer m oid
  end.

Inductive op : Type :=
| OCreate (i : nat) (k : bkind) (x : Z)
| OAttach (i : nat) (t : tid) (n : Z) (r : route)
| ORemove (i : nat) (t : tid)
| ORead (i : nat) (t : tid) (r : route)          (* [present; n; bx0; base.x; base.uuid] seen through base[T] *)
| OIncr (i : nat) (t : tid)
| OSetX (i : nat) (x : Z) (t : tid) (r : route)  (* move/copy, set x on the new carrier, then read base.x through base[T] of both *)
| OMove (i j : nat) (r : route)
| ODestroy (i : nat)
| OForEach (i : nat).

Definition mem0 (st : state) : mem := mkMem [] 0 (nuuid st) [].

Definition tcode (t : tid) : Z := match t with TA => 0 | TB => 1 end.

(* result of a transaction: the logged observations; new storage; memory at the end (events, uuid counter) *)
Definition run_tx (o : op) (st : state) : res (list Z * list (nat * obj) * mem) :=
  let m := mem0 st in
  match o with
  | OCreate i k x =>
      let '(u, m1) := match k with KRes => fresh_uuid m | KStruct => (0, m) end in
      let '(oid, m2) := new_obj m1 (mkObj k x u []) in
      let* (s', m3) := save (sto st) m2 oid i in
      Ok ([u], s', m3)
  | OAttach i t n r =>
      let* (oid, s1, m1) := load (sto st) m i in
      let* (oid1, m2) := via m1 oid r in
      let* (oid2, m3) := attach m2 oid1 t n in
      let* (s2, m4) := save s1 m3 oid2 i in
      Ok ([], s2, m4)
  | ORemove i t =>
      let* (oid, s1, m1) := load (sto st) m i in
      let* m2 := remove m1 oid t in
      let* (s2, m3) := save s1 m2 oid i in
      Ok ([], s2, m3)
  | ORead i t r =>
      let* (oid, s1, m1) := load (sto st) m i in
      let* (oid1, m2) := via m1 oid r in
      let* (oa, m3) := get_type_key m2 oid1 t in
      let* obs :=
        match oa with
        | None => Ok [0]
        | Some a => let* b := base_of m3 a in Ok [1; an a; abx0 a; ox b; ouuid b]
        end in
      let* (s2, m4) := save s1 m3 oid1 i in
      Ok (obs, s2, m4)
  | OIncr i t =>
      let* (oid, s1, m1) := load (sto st) m i in
      let* (oa, m2) := get_type_key m1 oid t in
      match oa with
      | None => Err TypeMismatch                                 (* base[T]! on an absent attachment *)
      | Some a =>
          let* m3 := put_att m2 oid t (mkAtt (an a + 1) (abx0 a) (ainner a) (abase a)) in
          let* (s2, m4) := save s1 m3 oid i in
          Ok ([an a + 1], s2, m4)
      end
  | OSetX i x t r =>
      let* (oid, s1, m1) := load (sto st) m i in
      (* bind the attachment to the original carrier first, so that a copy carries a stale pointer *)
      let* (_, m2) := get_type_key m1 oid t in
      let* (oid1, m3) := via m2 oid r in
      match alookup oid1 (heap m3) with
      | None => Err Internal
      | Some o1 =>
          let m4 := put_obj m3 oid1 (mkObj (okind o1) x (ouuid o1) (oatts o1)) in
          let* (oa1, m5) := get_type_key m4 oid1 t in
          let* obs1 := match oa1 with None => Ok [0] | Some a => let* b := base_of m5 a in Ok [1; ox b] end in
          (* the struct original is still there and still sees its own x *)
          let* (obs0, m6) :=
            match okind o1 with
            | KRes => Ok ([], m5)
            | KStruct =>
                let* (oa0, m6) := get_type_key m5 oid t in
                match oa0 with None => Ok ([0], m6) | Some a => let* b := base_of m6 a in Ok ([1; ox b], m6) end
            end in
          let* (s2, m7) := save s1 m6 oid1 i in
          Ok (obs1 ++ obs0, s2, m7)
      end
  | OMove i j r =>
      let* (oid, s1, m1) := load (sto st) m i in
      let* (oid1, m2) := via m1 oid r in
      let* (s2, m3) := save s1 m2 oid1 j in
      match alookup oid (heap m3) with
      | Some _ =>                                                (* struct: the original is saved back *)
          let* (s3, m4) := save s2 m3 oid i in Ok ([], s3, m4)
      | None => Ok ([], s2, m3)
      end
  | ODestroy i =>
      let* (oid, s1, m1) := load (sto st) m i in
      match alookup oid (heap m1) with
      | None => Err Internal
      | Some o =>
        match okind o with
        | KRes => let* m2 := destroy m1 oid in Ok ([], s1, m2)
        | KStruct => Ok ([], s1, m1)                             (* a struct value is just dropped *)
        end
      end
  | OForEach i =>
      let* (oid, s1, m1) := load (sto st) m i in
      let* l := for_each m1 oid in
      let* (s2, m2) := save s1 m1 oid i in
      Ok (flat_map (fun tn => [tcode (fst tn); snd tn]) l, s2, m2)
  end.

(* one operation of a history: a failed transaction is reverted *)
Definition step (st : state) (o : op) : state * res (list Z) * list event :=
  match run_tx o st with
  | Ok (obs, s', m) => (mkState s' (uu m), Ok obs, evs m)
  | Err e => (st, Err e, [])
  end.

Fixpoint run (st : state) (ops : list op) : state :=
  match ops with [] => st | o :: r => run (fst (fst (step st o))) r end.

Definition state0 : state := mkState [] 1.
