(* C49  Check function for the per-run case files written by harness/c49. *)
From CV Require Export C49.Model.
Open Scope Z_scope.

Fixpoint zlist_eqb (a b : list Z) : bool :=
  match a, b with
  | [], [] => true
  | x :: a', y :: b' => Z.eqb x y && zlist_eqb a' b'
  | _, _ => false
  end.

Definition event_eqb (a b : event) : bool :=
  match a, b with
  | EvInner i v, EvInner i' v' => Z.eqb i i' && Z.eqb v v'
  | EvAtt t b n x, EvAtt t' b' n' x' => tid_eqb t t' && Z.eqb b b' && Z.eqb n n' && Z.eqb x x'
  | EvBase i x, EvBase i' x' => Z.eqb i i' && Z.eqb x x'
  | _, _ => false
  end.

Fixpoint events_eqb (a b : list event) : bool :=
  match a, b with
  | [], [] => true
  | x :: a', y :: b' => event_eqb x y && events_eqb a' b'
  | _, _ => false
  end.

(* a history and, per operation, what the implementation did: logged observations or error class, and the destroy
   events in emission order *)
Fixpoint check_from (st : state) (ops : list op) (outs : list (res (list Z) * list event)) : bool :=
  match ops, outs with
  | [], [] => true
  | o :: ops', (r, ev) :: outs' =>
      let '(st', r', ev') := step st o in
      res_eqb zlist_eqb r' r && events_eqb ev' ev && check_from st' ops' outs'
  | _, _ => false
  end.

Definition check_case (c : list op * list (res (list Z) * list event)) : bool :=
  check_from state0 (fst c) (snd c).
