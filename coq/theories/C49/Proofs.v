(* C49  Theorems about the attachment lifecycle model, over all states reachable by any history. *)
From CV Require Import C49.Model C49.Lemmas.
From Coq Require Import Permutation.
Open Scope Z_scope.

(* ---------------------------------------------------------------- invariant of the stored world *)
Definition stored_ok (o : obj) : Prop := NoDup (keys (oatts o)) /\ stripl (oatts o) = oatts o.
Definition inv (st : state) : Prop := forall i o, alookup i (sto st) = Some o -> stored_ok o.

Ltac tx_unfold :=
  unfold step, run_tx, bind, load, save, via, attach, remove, destroy, for_each, get_type_key, put_att, transfer,
    destroy_att, base_of, new_obj, put_obj, emit, fresh_uuid, mem0, set_base, strip_obj; simpl.

Lemma strip_obj_stored o : stored_ok o -> strip_obj o = o.
Proof. intros [_ H]. unfold strip_obj. fold (stripl (oatts o)). rewrite H. destruct o; reflexivity. Qed.

(* ---------------------------------------------------------------- attach *)
Definition inner_of (k : bkind) (t : tid) (u n : Z) : option (Z * Z) :=
  match k, t with KRes, TA => Some (u, n * 10) | _, _ => None end.

Theorem attach_spec st i t n r o :
  alookup i (sto st) = Some o ->
  (* an attachment of this type exists: the transaction fails, nothing changes *)
  (tlookup t (oatts o) <> None -> step st (OAttach i t n r) = (st, Err UserOther, [])) /\
  (* otherwise the base is moved into the result: same kind, fields and uuid; the new attachment has seen the base in
     its initializer; the other attachments are untouched *)
  (tlookup t (oatts o) = None ->
   exists st' o' u,
     step st (OAttach i t n r) = (st', Ok [], []) /\
     alookup i (sto st') = Some o' /\
     okind o' = okind o /\ ox o' = ox o /\ ouuid o' = ouuid o /\
     oatts o' = stripl (oatts o) ++ [(t, mkAtt n (ox o) (inner_of (okind o) t u n) None)] /\
     (forall j, j <> i -> alookup j (sto st') = alookup j (sto st))).
Proof.
  intro Hs. split.
  - intro Hp. destruct (tlookup t (oatts o)) as [a0|] eqn:Ht; [|congruence].
    tx_unfold. rewrite Hs. simpl.
    destruct r, (okind o) eqn:K, t; simpl; rewrite ?K; simpl;
      fold (stripl (oatts o)); rewrite ?tlookup_stripl, ?Ht; simpl; reflexivity.
  - intro Ht.
    tx_unfold. rewrite Hs. simpl.
    destruct r, (okind o) eqn:K, t; simpl; rewrite ?K; simpl;
      fold (stripl (oatts o)); rewrite ?tlookup_stripl, ?Ht; simpl; rewrite ?alookup_aremove_same; simpl;
      do 3 eexists; try exact 0; (split; [reflexivity|]); simpl; rewrite Nat.eqb_refl;
      (split; [reflexivity|]); simpl;
      (repeat (split; [reflexivity|]));
      (split; [unfold stripl; rewrite ?stripl_tset; fold (stripl (oatts o));
               rewrite ?stripl_idem; rewrite tset_absent by (rewrite tlookup_stripl, Ht; reflexivity); reflexivity
              | intros j Hj; pose proof Hj as Hj'; apply Nat.eqb_neq in Hj'; rewrite Hj';
                rewrite !alookup_aremove_other by exact Hj; reflexivity]).
Qed.
