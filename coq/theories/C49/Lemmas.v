(* C49  Lemmas about the type-keyed attachment map and the slot maps. *)
From CV Require Import C49.Model.
From Coq Require Import Permutation.
Open Scope Z_scope.

Lemma tid_eqb_refl t : tid_eqb t t = true.
Proof. destruct t; reflexivity. Qed.

Lemma tid_eqb_eq a b : tid_eqb a b = true <-> a = b.
Proof. destruct a, b; simpl; split; intro H; try reflexivity; try discriminate. Qed.

Lemma tid_eqb_neq a b : tid_eqb a b = false <-> a <> b.
Proof. destruct a, b; simpl; split; intro H; try congruence; try discriminate; exfalso; apply H; reflexivity. Qed.

Definition keys (l : list (tid * att)) : list tid := map fst l.

(* ---- tlookup / tset / tremove *)
Lemma tlookup_none_notin t l : tlookup t l = None <-> ~ In t (keys l).
Proof.
  induction l as [|[t' a] l IH]; simpl; [tauto|].
  destruct (tid_eqb t t') eqn:E.
  - apply tid_eqb_eq in E. subst. split; [discriminate|]. intro H. exfalso. apply H. auto.
  - apply tid_eqb_neq in E. rewrite IH. split; intro H.
    + intros [H1|H1]; [congruence|auto].
    + intro H1. apply H. auto.
Qed.

Lemma tset_absent t a l : tlookup t l = None -> tset t a l = l ++ [(t, a)].
Proof.
  induction l as [|[t' a'] l IH]; simpl; auto.
  destruct (tid_eqb t t'); [discriminate|]. intro H. rewrite IH; auto.
Qed.

Lemma tset_same_id t a l : tlookup t l = Some a -> tset t a l = l.
Proof.
  induction l as [|[t' a'] l IH]; simpl; [discriminate|].
  destruct (tid_eqb t t') eqn:E.
  - apply tid_eqb_eq in E. subst. intro H. inversion H; subst. reflexivity.
  - intro H. rewrite IH; auto.
Qed.

Lemma keys_tset_present t a a0 l : tlookup t l = Some a0 -> keys (tset t a l) = keys l.
Proof.
  induction l as [|[t' a'] l IH]; simpl; [discriminate|].
  destruct (tid_eqb t t') eqn:E.
  - apply tid_eqb_eq in E. subst. reflexivity.
  - intro H. simpl. f_equal. auto.
Qed.

Lemma tlookup_tset_same t a l : tlookup t (tset t a l) = Some a.
Proof.
  induction l as [|[t' a'] l IH]; simpl.
  - rewrite tid_eqb_refl. reflexivity.
  - destruct (tid_eqb t t') eqn:E; simpl; [rewrite tid_eqb_refl; reflexivity|rewrite E; auto].
Qed.

Lemma tlookup_tset_other t t' a l : t' <> t -> tlookup t' (tset t a l) = tlookup t' l.
Proof.
  intro Hne. induction l as [|[t0 a0] l IH]; simpl.
  - apply tid_eqb_neq in Hne. rewrite Hne. reflexivity.
  - destruct (tid_eqb t t0) eqn:E; simpl.
    + apply tid_eqb_eq in E. subst t0. apply tid_eqb_neq in Hne. rewrite Hne. reflexivity.
    + destruct (tid_eqb t' t0); auto.
Qed.

Lemma tlookup_tremove_same t l : tlookup t (tremove t l) = None.
Proof.
  induction l as [|[t' a'] l IH]; simpl; auto.
  destruct (tid_eqb t t') eqn:E; simpl; auto. rewrite E. auto.
Qed.

Lemma tlookup_tremove_other t t' l : t' <> t -> tlookup t' (tremove t l) = tlookup t' l.
Proof.
  intro Hne. induction l as [|[t0 a0] l IH]; simpl; auto.
  destruct (tid_eqb t t0) eqn:E; simpl.
  - apply tid_eqb_eq in E. subst t0. apply tid_eqb_neq in Hne. rewrite Hne. auto.
  - destruct (tid_eqb t' t0); auto.
Qed.

Lemma keys_tremove_incl t l x : In x (keys (tremove t l)) -> In x (keys l).
Proof.
  induction l as [|[t' a'] l IH]; simpl; auto.
  destruct (tid_eqb t t'); simpl; intro H; auto. destruct H; auto.
Qed.

Lemma nodup_tremove t l : NoDup (keys l) -> NoDup (keys (tremove t l)).
Proof.
  induction l as [|[t' a'] l IH]; simpl; auto. intro H. inversion H; subst.
  destruct (tid_eqb t t'); simpl; auto. constructor; auto.
  intro Hin. apply H2. eapply keys_tremove_incl; eauto.
Qed.

Lemma nodup_snoc {A} (l : list A) x : NoDup l -> ~ In x l -> NoDup (l ++ [x]).
Proof.
  induction l as [|y l IH]; simpl; intros H Hn.
  - repeat constructor; auto.
  - inversion H; subst. constructor.
    + rewrite in_app_iff. intros [H5|[H5|[]]]; [auto|subst; apply Hn; auto].
    + apply IH; auto.
Qed.

Lemma nodup_tset t a l : NoDup (keys l) -> NoDup (keys (tset t a l)).
Proof.
  intro H. destruct (tlookup t l) as [a0|] eqn:E.
  - rewrite (keys_tset_present _ _ _ _ E). auto.
  - rewrite (tset_absent _ _ _ E). unfold keys. rewrite map_app. simpl.
    apply nodup_snoc; auto. apply tlookup_none_notin; auto.
Qed.

(* ---- strip *)
Definition stripl (l : list (tid * att)) : list (tid * att) := map (fun ta => (fst ta, strip (snd ta))) l.

Lemma keys_stripl l : keys (stripl l) = keys l.
Proof. unfold keys, stripl. rewrite map_map. reflexivity. Qed.

Lemma tlookup_stripl t l : tlookup t (stripl l) = option_map strip (tlookup t l).
Proof.
  induction l as [|[t' a'] l IH]; simpl; auto. destruct (tid_eqb t t'); auto.
Qed.

Lemma strip_idem a : strip (strip a) = strip a.
Proof. reflexivity. Qed.

Lemma stripl_idem l : stripl (stripl l) = stripl l.
Proof. unfold stripl. rewrite map_map. reflexivity. Qed.

Lemma stripl_tset t a l : stripl (tset t a l) = tset t (strip a) (stripl l).
Proof.
  induction l as [|[t' a'] l IH]; simpl; auto. destruct (tid_eqb t t'); simpl; auto. f_equal. auto.
Qed.

Lemma stripl_tremove t l : stripl (tremove t l) = tremove t (stripl l).
Proof.
  induction l as [|[t' a'] l IH]; simpl; auto. destruct (tid_eqb t t'); simpl; auto. f_equal. auto.
Qed.

Lemma strip_set_base a oid : strip (set_base a oid) = strip a.
Proof. reflexivity. Qed.

(* ---- slot maps *)
Lemma alookup_aremove_same {A} k (l : list (nat * A)) : alookup k (aremove k l) = None.
Proof.
  induction l as [|[k' a] l IH]; simpl; auto. destruct (Nat.eqb k k') eqn:E; simpl; auto. rewrite E. auto.
Qed.

Lemma alookup_aremove_other {A} k k' (l : list (nat * A)) : k' <> k -> alookup k' (aremove k l) = alookup k' l.
Proof.
  intro Hne. induction l as [|[k0 a] l IH]; simpl; auto.
  destruct (Nat.eqb k k0) eqn:E; simpl.
  - apply Nat.eqb_eq in E. subst k0. destruct (Nat.eqb k' k) eqn:E'; auto. apply Nat.eqb_eq in E'. congruence.
  - destruct (Nat.eqb k' k0); auto.
Qed.

Lemma alookup_aset_same {A} k (a : A) l : alookup k (aset k a l) = Some a.
Proof. unfold aset. simpl. rewrite Nat.eqb_refl. reflexivity. Qed.

Lemma alookup_aset_other {A} k k' (a : A) l : k' <> k -> alookup k' (aset k a l) = alookup k' l.
Proof.
  intro Hne. unfold aset. simpl. destruct (Nat.eqb k' k) eqn:E.
  - apply Nat.eqb_eq in E. congruence.
  - apply alookup_aremove_other; auto.
Qed.

Lemma alookup_in {A} k (a : A) l : alookup k l = Some a -> In (k, a) l.
Proof.
  induction l as [|[k' a'] l IH]; simpl; [discriminate|].
  destruct (Nat.eqb k k') eqn:E; intro H.
  - apply Nat.eqb_eq in E. inversion H; subst. auto.
  - auto.
Qed.

Lemma in_aremove {A} k (p : nat * A) l : In p (aremove k l) -> In p l.
Proof.
  induction l as [|[k' a'] l IH]; simpl; auto. destruct (Nat.eqb k k'); simpl; intro H; auto. destruct H; auto.
Qed.

(* the iteration order is a permutation of the attachments: each is visited exactly once *)
Lemma iter_order_perm k l : Permutation (iter_order k l) l.
Proof.
  assert (P : forall l, Permutation (filter (fun ta : tid * att => tid_eqb (fst ta) TA) l
                                     ++ filter (fun ta => tid_eqb (fst ta) TB) l) l).
  { induction l0 as [|[t a] l0 IH]; simpl; auto. destruct t; simpl.
    - constructor. auto.
    - apply Permutation_sym. apply Permutation_cons_app. apply Permutation_sym. auto. }
  destruct k; simpl.
  - apply P.
  - eapply Permutation_trans; [apply Permutation_app_comm|apply P].
Qed.
