(* C33  Execution outcomes are deterministic — executable model (definitions only).

   Sources of nondeterminism in the Go runtime are made explicit as an ORACLE the model is
   parameterised by:
     - Go map iteration order: the dirty slab set (atree PersistentSlabStorage.deltas) and the set of
       new account storage maps (AccountStorage.newAccountStorageMapSlabIndices) are Go maps; the
       oracle hands them to commit in an arbitrary order (any permutation);
     - the scheduler: FastCommit encodes slabs with NumCPU workers; the oracle chooses any partition of
       the jobs over the workers and any interleaving of their results.
   The commit logic transcribed here (runtime/storage.go commit, runtime/account_storage.go commit,
   atree storage.go sortedOwnedDeltaKeys / FastCommit) sorts before writing.  The theorems say the
   observable outcome does not depend on the oracle. *)
From CV Require Import Base.Prelude.
From Coq Require Import Permutation.
Open Scope Z_scope.

Notation sid := (Z * Z)%type (only parsing).     (* slab id: account address and slab index, both as uint64 *)

(* the less function of atree's sortedOwnedDeltaKeys *)
Definition sid_ltb (a b : sid) : bool :=
  if fst a =? fst b then snd a <? snd b else fst a <? fst b.
Definition sid_leb (a b : sid) : bool := negb (sid_ltb b a).
Definition sid_eqb (a b : sid) : bool := (fst a =? fst b) && (snd a =? snd b).

Section Sort.
  Context {V : Type}.

  Fixpoint insert (x : sid * V) (l : list (sid * V)) : list (sid * V) :=
    match l with
    | [] => [x]
    | y :: r => if sid_leb (fst x) (fst y) then x :: l else y :: insert x r
    end.

  Definition isort (l : list (sid * V)) : list (sid * V) := fold_right insert [] l.

  Fixpoint lookup (l : list (sid * V)) (k : sid) : option V :=
    match l with
    | [] => None
    | (j, v) :: r => if sid_eqb j k then Some v else lookup r k
    end.

  (* a Go map written with m[k] = v: last write wins, one entry per key *)
  Fixpoint mset (l : list (sid * V)) (k : sid) (v : V) : list (sid * V) :=
    match l with
    | [] => [(k, v)]
    | (j, w) :: r => if sid_eqb j k then (j, v) :: r else (j, w) :: mset r k v
    end.
End Sort.

Section Commit.
  Variable Slab : Type.                  (* decoded slab *)
  Variable Bytes : Type.                 (* encoded register value *)
  Variable enc : Slab -> Bytes.          (* atree.EncodeSlab: an oracle (deterministic function) *)

  (* one ledger write: Some data = SetValue(owner, key, data); None = SetValue(owner, key, nil) (removal) *)
  Definition write := (sid * option Bytes)%type.

  Definition enc1 (kv : sid * option Slab) : write := (fst kv, option_map enc (snd kv)).

  (* slabs with the temporary (zero) address are never committed *)
  Definition owned (d : list (sid * option Slab)) : list (sid * option Slab) :=
    filter (fun kv => negb (fst (fst kv) =? 0)) d.

  (* PersistentSlabStorage.commit (sequential reference): sort the owned dirty keys, encode and write in that order *)
  Definition commit (d : list (sid * option Slab)) : list write :=
    map enc1 (isort (owned d)).

  (* FastCommit: jobs = sorted keys; workers encode their share; the results arrive in some order and are
     collected in a map; finally the registers are written in the order of the sorted keys. *)
  Definition fast_commit_apply (keys : list sid) (results : list write) : list write :=
    map (fun k => (k, match lookup results k with Some d => d | None => None end)) keys.

  Definition fast_commit (d : list (sid * option Slab)) (results : list write) : list write :=
    fast_commit_apply (map fst (isort (owned d))) results.

  (* AccountStorage.commit: new account storage map registers; 0 / 1 entries written directly, otherwise
     sorted by address.  Entries: (address, slab index); as a write: key "stored" of the account. *)
  Definition acct_commit (m : list (sid * Z)) : list (sid * Z) :=
    match m with
    | [] => []
    | [x] => [x]
    | _ => isort m
    end.

  (* Storage.commit: account registers first, then the slabs *)
  Definition storage_commit (newaccts : list (sid * Z)) (d : list (sid * option Slab))
             (results : list write) : list (sid * Z) * list write :=
    (acct_commit newaccts, fast_commit d results).
End Commit.

(* ---------------------------------------------------------------- a small executor with an explicit oracle *)
Inductive effect (Slab Ev : Type) :=
| ESet (k : sid) (v : Slab)            (* a slab becomes dirty *)
| EDel (k : sid)                       (* a slab is removed *)
| ENewAcct (addr : Z) (idx : Z)        (* a new account storage map is created *)
| EEmit (e : Ev)                       (* emit event *)
| ELog (e : Ev)                        (* log *)
| EFail.                               (* the program fails here *)
Arguments ESet {Slab Ev}. Arguments EDel {Slab Ev}. Arguments ENewAcct {Slab Ev}.
Arguments EEmit {Slab Ev}. Arguments ELog {Slab Ev}. Arguments EFail {Slab Ev}.

(* the oracle: how Go iterates a map, how the scheduler distributes and interleaves the encoding work *)
Record oracle := {
  map_order : forall A : Type, list A -> list A;
  map_order_perm : forall A l, Permutation (map_order A l) l;
  partition : forall A : Type, list A -> list (list A);
  partition_perm : forall A l, Permutation (concat (partition A l)) l;
  interleave : forall A : Type, list (list A) -> list A;
  interleave_perm : forall A ll, Permutation (interleave A ll) (concat ll)
}.

Record outcome (Bytes Ev : Type) := mkout {
  o_ok : bool;
  o_events : list Ev;
  o_logs : list Ev;
  o_acct_writes : list (sid * Z);
  o_slab_writes : list (sid * option Bytes)
}.
Arguments mkout {Bytes Ev}.

Section Exec.
  Variable Slab Bytes Ev : Type.
  Variable enc : Slab -> Bytes.

  Record xstate := mkx {
    x_deltas : list (sid * option Slab);
    x_accts : list (sid * Z);
    x_events : list Ev;     (* reversed *)
    x_logs : list Ev        (* reversed *)
  }.

  Fixpoint steps (st : xstate) (p : list (effect Slab Ev)) : bool * xstate :=
    match p with
    | [] => (true, st)
    | e :: r =>
      match e with
      | ESet k v => steps (mkx (mset (x_deltas st) k (Some v)) (x_accts st) (x_events st) (x_logs st)) r
      | EDel k => steps (mkx (mset (x_deltas st) k None) (x_accts st) (x_events st) (x_logs st)) r
      | ENewAcct a i => steps (mkx (x_deltas st) (mset (x_accts st) (a, 0) i) (x_events st) (x_logs st)) r
      | EEmit ev => steps (mkx (x_deltas st) (x_accts st) (ev :: x_events st) (x_logs st)) r
      | ELog ev => steps (mkx (x_deltas st) (x_accts st) (x_events st) (ev :: x_logs st)) r
      | EFail => (false, st)
      end
    end.

  (* run a program: on success commit; the maps are iterated in the oracle's order, the encoding work is
     partitioned and interleaved by the oracle *)
  Definition exec (o : oracle) (p : list (effect Slab Ev)) : outcome Bytes Ev :=
    let '(ok, st) := steps (mkx [] [] [] []) p in
    if ok then
      let d := map_order o _ (x_deltas st) in
      let accts := map_order o _ (x_accts st) in
      let jobs := isort (owned Slab d) in
      let results := interleave o _ (map (map (enc1 Slab Bytes enc)) (partition o _ jobs)) in
      mkout true (rev (x_events st)) (rev (x_logs st))
            (acct_commit accts) (fast_commit Slab Bytes d results)
    else
      mkout false (rev (x_events st)) (rev (x_logs st)) [] [].
End Exec.

(* ---------------------------------------------------------------- check function for observed write sequences *)
(* observed register writes of one committed transaction: (kind, address, index): kind 0 = account
   register "stored", kind 1 = slab register.  Required: the account registers first, sorted by address
   (when more than one), then the slab registers in strictly increasing slab-id order. *)
Definition wkey (w : Z * Z * Z) : sid := (snd (fst w), snd w).

Fixpoint strictly_sorted (l : list sid) : bool :=
  match l with
  | [] => true
  | a :: r => match r with [] => true | b :: _ => sid_ltb a b && strictly_sorted r end
  end.

Fixpoint forallb2 {A B} (f : A -> B -> bool) (l1 : list A) (l2 : list B) : bool :=
  match l1, l2 with
  | [], [] => true
  | a :: r1, b :: r2 => f a b && forallb2 f r1 r2
  | _, _ => false
  end.

Definition check_writes (ws : list (Z * Z * Z)) : bool :=
  let accts := filter (fun w => fst (fst w) =? 0) ws in
  let slabs := filter (fun w => fst (fst w) =? 1) ws in
  let model := map fst (isort (map (fun w => (wkey w, 0)) accts)) ++ map fst (isort (map (fun w => (wkey w, 0)) slabs)) in
  (length ws =? length accts + length slabs)%nat
  && forallb2 (fun w k => sid_eqb (wkey w) k) ws model
  && strictly_sorted (map wkey accts) && strictly_sorted (map wkey slabs).

(* A transaction can commit more than once: reading account.storage.used / capacity (and account creation)
   call CommitStorageTemporarily, a full Storage.commit in the middle of the transaction.  The writes of a
   transaction with k such reads are therefore the concatenation of at most k+1 commit sequences.  Greedy
   split: a new commit starts exactly where the sequence stops increasing in (kind, address, index). *)
Definition wlt (a b : Z * Z * Z) : bool :=
  (fst (fst a) <? fst (fst b)) || ((fst (fst a) =? fst (fst b)) && sid_ltb (wkey a) (wkey b)).

Fixpoint descents (l : list (Z * Z * Z)) : nat :=
  match l with
  | [] => O
  | a :: r => match r with [] => O | b :: _ => (if wlt a b then 0 else 1) + descents r end
  end.

Fixpoint split_commits (cur : list (Z * Z * Z)) (l : list (Z * Z * Z)) : list (list (Z * Z * Z)) :=
  match l with
  | [] => [rev cur]
  | a :: r =>
    match cur with
    | [] => split_commits [a] r
    | p :: _ => if wlt p a then split_commits (a :: cur) r else rev cur :: split_commits [a] r
    end
  end.

Definition check_tx_commits (c : Z * list (Z * Z * Z)) : bool :=
  let '(k, ws) := c in
  let blocks := split_commits [] ws in
  (length blocks <=? Z.to_nat k + 1)%nat && forallb check_writes blocks.
