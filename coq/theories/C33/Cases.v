(* C33 check functions for the per-run case files: the observed sequence of register writes of every
   committed transaction must be the model's commit order (account registers sorted by address, then
   slab registers sorted by slab id; no register written twice). *)
From CV Require Export Base.Prelude C33.Model.
Open Scope Z_scope.

(* (number of temporary commits in the transaction, observed register writes) *)
Definition check_tx_writes (c : Z * list (Z * Z * Z)) : bool := check_tx_commits c.
