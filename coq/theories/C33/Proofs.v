(* C33 proofs: sorting by slab id makes the commit independent of map iteration order and of the
   worker schedule. *)
From CV Require Import Base.Prelude C33.Model.
From Coq Require Import Permutation.
Open Scope Z_scope.

(* ------------------------------------------------------------ the order on slab ids *)
Lemma sid_eqb_eq a b : sid_eqb a b = true <-> a = b.
Proof.
  destruct a as [a1 a2], b as [b1 b2]. unfold sid_eqb. simpl.
  rewrite andb_true_iff, !Z.eqb_eq. split; [intros [-> ->]; reflexivity|intros [= -> ->]; tauto].
Qed.

Lemma sid_eqb_refl a : sid_eqb a a = true.
Proof. now apply sid_eqb_eq. Qed.

Ltac sid_solve :=
  unfold sid_leb, sid_ltb in *; simpl in *;
  repeat match goal with
  | H : context [?a =? ?b] |- _ => destruct (Z.eqb_spec a b)
  | |- context [?a =? ?b] => destruct (Z.eqb_spec a b)
  | H : context [?a <? ?b] |- _ => destruct (Z.ltb_spec a b)
  | |- context [?a <? ?b] => destruct (Z.ltb_spec a b)
  end; simpl in *; try discriminate; try reflexivity; try lia.

Lemma sid_leb_total a b : sid_leb a b = true \/ sid_leb b a = true.
Proof. destruct a as [a1 a2], b as [b1 b2]. sid_solve; auto. Qed.

Lemma sid_leb_antisym a b : sid_leb a b = true -> sid_leb b a = true -> a = b.
Proof. destruct a as [a1 a2], b as [b1 b2]. intros H1 H2. sid_solve; f_equal; lia. Qed.

Lemma sid_leb_trans a b c : sid_leb a b = true -> sid_leb b c = true -> sid_leb a c = true.
Proof. destruct a as [a1 a2], b as [b1 b2], c as [c1 c2]. intros H1 H2. sid_solve. Qed.

Lemma sid_leb_false a b : sid_leb a b = false -> sid_leb b a = true.
Proof. intros H. destruct (sid_leb_total a b); congruence. Qed.

(* ------------------------------------------------------------ sorting *)
Section SortProofs.
  Context {V : Type}.
  Implicit Types l : list (sid * V).

  Inductive sorted : list (sid * V) -> Prop :=
  | sorted_nil : sorted []
  | sorted_cons x l : (forall y, In y l -> sid_leb (fst x) (fst y) = true) -> sorted l -> sorted (x :: l).

  Lemma insert_perm x l : Permutation (insert x l) (x :: l).
  Proof.
    induction l as [|y r IH]; simpl; [reflexivity|].
    destruct (sid_leb (fst x) (fst y)); [reflexivity|].
    rewrite IH. apply perm_swap.
  Qed.

  Lemma insert_sorted x l : sorted l -> sorted (insert x l).
  Proof.
    induction 1 as [|y r Hy Hs IH]; simpl.
    - constructor; [intros ? []|constructor].
    - destruct (sid_leb (fst x) (fst y)) eqn:E.
      + constructor; [|constructor; assumption].
        intros z [<-|Hz]; [assumption|]. eapply sid_leb_trans; eauto.
      + constructor; [|assumption].
        intros z Hz. apply (Permutation_in _ (insert_perm x r)) in Hz.
        destruct Hz as [<-|Hz]; [now apply sid_leb_false|auto].
  Qed.

  Lemma isort_perm l : Permutation (isort l) l.
  Proof.
    induction l as [|x r IH]; simpl; [reflexivity|].
    rewrite insert_perm. now constructor.
  Qed.

  Lemma isort_sorted l : sorted (isort l).
  Proof. induction l as [|x r IH]; simpl; [constructor|now apply insert_sorted]. Qed.

  (* whatever algorithm sorts (Go's sort.Slice, this insertion sort): with distinct keys the result is unique *)
  Lemma sorted_perm_unique l1 : forall l2,
    sorted l1 -> sorted l2 -> Permutation l1 l2 -> NoDup (map fst l1) -> l1 = l2.
  Proof.
    induction l1 as [|x r IH]; intros l2 S1 S2 P ND.
    - apply Permutation_nil in P. now subst.
    - destruct l2 as [|y s]; [apply Permutation_sym, Permutation_nil in P; discriminate|].
      inversion S1 as [|? ? Hx Sr]; subst. inversion S2 as [|? ? Hy Ss]; subst.
      inversion ND as [|? ? Nx NDr]; subst.
      assert (x = y) as ->.
      { assert (In x (y :: s)) as Ix by (eapply Permutation_in; [exact P|now left]).
        assert (In y (x :: r)) as Iy by (eapply Permutation_in; [exact (Permutation_sym P)|now left]).
        destruct Ix as [->|Ix]; [reflexivity|].
        destruct Iy as [->|Iy]; [reflexivity|].
        exfalso. apply Nx.
        assert (fst x = fst y) as -> by (apply sid_leb_antisym; auto).
        now apply in_map. }
      f_equal. apply IH; auto. eapply Permutation_cons_inv; eauto.
  Qed.

  Lemma perm_keys l1 l2 : Permutation l1 l2 -> Permutation (map fst l1) (map fst l2).
  Proof. apply Permutation_map. Qed.

  Lemma isort_perm_invariant l1 l2 :
    NoDup (map fst l1) -> Permutation l1 l2 -> isort l1 = isort l2.
  Proof.
    intros ND P. apply sorted_perm_unique; try apply isort_sorted.
    - rewrite !isort_perm. exact P.
    - eapply Permutation_NoDup; [|exact ND]. apply Permutation_sym, perm_keys, isort_perm.
  Qed.

  Lemma lookup_In l k v : NoDup (map fst l) -> In (k, v) l -> lookup l k = Some v.
  Proof.
    induction l as [|[j w] r IH]; simpl; [tauto|].
    intros ND [H|H].
    - inversion H; subst. now rewrite sid_eqb_refl.
    - inversion ND; subst. destruct (sid_eqb j k) eqn:E.
      + apply sid_eqb_eq in E. subst. exfalso. apply H2.
        change k with (fst (k, v)). now apply in_map.
      + auto.
  Qed.

  Lemma mset_keys l k v : forall x, In x (map fst (mset l k v)) <-> k = x \/ In x (map fst l).
  Proof.
    induction l as [|[j w] r IH]; simpl; intros x.
    - tauto.
    - destruct (sid_eqb j k) eqn:E; simpl.
      + apply sid_eqb_eq in E. subst. tauto.
      + rewrite IH. tauto.
  Qed.

  Lemma mset_nodup l k v : NoDup (map fst l) -> NoDup (map fst (mset l k v)).
  Proof.
    induction l as [|[j w] r IH]; simpl; intros ND.
    - constructor; [intros []|constructor].
    - inversion ND; subst. destruct (sid_eqb j k) eqn:E; simpl.
      + constructor; assumption.
      + constructor; [|auto]. rewrite mset_keys. intros [<-|H]; [|contradiction].
        rewrite sid_eqb_refl in E. discriminate.
  Qed.
End SortProofs.

Lemma filter_perm {A} (f : A -> bool) l1 l2 : Permutation l1 l2 -> Permutation (filter f l1) (filter f l2).
Proof.
  induction 1; simpl.
  - constructor.
  - destruct (f x); [now constructor|assumption].
  - destruct (f x), (f y); try reflexivity; try apply perm_swap.
  - etransitivity; eauto.
Qed.

Lemma filter_nodup_keys {V} (f : sid * V -> bool) (l : list (sid * V)) :
  NoDup (map fst l) -> NoDup (map fst (filter f l)).
Proof.
  induction l as [|x r IH]; simpl; intros ND; [constructor|].
  inversion ND; subst. destruct (f x); simpl; auto.
  constructor; auto. intros H. apply H1.
  apply in_map_iff in H. destruct H as [y [E I]]. apply filter_In in I. destruct I as [I _].
  rewrite <- E. now apply in_map.
Qed.

(* ------------------------------------------------------------ commit *)
Section CommitProofs.
  Variable Slab Bytes : Type.
  Variable enc : Slab -> Bytes.
  Notation enc1 := (enc1 Slab Bytes enc).
  Notation commit := (commit Slab Bytes enc).
  Notation fast_commit := (fast_commit Slab Bytes).
  Notation owned := (owned Slab).

  Lemma owned_nodup d : NoDup (map fst d) -> NoDup (map fst (owned d)).
  Proof. apply filter_nodup_keys. Qed.

  (* Go map iteration order does not matter *)
  Theorem commit_perm_invariant d1 d2 :
    NoDup (map fst d1) -> Permutation d1 d2 -> commit d1 = commit d2.
  Proof.
    intros ND P. unfold Model.commit. f_equal. apply isort_perm_invariant.
    - now apply owned_nodup.
    - now apply filter_perm.
  Qed.

  Lemma enc1_keys l : map fst (map enc1 l) = map fst l.
  Proof. rewrite map_map. reflexivity. Qed.

  (* the worker schedule does not matter: any partition of the jobs, any interleaving of the results *)
  Theorem commit_worker_invariant d parts results :
    NoDup (map fst d) ->
    Permutation (concat parts) (isort (owned d)) ->
    Permutation results (concat (map (map enc1) parts)) ->
    fast_commit d results = commit d.
  Proof.
    intros ND Pp Pr. unfold Model.fast_commit, fast_commit_apply, Model.commit.
    set (S := isort (owned d)) in *.
    assert (PW : Permutation results (map enc1 S)).
    { rewrite Pr. rewrite <- concat_map. now apply Permutation_map. }
    assert (NDS : NoDup (map fst S)).
    { eapply Permutation_NoDup; [|apply owned_nodup; exact ND].
      apply Permutation_sym, perm_keys, isort_perm. }
    assert (NDR : NoDup (map fst results)).
    { eapply Permutation_NoDup; [apply Permutation_sym, perm_keys; exact PW|].
      now rewrite enc1_keys. }
    rewrite map_map. apply map_ext_in. intros [k v] I. simpl.
    unfold Model.enc1. simpl.
    rewrite (lookup_In results k (option_map enc v)); [reflexivity|assumption|].
    eapply Permutation_in; [apply Permutation_sym; exact PW|].
    change (k, option_map enc v) with (enc1 (k, v)). now apply in_map.
  Qed.

  (* new account registers: order of the Go map does not matter *)
  Theorem acct_commit_perm_invariant (m1 m2 : list (sid * Z)) :
    NoDup (map fst m1) -> Permutation m1 m2 -> acct_commit m1 = acct_commit m2.
  Proof.
    intros ND P. pose proof (Permutation_length P) as L.
    destruct m1 as [|a [|b r]]; destruct m2 as [|c [|e s]]; simpl in L; try discriminate; try reflexivity.
    - apply Permutation_length_1 in P. now subst.
    - unfold acct_commit. now apply isort_perm_invariant.
  Qed.
End CommitProofs.

(* ------------------------------------------------------------ the executor does not depend on the oracle *)
Section ExecProofs.
  Variable Slab Bytes Ev : Type.
  Variable enc : Slab -> Bytes.

  Lemma steps_nodup p : forall st ok st',
    NoDup (map fst (x_deltas _ _ st)) -> NoDup (map fst (x_accts _ _ st)) ->
    steps Slab Ev st p = (ok, st') ->
    NoDup (map fst (x_deltas _ _ st')) /\ NoDup (map fst (x_accts _ _ st')).
  Proof.
    induction p as [|e r IH]; simpl; intros st ok st' N1 N2 E.
    - inversion E; subst. auto.
    - destruct e; try (eapply IH; [| |exact E]; simpl; auto using mset_nodup).
      inversion E; subst. auto.
  Qed.

  (* canonical outcome: the same commit with identity orders and a single worker *)
  Definition exec_canon (p : list (effect Slab Ev)) : outcome Bytes Ev :=
    let '(ok, st) := steps Slab Ev (mkx _ _ [] [] [] []) p in
    if ok then
      mkout true (rev (x_events _ _ st)) (rev (x_logs _ _ st))
            (acct_commit (x_accts _ _ st)) (commit Slab Bytes enc (x_deltas _ _ st))
    else mkout false (rev (x_events _ _ st)) (rev (x_logs _ _ st)) [] [].

  Theorem exec_is_canon o p : exec Slab Bytes Ev enc o p = exec_canon p.
  Proof.
    unfold exec, exec_canon.
    destruct (steps Slab Ev (mkx _ _ [] [] [] []) p) as [ok st] eqn:E.
    destruct ok; [|reflexivity].
    destruct (steps_nodup p (mkx _ _ [] [] [] []) _ _ (NoDup_nil _) (NoDup_nil _) E) as [N1 N2].
    f_equal.
    - apply acct_commit_perm_invariant.
      + eapply Permutation_NoDup; [|exact N2]. apply Permutation_sym, Permutation_map, map_order_perm.
      + apply map_order_perm.
    - rewrite (commit_worker_invariant Slab Bytes enc _ (partition o _ (isort (owned Slab (map_order o _ (x_deltas _ _ st)))))).
      + apply commit_perm_invariant.
        * eapply Permutation_NoDup; [|exact N1]. apply Permutation_sym, Permutation_map, map_order_perm.
        * apply map_order_perm.
      + eapply Permutation_NoDup; [|exact N1]. apply Permutation_sym, Permutation_map, map_order_perm.
      + apply partition_perm.
      + apply interleave_perm.
  Qed.

  Theorem exec_oracle_independent o1 o2 p :
    exec Slab Bytes Ev enc o1 p = exec Slab Bytes Ev enc o2 p.
  Proof. now rewrite !exec_is_canon. Qed.
End ExecProofs.
